import FatVerif.Proofs.FatImgOps
import FatVerif.Proofs.FatImgDisjoint
import FatVerif.Proofs.FsCountOps
import FatVerif.Props.C03fat
import FatVerif.Props.C05
/-!
# C03 / C05 / C10 on the device image

The table programs of `Model/Table.lean`, run through the FAT slice of a device (`DiskSlice.strm`, mirrored or not,
through `FsIoAdapter` or raw), related to the decoded FAT of the IMAGE.

* `imgTable fs img = Fat.view fs.fatType (imgFatBytes fs img)`: the decoded FAT of the image, clipped to the FAT
  window (entries outside the window read `bad`). `imgFatView_eq_view`: it coincides with `imgFatView fs img` on every
  entry inside the window, for FAT12/16/32 and every image.
* every successful run of `get` / `count_free` / `alloc_cluster` / `ClusterIterator::free` / `truncate` computes on the
  window's bytes exactly what the pure functions of `Model/FatAlgo.lean` compute (`Proofs/FatImg*.lean`); hence all
  theorems of `C03fat`, `C05`, `C05count`, `C10` about those functions and about `Fat.view` hold of the image's table.

Hypotheses kept: `FatDev` (page table well formed, all FAT copies inside the device, status byte before the FAT, a FAT
copy `< 4 GiB`), `SliceInv` (the slice handed to the program is the FAT window at some offset), and `TableOk` of the
window's bytes for `total` clusters (the window holds `total+2` entries and `total+2 ≤ 0x?FF7`).
-/
namespace FatVerif.C03img
open FatVerif.Fat

/-- the decoded FAT of the image of a mounted volume, clipped to the FAT window -/
def imgTable (fs : FsState) (img : Img) : Nat → FatValue := view fs.fatType (imgFatBytes fs img)

/-- **imgFatView_eq_view** (all widths, all images): inside the window `imgFatView` IS `Fat.view` of the window bytes -/
theorem imgFatView_eq_view (fs : FsState) (img : Img) (c : Nat) (h : InRange fs.fatType (imgFatBytes fs img) c) :
    imgFatView fs img c = imgTable fs img c :=
  FatVerif.imgFatView_eq_view fs img c h

/-- in particular on all entries `[0, total+2)` of a window that holds them -/
theorem imgFatView_eq_view_table (fs : FsState) (img : Img) (total : Nat)
    (ht : TableOk fs.fatType (imgFatBytes fs img) total) (c : Nat) (hc : c < total + 2) :
    imgFatView fs img c = imgTable fs img c :=
  FatVerif.imgFatView_eq_view fs img c (ht.covers c hc)

/-- outside the window the two differ by design: `Fat.view` says `bad`, `imgFatView` decodes the bytes that follow the
    FAT copy. Consequence: `FatWf (imgFatView fs img) total` constrains those foreign bytes too (with mirroring, entry
    `c + entriesPerCopy` aliases entry `c` of the second copy, which contradicts `no_cross` as soon as one chain
    exists) — state invariants on `imgTable`, and use `imgFatView_eq_view_table` to read entries. -/
theorem imgTable_outside (fs : FsState) (img : Img) (c : Nat) (h : ¬ InRange fs.fatType (imgFatBytes fs img) c) :
    imgTable fs img c = .bad :=
  view_outside_window fs img c h

/-- `TableOk` from the geometry: the window holds `total+2` entries, is shorter than 4 GiB, and `total+2 ≤ 0x?FF7` -/
theorem tableOk_img (fs : FsState) (img : Img) (total : Nat)
    (hfit : off fs.fatType (total + 1) + width fs.fatType ≤ (fatSliceOf fs).size)
    (hZ : (fatSliceOf fs).size < u32Lim) (hsmall : total + 2 ≤ badMark fs.fatType) :
    TableOk fs.fatType (imgFatBytes fs img) total :=
  ⟨wf_fatBytes _ _ _, fun c hc => inRange_of_fits _ _ _ img (total + 2) c hc hfit hZ, hsmall⟩

section programs
variable (fs : FsState)
local notation "S0" => fatSliceOf fs

/-- **get** — a successful `Table.get` of entry `c` returns the image's decoded entry and changes nothing -/
theorem get_image {s : DiskSlice} (hs : SliceInv S0 s) (c : Nat) (d : Dev) (hd : FatDev S0 d)
    {v : FatValue} {s' : DiskSlice} {d' : Dev}
    (hr : run (Table.get DiskSlice.strm fs.fatType s c) d = (.ok (v, s'), d')) :
    imgTable fs d.img c = v ∧ SameBytes d d' :=
  ⟨(get_img fs.fatType hs c d hd.wf hd.dev1 hd.small hr).2.1, (get_img fs.fatType hs c d hd.wf hd.dev1 hd.small hr).2.2.2⟩

/-- **countFree_img** — a successful `count_free_clusters` returns the number of free entries `[2,total+2)` of the
    image's table (= the count of the independent specification decoder) and changes nothing -/
theorem countFree_img {s : DiskSlice} (hs : SliceInv S0 s) (total : Nat) (d : Dev) (hd : FatDev S0 d)
    (ht : TableOk fs.fatType (imgFatBytes fs d.img) total) {n : Nat} {s' : DiskSlice} {d' : Dev}
    (hr : run (Table.countFree DiskSlice.strm fs.fatType s total) d = (.ok (n, s'), d')) :
    n = countFreeV (imgTable fs d.img) total ∧
    n = FatSpec.specCountFree fs.fatType.bits (imgFatBytes fs d.img) total ∧ SameBytes d d' := by
  have hsm := ht.small
  have htot : total + 2 < u32Lim := by
    cases hft : fs.fatType <;> rw [hft] at hsm <;> simp only [badMark, u32Lim] at * <;> omega
  obtain ⟨h1, h2⟩ := FatVerif.countFree_img fs.fatType hs total d hd.wf hd.dev1 htot hr
  have h3 := C05.countFree_spec fs.fatType (imgFatBytes fs d.img) total ht
  have h1' : Fat.countFree fs.fatType (imgFatBytes fs d.img) total = .ok n := h1
  rw [h3.1] at h1'
  cases h1'
  exact ⟨rfl, h3.2, h2⟩

/-- **alloc_cluster on the image** — a successful run returns the cluster the view-level allocator finds in the image's
    table; afterwards the image's table is the point update `c := EOC, prev := Data c`; the table stays sane; outside
    the FAT copies only the status byte may have changed -/
theorem alloc_image {s : DiskSlice} (hs : SliceInv S0 s) (prev hint : Option Nat) (total : Nat) (d : Dev)
    (hd : FatDev S0 d) (ht : TableOk fs.fatType (imgFatBytes fs d.img) total)
    (hh : ∀ n, hint = some n → 2 ≤ n) (hp : ∀ p, prev = some p → p < total + 2)
    {c : Nat} {s' : DiskSlice} {d' : Dev}
    (hr : run (Table.allocCluster DiskSlice.strm fs.fatType s prev hint total) d = (.ok (c, s'), d')) :
    allocFindV (imgTable fs d.img) hint total = some c ∧ 2 ≤ c ∧ c < total + 2 ∧ imgTable fs d.img c = .free ∧
    imgTable fs d'.img = allocLinkV (imgTable fs d.img) prev c ∧
    TableOk fs.fatType (imgFatBytes fs d'.img) total ∧ FatFrame S0 d d' := by
  have hsm := ht.small
  have htot : total + 2 < u32Lim := by
    cases hft : fs.fatType <;> rw [hft] at hsm <;> simp only [badMark, u32Lim] at * <;> omega
  obtain ⟨h1, _, h3⟩ := allocCluster_img fs.fatType hs prev hint total d hd htot hr
  have h1' : Fat.allocCluster (imgFatBytes fs d.img) fs.fatType prev hint total = ⟨.ok c, imgFatBytes fs d'.img⟩ := h1
  cases hfind : allocFindV (view fs.fatType (imgFatBytes fs d.img)) hint total with
  | none => rw [allocCluster_noSpace ht prev hint hfind] at h1'; cases h1'
  | some c' =>
    obtain ⟨f', e1, e2, e3, _, _⟩ := allocCluster_ok ht prev hint hh hp hfind
    rw [e1] at h1'
    cases h1'
    obtain ⟨a, b, cf⟩ := allocFindV_some _ _ _ _ hh hfind
    exact ⟨hfind, a, b, cf, e2, e3, h3⟩

/-- **ClusterIterator::free on the image** -/
theorem free_image (s : DiskSlice) (hs : SliceInv S0 s) (c fuel total : Nat) (cs : List Nat) (d : Dev)
    (hd : FatDev S0 d) (ht : TableOk fs.fatType (imgFatBytes fs d.img) total)
    (hch : Chain (imgTable fs d.img) c cs) (hnd : cs.Nodup) (hin : ∀ k, k ∈ cs → k < total + 2)
    (hfuel : cs.length ≤ fuel) {n : Nat} {it' : Table.CIter DiskSlice} {d' : Dev}
    (hr : run (Table.CIter.free DiskSlice.strm fs.fatType fuel ⟨s, some c, false⟩) d = (.ok (n, it'), d')) :
    n = cs.length ∧ (∀ i, i ∈ cs → imgTable fs d'.img i = .free) ∧
    (∀ i, i ∉ cs → imgTable fs d'.img i = imgTable fs d.img i) ∧
    TableOk fs.fatType (imgFatBytes fs d'.img) total ∧ FatFrame S0 d d' := by
  obtain ⟨h1, h2⟩ := free_img fs.fatType fuel s c hs d hd hr
  have h1' : Fat.freeChain fs.fatType (imgFatBytes fs d.img) c fuel = ⟨.ok n, imgFatBytes fs d'.img⟩ := h1
  obtain ⟨f', e1, _, e3, e4, e5⟩ := C03fat.free_spec fs.fatType _ total c cs ht hch hnd hin fuel hfuel
  rw [e1] at h1'
  cases h1'
  exact ⟨rfl, e4, fun i hi => view_eq_of_getRaw_eq (e5 i hi), e3, h2⟩

/-- **ClusterIterator::truncate on the image** -/
theorem truncate_image (s : DiskSlice) (hs : SliceInv S0 s) (c fuel total : Nat) (t : List Nat) (d : Dev)
    (hd : FatDev S0 d) (ht : TableOk fs.fatType (imgFatBytes fs d.img) total)
    (hch : Chain (imgTable fs d.img) c (c :: t)) (hnd : (c :: t).Nodup) (hin : ∀ k, k ∈ c :: t → k < total + 2)
    (hfuel : t.length ≤ fuel) {n : Nat} {it' : Table.CIter DiskSlice} {d' : Dev}
    (hr : run (Table.CIter.truncate DiskSlice.strm fs.fatType fuel ⟨s, some c, false⟩) d = (.ok (n, it'), d')) :
    n = t.length ∧ imgTable fs d'.img c = .eoc ∧ (∀ i, i ∈ t → imgTable fs d'.img i = .free) ∧
    (∀ i, i ≠ c → i ∉ t → imgTable fs d'.img i = imgTable fs d.img i) ∧
    TableOk fs.fatType (imgFatBytes fs d'.img) total ∧ FatFrame S0 d d' := by
  obtain ⟨h1, h2⟩ := truncate_img fs.fatType fuel s c hs d hd hr
  have h1' : Fat.truncateChain fs.fatType (imgFatBytes fs d.img) c fuel = ⟨.ok n, imgFatBytes fs d'.img⟩ := h1
  obtain ⟨f', e1, _, e3, e4, e5, e6⟩ := C03fat.truncate_spec fs.fatType _ total c t ht hch hnd hin fuel hfuel
  rw [e1] at h1'
  cases h1'
  exact ⟨rfl, e4, e5, fun i hi hit => view_eq_of_getRaw_eq (e6 i hi hit), e3, h2⟩

/-- **fatwf_preserved_img** — the structural invariant of the image's table (`FatWf`: links in range and to allocated
    entries, no cross-links, no cycles) is preserved by every successful run of `alloc_cluster` (prev = EOC tail of a
    chain, hint absent or ≥ 2) … -/
theorem fatwf_preserved_img_alloc {s : DiskSlice} (hs : SliceInv S0 s) (prev hint : Option Nat) (total : Nat) (d : Dev)
    (hd : FatDev S0 d) (ht : TableOk fs.fatType (imgFatBytes fs d.img) total)
    (hw : FatWf (imgTable fs d.img) total) (hh : ∀ n, hint = some n → 2 ≤ n)
    (hp : ∀ p, prev = some p → p < total + 2 ∧ imgTable fs d.img p = .eoc)
    {c : Nat} {s' : DiskSlice} {d' : Dev}
    (hr : run (Table.allocCluster DiskSlice.strm fs.fatType s prev hint total) d = (.ok (c, s'), d')) :
    FatWf (imgTable fs d'.img) total ∧ TableOk fs.fatType (imgFatBytes fs d'.img) total := by
  obtain ⟨h1, h2, h3, h4, h5, h6, _⟩ := alloc_image fs hs prev hint total d hd ht hh (fun p h => (hp p h).1) hr
  refine ⟨?_, h6⟩
  rw [h5]
  exact fatWf_alloc hw prev c h4 h2 h3 (fun p h => (hp p h).2)

/-- … of `ClusterIterator::free` started at the head `c` of a chain of allocated clusters (fuel `≥ total+2`, as
    `chainFuel = total+4` provides) … -/
theorem fatwf_preserved_img_free (s : DiskSlice) (hs : SliceInv S0 s) (c fuel total : Nat) (d : Dev)
    (hd : FatDev S0 d) (ht : TableOk fs.fatType (imgFatBytes fs d.img) total)
    (hw : FatWf (imgTable fs d.img) total) (hc1 : 2 ≤ c) (hc2 : c < total + 2) (hc3 : imgTable fs d.img c ≠ .free)
    (hhead : ∀ a, imgTable fs d.img a ≠ .data c) (hfuel : total + 2 ≤ fuel)
    {n : Nat} {it' : Table.CIter DiskSlice} {d' : Dev}
    (hr : run (Table.CIter.free DiskSlice.strm fs.fatType fuel ⟨s, some c, false⟩) d = (.ok (n, it'), d')) :
    FatWf (imgTable fs d'.img) total ∧ TableOk fs.fatType (imgFatBytes fs d'.img) total ∧
    countFreeV (imgTable fs d'.img) total = countFreeV (imgTable fs d.img) total + n := by
  obtain ⟨cs, hch, hnd⟩ := chain_exists hw c
  have hmem := FsCount.chain_members_ok hw hch hc1 hc2 hc3
  have hlen := FsCount.length_le_of_range hnd (fun i hi => (hmem i hi).2.1)
  obtain ⟨e1, e2, e3, e4, _⟩ := free_image fs s hs c fuel total cs d hd ht hch hnd (fun i hi => (hmem i hi).2.1)
    (by omega) hr
  refine ⟨fatWf_free hw hch hhead e2 e3, e4, ?_⟩
  rw [e1]
  exact countFreeV_free_list cs _ _ total hnd hmem e2 (fun i hi => by rw [e3 i hi])

/-- … and of `ClusterIterator::truncate` at an allocated cluster `c` -/
theorem fatwf_preserved_img_truncate (s : DiskSlice) (hs : SliceInv S0 s) (c fuel total : Nat) (d : Dev)
    (hd : FatDev S0 d) (ht : TableOk fs.fatType (imgFatBytes fs d.img) total)
    (hw : FatWf (imgTable fs d.img) total) (hc1 : 2 ≤ c) (hc2 : c < total + 2) (hc3 : imgTable fs d.img c ≠ .free)
    (hfuel : total + 2 ≤ fuel) {n : Nat} {it' : Table.CIter DiskSlice} {d' : Dev}
    (hr : run (Table.CIter.truncate DiskSlice.strm fs.fatType fuel ⟨s, some c, false⟩) d = (.ok (n, it'), d')) :
    FatWf (imgTable fs d'.img) total ∧ TableOk fs.fatType (imgFatBytes fs d'.img) total := by
  obtain ⟨cs, hch, hnd⟩ := chain_exists hw c
  obtain ⟨t, rfl⟩ := chain_head hch
  have hmem := FsCount.chain_members_ok hw hch hc1 hc2 hc3
  have hlen := FsCount.length_le_of_range hnd (fun i hi => (hmem i hi).2.1)
  simp only [List.length_cons] at hlen
  obtain ⟨_, e2, e3, e4, e5, _⟩ := truncate_image fs s hs c fuel total t d hd ht hch hnd
    (fun i hi => (hmem i hi).2.1) (by omega) hr
  exact ⟨fatWf_truncate hw hch e2 e3 e4, e5⟩

end programs

/-! ## frame facts for compositions: the chains of the image table

The general lemmas (any view `g`, both vocabularies — the predicate `Chain g a cs` and the list
`chainFrom g (total + 2) a`) are in `Proofs/FatImgDisjoint.lean` (namespace `FatVerif.FatDisjoint`); here they are
stated on the image: `tabView fs img` (the decoded FAT clipped to `[0, total+2)`), in the `chainFrom` vocabulary of
`FileSim.fileChain`, with the views after alloc / free / truncate given as the step lemmas give them
(`tabView fs' img' = allocLinkV … / freedView …`, `fs'.totalClusters = fs.totalClusters`). -/
section frame
open FatVerif.FileSim FatVerif.FatDisjoint

/-- the clipped view inherits `FatWf` from the decoded window -/
theorem fatWf_tabView {fs : FsState} {sz : Nat} (hg : Geo fs sz) (img : Img)
    (hw : FatWf (imgTable fs img) fs.totalClusters) : FatWf (tabView fs img) fs.totalClusters := by
  have e : ∀ c, c < fs.totalClusters + 2 → tabView fs img c = imgTable fs img c :=
    fun c hc => tabView_eq_view hg img hc
  have lk : ∀ c n, tabView fs img c = .data n → imgTable fs img c = .data n := by
    intro c n h
    by_cases hc : c < fs.totalClusters + 2
    · rw [← e c hc]; exact h
    · unfold tabView at h; rw [if_neg hc] at h; cases h
  obtain ⟨rank, hr⟩ := hw.acyclic
  refine ⟨fun c n h => hw.link_range c n (lk c n h), ?_, fun a b n ha hb => hw.no_cross a b n (lk a n ha) (lk b n hb),
    ⟨rank, fun c n h => hr c n (lk c n h)⟩⟩
  intro c n h
  have h' := lk c n h
  rw [e n (hw.link_range c n h').2]
  exact hw.link_alloc c n h'

variable {fs fs' : FsState} {img img' : Img}

/-- **free_not_in_any_chain**: a free cluster lies on the chain of no other head -/
theorem free_not_in_any_chain (hw : FatWf (tabView fs img) fs.totalClusters) {a x : Nat}
    (hf : tabView fs img x = .free) (hne : x ≠ a) : x ∉ chainFrom (tabView fs img) (fs.totalClusters + 2) a :=
  chainFrom_free_not_mem hw hf hne

/-- **chains_disjoint**: two chains neither of whose heads lies on the other share no cluster -/
theorem chains_disjoint (hw : FatWf (tabView fs img) fs.totalClusters) {a b : Nat}
    (hab : a ∉ chainFrom (tabView fs img) (fs.totalClusters + 2) b)
    (hba : b ∉ chainFrom (tabView fs img) (fs.totalClusters + 2) a) :
    ∀ x, x ∈ chainFrom (tabView fs img) (fs.totalClusters + 2) a → x ∉ chainFrom (tabView fs img) (fs.totalClusters + 2) b :=
  chainFrom_disjoint hw hab hba

/-- **alloc_keeps_other_chains**: after `alloc_cluster(prev)` → `c`, the chain of every head `a ≠ c` that does not
    contain `prev` is the same list -/
theorem alloc_keeps_other_chains (hw : FatWf (tabView fs img) fs.totalClusters) {prev : Option Nat} {c a : Nat}
    (htv : tabView fs' img' = allocLinkV (tabView fs img) prev c) (ht : fs'.totalClusters = fs.totalClusters)
    (hf : tabView fs img c = .free) (hac : a ≠ c)
    (hp : ∀ p, prev = some p → p ∉ chainFrom (tabView fs img) (fs.totalClusters + 2) a) :
    chainFrom (tabView fs' img') (fs'.totalClusters + 2) a = chainFrom (tabView fs img) (fs.totalClusters + 2) a := by
  rw [htv, ht]; exact chainFrom_alloc_other hw hf hac hp

/-- **alloc_extends_chain**: … and the chain that ends in `prev` (an end-of-chain entry) is extended by `c` -/
theorem alloc_extends_chain (hw : FatWf (tabView fs img) fs.totalClusters) {p c a : Nat}
    (htv : tabView fs' img' = allocLinkV (tabView fs img) (some p) c) (ht : fs'.totalClusters = fs.totalClusters)
    (hf : tabView fs img c = .free) (hc1 : 2 ≤ c) (hc2 : c < fs.totalClusters + 2) (hpe : tabView fs img p = .eoc)
    (hac : a ≠ c) (hlast : (chainFrom (tabView fs img) (fs.totalClusters + 2) a).getLast? = some p) :
    chainFrom (tabView fs' img') (fs'.totalClusters + 2) a =
      chainFrom (tabView fs img) (fs.totalClusters + 2) a ++ [c] := by
  rw [htv, ht]; exact chainFrom_alloc_extend hw hf hc1 hc2 hpe hac hlast

/-- **free_keeps_other_chains**: after the clusters `cs` are freed every chain disjoint from `cs` is the same list -/
theorem free_keeps_other_chains (hw : FatWf (tabView fs img) fs.totalClusters) {cs : List Nat} {a : Nat}
    (htv : tabView fs' img' = freedView (tabView fs img) cs) (ht : fs'.totalClusters = fs.totalClusters)
    (hd : ∀ x ∈ chainFrom (tabView fs img) (fs.totalClusters + 2) a, x ∉ cs) :
    chainFrom (tabView fs' img') (fs'.totalClusters + 2) a = chainFrom (tabView fs img) (fs.totalClusters + 2) a := by
  rw [htv, ht]; exact chainFrom_free_other hw hd

/-- **truncate_keeps_other_chains**: after `truncate` at `cur` (tail `t` freed) every chain disjoint from `cur :: t` is
    the same list -/
theorem truncate_keeps_other_chains (hw : FatWf (tabView fs img) fs.totalClusters) {cur : Nat} {t : List Nat} {a : Nat}
    (htv : tabView fs' img' = freedView (updV (tabView fs img) cur .eoc) t) (ht : fs'.totalClusters = fs.totalClusters)
    (hd : ∀ x ∈ chainFrom (tabView fs img) (fs.totalClusters + 2) a, x ∉ cur :: t) :
    chainFrom (tabView fs' img') (fs'.totalClusters + 2) a = chainFrom (tabView fs img) (fs.totalClusters + 2) a := by
  rw [htv, ht]; exact chainFrom_truncate_other hw hd

/-- **truncate_cuts_chain**: … and the chain through `cur` is cut after `cur` -/
theorem truncate_cuts_chain (hw : FatWf (tabView fs img) fs.totalClusters) {cur : Nat} {pre t : List Nat} {a : Nat}
    (htv : tabView fs' img' = freedView (updV (tabView fs img) cur .eoc) t) (ht : fs'.totalClusters = fs.totalClusters)
    (he : chainFrom (tabView fs img) (fs.totalClusters + 2) a = pre ++ cur :: t) :
    chainFrom (tabView fs' img') (fs'.totalClusters + 2) a = pre ++ [cur] := by
  rw [htv, ht]; exact chainFrom_truncate_cut hw he

/-- **fatwf re-established** on the clipped view after alloc / free of a head's chain / truncate -/
theorem fatwf_tabView_alloc (hw : FatWf (tabView fs img) fs.totalClusters) {prev : Option Nat} {c : Nat}
    (htv : tabView fs' img' = allocLinkV (tabView fs img) prev c) (ht : fs'.totalClusters = fs.totalClusters)
    (hf : tabView fs img c = .free) (hc1 : 2 ≤ c) (hc2 : c < fs.totalClusters + 2)
    (hp : ∀ p, prev = some p → tabView fs img p = .eoc) : FatWf (tabView fs' img') fs'.totalClusters := by
  rw [htv, ht]; exact fatWf_allocLinkV hw prev hf hc1 hc2 hp

theorem fatwf_tabView_free (hw : FatWf (tabView fs img) fs.totalClusters) {n : Nat} {cs : List Nat}
    (htv : tabView fs' img' = freedView (tabView fs img) cs) (ht : fs'.totalClusters = fs.totalClusters)
    (hch : Chain (tabView fs img) n cs) (hhead : ∀ a, tabView fs img a ≠ .data n) :
    FatWf (tabView fs' img') fs'.totalClusters := by
  rw [htv, ht]; exact fatWf_freedView hw hch hhead

theorem fatwf_tabView_truncate (hw : FatWf (tabView fs img) fs.totalClusters) {cur : Nat} {t : List Nat}
    (htv : tabView fs' img' = freedView (updV (tabView fs img) cur .eoc) t) (ht : fs'.totalClusters = fs.totalClusters)
    (hch : Chain (tabView fs img) cur (cur :: t)) : FatWf (tabView fs' img') fs'.totalClusters := by
  rw [htv, ht]; exact fatWf_truncView hw hch

end frame

/-! ## the statements are not vacuous: a concrete FAT16 image -/
namespace Ex

/-- a miniature geometry (kept tiny so that the kernel can evaluate runs): 32-byte sectors, two reserved sectors, two
    mirrored FAT copies of one sector (16 entries) each at bytes 64 and 96, 6 data clusters; status byte at 0x25 -/
def fs16 : FsState :=
  { fatType := .fat16, bps := 32, spc := 1, reserved := 2, fats := 2, spf := 1, totalClusters := 6,
    firstDataSector := 5, rootEntries := 1, rootDirSectors := 1 }

/-- the example table of `C03fat` (chains 2→3, 5→7; clusters 4, 6 free) in both FAT copies of a 512-byte image -/
def img0 : Img := ((Img.empty 512).write 64 C03fat.exTab.toList).write 96 C03fat.exTab.toList

def dev : Dev := { img := img0, fs := fs16 }

theorem dev_ok : FatDev (fatSliceOf fs16) dev :=
  ⟨Img.wf_write _ (Img.wf_write _ (Img.wf_empty _) _ _) _ _, by decide, by decide, by decide, by decide⟩

theorem table_ok : TableOk .fat16 (imgFatBytes fs16 img0) 6 :=
  tableOk_img fs16 img0 6 (by decide) (by decide) (by decide)

/-- the image's table is the example table -/
example : (List.range 8).map (imgTable fs16 img0) =
    [.eoc, .eoc, .data 3, .eoc, .free, .data 7, .free, .eoc] := by decide +kernel

/-- one `alloc_cluster(prev = 7, hint = 7)` through the mirrored FAT slice, evaluated: it returns cluster 4, … -/
example : (run (Table.allocCluster DiskSlice.strm .fat16 (fatSliceOf fs16) (some 7) (some 7) 6) dev).1.toOption.map
    (·.1) = some 4 := by decide +kernel

/-- … which is what the view-level allocator finds in the image's table, … -/
example : allocFindV (imgTable fs16 img0) (some 7) 6 = some 4 := by decide +kernel

/-- … afterwards the image's table is the point update `7 ↦ Data 4, 4 ↦ EOC` of the table before, … -/
example : (List.range 8).map (imgTable fs16
      (run (Table.allocCluster DiskSlice.strm .fat16 (fatSliceOf fs16) (some 7) (some 7) 6) dev).2.img) =
    [.eoc, .eoc, .data 3, .eoc, .eoc, .data 7, .free, .data 4] := by decide +kernel

example : (List.range 8).map (allocLinkV (imgTable fs16 img0) (some 7) 4) =
    [.eoc, .eoc, .data 3, .eoc, .eoc, .data 7, .free, .data 4] := by decide +kernel

/-- … both FAT copies hold the same bytes, the status byte 0x25 was set to "dirty" (by `FsIoAdapter`, before the first
    FAT write), and the bytes before and after the FAT area are untouched -/
example : (run (Table.allocCluster DiskSlice.strm .fat16 (fatSliceOf fs16) (some 7) (some 7) 6) dev).2.img.read 64 32 =
    (run (Table.allocCluster DiskSlice.strm .fat16 (fatSliceOf fs16) (some 7) (some 7) 6) dev).2.img.read 96 32 := by
  decide +kernel

example : (run (Table.allocCluster DiskSlice.strm .fat16 (fatSliceOf fs16) (some 7) (some 7) 6) dev).2.img.getByte 0x25 = 1 ∧
    img0.getByte 0x25 = 0 := by decide +kernel

example : (run (Table.allocCluster DiskSlice.strm .fat16 (fatSliceOf fs16) (some 7) (some 7) 6) dev).2.img.read 128 32 =
    img0.read 128 32 := by decide +kernel

/-- the hypotheses of `alloc_image` / `fatwf_preserved_img_alloc` hold of the example -/
example : FatDev (fatSliceOf fs16) dev ∧ TableOk .fat16 (imgFatBytes fs16 dev.img) 6 ∧
    SliceInv (fatSliceOf fs16) (fatSliceOf fs16) ∧ imgTable fs16 dev.img 7 = .eoc :=
  ⟨dev_ok, table_ok, SliceInv.self (by decide), by decide +kernel⟩

/-! the frame facts on the example: chains 2→3 and 5→7, clusters 4 and 6 free -/

theorem tab16 : ∀ c, c < 8 → FileSim.tabView fs16 img0 c =
    [FatValue.eoc, .eoc, .data 3, .eoc, .free, .data 7, .free, .eoc].getD c .bad := by decide +kernel

theorem fatwf16 : FatWf (FileSim.tabView fs16 img0) fs16.totalClusters := by
  have key : ∀ c n, FileSim.tabView fs16 img0 c = .data n → (c = 2 ∧ n = 3) ∨ (c = 5 ∧ n = 7) := by
    intro c n h
    have hc : c < 8 := by
      apply Classical.byContradiction
      intro hc
      unfold FileSim.tabView at h
      rw [if_neg (show ¬ c < fs16.totalClusters + 2 from hc)] at h; cases h
    rw [tab16 c hc] at h
    have : c = 0 ∨ c = 1 ∨ c = 2 ∨ c = 3 ∨ c = 4 ∨ c = 5 ∨ c = 6 ∨ c = 7 := by omega
    rcases this with rfl | rfl | rfl | rfl | rfl | rfl | rfl | rfl <;> first | (cases h; omega) | cases h
  refine ⟨?_, ?_, ?_, ⟨fun c => 10 - c, ?_⟩⟩
  · intro c n h; rcases key c n h with ⟨_, rfl⟩ | ⟨_, rfl⟩ <;> decide
  · intro c n h
    rcases key c n h with ⟨_, rfl⟩ | ⟨_, rfl⟩
    · rw [tab16 3 (by decide)]; decide
    · rw [tab16 7 (by decide)]; decide
  · intro a b n ha hb
    rcases key a n ha with ⟨rfl, rfl⟩ | ⟨rfl, rfl⟩ <;> rcases key b _ hb with ⟨rfl, h⟩ | ⟨rfl, h⟩ <;> first | rfl | omega
  · intro c n h; rcases key c n h with ⟨rfl, rfl⟩ | ⟨rfl, rfl⟩ <;> (dsimp only; omega)

example : FileSim.chainFrom (FileSim.tabView fs16 img0) 8 2 = [2, 3] ∧
    FileSim.chainFrom (FileSim.tabView fs16 img0) 8 5 = [5, 7] := by decide +kernel

/-- cluster 4 is free, hence on neither chain; the two chains are disjoint -/
example : 4 ∉ FileSim.chainFrom (FileSim.tabView fs16 img0) (fs16.totalClusters + 2) 5 :=
  free_not_in_any_chain fatwf16 (by decide +kernel) (by decide)

example : ∀ x, x ∈ FileSim.chainFrom (FileSim.tabView fs16 img0) (fs16.totalClusters + 2) 2 →
    x ∉ FileSim.chainFrom (FileSim.tabView fs16 img0) (fs16.totalClusters + 2) 5 :=
  chains_disjoint fatwf16 (by decide +kernel) (by decide +kernel)

/-- after the allocation `alloc_cluster(Some(7))` → 4 of the example above the chain of 5 is `[5, 7, 4]` and the chain
    of 2 is what it was — as `alloc_extends_chain` / `alloc_keeps_other_chains` say -/
example : FileSim.chainFrom (allocLinkV (FileSim.tabView fs16 img0) (some 7) 4) 8 5 = [5, 7, 4] ∧
    FileSim.chainFrom (allocLinkV (FileSim.tabView fs16 img0) (some 7) 4) 8 2 = [2, 3] := by decide +kernel

end Ex
end FatVerif.C03img
