import FatVerif.Proofs.NoWriteModel6
/-! # C14 — flushed data survives a power cut (program-level facts about the model: what is in the device log when
`flush` / `write` return)

The device log (`Dev.log`, newest first) is the ordered sequence of device writes and device flushes a crash model
consumes. `flush_persists`: a successful `File::flush` ends with a device flush, and if the handle's directory-entry
editor was dirty its 32-byte record has been written at the entry's position before that flush. `write_through`:
`File::write` never buffers — when it returns `n > 0` the data bytes are the newest write record of the log. -/
namespace FatVerif

theorem entryChunkSizes_sum : FileH.entryChunkSizes.sum = 32 := by decide

theorem run_flush_spec (d : Dev) {u : Unit} {d' : Dev} (hr : run Prog.flush d = (.ok u, d')) :
    d'.log = .flush :: d.log ∧ d'.fs = d.fs := by
  have hc : (d.count .f).fs = d.fs ∧ (d.count .f).log = d.log := by unfold Dev.count; simp
  simp only [Prog.flush, run, stepOp, devCall, devCallCore] at hr
  split at hr
  · cases hr
  · cases hr; exact ⟨by simp [hc.2], hc.1⟩

/-- `DirEntryEditor::flush`, successful: a clean editor writes nothing; a dirty one writes its serialized record, as
    pieces tiling `[pos, pos + 32)`, and becomes clean -/
theorem flushDirEntry_spec (f : FileH) (d : Dev) {f' : FileH} {d' : Dev}
    (hr : run f.flushDirEntry d = (.ok f', d')) :
    (∀ e, f.entry = some e → e.dirty = true →
      f' = { f with entry := some { e with dirty := false } } ∧
      ∃ items, d'.log = items.reverse ++ d.log ∧ Pieces e.pos (e.data.serialize.take 32) items) ∧
    ((∀ e, f.entry = some e → e.dirty = false) → f' = f ∧ d'.log = d.log) := by
  unfold FileH.flushDirEntry at hr
  split at hr
  · rename_i e he
    split at hr
    · rename_i hdirty
      rcases run_bind_cases hr with ⟨_, d1, h1, h2⟩ | ⟨e', _, he'⟩
      · have hs := run_seekStart_spec _ d h1
        rcases run_bind_cases h2 with ⟨u2, d2, h3, h4⟩ | ⟨e', _, he'⟩
        · obtain ⟨items, hl, hp, _⟩ := writeChunks_dev_pieces _ d1 _ _ h3
          have h4' : run (Prog.pure ({ f with entry := some { e with dirty := false } } : FileH)) d2 = (.ok f', d') := h4
          simp only [run] at h4'
          cases h4'
          refine ⟨fun e0 he0 _ => ?_, fun hcl => ?_⟩
          · rw [he] at he0; cases he0
            refine ⟨rfl, items, by rw [hl, hs.2.1], ?_⟩
            rw [flatten_chunksOf, entryChunkSizes_sum, hs.2.2 _ rfl] at hp
            exact hp
          · have := hcl e he; rw [hdirty] at this; cases this
        · cases he'
      · cases he'
    · rename_i hnd
      have hr' : run (Prog.pure f) d = (.ok f', d') := hr
      simp only [run] at hr'; cases hr'
      refine ⟨fun e0 he0 hd0 => ?_, fun _ => ⟨rfl, rfl⟩⟩
      rw [he] at he0; cases he0; exact absurd hd0 hnd
  · rename_i hnone
    have hr' : run (Prog.pure f) d = (.ok f', d') := hr
    simp only [run] at hr'; cases hr'
    refine ⟨fun e0 he0 _ => ?_, fun _ => ⟨rfl, rfl⟩⟩
    rw [hnone] at he0; cases he0

/-- **`flush_persists`**: after `File::flush` succeeded the handle's editor is not dirty, the newest log item is a
    device flush, and — if the editor was dirty — the record `e.data.serialize` (its first 32 bytes, i.e. all of it
    for a well-formed entry: `DirFileEntryData.serialize_length`) was written at `e.pos`, tiled by the write records
    `items` (oldest first) that immediately precede that flush -/
theorem flush_persists (f : FileH) (d : Dev) {f' : FileH} {d' : Dev} (hr : run f.flush d = (.ok f', d')) :
    CleanFile f' ∧ d'.log.head? = some .flush ∧
    (∀ e, f.entry = some e → e.dirty = true →
      f' = { f with entry := some { e with dirty := false } } ∧
      ∃ items, d'.log = .flush :: (items.reverse ++ d.log) ∧ Pieces e.pos (e.data.serialize.take 32) items) ∧
    ((∀ e, f.entry = some e → e.dirty = false) → f' = f ∧ d'.log = .flush :: d.log) := by
  unfold FileH.flush at hr
  rcases run_bind_cases hr with ⟨f1, d1, h1, h2⟩ | ⟨e', _, he'⟩
  · rcases run_bind_cases h2 with ⟨u, d2, h3, h4⟩ | ⟨e', _, he'⟩
    · have h4' : run (Prog.pure f1) d2 = (.ok f', d') := h4
      simp only [run] at h4'
      cases h4'
      have hfl := run_flush_spec d1 h3
      have hsp := flushDirEntry_spec f d h1
      refine ⟨?_, by rw [hfl.1]; rfl, fun e he hd => ?_, fun hcl => ?_⟩
      · intro e he
        cases hfe : f.entry with
        | none =>
          have := (hsp.2 (fun e0 he0 => by rw [hfe] at he0; cases he0)).1
          rw [this, hfe] at he; cases he
        | some e0 =>
          cases hd0 : e0.dirty with
          | true =>
            have := (hsp.1 e0 hfe hd0).1
            rw [this] at he; cases he; rfl
          | false =>
            have := (hsp.2 (fun e1 he1 => by rw [hfe] at he1; cases he1; exact hd0)).1
            rw [this, hfe] at he; cases he; exact hd0
      · obtain ⟨hf, items, hl, hp⟩ := hsp.1 e he hd
        exact ⟨hf, items, by rw [hfl.1, hl], hp⟩
      · obtain ⟨hf, hl⟩ := hsp.2 hcl
        exact ⟨hf, by rw [hfl.1, hl]⟩
    · cases he'
  · cases he'

/-- `update_dir_entry_after_write` reads the clock only -/
theorem updateAfterWrite_log (f : FileH) (d : Dev) {r d'} (hr : run f.updateAfterWrite d = (r, d')) :
    d'.log = d.log := by
  unfold FileH.updateAfterWrite at hr
  split at hr
  · rcases run_bind_cases hr with ⟨t, d1, h1, h2⟩ | ⟨e', h1, _⟩
    · simp only [Prog.now, run, stepOp] at h1
      have h2' : run (Prog.pure _) d1 = (r, d') := h2
      simp only [run] at h2'
      cases h1; cases h2'
      rfl
    · simp only [Prog.now, run, stepOp] at h1; cases h1
  · have hr' : run (Prog.pure f) d = (r, d') := hr
    simp only [run] at hr'; cases hr'; rfl

theorem run_write_ok_spec (bs : List Nat) (d : Dev) {m : Nat} {d1 : Dev} (hr : run (Prog.write bs) d = (.ok m, d1)) :
    m ≤ bs.length ∧ d1.log = .write d.pos (bs.take m) :: d.log := by
  simp only [Prog.write, run] at hr
  rcases stepOp_write_spec bs d hr with ⟨_, ⟨e, he, _⟩ | ⟨m', hm, hle, hlog, _⟩⟩
  · cases he
  · cases hm; exact ⟨hle, hlog⟩

/-- **`write_through`**: the model never buffers file data — when `File::write` returns `n > 0`, the `n` bytes
    `buf.take n` are the NEWEST record of the device log (a single device write at some offset `off`), i.e. they reached
    the device before the call returned (only the handle's 32-byte directory record is deferred to `flush`) -/
theorem write_through (f : FileH) (buf : List Nat) (d : Dev) {n : Nat} {f' : FileH} {d' : Dev}
    (hr : run (f.write buf) d = (.ok (n, f'), d')) (hn : n > 0) :
    ∃ off, d'.log.head? = some (.write off (buf.take n)) := by
  unfold FileH.write at hr
  rcases run_bind_cases hr with ⟨fs, d0, h0, hr⟩ | ⟨e, _, he⟩
  rotate_left
  · cases he
  dsimp only at hr
  split at hr
  · have hr' : run (Prog.pure ((0 : Nat), f)) d0 = (.ok (n, f'), d') := hr
    simp only [run] at hr'; cases hr'; omega
  · rcases run_bind_cases hr with ⟨_, d1, _, hr⟩ | ⟨e, _, he⟩
    rotate_left
    · cases he
    rcases run_bind_cases hr with ⟨⟨cur, f1⟩, d2, _, hr⟩ | ⟨e, _, he⟩
    rotate_left
    · cases he
    dsimp only at hr
    rcases run_bind_cases hr with ⟨off, d3, _, hr⟩ | ⟨e, _, he⟩
    rotate_left
    · cases he
    rcases run_bind_cases hr with ⟨_, d4, _, hr⟩ | ⟨e, _, he⟩
    rotate_left
    · cases he
    rcases run_bind_cases hr with ⟨m, d5, hw, hr⟩ | ⟨e, _, he⟩
    rotate_left
    · cases he
    have hws := run_write_ok_spec _ d4 hw
    split at hr
    · have hr' : run (Prog.pure ((0 : Nat), f1)) d5 = (.ok (n, f'), d') := hr
      simp only [run] at hr'; cases hr'; omega
    · rcases run_bind_cases hr with ⟨f2, d6, hu, hr⟩ | ⟨e, _, he⟩
      rotate_left
      · cases he
      have hr' : run (Prog.pure (m, f2)) d6 = (.ok (n, f'), d') := hr
      simp only [run] at hr'; cases hr'
      have hlog := updateAfterWrite_log _ d5 hu
      refine ⟨d4.pos, ?_⟩
      have := hws.1
      simp only [List.length_take] at this
      rw [hlog, hws.2, List.take_take, Nat.min_eq_left (by omega)]
      rfl

/-! ## the statements are not vacuous -/

namespace C14ex
def fs16 : FsState :=
  { fatType := .fat16, bps := 512, spc := 1, reserved := 1, fats := 1, spf := 1, totalClusters := 5,
    firstDataSector := 2, rootEntries := 16, rootDirSectors := 1, fsInfo := { free := some 4 } }
def dev16 : Dev := { img := Img.empty 4096, fs := fs16 }
def dirtyFile : FileH :=
  { firstCluster := some 2, currentCluster := none, offset := 0,
    entry := some { data := DirFileEntryData.new (List.replicate 11 65) 0, pos := 1024, dirty := true } }
end C14ex

/-- flushing a dirty handle succeeds here: 12 chunk writes (11+1+1+1+2+2+2+2+2+2+2+4 bytes from offset 1024), then
    the device flush -/
example : resErr (run C14ex.dirtyFile.flush C14ex.dev16).1 = none ∧
    (run C14ex.dirtyFile.flush C14ex.dev16).2.log.length = 13 ∧
    (run C14ex.dirtyFile.flush C14ex.dev16).2.log.head? = some .flush ∧
    (run C14ex.dirtyFile.flush C14ex.dev16).2.log.getLast? = some (.write 1024 (List.replicate 11 65)) := by
  decide +kernel

/-- a successful 3-byte `File::write` at offset 0 of cluster 2: the data is the newest log record -/
example : ((run (({ C14ex.dirtyFile with currentCluster := none }).write [7, 8, 9]) C14ex.dev16).2.log.head? =
    some (.write 1024 [7, 8, 9])) := by
  decide +kernel

end FatVerif
