import FatVerif.Proofs.LfnGen
import FatVerif.Proofs.LfnUtf16
/-!
# C15 (long-name part) — generator ∘ reader round trip, shape of generated runs (C03.4), UTF-16
-/
namespace FatVerif
open Lfn

namespace C15
/-- "FFFF    TXT" with attribute 0x20 -/
def sfn : List Nat := [70, 70, 70, 70, 32, 32, 32, 32, 84, 88, 84] ++ 0x20 :: List.replicate 20 0
end C15

/-- **C15.3** For EVERY name of 1 … 255 UTF-16 units none of which is `0x0000`, reading the slots
    `LfnEntriesGenerator` writes, followed by a short file entry whose checksum they carry, returns exactly one entry
    with exactly those units — in both buffer variants.  No condition on the last unit: a trailing U+FFFF survives,
    also when the length is a multiple of 13 (no terminator slot). -/
theorem lfn_roundtrip (alloc skipVolume : Bool) (name sfn : List Nat)
    (h1 : 1 ≤ name.length) (h255 : name.length ≤ 255) (hu : ∀ x ∈ name, x < 65536)
    (hnz : ∀ x ∈ name, x ≠ 0) (hsfn : slotClass sfn = .file) :
    readDirEntries alloc skipVolume (lfnGenerate name (lfnChecksum (sfnName sfn)) ++ [sfn]) =
      [⟨sfn, name, 0, numParts name.length + 1⟩] := by
  obtain ⟨g1, g2, g3, g4⟩ := generate_complete name (lfnChecksum (sfnName sfn)) h1 (by omega) hu
  rw [read_complete_run alloc skipVolume _ sfn g1 g3 hsfn, g2, g4, cutAtNul_padded _ hnz, capName,
    if_neg (by omega)]

/-- What the reader does with a 20-slot run holding 256 … 260 units (the library never writes one: names are validated
    to at most 255 bytes first): the entry gets NO long name, i.e. it falls back to the short name — both variants. -/
theorem lfn_overlong_falls_back (alloc skipVolume : Bool) (name sfn : List Nat)
    (h256 : 256 ≤ name.length) (h260 : name.length ≤ 260) (hu : ∀ x ∈ name, x < 65536)
    (hnz : ∀ x ∈ name, x ≠ 0) (hsfn : slotClass sfn = .file) :
    readDirEntries alloc skipVolume (lfnGenerate name (lfnChecksum (sfnName sfn)) ++ [sfn]) =
      [⟨sfn, [], 0, 21⟩] := by
  obtain ⟨g1, g2, g3, g4⟩ := generate_complete name (lfnChecksum (sfnName sfn)) (by omega) h260 hu
  have hn : numParts name.length = 20 := by unfold numParts; omega
  rw [read_complete_run alloc skipVolume _ sfn g1 g3 hsfn, g2, g4, cutAtNul_padded _ hnz, capName,
    if_pos (by omega), hn]

example : readDirEntries false true (lfnGenerate [0x61, 0x62, 0x4E2D] (lfnChecksum (sfnName C15.sfn)) ++ [C15.sfn]) =
    [⟨C15.sfn, [0x61, 0x62, 0x4E2D], 0, 2⟩] :=
  lfn_roundtrip false true _ _ (by simp) (by simp) (by decide) (by decide) (by decide)

/-- regression (former F12 witness): the name `"a\u{FFFF}"` reads back unit for unit (before commit 712f847 it read
    back as `"a"`), and so does a 13-unit name ending in U+FFFF, which has no terminator slot — both variants -/
theorem trailing_ffff_regression :
    (∀ alloc, readDirEntries alloc true (lfnGenerate [0x61, 0xFFFF] (lfnChecksum (sfnName C15.sfn)) ++ [C15.sfn]) =
      [⟨C15.sfn, [0x61, 0xFFFF], 0, 2⟩]) ∧
    (∀ alloc, readDirEntries alloc true
        (lfnGenerate (List.replicate 12 0x61 ++ [0xFFFF]) (lfnChecksum (sfnName C15.sfn)) ++ [C15.sfn]) =
      [⟨C15.sfn, List.replicate 12 0x61 ++ [0xFFFF], 0, 2⟩]) := by
  decide +kernel

/-- **C03.4** The slots produced for 1 … 255 units: `n = ⌈len/13⌉` slots of 32 bytes; slot `i` carries
    order `n − i` (first: `| 0x40`), attribute `0x0F`, type 0, the checksum, first-cluster 0 and 13 units; in name
    order the units are the name, then a single `0x0000` and `0xFFFF` padding iff `len` is not a multiple of 13;
    they form a complete run in the sense of the reader (`CompleteRun`) and of the specification's backward scan. -/
theorem lfn_run_wf (name : List Nat) (chk : Nat) (h1 : 1 ≤ name.length) (h255 : name.length ≤ 255)
    (hu : ∀ x ∈ name, x < 65536) :
    (lfnGenerate name chk).length = numParts name.length ∧
    (∀ i, i < numParts name.length →
      ∃ s, (lfnGenerate name chk)[i]? = some s ∧ s.length = 32 ∧
        Lfn.order s = (numParts name.length - i) + (if i = 0 then 0x40 else 0) ∧
        Lfn.byte s 11 = 0x0F ∧ Lfn.byte s 12 = 0 ∧ Lfn.chk s = chk ∧ Lfn.unitAt s 26 = 0 ∧
        Lfn.units s = part name (numParts name.length - 1 - i)) ∧
    runUnits (lfnGenerate name chk) = name ++ padTail name.length ∧
    (padTail name.length = if name.length % 13 = 0 then []
      else 0 :: List.replicate (13 * numParts name.length - name.length - 1) 0xFFFF) ∧
    CompleteRun chk (lfnGenerate name chk) ∧
    DirSpec.specRun chk (lfnGenerate name chk).reverse 1 [] = some (name ++ padTail name.length) := by
  obtain ⟨g1, g2, g3, g4⟩ := generate_complete name chk h1 (by omega) hu
  have hn : 1 ≤ numParts name.length ∧ numParts name.length ≤ 20 := by unfold numParts; omega
  refine ⟨g4, ?_, g2, ?_, g1, ?_⟩
  · -- slot i of `genFrom name chk n n`
    have key : ∀ n k i, k ≤ n → n ≤ 20 → i < k →
        ∃ s, (genFrom name chk n k)[i]? = some s ∧ s.length = 32 ∧
          Lfn.order s = (k - i) + (if k - i = n then 0x40 else 0) ∧
          Lfn.byte s 11 = 0x0F ∧ Lfn.byte s 12 = 0 ∧ Lfn.chk s = chk ∧ Lfn.unitAt s 26 = 0 ∧
          Lfn.units s = part name (k - 1 - i) := by
      intro n k
      induction k with
      | zero => intro i _ _ hi; omega
      | succ k ih =>
        intro i hk hn hi
        cases i with
        | zero =>
          refine ⟨lfnSlotBytes (orderByte (k + 1) n) chk (part name k), by simp [genFrom], by simp, ?_,
            by simp [byte, lfnSlotBytes], byte12_slotBytes _ _ _,
            by simp, cluster_slotBytes _ _ _, ?_⟩
          · simp only [order_slotBytes, Nat.sub_zero]
            by_cases hkn : k + 1 = n
            · rw [if_pos hkn, hkn, orderByte_first n (by omega)]
            · rw [if_neg hkn, orderByte_mid _ _ hkn (by omega)]
          · simpa using units_slotBytes _ _ _ (part_length name k) (part_lt name hu k)
        | succ i =>
          obtain ⟨s, e1, e2⟩ := ih i (by omega) hn (by omega)
          refine ⟨s, by simpa [genFrom] using e1, ?_⟩
          have a : k + 1 - (i + 1) = k - i := by omega
          have b : k + 1 - 1 - (i + 1) = k - 1 - i := by omega
          rw [a, b]; exact e2
    intro i hi
    obtain ⟨s, e1, e2, e3, e4⟩ := key (numParts name.length) (numParts name.length) i (Nat.le_refl _) hn.2 hi
    refine ⟨s, e1, e2, ?_, e4⟩
    rw [e3]
    congr 1
    by_cases h0 : i = 0
    · simp [h0]
    · rw [if_neg h0, if_neg (by omega)]
  · unfold padTail numParts
    split <;> split <;> first | rfl | omega
  · have := specRun_complete chk _ [] g1
    rw [g2] at this
    simpa using this

example : (lfnGenerate [0x61, 0x62, 0x63] 0x5A) =
    [[0x41, 0x61, 0, 0x62, 0, 0x63, 0, 0, 0, 0xFF, 0xFF, 0x0F, 0, 0x5A,
      0xFF, 0xFF, 0xFF, 0xFF, 0xFF, 0xFF, 0xFF, 0xFF, 0xFF, 0xFF, 0xFF, 0xFF, 0, 0, 0xFF, 0xFF, 0xFF, 0xFF]] := by
  decide

/-- **C15.3 (character level)** `String::from_utf16_lossy(s.encode_utf16()) = s`: decoding what `encode_utf16` produces
    gives back every scalar value, so a listing shows the created name character for character. -/
theorem utf16_roundtrip (s : List Nat) (h : ∀ c ∈ s, IsScalar c) : utf16Lossy (encodeUtf16 s) = s :=
  utf16Go_encode s h

example : utf16Lossy (encodeUtf16 [0x61, 0xE9, 0x4E2D, 0x1F600, 0x10FFFF, 0xFFFF]) =
    [0x61, 0xE9, 0x4E2D, 0x1F600, 0x10FFFF, 0xFFFF] :=
  utf16_roundtrip _ (by decide)

/-- lossy decoding of unpaired surrogates (what `file_name()` shows for malformed on-disk names) -/
example : utf16Lossy [0xD800, 0x61, 0xDC00, 0xD83D, 0xDE00, 0xDBFF] = [0xFFFD, 0x61, 0xFFFD, 0x1F600, 0xFFFD] := by
  decide

end FatVerif
