import FatVerif.Proofs.IoSafeModel5
import FatVerif.Model.Api
/-! # C09 — storage errors surface as I/O errors

`Propagates p` (Proofs/Prog.lean): run `p` on a device on which no fault has fired yet. Afterwards either no fault
fired, or exactly one did (the schedule is one-shot and spent) and — unless it fired inside a destructor, the
property's exemption — the result of `p` is exactly `Err.io k` with `k` the index of the failed device call.

Every program `Session.step` (Model/Api.lean) runs for a public operation satisfies `Propagates`; the proof is a
structural descent through the model (`Proofs/IoSafeModel1–5.lean`: one `…_ioSafe` lemma per model function), with
hand proofs at the only places where the code inspects an error instead of `?`-propagating it:

* `DirEntryData::deserialize` (`readSlot`) catches `UnexpectedEof` only, every other error is re-raised unchanged;
* `alloc_cluster` (`Table.allocCluster`) retries on `NotEnoughSpace` only (after fix F9);
* `write_entry` (`writeSlotsKeep`/`writeEntry`) keeps the error of a slot write, rolls back the slots written so far
  (`free_written_entries(..)?`, fixes 7e7a6f2 + 68bd139), drops the positioned clone of the directory and re-raises the
  kept error. The roll-back is `?`-propagated, so a fault that fires inside it is reported
  (`entryRollback_propagates`); the one residual exception (`EntryRollbackX`, same flavour as `RollbackErr`): the fault
  hit a slot write and the roll-back, run afterwards, itself ends in an error, which is returned instead. So
  `create_file`, `rename`, `create_dir` (the users of `write_entry`) satisfy `Propagates` up to that outcome:
  `…_propagates_partial`, with conditional corollaries `…_propagates_of_rollback`;
* `create_dir` gives the new cluster back when the entry cannot be written (`free_cluster_chain(cluster)?`) and
  re-raises the error only if that roll-back succeeded (`RollbackErr`): `createDir_propagates_partial`;
* `rename_internal`'s ancestor walk returns `InvalidInput`/`CorruptedFileSystem` of its own (user errors); its
  fuel-exhaustion `hang` sits outside destructor bodies.

Destructors (`impl Drop for File`, `for FileSystem`) swallow errors; they are shown never to panic or hang
(`NonFatal`), so that they cannot replace the error in flight. -/
namespace FatVerif

/-! ## per-operation theorems -/

theorem formatVolume_propagates (o : Format.FormatOpts) : Propagates (formatVolume o) :=
  ioSafe_propagates (formatVolume_ioSafe o)

theorem mount_propagates (strict accDate lfnAlloc unicode : Bool) : Propagates (mount strict accDate lfnAlloc unicode) :=
  ioSafe_propagates (mount_ioSafe _ _ _ _)

/-- `FileSystem::unmount(self)` as the API runs it: the root `Dir` handle is dropped first -/
theorem unmount_propagates (root : DirStream) : Propagates (do root.drop; unmount) :=
  ioSafe_propagates (IoSafe.bind _ _ root.drop_ioSafe (fun _ => unmount_ioSafe))

/-- dropping the file system without `unmount`: everything happens in destructors, no error can be reported -/
theorem dropFs_propagates (root : DirStream) : Propagates (do root.drop; dropFs) :=
  ioSafe_propagates (IoSafe.bind _ _ root.drop_ioSafe (fun _ => dropFs_ioSafe))

theorem openDir_propagates (env : Env) (fuel : Nat) (d : DirStream) (path : String) :
    Propagates (openDir env fuel d path) := ioSafe_propagates (openDir_ioSafe env fuel d path)

theorem openFile_propagates (env : Env) (fuel : Nat) (d : DirStream) (path : String) :
    Propagates (openFile env fuel d path) := ioSafe_propagates (openFile_ioSafe env fuel d path)

/-- `create_file`, PARTIAL: up to an error of `write_entry`'s roll-back run after the fault (`EntryRollbackX`). The
    residual case is EXCLUDED on every device on which the directory is writable in the sense of the simulation layer:
    `createFile_propagates_wview` (Props/C09wview.lean; a separate file only because of its imports). -/
theorem createFile_propagates_partial (env : Env) (fuel : Nat) (d : DirStream) (path : String) :
    PropagatesX EntryRollbackX (createFile env fuel d path) := createFile_propagatesX env fuel d path

theorem remove_propagates (env : Env) (fuel : Nat) (d : DirStream) (path : String) :
    Propagates (remove env fuel d path) := ioSafe_propagates (remove_ioSafe env fuel d path)

/-- `rename`, PARTIAL: up to an error of `write_entry`'s roll-back run after the fault (`EntryRollbackX`); excluded on
    writable directories: `rename_propagates_wview` (Props/C09wview.lean) -/
theorem rename_propagates_partial (env : Env) (fuel : Nat) (d : DirStream) (src : String) (dst : DirStream)
    (dstPath : String) : PropagatesX EntryRollbackX (rename env fuel d src dst dstPath) :=
  rename_propagatesX env fuel d src dst dstPath

/-- the semantic hypothesis under which the residual exception disappears: run after a fault has fired,
    `free_written_entries` never ends in an error (it only seeks inside the range just written and overwrites one byte
    per slot — a fact about the directory stream, not about error flow; not proved here) -/
def EntryRollbackNeverFails : Prop :=
  ∀ (st : DirStream) (pos : Nat) (d1 d2 : Dev) (e : Err), d1.failAt = none → d1.fault ≠ none →
    run (freeWrittenEntries st pos) d1 ≠ (.error e, d2)

theorem EntryRollbackNeverFails.noX (h : EntryRollbackNeverFails) : ∀ f e, ¬ EntryRollbackX f e := by
  rintro f e ⟨st, pos, d1, d2, h1, h2, h3⟩
  exact h st pos d1 d2 e h1 (by rw [h2]; simp) h3

theorem createFile_propagates_of_rollback (env : Env) (fuel : Nat) (d : DirStream) (path : String)
    (h : EntryRollbackNeverFails) : Propagates (createFile env fuel d path) :=
  (createFile_propagatesX env fuel d path).toPropagates h.noX

/-- … hence plain `Propagates` under that hypothesis -/
theorem rename_propagates_of_rollback (env : Env) (fuel : Nat) (d : DirStream) (src : String) (dst : DirStream)
    (dstPath : String) (h : EntryRollbackNeverFails) : Propagates (rename env fuel d src dst dstPath) :=
  (rename_propagatesX env fuel d src dst dstPath).toPropagates h.noX

theorem listDir_propagates (d : DirStream) : Propagates (listDir d) := ioSafe_propagates (listDir_ioSafe d)

/-- one `Read::read` call on a `File` (the API's `read`; `readx`/`readall` iterate it at session level) -/
theorem fileRead_propagates (f : FileH) (n : Nat) : Propagates (f.read n) := ioSafe_propagates (f.read_ioSafe n)

/-- one `Write::write` call on a `File` (the API's `write`; `writeall` iterates it at session level) -/
theorem fileWrite_propagates (f : FileH) (bs : List Nat) : Propagates (f.write bs) :=
  ioSafe_propagates (f.write_ioSafe bs)

theorem fileSeek_propagates (f : FileH) (p : SeekFrom) : Propagates (f.seek p) := ioSafe_propagates (f.seek_ioSafe p)

theorem fileTruncate_propagates (f : FileH) : Propagates f.truncate := ioSafe_propagates f.truncate_ioSafe

theorem fileFlush_propagates (f : FileH) : Propagates f.flush := ioSafe_propagates f.flush_ioSafe

theorem fileDrop_propagates (f : FileH) : Propagates f.drop := ioSafe_propagates f.drop_ioSafe

theorem dirDrop_propagates (d : DirStream) : Propagates d.drop := ioSafe_propagates d.drop_ioSafe

theorem fileExtents_propagates (f : FileH) : Propagates f.extents := ioSafe_propagates f.extents_ioSafe

theorem stats_propagates : Propagates stats := ioSafe_propagates stats_ioSafe

theorem readStatusFlags_propagates : Propagates readStatusFlags := ioSafe_propagates readStatusFlags_ioSafe

theorem readVolumeLabelFromRootDir_propagates : Propagates readVolumeLabelFromRootDir :=
  ioSafe_propagates readVolumeLabelFromRootDir_ioSafe

/-- `create_dir`, PARTIAL: after a fault `f` outside a destructor the result is `io f.k` — or, when the fault hit
    the write of the new directory's entry and the roll-back `free_cluster_chain(cluster)?` then failed too, the error
    `e` of that roll-back (`RollbackErr f e`: `e` is the result of some run of `freeClusterChain` started after `f`
    fired). What is missing for plain `Propagates`: that freeing the single, just allocated cluster cannot fail once
    no device call can fail any more — a fact about the FAT contents, not about error flow. Since `create_dir` writes
    three entries with `write_entry`, the outcomes of THAT roll-back (`EntryRollbackX`) are tolerated too:
    `ApiX = RollbackErr ∨ EntryRollbackX` (both: an error of a roll-back run after the fault).
    Props/C09wview.lean: on writable directories `EntryRollbackX` is excluded (`createDir_propagates_wview`), and for the
    fixed root as parent `RollbackErr` too (`createDir_propagates_root_plain`: plain `Propagates`), and for
    cluster-chain parents as well (`createDir_propagates_wview_plain`, `createDir_propagates_chain_plain`). -/
theorem createDir_propagates_partial (env : Env) (fuel : Nat) (d : DirStream) (path : String) :
    PropagatesX ApiX (createDir env fuel d path) := createDir_propagatesX env fuel d path

/-- … hence plain `Propagates` under the semantic hypothesis that the roll-back never fails after a fault -/
theorem createDir_propagates_of_rollback (env : Env) (fuel : Nat) (d : DirStream) (path : String)
    (hfree : ∀ (c : Nat) (d1 d2 : Dev) (e : Err), d1.failAt = none → d1.fault ≠ none →
      run (freeClusterChain c) d1 ≠ (.error e, d2))
    (hE : EntryRollbackNeverFails) :
    Propagates (createDir env fuel d path) := by
  refine (createDir_propagatesX env fuel d path).toPropagates ?_
  intro f e hx
  unfold ApiX at hx
  rcases hx with ⟨c, d1, d2, h1, h2, h3⟩ | hx
  · exact hfree c d1 d2 e h1 (by rw [h2]; simp) h3
  · exact hE.noX f e hx

/-! ### what the partial theorems do guarantee, unconditionally

`PropagatesX X p` never lets a fault outside a destructor go unnoticed: the result is an error — `io k`, or the error of a
roll-back step run after the fault. The residual case in real-world terms: the storage failed ONCE, while `write_entry`
was writing a slot (possibly inside the FAT update that grows the directory); the operation then re-positions the
directory stream on the first slot it wrote and overwrites one byte per slot (resp. `create_dir` frees the one cluster it
had allocated) — with the storage working again. That roll-back can only fail for a non-storage reason: the cluster chain
of the directory, re-walked from the FAT by `seek`, is inconsistent (`CorruptedFileSystem`/`UnexpectedEof` from a FAT the
failed write left half-updated in the first copy), a seek target beyond 4 GiB, or one of the model's panics. Excluding these
needs an invariant of the directory stream and of the FAT (the range `[start_pos, cur)` was just traversed by the same
stream; the only FAT write in between is the appended cluster), which the error-flow proof does not carry.

Under a PERSISTENT fault (every device call from the failing one on fails) the picture is not better for `Propagates` as
stated: the roll-back's first device call fails as well and ITS error `io k'` (`k' > k`) is returned by
`free_written_entries(..)?` — an I/O error, but not the one of call `k`; so the one-shot schedule is the reading under which
"the error of the failed call surfaces" is the sharper statement, and the persistent reading would weaken the conclusion
to "some `io`". (Not formalised: it needs a second interpreter with a persistent schedule.) -/

/-- after a fault outside a destructor the result of a `PropagatesX` program is never `ok` -/
theorem PropagatesX.faulted_is_error {α} {X : Fault → Err → Prop} {p : Prog α} (hp : PropagatesX X p)
    {d : Dev} (hd : d.fault = none) {r d'} (hr : run p d = (r, d')) {f : Fault} (hf : d'.fault = some f)
    (hnd : f.inDrop = false) : ∃ e, r = .error e ∧ (e = .io f.k ∨ X f e) := by
  rcases hp d hd r d' hr with h | ⟨_, f', h2, h3⟩
  · rw [h] at hf; cases hf
  · rw [hf] at h2; cases h2
    cases r with
    | ok v => rcases h3 hnd with h | ⟨e, h, _⟩ <;> simp [resErr] at h
    | error e =>
      refine ⟨e, rfl, ?_⟩
      rcases h3 hnd with h | ⟨e', h, hx⟩
      · simp only [resErr, Option.some.injEq] at h; exact Or.inl h
      · simp only [resErr, Option.some.injEq] at h; subst h; exact Or.inr hx

/-- `create_file`, `rename`, `create_dir`: a fault outside a destructor always yields an error — `io k`, or the error of
    a roll-back (`write_entry`'s `free_written_entries`, `create_dir`'s `free_cluster_chain`) run after the fault -/
theorem createFile_faulted_is_error (env : Env) (fuel : Nat) (dir : DirStream) (path : String) {d : Dev}
    (hd : d.fault = none) {r d'} (hr : run (createFile env fuel dir path) d = (r, d')) {f : Fault}
    (hf : d'.fault = some f) (hnd : f.inDrop = false) : ∃ e, r = .error e ∧ (e = .io f.k ∨ EntryRollbackX f e) :=
  (createFile_propagatesX env fuel dir path).faulted_is_error hd hr hf hnd

theorem rename_faulted_is_error (env : Env) (fuel : Nat) (dir : DirStream) (src : String) (dst : DirStream)
    (dstPath : String) {d : Dev} (hd : d.fault = none) {r d'}
    (hr : run (rename env fuel dir src dst dstPath) d = (r, d')) {f : Fault} (hf : d'.fault = some f)
    (hnd : f.inDrop = false) : ∃ e, r = .error e ∧ (e = .io f.k ∨ EntryRollbackX f e) :=
  (rename_propagatesX env fuel dir src dst dstPath).faulted_is_error hd hr hf hnd

theorem createDir_faulted_is_error (env : Env) (fuel : Nat) (dir : DirStream) (path : String) {d : Dev}
    (hd : d.fault = none) {r d'} (hr : run (createDir env fuel dir path) d = (r, d')) {f : Fault}
    (hf : d'.fault = some f) (hnd : f.inDrop = false) : ∃ e, r = .error e ∧ (e = .io f.k ∨ ApiX f e) :=
  (createDir_propagatesX env fuel dir path).faulted_is_error hd hr hf hnd

/-! ## summary -/

/-- the programs `Session.step` runs, operation by operation (Model/Api.lean); the users of `write_entry`
    (`createDir`, `createFile`, `rename`) are listed separately in `ApiProgAll` -/
inductive ApiProg : {α : Type} → Prog α → Prop where
  | format (o : Format.FormatOpts) : ApiProg (formatVolume o)
  | mount (strict accDate lfnAlloc unicode : Bool) : ApiProg (FatVerif.mount strict accDate lfnAlloc unicode)
  | unmount (root : DirStream) : ApiProg (do root.drop; FatVerif.unmount)
  | dropfs (root : DirStream) : ApiProg (do root.drop; dropFs)
  | openDir (env : Env) (fuel : Nat) (d : DirStream) (path : String) : ApiProg (FatVerif.openDir env fuel d path)
  | openFile (env : Env) (fuel : Nat) (d : DirStream) (path : String) : ApiProg (FatVerif.openFile env fuel d path)
  | remove (env : Env) (fuel : Nat) (d : DirStream) (path : String) : ApiProg (FatVerif.remove env fuel d path)
  | list (d : DirStream) : ApiProg (listDir d)
  | read (f : FileH) (n : Nat) : ApiProg (f.read n)            -- also each iteration of `readx`, `readall`
  | write (f : FileH) (bs : List Nat) : ApiProg (f.write bs)   -- also each iteration of `writeall`
  | seek (f : FileH) (p : SeekFrom) : ApiProg (f.seek p)
  | truncate (f : FileH) : ApiProg f.truncate
  | flush (f : FileH) : ApiProg f.flush
  | dropf (f : FileH) : ApiProg f.drop
  | dropd (d : DirStream) : ApiProg d.drop
  | extents (f : FileH) : ApiProg f.extents
  | stats : ApiProg FatVerif.stats
  | status : ApiProg readStatusFlags
  | labelRoot : ApiProg readVolumeLabelFromRootDir

theorem api_ioSafe {α : Type} {p : Prog α} (h : ApiProg p) : IoSafe p := by
  cases h with
  | format o => exact formatVolume_ioSafe o
  | mount => exact mount_ioSafe _ _ _ _
  | unmount root => exact IoSafe.bind _ _ root.drop_ioSafe (fun _ => unmount_ioSafe)
  | dropfs root => exact IoSafe.bind _ _ root.drop_ioSafe (fun _ => dropFs_ioSafe)
  | openDir => exact openDir_ioSafe _ _ _ _
  | openFile => exact openFile_ioSafe _ _ _ _
  | remove => exact remove_ioSafe _ _ _ _
  | list => exact listDir_ioSafe _
  | read f n => exact f.read_ioSafe n
  | write f bs => exact f.write_ioSafe bs
  | seek f p => exact f.seek_ioSafe p
  | truncate f => exact f.truncate_ioSafe
  | flush f => exact f.flush_ioSafe
  | dropf f => exact f.drop_ioSafe
  | dropd d => exact d.drop_ioSafe
  | extents f => exact f.extents_ioSafe
  | stats => exact stats_ioSafe
  | status => exact readStatusFlags_ioSafe
  | labelRoot => exact readVolumeLabelFromRootDir_ioSafe

/-- **C09**: every program a public operation runs (other than `create_dir`, `create_file`, `rename`, see the
    `…_propagates_partial` theorems)
    reports a storage error that occurs outside a destructor as `Err.io k`, `k` the index of the failed call -/
theorem api_propagates {α : Type} {p : Prog α} (h : ApiProg p) : Propagates p := ioSafe_propagates (api_ioSafe h)

/-- all programs of the API, `create_dir`, `create_file` and `rename` included -/
inductive ApiProgAll : {α : Type} → Prog α → Prop where
  | base {α : Type} {p : Prog α} : ApiProg p → ApiProgAll p
  | createDir (env : Env) (fuel : Nat) (d : DirStream) (path : String) : ApiProgAll (FatVerif.createDir env fuel d path)
  | createFile (env : Env) (fuel : Nat) (d : DirStream) (path : String) : ApiProgAll (FatVerif.createFile env fuel d path)
  | rename (env : Env) (fuel : Nat) (d : DirStream) (src : String) (d2 : DirStream) (dst : String) :
      ApiProgAll (FatVerif.rename env fuel d src d2 dst)

/-- the whole API, up to the outcomes of the two roll-backs (`ApiX`) -/
theorem api_propagates_all {α : Type} {p : Prog α} (h : ApiProgAll p) : PropagatesX ApiX p := by
  cases h with
  | base h => exact (api_propagates h).toX
  | createDir env fuel d path => exact createDir_propagatesX env fuel d path
  | createFile env fuel d path => exact (createFile_propagatesX env fuel d path).mono (fun _ _ h => Or.inr h)
  | rename env fuel d src d2 dst => exact (rename_propagatesX env fuel d src d2 dst).mono (fun _ _ h => Or.inr h)

/-! ## `Session.step` runs nothing else

The device after `Session.step s op` is obtained from `s.dev` by runs of programs listed in `ApiProgAll` (one run
for most operations, one per iteration for `readx`/`readall`/`writeall`, none for the pure ones) and the rewinding of
the device position that precedes `format`/`mount`. So the per-program theorems above cover every device access the
API model makes. -/

inductive ApiRuns : Dev → Dev → Prop where
  | refl (d : Dev) : ApiRuns d d
  | run {α : Type} (p : Prog α) (d : Dev) (r : Except Err α) (d' : Dev) : ApiProgAll p → run p d = (r, d') → ApiRuns d d'
  | rewind (d : Dev) : ApiRuns d { d with pos := 0 }
  | trans {a b c : Dev} : ApiRuns a b → ApiRuns b c → ApiRuns a c

namespace Session

theorem fatal_dev (s : Session) (d : Dev) (e : Err) : (s.fatal d e).1.dev = d := by
  unfold fatal; split <;> rfl

theorem runOp_apiRuns {α : Type} (s : Session) {p : Prog α} (hp : ApiProgAll p)
    {k : Session → α → Session × ApiRes} (hk : ∀ s' a, (k s' a).1.dev = s'.dev) :
    ApiRuns s.dev (s.runOp p k).1.dev := by
  unfold runOp exec
  rcases hr : run p s.dev with ⟨r, d⟩
  cases r with
  | ok a => simp only; rw [hk]; exact ApiRuns.run p _ _ _ hp hr
  | error e => simp only; rw [fatal_dev]; exact ApiRuns.run p _ _ _ hp hr

theorem withFile_apiRuns (s : Session) (f : Nat) {k : FileH → Session × ApiRes}
    (hk : ∀ h, ApiRuns s.dev (k h).1.dev) : ApiRuns s.dev (s.withFile f k).1.dev := by
  unfold withFile; split
  · exact hk _
  · exact ApiRuns.refl _

theorem withDir_apiRuns (s : Session) (d : Nat) {k : DirStream → Session × ApiRes}
    (hk : ∀ h, ApiRuns s.dev (k h).1.dev) : ApiRuns s.dev (s.withDir d k).1.dev := by
  unfold withDir; split
  · exact hk _
  · exact ApiRuns.refl _

theorem readxLoop_apiRuns (f : Nat) : ∀ (fuel : Nat) (s : Session) (h : FileH) (n : Nat) (acc : List Nat),
    ApiRuns s.dev (readxLoop s f fuel h n acc).1.dev := by
  intro fuel
  induction fuel with
  | zero => intro s h n acc; unfold readxLoop; exact ApiRuns.refl _
  | succ k ih =>
    intro s h n acc
    unfold readxLoop
    split
    · exact ApiRuns.refl _
    · unfold exec
      rcases hr : run (h.read n) s.dev with ⟨r, d⟩
      have h1 : ApiRuns s.dev d := ApiRuns.run _ _ _ _ (.base (.read h n)) hr
      cases r with
      | ok v =>
        obtain ⟨bs, h'⟩ := v
        simp only
        split
        · exact h1
        · exact ApiRuns.trans h1 (ih { s with dev := d } _ _ _)
      | error e => simp only; rw [fatal_dev]; exact h1

theorem readAllLoopS_apiRuns (f : Nat) : ∀ (fuel : Nat) (s : Session) (h : FileH) (acc : List Nat),
    ApiRuns s.dev (readAllLoopS s f fuel h acc).1.dev := by
  intro fuel
  induction fuel with
  | zero => intro s h acc; unfold readAllLoopS; exact ApiRuns.refl _
  | succ k ih =>
    intro s h acc
    unfold readAllLoopS exec
    rcases hr : run (h.read 4096) s.dev with ⟨r, d⟩
    have h1 : ApiRuns s.dev d := ApiRuns.run _ _ _ _ (.base (.read h 4096)) hr
    cases r with
    | ok v =>
      obtain ⟨bs, h'⟩ := v
      simp only
      split
      · exact h1
      · exact ApiRuns.trans h1 (ih { s with dev := d } _ _)
    | error e => simp only; rw [fatal_dev]; exact h1

theorem writeAllLoopS_apiRuns (f : Nat) : ∀ (fuel : Nat) (s : Session) (h : FileH) (bs : List Nat),
    ApiRuns s.dev (writeAllLoopS s f fuel h bs).1.dev := by
  intro fuel
  induction fuel with
  | zero => intro s h bs; unfold writeAllLoopS; exact ApiRuns.refl _
  | succ k ih =>
    intro s h bs
    unfold writeAllLoopS
    split
    · exact ApiRuns.refl _
    · unfold exec
      rcases hr : run (h.write bs) s.dev with ⟨r, d⟩
      have h1 : ApiRuns s.dev d := ApiRuns.run _ _ _ _ (.base (.write h bs)) hr
      cases r with
      | ok v =>
        obtain ⟨n, h'⟩ := v
        simp only
        split
        · exact h1
        · exact ApiRuns.trans h1 (ih { s with dev := d } _ _)
      | error e => simp only; rw [fatal_dev]; exact h1

/-- every device access of `Session.step` is a run of a listed program -/
theorem step_apiRuns (s : Session) (op : ApiOp) : ApiRuns s.dev (s.step op).1.dev := by
  unfold step
  split
  · exact ApiRuns.refl _
  cases op with
  | format o =>
    simp only; split
    · exact ApiRuns.refl _
    · exact ApiRuns.trans (ApiRuns.rewind _)
        (runOp_apiRuns { s with dev := { s.dev with pos := 0 } } (.base (.format o)) (fun _ _ => rfl))
  | mount =>
    simp only; split
    · exact ApiRuns.refl _
    · exact ApiRuns.trans (ApiRuns.rewind _)
        (runOp_apiRuns { s with dev := { s.dev with pos := 0 } } (.base (.mount _ _ _ _)) (fun _ _ => rfl))
  | unmount =>
    simp only; split
    · exact ApiRuns.refl _
    · unfold exec
      rcases hr : run (do s.root.drop; FatVerif.unmount) s.dev with ⟨r, d⟩
      have h1 : ApiRuns s.dev d := ApiRuns.run _ _ _ _ (.base (.unmount s.root)) hr
      cases r with
      | ok v => exact h1
      | error e => simp only; rw [fatal_dev]; exact h1
  | dropfs =>
    simp only; split
    · exact ApiRuns.refl _
    · exact runOp_apiRuns s (.base (.dropfs s.root)) (fun _ _ => rfl)
  | forget => simp only; split <;> exact ApiRuns.refl _
  | openDir d path dnew =>
    simp only
    refine withDir_apiRuns s d (fun h => ?_)
    split
    · exact ApiRuns.refl _
    · exact runOp_apiRuns s (.base (.openDir _ _ _ _)) (fun _ _ => rfl)
  | createDir d path dnew =>
    simp only
    refine withDir_apiRuns s d (fun h => ?_)
    split
    · exact ApiRuns.refl _
    · exact runOp_apiRuns s (.createDir _ _ _ _) (fun _ _ => rfl)
  | openFile d path fnew =>
    simp only
    refine withDir_apiRuns s d (fun h => ?_)
    split
    · exact ApiRuns.refl _
    · exact runOp_apiRuns s (.base (.openFile _ _ _ _)) (fun _ _ => rfl)
  | createFile d path fnew =>
    simp only
    refine withDir_apiRuns s d (fun h => ?_)
    split
    · exact ApiRuns.refl _
    · exact runOp_apiRuns s (.createFile _ _ _ _) (fun _ _ => rfl)
  | remove d path =>
    simp only
    exact withDir_apiRuns s d (fun h => runOp_apiRuns s (.base (.remove _ _ _ _)) (fun _ _ => rfl))
  | rename d src d2 dst =>
    simp only
    exact withDir_apiRuns s d (fun h => withDir_apiRuns s d2 (fun h2 =>
      runOp_apiRuns s (.rename _ _ _ _ _ _) (fun _ _ => rfl)))
  | list d =>
    simp only
    exact withDir_apiRuns s d (fun h => runOp_apiRuns s (.base (.list _)) (fun _ _ => rfl))
  | read f n =>
    simp only
    exact withFile_apiRuns s f (fun h => runOp_apiRuns s (.base (.read _ _)) (fun _ _ => rfl))
  | readx f n => simp only; exact withFile_apiRuns s f (fun h => readxLoop_apiRuns f _ s h n [])
  | readall f => simp only; exact withFile_apiRuns s f (fun h => readAllLoopS_apiRuns f _ s h [])
  | write f bs =>
    simp only
    exact withFile_apiRuns s f (fun h => runOp_apiRuns s (.base (.write _ _)) (fun _ _ => rfl))
  | writeall f bs => simp only; exact withFile_apiRuns s f (fun h => writeAllLoopS_apiRuns f _ s h bs)
  | seek f k n =>
    simp only
    exact withFile_apiRuns s f (fun h => runOp_apiRuns s (.base (.seek _ _)) (fun _ _ => rfl))
  | truncate f =>
    simp only
    exact withFile_apiRuns s f (fun h => runOp_apiRuns s (.base (.truncate _)) (fun _ _ => rfl))
  | flush f =>
    simp only
    exact withFile_apiRuns s f (fun h => runOp_apiRuns s (.base (.flush _)) (fun _ _ => rfl))
  | dropf f =>
    simp only
    exact withFile_apiRuns s f (fun h => runOp_apiRuns s (.base (.dropf _)) (fun _ _ => rfl))
  | dropd d =>
    simp only; split
    · exact ApiRuns.refl _
    · exact withDir_apiRuns s d (fun h => runOp_apiRuns s (.base (.dropd _)) (fun _ _ => rfl))
  | setCreated f y m d h mi sec ms =>
    simp only
    refine withFile_apiRuns s f (fun fh => ?_)
    split <;> exact ApiRuns.refl _
  | setModified f y m d h mi sec ms =>
    simp only
    refine withFile_apiRuns s f (fun fh => ?_)
    split <;> exact ApiRuns.refl _
  | setAccessed f y m d =>
    simp only
    refine withFile_apiRuns s f (fun fh => ?_)
    split <;> exact ApiRuns.refl _
  | extents f =>
    simp only
    exact withFile_apiRuns s f (fun h => runOp_apiRuns s (.base (.extents _)) (fun _ _ => rfl))
  | stats =>
    simp only; split
    · exact ApiRuns.refl _
    · exact runOp_apiRuns s (.base .stats) (fun _ a => by obtain ⟨_, _, _⟩ := a; rfl)
  | status =>
    simp only; split
    · exact ApiRuns.refl _
    · exact runOp_apiRuns s (.base .status) (fun _ a => by obtain ⟨_, _⟩ := a; rfl)
  | label => simp only; split <;> exact ApiRuns.refl _
  | labelRoot =>
    simp only; split
    · exact ApiRuns.refl _
    · exact runOp_apiRuns s (.base .labelRoot) (fun _ _ => rfl)
  | volid => simp only; split <;> exact ApiRuns.refl _
  | fattype => simp only; split <;> exact ApiRuns.refl _

end Session

/-! ## the statements are not vacuous: concrete faulted runs -/

namespace C09ex

def fs16 : FsState :=
  { fatType := .fat16, bps := 512, spc := 1, reserved := 1, fats := 1, spf := 1, totalClusters := 5,
    firstDataSector := 2, rootEntries := 16, rootDirSectors := 1 }

/-- a 4 KiB all-zero device with `fs16` mounted; device call number `k` (counted from 1) is scheduled to fail -/
def dev (k : Nat) : Dev := { img := Img.empty 4096, fs := fs16, failAt := some k }

/-- a clean handle on a 100-byte file starting in cluster 2 -/
def file : FileH :=
  { firstCluster := some 2, entry := some (DirEntryEditor.new { DirFileEntryData.new [] 0 with size := 100 } 1024) }

/-- a dirty file handle (32-byte record to be written back at offset 1024) -/
def dirtyFile : FileH :=
  { firstCluster := some 2, entry := some { data := DirFileEntryData.new [] 0, pos := 1024, dirty := true } }

end C09ex

/-- `read_status_flags`: the first device call (a seek into the FAT) fails; the result is `io 1`, recorded outside a
    destructor; the hypothesis `fault = none` of `Propagates` holds of the start state -/
example : (C09ex.dev 1).fault = none ∧ resErr (run readStatusFlags (C09ex.dev 1)).1 = some (.io 1) ∧
    (run readStatusFlags (C09ex.dev 1)).2.fault = some ⟨1, .s, false⟩ := by decide

/-- `File::read`: call 1 is the seek to the data cluster, call 2 the read; failing the read gives `io 2` -/
example : resErr (run (C09ex.file.read 10) (C09ex.dev 2)).1 = some (.io 2) ∧
    (run (C09ex.file.read 10) (C09ex.dev 2)).2.fault = some ⟨2, .r, false⟩ := by decide

/-- `File::flush` (explicit): failing the first `write_all` chunk (call 2; call 1 is the seek) surfaces as `io 2` -/
example : resErr (run C09ex.dirtyFile.flush (C09ex.dev 2)).1 = some (.io 2) ∧
    (run C09ex.dirtyFile.flush (C09ex.dev 2)).2.fault = some ⟨2, .w, false⟩ := by decide

/-- the exemption: the same failure inside `impl Drop for File` is swallowed (result `ok`), and recorded as in-drop -/
example : resErr (run C09ex.dirtyFile.drop (C09ex.dev 2)).1 = none ∧
    (run C09ex.dirtyFile.drop (C09ex.dev 2)).2.fault = some ⟨2, .w, true⟩ := by decide

/-- `unmount` with a changed status flag: the seek to the status byte is call 1 -/
example : resErr (run unmount { C09ex.dev 1 with fs := { C09ex.fs16 with curDirty := true } }).1 = some (.io 1) := by
  decide

/-- `stats` on a volume without cached free count scans the FAT; failing its 4th call gives `io 4` and the schedule
    is spent -/
example : resErr (run stats (C09ex.dev 4)).1 = some (.io 4) ∧ (run stats (C09ex.dev 4)).2.failAt = none := by decide

/-- `createDir_propagates_partial` has no hypothesis beyond a fault-free start; a faulted run of its last-component
    case needs a populated image, so only the fuel-exhaustion case is evaluated here -/
example : resErr (run (createDir ⟨fun c => [c]⟩ 0 (.root (rootSliceOf C09ex.fs16)) "a") (C09ex.dev 1)).1 = some .hang := by
  decide

end FatVerif
