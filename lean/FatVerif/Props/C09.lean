import FatVerif.Proofs.IoSafeModel5
import FatVerif.Model.Api
/-! # C09 — storage errors surface as I/O errors

`Propagates p` (Proofs/Prog.lean): run `p` on a device on which no fault has fired yet. Afterwards either no fault
fired, or exactly one did (the schedule is one-shot and spent) and — unless it fired inside a destructor, the
property's exemption — the result of `p` is exactly `Err.io k` with `k` the index of the failed device call.

Every program `Session.step` (Model/Api.lean) runs for a public operation satisfies `Propagates`; the proof is a
structural descent through the model (`Proofs/IoSafeModel1–5.lean`: one `…_ioSafe` lemma per model function), with
hand proofs at the only places where the code inspects an error instead of `?`-propagating it:

* `DirEntryData::deserialize` (`readSlot`) catches `UnexpectedEof` only, every other error is re-raised unchanged;
* `alloc_cluster` (`Table.allocCluster`) retries on `NotEnoughSpace` only (after fix F9);
* `write_entry` (`writeSlotsKeep`/`writeEntry`) keeps the error of a slot write while the positioned clone of the
  directory is dropped and then re-raises it;
* `create_dir` gives the new cluster back when the entry cannot be written (`free_cluster_chain(cluster)?`) and
  re-raises the error only if that roll-back succeeded: `createDir_propagates_partial`.

Destructors (`impl Drop for File`, `for FileSystem`) swallow errors; they are shown never to panic or hang
(`NonFatal`), so that they cannot replace the error in flight. -/
namespace FatVerif

/-! ## per-operation theorems -/

theorem formatVolume_propagates (o : Format.FormatOpts) : Propagates (formatVolume o) :=
  ioSafe_propagates (formatVolume_ioSafe o)

theorem mount_propagates (strict accDate lfnAlloc unicode : Bool) : Propagates (mount strict accDate lfnAlloc unicode) :=
  ioSafe_propagates (mount_ioSafe _ _ _ _)

/-- `FileSystem::unmount(self)` as the API runs it: the root `Dir` handle is dropped first -/
theorem unmount_propagates (root : DirStream) : Propagates (do root.drop; unmount) :=
  ioSafe_propagates (IoSafe.bind _ _ root.drop_ioSafe (fun _ => unmount_ioSafe))

/-- dropping the file system without `unmount`: everything happens in destructors, no error can be reported -/
theorem dropFs_propagates (root : DirStream) : Propagates (do root.drop; dropFs) :=
  ioSafe_propagates (IoSafe.bind _ _ root.drop_ioSafe (fun _ => dropFs_ioSafe))

theorem openDir_propagates (env : Env) (fuel : Nat) (d : DirStream) (path : String) :
    Propagates (openDir env fuel d path) := ioSafe_propagates (openDir_ioSafe env fuel d path)

theorem openFile_propagates (env : Env) (fuel : Nat) (d : DirStream) (path : String) :
    Propagates (openFile env fuel d path) := ioSafe_propagates (openFile_ioSafe env fuel d path)

theorem createFile_propagates (env : Env) (fuel : Nat) (d : DirStream) (path : String) :
    Propagates (createFile env fuel d path) := ioSafe_propagates (createFile_ioSafe env fuel d path)

theorem remove_propagates (env : Env) (fuel : Nat) (d : DirStream) (path : String) :
    Propagates (remove env fuel d path) := ioSafe_propagates (remove_ioSafe env fuel d path)

theorem rename_propagates (env : Env) (fuel : Nat) (d : DirStream) (src : String) (dst : DirStream) (dstPath : String) :
    Propagates (rename env fuel d src dst dstPath) := ioSafe_propagates (rename_ioSafe env fuel d src dst dstPath)

theorem listDir_propagates (d : DirStream) : Propagates (listDir d) := ioSafe_propagates (listDir_ioSafe d)

/-- one `Read::read` call on a `File` (the API's `read`; `readx`/`readall` iterate it at session level) -/
theorem fileRead_propagates (f : FileH) (n : Nat) : Propagates (f.read n) := ioSafe_propagates (f.read_ioSafe n)

/-- one `Write::write` call on a `File` (the API's `write`; `writeall` iterates it at session level) -/
theorem fileWrite_propagates (f : FileH) (bs : List Nat) : Propagates (f.write bs) :=
  ioSafe_propagates (f.write_ioSafe bs)

theorem fileSeek_propagates (f : FileH) (p : SeekFrom) : Propagates (f.seek p) := ioSafe_propagates (f.seek_ioSafe p)

theorem fileTruncate_propagates (f : FileH) : Propagates f.truncate := ioSafe_propagates f.truncate_ioSafe

theorem fileFlush_propagates (f : FileH) : Propagates f.flush := ioSafe_propagates f.flush_ioSafe

theorem fileDrop_propagates (f : FileH) : Propagates f.drop := ioSafe_propagates f.drop_ioSafe

theorem dirDrop_propagates (d : DirStream) : Propagates d.drop := ioSafe_propagates d.drop_ioSafe

theorem fileExtents_propagates (f : FileH) : Propagates f.extents := ioSafe_propagates f.extents_ioSafe

theorem stats_propagates : Propagates stats := ioSafe_propagates stats_ioSafe

theorem readStatusFlags_propagates : Propagates readStatusFlags := ioSafe_propagates readStatusFlags_ioSafe

theorem readVolumeLabelFromRootDir_propagates : Propagates readVolumeLabelFromRootDir :=
  ioSafe_propagates readVolumeLabelFromRootDir_ioSafe

/-- `create_dir`, PARTIAL: after a fault `f` outside a destructor the result is `io f.k` — or, when the fault hit
    the write of the new directory's entry and the roll-back `free_cluster_chain(cluster)?` then failed too, the error
    `e` of that roll-back (`RollbackErr f e`: `e` is the result of some run of `freeClusterChain` started after `f`
    fired). What is missing for plain `Propagates`: that freeing the single, just allocated cluster cannot fail once
    no device call can fail any more — a fact about the FAT contents, not about error flow. -/
theorem createDir_propagates_partial (env : Env) (fuel : Nat) (d : DirStream) (path : String) :
    PropagatesX RollbackErr (createDir env fuel d path) := createDir_propagatesX env fuel d path

/-- … hence plain `Propagates` under the semantic hypothesis that the roll-back never fails after a fault -/
theorem createDir_propagates_of_rollback (env : Env) (fuel : Nat) (d : DirStream) (path : String)
    (hfree : ∀ (c : Nat) (d1 d2 : Dev) (e : Err), d1.failAt = none → d1.fault ≠ none →
      run (freeClusterChain c) d1 ≠ (.error e, d2)) :
    Propagates (createDir env fuel d path) := by
  refine (createDir_propagatesX env fuel d path).toPropagates ?_
  rintro f e ⟨c, d1, d2, h1, h2, h3⟩
  exact hfree c d1 d2 e h1 (by rw [h2]; simp) h3

/-! ## summary -/

/-- the programs `Session.step` runs, operation by operation (Model/Api.lean); `createDir` is listed separately -/
inductive ApiProg : {α : Type} → Prog α → Prop where
  | format (o : Format.FormatOpts) : ApiProg (formatVolume o)
  | mount (strict accDate lfnAlloc unicode : Bool) : ApiProg (FatVerif.mount strict accDate lfnAlloc unicode)
  | unmount (root : DirStream) : ApiProg (do root.drop; FatVerif.unmount)
  | dropfs (root : DirStream) : ApiProg (do root.drop; dropFs)
  | openDir (env : Env) (fuel : Nat) (d : DirStream) (path : String) : ApiProg (FatVerif.openDir env fuel d path)
  | openFile (env : Env) (fuel : Nat) (d : DirStream) (path : String) : ApiProg (FatVerif.openFile env fuel d path)
  | createFile (env : Env) (fuel : Nat) (d : DirStream) (path : String) : ApiProg (FatVerif.createFile env fuel d path)
  | remove (env : Env) (fuel : Nat) (d : DirStream) (path : String) : ApiProg (FatVerif.remove env fuel d path)
  | rename (env : Env) (fuel : Nat) (d : DirStream) (src : String) (d2 : DirStream) (dst : String) :
      ApiProg (FatVerif.rename env fuel d src d2 dst)
  | list (d : DirStream) : ApiProg (listDir d)
  | read (f : FileH) (n : Nat) : ApiProg (f.read n)            -- also each iteration of `readx`, `readall`
  | write (f : FileH) (bs : List Nat) : ApiProg (f.write bs)   -- also each iteration of `writeall`
  | seek (f : FileH) (p : SeekFrom) : ApiProg (f.seek p)
  | truncate (f : FileH) : ApiProg f.truncate
  | flush (f : FileH) : ApiProg f.flush
  | dropf (f : FileH) : ApiProg f.drop
  | dropd (d : DirStream) : ApiProg d.drop
  | extents (f : FileH) : ApiProg f.extents
  | stats : ApiProg FatVerif.stats
  | status : ApiProg readStatusFlags
  | labelRoot : ApiProg readVolumeLabelFromRootDir

theorem api_ioSafe {α : Type} {p : Prog α} (h : ApiProg p) : IoSafe p := by
  cases h with
  | format o => exact formatVolume_ioSafe o
  | mount => exact mount_ioSafe _ _ _ _
  | unmount root => exact IoSafe.bind _ _ root.drop_ioSafe (fun _ => unmount_ioSafe)
  | dropfs root => exact IoSafe.bind _ _ root.drop_ioSafe (fun _ => dropFs_ioSafe)
  | openDir => exact openDir_ioSafe _ _ _ _
  | openFile => exact openFile_ioSafe _ _ _ _
  | createFile => exact createFile_ioSafe _ _ _ _
  | remove => exact remove_ioSafe _ _ _ _
  | rename => exact rename_ioSafe _ _ _ _ _ _
  | list => exact listDir_ioSafe _
  | read f n => exact f.read_ioSafe n
  | write f bs => exact f.write_ioSafe bs
  | seek f p => exact f.seek_ioSafe p
  | truncate f => exact f.truncate_ioSafe
  | flush f => exact f.flush_ioSafe
  | dropf f => exact f.drop_ioSafe
  | dropd d => exact d.drop_ioSafe
  | extents f => exact f.extents_ioSafe
  | stats => exact stats_ioSafe
  | status => exact readStatusFlags_ioSafe
  | labelRoot => exact readVolumeLabelFromRootDir_ioSafe

/-- **C09**: every program a public operation runs (other than `create_dir`, see `createDir_propagates_partial`)
    reports a storage error that occurs outside a destructor as `Err.io k`, `k` the index of the failed call -/
theorem api_propagates {α : Type} {p : Prog α} (h : ApiProg p) : Propagates p := ioSafe_propagates (api_ioSafe h)

/-- the whole API including `create_dir`, up to the error of a failed roll-back -/
theorem api_propagates_all {α : Type} {p : Prog α}
    (h : ApiProg p ∨ ∃ env fuel d path, α = DirStream ∧ HEq p (createDir env fuel d path)) :
    PropagatesX RollbackErr p := by
  rcases h with h | ⟨env, fuel, d, path, rfl, h⟩
  · exact (api_propagates h).toX
  · cases h; exact createDir_propagatesX env fuel d path

/-! ## the statements are not vacuous: concrete faulted runs -/

namespace C09ex

def fs16 : FsState :=
  { fatType := .fat16, bps := 512, spc := 1, reserved := 1, fats := 1, spf := 1, totalClusters := 5,
    firstDataSector := 2, rootEntries := 16, rootDirSectors := 1 }

/-- a 4 KiB all-zero device with `fs16` mounted; device call number `k` (counted from 1) is scheduled to fail -/
def dev (k : Nat) : Dev := { img := Img.empty 4096, fs := fs16, failAt := some k }

/-- a clean handle on a 100-byte file starting in cluster 2 -/
def file : FileH :=
  { firstCluster := some 2, entry := some (DirEntryEditor.new { DirFileEntryData.new [] 0 with size := 100 } 1024) }

/-- a dirty file handle (32-byte record to be written back at offset 1024) -/
def dirtyFile : FileH :=
  { firstCluster := some 2, entry := some { data := DirFileEntryData.new [] 0, pos := 1024, dirty := true } }

end C09ex

/-- `read_status_flags`: the first device call (a seek into the FAT) fails; the result is `io 1`, recorded outside a
    destructor; the hypothesis `fault = none` of `Propagates` holds of the start state -/
example : (C09ex.dev 1).fault = none ∧ resErr (run readStatusFlags (C09ex.dev 1)).1 = some (.io 1) ∧
    (run readStatusFlags (C09ex.dev 1)).2.fault = some ⟨1, .s, false⟩ := by decide

/-- `File::read`: call 1 is the seek to the data cluster, call 2 the read; failing the read gives `io 2` -/
example : resErr (run (C09ex.file.read 10) (C09ex.dev 2)).1 = some (.io 2) ∧
    (run (C09ex.file.read 10) (C09ex.dev 2)).2.fault = some ⟨2, .r, false⟩ := by decide

/-- `File::flush` (explicit): failing the first `write_all` chunk (call 2; call 1 is the seek) surfaces as `io 2` -/
example : resErr (run C09ex.dirtyFile.flush (C09ex.dev 2)).1 = some (.io 2) ∧
    (run C09ex.dirtyFile.flush (C09ex.dev 2)).2.fault = some ⟨2, .w, false⟩ := by decide

/-- the exemption: the same failure inside `impl Drop for File` is swallowed (result `ok`), and recorded as in-drop -/
example : resErr (run C09ex.dirtyFile.drop (C09ex.dev 2)).1 = none ∧
    (run C09ex.dirtyFile.drop (C09ex.dev 2)).2.fault = some ⟨2, .w, true⟩ := by decide

/-- `unmount` with a changed status flag: the seek to the status byte is call 1 -/
example : resErr (run unmount { C09ex.dev 1 with fs := { C09ex.fs16 with curDirty := true } }).1 = some (.io 1) := by
  decide

/-- `stats` on a volume without cached free count scans the FAT; failing its 4th call gives `io 4` and the schedule
    is spent -/
example : resErr (run stats (C09ex.dev 4)).1 = some (.io 4) ∧ (run stats (C09ex.dev 4)).2.failAt = none := by decide

/-- `createDir_propagates_partial` has no hypothesis beyond a fault-free start; a faulted run of its last-component
    case needs a populated image, so only the fuel-exhaustion case is evaluated here -/
example : resErr (run (createDir ⟨fun c => [c]⟩ 0 (.root (rootSliceOf C09ex.fs16)) "a") (C09ex.dev 1)).1 = some .hang := by
  decide

end FatVerif
