import FatVerif.Proofs.Time
import FatVerif.Proofs.DirEntry
/-!
# C18 — timestamps (DESIGN.md §6 C18 items 1–3) and C08.2 `shortName_spec`

Every theorem is about the executable model in `FatVerif/Model/{Time,DirEntry}.lean`, which the `time` pure suite
compares with the real `time.rs` / `dir_entry.rs` on the complete date domain, the complete 10 ms time domain
(thorough tier) and ~10^5 directory slots.  Each theorem is followed by an `example` showing that its hypotheses are
satisfiable by a concrete, non-trivial value.
-/
namespace FatVerif.C18

/-! ## 1. dates -/

/-- **C18.1 `date_roundtrip`** — every date `Date::new` accepts (1980..2107 × 1..12 × 1..31, all 47 616 of them, by
    arithmetic) is stored in 16 bits and read back exactly. -/
theorem date_roundtrip (y m d : Nat) (dt : Date) (h : Date.new? y m d = some dt) :
    dt = ⟨y, m, d⟩ ∧ dt.encode < 65536 ∧ Date.decode dt.encode = dt := by
  obtain ⟨r, rfl⟩ := Date.new?_eq_some h
  unfold Date.inRange at r
  exact ⟨rfl, Date.encode_lt _ (by simp only; omega),
    Date.decode_encode _ (by simp only; omega) (by simp only; omega) (by simp only; omega) (by simp only; omega)⟩

example : Date.new? 2024 2 29 = some ⟨2024, 2, 29⟩ ∧ (⟨2024, 2, 29⟩ : Date).encode = 22621 := by decide

/-- the same statement by kernel evaluation over the complete domain (independent of the arithmetic lemmas) -/
theorem date_roundtrip_enum :
    ∀ y : Fin 128, ∀ m : Fin 12, ∀ d : Fin 31,
      Date.decode (Date.encode ⟨1980 + y.val, 1 + m.val, 1 + d.val⟩) = ⟨1980 + y.val, 1 + m.val, 1 + d.val⟩ := by
  decide +kernel

/-- `Date::new` accepts exactly the documented ranges (anything else is the documented panic) -/
theorem date_new_range (y m d : Nat) :
    (Date.new? y m d).isSome ↔ (1980 ≤ y ∧ y ≤ 2107 ∧ 1 ≤ m ∧ m ≤ 12 ∧ 1 ≤ d ∧ d ≤ 31) := by
  unfold Date.new? Date.inRange
  by_cases hr : 1980 ≤ y ∧ y ≤ 2107 ∧ 1 ≤ m ∧ m ≤ 12 ∧ 1 ≤ d ∧ d ≤ 31
  · simp only [hr, if_true, Option.isSome_some, and_self]
  · simp only [hr, if_false, Option.isSome_none, Bool.false_eq_true]

example : Date.new? 1979 12 31 = none ∧ Date.new? 2108 1 1 = none ∧ Date.new? 2000 13 1 = none ∧
    Date.new? 2000 0 1 = none ∧ Date.new? 2000 1 32 = none ∧ Date.new? 2000 1 0 = none := by decide

/-- conversely every stored u16 survives decode → encode, so `decode` loses nothing -/
theorem date_raw_roundtrip (raw : Nat) (h : raw < 65536) : (Date.decode raw).encode = raw :=
  Date.encode_decode raw h

example : (Date.decode 0xFFFF).encode = 0xFFFF := by decide

/-! ## 2. times -/

/-- **C18.2 `time_roundtrip`** (creation stamp, time + hi-res byte) — for all h < 24, mi < 60, s < 60, ms < 1000 the
    stored pair fits u16 × u8 (hi-res ≤ 199) and decodes to the same time with the milliseconds rounded down to
    10 ms. -/
theorem time_roundtrip (h mi s ms : Nat) (t : Time) (ht : Time.new? h mi s ms = some t) :
    t.encode.1 < 65536 ∧ t.encode.2 < 200 ∧
    Time.decode t.encode.1 t.encode.2 = ⟨h, mi, s, ms / 10 * 10⟩ := by
  obtain ⟨r, rfl⟩ := Time.new?_eq_some ht
  have r' := r
  unfold Time.inRange at r'
  refine ⟨Time.encodeLo_lt _ (by simp only; omega), ?_, ?_⟩
  · simp only [Time.encode]
    rw [Time.encodeHi_eq _ (by simp only; omega)]
    simp only; omega
  · simp only [Time.encode]
    rw [Time.decode_encode _ r]; rfl

example : Time.new? 23 59 59 999 = some ⟨23, 59, 59, 999⟩ ∧ (⟨23, 59, 59, 999⟩ : Time).encode = (0xBF7D, 199) ∧
    Time.decode 0xBF7D 199 = ⟨23, 59, 59, 990⟩ := by decide

/-- the loss is less than 10 ms and never moves the stamp forward -/
theorem time_roundtrip_error (h mi s ms : Nat) (t : Time) (ht : Time.new? h mi s ms = some t) :
    (Time.decode t.encode.1 t.encode.2).millis ≤ ms ∧ ms < (Time.decode t.encode.1 t.encode.2).millis + 10 := by
  rw [(time_roundtrip h mi s ms t ht).2.2]
  simp only; omega

/-- **C18.2 `mtime_roundtrip`** (modification stamp: hi-res byte dropped by `set_modified`, `modified()` decodes with
    0) — 2-second resolution, milliseconds 0. -/
theorem mtime_roundtrip (h mi s ms : Nat) (t : Time) (ht : Time.new? h mi s ms = some t) :
    Time.decode t.encode.1 0 = ⟨h, mi, s / 2 * 2, 0⟩ := by
  obtain ⟨r, rfl⟩ := Time.new?_eq_some ht
  simp only [Time.encode]
  rw [Time.decode_encode_mod _ r]; rfl

example : Time.new? 12 34 57 780 = some ⟨12, 34, 57, 780⟩ ∧
    Time.decode (⟨12, 34, 57, 780⟩ : Time).encode.1 0 = ⟨12, 34, 56, 0⟩ := by decide

/-- the loss is less than 2 s and never moves the stamp forward -/
theorem mtime_roundtrip_error (h mi s ms : Nat) (t : Time) (ht : Time.new? h mi s ms = some t) :
    (Time.decode t.encode.1 0).sec ≤ s ∧ s < (Time.decode t.encode.1 0).sec + 2 := by
  rw [mtime_roundtrip h mi s ms t ht]
  simp only; omega

/-- `Time::new` accepts exactly the documented ranges -/
theorem time_new_range (h mi s ms : Nat) :
    (Time.new? h mi s ms).isSome ↔ (h ≤ 23 ∧ mi ≤ 59 ∧ s ≤ 59 ∧ ms ≤ 999) := by
  unfold Time.new? Time.inRange
  by_cases hr : h ≤ 23 ∧ mi ≤ 59 ∧ s ≤ 59 ∧ ms ≤ 999
  · simp only [hr, if_true, Option.isSome_some, and_self]
  · simp only [hr, if_false, Option.isSome_none, Bool.false_eq_true]

example : Time.new? 24 0 0 0 = none ∧ Time.new? 0 60 0 0 = none ∧ Time.new? 0 0 60 0 = none ∧
    Time.new? 0 0 0 1000 = none := by decide

/-- **C18.2 `adate`** — the access stamp is a date only: `set_accessed` then `accessed()` returns the date exactly, and
    carries no time of day (the field is the 16-bit date). -/
theorem adate (e : DirFileEntryData) (y m d : Nat) (dt : Date) (h : Date.new? y m d = some dt) :
    (e.setAccessed dt).accessed = ⟨y, m, d⟩ ∧ (e.setAccessed dt).accessDate = dt.encode ∧
    (e.setAccessed dt).accessDate < 65536 := by
  obtain ⟨r, rfl⟩ := Date.new?_eq_some h
  have r' := r
  unfold Date.inRange at r'
  exact ⟨DirFileEntryData.accessed_setAccessed e _ r, rfl, Date.encode_lt _ (by simp only; omega)⟩

example : ((DirFileEntryData.new [70, 79, 79, 32, 32, 32, 32, 32, 66, 65, 82] 0x20).setAccessed ⟨2107, 12, 31⟩).accessed
    = ⟨2107, 12, 31⟩ := by decide

/-! ## 3. the time fields of the 32-byte record -/

/-- **C18.3 `entry_time_fields`, frame part** — on the serialised slot `set_created` rewrites exactly bytes 13 (10 ms
    count), 14–15 (time), 16–17 (date); `set_accessed` exactly bytes 18–19; `set_modified` exactly bytes 22–23 (time),
    24–25 (date).  Every other byte of the 32 is the byte that was there. -/
theorem entry_time_fields_frame (e : DirFileEntryData) (hn : e.name.length = 11) (dt : DateTime) (d : Date) :
    (e.setCreated dt).serialize =
      e.serialize.take 13 ++ ([dt.time.encode.2] ++ bytesLe16 dt.time.encode.1 ++ bytesLe16 dt.date.encode) ++
        e.serialize.drop 18 ∧
    (e.setAccessed d).serialize = e.serialize.take 18 ++ bytesLe16 d.encode ++ e.serialize.drop 20 ∧
    (e.setModified dt).serialize =
      e.serialize.take 22 ++ (bytesLe16 dt.time.encode.1 ++ bytesLe16 dt.date.encode) ++ e.serialize.drop 26 :=
  ⟨DirFileEntryData.serialize_setCreated e dt hn, DirFileEntryData.serialize_setAccessed e d hn,
   DirFileEntryData.serialize_setModified e dt hn⟩

/-- the same, pointwise: a byte index outside the stamp's bytes reads the same before and after -/
theorem entry_time_fields_untouched (e : DirFileEntryData) (hn : e.name.length = 11) (dt : DateTime) (d : Date)
    (i : Nat) :
    ((i < 13 ∨ 18 ≤ i) → (e.setCreated dt).serialize.getD i 0 = e.serialize.getD i 0) ∧
    ((i < 18 ∨ 20 ≤ i) → (e.setAccessed d).serialize.getD i 0 = e.serialize.getD i 0) ∧
    ((i < 22 ∨ 26 ≤ i) → (e.setModified dt).serialize.getD i 0 = e.serialize.getD i 0) := by
  have hl := DirFileEntryData.serialize_length e hn
  obtain ⟨h1, h2, h3⟩ := entry_time_fields_frame e hn dt d
  refine ⟨fun hi => ?_, fun hi => ?_, fun hi => ?_⟩
  · rw [h1]; exact splice_getD _ _ 13 18 i (by simp [bytesLe16]) (by omega) hi
  · rw [h2]; exact splice_getD _ _ 18 20 i (by simp [bytesLe16]) (by omega) hi
  · rw [h3]; exact splice_getD _ _ 22 26 i (by simp [bytesLe16]) (by omega) hi

/-- **C18.3, getter part** — after a setter the matching getter returns the rounded value (created: 10 ms, accessed:
    exact date, modified: 2 s / millis 0) and the other two getters are unchanged. -/
theorem entry_time_fields_get (e : DirFileEntryData) (y m d h mi s ms : Nat) (dt : DateTime)
    (hdt : DateTime.new? y m d h mi s ms = some dt) :
    (e.setCreated dt).created = ⟨⟨y, m, d⟩, ⟨h, mi, s, ms / 10 * 10⟩⟩ ∧
    (e.setCreated dt).accessed = e.accessed ∧ (e.setCreated dt).modified = e.modified ∧
    (e.setAccessed dt.date).accessed = ⟨y, m, d⟩ ∧
    (e.setAccessed dt.date).created = e.created ∧ (e.setAccessed dt.date).modified = e.modified ∧
    (e.setModified dt).modified = ⟨⟨y, m, d⟩, ⟨h, mi, s / 2 * 2, 0⟩⟩ ∧
    (e.setModified dt).created = e.created ∧ (e.setModified dt).accessed = e.accessed := by
  obtain ⟨rd, rt, rfl⟩ := DateTime.new?_eq_some hdt
  exact ⟨DirFileEntryData.created_setCreated e _ rd rt, rfl, rfl,
    DirFileEntryData.accessed_setAccessed e _ rd, rfl, rfl,
    DirFileEntryData.modified_setModified e _ rd rt, rfl, rfl⟩

/-- **C18.3, codec part** — `deserialize ∘ serialize` is the identity on short entries whose attribute byte uses only
    defined bits and is not long-name patterned; the setters keep an entry in that class, so setting a stamp commutes
    with a trip through the 32 bytes. -/
theorem entry_time_fields_codec (e : DirFileEntryData) (hw : e.WF) (hl : attrsIsLfn e.attrs = false)
    (y m d h mi s ms : Nat) (dt : DateTime) (hdt : DateTime.new? y m d h mi s ms = some dt) :
    e.serialize.length = 32 ∧
    DirEntryData.deserialize e.serialize = .file e ∧
    DirEntryData.deserialize (e.setCreated dt).serialize = .file (e.setCreated dt) ∧
    DirEntryData.deserialize (e.setAccessed dt.date).serialize = .file (e.setAccessed dt.date) ∧
    DirEntryData.deserialize (e.setModified dt).serialize = .file (e.setModified dt) := by
  obtain ⟨rd, rt, rfl⟩ := DateTime.new?_eq_some hdt
  unfold Date.inRange at rd
  unfold Time.inRange at rt
  exact ⟨DirFileEntryData.serialize_length e hw.name_len,
    DirEntryData.deserialize_serialize_file e hw hl,
    DirEntryData.deserialize_serialize_file _ (hw.setCreated _ (by simp only; omega) (by simp only; omega)) hl,
    DirEntryData.deserialize_serialize_file _ (hw.setAccessed _ (by simp only; omega)) hl,
    DirEntryData.deserialize_serialize_file _ (hw.setModified _ (by simp only; omega) (by simp only; omega)) hl⟩

/-- **C18.3 `entry_time_fields`** — the three parts together. -/
theorem entry_time_fields (e : DirFileEntryData) (hw : e.WF) (hl : attrsIsLfn e.attrs = false)
    (y m d h mi s ms : Nat) (dt : DateTime) (hdt : DateTime.new? y m d h mi s ms = some dt) :
    -- frame: exactly bytes 13–17 / 18–19 / 22–25
    ((e.setCreated dt).serialize =
        e.serialize.take 13 ++ ([dt.time.encode.2] ++ bytesLe16 dt.time.encode.1 ++ bytesLe16 dt.date.encode) ++
          e.serialize.drop 18 ∧
      (e.setAccessed dt.date).serialize =
        e.serialize.take 18 ++ bytesLe16 dt.date.encode ++ e.serialize.drop 20 ∧
      (e.setModified dt).serialize =
        e.serialize.take 22 ++ (bytesLe16 dt.time.encode.1 ++ bytesLe16 dt.date.encode) ++ e.serialize.drop 26) ∧
    -- getters after setters, also after a trip through the 32 bytes
    (∀ f, DirEntryData.deserialize (e.setCreated dt).serialize = .file f →
        f.created = ⟨⟨y, m, d⟩, ⟨h, mi, s, ms / 10 * 10⟩⟩ ∧ f.accessed = e.accessed ∧ f.modified = e.modified) ∧
    (∀ f, DirEntryData.deserialize (e.setAccessed dt.date).serialize = .file f →
        f.accessed = ⟨y, m, d⟩ ∧ f.created = e.created ∧ f.modified = e.modified) ∧
    (∀ f, DirEntryData.deserialize (e.setModified dt).serialize = .file f →
        f.modified = ⟨⟨y, m, d⟩, ⟨h, mi, s / 2 * 2, 0⟩⟩ ∧ f.created = e.created ∧ f.accessed = e.accessed) ∧
    -- codec
    DirEntryData.deserialize e.serialize = .file e := by
  obtain ⟨_, c0, c1, c2, c3⟩ := entry_time_fields_codec e hw hl y m d h mi s ms dt hdt
  obtain ⟨g1, g2, g3, g4, g5, g6, g7, g8, g9⟩ := entry_time_fields_get e y m d h mi s ms dt hdt
  refine ⟨entry_time_fields_frame e hw.name_len dt dt.date, ?_, ?_, ?_, c0⟩
  · intro f hf; rw [c1] at hf; cases hf; exact ⟨g1, g2, g3⟩
  · intro f hf; rw [c2] at hf; cases hf; exact ⟨g4, g5, g6⟩
  · intro f hf; rw [c3] at hf; cases hf; exact ⟨g7, g8, g9⟩

/-- a concrete well-formed entry: `README.TXT`, archive, cluster 0x0001_1234, size 0x12345678 -/
def sampleEntry : DirFileEntryData :=
  { name := [82, 69, 65, 68, 77, 69, 32, 32, 84, 88, 84], attrs := 0x20, reserved0 := 0x18, createTime0 := 123,
    createTime1 := 0x64B7, createDate := 0x5042, accessDate := 0x5042, firstClusterHi := 1, modifyTime := 0x645C,
    modifyDate := 0x5042, firstClusterLo := 0x1234, size := 0x12345678 }

theorem sampleEntry_wf : sampleEntry.WF := by
  constructor <;> decide

example : sampleEntry.WF ∧ attrsIsLfn sampleEntry.attrs = false ∧
    DateTime.new? 2020 2 2 12 34 57 789 = some ⟨⟨2020, 2, 2⟩, ⟨12, 34, 57, 789⟩⟩ ∧
    (sampleEntry.setCreated ⟨⟨2020, 2, 2⟩, ⟨12, 34, 57, 789⟩⟩).created = ⟨⟨2020, 2, 2⟩, ⟨12, 34, 57, 780⟩⟩ ∧
    (sampleEntry.setModified ⟨⟨2020, 2, 2⟩, ⟨12, 34, 57, 789⟩⟩).modified = ⟨⟨2020, 2, 2⟩, ⟨12, 34, 56, 0⟩⟩ ∧
    (sampleEntry.setCreated ⟨⟨2020, 2, 2⟩, ⟨12, 34, 57, 789⟩⟩).serialize =
      [82, 69, 65, 68, 77, 69, 32, 32, 84, 88, 84, 0x20, 0x18, 178, 0x5C, 0x64, 0x42, 0x50, 0x42, 0x50, 1, 0,
       0x5C, 0x64, 0x42, 0x50, 0x34, 0x12, 0x78, 0x56, 0x34, 0x12] :=
  ⟨sampleEntry_wf, by decide, by decide, by decide, by decide, by decide⟩

/-- reading any 32 bytes and writing them back changes at most the two undefined bits of the attribute byte (so
    re-serialising a foreign slot never disturbs its time bytes either) -/
theorem slot_reserialize (bs : List Nat) (hlen : bs.length = 32) (hb : ∀ b ∈ bs, b < 256) :
    (DirEntryData.deserialize bs).serialize = bs.set 11 (bs.getD 11 0 % 64) :=
  DirEntryData.serialize_deserialize bs hlen hb

example : (DirEntryData.deserialize (sampleEntry.serialize.set 11 0xE0)).serialize = sampleEntry.serialize := by
  decide

/-- long-name slots round-trip too -/
theorem lfn_codec (l : DirLfnEntryData) (hw : l.WF) (hl : attrsIsLfn l.attrs = true) :
    l.serialize.length = 32 ∧ DirEntryData.deserialize l.serialize = .lfn l :=
  ⟨DirLfnEntryData.serialize_length l hw.units_len, DirEntryData.deserialize_serialize_lfn l hw hl⟩

example : ∃ l : DirLfnEntryData, l.WF ∧ attrsIsLfn l.attrs = true ∧ l.order = 0x41 :=
  ⟨(DirLfnEntryData.new 0x41 0x5A).copyNameFromSlice [97, 98, 99, 0, 0xFFFF, 0xFFFF, 0xFFFF, 0xFFFF, 0xFFFF, 0xFFFF,
      0xFFFF, 0xFFFF, 0xFFFF],
    by constructor <;> decide, by decide, rfl⟩

/-! ## C08.2 `shortName_spec` -/

/-- specification: strip trailing spaces -/
def specRstrip (l : List Nat) : List Nat := (l.reverse.dropWhile (· == 32)).reverse

/-- specification of the displayed short name of an 11-byte raw name (FAT spec §6.1): base without trailing spaces,
    then `.` and the extension without trailing spaces if that is non-empty; a first byte 0x05 stands for 0xE5 -/
def specShortName (raw : List Nat) : List Nat :=
  let base := specRstrip (raw.take 8)
  let ext := specRstrip (raw.drop 8)
  let s := if ext.isEmpty then base else base ++ [46] ++ ext
  match s with
  | 5 :: t => 0xE5 :: t
  | _ => s

/-- **C08.2 `shortName_spec`** — `ShortName::new(raw).as_bytes()` is the specification's display name, for every
    11-byte raw name. -/
theorem shortName_spec (raw : List Nat) (h : raw.length = 11) : shortDisplay raw = specShortName raw := by
  have hb := ShortName.take_trimLen raw 8 (by omega)
  have hd3 : (raw.drop 8).length = 3 := by simp [h]
  have he := ShortName.take_trimLen (raw.drop 8) 3 (by omega)
  rw [List.take_of_length_le (l := raw.drop 8) (i := 3) (by omega)] at he
  have hle := ShortName.trimLen_le (raw.drop 8) 3
  have hlen : (specRstrip (raw.drop 8)).length = ShortName.trimLen (raw.drop 8) 3 := by
    unfold specRstrip; rw [← he, List.length_take]; omega
  unfold shortDisplay specShortName
  rw [ShortName.asBytes_new]
  unfold ShortName.body
  simp only
  rw [hb, he]
  by_cases h0 : ShortName.trimLen (raw.drop 8) 3 = 0
  · have hnil : specRstrip (raw.drop 8) = [] := List.eq_nil_of_length_eq_zero (by omega)
    simp only [specRstrip] at hnil ⊢
    simp only [h0, hnil, Nat.lt_irrefl, if_false, List.append_nil, List.isEmpty_nil, if_true]
    unfold ShortName.fixHead
    split <;> simp_all
  · have hne : specRstrip (raw.drop 8) ≠ [] := by
      intro hn; rw [hn] at hlen; simp at hlen; omega
    simp only [specRstrip] at hne ⊢
    simp only [Nat.pos_of_ne_zero h0, if_true, List.isEmpty_iff, hne, if_false, List.append_assoc,
      List.singleton_append]
    unfold ShortName.fixHead
    split <;> simp_all

example : shortDisplay [70, 79, 79, 32, 32, 32, 32, 32, 66, 65, 82] = [70, 79, 79, 46, 66, 65, 82] ∧   -- "FOO.BAR"
    shortDisplay [5, 79, 79, 32, 32, 32, 32, 32, 32, 32, 32] = [0xE5, 79, 79] ∧                          -- 0x05 → 0xE5
    shortDisplay [76, 79, 79, 75, 32, 65, 84, 32, 77, 32, 69] = [76, 79, 79, 75, 32, 65, 84, 46, 77, 32, 69] ∧
    shortDisplay [32, 32, 32, 32, 32, 32, 32, 32, 32, 32, 32] = [] := by decide

/-- specification of `make_ascii_lowercase` on one byte -/
def specLower (b : Nat) : Nat := if 65 ≤ b ∧ b ≤ 90 then b + 32 else b

/-- specification of the displayed name under the Windows-NT case flags of byte 12: bit 3 = base in lower case,
    bit 4 = extension in lower case -/
def specLowercaseName (flags : Nat) (raw : List Nat) : List Nat :=
  specShortName ((if flags / 8 % 2 = 1 then (raw.take 8).map specLower else raw.take 8) ++
                 (if flags / 16 % 2 = 1 then (raw.drop 8).map specLower else raw.drop 8))

/-- **C08.2, case flags** — `lowercase_name()` is the specification's display name under the case flags. -/
theorem lowercaseName_spec (e : DirFileEntryData) (h : e.name.length = 11) :
    e.lowercaseName.asBytes = specLowercaseName e.reserved0 e.name := by
  have hlen : e.lowercaseRaw.length = 11 := by
    unfold DirFileEntryData.lowercaseRaw
    split <;> split <;> simp [h]
  have := shortName_spec e.lowercaseRaw hlen
  unfold shortDisplay at this
  unfold DirFileEntryData.lowercaseName specLowercaseName
  rw [this]
  unfold DirFileEntryData.lowercaseRaw
  rw [DirFileEntryData.lowercaseBasename_eq, DirFileEntryData.lowercaseExt_eq]
  simp only [decide_eq_true_eq]
  rfl

example : (sampleEntry.lowercaseName).asBytes = [114, 101, 97, 100, 109, 101, 46, 116, 120, 116] ∧   -- "readme.txt"
    ({ sampleEntry with reserved0 := 0x08 }.lowercaseName).asBytes = [114, 101, 97, 100, 109, 101, 46, 84, 88, 84] := by
  decide

end FatVerif.C18
