import FatVerif.Props.C06mount
import FatVerif.Props.C01sim
import FatVerif.Proofs.FormatMount3
/-!
# C06 — the root directory of the formatted IMAGE (towards `format_root_listing_empty`)

Image-level version of `C06image.format_root_empty`, and what a directory scan sees first: without a label the first
slot of the root directory is the END marker (`DirEntryData::is_end`), so every scan (`list`, `find_entry`) stops at
once; with a label the first slot is the volume-label entry (skipped by listings: `read_dir_entry(skip_volume = true)`)
and the second slot is the END marker.

The program-level statement `format_then_list_root_empty` (`run (listDir (rootDirStream fs)) d = (.ok [], _)` after
format + mount, from `Formattable` alone) is at the end of the file: FAT12/16 on agent-effects' simulation of the fixed
root (`DirSim.listDir_root_empty`), FAT32 on the cluster-chain simulation (`DirSim.listDir_chain_sim`) with
FAT[2] = end-of-chain (`C06vol.Fresh.table`) and the layout facts `C06vol.Fresh.geo`.
-/
namespace FatVerif.C06root
open FatVerif FatVerif.Format FatVerif.C06image FatVerif.C06mount

/-- byte offset of the root directory: the fixed region after the FATs (FAT12/16), the first data cluster (FAT32) -/
def rootPos (b : FBpb) : Nat := (b.reserved + b.fats * b.sectorsPerFat) * b.bps

/-- size of the region `format_volume` initialises there -/
def rootLen (b : FBpb) (ft : FatType) : Nat := (if ft = .fat32 then b.spc else b.rootDirSectors) * b.bps

theorem rootByte_lt (o : FormatOpts) (hl : ∀ l, o.label = some l → l.length = 11 ∧ ∀ b ∈ l, b < 256) (x : Nat) :
    rootByte o x < 256 := by
  unfold rootByte
  split
  · rename_i lbl h
    split
    · apply getD_lt_of_allB
      unfold DirFileEntryData.serialize DirFileEntryData.serializeTail
      simp only [allB_append, allB_cons]
      refine ⟨(hl lbl h).2, ⟨⟨⟨⟨⟨⟨⟨⟨?_, allB_le16 _⟩, allB_le16 _⟩, allB_le16 _⟩, allB_le16 _⟩, allB_le16 _⟩,
        allB_le16 _⟩, allB_le16 _⟩, allB_le32 _⟩⟩
      exact ⟨by show ATTR_VOLUME_ID < 256; decide, by show (0 : Nat) < 256; omega, by show (0 : Nat) < 256; omega, allB_nil⟩
    · omega
  · omega

/-- **the root directory in the image**: `rootByte` (the 32-byte label entry, if any, then zeros) -/
theorem format_root_image (o : FormatOpts) (d0 d1 : Dev) (hpre : Formattable o d0)
    (hrun : run (formatVolume o) d0 = (.ok (), d1)) :
    ∃ boot ft, formatChecked o (fmtTotal o d0) = .ok (boot, ft) ∧ 64 ≤ rootLen boot.bpb ft ∧
      ∀ x, x < rootLen boot.bpb ft → d1.img.getByte (rootPos boot.bpb + x) = rootByte o x := by
  have hR := hpre.run hrun
  obtain ⟨boot, ft, hc, hb⟩ := format_root_empty o d0 d1 hR
  obtain ⟨_, himg⟩ := run_img_replay _ d0 _ d1 hrun hpre.imgWf hpre.logEmpty
  have hg := fmtGeom_of_ok hpre.acc hpre.tot hc
  refine ⟨boot, ft, hc, ?_, fun x hx => ?_⟩
  · unfold rootLen
    have hB := hg.bps_ge
    by_cases h32 : ft = .fat32
    · rw [if_pos h32]
      have hs : 1 ≤ boot.bpb.spc := by
        have := hg.spc_mem; simp only [List.mem_cons, List.mem_nil_iff, or_false] at this; omega
      have := Nat.mul_le_mul hs hB; omega
    · rw [if_neg h32]
      have := Nat.mul_le_mul (hg.rds1 h32) hB; omega
  · unfold rootPos
    rw [himg, hb d0.img.getByte x hx]
    exact Nat.mod_eq_of_lt (rootByte_lt o (fun l h => ⟨hpre.rng.label l h, hpre.labelBytes l h⟩) x)

/-- a 32-byte slot read from the image -/
def slotAt (d : Dev) (pos : Nat) : List Nat := d.img.read pos 32

/-- **what a directory scan sees first**: no label ⇒ slot 0 of the root is all zero, i.e. the END marker; a label ⇒
    slot 0 is `DirFileEntryData::new(label, VOLUME_ID)` serialised and slot 1 is the END marker -/
theorem format_root_first_slots (o : FormatOpts) (d0 d1 : Dev) (hpre : Formattable o d0)
    (hrun : run (formatVolume o) d0 = (.ok (), d1)) :
    ∃ boot ft, formatChecked o (fmtTotal o d0) = .ok (boot, ft) ∧
      (o.label = none → slotAt d1 (rootPos boot.bpb) = List.replicate 32 0) ∧
      (∀ lbl, o.label = some lbl →
        slotAt d1 (rootPos boot.bpb) = (DirFileEntryData.new lbl ATTR_VOLUME_ID).serialize ∧
        slotAt d1 (rootPos boot.bpb + 32) = List.replicate 32 0) ∧
      (DirEntryData.deserialize (List.replicate 32 0)).isEnd = true := by
  obtain ⟨boot, ft, hc, h64, hb⟩ := format_root_image o d0 d1 hpre hrun
  refine ⟨boot, ft, hc, ?_, ?_, by decide⟩
  · intro hnone
    apply read_eq_of_bytes _ _ _ _ (by simp)
    intro k hk
    rw [hb k (by omega)]
    unfold rootByte; rw [hnone]
    exact (getD_replicate_zero 32 k).symm
  · intro lbl hl
    have hlen : (DirFileEntryData.new lbl ATTR_VOLUME_ID).serialize.length = 32 :=
      DirFileEntryData.serialize_length _ (hpre.rng.label lbl hl)
    constructor
    · apply read_eq_of_bytes _ _ _ _ hlen
      intro k hk
      rw [hb k (by omega)]
      unfold rootByte; rw [hl]
      simp only [if_pos hk]
    · apply read_eq_of_bytes _ _ _ _ (by simp)
      intro k hk
      rw [Nat.add_assoc, hb (32 + k) (by omega)]
      unfold rootByte; rw [hl]
      simp only [if_neg (show ¬ 32 + k < 32 by omega)]
      exact (getD_replicate_zero 32 k).symm

/-! ## non-vacuity: `C06mount.ex_formattable` (FAT16 with the label "ABC") meets the hypotheses and the run succeeds
    (`C06mount`); the END-marker fact is closed by evaluation above. -/
example : Formattable Ex.o16 Ex.d16 ∧ Ex.o16.label = some [65, 66, 67, 32, 32, 32, 32, 32, 32, 32, 32] :=
  ⟨ex_formattable, rfl⟩

/-! ## the program-level statement (added by agent-effects, using the directory-read simulation of `Props/C01sim`) -/

/-- core of `format_then_list_root_empty` (by agent-effects, on the directory-read simulation of `Props/C01sim`): for
    an explicit mounted state whose fixed root slice is the region `format_volume` initialised -/
theorem list_root_empty_core (o : FormatOpts) (d0 d1 : Dev) (hpre : Formattable o d0)
    {boot : FBoot} {ft : FatType} {fs : FsState} {d2 : Dev} {strict accDate lfnAlloc unicode : Bool}
    (hm : run (mount strict accDate lfnAlloc unicode) (nextOp d1) = (.ok fs, d2)) (hfs : d2.fs = fs)
    (himg : d2.img = d1.img) (hft : fs.fatType = ft)
    (hb : ∀ x, x < rootLen boot.bpb ft → d1.img.getByte (rootPos boot.bpb + x) = rootByte o x)
    (h32 : ft ≠ .fat32) (N : Nat) (hpos : (rootSliceOf fs).beginOff = rootPos boot.bpb)
    (hlen : (rootSliceOf fs).size = rootLen boot.bpb ft) (hN : rootLen boot.bpb ft = 32 * N) (hfuel : N < dirFuel fs)
    (hins : rootPos boot.bpb + rootLen boot.bpb ft ≤ d1.img.size) (h64 : 64 ≤ rootLen boot.bpb ft) :
    ∃ d3, run (listDir (rootDirStream fs)) d2 = (.ok [], d3) ∧ d3.img = d2.img ∧ d3.log = d2.log := by
  have hfail : d2.failAt = none := ((run_facts _ _ hm).spent rfl).1
  have hR : DirSim.RootReadable d2 N :=
    ⟨hfail, by rw [hfs, hpos, hlen, himg]; exact hins, by rw [hfs, hlen]; exact hN, by rw [hfs]; exact hfuel⟩
  have hstream : rootDirStream fs = DirSim.rootAt d2.fs 0 := by
    rw [hfs]
    unfold rootDirStream
    cases hft' : fs.fatType with
    | fat32 => rw [hft] at hft'; exact absurd hft' h32
    | fat12 => rfl
    | fat16 => rfl
  have hN2 : 2 ≤ N := by omega
  have hbyte : ∀ x, x < rootLen boot.bpb ft → d2.img.getByte ((rootSliceOf d2.fs).beginOff + x) = rootByte o x := by
    intro x hx; rw [hfs, hpos, himg]; exact hb x hx
  have hzero : ∀ (off : Nat), off + 32 ≤ rootLen boot.bpb ft → (∀ k, k < 32 → rootByte o (off + k) = 0) →
      Lfn.isEnd (d2.img.read ((rootSliceOf d2.fs).beginOff + off) 32) = true := by
    intro off hoff hz
    simp only [Lfn.isEnd, Lfn.byte]
    rw [Img.read_getD _ _ _ _ (by omega), Nat.add_zero, hbyte off (by omega)]
    have := hz 0 (by omega); rw [Nat.add_zero] at this; rw [this]; rfl
  have hempty : DirSim.Evals (listDir (DirSim.rootAt d2.fs 0)) d2 [] := by
    apply DirSim.listDir_root_empty hR
    cases hl : o.label with
    | none =>
      left
      refine ⟨by omega, ?_⟩
      have := hzero 0 (by omega) (fun k _ => by unfold rootByte; rw [hl])
      rwa [Nat.add_zero] at this
    | some lbl =>
      right
      refine ⟨hN2, ?_, hzero 32 (by omega) (fun k hk => ?_)⟩
      · rw [hbyte 11 (by omega)]
        unfold rootByte; rw [hl]
        simp only [show (11 : Nat) < 32 by omega, if_true]
        have hll := hpre.rng.label lbl hl
        unfold DirFileEntryData.serialize
        rw [List.getD_eq_getElem?_getD, List.getElem?_append_right (by simp [DirFileEntryData.new]; omega)]
        simp [DirFileEntryData.new, DirFileEntryData.serializeTail, hll, ATTR_VOLUME_ID]
      · unfold rootByte; rw [hl]
        simp only [show ¬ (32 + k < 32) by omega, if_false]
  obtain ⟨d3, hr3, hs3⟩ := hempty
  rw [← hstream] at hr3
  exact ⟨d3, hr3, hs3.img, hs3.log⟩


theorem bps_mul32 {b : Nat} (hb : b ∈ [512, 1024, 2048, 4096]) : ∃ m, b = 32 * m ∧ 16 ≤ m ∧ m ≤ 128 := by
  simp only [List.mem_cons, List.mem_nil_iff, or_false] at hb
  rcases hb with rfl | rfl | rfl | rfl
  · exact ⟨16, rfl, by omega, by omega⟩
  · exact ⟨32, rfl, by omega, by omega⟩
  · exact ⟨64, rfl, by omega, by omega⟩
  · exact ⟨128, rfl, by omega, by omega⟩

/-- `format_then_list_root_empty`, FAT12/16 part, from `Formattable` alone: format a device, mount it as the next
    call sees it, list the root directory — the listing is empty (a volume label is skipped by listings), and nothing
    is written -/
theorem format_then_list_root_empty_fixed (o : FormatOpts) (d0 d1 : Dev) (hpre : Formattable o d0)
    (hrun : run (formatVolume o) d0 = (.ok (), d1)) (strict accDate lfnAlloc unicode : Bool) :
    ∃ boot ft fs d2, formatChecked o (fmtTotal o d0) = .ok (boot, ft) ∧
      run (mount strict accDate lfnAlloc unicode) (nextOp d1) = (.ok fs, d2) ∧
      (ft ≠ .fat32 →
        ∃ d3, run (listDir (rootDirStream fs)) d2 = (.ok [], d3) ∧ d3.img = d2.img ∧ d3.log = d2.log) := by
  obtain ⟨boot, ft, fs, d2, hc, hm, hfs, himg, _, hft, hbps, hspc, hres, hfats, hspf, hroot, htc, _, _, _, _, _, hx⟩ :=
    format_then_mount_full o d0 d1 hpre hrun strict accDate lfnAlloc unicode
  obtain ⟨boot', ft', hc', h64, hb⟩ := format_root_image o d0 d1 hpre hrun
  rw [hc] at hc'
  cases hc'
  refine ⟨boot, ft, fs, d2, hc, hm, fun h32 => ?_⟩
  have hg := fmtGeom_of_ok hpre.acc hpre.tot hc
  obtain ⟨m, hm32, hm16, hm128⟩ := bps_mul32 hg.bps_mem
  have hlenE : rootLen boot.bpb ft = boot.bpb.rootDirSectors * boot.bpb.bps := by
    unfold rootLen; rw [if_neg h32]
  have hpos : (rootSliceOf fs).beginOff = rootPos boot.bpb := by
    show (fs.firstDataSector - fs.rootDirSectors) * fs.bps = _
    rw [hx.firstDataSector, hx.rootDirSectors, hbps]
    unfold rootPos
    rw [Nat.add_sub_cancel]
  have hlen : (rootSliceOf fs).size = rootLen boot.bpb ft := by
    show fs.rootDirSectors * fs.bps = _
    rw [hx.rootDirSectors, hbps, hlenE]
  have hbo : boot.bpb.bps = o.bps := by
    obtain ⟨c, _, _, _, _, _, _, _, hboot, _⟩ := formatChecked_ok_layout hpre.acc hpre.tot hc
    rw [hboot]; rfl
  have hins : rootPos boot.bpb + rootLen boot.bpb ft ≤ d1.img.size := by
    rw [hlenE, run_img_size _ _ _ _ hrun]
    unfold rootPos
    rw [← Nat.add_mul]
    have := Nat.mul_le_mul_right boot.bpb.bps (Nat.le_of_lt hg.fit)
    have := hpre.size
    rw [hbo] at *; omega
  -- the number of slots and the scan fuel
  have hN : rootLen boot.bpb ft = 32 * (boot.bpb.rootDirSectors * m) := by
    rw [hlenE, hm32, ← Nat.mul_assoc, Nat.mul_comm boot.bpb.rootDirSectors 32, Nat.mul_assoc]
  have hrdsdef : boot.bpb.rootDirSectors = (boot.bpb.rootEntries * 32 + boot.bpb.bps - 1) / boot.bpb.bps := rfl
  have hfuel : boot.bpb.rootDirSectors * m < dirFuel fs := by
    unfold dirFuel FsState.clusterSize
    rw [hroot, hbps, hspc]
    -- rds * bps < rootEntries * 32 + bps
    have h1 : boot.bpb.rootDirSectors * boot.bpb.bps ≤ boot.bpb.rootEntries * 32 + boot.bpb.bps - 1 := by
      rw [hrdsdef]; exact Nat.div_mul_le_self _ _
    have hs1 : 1 ≤ boot.bpb.spc := by
      have := hg.spc_mem; simp only [List.mem_cons, List.mem_nil_iff, or_false] at this; omega
    have h2 : m ≤ boot.bpb.bps * boot.bpb.spc / 32 := by
      rw [hm32, Nat.mul_assoc, Nat.mul_div_cancel_left _ (by omega)]
      exact Nat.le_mul_of_pos_right _ hs1
    have h3 : 2 * (boot.bpb.bps * boot.bpb.spc / 32) ≤ (fs.totalClusters + 2) * (boot.bpb.bps * boot.bpb.spc / 32) :=
      Nat.mul_le_mul_right _ (by omega)
    rw [hm32, ← Nat.mul_assoc, Nat.mul_comm boot.bpb.rootDirSectors 32, Nat.mul_assoc] at h1
    omega
  exact list_root_empty_core o d0 d1 hpre hm hfs himg hft hb h32 _ hpos hlen hN hfuel hins h64

/-! ## FAT32: the root directory is the cluster chain of cluster 2 -/

open FatVerif.C06vol FatVerif.FileSim in
/-- a directory whose first slot is an END marker — or a volume label followed by an END marker — lists as empty -/
theorem readDirEntries_empty (alloc : Bool) (L : List (List Nat))
    (h : (1 ≤ L.length ∧ Lfn.isEnd (L.getD 0 []) = true) ∨
      (2 ≤ L.length ∧ (L.getD 0 []).getD 11 0 = 8 ∧ Lfn.isEnd (L.getD 1 []) = true)) :
    readDirEntries alloc true L = [] := by
  match L, h with
  | [], .inl h => simp at h
  | [], .inr h => simp at h
  | s0 :: rest, .inl ⟨_, h0⟩ => exact DirSim.readDirEntries_end_first _ _ _ _ h0
  | [_], .inr h => simp at h
  | s0 :: s1 :: rest, .inr ⟨_, h0, h1⟩ => exact DirSim.readDirEntries_label_then_end _ _ _ _ h0 h1

open FatVerif.C06vol FatVerif.FileSim in
/-- core of the FAT32 case: on the freshly formatted and mounted FAT32 volume the root directory (the chain `[2]`:
    FAT[2] is end-of-chain, `Fresh.table`) is readable in the sense of `Props/C01sim` -/
theorem fresh_root_chain {o : FormatOpts} {d0 d1 : Dev} {strict accDate lfnAlloc unicode : Bool}
    {boot : FBoot} {fs : FsState} {d2 : Dev} (hpre : Formattable o d0)
    (hrun : run (formatVolume o) d0 = (.ok (), d1))
    (F : Fresh o d0 d1 strict accDate lfnAlloc unicode boot .fat32 fs d2)
    (hcap : boot.bpb.sectorsPerFat * boot.bpb.bps * 8 / 32 ≤ 0x0FFFFFF0) :
    fs.rootCluster = 2 ∧ DirSim.ChainReadable d2 2 none [2] := by
  have hg := fmtGeom_of_ok hpre.acc hpre.tot F.checked
  have hgeo : Geo d2.fs d2.img.size := by rw [F.fsEq]; exact F.geo hpre hrun (fun _ => hcap)
  obtain ⟨_, h2⟩ := F.table hpre hrun (fun _ => hcap)
  have htc : 65525 ≤ fs.totalClusters := by
    have := hg.ftc
    rw [← F.tcEq hpre] at this
    unfold FatType.fromClusters at this
    by_cases h1 : fs.totalClusters < 4085
    · rw [if_pos h1] at this; cases this
    · rw [if_neg h1] at this
      by_cases h3 : fs.totalClusters < 65525
      · rw [if_pos h3] at this; cases this
      · omega
  have hbps := hg.bps_mem
  have hspc := hg.spc_mem
  simp only [List.mem_cons, List.mem_nil_iff, or_false] at hbps hspc
  have hcs : d2.fs.clusterSize = boot.bpb.bps * boot.bpb.spc := by
    rw [F.fsEq]; unfold FsState.clusterSize; rw [F.bps, F.spc]
  have hcs1 : 512 ≤ boot.bpb.bps * boot.bpb.spc := by
    have := Nat.mul_le_mul (show 512 ≤ boot.bpb.bps by omega) (show 1 ≤ boot.bpb.spc by omega); omega
  have hcs2 : boot.bpb.bps * boot.bpb.spc ≤ 4096 * 128 :=
    Nat.mul_le_mul (by omega) (by omega)
  have hcs32 : boot.bpb.bps * boot.bpb.spc % 32 = 0 := by
    obtain ⟨m, hm, _, _⟩ := bps_mul32 hg.bps_mem
    rw [hm, Nat.mul_assoc]; exact Nat.mul_mod_right _ _
  refine ⟨by rw [F.rootCluster]; exact (hg.f32 rfl).2.2, ⟨⟨F.extra.failAt, hgeo, rfl, ?_, ?_, rfl, Or.inr rfl, ?_, ?_, ?_⟩, ?_⟩⟩
  · apply Fat.Chain.last
    intro n hn
    rw [tabView_eq_view hgeo d2.img (by rw [F.fsEq]; omega), fatArr_eq_imgFatBytes, F.fsEq] at hn
    have := h2 rfl
    unfold C03img.imgTable at this
    rw [this] at hn
    cases hn
  · intro c hc
    simp only [List.mem_cons, List.mem_nil_iff, or_false] at hc
    rw [F.fsEq]; omega
  · intro e he; cases he
  · rw [hcs]; exact hcs32
  · rw [hcs]; simp only [List.length_cons, List.length_nil]; omega
  · unfold dirFuel
    rw [hcs, F.fsEq]
    simp only [List.length_cons, List.length_nil]
    have : 2 * (boot.bpb.bps * boot.bpb.spc / 32) ≤ (fs.totalClusters + 2) * (boot.bpb.bps * boot.bpb.spc / 32) :=
      Nat.mul_le_mul_right _ (by omega)
    omega

open FatVerif.C06vol FatVerif.FileSim in
/-- `format_then_list_root_empty`, FAT32 part (volumes whose FAT has no room for the BAD markers, as in
    `formatFat_view_fat32`): the listing of the root directory is empty, no byte changes and nothing is written -/
theorem list_root_empty_fat32 {o : FormatOpts} {d0 d1 : Dev} {strict accDate lfnAlloc unicode : Bool}
    {boot : FBoot} {fs : FsState} {d2 : Dev} (hpre : Formattable o d0)
    (hrun : run (formatVolume o) d0 = (.ok (), d1))
    (F : Fresh o d0 d1 strict accDate lfnAlloc unicode boot .fat32 fs d2)
    (hcap : boot.bpb.sectorsPerFat * boot.bpb.bps * 8 / 32 ≤ 0x0FFFFFF0) :
    ∃ d3, run (listDir (rootDirStream fs)) d2 = (.ok [], d3) ∧ d3.img = d2.img ∧ d3.writesOf = d2.writesOf := by
  obtain ⟨hrc, hR⟩ := fresh_root_chain hpre hrun F hcap
  have hg := fmtGeom_of_ok hpre.acc hpre.tot F.checked
  obtain ⟨boot', ft', hc', h64, hb⟩ := format_root_image o d0 d1 hpre hrun
  rw [F.checked] at hc'
  cases hc'
  have hlenE : rootLen boot.bpb .fat32 = boot.bpb.bps * boot.bpb.spc := by
    unfold rootLen; rw [if_pos rfl, Nat.mul_comm]
  have hcs : d2.fs.clusterSize = boot.bpb.bps * boot.bpb.spc := by
    rw [F.fsEq]; unfold FsState.clusterSize; rw [F.bps, F.spc]
  have hoff : clusterOff d2.fs 2 = rootPos boot.bpb := by
    unfold clusterOff rootPos
    rw [F.fsEq, F.extra.firstDataSector, hg.rds32 rfl, F.bps]
    simp only [Nat.sub_self, Nat.zero_mul, Nat.add_zero]
  have hsim := DirSim.listDir_chain_sim hR
  -- the slots of the root cluster
  generalize hK : boot.bpb.bps * boot.bpb.spc / 32 = K at *
  have hK2 : 2 ≤ K := by rw [← hK, ← hlenE]; omega
  have hslots : DirSim.chainSlots d2.fs d2.img [2] =
      (List.range K).map fun j => d2.img.read (rootPos boot.bpb + 32 * j) 32 := by
    unfold DirSim.chainSlots
    simp only [List.flatMap_cons, List.flatMap_nil, List.append_nil]
    rw [hcs, hK, hoff]
  have hget : ∀ j, j < K → (DirSim.chainSlots d2.fs d2.img [2]).getD j [] = d2.img.read (rootPos boot.bpb + 32 * j) 32 := by
    intro j hj
    rw [hslots, List.getD_eq_getElem?_getD, List.getElem?_map, List.getElem?_range hj]
    rfl
  have hKlen : 32 * K ≤ rootLen boot.bpb .fat32 := by
    rw [hlenE, ← hK]; exact Nat.mul_div_le _ _
  have hbyte : ∀ x, x < rootLen boot.bpb .fat32 → d2.img.getByte (rootPos boot.bpb + x) = rootByte o x := by
    intro x hx; rw [F.img]; exact hb x hx
  have hzero : ∀ (off : Nat), off + 32 ≤ rootLen boot.bpb .fat32 → (∀ k, k < 32 → rootByte o (off + k) = 0) →
      Lfn.isEnd (d2.img.read (rootPos boot.bpb + off) 32) = true := by
    intro off hoff hz
    simp only [Lfn.isEnd, Lfn.byte]
    rw [Img.read_getD _ _ _ _ (by omega), Nat.add_zero, hbyte off (by omega)]
    have := hz 0 (by omega); rw [Nat.add_zero] at this; rw [this]; rfl
  have hempty : readDirEntries d2.fs.lfnAlloc true (DirSim.chainSlots d2.fs d2.img [2]) = [] := by
    apply readDirEntries_empty
    have hlen : (DirSim.chainSlots d2.fs d2.img [2]).length = K := by rw [hslots]; simp
    rw [hlen, hget 0 (by omega), hget 1 (by omega)]
    cases hl : o.label with
    | none =>
      left
      refine ⟨by omega, ?_⟩
      exact hzero 0 (by omega) (fun k _ => by unfold rootByte; rw [hl])
    | some lbl =>
      right
      refine ⟨hK2, ?_, hzero 32 (by omega) (fun k hk => ?_)⟩
      · rw [Img.read_getD _ _ _ _ (by omega), Nat.mul_zero, Nat.add_zero, hbyte 11 (by omega)]
        unfold rootByte; rw [hl]
        simp only [show (11 : Nat) < 32 by omega, if_true]
        have hll := hpre.rng.label lbl hl
        unfold DirFileEntryData.serialize
        rw [List.getD_eq_getElem?_getD, List.getElem?_append_right (by simp [DirFileEntryData.new]; omega)]
        simp [DirFileEntryData.new, DirFileEntryData.serializeTail, hll, ATTR_VOLUME_ID]
      · unfold rootByte; rw [hl]
        simp only [show ¬ (32 + k < 32) by omega, if_false]
  rw [hempty] at hsim
  obtain ⟨d3, hr3, hs3⟩ := hsim
  refine ⟨d3, ?_, hs3.img, hs3.writesOf⟩
  rw [DirSim.rootDirStream_fat32 fs F.fatType, hrc]
  exact hr3

open FatVerif.C06vol in
/-- **`format_then_list_root_empty`**, from `Formattable` alone: format a device, mount it as the next call sees it,
    list the root directory — the listing is empty (a volume label is skipped by listings), the image is unchanged and
    nothing is written. FAT12/16: the fixed root region; FAT32: the cluster chain of the root cluster (for volumes whose
    FAT has no room for the BAD markers: `capacity ≤ 0x0FFFFFF0`, the hypothesis of `formatFat_view_fat32`). -/
theorem format_then_list_root_empty (o : FormatOpts) (d0 d1 : Dev) (hpre : Formattable o d0)
    (hrun : run (formatVolume o) d0 = (.ok (), d1)) (strict accDate lfnAlloc unicode : Bool) :
    ∃ boot ft fs d2, formatChecked o (fmtTotal o d0) = .ok (boot, ft) ∧
      run (mount strict accDate lfnAlloc unicode) (nextOp d1) = (.ok fs, d2) ∧
      ((ft = .fat32 → boot.bpb.sectorsPerFat * boot.bpb.bps * 8 / 32 ≤ 0x0FFFFFF0) →
        ∃ d3, run (listDir (rootDirStream fs)) d2 = (.ok [], d3) ∧ d3.img = d2.img ∧ d3.writesOf = d2.writesOf) := by
  obtain ⟨boot, ft, fs, d2, hc, hm, hfix⟩ :=
    format_then_list_root_empty_fixed o d0 d1 hpre hrun strict accDate lfnAlloc unicode
  obtain ⟨boot', ft', fs', d2', F⟩ := fresh_of_format o d0 d1 hpre hrun strict accDate lfnAlloc unicode
  have e1 := F.checked
  rw [hc] at e1
  simp only [Except.ok.injEq, Prod.mk.injEq] at e1
  obtain ⟨rfl, rfl⟩ := e1
  have e2 := F.mounted
  rw [hm] at e2
  simp only [Prod.mk.injEq, Except.ok.injEq] at e2
  obtain ⟨rfl, rfl⟩ := e2
  refine ⟨boot, ft, fs, d2, hc, hm, fun hcap => ?_⟩
  by_cases h32 : ft = .fat32
  · subst h32
    exact list_root_empty_fat32 hpre hrun F (hcap rfl)
  · obtain ⟨d3, h1, h2, h3⟩ := hfix h32
    exact ⟨d3, h1, h2, by unfold Dev.writesOf; rw [h3]⟩

/-! ## non-vacuity of `format_then_list_root_empty` -/

set_option maxRecDepth 100000 in
/-- on the concrete FAT16 device of `C06image.Ex` (label "ABC"; the run succeeds by kernel evaluation) the theorem
    applies: the root directory of the freshly formatted volume lists as empty although slot 0 holds the label -/
example : ∃ fs d2 d3, run (mount true false true true) (nextOp (run (formatVolume Ex.o16) Ex.d16).2) = (.ok fs, d2) ∧
    run (listDir (rootDirStream fs)) d2 = (.ok [], d3) ∧ d3.img = d2.img := by
  have hrun : run (formatVolume Ex.o16) Ex.d16 = (.ok (), (run (formatVolume Ex.o16) Ex.d16).2) :=
    Ex.run_of_okUnit (by decide +kernel)
  obtain ⟨boot, ft, fs, d2, hc, hm, hl⟩ :=
    format_then_list_root_empty Ex.o16 Ex.d16 _ ex_formattable hrun true false true true
  have hft : ft = .fat16 := by
    have hm := (formatChecked_ok_layout ex_formattable.acc ex_formattable.tot hc).choose_spec.2.2.2.1
    simpa [Ex.o16, allowedTypes] using hm
  subst hft
  obtain ⟨d3, h1, h2, _⟩ := hl (fun h => by cases h)
  exact ⟨fs, d2, d3, hm, h1, h2⟩

end FatVerif.C06root
