import FatVerif.Props.C06mount
import FatVerif.Props.C01sim
/-!
# C06 — the root directory of the formatted IMAGE (towards `format_root_listing_empty`)

Image-level version of `C06image.format_root_empty`, and what a directory scan sees first: without a label the first
slot of the root directory is the END marker (`DirEntryData::is_end`), so every scan (`list`, `find_entry`) stops at
once; with a label the first slot is the volume-label entry (skipped by listings: `read_dir_entry(skip_volume = true)`)
and the second slot is the END marker.

NOT proved here (partial): the program-level statement `run (listDir (rootDirStream fs)) d = (.ok [], _)`. It needs
forward (fault-free) evaluation lemmas for `DirStream`/`DiskSlice` reads through `FsIoAdapter`, `readSlot` and
`readDirEntryLoop`, which do not exist yet (`Proofs/MountRun1` has them for the raw device only).
-/
namespace FatVerif.C06root
open FatVerif FatVerif.Format FatVerif.C06image FatVerif.C06mount

/-- byte offset of the root directory: the fixed region after the FATs (FAT12/16), the first data cluster (FAT32) -/
def rootPos (b : FBpb) : Nat := (b.reserved + b.fats * b.sectorsPerFat) * b.bps

/-- size of the region `format_volume` initialises there -/
def rootLen (b : FBpb) (ft : FatType) : Nat := (if ft = .fat32 then b.spc else b.rootDirSectors) * b.bps

theorem rootByte_lt (o : FormatOpts) (hl : ∀ l, o.label = some l → l.length = 11 ∧ ∀ b ∈ l, b < 256) (x : Nat) :
    rootByte o x < 256 := by
  unfold rootByte
  split
  · rename_i lbl h
    split
    · apply getD_lt_of_allB
      unfold DirFileEntryData.serialize DirFileEntryData.serializeTail
      simp only [allB_append, allB_cons]
      refine ⟨(hl lbl h).2, ⟨⟨⟨⟨⟨⟨⟨⟨?_, allB_le16 _⟩, allB_le16 _⟩, allB_le16 _⟩, allB_le16 _⟩, allB_le16 _⟩,
        allB_le16 _⟩, allB_le16 _⟩, allB_le32 _⟩⟩
      exact ⟨by show ATTR_VOLUME_ID < 256; decide, by show (0 : Nat) < 256; omega, by show (0 : Nat) < 256; omega, allB_nil⟩
    · omega
  · omega

/-- **the root directory in the image**: `rootByte` (the 32-byte label entry, if any, then zeros) -/
theorem format_root_image (o : FormatOpts) (d0 d1 : Dev) (hpre : Formattable o d0)
    (hrun : run (formatVolume o) d0 = (.ok (), d1)) :
    ∃ boot ft, formatChecked o (fmtTotal o d0) = .ok (boot, ft) ∧ 64 ≤ rootLen boot.bpb ft ∧
      ∀ x, x < rootLen boot.bpb ft → d1.img.getByte (rootPos boot.bpb + x) = rootByte o x := by
  have hR := hpre.run hrun
  obtain ⟨boot, ft, hc, hb⟩ := format_root_empty o d0 d1 hR
  obtain ⟨_, himg⟩ := run_img_replay _ d0 _ d1 hrun hpre.imgWf hpre.logEmpty
  have hg := fmtGeom_of_ok hpre.acc hpre.tot hc
  refine ⟨boot, ft, hc, ?_, fun x hx => ?_⟩
  · unfold rootLen
    have hB := hg.bps_ge
    by_cases h32 : ft = .fat32
    · rw [if_pos h32]
      have hs : 1 ≤ boot.bpb.spc := by
        have := hg.spc_mem; simp only [List.mem_cons, List.mem_nil_iff, or_false] at this; omega
      have := Nat.mul_le_mul hs hB; omega
    · rw [if_neg h32]
      have := Nat.mul_le_mul (hg.rds1 h32) hB; omega
  · unfold rootPos
    rw [himg, hb d0.img.getByte x hx]
    exact Nat.mod_eq_of_lt (rootByte_lt o (fun l h => ⟨hpre.rng.label l h, hpre.labelBytes l h⟩) x)

/-- a 32-byte slot read from the image -/
def slotAt (d : Dev) (pos : Nat) : List Nat := d.img.read pos 32

/-- **what a directory scan sees first**: no label ⇒ slot 0 of the root is all zero, i.e. the END marker; a label ⇒
    slot 0 is `DirFileEntryData::new(label, VOLUME_ID)` serialised and slot 1 is the END marker -/
theorem format_root_first_slots (o : FormatOpts) (d0 d1 : Dev) (hpre : Formattable o d0)
    (hrun : run (formatVolume o) d0 = (.ok (), d1)) :
    ∃ boot ft, formatChecked o (fmtTotal o d0) = .ok (boot, ft) ∧
      (o.label = none → slotAt d1 (rootPos boot.bpb) = List.replicate 32 0) ∧
      (∀ lbl, o.label = some lbl →
        slotAt d1 (rootPos boot.bpb) = (DirFileEntryData.new lbl ATTR_VOLUME_ID).serialize ∧
        slotAt d1 (rootPos boot.bpb + 32) = List.replicate 32 0) ∧
      (DirEntryData.deserialize (List.replicate 32 0)).isEnd = true := by
  obtain ⟨boot, ft, hc, h64, hb⟩ := format_root_image o d0 d1 hpre hrun
  refine ⟨boot, ft, hc, ?_, ?_, by decide⟩
  · intro hnone
    apply read_eq_of_bytes _ _ _ _ (by simp)
    intro k hk
    rw [hb k (by omega)]
    unfold rootByte; rw [hnone]
    exact (getD_replicate_zero 32 k).symm
  · intro lbl hl
    have hlen : (DirFileEntryData.new lbl ATTR_VOLUME_ID).serialize.length = 32 :=
      DirFileEntryData.serialize_length _ (hpre.rng.label lbl hl)
    constructor
    · apply read_eq_of_bytes _ _ _ _ hlen
      intro k hk
      rw [hb k (by omega)]
      unfold rootByte; rw [hl]
      simp only [if_pos hk]
    · apply read_eq_of_bytes _ _ _ _ (by simp)
      intro k hk
      rw [Nat.add_assoc, hb (32 + k) (by omega)]
      unfold rootByte; rw [hl]
      simp only [if_neg (show ¬ 32 + k < 32 by omega)]
      exact (getD_replicate_zero 32 k).symm

/-! ## non-vacuity: `C06mount.ex_formattable` (FAT16 with the label "ABC") meets the hypotheses and the run succeeds
    (`C06mount`); the END-marker fact is closed by evaluation above. -/
example : Formattable Ex.o16 Ex.d16 ∧ Ex.o16.label = some [65, 66, 67, 32, 32, 32, 32, 32, 32, 32, 32] :=
  ⟨ex_formattable, rfl⟩

/-! ## the program-level statement (added by agent-effects, using the directory-read simulation of `Props/C01sim`) -/

/-- **`format_then_list_root_empty`** (FAT12/16): format a device, mount it as the next call sees it, list the root
    directory: the listing is empty, and nothing is written. Kept hypotheses, all about the mounted state `fs` that
    `format_then_mount` returns (whose conclusion does not expose `first_data_sector`/`root_dir_sectors`): the root slice of
    `fs` is the region `format_volume` initialised (`hpos`, `hlen`), it consists of `N` whole slots fewer than the scan
    fuel, and lies inside the device. -/
theorem format_then_list_root_empty (o : FormatOpts) (d0 d1 : Dev) (hpre : Formattable o d0)
    (hrun : run (formatVolume o) d0 = (.ok (), d1)) (strict accDate lfnAlloc unicode : Bool) :
    ∃ boot ft fs d2, formatChecked o (fmtTotal o d0) = .ok (boot, ft) ∧
      run (mount strict accDate lfnAlloc unicode) (nextOp d1) = (.ok fs, d2) ∧
      (ft ≠ .fat32 → ∀ N, (rootSliceOf fs).beginOff = rootPos boot.bpb → (rootSliceOf fs).size = rootLen boot.bpb ft →
        rootLen boot.bpb ft = 32 * N → N < dirFuel fs → rootPos boot.bpb + rootLen boot.bpb ft ≤ d1.img.size →
        ∃ d3, run (listDir (rootDirStream fs)) d2 = (.ok [], d3) ∧ d3.img = d2.img ∧ d3.log = d2.log) := by
  obtain ⟨boot, ft, fs, d2, hc, hm, hfs, himg, _, hft, _⟩ := format_then_mount o d0 d1 hpre hrun strict accDate lfnAlloc unicode
  obtain ⟨boot', ft', hc', h64, hb⟩ := format_root_image o d0 d1 hpre hrun
  rw [hc] at hc'
  cases hc'
  refine ⟨boot, ft, fs, d2, hc, hm, ?_⟩
  intro h32 N hpos hlen hN hfuel hins
  have hfail : d2.failAt = none := ((run_facts _ _ hm).spent rfl).1
  have hR : DirSim.RootReadable d2 N :=
    ⟨hfail, by rw [hfs, hpos, hlen, himg]; exact hins, by rw [hfs, hlen]; exact hN, by rw [hfs]; exact hfuel⟩
  have hstream : rootDirStream fs = DirSim.rootAt d2.fs 0 := by
    rw [hfs]
    unfold rootDirStream
    cases hft' : fs.fatType with
    | fat32 => rw [hft] at hft'; exact absurd hft' h32
    | fat12 => rfl
    | fat16 => rfl
  have hN2 : 2 ≤ N := by omega
  have hbyte : ∀ x, x < rootLen boot.bpb ft → d2.img.getByte ((rootSliceOf d2.fs).beginOff + x) = rootByte o x := by
    intro x hx; rw [hfs, hpos, himg]; exact hb x hx
  have hzero : ∀ (off : Nat), off + 32 ≤ rootLen boot.bpb ft → (∀ k, k < 32 → rootByte o (off + k) = 0) →
      Lfn.isEnd (d2.img.read ((rootSliceOf d2.fs).beginOff + off) 32) = true := by
    intro off hoff hz
    simp only [Lfn.isEnd, Lfn.byte]
    rw [Img.read_getD _ _ _ _ (by omega), Nat.add_zero, hbyte off (by omega)]
    have := hz 0 (by omega); rw [Nat.add_zero] at this; rw [this]; rfl
  have hempty : DirSim.Evals (listDir (DirSim.rootAt d2.fs 0)) d2 [] := by
    apply DirSim.listDir_root_empty hR
    cases hl : o.label with
    | none =>
      left
      refine ⟨by omega, ?_⟩
      have := hzero 0 (by omega) (fun k _ => by unfold rootByte; rw [hl])
      rwa [Nat.add_zero] at this
    | some lbl =>
      right
      refine ⟨hN2, ?_, hzero 32 (by omega) (fun k hk => ?_)⟩
      · rw [hbyte 11 (by omega)]
        unfold rootByte; rw [hl]
        simp only [show (11 : Nat) < 32 by omega, if_true]
        have hll := hpre.rng.label lbl hl
        unfold DirFileEntryData.serialize
        rw [List.getD_eq_getElem?_getD, List.getElem?_append_right (by simp [DirFileEntryData.new]; omega)]
        simp [DirFileEntryData.new, DirFileEntryData.serializeTail, hll, ATTR_VOLUME_ID]
      · unfold rootByte; rw [hl]
        simp only [show ¬ (32 + k < 32) by omega, if_false]
  obtain ⟨d3, hr3, hs3⟩ := hempty
  rw [← hstream] at hr3
  exact ⟨d3, hr3, hs3.img, hs3.log⟩

end FatVerif.C06root
