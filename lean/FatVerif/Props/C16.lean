import FatVerif.Proofs.NamesTerm
import FatVerif.Proofs.NamesEq
import FatVerif.Proofs.NamesOracle
/-!
# C16 — generated 8.3 aliases: legal, fresh, found within a bounded number of rounds; checksum = specification

Model: `FatVerif.Names.{new, addExisting, generate, nextIteration, generateLoop}` (transliteration of
`ShortNameGenerator` and of the retry loop of `check_for_existence`).
Specification: `LegalAlias`, list membership, `specLfnChecksum`.
All theorems quantify over every name, every population (list of raw 11-byte names — in fact arbitrary byte lists)
and every state reachable from `new` by `add_existing` / `next_iteration`. `new` is total (C15 `gen_new_total`),
so `new s = .ok g` below merely names the initial state.
-/
namespace FatVerif.C16
open FatVerif.Names

/-! ## C16.1 legality -/

/-- every name `generate` returns, in any state reachable from `new s`, for every NON-EMPTY name `s` (whatever its
    first character: multi-byte, a dot, a space …) is a legal 8.3 name: 11 bytes, each field legal characters then only
    padding, first byte none of 0x00 0x05 0xE5 0x20.
    (Names such as `"."`, `"..."` or `" "`, whose base copies nothing, get `~1`: the `~` is written first.)
    The hypothesis `s ≠ ""` is forced: see `alias_legal_counterexample`. -/
theorem alias_legal_partial (s : String) (hs : s ≠ "") (g : Gen) (h : new s = .ok g) (g' : Gen) (hr : Reach g g')
    (a : List Nat) (ha : generate g' = .ok a) : LegalAlias a := by
  have hne : s.toList ≠ [] := by
    intro h0
    apply hs
    rw [← String.ofList_toList (s := s), h0]
  exact generate_legal (hr.wf (newL_wf h)) (hr.ne (newL_ne hne h)) ha

/-- the form the property is used in (DESIGN C16: "over all valid names"): a name accepted by
    `validate_long_name` is non-empty -/
theorem alias_legal (s : String) (hv : validateLongName s = .ok ()) (g : Gen) (h : new s = .ok g) (g' : Gen)
    (hr : Reach g g') (a : List Nat) (ha : generate g' = .ok a) : LegalAlias a := by
  refine alias_legal_partial s ?_ g h g' hr a ha
  rintro rfl
  cases hv

/-- since the repair of F5 the constructor accepts the empty name, and for it `generate` returns the all-blank
    name (nothing copied, nothing lost, "fits"): not a legal alias. `create_file("")` still fails, because
    `write_entry` validates the name afterwards; the generator itself is not total-and-legal. -/
theorem alias_legal_counterexample :
    ∃ g, new "" = .ok g ∧ generate g = .ok (List.replicate 11 32) ∧ ¬ LegalAlias (List.replicate 11 32) := by
  refine ⟨_, rfl, rfl, ?_⟩
  rintro ⟨_, _, _, _, _, _, h⟩
  exact h rfl

/-- for every name, the empty one included, the `~N` forms are legal -/
theorem alias_legal_prefixed (s : String) (g : Gen) (h : new s = .ok g) (g' : Gen) (hr : Reach g g')
    (a : List Nat) (ha : generate g' = .ok a) (hx : a ≠ g'.shortName) : LegalAlias a :=
  generate_legal_prefixed (hr.wf (newL_wf h)) ha hx

/-- the same for the result of the retry loop -/
theorem alias_legal_loop (s : String) (hs : s ≠ "") (g : Gen) (h : new s = .ok g) (ex : List (List Nat)) (fuel : Nat)
    (a : List Nat) (k : Nat) (hl : generateLoop ex fuel 0 g = some (a, k)) : LegalAlias a := by
  obtain ⟨g', r, hg⟩ := loop_result ex fuel 0 g g Reach.refl hl
  exact alias_legal_partial s hs g h _ (r.addAll ex) a hg

example : ∃ g, new ". ." = .ok g ∧ generate g = .ok ("~1         ".toList.map Char.toNat) :=
  ⟨_, rfl, rfl⟩
example : LegalAlias ("~1         ".toList.map Char.toNat) :=
  alias_legal ". ." rfl _ rfl _ Reach.refl _ rfl
/-- names whose first character is multi-byte or a dot (they panicked before the repair) -/
example : ∃ g, new "é.txt" = .ok g ∧ generate g = .ok ("_~1     TXT".toList.map Char.toNat) := ⟨_, rfl, rfl⟩
example : ∃ g, new "é" = .ok g ∧ generate g = .ok ("_~1        ".toList.map Char.toNat) := ⟨_, rfl, rfl⟩
example : ∃ g, new ".a" = .ok g ∧ generate g = .ok ("A~1        ".toList.map Char.toNat) := ⟨_, rfl, rfl⟩
example : LegalAlias ("_~1     TXT".toList.map Char.toNat) := alias_legal "é.txt" rfl _ rfl _ Reach.refl _ rfl
example : ¬ LegalAlias ("A B     TXT".toList.map Char.toNat) := by
  rintro ⟨_, ⟨k, hk, h1, h2⟩, _⟩
  have hk8 : k ≤ 8 := by simpa using hk
  have : k = 0 ∨ k = 1 ∨ k = 2 ∨ k = 3 ∨ k = 4 ∨ k = 5 ∨ k = 6 ∨ k = 7 ∨ k = 8 := by omega
  rw [legalSfnBytes_eq] at h1
  rcases this with rfl | rfl | rfl | rfl | rfl | rfl | rfl | rfl | rfl <;> revert h1 h2 <;> decide

/-- the executable check the driver's C16 oracle runs on the implementation's output decides `LegalAlias` -/
theorem alias_legal_oracle (a : List Nat) : legalAliasB a = true ↔ LegalAlias a := legalAliasB_iff a

/-! ## C16.2 freshness -/

/-- which name `generate` returns, and under which condition on the collision record -/
theorem alias_form (g : Gen) (a : List Nat) (h : generate g = .ok a) :
    (g.lossyConv = false ∧ g.nameFits = true ∧ g.exactMatch = false ∧ a = g.shortName) ∨
    (∃ i, 1 ≤ i ∧ i ≤ 4 ∧ g.longPrefixBitmap.testBit i = false ∧ a = buildPrefixedName g i false) ∨
    (∃ i, 1 ≤ i ∧ i ≤ 9 ∧ g.prefixChksumBitmap.testBit i = false ∧ a = buildPrefixedName g i true) := by
  rcases generate_cases h with h | ⟨i, h1, h2, h3, h4⟩ | ⟨i, h1, h2, h3, h4⟩
  · exact Or.inl h
  · rw [bitClear_eq] at h3; exact Or.inr (Or.inl ⟨i, h1, h2, by simpa using h3, h4⟩)
  · rw [bitClear_eq] at h3; exact Or.inr (Or.inr ⟨i, h1, h2, by simpa using h3, h4⟩)

/-- feeding a candidate back records it: the exact name sets `exact_match`, candidate `~i` sets bit `i` of the
    respective bitmap (the hex characters `u16_to_hex` wrote parse back to the same checksum); none of the indexings
    `short_name[prefix_len]`, `[prefix_len + 1]` leaves the 11 bytes -/
theorem alias_recorded (s : String) (g : Gen) (h : new s = .ok g) (g' : Gen) (hr : Reach g g') (i : Nat) (hi : i ≤ 9) :
    (addExisting g' g'.shortName).exactMatch = true ∧
    (addExisting g' (buildPrefixedName g' i false)).longPrefixBitmap.testBit i = true ∧
    (addExisting g' (buildPrefixedName g' i true)).prefixChksumBitmap.testBit i = true ∧
    longPrefixLen g' + 1 < 11 ∧ shortPrefixLen g' + 4 + 1 < 11 := by
  have hw := hr.wf (newL_wf h)
  refine ⟨addExisting_exact_hit g', addExisting_long_hit hw hi, addExisting_short_hit hw hi, ?_, ?_⟩
  · unfold longPrefixLen; omega
  · unfold shortPrefixLen; omega

/-- the name returned after a population was fed is different from every member of that population -/
theorem alias_fresh (s : String) (g : Gen) (h : new s = .ok g) (g' : Gen) (hr : Reach g g')
    (ex : List (List Nat)) (a : List Nat) (ha : generate (addAll g' ex) = .ok a) : a ∉ ex :=
  generate_fresh (hr.wf (newL_wf h)) ex ha

/-- the same for the result of the retry loop -/
theorem alias_fresh_loop (s : String) (g : Gen) (h : new s = .ok g) (ex : List (List Nat)) (fuel : Nat)
    (a : List Nat) (k : Nat) (hl : generateLoop ex fuel 0 g = some (a, k)) : a ∉ ex := by
  obtain ⟨g', r, hg⟩ := loop_result ex fuel 0 g g Reach.refl hl
  exact alias_fresh s g h g' r ex a hg

example : (new "é.txt").toOption.bind (generateLoop ["_~1     TXT".toList.map Char.toNat] 3 0) =
    some ("_~2     TXT".toList.map Char.toNat, 0) := by decide +kernel

/-- thirteen names that block round 0 for `TextFile.Mine.txt` (from the crate's own unit test) -/
def pop13 : List (List Nat) :=
  ["TEXTFI~1TXT", "TEXTFI~2TXT", "TEXTFI~3TXT", "TEXTFI~4TXT", "TE527D~1TXT", "TE527D~2TXT", "TE527D~3TXT",
   "TE527D~4TXT", "TE527D~5TXT", "TE527D~6TXT", "TE527D~7TXT", "TE527D~8TXT", "TE527D~9TXT"].map
    (fun s => s.toList.map Char.toNat)

example : (new "TextFile.Mine.txt").toOption.bind (generateLoop pop13 3 0) =
    some ("TE527E~1TXT".toList.map Char.toNat, 1) := by decide +kernel

/-! ## C16.3 termination -/

/-- on a population of `n < 9·65536` names the retry loop returns within `n/9 + 1` rounds (at most `n/9` calls
    of `next_iteration`), so any fuel above `n/9` never yields "hang". A round fails only if nine members carry that
    round's checksum in hex; rounds `< 65536` have pairwise different checksums. -/
theorem alias_terminates (s : String) (g : Gen) (h : new s = .ok g) (ex : List (List Nat))
    (hn : ex.length < 9 * 65536) (fuel : Nat) (hfuel : ex.length / 9 < fuel) :
    ∃ a k, generateLoop ex fuel 0 g = some (a, k) ∧ k ≤ ex.length / 9 :=
  loop_terminates (newL_bitmaps h).2.1 (newL_wf h).chk ex hn fuel hfuel

/-- the bound is attained: 13 names force one `next_iteration`, and `13 / 9 = 1` -/
example : pop13.length / 9 = 1 ∧
    (new "TextFile.Mine.txt").toOption.bind (generateLoop pop13 2 0) = some ("TE527E~1TXT".toList.map Char.toNat, 1) ∧
    (new "TextFile.Mine.txt").toOption.bind (generateLoop pop13 1 0) = none := by decide +kernel

/-! ## C16.4 checksum -/

/-- `lfn_checksum` is the specification's rotate-right-and-add, for every byte list (in particular all 11-byte names) -/
theorem checksum_spec (sfn : List Nat) : lfnChecksum sfn = specLfnChecksum sfn 0 :=
  lfnChecksum_fold sfn 0

/-- and it is a byte -/
theorem checksum_lt (sfn : List Nat) : lfnChecksum sfn < 256 := by
  unfold lfnChecksum
  suffices ∀ (l : List Nat) a, a < 256 → l.foldl lfnChecksumStep a < 256 from this sfn 0 (by omega)
  intro l; induction l with
  | nil => intro a h; simpa
  | cons b bs ih => intro a _; exact ih _ (by unfold lfnChecksumStep; omega)

example : lfnChecksum ("FOO     BAR".toList.map Char.toNat) = 83 := by decide
example : lfnChecksum (List.replicate 11 0xFF) = specLfnChecksum (List.replicate 11 0xFF) 0 := by decide

end FatVerif.C16
