import FatVerif.Spec.FatSpec
/-!
# The chain decoder of the oracles is sound and complete (for every FAT, every start cluster)

The failing-input search of C03 / C04 / C08 / C11 / C20 decodes cluster chains from the implementation's image with
`Spec.walkChainF` (Brent's cycle detection over an `Array`, fuel `total + 2`).  `Props/SpecSanity.lean` only evaluates it
on tiny tables.  Here it is related, for EVERY table `entry : Nat → FatClass`, to the relational meaning of a chain:

* `chainOfF_sound`: what the decoder returns as a chain IS the link path from `first` (consecutive clusters linked by
  `.next`, the last one holding an end-of-chain mark) and `first` is in range — the oracle never invents a chain;
* `chainOfF_complete`: when such a path exists, is duplicate free and no longer than `total + 2`, the decoder returns
  exactly it — in particular Brent's tortoise never reports a cycle on an acyclic chain, so the oracle signatures
  `fat-cycle` / `chain-broken` / `fat-link-range` cannot fire on a volume whose chains are well formed (no false alarm
  from the decoder);
* `chainOfF_error_iff`: the decoder reports an error exactly when no such path exists.
-/
namespace FatVerif.Spec

/-- `l` is the link path of the table from its head: consecutive elements are linked by `.next`, the last element holds
    an end-of-chain mark -/
def IsLinkPath (entry : Nat → FatClass) : List Nat → Prop
  | [] => False
  | [c] => entry c = .eoc
  | c :: d :: l => entry c = .next d ∧ IsLinkPath entry (d :: l)

theorem chainLoop_sound (entry : Nat → FatClass) : ∀ (fuel cur tort power lam : Nat) (acc cs : Array Nat),
    chainLoop entry fuel cur tort power lam acc = (cs, .eoc) →
    ∃ p, cs.toList = acc.toList ++ cur :: p ∧ IsLinkPath entry (cur :: p)
  | 0, _, _, _, _, _, _, h => by simp [chainLoop] at h
  | fuel + 1, cur, tort, power, lam, acc, cs, h => by
    unfold chainLoop at h
    simp only at h
    split at h
    · rename_i he
      refine ⟨[], ?_, he⟩
      cases h
      simp
    · cases h
    · cases h
    · cases h
    · rename_i n he
      have key : ∀ t pw lm, chainLoop entry fuel n t pw lm (acc.push cur) = (cs, .eoc) →
          ∃ p, cs.toList = acc.toList ++ cur :: p ∧ IsLinkPath entry (cur :: p) := by
        intro t pw lm hh
        obtain ⟨p, hp, hl⟩ := chainLoop_sound entry fuel n t pw lm _ _ hh
        exact ⟨n :: p, by simpa using hp, he, hl⟩
      split at h
      · split at h
        · cases h
        · exact key _ _ _ h
      · split at h
        · cases h
        · exact key _ _ _ h

theorem chainLoop_complete (entry : Nat → FatClass) : ∀ (rest : List Nat) (fuel cur tort power lam : Nat)
    (acc : Array Nat), IsLinkPath entry (cur :: rest) → (cur :: rest).Nodup → tort ∉ rest → rest.length < fuel →
    (chainLoop entry fuel cur tort power lam acc).1.toList = acc.toList ++ cur :: rest ∧
    (chainLoop entry fuel cur tort power lam acc).2 = .eoc
  | _, 0, _, _, _, _, _, _, _, _, hf => by omega
  | [], fuel + 1, cur, tort, power, lam, acc, hp, _, _, _ => by
    have he : entry cur = .eoc := hp
    unfold chainLoop
    simp [he]
  | d :: l, fuel + 1, cur, tort, power, lam, acc, hp, hnd, ht, hf => by
    have he : entry cur = .next d := hp.1
    have hl : IsLinkPath entry (d :: l) := hp.2
    have hnd' : (d :: l).Nodup := (List.nodup_cons.mp hnd).2
    have hcur : cur ∉ d :: l := (List.nodup_cons.mp hnd).1
    have hdc : d ≠ cur := fun e => hcur (by simp [e])
    have hdt : d ≠ tort := fun e => ht (by simp [e])
    have hcl : cur ∉ l := fun hm => hcur (List.mem_cons_of_mem _ hm)
    have htl : tort ∉ l := fun hm => ht (List.mem_cons_of_mem _ hm)
    have hfl : l.length < fuel := by simp at hf; omega
    unfold chainLoop
    simp only [he]
    split
    · obtain ⟨h1, h2⟩ := chainLoop_complete entry l fuel d cur (2 * power) 1 (acc.push cur) hl hnd' hcl hfl
      exact ⟨by simpa using h1, h2⟩
    · obtain ⟨h1, h2⟩ := chainLoop_complete entry l fuel d tort power (lam + 1) (acc.push cur) hl hnd' htl hfl
      exact ⟨by simpa using h1, h2⟩

/-- **`chainOfF_sound`.**  A chain the oracles' decoder returns is the link path of the table from `first`, and `first`
    is a cluster number of the volume. -/
theorem chainOfF_sound (entry : Nat → FatClass) (total first : Nat) (cs : Array Nat)
    (h : chainOfF entry total first = .ok cs) :
    2 ≤ first ∧ first < total + 2 ∧ cs.toList.head? = some first ∧ IsLinkPath entry cs.toList := by
  unfold chainOfF walkChainF at h
  split at h
  · rename_i hr
    generalize hw : chainLoop entry (total + 2) first first 1 1 #[] = r at h
    obtain ⟨a, st⟩ := r
    cases st <;> simp [chainResult] at h
    subst h
    obtain ⟨p, hp, hl⟩ := chainLoop_sound entry _ _ _ _ _ _ _ hw
    simp at hp
    exact ⟨hr.1, hr.2, by simp [hp], by rw [hp]; exact hl⟩
  · simp [chainResult] at h

/-- **`chainOfF_complete`.**  If the table has a link path from `first` that visits no cluster twice and is no longer
    than the table, the decoder returns exactly that path: no cycle, range or length alarm on a well-formed chain. -/
theorem chainOfF_complete (entry : Nat → FatClass) (total first : Nat) (rest : List Nat)
    (hp : IsLinkPath entry (first :: rest)) (hnd : (first :: rest).Nodup) (hlen : (first :: rest).length ≤ total + 2)
    (h2 : 2 ≤ first) (ht : first < total + 2) :
    ∃ cs, chainOfF entry total first = .ok cs ∧ cs.toList = first :: rest := by
  obtain ⟨h1, hs⟩ := chainLoop_complete entry rest (total + 2) first first 1 1 #[] hp hnd
    (List.nodup_cons.mp hnd).1 (by simp at hlen; omega)
  unfold chainOfF walkChainF
  rw [if_pos ⟨h2, ht⟩]
  generalize chainLoop entry (total + 2) first first 1 1 #[] = r at h1 hs
  obtain ⟨a, st⟩ := r
  simp only at hs
  subst hs
  exact ⟨a, rfl, by simpa using h1⟩

/-- a link path is determined by its head: two link paths from the same cluster are equal -/
theorem IsLinkPath.unique (entry : Nat → FatClass) : ∀ (p q : List Nat), IsLinkPath entry p → IsLinkPath entry q →
    p.head? = q.head? → p = q
  | [], _, hp, _, _ => hp.elim
  | _ :: _, [], _, hq, _ => hq.elim
  | [c], [c'], _, _, hh => by simpa using hh
  | [c], c' :: d :: l, hp, hq, hh => by
    have e : c = c' := by simpa using hh
    subst e
    have h1 : entry c = .eoc := hp
    rw [hq.1] at h1
    cases h1
  | c :: d :: l, [c'], hp, hq, hh => by
    have e : c = c' := by simpa using hh
    subst e
    have h1 : entry c = .eoc := hq
    rw [hp.1] at h1
    cases h1
  | c :: d :: l, c' :: d' :: l', hp, hq, hh => by
    have e : c = c' := by simpa using hh
    subst e
    have h1 := hp.1
    rw [hq.1] at h1
    cases h1
    have := IsLinkPath.unique entry (d :: l) (d :: l') hp.2 hq.2 rfl
    rw [this]

theorem IsLinkPath.suffix (entry : Nat → FatClass) : ∀ (a : List Nat) (c : Nat) (b : List Nat),
    IsLinkPath entry (a ++ c :: b) → IsLinkPath entry (c :: b)
  | [], _, _, h => h
  | [_], _, _, h => h.2
  | _ :: y :: a, c, b, h => IsLinkPath.suffix entry (y :: a) c b h.2

/-- a link path ends, so it visits no cluster twice (the successor of a cluster is unique) -/
theorem IsLinkPath.nodup {entry : Nat → FatClass} : ∀ {p : List Nat}, IsLinkPath entry p → p.Nodup
  | [], h => h.elim
  | [c], _ => by simp
  | c :: d :: l, h => by
    have ih : (d :: l).Nodup := IsLinkPath.nodup h.2
    refine List.nodup_cons.mpr ⟨?_, ih⟩
    intro hm
    obtain ⟨a, b, hab⟩ := List.append_of_mem hm
    have hs : IsLinkPath entry (c :: b) := IsLinkPath.suffix entry (c :: a) c b (by rw [List.cons_append, ← hab]; exact h)
    have := IsLinkPath.unique entry (c :: b) (c :: d :: l) hs h rfl
    have hlen := congrArg List.length this
    rw [hab] at hlen
    simp at hlen
    omega

theorem chainLoop_size (entry : Nat → FatClass) : ∀ (fuel cur tort power lam : Nat) (acc : Array Nat),
    (chainLoop entry fuel cur tort power lam acc).1.size ≤ acc.size + fuel
  | 0, _, _, _, _, _ => by simp [chainLoop]
  | fuel + 1, cur, tort, power, lam, acc => by
    have key : ∀ n t pw lm, (chainLoop entry fuel n t pw lm (acc.push cur)).1.size ≤ acc.size + (fuel + 1) := by
      intro n t pw lm
      have := chainLoop_size entry fuel n t pw lm (acc.push cur)
      simp at this
      omega
    unfold chainLoop
    simp only
    split
    · simp <;> omega
    · simp <;> omega
    · simp <;> omega
    · simp <;> omega
    · split
      · split
        · simp <;> omega
        · exact key _ _ _ _
      · split
        · simp <;> omega
        · exact key _ _ _ _

theorem chainOfF_length (entry : Nat → FatClass) (total first : Nat) (cs : Array Nat)
    (h : chainOfF entry total first = .ok cs) : cs.toList.length ≤ total + 2 := by
  unfold chainOfF walkChainF at h
  split at h
  · have hsz := chainLoop_size entry (total + 2) first first 1 1 #[]
    generalize chainLoop entry (total + 2) first first 1 1 #[] = r at h hsz
    obtain ⟨a, st⟩ := r
    cases st <;> simp [chainResult] at h
    subst h
    simpa using hsz
  · simp [chainResult] at h

/-- **`chainOfF_error_iff`.**  The decoder reports an error (`fat-cycle`, `chain-broken`, `fat-link-range`) exactly
    when the table has NO duplicate-free link path from an in-range `first` within the table's length. -/
theorem chainOfF_error_iff (entry : Nat → FatClass) (total first : Nat) :
    (∃ e, chainOfF entry total first = .error e) ↔
    ¬ (2 ≤ first ∧ first < total + 2 ∧
       ∃ rest, IsLinkPath entry (first :: rest) ∧ (first :: rest).Nodup ∧ (first :: rest).length ≤ total + 2) := by
  constructor
  · rintro ⟨e, he⟩ ⟨h2, ht, rest, hp, hnd, hlen⟩
    obtain ⟨cs, hcs, _⟩ := chainOfF_complete entry total first rest hp hnd hlen h2 ht
    rw [hcs] at he
    cases he
  · intro hno
    cases hc : chainOfF entry total first with
    | error e => exact ⟨e, rfl⟩
    | ok cs =>
      exfalso
      obtain ⟨h2, ht, hh, hl⟩ := chainOfF_sound entry total first cs hc
      apply hno
      refine ⟨h2, ht, ?_⟩
      obtain ⟨rest, hr⟩ : ∃ rest, cs.toList = first :: rest := by
        cases hcl : cs.toList with
        | nil => rw [hcl] at hl; exact hl.elim
        | cons a rest => rw [hcl] at hh; simp at hh; exact ⟨rest, by rw [hh]⟩
      rw [hr] at hl
      refine ⟨rest, hl, hl.nodup, ?_⟩
      rw [← hr]
      exact chainOfF_length entry total first cs hc

end FatVerif.Spec

namespace FatVerif.Spec
/-! ### the hypotheses are satisfiable: a three-cluster chain 2 → 3 → 5 in a table with a free and a cyclic part -/

def entryEx (k : Nat) : FatClass :=
  if k = 2 then .next 3 else if k = 3 then .next 5 else if k = 5 then .eoc else if k = 6 then .next 6 else .free

example : IsLinkPath entryEx [2, 3, 5] := ⟨rfl, rfl, rfl⟩
example : ∃ cs, chainOfF entryEx 8 2 = .ok cs ∧ cs.toList = [2, 3, 5] :=
  chainOfF_complete entryEx 8 2 [3, 5] ⟨rfl, rfl, rfl⟩ (by decide) (by decide) (by decide) (by decide)
/-- … and the self-loop at 6 has no link path, so the decoder must report it -/
example : ∃ e, chainOfF entryEx 8 6 = .error e := ⟨_, rfl⟩
end FatVerif.Spec
