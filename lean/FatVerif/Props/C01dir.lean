import FatVerif.Proofs.DirSlotsFind
/-!
# C01 (items 2–5), C03.5, C05.4 — the slot-list algebra of one directory

`slots : List (List Nat)` = the 32-byte slots of the directory's allocated space.  Model: `Model/DirSlots.lean`
(`findFree`, `writeEntry`, `deleteRange`, `findEntry`, `createEntry`/`removeEntry`/`renameEntry`); the listing is
`readDirEntries` of C17 (both buffer variants).

`DirWf upper slots` (Proofs/DirSlotsOps.lean):
* `Shape`: the slots are a sequence of items — a deleted slot, a label, or an entry = (no run, or a `CompleteRun` of
  long-name slots carrying the checksum of the short name) + a file-class short slot — followed only by end markers;
* no two listed entries with the same raw short name;
* no two listed entries that one query can hit (long name or alias, up to the build's case folding `upper`) — the form of
  "no duplicate names" that makes lookups unique.
-/
namespace FatVerif
open Lfn DirSlots

namespace C01
def sfnOf (name : String) : List Nat := name.toList.map Char.toNat ++ 0x20 :: List.replicate 20 0
def del : List Nat := 0xE5 :: List.replicate 31 7
def zero : List Nat := List.replicate 32 0
/-- entry A, three deleted slots, entry B, one trailing deleted slot, end region -/
def dir0 : List (List Nat) :=
  [sfnOf "A          ", del, del, del, sfnOf "B          ", del, zero, zero, zero]
def long30 : List Nat := (List.range 30).map (· + 0x61)
end C01

/-! ## 1. `write_entry` -/

/-- **C01.2** `writeEntry_listing`.  On a directory of well-formed shape, writing an entry for a name of 1 … 255 units
    (none of them `0x0000`) with a file-class short slot inserts EXACTLY ONE entry
    `⟨sfn, units, p, p + n⟩` (`p = findFree slots n`, `n = ⌈len/13⌉ + 1`) into the listing, between the entries ending at
    or before `p` and those beginning at or after `p + n`; all other entries are unchanged (same short slot, same
    units, same range); every slot outside `[p, p + n)` is byte-identical, the slots inside are the generated run and
    the short slot; the shape is preserved.  Both buffer variants; whether the run lands in reclaimed deleted slots,
    at the end marker, or (the Rust quirk) starts inside the deleted run that precedes the end marker. -/
theorem writeEntry_listing (alloc : Bool) (slots : List (List Nat)) (units sfn : List Nat) (hs : Shape slots)
    (h1 : 1 ≤ units.length) (h255 : units.length ≤ 255) (hu : ∀ x ∈ units, x < 65536)
    (hnz : ∀ x ∈ units, x ≠ 0) (hsfn : slotClass sfn = .file) :
    let n := numParts units.length + 1
    let p := findFree slots n
    (∃ L1 L2, readDirEntries alloc true slots = L1 ++ L2 ∧
      readDirEntries alloc true (writeEntry slots units sfn) = L1 ++ ⟨sfn, units, p, p + n⟩ :: L2 ∧
      (∀ e ∈ L1, e.endIdx ≤ p) ∧ (∀ e ∈ L2, p + n ≤ e.beginIdx)) ∧
    p ≤ slots.length ∧
    (∀ i, i < p ∨ p + n ≤ i → (writeEntry slots units sfn).getD i [] = slots.getD i []) ∧
    (∀ k, k < n → (writeEntry slots units sfn).getD (p + k) [] = (entrySlots units sfn).getD k []) ∧
    Shape (writeEntry slots units sfn) := by
  intro n p
  obtain ⟨L1, L2, e1, e2, e3, e4, e5⟩ := writeEntry_insert alloc slots units sfn hs h1 h255 hu hnz hsfn
  obtain ⟨b1, b2, b3⟩ := writeEntry_bytes slots units sfn h1 h255 hu
  exact ⟨⟨L1, L2, e1, e2, e3, e4⟩, b1, b2, b3, e5⟩

/-- `DirWf` is preserved when the raw short name is new and no existing entry answers to the new long name or alias -/
theorem writeEntry_dirWf (upper : Char → List Char) (slots : List (List Nat)) (name : List Char) (sfn : List Nat)
    (hwf : DirWf upper slots) (hname : name ≠ [])
    (h1 : 1 ≤ (Names.encodeUtf16 name).length) (h255 : (Names.encodeUtf16 name).length ≤ 255)
    (hu : ∀ x ∈ Names.encodeUtf16 name, x < 65536)
    (hnz : ∀ x ∈ Names.encodeUtf16 name, x ≠ 0)
    (hsfn : slotClass sfn = .file)
    (hnf : findEntry upper slots name = none)
    (hraw : ∀ e ∈ listing slots, sfnName e.sfn ≠ sfnName sfn)
    (halias : ∀ e ∈ listing slots, matchesName upper e (Names.aliasDisplay (sfnName sfn)) = false) :
    DirWf upper (writeEntry slots (Names.encodeUtf16 name) sfn) :=
  create_wf upper slots name sfn hwf hname h1 h255 hu hnz hsfn hnf hraw halias

/-- placement 1: a 1-slot name (2 slots) goes into the reclaimed run of three deleted slots at index 1 -/
example : findFree C01.dir0 2 = 1 ∧
    (listing (writeEntry C01.dir0 [0x61, 0x62] (C01.sfnOf "AB         "))).map (fun e => (e.units, e.beginIdx, e.endIdx)) =
      [([], 0, 1), ([0x61, 0x62], 1, 3), ([], 4, 5)] := by decide +kernel

/-- placement 2 (the quirk): a 30-unit name (4 slots) does not fit the three deleted slots; it starts in the trailing
    deleted slot 5 that precedes the end marker and runs over the end marker -/
example : findFree C01.dir0 4 = 5 ∧
    (listing (writeEntry C01.dir0 C01.long30 (C01.sfnOf "AB         "))).map (fun e => (e.units.length, e.beginIdx, e.endIdx)) =
      [(0, 0, 1), (0, 4, 5), (30, 5, 9)] := by decide +kernel

/-- placement 3: at the end marker; the list grows when the run reaches beyond the allocated space -/
example : findFree [C01.sfnOf "A          ", C01.zero] 4 = 1 ∧
    (writeEntry [C01.sfnOf "A          ", C01.zero] C01.long30 (C01.sfnOf "AB         ")).length = 5 := by decide +kernel

/-! ## 2. the delete loop -/

/-- **C01.3** `deleteRange_listing` (`markDeleted_listing`).  Deleting the slot range of a listed entry removes exactly
    that entry from the listing (all others unchanged, ranges included); slots outside the range are byte-identical,
    slots inside get first byte `0xE5` (and the attribute byte masked with `0x3F`, as the re-serialisation does); the
    shape is preserved.  Both buffer variants. -/
theorem deleteRange_listing (alloc : Bool) (slots : List (List Nat)) (hs : Shape slots) (e : LfnEntry)
    (he : e ∈ readDirEntries alloc true slots) :
    (∃ L1 L2, readDirEntries alloc true slots = L1 ++ e :: L2 ∧
      readDirEntries alloc true (deleteRange slots e.beginIdx e.endIdx) = L1 ++ L2) ∧
    (∀ i, (deleteRange slots e.beginIdx e.endIdx).getD i [] =
      if e.beginIdx ≤ i ∧ i < e.endIdx ∧ i < slots.length then markDeleted (slots.getD i []) else slots.getD i []) ∧
    (deleteRange slots e.beginIdx e.endIdx).length = slots.length ∧
    Shape (deleteRange slots e.beginIdx e.endIdx) := by
  obtain ⟨L1, L2, e1, e2, e3⟩ := deleteRange_remove alloc slots hs e he
  exact ⟨⟨L1, L2, e1, e2⟩, deleteRange_bytes slots _ _, deleteRange_length slots _ _, e3⟩

theorem deleteRange_dirWf (upper : Char → List Char) (slots : List (List Nat)) (hwf : DirWf upper slots)
    (e : LfnEntry) (he : e ∈ listing slots) : DirWf upper (deleteRange slots e.beginIdx e.endIdx) :=
  deleteRange_wf upper slots hwf e he

example : (listing (deleteRange C01.dir0 4 5)).map (fun e => (e.beginIdx, e.endIdx)) = [(0, 1)] ∧
    findFree (deleteRange C01.dir0 4 5) 4 = 1 := by decide +kernel

/-! ## 3. lookup -/

/-- **C01.4** `findEntry_spec`.  `find_entry` returns the FIRST listed entry that the query hits; `NotFound` iff no
    listed entry is hit; "hit" means: the long name decodes (no unpaired surrogate) to a string with the same case
    folding as the query, or the query folds like the displayed alias; with the kind filter, `InvalidInput` iff the
    first hit has the other kind. -/
theorem findEntry_spec (upper : Char → List Char) (slots : List (List Nat)) (q : List Char) :
    (∀ e, findEntry upper slots q = some e ↔
      ∃ L1 L2, listing slots = L1 ++ e :: L2 ∧ matchesName upper e q = true ∧
        ∀ x ∈ L1, matchesName upper x q = false) ∧
    (findEntry upper slots q = none ↔ ∀ e ∈ listing slots, matchesName upper e q = false) ∧
    (∀ e : LfnEntry, matchesName upper e q = true ↔
      (e.units ≠ [] ∧ ∃ long : List Char, Names.decodeUtf16 e.units = long.map some ∧
          Names.fold upper q = Names.fold upper long) ∨
        Names.fold upper q = Names.fold upper (Names.aliasDisplay (sfnName e.sfn))) ∧
    (∀ isDir, findEntryKind upper slots q isDir = .error .notFound ↔ findEntry upper slots q = none) ∧
    (∀ d, findEntryKind upper slots q (some d) = .error .invalidInput ↔
      ∃ e, findEntry upper slots q = some e ∧ Lfn.isDir e.sfn ≠ d) := by
  refine ⟨findEntry_some_iff upper slots q, findEntry_none_iff upper slots q,
    fun e => C15.lookup_iff upper e.units (sfnName e.sfn) q, ?_, ?_⟩
  · intro isDir
    unfold findEntryKind
    cases hf : findEntry upper slots q with
    | none => simp
    | some e =>
      cases isDir with
      | none => simp
      | some d => by_cases hd : Lfn.isDir e.sfn = d <;> simp [hd]
  · intro d
    unfold findEntryKind
    cases hf : findEntry upper slots q with
    | none => simp
    | some e => by_cases hd : Lfn.isDir e.sfn = d <;> simp [hd]

/-- with the no-duplicates invariant the hit is unique: ANY listed entry the query hits is the one returned -/
theorem findEntry_unique (upper : Char → List Char) (slots : List (List Nat)) (hwf : DirWf upper slots)
    (q : List Char) (e : LfnEntry) (he : e ∈ listing slots) (hm : matchesName upper e q = true) :
    findEntry upper slots q = some e :=
  DirSlots.findEntry_unique upper slots hwf q e he hm

example : (findEntry Names.upperAscii C01.dir0 "b".toList).map (·.beginIdx) = some 4 ∧
    findEntry Names.upperAscii C01.dir0 "c".toList = none := by decide +kernel

/-! ## 4. refinement of a case-insensitive finite map -/

/-- **C01.5** `dir_refines_map`.  Abstraction: `absDir slots : List (units × short slot)` (the listing), looked up by
    `amFind upper m q` = first pair the query hits.  The three directory-local operations commute with
    insert / erase / rename on that association list, error kinds included:
    * lookup: `findEntry` is `amFind` on the abstraction;
    * create: `AlreadyExists` iff the name is found; otherwise the new abstraction is a permutation of
      `(units, sfn) :: old` (exactly one pair added);
    * remove: `NotFound` iff the name is not found; otherwise the new abstraction is the old one with the first hit
      erased (`eraseP`), order of the others kept;
    * rename within the directory: `NotFound` if the source is not found; destination found = same entry → no
      change, another entry → `AlreadyExists`; otherwise the new abstraction is a permutation of
      `(dst units, short slot with the new alias and the OLD body) :: (old with the source erased)`.
    The results have well-formed shape again (`DirWf` is preserved by create and remove: `writeEntry_dirWf`,
    `deleteRange_dirWf`). -/
theorem dir_refines_map (upper : Char → List Char) (slots : List (List Nat)) (hs : Shape slots) :
    -- lookup
    (∀ q, amFind upper (absDir slots) q = (findEntry upper slots q).map absEntry) ∧
    -- create
    (∀ name sfn, amFind upper (absDir slots) name ≠ none → createEntry upper slots name sfn = .error .alreadyExists) ∧
    (∀ name sfn, amFind upper (absDir slots) name = none →
      1 ≤ (Names.encodeUtf16 name).length → (Names.encodeUtf16 name).length ≤ 255 →
      (∀ x ∈ Names.encodeUtf16 name, x < 65536) → (∀ x ∈ Names.encodeUtf16 name, x ≠ 0) →
      slotClass sfn = .file →
      ∃ slots', createEntry upper slots name sfn = .ok slots' ∧
        (absDir slots').Perm ((Names.encodeUtf16 name, sfn) :: absDir slots) ∧ Shape slots') ∧
    -- remove
    (∀ name, amFind upper (absDir slots) name = none → removeEntry upper slots name = .error .notFound) ∧
    (∀ name, amFind upper (absDir slots) name ≠ none →
      ∃ slots', removeEntry upper slots name = .ok slots' ∧
        absDir slots' = (absDir slots).eraseP (amMatch upper name) ∧ Shape slots') ∧
    -- rename within the directory
    (∀ src dst alias, amFind upper (absDir slots) src = none →
      renameEntry upper slots src dst alias = .error .notFound) ∧
    (∀ src dst alias e d, findEntry upper slots src = some e → findEntry upper slots dst = some d →
      renameEntry upper slots src dst alias = if d.endIdx = e.endIdx then .ok slots else .error .alreadyExists) ∧
    (∀ src dst alias e, findEntry upper slots src = some e →
      findEntry upper slots dst = none →
      1 ≤ (Names.encodeUtf16 dst).length → (Names.encodeUtf16 dst).length ≤ 255 →
      (∀ x ∈ Names.encodeUtf16 dst, x < 65536) → (∀ x ∈ Names.encodeUtf16 dst, x ≠ 0) →
      slotClass (renamedSfn e.sfn alias) = .file →
      ∃ slots', renameEntry upper slots src dst alias = .ok slots' ∧
        (absDir slots').Perm
          ((Names.encodeUtf16 dst, renamedSfn e.sfn alias) :: (absDir slots).eraseP (amMatch upper src)) ∧
        Shape slots') := by
  have hnone : ∀ q, amFind upper (absDir slots) q = none ↔ findEntry upper slots q = none := by
    intro q; rw [abs_lookup]; cases findEntry upper slots q <;> simp
  refine ⟨abs_lookup upper slots, ?_, ?_, ?_, ?_, ?_, ?_, ?_⟩
  · intro name sfn h
    unfold createEntry
    cases hf : findEntry upper slots name with
    | none => exact absurd ((hnone name).2 hf) h
    | some e => rfl
  · intro name sfn h h1 h255 hu hnz hsfn
    obtain ⟨c1, c2⟩ := absDir_create slots _ sfn hs h1 h255 hu hnz hsfn
    exact ⟨_, by unfold createEntry; rw [(hnone name).1 h], c1, c2⟩
  · intro name h
    unfold removeEntry; rw [(hnone name).1 h]
  · intro name h
    cases hf : findEntry upper slots name with
    | none => exact absurd ((hnone name).2 hf) h
    | some e =>
      obtain ⟨d1, d2⟩ := absDir_remove upper slots hs name e hf
      exact ⟨_, by unfold removeEntry; rw [hf], d1, d2⟩
  · intro src dst alias h
    unfold renameEntry; rw [(hnone src).1 h]
  · intro src dst alias e d h1 h2
    unfold renameEntry; rw [h1, h2]
  · intro src dst alias e hsrc hdst h1 h255 hu hnz hcls
    obtain ⟨r1, r2⟩ := absDir_rename upper slots src dst alias hs e hsrc h1 h255 hu hnz hcls
    exact ⟨_, by unfold renameEntry; rw [hsrc, hdst], r1, r2⟩

/-! ## 5. completeness of `find_free_entries` for runs (C05.4) -/

/-- a slot index is free: a deleted slot before the first end marker, or anything from the first end marker on
    (the end of the list counts as end marker) — `DirSlots.FreeAt` -/
example : FreeAt C01.dir0 1 ∧ FreeAt C01.dir0 7 ∧ ¬ FreeAt C01.dir0 4 := by
  refine ⟨Or.inl ⟨by decide, ?_⟩, Or.inr ⟨6, by omega, by decide⟩, ?_⟩
  · intro e he
    have : e = 0 ∨ e = 1 := by omega
    rcases this with rfl | rfl <;> decide
  · rintro (⟨h, _⟩ | ⟨e, he, h⟩)
    · exact absurd h (by decide)
    · have : e = 0 ∨ e = 1 ∨ e = 2 ∨ e = 3 ∨ e = 4 := by omega
      rcases this with rfl | rfl | rfl | rfl | rfl <;> exact absurd h (by decide)

/-- the slots `find_free_entries(num)` hands out are free -/
theorem findFree_sound (slots : List (List Nat)) (num : Nat) (hnum : 1 ≤ num) :
    findFree slots num ≤ slots.length ∧ ∀ k, k < num → FreeAt slots (findFree slots num + k) :=
  ⟨findFree_le slots num hnum, DirSlots.findFree_sound slots num hnum⟩

/-- **C05.4 (fixed root)** `findFree_complete`.  `slots` = all slots of the directory's fixed capacity.  If the run
    `find_free_entries(num)` hands out does not fit (`findFree slots num + num > capacity`, the creating call then fails
    when it writes past the end), then NO window of `num` consecutive free slots exists within the capacity: the call
    fails for lack of room only when there really is no room.  (No well-formedness needed.) -/
theorem findFree_complete (slots : List (List Nat)) (num : Nat) (hnum : 1 ≤ num)
    (h : findFree slots num + num > slots.length) :
    ¬ ∃ j, j + num ≤ slots.length ∧ ∀ k, k < num → FreeAt slots (j + k) :=
  findFree_complete_aux slots num hnum h

example : findFree C01.dir0 5 + 5 > C01.dir0.length := by decide +kernel

/-! ## satisfiability of `DirWf` -/

/-- a one-entry directory is well-formed -/
theorem C01.dirA_wf : DirWf Names.upperAscii [C01.sfnOf "A          ", C01.zero] := by
  refine ⟨⟨[.entry [] (C01.sfnOf "A          ")], [C01.zero], rfl, ?_, ?_⟩, ?_, ?_⟩
  · intro it hit
    rw [List.mem_singleton.1 hit]
    exact ⟨Or.inl rfl, by simp, by decide⟩
  · intro t ht
    rw [List.mem_singleton.1 ht]; decide
  · have : listing [C01.sfnOf "A          ", C01.zero] = [⟨C01.sfnOf "A          ", [], 0, 1⟩] := by decide +kernel
    rw [this]; simp
  · have : listing [C01.sfnOf "A          ", C01.zero] = [⟨C01.sfnOf "A          ", [], 0, 1⟩] := by decide +kernel
    rw [this]; simp

/-- creating a second entry ("bb", alias `BB`) in it: all hypotheses of `writeEntry_dirWf` hold, so the two-entry
    directory is well-formed, and so is what remains after deleting the first entry -/
example : DirWf Names.upperAscii
    (writeEntry [C01.sfnOf "A          ", C01.zero] (Names.encodeUtf16 "bb".toList) (C01.sfnOf "BB         ")) := by
  have hl : listing [C01.sfnOf "A          ", C01.zero] = [⟨C01.sfnOf "A          ", [], 0, 1⟩] := by decide +kernel
  refine writeEntry_dirWf Names.upperAscii _ "bb".toList _ C01.dirA_wf (by decide) (by decide) (by decide) (by decide)
    (by decide) (by decide) (by decide +kernel) ?_ ?_
  · intro e he
    rw [hl, List.mem_singleton] at he
    rw [he]; decide
  · intro e he
    rw [hl, List.mem_singleton] at he
    rw [he]; decide +kernel

end FatVerif
