import FatVerif.Proofs.NamesValidate
import FatVerif.Proofs.NamesGen
import FatVerif.Proofs.NamesEq
/-!
# C15 — names: total validation, totality of the alias generator's constructor, case-insensitive lookup

Model: `FatVerif.Names` (transliteration of `validate_long_name`, `ShortNameGenerator::new`,
`ShortName::eq_ignore_case`, `DirEntry::eq_name_lfn`, `DirEntry::eq_name`).
Specification: `InCharset`, `String.utf8ByteSize`, `fold upper`.
-/
namespace FatVerif.C15
open FatVerif.Names

/-! ## C15.1 validation -/

/-- `validate_long_name` accepts exactly the names of 1…255 UTF-8 bytes over the documented character set;
    otherwise it reports the length error (empty or > 255 bytes) first, else the character error. -/
theorem validate_iff (s : String) :
    (validateLongName s = .ok () ↔
      1 ≤ s.utf8ByteSize ∧ s.utf8ByteSize ≤ 255 ∧ ∀ c ∈ s.toList, InCharset c) ∧
    (validateLongName s = .error .nameLen ↔ s.utf8ByteSize = 0 ∨ 255 < s.utf8ByteSize) ∧
    (validateLongName s = .error .nameChar ↔
      1 ≤ s.utf8ByteSize ∧ s.utf8ByteSize ≤ 255 ∧ ¬ ∀ c ∈ s.toList, InCharset c) := by
  unfold validateLongName
  rw [← utf8Len_toList]
  exact ⟨validateL_ok_iff _, validateL_nameLen_iff _, validateL_nameChar_iff _⟩

/-- validation is total: one of the three outcomes, nothing else (no panic, no other error) -/
theorem validate_total (s : String) :
    validateLongName s = .ok () ∨ validateLongName s = .error .nameLen ∨ validateLongName s = .error .nameChar := by
  unfold validateLongName validateLongNameL
  repeat' split
  all_goals simp

/-- wire code of the model's answer (what probe `names.validate` prints) = the specification's code, which is
    what the driver's C15 oracle compares the implementation's answer with -/
theorem validate_code_spec (s : String) :
    (match validateLongName s with | .ok _ => 0 | .error e => e.code) =
      specValidateCode s.utf8ByteSize s.toList := by
  obtain ⟨h1, h2, h3⟩ := validate_iff s
  unfold specValidateCode
  rcases validate_total s with h | h | h
  · obtain ⟨a, b, c⟩ := h1.1 h
    have : ¬ (s.utf8ByteSize = 0 ∨ s.utf8ByteSize > 255) := by omega
    rw [h]; simp only [this, if_false]; rw [if_pos c]
  · have := h2.1 h
    rw [h]; simp only [Err.code]
    have : s.utf8ByteSize = 0 ∨ s.utf8ByteSize > 255 := this
    simp only [this, if_true]
  · obtain ⟨a, b, c⟩ := h3.1 h
    have : ¬ (s.utf8ByteSize = 0 ∨ s.utf8ByteSize > 255) := by omega
    rw [h]; simp only [Err.code, this, if_false]; rw [if_neg c]

example : validateLongName "Hello World, naïve+[1].tar.gz" = .ok () := by rfl
example : validateLongName "" = .error .nameLen := by rfl
example : validateLongName "a:b" = .error .nameChar := by rfl
example : validateLongName "a😀" = .error .nameChar := by rfl
example : InCharset 'é' ∧ ¬ InCharset '?' ∧ ¬ InCharset '\x7f' ∧ ¬ InCharset '😀' := by decide

/-! ## C15.2 (the `ShortNameGenerator::new` part) — holds since the repair of defect F5 -/

/-- `ShortNameGenerator::new` returns for every string: `name[first_char_len..]`, `name[..dot_index]` and
    `name[dot_index + 1..]` are always on character boundaries (the model keeps their panic conditions and this
    theorem shows they cannot fire), and `new` has no other failure. -/
theorem gen_new_total : ∀ s : String, ∃ g, new s = .ok g :=
  fun s => newL_total s.toList

/-- in particular for every name that passes validation -/
theorem gen_new_total_valid (s : String) (_ : validateLongName s = .ok ()) : ∃ g, new s = .ok g :=
  gen_new_total s

/-- what it computes: no dot after the first character ⇒ the whole name is the base; otherwise the name is split
    at the LAST dot that is not the first character, and the base keeps the first character whatever it is -/
theorem gen_new_spec (c : Char) (cs : List Char) :
    ('.' ∉ cs ∧ newL (c :: cs) = .ok (newParts (c :: cs) (c :: cs) none)) ∨
    (∃ pre post, cs = pre ++ '.' :: post ∧ '.' ∉ post ∧
      newL (c :: cs) = .ok (newParts (c :: cs) (c :: pre) (some post))) := by
  rcases newL_cons c cs with ⟨h1, h2⟩ | h
  · exact Or.inl ⟨rfindDot_none h1, h2⟩
  · exact Or.inr h

example : ∃ g, new "Foo.baR" = .ok g := gen_new_total _

/-- regression: the former F5 witnesses (`""`, `"é"`, `"éa"`) and other names whose first character is multi-byte
    or a dot now give a generator state -/
example : (new "").map (·.shortName) = .ok ("           ".toList.map Char.toNat) := rfl
example : (new "é").map (·.shortName) = .ok ("_          ".toList.map Char.toNat) := rfl
example : (new "éa").map (·.shortName) = .ok ("_A         ".toList.map Char.toNat) := rfl
example : (new "é.txt").map (·.shortName) = .ok ("_       TXT".toList.map Char.toNat) := rfl
example : (new "日本語.txt").map (·.shortName) = .ok ("___     TXT".toList.map Char.toNat) := rfl
example : (new ".a").map (fun g => (g.shortName, g.lossyConv)) = .ok ("A          ".toList.map Char.toNat, true) := rfl
example : (new "é").map (fun g => (g.lossyConv, g.nameFits, g.basenameLen)) = .ok (true, true, 1) := rfl

/-! ## C15.4 lookup: matches the long name or the alias ignoring case, and nothing else -/

/-- `eq_name` for an arbitrary stored unit sequence: it holds iff the units decode without an unpaired surrogate
    to a string with the same case folding as the query, or the query folds like the displayed alias.
    `upper` is arbitrary (`char::to_uppercase` or the ASCII variant). -/
theorem lookup_iff (upper : Char → List Char) (units raw : List Nat) (q : List Char) :
    eqName upper units raw q = true ↔
      (units ≠ [] ∧ ∃ long : List Char, decodeUtf16 units = long.map some ∧ fold upper q = fold upper long) ∨
      fold upper q = fold upper (aliasDisplay raw) := by
  unfold eqName
  rw [Bool.or_eq_true, eqNameLfn_iff, eqIgnoreCase_iff]

/-- for an entry written for the name `long` (its units are `long.encode_utf16()`) -/
theorem lookup_stored_iff (upper : Char → List Char) {long : List Char} (hl : long ≠ []) (raw : List Nat)
    (q : List Char) :
    eqName upper (encodeUtf16 long) raw q = true ↔
      fold upper q = fold upper long ∨ fold upper q = fold upper (aliasDisplay raw) := by
  unfold eqName
  rw [Bool.or_eq_true, eqNameLfn_encode upper hl, eqIgnoreCase_iff]

/-- reflexive: an entry is found under its own long name and under its own alias -/
theorem lookup_refl (upper : Char → List Char) {long : List Char} (hl : long ≠ []) (raw : List Nat) :
    eqName upper (encodeUtf16 long) raw long = true ∧ eqName upper (encodeUtf16 long) raw (aliasDisplay raw) = true :=
  ⟨(lookup_stored_iff upper hl raw long).2 (Or.inl rfl), (lookup_stored_iff upper hl raw _).2 (Or.inr rfl)⟩

/-- the answer depends on the query only through its case folding -/
theorem lookup_congr (upper : Char → List Char) (units raw : List Nat) {q q' : List Char}
    (h : fold upper q = fold upper q') : eqName upper units raw q = eqName upper units raw q' := by
  unfold eqName eqNameLfn eqIgnoreCase
  rw [h]

/-- symmetric: `b` finds the entry named `a` by long name iff `a` finds the entry named `b` -/
theorem lookup_symm (upper : Char → List Char) {a b : List Char} (ha : a ≠ []) (hb : b ≠ []) :
    eqNameLfn upper (encodeUtf16 a) b = eqNameLfn upper (encodeUtf16 b) a := by
  rw [Bool.eq_iff_iff, eqNameLfn_encode upper ha, eqNameLfn_encode upper hb]
  exact eq_comm

/-- transitive -/
theorem lookup_trans (upper : Char → List Char) {a b c : List Char} (ha : a ≠ []) (hb : b ≠ [])
    (h1 : eqNameLfn upper (encodeUtf16 a) b = true) (h2 : eqNameLfn upper (encodeUtf16 b) c = true) :
    eqNameLfn upper (encodeUtf16 a) c = true := by
  rw [eqNameLfn_encode upper ha] at h1 ⊢
  rw [eqNameLfn_encode upper hb] at h2
  exact h2.trans h1

/-- a stored name with an unpaired surrogate is never matched by long name -/
theorem lookup_unpaired (upper : Char → List Char) (units : List Nat) (q : List Char)
    (h : none ∈ decodeUtf16 units) : eqNameLfn upper units q = false := by
  cases hv : eqNameLfn upper units q with
  | false => rfl
  | true =>
    obtain ⟨_, cs, h1, _⟩ := (eqNameLfn_iff upper units q).1 hv
    rw [h1] at h
    simp at h

/-- no long name ⇒ only the alias can match -/
theorem lookup_no_long (upper : Char → List Char) (raw : List Nat) (q : List Char) :
    eqName upper [] raw q = true ↔ fold upper q = fold upper (aliasDisplay raw) := by
  rw [lookup_iff]; simp

example : eqName upperAscii (encodeUtf16 "ReadMe.Text".toList) ("README~1TEX".toList.map Char.toNat)
    "README.text".toList = true := by decide +kernel
example : eqName upperAscii (encodeUtf16 "ReadMe.Text".toList) ("README~1TEX".toList.map Char.toNat)
    "readme~1.tex".toList = true := by decide +kernel
example : eqName upperAscii (encodeUtf16 "ReadMe.Text".toList) ("README~1TEX".toList.map Char.toNat)
    "readme.tex".toList = false := by decide +kernel
example : none ∈ decodeUtf16 [0x61, 0xD800, 0x62] := by decide

end FatVerif.C15
