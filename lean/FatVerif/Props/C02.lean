import FatVerif.Proofs.AFileInv
import FatVerif.Proofs.AFileRead
import FatVerif.Proofs.AFileWrite
import FatVerif.Proofs.AFileSeek
import FatVerif.Proofs.AFileTrunc
import FatVerif.Proofs.AFileLoops
import FatVerif.Proofs.AFileExtents
import FatVerif.Proofs.AFileFrame
/-!
# C02 — a file is a growable byte array with a cursor

Model: `FatVerif.Cursor.AFile` (`Model/AFile.lean`, transliteration of `file.rs` + the `io.rs` loops).
Specification: `FatVerif.Cursor.ByteFile` and its oracle `ByteFile.check` (`Spec/ByteFile.lean`).

Definitions used by the statements (they live in `Proofs/AFileInv.lean` so that the lemma files can use them):

* `AllocLaws A isFree` — the allocator hands out only clusters that are free, and frees nothing it was not given;
* `AFileInv isFree f s` — the invariant the code maintains: `0 < cs`; the chain has no duplicates;
  `first_cluster = chain.head?`; `size ≤ chain.length * cs` (i.e. `⌈size/cs⌉ ≤ chain.length`); `offset ≤ size`;
  `size ≤ u32::MAX`; `current_cluster = if offset = 0 then none else chain[(offset − 1) / cs]` ("the previous cluster
  when on a boundary"); no cluster of the chain is free;
* `AFile.abs f = ⟨content f, f.offset⟩`, `content f = (List.range size).map fun p => data chain[p / cs] (p % cs)`.

All theorems hold for every cluster size, chain, size, offset, buffer length and history.
-/
namespace FatVerif.Cursor

section
variable {σ : Type} {isFree : σ → Nat → Prop} {A : Allocator σ}

local macro "triv" : tactic => `(tactic| first | rfl | trivial | assumption)

/-- **C02.1, one step.**  Every operation preserves the invariant and the cluster size, and its observable result
    is accepted by the `ByteFile` oracle, which also yields the abstraction of the new state.  For `read`/`write`
    this is the documented short read/short write (`ByteFile.shortRead`, `ByteFile.shortWrite`); `NotEnoughSpace`
    leaves the state untouched. -/
theorem file_step_refines (hA : AllocLaws A isFree) (op : FileOp) (f : AFile) (s : σ)
    (h : AFileInv isFree f s) :
    AFileInv isFree (AFile.step A op f s).2.1 (AFile.step A op f s).2.2 ∧
    (AFile.step A op f s).2.1.cs = f.cs ∧
    ByteFile.check f.cs op (AFile.step A op f s).1 f.abs = .ok (AFile.step A op f s).2.1.abs := by
  cases op with
  | read n =>
    obtain ⟨l, hl, hchk⟩ := h.read_refines (isFree := isFree) n
    obtain ⟨p, hi⟩ := h.read_post n
    simp only [AFile.step]
    generalize f.read n = r at hl hchk p hi
    obtain ⟨r1, f'⟩ := r
    simp only at hl; subst hl
    exact ⟨hi, p.cs, hchk⟩
  | write bs =>
    simp only [AFile.step]
    rcases h.write_refines hA bs with ⟨he, _, _, _, hchk⟩ | ⟨hres, hi, hcs, _, hchk⟩
    · rw [he]; exact ⟨h, rfl, hchk⟩
    · generalize f.write A s bs = r at hres hi hcs hchk
      obtain ⟨r1, f', s'⟩ := r
      simp only at hres; subst hres
      exact ⟨hi, hcs, hchk⟩
  | readExact n =>
    obtain ⟨i1, i2, i3, i4⟩ := readExactLoop_spec (isFree := isFree) (s := s) n f n [] h (Nat.le_refl _)
    simp only [AFile.step, AFile.readExact]
    by_cases hle : n ≤ f.size - f.offset
    · obtain ⟨j1, j2⟩ := i3 hle
      generalize f.readExactLoop n n [] = r at i1 i2 j1 j2
      obtain ⟨r1, f'⟩ := r
      simp only at j1 j2 i1 i2; subst j1
      refine ⟨i1, i2, ?_⟩
      simp only [ByteFile.check, List.nil_append]
      rw [j2]
      exact ByteFile.checkReadExact_ok n f.abs (by simpa using hle)
    · obtain ⟨j1, j2⟩ := i4 (by omega)
      generalize f.readExactLoop n n [] = r at i1 i2 j1 j2
      obtain ⟨r1, f'⟩ := r
      simp only at j1 j2 i1 i2; subst j1
      refine ⟨i1, i2, ?_⟩
      have ho : f'.offset = f.size := by
        have := congrArg ByteFile.pos j2; simpa using this
      have hrem : f.abs.remaining < n := by simp; omega
      simp only [ByteFile.check, ho, hrem, AFile.abs_content, AFile.content_length, and_self, if_true]
      rw [j2]; rfl
  | writeAll bs =>
    obtain ⟨i1, i2, i3⟩ := writeAllLoop_spec hA bs.length f s bs h (Nat.le_refl _)
    simp only [AFile.step, AFile.writeAll]
    generalize f.writeAllLoop A bs.length s bs = r at i1 i2 i3
    obtain ⟨r1, f', s'⟩ := r
    simp only at i1 i2 i3
    rcases i3 with ⟨j1, j2, j3⟩ | ⟨e, k, j1, j2, j3, j4, j5⟩
    · subst j1
      refine ⟨i1, i2, ?_⟩
      have : f.abs.pos + bs.length ≤ u32Max := by simpa using j3
      simp only [ByteFile.check, this, if_true]
      rw [j2]
    · subst j1
      refine ⟨i1, i2, ?_⟩
      have hk : f'.offset - f.abs.pos = k := by simp [j3]
      have hcond : f.abs.pos ≤ f'.offset ∧ f'.offset - f.abs.pos < bs.length ∧
          ((e = .noSpace ∧ f'.offset % f.cs = 0 ∧ f.abs.content.length ≤ f'.offset) ∨
           (e = .writeZero ∧ f'.offset = u32Max)) := by
        refine ⟨by simp [j3], by rw [hk]; exact j2, ?_⟩
        rcases j5 with ⟨e1, _, e2, e3⟩ | ⟨e1, e2⟩
        · exact Or.inl ⟨e1, e2, by simpa using e3⟩
        · exact Or.inr ⟨e1, e2⟩
      simp only [ByteFile.check, ByteFile.checkWriteAllErr]
      rw [if_pos hcond, hk, j4]
  | seek w =>
    simp only [AFile.step]
    rcases h.seek_refines (isFree := isFree) w with ⟨p, hp, hchk⟩ | ⟨he, hst, hchk⟩
    · by_cases hbad : f.abs.seekTarget w < 0 ∨ f.abs.seekTarget w > (u32Max : Int)
      · rw [seek_invalid f w hbad] at hp; cases hp
      · obtain ⟨sp, hi⟩ := h.seek_valid w hbad
        generalize f.seek w = r at hp hchk sp hi
        obtain ⟨r1, f'⟩ := r
        simp only at hp; subst hp
        exact ⟨hi, sp.cs, hchk⟩
    · generalize f.seek w = r at he hst hchk
      obtain ⟨r1, f'⟩ := r
      simp only at he hst; subst he; subst hst
      exact ⟨h, rfl, hchk⟩
  | truncate =>
    obtain ⟨hres, hi, hab, hcs⟩ := h.truncate_refines hA
    simp only [AFile.step]
    generalize f.truncate A s = r at hres hi hab hcs
    obtain ⟨r1, f', s'⟩ := r
    simp only at hres; subst hres
    refine ⟨hi, hcs, ?_⟩
    simp only [ByteFile.check]
    rw [hab]
  | flush =>
    obtain ⟨_, hi, hab, _, hcs⟩ := h.flush_refines
    refine ⟨hi, hcs, ?_⟩
    simp only [AFile.step, AFile.flush, ByteFile.check]
    rfl
  | reopen =>
    obtain ⟨hi, hab, hcs⟩ := h.reopen_inv
    obtain ⟨_, _, i3, _⟩ := readExactLoop_spec (isFree := isFree) (s := s) f.size f.reopen f.size [] hi
      (Nat.le_refl _)
    obtain ⟨j1, _⟩ := i3 (by simp [AFile.reopen])
    simp only [AFile.step, AFile.readExact]
    generalize f.reopen.readExactLoop f.size f.size [] = r at j1
    obtain ⟨r1, f'⟩ := r
    simp only at j1; subst j1
    refine ⟨hi, hcs, ?_⟩
    have hc : (f.reopen.abs.read f.size).1 = f.abs.content := by
      have e : f.reopen.content = f.content := content_congr rfl rfl rfl rfl
      show (f.reopen.content.drop 0).take f.size = f.content
      rw [e, List.drop_zero, List.take_of_length_le (by simp)]
    simp only [ByteFile.check, List.nil_append, hc, if_true]
    rw [hab]

/-- **C02.1.**  For every finite history: the invariant is re-established and the whole sequence of observable
    results is accepted by the `ByteFile` oracle started at the abstraction of the initial state and ending at the
    abstraction of the final state. -/
theorem file_refinement (hA : AllocLaws A isFree) : ∀ (ops : List FileOp) (f : AFile) (s : σ),
    AFileInv isFree f s →
    AFileInv isFree (AFile.run A ops f s).2.1 (AFile.run A ops f s).2.2 ∧
    ByteFile.checkRun f.cs ops (AFile.run A ops f s).1 f.abs = .ok (AFile.run A ops f s).2.1.abs
  | [], f, s, h => ⟨h, rfl⟩
  | op :: ops, f, s, h => by
    obtain ⟨hi, hcs, hchk⟩ := file_step_refines hA op f s h
    obtain ⟨ri, rchk⟩ := file_refinement hA ops _ _ hi
    simp only [AFile.run]
    refine ⟨ri, ?_⟩
    simp only [ByteFile.checkRun, hchk]
    rw [← hcs]; exact rchk

/-- **C02.2** (`read_exact`): with enough bytes left the whole buffer is filled with exactly the bytes at the
    cursor and the cursor advances by `n`; otherwise `UnexpectedEof` and the cursor stops at the end. -/
theorem readExact_spec {f : AFile} {s : σ} (h : AFileInv isFree f s) (n : Nat) :
    AFileInv isFree (f.readExact n).2 s ∧
    (n ≤ f.size - f.offset →
      (f.readExact n).1 = .ok (f.abs.read n).1 ∧ (f.readExact n).2.abs = (f.abs.read n).2) ∧
    (f.size - f.offset < n →
      (f.readExact n).1 = .error .eof ∧ (f.readExact n).2.abs = { f.abs with pos := f.size }) := by
  obtain ⟨i1, _, i3, i4⟩ := readExactLoop_spec (isFree := isFree) (s := s) n f n [] h (Nat.le_refl _)
  exact ⟨i1, fun hle => by have := i3 hle; simpa [AFile.readExact] using this, i4⟩

/-- **C02.2** (`write_all`): if the allocator never refuses and the file stays below `u32::MAX`, the whole buffer
    is written at the cursor (overwriting / extending), in one `ByteFile.write`. -/
theorem writeAll_spec (hA : AllocLaws A isFree) {f : AFile} {s : σ} (h : AFileInv isFree f s) (bs : List Nat)
    (htotal : ∀ s, A.alloc s ≠ none) (hfit : f.offset + bs.length ≤ u32Max) :
    (f.writeAll A s bs).1 = .ok () ∧ (f.writeAll A s bs).2.1.abs = (f.abs.write bs).2 ∧
    AFileInv isFree (f.writeAll A s bs).2.1 (f.writeAll A s bs).2.2 := by
  obtain ⟨i1, _, i3⟩ := writeAllLoop_spec hA bs.length f s bs h (Nat.le_refl _)
  rcases i3 with ⟨j1, j2, _⟩ | ⟨e, k, _, j2, j3, _, j5⟩
  · exact ⟨j1, j2, i1⟩
  · exfalso
    rcases j5 with ⟨_, e0, _⟩ | ⟨_, e2⟩
    · exact htotal _ e0
    · rw [j3] at e2; omega

/-- **C02.2**, both loops in one statement: whole-buffer semantics (fuel = buffer length suffices). -/
theorem readExact_writeAll (hA : AllocLaws A isFree) {f : AFile} {s : σ} (h : AFileInv isFree f s) :
    (∀ n, n ≤ f.size - f.offset →
      (f.readExact n).1 = .ok (f.abs.read n).1 ∧ (f.readExact n).2.abs = (f.abs.read n).2) ∧
    (∀ bs, (∀ s, A.alloc s ≠ none) → f.offset + bs.length ≤ u32Max →
      (f.writeAll A s bs).1 = .ok () ∧ (f.writeAll A s bs).2.1.abs = (f.abs.write bs).2) :=
  ⟨fun n hn => (readExact_spec h n).2.1 hn,
   fun bs ht hf => ⟨(writeAll_spec hA h bs ht hf).1, (writeAll_spec hA h bs ht hf).2.1⟩⟩

/-- `write_all` in general: either everything was written, or a prefix of `k < |bs|` bytes was written and the
    loop stopped with `NotEnoughSpace` (the allocator refused, on a cluster boundary at the end of the file) or
    with `WriteZero` (the file reached `u32::MAX` bytes). -/
theorem writeAll_general (hA : AllocLaws A isFree) {f : AFile} {s : σ} (h : AFileInv isFree f s) (bs : List Nat) :
    AFileInv isFree (f.writeAll A s bs).2.1 (f.writeAll A s bs).2.2 ∧
    (((f.writeAll A s bs).1 = .ok () ∧ (f.writeAll A s bs).2.1.abs = (f.abs.write bs).2) ∨
     (∃ e k, (f.writeAll A s bs).1 = .error e ∧ k < bs.length ∧
        (f.writeAll A s bs).2.1.abs = (f.abs.write (bs.take k)).2 ∧
        ((e = .noSpace ∧ A.alloc (f.writeAll A s bs).2.2 = none ∧ (f.offset + k) % f.cs = 0 ∧
            f.size ≤ f.offset + k) ∨
         (e = .writeZero ∧ f.offset + k = u32Max)))) := by
  obtain ⟨i1, _, i3⟩ := writeAllLoop_spec hA bs.length f s bs h (Nat.le_refl _)
  refine ⟨i1, ?_⟩
  rcases i3 with ⟨j1, j2, _⟩ | ⟨e, k, j1, j2, j3, j4, j5⟩
  · exact Or.inl ⟨j1, j2⟩
  · refine Or.inr ⟨e, k, j1, j2, j4, ?_⟩
    unfold AFile.writeAll
    rw [j3] at j5
    exact j5

/-- **C02 seek.**  Targets before the start or not representable in 32 bits are rejected with `InvalidInput` and
    the state is untouched; every other target moves the cursor to `min target size` (beyond the end clamps to
    the end), changes nothing else, and keeps the invariant. -/
theorem seek_spec {f : AFile} {s : σ} (h : AFileInv isFree f s) (w : SeekFrom) :
    ((f.abs.seekTarget w < 0 ∨ f.abs.seekTarget w > (u32Max : Int)) →
      f.seek w = (.error .invalidInput, f)) ∧
    (¬ (f.abs.seekTarget w < 0 ∨ f.abs.seekTarget w > (u32Max : Int)) →
      (f.seek w).1 = .ok (min (f.abs.seekTarget w).toNat f.size) ∧
      (f.seek w).2.offset = min (f.abs.seekTarget w).toNat f.size ∧
      (f.seek w).2.content = f.content ∧
      AFileInv isFree (f.seek w).2 s) :=
  ⟨seek_invalid f w, fun hok =>
    ⟨(h.seek_valid w hok).1.res, (h.seek_valid w hok).1.offset, (h.seek_valid w hok).1.content,
     (h.seek_valid w hok).2⟩⟩

/-- **C02 truncate.**  `truncate` succeeds, keeps exactly the bytes before the cursor, leaves the cursor where it
    is, and keeps the invariant. -/
theorem truncate_spec (hA : AllocLaws A isFree) {f : AFile} {s : σ} (h : AFileInv isFree f s) :
    (f.truncate A s).1 = .ok () ∧
    (f.truncate A s).2.1.content = f.content.take f.offset ∧
    (f.truncate A s).2.1.offset = f.offset ∧
    AFileInv isFree (f.truncate A s).2.1 (f.truncate A s).2.2 := by
  obtain ⟨hres, hi, hab, _⟩ := h.truncate_refines hA
  refine ⟨hres, ?_, ?_, hi⟩
  · have := congrArg ByteFile.content hab; simpa [ByteFile.truncate] using this
  · have := congrArg ByteFile.pos hab; simpa [ByteFile.truncate] using this

/-- **C02.3.**  Concatenating, for each `(cluster, n)` that `extents` reports, the first `n` bytes of that cluster
    yields the content. -/
theorem extents_content {f : AFile} {s : σ} (h : AFileInv isFree f s) :
    (f.extents.flatMap fun e => f.clusterBytes e.1 0 e.2) = f.content :=
  h.extents_content

/-- a read never returns more than remains, and returns something unless at the end / asked for nothing -/
theorem read_progress {f : AFile} {s : σ} (h : AFileInv isFree f s) (n : Nat) :
    ∃ l, (f.read n).1 = .ok l ∧ l.length ≤ n ∧ l.length ≤ f.size - f.offset ∧
      (l.length = 0 → n = 0 ∨ f.offset = f.size) := by
  obtain ⟨p, _⟩ := h.read_post n
  have hcs := h.cs_pos
  have hoff := h.off_le
  have hdm := divmod_spec f.cs f.offset hcs
  refine ⟨_, p.res, ?_⟩
  have hlen : ((f.content.drop f.offset).take (f.readLen n)).length = f.readLen n := by
    have : f.readLen n ≤ f.size - f.offset := by unfold AFile.readLen; omega
    simp; omega
  rw [hlen]
  unfold AFile.readLen
  omega

/-! ### several files of one volume, modified in interleaved order -/

/-- **C02.4, one step.**  `f` and `g` are two files of one volume: one data region (`g.data = f.data`), one
    allocator state, disjoint chains.  Any operation on `f` leaves `g` — seen through the data region after the
    operation — with the same content and its invariant, and the chains stay disjoint. -/
theorem file_frame (hA : AllocLaws A isFree) (op : FileOp) (f g : AFile) (s : σ)
    (hf : AFileInv isFree f s) (hg : AFileInv isFree g s)
    (hdisj : ∀ c ∈ f.chain, c ∉ g.chain) (hdata : g.data = f.data) :
    AFileInv isFree { g with data := (AFile.step A op f s).2.1.data } (AFile.step A op f s).2.2 ∧
    (∀ c ∈ (AFile.step A op f s).2.1.chain, c ∉ g.chain) ∧
    ({ g with data := (AFile.step A op f s).2.1.data } : AFile).content = g.content := by
  have fp := hf.step_footprint hA op
  have hout : ∀ c ∈ g.chain, ¬ Own isFree f s c := by
    intro c hc ho
    rcases ho with ho | ho
    · exact hdisj c ho hc
    · exact hg.live c hc ho
  refine ⟨⟨hg.cs_pos, hg.nodup, hg.first, hg.cover, hg.off_le, hg.size_le, hg.cur, ?_⟩, ?_, ?_⟩
  · intro c hc hfree
    exact hout c hc (fp.own c (Or.inr hfree))
  · intro c hc hgc
    exact hout c hgc (fp.own c (Or.inl hc))
  · unfold AFile.content
    apply List.map_congr_left
    intro p hp
    have hp' : p < g.size := List.mem_range.mp hp
    have hpi : p / g.cs < g.chain.length := hg.index_lt hp'
    have hmem : g.chain.getD (p / g.cs) 0 ∈ g.chain := by
      rw [List.getD_eq_getElem?_getD, List.getElem?_eq_getElem hpi]
      exact List.getElem_mem hpi
    unfold AFile.byteAt
    show (AFile.step A op f s).2.1.data (g.chain.getD (p / g.cs) 0) (p % g.cs) = g.data _ _
    rw [fp.data _ (hout _ hmem), hdata]

/-- two files of one volume -/
def PairInv (isFree : σ → Nat → Prop) (f g : AFile) (s : σ) : Prop :=
  AFileInv isFree f s ∧ AFileInv isFree g s ∧ (∀ c ∈ f.chain, c ∉ g.chain) ∧ g.data = f.data

/-- an operation on the first (`which = true`) or second file; the other file sees the new data region -/
def step2 (A : Allocator σ) (which : Bool) (op : FileOp) (f g : AFile) (s : σ) : FileRes × AFile × AFile × σ :=
  if which then
    ((AFile.step A op f s).1, (AFile.step A op f s).2.1, { g with data := (AFile.step A op f s).2.1.data },
      (AFile.step A op f s).2.2)
  else
    ((AFile.step A op g s).1, { f with data := (AFile.step A op g s).2.1.data }, (AFile.step A op g s).2.1,
      (AFile.step A op g s).2.2)

def run2 (A : Allocator σ) : List (Bool × FileOp) → AFile → AFile → σ → List FileRes × AFile × AFile × σ
  | [], f, g, s => ([], f, g, s)
  | (w, op) :: ops, f, g, s =>
    ((step2 A w op f g s).1 ::
      (run2 A ops (step2 A w op f g s).2.1 (step2 A w op f g s).2.2.1 (step2 A w op f g s).2.2.2).1,
     (run2 A ops (step2 A w op f g s).2.1 (step2 A w op f g s).2.2.1 (step2 A w op f g s).2.2.2).2)

/-- the oracle for two files: each result is checked against the `ByteFile` of the file it belongs to; the other
    `ByteFile` does not move -/
def checkRun2 (csf csg : Nat) : List (Bool × FileOp) → List FileRes → ByteFile → ByteFile →
    Except String (ByteFile × ByteFile)
  | [], [], bf, bg => .ok (bf, bg)
  | (w, op) :: ops, r :: rs, bf, bg =>
    if w then
      match ByteFile.check csf op r bf with
      | .ok bf' => checkRun2 csf csg ops rs bf' bg
      | .error e => .error e
    else
      match ByteFile.check csg op r bg with
      | .ok bg' => checkRun2 csf csg ops rs bf bg'
      | .error e => .error e
  | _, _, _, _ => .error "result-shape"

theorem PairInv.symm {f g : AFile} {s : σ} (h : PairInv isFree f g s) : PairInv isFree g f s :=
  ⟨h.2.1, h.1, fun c hc hf => h.2.2.1 c hf hc, h.2.2.2.symm⟩

theorem two_files_step (hA : AllocLaws A isFree) (w : Bool) (op : FileOp) (f g : AFile) (s : σ)
    (h : PairInv isFree f g s) :
    PairInv isFree (step2 A w op f g s).2.1 (step2 A w op f g s).2.2.1 (step2 A w op f g s).2.2.2 ∧
    (step2 A w op f g s).2.1.cs = f.cs ∧ (step2 A w op f g s).2.2.1.cs = g.cs ∧
    (w = true → ByteFile.check f.cs op (step2 A w op f g s).1 f.abs = .ok (step2 A w op f g s).2.1.abs ∧
      (step2 A w op f g s).2.2.1.abs = g.abs) ∧
    (w = false → ByteFile.check g.cs op (step2 A w op f g s).1 g.abs = .ok (step2 A w op f g s).2.2.1.abs ∧
      (step2 A w op f g s).2.1.abs = f.abs) := by
  obtain ⟨hf, hg, hd, hdat⟩ := h
  cases w with
  | true =>
    obtain ⟨i1, i2, i3⟩ := file_step_refines hA op f s hf
    obtain ⟨k1, k2, k3⟩ := file_frame hA op f g s hf hg hd hdat
    unfold step2
    rw [if_pos rfl]
    refine ⟨⟨i1, k1, k2, rfl⟩, i2, rfl, fun _ => ⟨i3, ?_⟩, fun e => by cases e⟩
    simp only [AFile.abs, k3]
  | false =>
    obtain ⟨i1, i2, i3⟩ := file_step_refines hA op g s hg
    obtain ⟨k1, k2, k3⟩ := file_frame hA op g f s hg hf (fun c hc hf' => hd c hf' hc) hdat.symm
    unfold step2
    rw [if_neg Bool.false_ne_true]
    refine ⟨?_, ?_, ?_, ?_, ?_⟩
    · exact ⟨k1, i1, fun c hc hg' => k2 c hg' hc, rfl⟩
    · rfl
    · exact i2
    · intro e; cases e
    · intro _
      refine ⟨i3, ?_⟩
      simp only [AFile.abs, k3]

/-- **C02.4.**  Any interleaving of operations on two files of one volume: every result is the one `ByteFile`
    prescribes for the file it was issued on, as if the other file did not exist. -/
theorem two_files_refinement (hA : AllocLaws A isFree) : ∀ (ops : List (Bool × FileOp)) (f g : AFile) (s : σ),
    PairInv isFree f g s →
    PairInv isFree (run2 A ops f g s).2.1 (run2 A ops f g s).2.2.1 (run2 A ops f g s).2.2.2 ∧
    checkRun2 f.cs g.cs ops (run2 A ops f g s).1 f.abs g.abs =
      .ok ((run2 A ops f g s).2.1.abs, (run2 A ops f g s).2.2.1.abs)
  | [], f, g, s, h => ⟨h, rfl⟩
  | (w, op) :: ops, f, g, s, h => by
    obtain ⟨hi, c1, c2, ht, hff⟩ := two_files_step hA w op f g s h
    obtain ⟨ri, rchk⟩ := two_files_refinement hA ops _ _ _ hi
    simp only [run2]
    refine ⟨ri, ?_⟩
    rw [c1, c2] at rchk
    cases w with
    | true =>
      obtain ⟨t1, t2⟩ := ht rfl
      simp only [checkRun2, if_true, t1]
      rw [← t2]; exact rchk
    | false =>
      obtain ⟨t1, t2⟩ := hff rfl
      simp only [checkRun2, Bool.false_eq_true, if_false, t1]
      rw [← t2]; exact rchk

end

/-! ## the hypotheses are satisfiable -/

/-- the driver's allocator obeys the laws (free = not yet handed out) -/
theorem counterAllocator_laws : AllocLaws counterAllocator (fun s c => s.next ≤ c) where
  alloc_free := by
    intro s c s' h
    simp only [counterAllocator] at h
    split at h
    · cases h
    · cases h; exact Nat.le_refl _
  alloc_frame := by
    intro s c s' d h hf
    simp only [counterAllocator] at h
    split at h
    · cases h
    · cases h; simp only at hf; omega
  release_sub := by
    intro l s d h
    exact Or.inl h

/-- a concrete two-cluster file (clusters 5 and 3, cluster size 4, 6 bytes, cursor at the boundary 4) -/
def exampleFile : AFile :=
  { cs := 4, chain := [5, 3], data := fun c j => 10 * c + j, size := 6, firstCluster := some 5, offset := 4,
    current := some 5, dirty := false, mtime := 0, now := 0 }

example : AFileInv (fun (s : CounterAlloc) c => s.next ≤ c) exampleFile { next := 6, free := 10 } where
  cs_pos := by decide
  nodup := by decide
  first := rfl
  cover := by decide
  off_le := by decide
  size_le := by decide
  cur := by decide
  live := by
    intro c hc
    have : c = 5 ∨ c = 3 := by simpa [exampleFile] using hc
    rcases this with rfl | rfl <;> decide

example : exampleFile.content = [50, 51, 52, 53, 30, 31] := by decide
example : (exampleFile.read 10).1 = .ok [30, 31] := rfl
example : exampleFile.extents = [(5, 4), (3, 2)] := by decide

/-- a second file of the same volume (cluster 4), for `PairInv` -/
def exampleFile2 : AFile :=
  { cs := 4, chain := [4], data := fun c j => 10 * c + j, size := 3, firstCluster := some 4, offset := 0,
    current := none, dirty := false, mtime := 0, now := 0 }

example : PairInv (fun (s : CounterAlloc) c => s.next ≤ c) exampleFile exampleFile2 { next := 6, free := 10 } := by
  refine ⟨⟨by decide, by decide, rfl, by decide, by decide, by decide, by decide, ?_⟩,
    ⟨by decide, by decide, rfl, by decide, by decide, by decide, by decide, ?_⟩, by decide, rfl⟩
  · intro c hc
    have : c = 5 ∨ c = 3 := by simpa [exampleFile] using hc
    rcases this with rfl | rfl <;> decide
  · intro c hc
    have : c = 4 := by simpa [exampleFile2] using hc
    subst this; decide

/-- an empty file satisfies the invariant: every history from `create_file` is covered -/
theorem empty_inv (cs : Nat) (hcs : 0 < cs) (data : Nat → Nat → Nat) (now : Nat) (s : CounterAlloc) :
    AFileInv (fun (s : CounterAlloc) c => s.next ≤ c) (AFile.empty cs data now) s where
  cs_pos := hcs
  nodup := List.nodup_nil
  first := rfl
  cover := Nat.zero_le _
  off_le := Nat.le_refl _
  size_le := Nat.zero_le _
  cur := rfl
  live := by intro c hc; cases hc

end FatVerif.Cursor
