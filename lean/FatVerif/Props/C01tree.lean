import FatVerif.Proofs.SlotTreeRename2
import FatVerif.Proofs.SlotTreeHang
import FatVerif.Proofs.SlotTreeNames
/-!
# C01 (item 6) at the level of a TREE OF SLOT LISTS — paths of any depth

Model: `Model/SlotTree.lean`.  A volume is a rose tree whose directory nodes carry their slot list
(`Node.dir slots children`); `open_dir`, `open_file`, `create_file`, `create_dir`, `remove`, `rename` and the listing are
the one-directory functions of C01.2–.5 / C16 (`DirSlots.findEntry`, `DirAlias.checkForExistenceL`,
`DirSlots.writeEntry`, `DirSlots.deleteRange`) composed along the path in the order of `Model/DirOps.lean`
(= `dir.rs`): `split_path` component by component, `.`/`..`, the checks of `rename_internal` in their order, the new
entry written BEFORE the old range is deleted.  Specification: `Spec/Tree.lean` (`Spec.evalOp`, `Spec.step`), used as
it is; abstraction `SlotTree.abs : Node → Spec.TNode` (names, kinds, contents; case-preserving).

## What is proved (nothing is left `_partial`: all six calls and the listing, every depth, `rename` inside one
   directory and across directories with the ancestor check)

* `slot_step_refines`: for every well-formed slot tree `t` (`TreeWf`: every directory `DirWf`, children = listed
  entries, kinds agree) and every call `op` satisfying `OpOk`: the new tree is well-formed; an error leaves the tree
  LITERALLY unchanged (hence `abs` unchanged: `slot_step_error_frame`); `Accepts (Spec.evalOp cfg (abs t) op) result`:
  success ⇒ the specification demands success and its tree is `abs` of the new slot tree; error `e` ⇒ `e` is among the
  specification's acceptable kinds.
* `slot_step_spec_step`: the same through the checker: `Spec.step cfg (abs t) op obs = .ok (abs t')`.
* `slot_tree_refines_spec`: every finite history, by induction.
* `slot_step_refines_inv` / `slot_tree_refines_spec_inv`: the same with the hypotheses on a call reduced to
  `OpOkA` (below), using the invariant `TNamesOk (abs t)` (all stored names valid, none a dot name; holds for the empty
  volume; preserved: `SlotTree.tnames_evalOp`) and `UpperSafe` of the case folding (`upperSafe_ascii`).
* `list_rows`: the rows of a listing are a permutation of the specification's (names exact, kinds).
* `slot_step_spec_step_fuel` (`SlotTree.no_hang_of_fuel`): with the fuel of `C16dir.dir_alias_terminates` the model's
  `hang` outcome does not occur.

## Hypotheses kept, and why

* `SplitAgree path`: `Spec.splitPath` (`String.splitOn "/"`, empty components dropped) and `split_path` applied
  component by component (`Names.splitPathL`, the transliteration of the Rust function) yield the same components.
  A fact about two string functions, independent of the file system; `String.splitOn` has no specification lemmas in
  core and does not reduce in the kernel, so it is a hypothesis (evaluated on samples at the end of this file).
* `NoAliasHit t q` for every component `q` of a path argument (in `OpOkA`; `QAll` in `OpOk` is this plus what the
  invariant gives): the specification tree has no 8.3 aliases — a query that hits an entry only through its alias
  (`open_file("HELLOW~1.TXT")`) succeeds in the library and is `NotFound` in the plain tree
  (`alias_query_counterexample`); the run-time oracle translates such paths first (`Spec.dealias`).
* `UpperSafe up` (invariant form only): names that fold alike are equally valid, only `.`/`..` fold like `.`/`..`.
  True of the ASCII folding (`upperSafe_ascii`).  NOT true of `char::to_uppercase` (feature `unicode`): `ﬁ` folds to
  `FI`, so `"ﬁ"×100` (300 bytes, invalid) folds like `"FI"×100` (valid).  There the library and `Spec.evalRename`
  really differ: `rename(x, "ﬁ"×100)` while `"FI"×100` exists → the library validates the new name first
  (`InvalidFileNameLength`), the specification only accepts `AlreadyExists`.  (`create_*` agree: both look the name up
  first.)  Reported as an observation on the specification's acceptable-error set; `slot_step_refines` with `OpOk`
  covers the `unicode` folding whenever the destination name is valid or answers to nothing.
* `CwdOk`: the directory handle is live (resolves to a directory) and its canonical path answers to no alias only.
* `Err.hang` (the alias loop of `check_for_existence` ran out of the MODEL's fuel; the Rust loop is unbounded) is not
  a result of the library: excluded in `slot_step_spec_step`, discharged by `slot_step_spec_step_fuel`.

## Out of scope (said so in the model)

Clusters and free space (`NotEnoughSpace`, a full fixed root: slot lists grow as needed), I/O errors, the dot entries
themselves (implicit; their cluster fields and the `..` update of a moved directory are C03), timestamps, file
contents and sizes (C02; files are created empty), live handles across a rename (`Spec.remapPath`), and the effectful
byte-level layer (`DirOps` ↔ slot lists: correspondence-checked, not proved here).
-/
namespace FatVerif
namespace C01tree
open Lfn DirSlots DirAlias SlotTree

/-! ## one call -/

/-- **C01.6, one call.** -/
theorem slot_step_refines (u : Char → List Char) (fuel : Nat) (t : Node) (hwf : TreeWf (upOf u) t)
    (op : Spec.Op) (stamp : List Nat) (hok : OpOk (upOf u) t op) :
    TreeWf (upOf u) (stepSlot (upOf u) fuel t op stamp).tree ∧
    (∀ e, (stepSlot (upOf u) fuel t op stamp).out = .error e → (stepSlot (upOf u) fuel t op stamp).tree = t) ∧
    Accepts (Spec.evalOp (cfgOf u) (abs t) op) (stepSlot (upOf u) fuel t op stamp) := by
  cases op with
  | createFile cwd p => exact create_refines u fuel t hwf cwd hok.1 p hok.2 false stamp
  | createDir cwd p => exact create_refines u fuel t hwf cwd hok.1 p hok.2 true stamp
  | openFile cwd p =>
    obtain ⟨h1, h2⟩ := open_refines u t hwf cwd hok.1 p hok.2 false
    exact ⟨by rw [stepSlot, h1]; exact hwf, fun _ _ => h1, h2⟩
  | openDir cwd p =>
    obtain ⟨h1, h2⟩ := open_refines u t hwf cwd hok.1 p hok.2 true
    exact ⟨by rw [stepSlot, h1]; exact hwf, fun _ _ => h1, h2⟩
  | list cwd =>
    obtain ⟨h1, h2, _⟩ := list_refines u t hwf cwd hok
    exact ⟨by rw [stepSlot, h1]; exact hwf, fun _ _ => h1, h2⟩
  | remove cwd p => exact remove_refines u t hwf cwd hok.1 p hok.2
  | rename cwd s d p => exact rename_refines u fuel t hwf cwd hok.1 s hok.2.1 d hok.2.2.1 p hok.2.2.2

/-- a non-I/O error (any error: the model has no I/O errors) leaves the abstract tree exactly as it was -/
theorem slot_step_error_frame (u : Char → List Char) (fuel : Nat) (t : Node) (hwf : TreeWf (upOf u) t)
    (op : Spec.Op) (stamp : List Nat) (hok : OpOk (upOf u) t op) (e : Err)
    (he : (stepSlot (upOf u) fuel t op stamp).out = .error e) :
    abs (stepSlot (upOf u) fuel t op stamp).tree = abs t := by
  rw [(slot_step_refines u fuel t hwf op stamp hok).2.1 e he]

/-- the rows of a listing: exactly the specification's, in some order -/
theorem list_rows (u : Char → List Char) (fuel : Nat) (t : Node) (hwf : TreeWf (upOf u) t) (cwd : List String)
    (stamp : List Nat) (hok : OpOk (upOf u) t (.list cwd)) :
    ∃ rows, (stepSlot (upOf u) fuel t (.list cwd) stamp).out = .ok rows ∧
      rows.Perm ((Spec.evalOp (cfgOf u) (abs t) (.list cwd)).listing.map fun r => (r.1, r.2.1)) :=
  (list_refines u t hwf cwd hok).2.2

/-! ## through the checker `Spec.step` -/

/-- what the harness would observe of a result -/
def obsOf (r : Res) : Spec.Obs :=
  match r.out with
  | .ok _ => .ok
  | .error e => .err e

/-- **C01.6, one call, in checker form**: the specification's checker accepts the outcome and continues with the
    abstraction of the new slot tree -/
theorem slot_step_spec_step (u : Char → List Char) (fuel : Nat) (t : Node) (hwf : TreeWf (upOf u) t)
    (op : Spec.Op) (stamp : List Nat) (hok : OpOk (upOf u) t op)
    (hnh : (stepSlot (upOf u) fuel t op stamp).out ≠ .error .hang) :
    Spec.step (cfgOf u) (abs t) op (obsOf (stepSlot (upOf u) fuel t op stamp)) =
      .ok (abs (stepSlot (upOf u) fuel t op stamp).tree) := by
  obtain ⟨_, hfr, hacc⟩ := slot_step_refines u fuel t hwf op stamp hok
  unfold Accepts at hacc
  unfold Spec.step obsOf
  cases hout : (stepSlot (upOf u) fuel t op stamp).out with
  | ok rows =>
    rw [hout] at hacc
    simp only [hacc.1, List.isEmpty_nil, if_true, hacc.2]
  | error e =>
    rw [hout] at hacc
    rw [hfr e hout]
    simp only
    rcases hacc with h | h
    · exact absurd (h ▸ hout) hnh
    · by_cases hio : Spec.errIsIo e = true
      · simp only [hio, if_true]
      · have hc : (Spec.evalOp (cfgOf u) (abs t) op).errs.contains e = true := by
          simp only [List.contains_eq_mem, decide_eq_true_eq]; exact h
        simp only [hio, Bool.false_eq_true, if_false, hc, if_true]

/-! ## histories -/

/-- the hypotheses on a call hold at every step of the history -/
def RunOk (up : Char → List Char) (fuel : Nat) : Node → List (Spec.Op × List Nat) → Prop
  | _, [] => True
  | t, (op, stamp) :: rest => OpOk up t op ∧ RunOk up fuel (stepSlot up fuel t op stamp).tree rest

/-- the specification's checker run over a history of calls and observed results -/
def specRun (cfg : Spec.TreeCfg) : Spec.TNode → List (Spec.Op × Spec.Obs) → Except String Spec.TNode
  | s, [] => .ok s
  | s, (op, obs) :: rest =>
    match Spec.step cfg s op obs with
    | .ok s' => specRun cfg s' rest
    | .error m => .error m

/-- the calls of a history paired with what was observed of the slot tree's results -/
def observed (up : Char → List Char) (fuel : Nat) : Node → List (Spec.Op × List Nat) → List (Spec.Op × Spec.Obs)
  | _, [] => []
  | t, (op, stamp) :: rest =>
    (op, obsOf (stepSlot up fuel t op stamp)) :: observed up fuel (stepSlot up fuel t op stamp).tree rest

/-- **C01.6 `slot_tree_refines_spec`**: for every finite history of create-file, create-directory, open, list,
    remove and rename calls on paths of any depth from a well-formed slot tree, the specification's checker accepts
    every outcome in turn and ends in the abstraction of the final slot tree, which is well-formed again. -/
theorem slot_tree_refines_spec (u : Char → List Char) (fuel : Nat) :
    ∀ (ops : List (Spec.Op × List Nat)) (t : Node), TreeWf (upOf u) t → RunOk (upOf u) fuel t ops →
    (∀ r ∈ (runSlot (upOf u) fuel t ops).1, r.out ≠ .error .hang) →
    TreeWf (upOf u) (runSlot (upOf u) fuel t ops).2 ∧
    specRun (cfgOf u) (abs t) (observed (upOf u) fuel t ops) = .ok (abs (runSlot (upOf u) fuel t ops).2)
  | [], t, hwf, _, _ => ⟨hwf, rfl⟩
  | (op, stamp) :: rest, t, hwf, hrun, hnh => by
    obtain ⟨hok, hrest⟩ := hrun
    have hstep := slot_step_spec_step u fuel t hwf op stamp hok (hnh _ (by simp [runSlot]))
    have hwf' := (slot_step_refines u fuel t hwf op stamp hok).1
    obtain ⟨i1, i2⟩ := slot_tree_refines_spec u fuel rest _ hwf' hrest
      (fun r hr => hnh r (by simp only [runSlot, List.mem_cons]; exact Or.inr hr))
    refine ⟨i1, ?_⟩
    simp only [observed, specRun, hstep, runSlot]
    exact i2

/-! ## the model's `hang` outcome does not occur with enough fuel -/

/-- **no `hang`** (`SlotTree.no_hang_of_fuel`): with a case folding that leaves the characters of short names alone
    and the fuel of `C16dir.dir_alias_terminates` for every directory, the hypothesis `≠ .error .hang` of
    `slot_step_spec_step` holds -/
theorem slot_step_spec_step_fuel (u : Char → List Char) (hup : UpperFixes (upOf u)) (fuel : Nat) (t : Node)
    (hwf : TreeWf (upOf u) t) (hsz : t.All (Sized fuel)) (op : Spec.Op) (stamp : List Nat)
    (hok : OpOk (upOf u) t op) :
    Spec.step (cfgOf u) (abs t) op (obsOf (stepSlot (upOf u) fuel t op stamp)) =
      .ok (abs (stepSlot (upOf u) fuel t op stamp).tree) :=
  slot_step_spec_step u fuel t hwf op stamp hok (no_hang_of_fuel hup fuel t hsz op stamp)

/-- the ASCII build's folding (and any folding that fixes `A–Z 0–9` and the short-name punctuation) qualifies -/
theorem upOf_ascii_fixes : UpperFixes (upOf Names.upperAscii) := by
  intro y hy
  have key : ∀ y < 128, (y ∈ Names.legalSfnBytes ∨ y = 46) →
      upOf Names.upperAscii (Char.ofNat y) = [Char.ofNat y] := by
    rw [Names.legalSfnBytes_eq]; decide +kernel
  have hy128 : y < 128 := by
    rcases hy with h | h
    · exact legal_lt_128 y h
    · omega
  exact key y hy128 hy

/-! ## non-vacuity -/

namespace Ex
def up0 : Char → List Char := upOf Names.upperAscii
def stamp0 : List Nat := List.replicate 20 0
def aliasSub : List Nat := "SUB        ".toList.map Char.toNat
def aliasHello : List Nat := "HELLOW~1TXT".toList.map Char.toNat
def sfnHello : List Nat := sfnWith aliasHello (newBody false stamp0)
def sfnSub : List Nat := sfnWith aliasSub (newBody true stamp0)
/-- the directory `sub`: one long-named file (two long-name slots + the short slot `HELLOW~1.TXT`) -/
def sub0 : Node := addEntry (Names.encodeUtf16 "Hello World.txt".toList) sfnHello (.file []) (.dir [] [])
/-- the root: one entry, the directory `sub` -/
def root0 : Node := addEntry (Names.encodeUtf16 "sub".toList) sfnSub sub0 (.dir [] [])

theorem sub0_wf : TreeWf up0 sub0 := by
  have hchk : checkForExistenceL up0 [] "Hello World.txt" (some false) 20 = .ok (.alias aliasHello) := by
    decide +kernel
  exact (add_success Names.upperAscii (.dir [] []) (treeWf_fresh _ true) [] trivial [] [] rfl "Hello World.txt"
    sfnHello (.file []) rfl
    (C16dir.dir_create_wf up0 [] "Hello World.txt" (some false) 20 aliasHello 0 stamp0 (dirWf_nil _) rfl (by decide) hchk)
    (by decide +kernel) (by decide +kernel) (all_file _ _)).1

/-- a concrete 2-level tree with a long-named file is well-formed -/
theorem root0_wf : TreeWf up0 root0 := by
  have hchk : checkForExistenceL up0 [] "sub" (some true) 20 = .ok (.alias aliasSub) := by decide +kernel
  exact (add_success Names.upperAscii (.dir [] []) (treeWf_fresh _ true) [] trivial [] [] rfl "sub"
    sfnSub sub0 rfl
    (C16dir.dir_create_wf up0 [] "sub" (some true) 20 aliasSub 16 stamp0 (dirWf_nil _) rfl (by decide) hchk)
    (by decide +kernel) (by decide +kernel) sub0_wf).1

/-- its abstraction: `/sub/Hello World.txt` (empty file) -/
example : (abs root0).children.map (·.1) = ["sub"] ∧
    ((abs root0).children.map fun x => x.2.children.map fun y => (y.1, y.2.isDir, y.2.size)) =
      [[("Hello World.txt", false, 0)]] := by decide +kernel

/-- the model builds exactly this tree (slots and names) from the empty volume -/
example :
    (runSlot up0 20 (.dir [] []) [(.createDir [] "sub", stamp0), (.createFile [] "sub/Hello World.txt", stamp0)]).2 =
      root0 := rfl

/-- the hypotheses on a call (`OpOk`) are met by concrete calls on this tree, given the string fact `SplitAgree` -/
example (h : SplitAgree "sub/hello world.TXT") : OpOk up0 root0 (.openFile [] "sub/hello world.TXT") := by
  have hp : pathParts "sub/hello world.TXT" = (["sub"], "hello world.TXT") := by decide +kernel
  have hl1 : listing (writeEntry [] (Names.encodeUtf16 "sub".toList) sfnSub) =
      [newEntry [] (Names.encodeUtf16 "sub".toList) sfnSub] := by decide +kernel
  have hl2 : listing (writeEntry [] (Names.encodeUtf16 "Hello World.txt".toList) sfnHello) =
      [newEntry [] (Names.encodeUtf16 "Hello World.txt".toList) sfnHello] := by decide +kernel
  have hq : ∀ q : String,
      (∀ e ∈ [newEntry [] (Names.encodeUtf16 "sub".toList) sfnSub], matchesName up0 e q.toList = true →
        Names.fold up0 (entryNameL e) = Names.fold up0 q.toList ∧ Names.validateLongName q = .ok () ∧
          isDotName q = false) →
      (∀ e ∈ [newEntry [] (Names.encodeUtf16 "Hello World.txt".toList) sfnHello], matchesName up0 e q.toList = true →
        Names.fold up0 (entryNameL e) = Names.fold up0 q.toList ∧ Names.validateLongName q = .ok () ∧
          isDotName q = false) → QAll up0 root0 q := by
    intro q h1 h2
    have hshape : Shape ([] : List (List Nat)) := (dirWf_nil up0).shape
    have ad1 := addEntry_dir hshape (Names.encodeUtf16 "sub".toList) sfnSub sub0 [] (by decide) (by decide)
      (by decide) (by decide) (by decide +kernel)
    have ad2 := addEntry_dir hshape (Names.encodeUtf16 "Hello World.txt".toList) sfnHello (.file []) [] (by decide)
      (by decide) (by decide) (by decide) (by decide +kernel)
    unfold QAll root0
    rw [ad1, all_dir]
    refine ⟨by unfold QHit; rw [hl1]; exact h1, ?_⟩
    intro x hx
    simp only [List.nil_append, List.mem_singleton] at hx
    rw [hx]
    unfold sub0
    rw [ad2, all_dir]
    refine ⟨by unfold QHit; rw [hl2]; exact h2, ?_⟩
    intro y hy
    simp only [List.nil_append, List.mem_singleton] at hy
    rw [hy]; exact all_file _ _
  refine ⟨⟨trivial, _, _, rfl⟩, h, ?_, ?_⟩
  · rw [hp]
    intro q hq'
    simp only [List.mem_singleton] at hq'
    subst hq'
    apply hq
    · simp only [List.mem_singleton, forall_eq]; decide +kernel
    · simp only [List.mem_singleton, forall_eq]; decide +kernel
  · rw [hp]
    apply hq
    · simp only [List.mem_singleton, forall_eq]; decide +kernel
    · simp only [List.mem_singleton, forall_eq]; decide +kernel

/-- a concrete 4-call history evaluated: `create_dir sub`, `create_file "sub/Hello World.txt"`, a move to the root
    found under another case, `remove sub` (now empty) — all succeed, the final tree is `/moved.txt` -/
def ops4 : List (Spec.Op × List Nat) :=
  [(.createDir [] "sub", stamp0), (.createFile [] "sub/Hello World.txt", stamp0),
   (.rename [] "sub/hello world.TXT" [] "moved.txt", stamp0), (.remove [] "sub", stamp0)]

example : ((runSlot up0 20 (.dir [] []) ops4).1.map fun r => r.out) = [.ok [], .ok [], .ok [], .ok []] ∧
    ((abs (runSlot up0 20 (.dir [] []) ops4).2).children.map fun x => (x.1, x.2.isDir)) = [("moved.txt", false)] := by
  decide +kernel

/-- error kinds on the same tree: a directory into its own subtree, a non-empty directory, `..` as a target, a file
    used as a directory, an invalid new name (nothing changes) -/
example : ((runSlot up0 20 root0
      [(.rename [] "sub" ["sub"] "inner", stamp0), (.remove [] "sub", stamp0), (.remove ["sub"] "..", stamp0),
       (.openDir [] "sub/Hello World.txt/x", stamp0), (.rename [] "sub" [] "a:b", stamp0),
       (.createDir ["sub"] ".", stamp0), (.createDir [] ".", stamp0), (.openFile [] "sub/HELLOW~1.TXT", stamp0)]).1.map
      fun r => r.out) =
    [.error .invalidInput, .error .dirNotEmpty, .error .invalidInput, .error .invalidInput, .error .nameChar,
     .ok [], .error .invalidInput, .ok []] := by
  decide +kernel

end Ex

/-! ## the same with the name invariant factored out of the hypotheses on a call

`OpOk` asks of every path component `q`: "whatever answers to `q` answers by its name, and `q` is then an ordinary
valid name".  The second half follows from an invariant (`TNamesOk (abs t)`: all stored names are valid and not dot
names — true of the empty volume, preserved by every call) and a hypothesis on the case folding (`UpperSafe`, proved
for the ASCII build: `upperSafe_ascii`).  What remains as hypothesis on the call (`OpOkA`) is: the handle is live,
`SplitAgree`, and NO COMPONENT ANSWERS TO AN 8.3 ALIAS ONLY (`NoAliasHit`) — the one place where the library is not the
plain tree of the specification. -/

def PathOkA (up : Char → List Char) (t : Node) (path : String) : Prop :=
  SplitAgree path ∧ (∀ q ∈ (pathParts path).1, NoAliasHit up t q) ∧ NoAliasHit up t (pathParts path).2

def OpOkA (up : Char → List Char) (t : Node) : Spec.Op → Prop
  | .createFile cwd p => CwdOk up t cwd ∧ PathOkA up t p
  | .createDir cwd p => CwdOk up t cwd ∧ PathOkA up t p
  | .openFile cwd p => CwdOk up t cwd ∧ PathOkA up t p
  | .openDir cwd p => CwdOk up t cwd ∧ PathOkA up t p
  | .list cwd => CwdOk up t cwd
  | .remove cwd p => CwdOk up t cwd ∧ PathOkA up t p
  | .rename cwd s d p => CwdOk up t cwd ∧ PathOkA up t s ∧ CwdOk up t d ∧ PathOkA up t p

theorem pathOk_of (up : Char → List Char) (hup : UpperSafe up) (t : Node) (hwf : TreeWf up t)
    (hn : TNamesOk (abs t)) (path : String) (h : PathOkA up t path) : PathOk up t path :=
  ⟨h.1, fun q hq => qall_of up hup t hwf hn q (h.2.1 q hq), qall_of up hup t hwf hn _ h.2.2⟩

theorem opOk_of (up : Char → List Char) (hup : UpperSafe up) (t : Node) (hwf : TreeWf up t)
    (hn : TNamesOk (abs t)) (op : Spec.Op) (h : OpOkA up t op) : OpOk up t op := by
  cases op with
  | createFile cwd p => exact ⟨h.1, pathOk_of up hup t hwf hn p h.2⟩
  | createDir cwd p => exact ⟨h.1, pathOk_of up hup t hwf hn p h.2⟩
  | openFile cwd p => exact ⟨h.1, pathOk_of up hup t hwf hn p h.2⟩
  | openDir cwd p => exact ⟨h.1, pathOk_of up hup t hwf hn p h.2⟩
  | list cwd => exact h
  | remove cwd p => exact ⟨h.1, pathOk_of up hup t hwf hn p h.2⟩
  | rename cwd s d p =>
    exact ⟨h.1, pathOk_of up hup t hwf hn s h.2.1, h.2.2.1, pathOk_of up hup t hwf hn p h.2.2.2⟩

/-- **one call, invariant form**: `slot_step_refines` under `OpOkA`, and the name invariant holds again -/
theorem slot_step_refines_inv (u : Char → List Char) (hup : UpperSafe (upOf u)) (fuel : Nat) (t : Node)
    (hwf : TreeWf (upOf u) t) (hn : TNamesOk (abs t)) (op : Spec.Op) (stamp : List Nat)
    (hok : OpOkA (upOf u) t op) :
    TreeWf (upOf u) (stepSlot (upOf u) fuel t op stamp).tree ∧
    TNamesOk (abs (stepSlot (upOf u) fuel t op stamp).tree) ∧
    (∀ e, (stepSlot (upOf u) fuel t op stamp).out = .error e → (stepSlot (upOf u) fuel t op stamp).tree = t) ∧
    Accepts (Spec.evalOp (cfgOf u) (abs t) op) (stepSlot (upOf u) fuel t op stamp) := by
  obtain ⟨h1, h2, h3⟩ := slot_step_refines u fuel t hwf op stamp (opOk_of _ hup t hwf hn op hok)
  refine ⟨h1, ?_, h2, h3⟩
  cases hout : (stepSlot (upOf u) fuel t op stamp).out with
  | error e => rw [h2 e hout]; exact hn
  | ok rows =>
    unfold Accepts at h3
    rw [hout] at h3
    rw [← h3.2]
    exact tnames_evalOp u (abs t) hn op

def RunOkA (up : Char → List Char) (fuel : Nat) : Node → List (Spec.Op × List Nat) → Prop
  | _, [] => True
  | t, (op, stamp) :: rest => OpOkA up t op ∧ RunOkA up fuel (stepSlot up fuel t op stamp).tree rest

/-- **C01.6 `slot_tree_refines_spec`, invariant form**: from a well-formed slot tree whose stored names are ordinary
    valid names (e.g. the empty volume), for every finite history in which the handles are live, the path strings
    split alike and no path component answers to an 8.3 alias only: the specification's checker accepts every outcome
    in turn and ends in the abstraction of the final slot tree; well-formedness and the name invariant hold again. -/
theorem slot_tree_refines_spec_inv (u : Char → List Char) (hup : UpperSafe (upOf u)) (fuel : Nat) :
    ∀ (ops : List (Spec.Op × List Nat)) (t : Node), TreeWf (upOf u) t → TNamesOk (abs t) →
    RunOkA (upOf u) fuel t ops →
    (∀ r ∈ (runSlot (upOf u) fuel t ops).1, r.out ≠ .error .hang) →
    TreeWf (upOf u) (runSlot (upOf u) fuel t ops).2 ∧ TNamesOk (abs (runSlot (upOf u) fuel t ops).2) ∧
    specRun (cfgOf u) (abs t) (observed (upOf u) fuel t ops) = .ok (abs (runSlot (upOf u) fuel t ops).2)
  | [], t, hwf, hn, _, _ => ⟨hwf, hn, rfl⟩
  | (op, stamp) :: rest, t, hwf, hn, hrun, hnh => by
    obtain ⟨hok, hrest⟩ := hrun
    have hok' := opOk_of _ hup t hwf hn op hok
    have hstep := slot_step_spec_step u fuel t hwf op stamp hok' (hnh _ (by simp [runSlot]))
    obtain ⟨hwf', hn', _, _⟩ := slot_step_refines_inv u hup fuel t hwf hn op stamp hok
    obtain ⟨i1, i2, i3⟩ := slot_tree_refines_spec_inv u hup fuel rest _ hwf' hn' hrest
      (fun r hr => hnh r (by simp only [runSlot, List.mem_cons]; exact Or.inr hr))
    refine ⟨i1, i2, ?_⟩
    simp only [observed, specRun, hstep, runSlot]
    exact i3

/-- the empty volume satisfies both invariants; the ASCII folding satisfies both hypotheses on the folding -/
example : TreeWf (upOf Names.upperAscii) (.dir [] []) ∧ TNamesOk (abs (.dir [] [])) ∧
    UpperSafe (upOf Names.upperAscii) ∧ UpperFixes (upOf Names.upperAscii) :=
  ⟨treeWf_fresh _ true, by simp [abs, absCh, TNamesOk, tChOk], upperSafe_ascii, upOf_ascii_fixes⟩

/-- why alias-freeness cannot be dropped: in the directory `sub` of `Ex.root0` the query `HELLOW~1.TXT` finds the
    entry `Hello World.txt` in the slots (the library opens the file), the specification's lookup among the names
    finds nothing (`NotFound`) -/
theorem alias_query_counterexample :
    (lookupS (upOf Names.upperAscii) (writeEntry [] (Names.encodeUtf16 "Hello World.txt".toList) Ex.sfnHello)
      [(newEntry [] (Names.encodeUtf16 "Hello World.txt".toList) Ex.sfnHello, Node.file [])] "HELLOW~1.TXT").isSome = true ∧
    (Spec.findEntry (cfgOf Names.upperAscii) (abs Ex.sub0) "HELLOW~1.TXT").isNone = true ∧
    (Spec.findEntry (cfgOf Names.upperAscii) (abs Ex.sub0) "hello world.TXT").isSome = true := by
  decide +kernel

/-! ## `SplitAgree` on samples (evaluation, not proof) -/

def splitAgreeB (path : String) : Bool :=
  ((pathParts path).2 == "" && (pathParts path).1.isEmpty && (Spec.splitPath path).isEmpty) ||
  ((pathParts path).2 != "" && Spec.splitPath path == (pathParts path).1 ++ [(pathParts path).2])

#guard ["", "/", "//", "a", "/a", "a/", "a/b", "a//b", "/a/b/", "a/./b", "../x", "sub/Hello World.txt", "a/b/c/d/e",
  "//a///b//", "ä/ö", ".", "..", "a/ /b"].all splitAgreeB

end C01tree
end FatVerif
