import FatVerif.Proofs.FsCountSession
import FatVerif.Props.C03fat
/-!
# C05 items 2, 3, 5 — free-space accounting of `fs.rs` (`FsCount` machine over the decoded FAT view)

`CountOk s`  : a cached free count is the number of free entries of `[2,total+2)`.
`HintOk s`   : a hint is in `[2, total+2]` (what mount guarantees); `HintStrict s`: in `[2, total+1]` (after any alloc).
`Inv s`      : `FatWf` (disjoint acyclic in-range chains) ∧ `CountOk` ∧ `HintOk`.
`OpOk s op`  : the conditions under which `file.rs`/`dir.rs` call the operation (`prev` is the EOC tail of a chain,
               `free` gets a chain head, `truncate` an allocated cluster, a count found on a clean FAT32 volume is
               correct).
-/
namespace FatVerif.C05count
open FatVerif.Fat FatVerif.FsCount

/-! ## (1) free_count_inv -/

/-- mount establishes the invariant from any structurally sound table when the on-disk count is absent
    (0xFFFFFFFF / not FAT32), discarded (dirty volume, or `> total`), or correct. The last is a hypothesis: the library
    documents that a wrong foreign FS-info count is reported as is. -/
theorem mount_establishes (s : FsCountState) (d : Bool) (rf rn : Nat) (hw : FatWf s.fat s.total)
    (hdisk : d = false → s.fat32 = true → ∀ n, (deserializeInfo rf rn).free = some n → n ≤ s.total →
      n = countFreeV s.fat s.total) :
    Inv { s with info := mountInfo s.fat32 d s.total (deserializeInfo rf rn) } :=
  ⟨hw, mount_countOk s d rf rn hdisk, mount_hintOk s d rf rn⟩

/-- a dirty volume never trusts the stored count; nor does a FAT12/16 volume -/
theorem mount_dirty_forgets (fat32 : Bool) (total : Nat) (disk : Info) :
    (mountInfo fat32 true total disk).free = none ∧ (mountInfo false false total disk).free = none :=
  ⟨rfl, rfl⟩

/-- `stats`: lazy recount, afterwards cached; the answer is exact -/
theorem stats_preserves (s : FsCountState) (h : CountOk s) :
    CountOk (statsOp s).1 ∧ (statsOp s).2 = countFreeV s.fat s.total ∧ (statsOp s).1.info.free = some (statsOp s).2 :=
  ⟨statsOp_countOk s h, statsOp_value s h, statsOp_cached s⟩

/-- `alloc`: cached count − 1 (only if cached); the table's free count drops by exactly one; the checked
    subtraction cannot panic -/
theorem alloc_preserves (s s' : FsCountState) (prev : Option Nat) (c : Nat) (hc : CountOk s) (hh : HintOk s)
    (hp : ∀ p, prev = some p → s.fat p ≠ .free) (h : allocOp s prev = .ok (s', c)) :
    CountOk s' ∧ countFreeV s'.fat s'.total + 1 = countFreeV s.fat s.total ∧ s'.info.free = s.info.free.map (· - 1) :=
  ⟨(allocOp_countOk hc (fun n hn => (hh n hn).1) hp h).1, (allocOp_countOk hc (fun n hn => (hh n hn).1) hp h).2,
   (allocOp_ok h).2.2.2.2.2.1⟩

theorem alloc_no_underflow (s : FsCountState) (prev : Option Nat) (hc : CountOk s) (hh : HintOk s) :
    allocOp s prev ≠ .error .panic :=
  allocOp_no_panic s prev hc (fun n hn => (hh n hn).1)

/-- without the invariant the subtraction does panic: cached count 0 although cluster 2 is free -/
theorem alloc_underflow_counterexample :
    allocOp ⟨fun _ => .free, 1, true, { free := some 0 }⟩ none = .error .panic := rfl

/-- **free_count_inv**: every operation, invoked as the library invokes it, preserves
    `FatWf ∧ CountOk ∧ HintOk` (and the geometry) -/
theorem free_count_inv (s s' : FsCountState) (op : Op) (out : Out) (hi : Inv s) (hok : OpOk s op)
    (h : step s op = .ok (s', out)) : Inv s' ∧ s'.total = s.total ∧ s'.fat32 = s.fat32 :=
  inv_step hi hok h

/-- … hence along any operation list … -/
theorem free_count_inv_run (ops : List Op) (s s' : FsCountState) (hi : Inv s) (hall : AllOk s ops)
    (h : runOps s ops = .ok s') : Inv s' ∧ s'.total = s.total :=
  inv_runOps ops s s' hi hall h

/-- **stats_exact**: in every reachable state `stats` returns the number of free entries of the table -/
theorem stats_exact (ops : List Op) (s s' : FsCountState) (hi : Inv s) (hall : AllOk s ops)
    (h : runOps s ops = .ok s') : (statsOp s').2 = countFreeV s'.fat s'.total :=
  statsOp_value s' (inv_runOps ops s s' hi hall h).1.2.1

/-- FAT16 example table of `C03fat` (chains 2→3, 5→7; 4 and 6 free), freshly mounted FAT16: nothing cached -/
def exState : FsCountState := ⟨view .fat16 C03fat.exTab, 6, false, {}⟩

theorem exState_inv : Inv exState :=
  ⟨C03fat.exTab_wf, fun n h => (by cases h), fun n h => (by cases h)⟩

/-- stats, grow the chain ending at 7 by one cluster, stats, free the chain 2→3, stats: the side conditions hold … -/
example : OpOk exState (.alloc (some 7)) ∧ (step exState .stats).toOption.map (·.2) = some (.num 2) ∧
    (runOps exState [.stats, .alloc (some 7), .free 2]).toOption.map (fun s => (statsOp s).2) = some 3 :=
  ⟨fun p h => by cases h; rfl, rfl, rfl⟩

/-! ## (2) hint_in_range -/

/-- after mount (`deserialize` maps 0/1/0xFFFFFFFF to None, `validate_and_fix` drops `> total+2`) the hint, if
    present, is in `[2, total+2]`; `total+2` itself — one past the last cluster — IS accepted from disk -/
theorem hint_in_range_mount (s : FsCountState) (d : Bool) (rf rn : Nat) :
    HintOk { s with info := mountInfo s.fat32 d s.total (deserializeInfo rf rn) } :=
  mount_hintOk s d rf rn

example : (mountInfo true false 10 (deserializeInfo 5 12)).next = some 12 ∧
    (mountInfo true false 10 (deserializeInfo 5 13)).next = none ∧
    (mountInfo true false 10 (deserializeInfo 5 1)).next = none := ⟨rfl, rfl, rfl⟩

/-- after every successful alloc the hint is present and names a valid cluster: `2 ≤ h ≤ total+1`
    (F13 repaired: `cluster+1` only if `< total+2`, else 2) -/
theorem hint_in_range_alloc (s s' : FsCountState) (prev : Option Nat) (c : Nat) (hh : HintOk s)
    (h : allocOp s prev = .ok (s', c)) :
    HintStrict s' ∧ s'.info.next = some (nextHint s.total c) ∧ 2 ≤ c ∧ c < s.total + 2 :=
  ⟨(allocOp_hintStrict (fun n hn => (hh n hn).1) h).1, (allocOp_ok h).2.2.2.2.1,
   (allocOp_hintStrict (fun n hn => (hh n hn).1) h).2.1, (allocOp_hintStrict (fun n hn => (hh n hn).1) h).2.2.1⟩

/-- allocating the last cluster wraps the hint to 2 -/
example : nextHint 6 7 = 2 ∧ nextHint 6 6 = 7 := ⟨rfl, rfl⟩

/-- **hint_ge_2 discharged**: in every state satisfying `HintOk` (all reachable ones, `free_count_inv`) the hint
    handed to `table.rs::alloc_cluster` meets the hypothesis of `C03fat.alloc_wraparound` / `alloc_spec`; so at the
    byte level the allocation succeeds iff a free cluster exists and returns a free cluster of `[2,total+2)`. -/
theorem hint_ge_2 (s : FsCountState) (hh : HintOk s) : ∀ n, s.info.next = some n → 2 ≤ n :=
  fun n hn => (hh n hn).1

theorem alloc_with_fs_hint (ft : FatType) (f : Array Nat) (s : FsCountState) (ht : TableOk ft f s.total)
    (hh : HintOk s) (prev : Option Nat) (hp : ∀ p, prev = some p → p < s.total + 2) :
    ((∃ c, (allocCluster f ft prev s.info.next s.total).out = .ok c) ↔
        ∃ i, 2 ≤ i ∧ i < s.total + 2 ∧ view ft f i = .free) ∧
    (∀ c, (allocCluster f ft prev s.info.next s.total).out = .ok c → 2 ≤ c ∧ c < s.total + 2 ∧ view ft f c = .free) :=
  ⟨(C03fat.alloc_wraparound ft f s.total ht prev s.info.next (hint_ge_2 s hh) hp).1,
   (C03fat.alloc_wraparound ft f s.total ht prev s.info.next (hint_ge_2 s hh) hp).2.1⟩

/-! ## (3) fsinfo_written -/

/-- whatever `flush_fs_info` writes: only on FAT32 and only if something changed; the count is absent or exact; the
    hint is absent or in `[2, total+2]` -/
theorem fsinfo_written (s : FsCountState) (hc : CountOk s) (hh : HintOk s) (w : Option Nat × Option Nat)
    (h : unmountInfo s = some w) :
    s.fat32 = true ∧ (∀ n, w.1 = some n → n = countFreeV s.fat s.total) ∧
    (∀ x, w.2 = some x → 2 ≤ x ∧ x ≤ s.total + 2) := by
  unfold unmountInfo at h
  split at h
  · rename_i hcond; cases h; exact ⟨hcond.1, hc, hh⟩
  · cases h

/-- after `stats` the count that will be written is present and exact -/
theorem fsinfo_written_count (s : FsCountState) (hc : CountOk s) (h32 : s.fat32 = true) :
    ∃ nx, unmountInfo (statsOp s).1 = some (some (countFreeV s.fat s.total), nx) ∨
      (unmountInfo (statsOp s).1 = none ∧ s.info.dirty = false ∧ s.info.free = some (countFreeV s.fat s.total)) := by
  refine ⟨s.info.next, ?_⟩
  cases hf : s.info.free with
  | none => left; simp [statsOp, unmountInfo, hf, h32]
  | some n =>
    have hn := hc n hf
    subst hn
    cases hd : s.info.dirty with
    | true => left; simp [statsOp, unmountInfo, hf, h32, hd]
    | false => right; exact ⟨by simp [statsOp, unmountInfo, hf, hd], rfl, rfl⟩

/-- if at least one alloc happened in the session (followed by any stats/alloc/free/truncate calls), unmount of a
    FAT32 volume writes a hint that names a valid cluster: `2 ≤ h ≤ total+1` … -/
theorem fsinfo_written_hint (s0 s1 s' : FsCountState) (prev : Option Nat) (c : Nat) (ops : List Op) (hh : HintOk s0)
    (ha : allocOp s0 prev = .ok (s1, c)) (hops : ∀ op, op ∈ ops → isSessionOp op = true)
    (hr : runOps s1 ops = .ok s') (h32 : s'.fat32 = true) :
    ∃ fr x, unmountInfo s' = some (fr, some x) ∧ 2 ≤ x ∧ x ≤ s'.total + 1 := by
  obtain ⟨⟨hs, hn, hd⟩, _, _⟩ := afterAlloc_runOps ops s1 s' (afterAlloc_of_alloc (hint_ge_2 s0 hh) ha) hops hr
  cases hx : s'.info.next with
  | none => rw [hx] at hn; cases hn
  | some x =>
    refine ⟨s'.info.free, x, ?_, hs x hx⟩
    unfold unmountInfo
    rw [if_pos ⟨h32, hd⟩, hx]

/-- … and otherwise the hint keeps its mount-time value -/
theorem fsinfo_written_hint_unchanged (s s' : FsCountState) (ops : List Op)
    (hops : ∀ op, op ∈ ops → isNonAllocOp op = true) (hr : runOps s ops = .ok s') : s'.info.next = s.info.next :=
  next_unchanged_runOps ops s s' hops hr

/-- FAT32 flavour of the example: mount with count 2 and hint 8 (= total+2, accepted), allocate, unmount -/
def exState32 : FsCountState := { exState with fat32 := true }

example : (step exState32 (.mount false 2 8)).toOption.map (·.1.info) = some ⟨some 2, some 8, false⟩ ∧
    (runOps exState32 [.mount false 2 8, .alloc none]).toOption.map unmountInfo = some (some (some 1, some 5)) ∧
    (runOps exState32 [.mount false 2 8, .stats]).toOption.map unmountInfo = some none :=
  ⟨rfl, rfl, rfl⟩

/-! ## (4) fill_delete_cycle -/

/-- allocating `k ≥ 1` clusters into one new chain (each hung on the previous one) and then freeing that chain gives
    back the very same table — entry by entry —, hence the same free count; in between the count is exactly `k` lower;
    `CountOk` holds throughout. No capacity is lost by fill/delete cycles. -/
theorem fill_delete_cycle (k : Nat) (s s2 : FsCountState) (cs : List Nat) (hk : 0 < k) (hh : HintOk s)
    (h : allocMany k s none = .ok (s2, cs)) :
    ∃ c r s3, cs = c :: r ∧ cs.length = k ∧ freeOp s2 c = .ok s3 ∧ (∀ i, s3.fat i = s.fat i) ∧ s3.total = s.total ∧
      countFreeV s3.fat s3.total = countFreeV s.fat s.total ∧
      countFreeV s2.fat s2.total + k = countFreeV s.fat s.total ∧ (CountOk s → CountOk s2 ∧ CountOk s3) :=
  fill_delete k s s2 cs hk (hint_ge_2 s hh) h

/-- the cached count itself returns to its old value -/
theorem fill_delete_cycle_count (k : Nat) (s s2 : FsCountState) (cs : List Nat) (hk : 0 < k) (hh : HintOk s)
    (hc : CountOk s) (h : allocMany k s none = .ok (s2, cs)) (n : Nat) (hn : s.info.free = some n) :
    ∃ c r s3, cs = c :: r ∧ freeOp s2 c = .ok s3 ∧ s3.info.free = some n := by
  obtain ⟨c, r, s3, e1, e2, e3, e4, e5, e6, e7, e8⟩ := fill_delete_cycle k s s2 cs hk hh h
  refine ⟨c, r, s3, e1, e3, ?_⟩
  obtain ⟨n', hi, _, _⟩ := freeOp_info e3
  have hc3 := (e8 hc).2
  -- the count stays cached through alloc and free, and `CountOk` pins its value
  have h2 : s2.info.free.isSome = true := by rw [allocMany_free_isSome k s none s2 cs h, hn]; rfl
  cases hm : s2.info.free with
  | none => rw [hm] at h2; cases h2
  | some m =>
    have h3 : s3.info.free = some (m + n') := by rw [hi, mapFree_free, hm]; rfl
    have := hc3 (m + n') h3
    have hn' := hc n hn
    rw [h3]; congr 1; omega

/-- two clusters into a new chain on the example table: clusters 4 and 6, count 2 → 0, freeing the chain gives 2 back -/
example : (allocMany 2 exState none).toOption.map (·.2) = some [4, 6] ∧ HintOk exState ∧
    (allocMany 2 exState none).toOption.map (fun r => countFreeV r.1.fat r.1.total) = some 0 ∧
    countFreeV exState.fat exState.total = 2 :=
  ⟨rfl, exState_inv.2.2, rfl, rfl⟩

/-! ## runtime tie -/

/-- `checkStep` accepts exactly what the machine does: the machine's own successor passes, a wrong observed `stats`
    value or a stale cached count is reported -/
example : checkStep exState (statsOp exState).1 .stats (some (.num 2)) = none ∧
    (checkStep exState (statsOp exState).1 .stats (some (.num 3))).isSome = true ∧
    (checkStep exState { exState with info := { free := some 5, dirty := true } } .stats).isSome = true :=
  ⟨rfl, rfl, rfl⟩

end FatVerif.C05count
