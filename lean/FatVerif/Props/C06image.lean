import FatVerif.Proofs.FormatImage11
import FatVerif.Model.FatView
import FatVerif.Proofs.DirEntry
/-!
# C06 (image part, DESIGN §6 C06.5–6) — what `format_volume` writes

Model: `formatVolume` (`Model/Fs.lean`), the effectful program validated call-exactly against the library.
All statements are about the device WRITE LOG (`Dev.log`) of a successful run and its replay
`Dev.bytes g d' = replay g d'.log` over ARBITRARY previous contents `g` (the device need not be zero before
formatting; that `Img.write` realises `applyRec` on the sparse page image is not proved anywhere, see `Props/C10slice`).

Standing hypotheses `FormatRun o d d'`: the request is accepted by the builder (`Accepted`, `InRange`), the run
succeeded, `total_sectors < 2^32`, and the device has at least `total_sectors * bytes_per_sector` bytes.
That the run DOES succeed on a fault-free device is not claimed here: it depends on what `alloc_cluster` reads back.
-/
namespace FatVerif.C06image
open FatVerif FatVerif.Format

/-! ## (5) `format_no_other_writes` -/

/-- the byte regions `format_volume` may write to -/
def FmtRegion (boot : FBoot) (ft : FatType) (off : Nat) (bs : List Nat) : Prop :=
  -- boot sector
  off + bs.length ≤ boot.bpb.bps ∨
  -- FAT32 backup boot sector (sector 6) and FS-info sector (sector 1)
  (ft = .fat32 ∧ 6 * boot.bpb.bps ≤ off ∧ off + bs.length ≤ 7 * boot.bpb.bps) ∨
  (ft = .fat32 ∧ boot.bpb.bps ≤ off ∧ off + bs.length ≤ 2 * boot.bpb.bps) ∨
  -- all FAT copies
  (boot.bpb.reserved * boot.bpb.bps ≤ off ∧
    off + bs.length ≤ (boot.bpb.reserved + boot.bpb.fats * boot.bpb.sectorsPerFat) * boot.bpb.bps) ∨
  -- root directory: the fixed region (FAT12/16) or the first data cluster (FAT32)
  ((boot.bpb.reserved + boot.bpb.fats * boot.bpb.sectorsPerFat) * boot.bpb.bps ≤ off ∧
    off + bs.length ≤ (boot.bpb.reserved + boot.bpb.fats * boot.bpb.sectorsPerFat) * boot.bpb.bps +
      (if ft = .fat32 then boot.bpb.spc else boot.bpb.rootDirSectors) * boot.bpb.bps)

theorem labelSpec_within {o : FormatOpts} {p : Nat} {L : List LogItem} (h : labelSpec o p L) :
    Within p (p + 32) L := by
  unfold labelSpec at h
  split at h
  · have := h.within
    refine this.mono (Nat.le_refl _) ?_
    rw [List.length_take]; omega
  · rw [h]; exact Within.nil _ _

/-- every write record of a successful `format_volume` lies in the boot sector, the FAT32 backup boot sector, the
    FS-info sector, the FAT copies or the root directory region; the device position ends at 0 -/
theorem format_no_other_writes (o : FormatOpts) (d d' : Dev) (h : FormatRun o d d') :
    ∃ boot ft, formatChecked o (fmtTotal o d) = .ok (boot, ft) ∧ LogAll (FmtRegion boot ft) d d' ∧ d'.pos = 0 := by
  obtain ⟨boot, ft, Lb, Lk, Lz, Lf, Lr, Lt, hf⟩ := h.facts
  refine ⟨boot, ft, hf.checked, ?_, hf.pos⟩
  obtain ⟨items, hitems⟩ := run_logExtends _ _ _ _ h.ok
  refine ⟨items, hitems, ?_⟩
  intro off bs hm
  -- the record is one of the classified ones
  have hw : LogItem.write off bs ∈ Lt ++ (Lr ++ (Lf ++ (Lz ++ (Lk ++ Lb)))) := by
    have h1 : d'.writesOf = items.filter LogItem.isWrite ++ d.writesOf := by
      unfold Dev.writesOf; rw [hitems, List.filter_append]
    have h2 := hf.writes
    rw [h1] at h2
    have h3 : items.filter LogItem.isWrite = Lt ++ (Lr ++ (Lf ++ (Lz ++ (Lk ++ Lb)))) := by
      apply List.append_cancel_right (bs := d.writesOf)
      rw [h2]; simp [List.append_assoc]
    rw [← h3]
    exact List.mem_filter.mpr ⟨hm, rfl⟩
  have R := hf.regions
  have hg := hf.geom
  have hB := hg.bps_ge
  simp only [List.mem_append] at hw
  unfold FmtRegion
  rcases hw with hw | hw | hw | hw | hw | hw
  · -- tail
    rcases R.tail with ⟨h32, La, Lc, Li, Ll, hLt, hWa, hTc, ⟨tc, _, hTi⟩, hll, _⟩ | ⟨h32, hll⟩
    · rw [hLt] at hw
      simp only [List.mem_append] at hw
      rcases hw with hw | hw | hw | hw
      · have := labelSpec_within hll _ _ hw
        have hs : 1 ≤ boot.bpb.spc := by
          have := hg.spc_mem; simp only [List.mem_cons, List.mem_nil_iff, or_false] at this; omega
        have : 512 ≤ boot.bpb.spc * boot.bpb.bps := Nat.le_trans hB (Nat.le_mul_of_pos_left _ hs)
        right; right; right; right
        rw [if_pos h32]; omega
      · have := hTi.within _ _ hw
        rw [List.length_append, List.length_replicate, List.length_take, fsInfoBytes_len] at this
        right; right; left
        exact ⟨h32, by omega, by omega⟩
      · have := hTc.within _ _ hw
        rw [List.length_replicate] at this
        right; right; right; right
        rw [if_pos h32]; exact this
      · right; right; right; left; exact hWa _ _ hw
    · have := labelSpec_within hll _ _ hw
      right; right; right; right
      rw [if_neg h32]
      have h1 : 1 ≤ boot.bpb.rootDirSectors := hg.rds1 h32
      have : 512 ≤ boot.bpb.rootDirSectors * boot.bpb.bps := Nat.le_trans hB (Nat.le_mul_of_pos_left _ h1)
      omega
  · have := R.rootZero _ _ hw
    right; right; right; right
    by_cases h32 : ft = .fat32
    · rw [if_pos h32]; rw [hg.rds32 h32] at this; omega
    · rw [if_neg h32]; exact this
  · right; right; right; left; exact R.fmt _ _ hw
  · right; right; right; left; exact R.fatZero _ _ hw
  · by_cases h32 : ft = .fat32
    · right; left; exact ⟨h32, R.backup _ _ hw⟩
    · rw [R.backup_nil h32] at hw; cases hw
  · left; exact (R.bootW _ _ hw).2

/-! ## (1) `format_writes_boot` -/

theorem getD_replicate_zero (n i : Nat) : (List.replicate n 0).getD i 0 = 0 := by
  rw [List.getD_eq_getElem?_getD, List.getElem?_replicate]
  split <;> rfl

/-- a boot-sector image padded with zeros, read back -/
theorem bootTile_getD (boot : FBoot) (p x : Nat) (hlen : boot.serialize.length = 512) :
    (bootTile boot p).getD x 0 = if x < 512 then boot.serialize.getD x 0 else 0 := by
  unfold bootTile
  have h512 : (boot.serialize.take 512).length = 512 := by rw [List.length_take, hlen]; rfl
  have ht : boot.serialize.take 512 = boot.serialize := by rw [← hlen]; exact List.take_length
  by_cases hx : x < 512
  · rw [if_pos hx, getD_append_lt' (by omega), ht]
  · rw [if_neg hx, getD_append_ge' (by omega), getD_replicate_zero]

section order
variable {o : FormatOpts} {t : Nat} {boot : FBoot} {ft : FatType} (hg : FmtGeom o t boot ft)
include hg

theorem fatBeg_ge : boot.bpb.bps ≤ boot.bpb.reserved * boot.bpb.bps := by
  rw [hg.reserved]
  cases ft <;> simp [reservedFor] <;> omega

theorem fatBeg_32 (h32 : ft = .fat32) : boot.bpb.reserved * boot.bpb.bps = 8 * boot.bpb.bps := by
  rw [hg.reserved, h32]; rfl

omit hg in
theorem fatBeg_le_end :
    boot.bpb.reserved * boot.bpb.bps ≤ (boot.bpb.reserved + boot.bpb.fats * boot.bpb.sectorsPerFat) * boot.bpb.bps :=
  Nat.mul_le_mul_right _ (Nat.le_add_right _ _)

end order

/-- where the records of the last phases (FAT32 root cluster, FS-info, label) lie -/
theorem tail_mem {o : FormatOpts} {t : Nat} {boot : FBoot} {ft : FatType} {Lb Lk Lz Lf Lr Lt : List LogItem}
    (hg : FmtGeom o t boot ft) (R : FmtRegions o boot ft Lb Lk Lz Lf Lr Lt) {off : Nat} {bs : List Nat} (hw : LogItem.write off bs ∈ Lt) :
    (ft = .fat32 ∧ boot.bpb.bps ≤ off ∧ off + bs.length ≤ 2 * boot.bpb.bps) ∨
    (boot.bpb.reserved * boot.bpb.bps ≤ off ∧
      off + bs.length ≤ (boot.bpb.reserved + boot.bpb.fats * boot.bpb.sectorsPerFat) * boot.bpb.bps) ∨
    (boot.bpb.reserved + boot.bpb.fats * boot.bpb.sectorsPerFat) * boot.bpb.bps ≤ off := by
  rcases R.tail with ⟨h32, La, Lc, Li, Ll, hLt, hWa, hTc, ⟨tc, _, hTi⟩, hll, _⟩ | ⟨h32, hll⟩
  · rw [hLt] at hw
    simp only [List.mem_append] at hw
    rcases hw with hw | hw | hw | hw
    · exact Or.inr (Or.inr (labelSpec_within hll _ _ hw).1)
    · have := hTi.within _ _ hw
      rw [List.length_append, List.length_replicate, List.length_take, fsInfoBytes_len] at this
      have hB := hg.bps_ge
      exact Or.inl ⟨h32, by omega, by omega⟩
    · exact Or.inr (Or.inr (hTc.within _ _ hw).1)
    · exact Or.inr (Or.inl (hWa _ _ hw))
  · exact Or.inr (Or.inr (labelSpec_within hll _ _ hw).1)

/-- after a successful `format_volume`, bytes `[0, 512)` of sector 0 are the serialised boot sector and the rest of
    the sector is zero; on FAT32 the same holds for the backup sector (`backup_boot_sector = 6`) -/
theorem format_writes_boot (o : FormatOpts) (d d' : Dev) (h : FormatRun o d d') :
    ∃ boot ft, formatChecked o (fmtTotal o d) = .ok (boot, ft) ∧ ∀ (g : Nat → Nat) (x : Nat), x < boot.bpb.bps →
      d'.bytes g x = (if x < 512 then boot.serialize.getD x 0 else 0) ∧
      (ft = .fat32 → d'.bytes g (boot.bpb.backupBoot * boot.bpb.bps + x) =
        (if x < 512 then boot.serialize.getD x 0 else 0)) := by
  obtain ⟨boot, ft, Lb, Lk, Lz, Lf, Lr, Lt, hf⟩ := h.facts
  refine ⟨boot, ft, hf.checked, fun g x hx => ?_⟩
  have R := hf.regions
  have hg := hf.geom
  have o1 := fatBeg_ge hg
  have o3 := @fatBeg_le_end boot
  have hB := hg.bps_ge
  constructor
  · rw [← Dev.bytes_writesOf, hf.writes]
    rw [replay_skip g Lt _ x (fun off bs hm hc => by rcases tail_mem hg R hm with a | a | a <;> omega)]
    rw [R.rootZero.skip g _ x (Or.inl (by omega)), R.fmt.skip g _ x (Or.inl (by omega)),
      R.fatZero.skip g _ x (Or.inl (by omega)), R.backup.skip g _ x (Or.inl (by omega)), hf.bootT.replay]
    have hl := hg.bootTile_len hf.len 0
    rw [Nat.zero_mul] at hl
    rw [if_pos ⟨Nat.zero_le _, by rw [hl]; omega⟩, Nat.sub_zero, bootTile_getD _ _ _ hf.len]
  · intro h32
    have o2 := fatBeg_32 hg h32
    rw [(hg.f32 h32).1, ← Dev.bytes_writesOf, hf.writes]
    rw [replay_skip g Lt _ _ (fun off bs hm hc => by rcases tail_mem hg R hm with a | a | a <;> omega)]
    rw [R.rootZero.skip g _ _ (Or.inl (by omega)), R.fmt.skip g _ _ (Or.inl (by omega)),
      R.fatZero.skip g _ _ (Or.inl (by omega)), (hf.backupT h32).replay]
    have hl := hg.bootTile_len hf.len 6
    rw [if_pos ⟨by omega, by rw [hl]; omega⟩, bootTile_getD _ _ _ hf.len]
    congr 2 <;> omega

/-! ## (4) `format_fsinfo` -/

/-- FAT32: the FS-info sector (sector 1) holds the three signatures, `free_cluster_count = total_clusters - 1`
    (the root cluster is in use), `next_free_cluster = 3`, zeros elsewhere and up to the end of the sector -/
theorem format_fsinfo (o : FormatOpts) (d d' : Dev) (h : FormatRun o d d') :
    ∃ boot ft, formatChecked o (fmtTotal o d) = .ok (boot, ft) ∧ (ft = .fat32 →
      ∃ tc, boot.bpb.totalClusters = .ok tc ∧ ∀ (g : Nat → Nat) (x : Nat), x < boot.bpb.bps →
        d'.bytes g (boot.bpb.fsInfoSector * boot.bpb.bps + x) =
          (if x < 512 then (fsInfoBytes { free := some (tc - 1), next := some 3, dirty := false }).getD x 0 else 0)) := by
  obtain ⟨boot, ft, Lb, Lk, Lz, Lf, Lr, Lt, hf⟩ := h.facts
  refine ⟨boot, ft, hf.checked, fun h32 => ?_⟩
  have R := hf.regions
  have hg := hf.geom
  have o2 := fatBeg_32 hg h32
  have o3 := @fatBeg_le_end boot
  have hB := hg.bps_ge
  rcases R.tail with ⟨_, La, Lc, Li, Ll, hLt, hWa, hTc, ⟨tc, htc, hTi⟩, hll, _⟩ | ⟨hne, _⟩
  · refine ⟨tc, htc, fun g x hx => ?_⟩
    rw [(hg.f32 h32).2.1, Nat.one_mul, ← Dev.bytes_writesOf, hf.writes, hLt]
    simp only [List.append_assoc]
    rw [(labelSpec_within hll).skip g _ _ (Or.inl (by omega)), hTi.replay]
    rw [if_pos ⟨by omega, by
      rw [List.length_append, List.length_replicate, List.length_take, fsInfoBytes_len]; omega⟩]
    have e : boot.bpb.bps + x - boot.bpb.bps = x := by omega
    rw [e]
    have ht : (fsInfoBytes (fmtInfo tc 2)).take 512 = fsInfoBytes (fmtInfo tc 2) := by
      rw [← fsInfoBytes_len (fmtInfo tc 2)]; exact List.take_length
    rw [ht]
    by_cases hx5 : x < 512
    · rw [if_pos hx5, getD_append_lt' (by rw [fsInfoBytes_len]; exact hx5)]; rfl
    · rw [if_neg hx5, getD_append_ge' (by rw [fsInfoBytes_len]; omega), getD_replicate_zero]
  · exact absurd h32 hne

/-! ## (3) `format_root_empty` -/

/-- expected contents of the root directory: the volume-label entry in slot 0 if a label was given, zeros elsewhere -/
def rootByte (o : FormatOpts) (x : Nat) : Nat :=
  match o.label with
  | some lbl => if x < 32 then (DirFileEntryData.new lbl ATTR_VOLUME_ID).serialize.getD x 0 else 0
  | none => 0

/-- replaying a label phase over bytes that are zero on the first 32 bytes of the root gives `rootByte` -/
theorem label_replay {o : FormatOpts} (hr : InRange o) {p : Nat} {Ll : List LogItem} (hll : labelSpec o p Ll)
    (g : Nat → Nat) (rest : List LogItem) (x : Nat) (hz : replay g rest (p + x) = 0) :
    replay g (Ll ++ rest) (p + x) = rootByte o x := by
  unfold labelSpec at hll
  unfold rootByte
  split at hll
  · rename_i lbl hl
    have hlen : (DirFileEntryData.new lbl ATTR_VOLUME_ID).serialize.length = 32 :=
      DirFileEntryData.serialize_length _ (hr.label lbl hl)
    have ht : (DirFileEntryData.new lbl ATTR_VOLUME_ID).serialize.take 32 =
        (DirFileEntryData.new lbl ATTR_VOLUME_ID).serialize := by rw [← hlen]; exact List.take_length
    rw [hll.replay, ht, hlen]
    simp only [hl]
    by_cases hx : x < 32
    · rw [if_pos ⟨by omega, by omega⟩, if_pos hx]; congr 1; omega
    · rw [if_neg (by omega), if_neg hx]; exact hz
  · rename_i hl
    simp only [hl]
    rw [hll]; exact hz

/-- the root directory — the fixed region of `root_dir_sectors` sectors after the FATs on FAT12/16, the first data
    cluster on FAT32 — is all zero except for the 32-byte volume-label entry in its first slot when a label was
    given; that entry is `DirFileEntryData::new(label, VOLUME_ID).serialize()` -/
theorem format_root_empty (o : FormatOpts) (d d' : Dev) (h : FormatRun o d d') :
    ∃ boot ft, formatChecked o (fmtTotal o d) = .ok (boot, ft) ∧ ∀ (g : Nat → Nat) (x : Nat),
      x < (if ft = .fat32 then boot.bpb.spc else boot.bpb.rootDirSectors) * boot.bpb.bps →
      d'.bytes g ((boot.bpb.reserved + boot.bpb.fats * boot.bpb.sectorsPerFat) * boot.bpb.bps + x) = rootByte o x := by
  obtain ⟨boot, ft, Lb, Lk, Lz, Lf, Lr, Lt, hf⟩ := h.facts
  refine ⟨boot, ft, hf.checked, fun g x hx => ?_⟩
  have R := hf.regions
  have hg := hf.geom
  have o1 := fatBeg_ge hg
  have o3 := @fatBeg_le_end boot
  have hB := hg.bps_ge
  rw [← Dev.bytes_writesOf, hf.writes]
  rcases R.tail with ⟨h32, La, Lc, Li, Ll, hLt, hWa, hTc, ⟨tc, htc, hTi⟩, hll, _⟩ | ⟨hne, hll⟩
  · rw [if_pos h32] at hx
    rw [hLt]
    simp only [List.append_assoc]
    apply label_replay h.rng hll
    have hWi := hTi.within
    rw [List.length_append, List.length_replicate, List.length_take, fsInfoBytes_len] at hWi
    have o2 := fatBeg_32 hg h32
    rw [hWi.skip g _ _ (Or.inr (by omega)), hTc.replay, List.length_replicate,
      if_pos ⟨by omega, by omega⟩, getD_replicate_zero]
  · rw [if_neg hne] at hx
    apply label_replay h.rng hll
    rw [hf.rootZeroT.replay, List.length_replicate, if_pos ⟨by omega, by omega⟩, getD_replicate_zero]

/-! ## (2) `formatFat_view` -/

/-- the bytes of FAT copy `i` as the log replay shows them (the input of agent-fat's `Fat.view`/`Fat.getRaw`) -/
def fatCopy (g : Nat → Nat) (d' : Dev) (b : FBpb) (i : Nat) : Array Nat :=
  Array.ofFn (n := b.sectorsPerFat * b.bps) fun x =>
    d'.bytes g (b.reserved * b.bps + i * (b.sectorsPerFat * b.bps) + x.val)

theorem fatCopy_size (g : Nat → Nat) (d' : Dev) (b : FBpb) (i : Nat) :
    (fatCopy g d' b i).size = b.sectorsPerFat * b.bps := by simp [fatCopy]

theorem rd_fatCopy (g : Nat → Nat) (d' : Dev) (b : FBpb) (i x : Nat) (hx : x < b.sectorsPerFat * b.bps) :
    Fat.rd (fatCopy g d' b i) x = d'.bytes g (b.reserved * b.bps + i * (b.sectorsPerFat * b.bps) + x) := by
  unfold Fat.rd fatCopy
  rw [Array.getD_eq_getD_getElem?, Array.getElem?_ofFn]
  simp [hx]

/-- the bytes of a FAT copy after a successful `format_volume` of a FAT16 volume, relative to the copy -/
theorem fat16_bytes (o : FormatOpts) (d d' : Dev) (h : FormatRun o d d') {boot : FBoot} {Lb Lk Lz Lf Lr Lt}
    (hf : FormatFacts o d d' boot .fat16 Lb Lk Lz Lf Lr Lt) (tc : Nat) (htc : boot.bpb.totalClusters = .ok tc)
    (g : Nat → Nat) (i x : Nat) (hi : i < boot.bpb.fats) (hx : x < boot.bpb.sectorsPerFat * boot.bpb.bps) :
    d'.bytes g (boot.bpb.reserved * boot.bpb.bps + i * (boot.bpb.sectorsPerFat * boot.bpb.bps) + x) =
      if x < 2 then (bytesLe16 (o.media ||| 0xFF00)).getD x 0
      else if x < 4 then 255
      else if (tc + 2) * 2 ≤ x ∧
        x < (tc + 2 + ((boot.bpb.sectorsPerFat * boot.bpb.bps * 8 / 16) % 4294967296 - (tc + 2))) * 2 then 255
      else 0 := by
  have R := hf.regions
  have hg := hf.geom
  obtain ⟨d0, hl0, hs0, himg0, hlog⟩ := hf.log
  obtain ⟨dK, hsK, himgK, hsizeK, hfr⟩ := hlog.rest
  obtain ⟨tc', s, dA, dB, dC, htc', hsA, himgA, hsizeA, hrun, hsf, hsr, hsizeC, htail⟩ := hfr.fmt
  rw [htc] at htc'; cases htc'
  rw [fmtSlice_eq boot.bpb .fat16 hg.extFlags] at hrun
  have hmir : 0 < (fmtSlice boot.bpb).mirrors := by show 0 < boot.bpb.fats; omega
  have hbpsO : boot.bpb.bps = o.bps := by
    obtain ⟨c, _, _, _, _, _, _, _, hboot, _⟩ := formatChecked_ok_layout h.acc h.tot hf.checked
    rw [hboot]; rfl
  have hdev : (fmtSlice boot.bpb).beginOff + (fmtSlice boot.bpb).mirrors * (fmtSlice boot.bpb).size ≤ dA.img.size := by
    rw [hsizeA, hsizeK, hs0]
    exact Nat.le_trans hg.window_le (by rw [hbpsO]; exact h.size)
  have hB4 : boot.bpb.bps ≤ 4096 := by
    have := hg.bps_mem; simp only [List.mem_cons, List.mem_nil_iff, or_false] at this; omega
  have hspf := hg.spf16 (by simp)
  have hZ : boot.bpb.sectorsPerFat * boot.bpb.bps ≤ 65535 * 4096 := Nat.mul_le_mul hspf hB4
  obtain ⟨L, hL, heff, _, _⟩ := formatFat16_exact (s0 := fmtSlice boot.bpb) rfl hmir boot.bpb.media
    (boot.bpb.sectorsPerFat * boot.bpb.bps) tc dA s dB hdev (by omega) hrun
  have hLf : L = Lf := Seg.unique hL hsf
  subst hLf
  -- the position lies inside the FAT window, below the root region
  have hpos : boot.bpb.reserved * boot.bpb.bps + i * (boot.bpb.sectorsPerFat * boot.bpb.bps) + x <
      (boot.bpb.reserved + boot.bpb.fats * boot.bpb.sectorsPerFat) * boot.bpb.bps := by
    rw [FmtGeom.fatEnd_eq]
    have := Nat.mul_le_mul_right (boot.bpb.sectorsPerFat * boot.bpb.bps) (show i + 1 ≤ boot.bpb.fats from hi)
    rw [Nat.add_mul, Nat.one_mul] at this
    omega
  have hlabel : Within ((boot.bpb.reserved + boot.bpb.fats * boot.bpb.sectorsPerFat) * boot.bpb.bps)
      ((boot.bpb.reserved + boot.bpb.fats * boot.bpb.sectorsPerFat) * boot.bpb.bps + 32) Lt := by
    rcases R.tail with ⟨h32, _⟩ | ⟨_, hll⟩
    · cases h32
    · exact labelSpec_within hll
  rw [← Dev.bytes_writesOf, hf.writes, hlabel.skip g _ _ (Or.inl hpos), R.rootZero.skip g _ _ (Or.inl hpos)]
  have e := heff g (Lz ++ (Lk ++ (Lb ++ d.writesOf))) i x hi hx
  rw [hg.media] at e
  rw [show (fmtSlice boot.bpb).beginOff = boot.bpb.reserved * boot.bpb.bps from rfl,
    show (fmtSlice boot.bpb).size = boot.bpb.sectorsPerFat * boot.bpb.bps from rfl] at e
  rw [e, hf.fatZeroT.replay, List.length_replicate]
  have hin : boot.bpb.reserved * boot.bpb.bps ≤
      boot.bpb.reserved * boot.bpb.bps + i * (boot.bpb.sectorsPerFat * boot.bpb.bps) + x ∧
      boot.bpb.reserved * boot.bpb.bps + i * (boot.bpb.sectorsPerFat * boot.bpb.bps) + x <
        boot.bpb.reserved * boot.bpb.bps + boot.bpb.fats * boot.bpb.sectorsPerFat * boot.bpb.bps := by
    have := hpos; rw [FmtGeom.fatEnd_eq] at this
    rw [Nat.mul_assoc boot.bpb.fats]
    exact ⟨by omega, this⟩
  rw [if_pos hin, getD_replicate_zero]

theorem view16_of (f : Array Nat) (c : Nat) (h1 : c * 2 < Fat.u32Lim) (h2 : c * 2 + 2 ≤ f.size) :
    Fat.view .fat16 f c = Fat.classify16 (Fat.rd16 f (c * 2)) := by
  simp only [Fat.view, Fat.get, Fat.getRaw, Fat.getRaw16]
  rw [if_neg (by omega), if_neg (by omega)]
  rfl

theorem facts_unique {o : FormatOpts} {d d' : Dev} {boot boot' : FBoot} {ft ft' : FatType} {Lb Lk Lz Lf Lr Lt}
    (hf : FormatFacts o d d' boot' ft' Lb Lk Lz Lf Lr Lt) (hc : formatChecked o (fmtTotal o d) = .ok (boot, ft)) :
    boot' = boot ∧ ft' = ft := by
  have := hf.checked
  rw [hc] at this
  simp only [Except.ok.injEq, Prod.mk.injEq] at this
  exact ⟨this.1.symm, this.2.symm⟩

/-- **`formatFat_view`, FAT16**: after a successful `format_volume` that chose FAT16, in EVERY FAT copy (as the log
    replay shows it, over arbitrary previous device contents): entry 0 is `media | 0xFF00`, entry 1 is `0xFFFF`,
    entries `[2, total+2)` are free, entries `[total+2, capacity)` are end-of-chain, and all copies hold the same
    bytes. `capacity = sectors_per_fat * bytes_per_sector * 8 / 16`. -/
theorem formatFat_view_fat16 (o : FormatOpts) (d d' : Dev) (h : FormatRun o d d') (boot : FBoot)
    (hc : formatChecked o (fmtTotal o d) = .ok (boot, .fat16)) :
    ∃ tc, boot.bpb.totalClusters = .ok tc ∧ ∀ (g : Nat → Nat) (i : Nat), i < boot.bpb.fats →
      Fat.getRaw .fat16 (fatCopy g d' boot.bpb i) 0 = .ok ((o.media ||| 0xFF00) % 65536) ∧
      Fat.getRaw .fat16 (fatCopy g d' boot.bpb i) 1 = .ok 0xFFFF ∧
      (∀ c, 2 ≤ c → c < tc + 2 → Fat.view .fat16 (fatCopy g d' boot.bpb i) c = .free) ∧
      (∀ c, tc + 2 ≤ c → c < boot.bpb.sectorsPerFat * boot.bpb.bps * 8 / 16 →
        Fat.view .fat16 (fatCopy g d' boot.bpb i) c = .eoc) ∧
      fatCopy g d' boot.bpb i = fatCopy g d' boot.bpb 0 := by
  obtain ⟨boot', ft', Lb, Lk, Lz, Lf, Lr, Lt, hf⟩ := h.facts
  obtain ⟨rfl, rfl⟩ := facts_unique hf hc
  have hg := hf.geom
  refine ⟨_, hg.tc, fun g i hi => ?_⟩
  generalize htcv : (fmtTotal o d - (boot'.bpb.reserved + boot'.bpb.fats * boot'.bpb.sectorsPerFat +
    boot'.bpb.rootDirSectors)) / boot'.bpb.spc = tc
  have htc := hg.tc; rw [htcv] at htc
  have hcap := hg.cap; rw [htcv] at hcap
  simp only [FatType.bits] at hcap
  have hB4 : boot'.bpb.bps ≤ 4096 := by
    have := hg.bps_mem; simp only [List.mem_cons, List.mem_nil_iff, or_false] at this; omega
  have hB := hg.bps_ge
  have hZ : boot'.bpb.sectorsPerFat * boot'.bpb.bps ≤ 65535 * 4096 := Nat.mul_le_mul (hg.spf16 (by simp)) hB4
  have hZ1 : 512 ≤ boot'.bpb.sectorsPerFat * boot'.bpb.bps := by
    have := Nat.mul_le_mul hg.spf1 hB; omega
  generalize hZe : boot'.bpb.sectorsPerFat * boot'.bpb.bps = Z at *
  have hmod : Z * 8 / 16 % 4294967296 = Z * 8 / 16 := Nat.mod_eq_of_lt (by omega)
  have hbytes : ∀ j x, j < boot'.bpb.fats → x < Z → Fat.rd (fatCopy g d' boot'.bpb j) x =
      if x < 2 then (bytesLe16 (o.media ||| 0xFF00)).getD x 0
      else if x < 4 then 255
      else if (tc + 2) * 2 ≤ x ∧ x < (tc + 2 + (Z * 8 / 16 - (tc + 2))) * 2 then 255 else 0 := by
    intro j x hj hx
    rw [rd_fatCopy g d' boot'.bpb j x (by rw [hZe]; exact hx), hZe]
    have := fat16_bytes o d d' h hf tc htc g j x hj (by rw [hZe]; exact hx)
    rw [hZe, hmod] at this
    exact this
  have hsize : ∀ j, (fatCopy g d' boot'.bpb j).size = Z := fun j => by rw [fatCopy_size, hZe]
  refine ⟨?_, ?_, ?_, ?_, ?_⟩
  · simp only [Fat.getRaw, Fat.getRaw16, Fat.u32Lim, hsize]
    rw [if_neg (by omega), if_neg (by omega)]
    simp only [Fat.rd16, Nat.zero_mul, Nat.zero_add]
    rw [hbytes i 0 hi (by omega), hbytes i 1 hi (by omega), if_pos (by omega), if_pos (by omega)]
    simp only [bytesLe16, List.getD_cons_zero, List.getD_cons_succ]
    congr 1; omega
  · simp only [Fat.getRaw, Fat.getRaw16, Fat.u32Lim, hsize]
    rw [if_neg (by omega), if_neg (by omega)]
    simp only [Fat.rd16, Nat.one_mul]
    rw [hbytes i 2 hi (by omega), hbytes i 3 hi (by omega), if_neg (by omega), if_pos (by omega),
      if_neg (by omega), if_pos (by omega)]
  · intro c h2 hlt
    have hv : Fat.rd16 (fatCopy g d' boot'.bpb i) (c * 2) = 0 := by
      unfold Fat.rd16
      rw [hbytes i (c * 2) hi (by omega), hbytes i (c * 2 + 1) hi (by omega), if_neg (by omega), if_neg (by omega),
        if_neg (by omega), if_neg (by omega), if_neg (by omega), if_neg (by omega)]
    rw [view16_of _ _ (by unfold Fat.u32Lim; omega) (by rw [hsize]; omega), hv]
    rfl
  · intro c h2 hlt
    have hv : Fat.rd16 (fatCopy g d' boot'.bpb i) (c * 2) = 65535 := by
      unfold Fat.rd16
      rw [hbytes i (c * 2) hi (by omega), hbytes i (c * 2 + 1) hi (by omega), if_neg (by omega), if_neg (by omega),
        if_pos (by omega), if_neg (by omega), if_neg (by omega), if_pos (by omega)]
    rw [view16_of _ _ (by unfold Fat.u32Lim; omega) (by rw [hsize]; omega), hv]
    rfl
  · apply Array.ext
    · rw [hsize, hsize]
    · intro x h1 h2
      rw [hsize] at h1
      have e1 := hbytes i x hi h1
      have e0 := hbytes 0 x (by omega) h1
      unfold Fat.rd at e1 e0
      rw [Array.getD_eq_getD_getElem?, Array.getElem?_eq_getElem (by rw [hsize]; exact h1)] at e1 e0
      simp only [Option.getD_some] at e1 e0
      rw [e1, e0]

/-! ### FAT32 -/

/-- the bytes of a FAT copy after a successful `format_volume` of a FAT32 volume whose FAT has no room for the BAD
    markers (`capacity ≤ 0x0FFFFFF0`), relative to the copy; FAT32 entries are known up to their four reserved top
    bits, which `Fat32::set` copies from what it read -/
theorem fat32_bytes (o : FormatOpts) (d d' : Dev) (h : FormatRun o d d') {boot : FBoot} {Lb Lk Lz Lf Lr Lt}
    (hf : FormatFacts o d d' boot .fat32 Lb Lk Lz Lf Lr Lt) (tc : Nat) (htc : boot.bpb.totalClusters = .ok tc)
    (hcap : boot.bpb.sectorsPerFat * boot.bpb.bps * 8 / 32 ≤ 0x0FFFFFF0)
    (g : Nat → Nat) (i : Nat) (hi : i < boot.bpb.fats) :
    let G := fun x => d'.bytes g (boot.bpb.reserved * boot.bpb.bps + i * (boot.bpb.sectorsPerFat * boot.bpb.bps) + x)
    (∀ x, x < 4 → G x = (bytesLe32 (o.media ||| 0x0FFFFF00)).getD x 0) ∧
    (∀ x, 4 ≤ x → x < 8 → G x = 255) ∧
    Entry32 G 2 0x0FFFFFFF ∧
    (∀ c, tc + 2 ≤ c → c < boot.bpb.sectorsPerFat * boot.bpb.bps * 8 / 32 → Entry32 G c 0x0FFFFFFF) ∧
    (∀ x, 12 ≤ x → x < (tc + 2) * 4 → G x = 0) := by
  intro G
  have R := hf.regions
  have hg := hf.geom
  obtain ⟨d0, hl0, hs0, himg0, hlog⟩ := hf.log
  obtain ⟨dK, hsK, himgK, hsizeK, hfr⟩ := hlog.rest
  obtain ⟨tc', s, dA, dB, dC, htc', hsA, himgA, hsizeA, hrun, hsf, hsr, hsizeC, _⟩ := hfr.fmt
  rw [htc] at htc'; cases htc'
  rw [fmtSlice_eq boot.bpb .fat32 hg.extFlags] at hrun
  have hmir : 0 < (fmtSlice boot.bpb).mirrors := by show 0 < boot.bpb.fats; omega
  have hbpsO : boot.bpb.bps = o.bps := by
    obtain ⟨c, _, _, _, _, _, _, _, hboot, _⟩ := formatChecked_ok_layout h.acc h.tot hf.checked
    rw [hboot]; rfl
  have hdev : (fmtSlice boot.bpb).beginOff + (fmtSlice boot.bpb).mirrors * (fmtSlice boot.bpb).size ≤ dA.img.size := by
    rw [hsizeA, hsizeK, hs0]
    exact Nat.le_trans hg.window_le (by rw [hbpsO]; exact h.size)
  have hB := hg.bps_ge
  have hmod : boot.bpb.sectorsPerFat * boot.bpb.bps * 8 / 32 % 4294967296 =
      boot.bpb.sectorsPerFat * boot.bpb.bps * 8 / 32 := Nat.mod_eq_of_lt (by omega)
  obtain ⟨L, hL, heff, h8, hfitE⟩ := formatFat32_exact (s0 := fmtSlice boot.bpb) rfl hmir boot.bpb.media
    (boot.bpb.sectorsPerFat * boot.bpb.bps) tc dA s dB hdev (by rw [hmod]; omega) hrun
  have hLf : L = Lf := Seg.unique hL hsf
  subst hLf
  rw [hmod] at heff hfitE
  -- the FAT32 tail
  have htl := R.tail.resolve_right (fun hh => hh.1 rfl)
  obtain ⟨_, La, Lc, Li, Ll, hLt, hWa, hTc, ⟨_, _, hTi⟩, hll, ⟨s2, dA2, dB2, hdev2, hrun2, hsa⟩⟩ := htl
  obtain ⟨hfit2, La', hLa', heffA⟩ := alloc32_exact (s0 := fmtSlice boot.bpb) rfl hmir
    (SliceInv.self (Nat.zero_le _)) dA2 hdev2 hrun2
  have hLa : La' = La := Seg.unique hLa' hsa
  subst hLa
  -- sizes and positions
  have hZdef : (fmtSlice boot.bpb).size = boot.bpb.sectorsPerFat * boot.bpb.bps := rfl
  have hBdef : (fmtSlice boot.bpb).beginOff = boot.bpb.reserved * boot.bpb.bps := rfl
  have hMdef : (fmtSlice boot.bpb).mirrors = boot.bpb.fats := rfl
  have o2 := fatBeg_32 hg rfl
  have hpos : ∀ x, x < boot.bpb.sectorsPerFat * boot.bpb.bps →
      boot.bpb.reserved * boot.bpb.bps + i * (boot.bpb.sectorsPerFat * boot.bpb.bps) + x <
        (boot.bpb.reserved + boot.bpb.fats * boot.bpb.sectorsPerFat) * boot.bpb.bps := by
    intro x hx
    rw [FmtGeom.fatEnd_eq]
    have := Nat.mul_le_mul_right (boot.bpb.sectorsPerFat * boot.bpb.bps) (show i + 1 ≤ boot.bpb.fats from hi)
    rw [Nat.add_mul, Nat.one_mul] at this
    omega
  have hWi := hTi.within
  rw [List.length_append, List.length_replicate, List.length_take, fsInfoBytes_len] at hWi
  -- peel the records after the FAT phases
  have peel : ∀ x, x < boot.bpb.sectorsPerFat * boot.bpb.bps → G x =
      replay g (La' ++ (Lr ++ (L ++ (Lz ++ (Lk ++ (Lb ++ d.writesOf))))))
        (boot.bpb.reserved * boot.bpb.bps + i * (boot.bpb.sectorsPerFat * boot.bpb.bps) + x) := by
    intro x hx
    have hp := hpos x hx
    show d'.bytes g _ = _
    rw [← Dev.bytes_writesOf, hf.writes, hLt]
    simp only [List.append_assoc]
    rw [(labelSpec_within hll).skip g _ _ (Or.inl hp), hWi.skip g _ _ (Or.inr (by omega)),
      hTc.within.skip g _ _ (Or.inl hp)]
  -- below the alloc/format effects: the zero fill
  have zero : ∀ x, x < boot.bpb.sectorsPerFat * boot.bpb.bps →
      replay g (Lz ++ (Lk ++ (Lb ++ d.writesOf)))
        (boot.bpb.reserved * boot.bpb.bps + i * (boot.bpb.sectorsPerFat * boot.bpb.bps) + x) = 0 := by
    intro x hx
    have hp := hpos x hx
    rw [FmtGeom.fatEnd_eq] at hp
    rw [hf.fatZeroT.replay, List.length_replicate, Nat.mul_assoc boot.bpb.fats, if_pos ⟨by omega, hp⟩,
      getD_replicate_zero]
  have eA := heffA g (Lr ++ (L ++ (Lz ++ (Lk ++ (Lb ++ d.writesOf))))) i (by rw [hMdef]; exact hi)
  have eF := heff g (Lz ++ (Lk ++ (Lb ++ d.writesOf))) i (by rw [hMdef]; exact hi)
  rw [hBdef, hZdef] at eA eF
  rw [hZdef] at h8 hfit2 hfitE
  have skipR : ∀ x, x < boot.bpb.sectorsPerFat * boot.bpb.bps →
      replay g (Lr ++ (L ++ (Lz ++ (Lk ++ (Lb ++ d.writesOf)))))
        (boot.bpb.reserved * boot.bpb.bps + i * (boot.bpb.sectorsPerFat * boot.bpb.bps) + x) =
      replay g (L ++ (Lz ++ (Lk ++ (Lb ++ d.writesOf))))
        (boot.bpb.reserved * boot.bpb.bps + i * (boot.bpb.sectorsPerFat * boot.bpb.bps) + x) :=
    fun x hx => R.rootZero.skip g _ _ (Or.inl (hpos x hx))
  have hcapc := hg.cap
  rw [show (fmtTotal o d - (boot.bpb.reserved + boot.bpb.fats * boot.bpb.sectorsPerFat + boot.bpb.rootDirSectors)) /
      boot.bpb.spc = tc by have := hg.tc; rw [htc] at this; cases this; rfl] at hcapc
  simp only [FatType.bits] at hcapc
  have hE : tc + 2 + (boot.bpb.sectorsPerFat * boot.bpb.bps * 8 / 32 - (tc + 2)) =
      boot.bpb.sectorsPerFat * boot.bpb.bps * 8 / 32 := by omega
  rw [hE] at eF hfitE
  have hmedia := hg.media
  have htc1 : 65525 ≤ tc := by
    have h1 := hg.ftc
    have h2 := hg.tc; rw [htc] at h2; cases h2
    generalize (fmtTotal o d - (boot.bpb.reserved + boot.bpb.fats * boot.bpb.sectorsPerFat +
      boot.bpb.rootDirSectors)) / boot.bpb.spc = n at h1 ⊢
    unfold FatType.fromClusters at h1
    repeat' split at h1
    all_goals first | omega | cases h1
  refine ⟨?_, ?_, ?_, ?_, ?_⟩
  · intro x hx
    rw [peel x (by omega), eA.2 x (by omega) (by omega), skipR x (by omega), eF.1 x hx, hmedia]
  · intro x h4 hx8
    rw [peel x (by omega), eA.2 x (by omega) (by omega), skipR x (by omega), eF.2.1 x h4 hx8]
  · refine (eA.1 2 (by omega) (by omega)).congr ?_
    intro x hx1 hx2
    exact peel x (by omega)
  · intro c hc1 hc2
    have hfe := hfitE (by omega)
    have := eF.2.2.1 c hc1 hc2
    refine this.congr ?_
    intro x hx1 hx2
    have hxZ : x < boot.bpb.sectorsPerFat * boot.bpb.bps := by omega
    rw [peel x hxZ, eA.2 x hxZ (by omega), skipR x hxZ]
  · intro x h12 hlt
    have hxZ : x < boot.bpb.sectorsPerFat * boot.bpb.bps := by omega
    rw [peel x hxZ, eA.2 x hxZ (by omega), skipR x hxZ, eF.2.2.2 x hxZ (by omega) (by omega), zero x hxZ]

theorem view32_of (f : Array Nat) (c : Nat) (h1 : c * 4 < Fat.u32Lim) (h2 : c * 4 + 4 ≤ f.size) :
    Fat.view .fat32 f c = Fat.classify32 c (Fat.rd32 f (c * 4) % 268435456) := by
  simp only [Fat.view, Fat.get, Fat.getRaw, Fat.getRaw32]
  rw [if_neg (by omega), if_neg (by omega)]
  rfl

/-- an `Entry32` read back through `Fat.rd32`: the low 28 bits -/
theorem rd32_of_entry {f : Array Nat} {h : Nat → Nat} {c a : Nat} (he : Entry32 h c a)
    (hf : ∀ x, c * 4 ≤ x → x < c * 4 + 4 → Fat.rd f x = h x) : Fat.rd32 f (c * 4) % 268435456 = a := by
  obtain ⟨w, h0, h1, h2, h3, h4⟩ := he
  unfold Fat.rd32
  rw [hf _ (by omega) (by omega), hf _ (by omega) (by omega), hf _ (by omega) (by omega), hf _ (by omega) (by omega),
    h1, h2, h3, h4]
  omega

/-- **`formatFat_view`, FAT32** (volumes whose FAT has no room for the BAD markers, `capacity ≤ 0x0FFFFFF0`): after
    a successful `format_volume`, in every FAT copy (log replay over arbitrary previous contents): entry 0 is
    `media | 0x0FFFFF00`, entry 1 is `0xFFFFFFFF`, entry 2 (the root directory cluster) is end-of-chain, entries
    `[3, total+2)` are free, entries `[total+2, capacity)` are end-of-chain. -/
theorem formatFat_view_fat32 (o : FormatOpts) (d d' : Dev) (h : FormatRun o d d') (boot : FBoot)
    (hc : formatChecked o (fmtTotal o d) = .ok (boot, .fat32))
    (hcap : boot.bpb.sectorsPerFat * boot.bpb.bps * 8 / 32 ≤ 0x0FFFFFF0) :
    ∃ tc, boot.bpb.totalClusters = .ok tc ∧ ∀ (g : Nat → Nat) (i : Nat), i < boot.bpb.fats →
      Fat.getRaw .fat32 (fatCopy g d' boot.bpb i) 0 = .ok ((o.media ||| 0x0FFFFF00) % 4294967296) ∧
      Fat.getRaw .fat32 (fatCopy g d' boot.bpb i) 1 = .ok 0xFFFFFFFF ∧
      Fat.view .fat32 (fatCopy g d' boot.bpb i) 2 = .eoc ∧
      (∀ c, 3 ≤ c → c < tc + 2 → Fat.view .fat32 (fatCopy g d' boot.bpb i) c = .free) ∧
      (∀ c, tc + 2 ≤ c → c < boot.bpb.sectorsPerFat * boot.bpb.bps * 8 / 32 →
        Fat.view .fat32 (fatCopy g d' boot.bpb i) c = .eoc) := by
  obtain ⟨boot', ft', Lb, Lk, Lz, Lf, Lr, Lt, hf⟩ := h.facts
  obtain ⟨rfl, rfl⟩ := facts_unique hf hc
  have hg := hf.geom
  refine ⟨_, hg.tc, fun g i hi => ?_⟩
  generalize htcv : (fmtTotal o d - (boot'.bpb.reserved + boot'.bpb.fats * boot'.bpb.sectorsPerFat +
    boot'.bpb.rootDirSectors)) / boot'.bpb.spc = tc
  have htc := hg.tc; rw [htcv] at htc
  have hcapc := hg.cap; rw [htcv] at hcapc
  simp only [FatType.bits] at hcapc
  have hmax := hg.tcmax; rw [htcv] at hmax
  simp only [maxClusters] at hmax
  obtain ⟨b0, b1, e2, eE, eZ⟩ := fat32_bytes o d d' h hf tc htc hcap g i hi
  dsimp only at b0 b1 eZ
  have hB := hg.bps_ge
  have hZ1 : 512 ≤ boot'.bpb.sectorsPerFat * boot'.bpb.bps := by
    have := Nat.mul_le_mul hg.spf1 hB; omega
  generalize hZe : boot'.bpb.sectorsPerFat * boot'.bpb.bps = Z at *
  have hrd : ∀ x, x < Z → Fat.rd (fatCopy g d' boot'.bpb i) x =
      d'.bytes g (boot'.bpb.reserved * boot'.bpb.bps + i * Z + x) := by
    intro x hx
    rw [rd_fatCopy g d' boot'.bpb i x (by rw [hZe]; exact hx), hZe]
  have hsize : (fatCopy g d' boot'.bpb i).size = Z := by rw [fatCopy_size, hZe]
  refine ⟨?_, ?_, ?_, ?_, ?_⟩
  · simp only [Fat.getRaw, Fat.getRaw32, Fat.u32Lim, hsize]
    rw [if_neg (by omega), if_neg (by omega)]
    simp only [Fat.rd32, Nat.zero_mul, Nat.zero_add]
    rw [hrd 0 (by omega), hrd 1 (by omega), hrd 2 (by omega), hrd 3 (by omega), b0 0 (by omega), b0 1 (by omega),
      b0 2 (by omega), b0 3 (by omega)]
    simp only [bytesLe32, List.getD_cons_zero, List.getD_cons_succ]
    congr 1; omega
  · simp only [Fat.getRaw, Fat.getRaw32, Fat.u32Lim, hsize]
    rw [if_neg (by omega), if_neg (by omega)]
    simp only [Fat.rd32, Nat.one_mul]
    rw [hrd 4 (by omega), hrd 5 (by omega), hrd 6 (by omega), hrd 7 (by omega), b1 4 (by omega) (by omega),
      b1 5 (by omega) (by omega), b1 6 (by omega) (by omega), b1 7 (by omega) (by omega)]
  · rw [view32_of _ _ (by unfold Fat.u32Lim; omega) (by rw [hsize]; omega),
      rd32_of_entry e2 (fun x h1 h2 => hrd x (by omega))]
    decide
  · intro c h3 hlt
    have hz : ∀ x, c * 4 ≤ x → x < c * 4 + 4 → Fat.rd (fatCopy g d' boot'.bpb i) x = 0 := by
      intro x h1 h2
      rw [hrd x (by omega)]; exact eZ x (by omega) (by omega)
    rw [view32_of _ _ (by unfold Fat.u32Lim; omega) (by rw [hsize]; omega)]
    unfold Fat.rd32
    rw [hz _ (by omega) (by omega), hz _ (by omega) (by omega), hz _ (by omega) (by omega), hz _ (by omega) (by omega)]
    have hns : ¬ Fat.special32 c := by unfold Fat.special32; omega
    simp [Fat.classify32, hns]
  · intro c h1 h2
    rw [view32_of _ _ (by unfold Fat.u32Lim; omega) (by rw [hsize]; omega),
      rd32_of_entry (eE c h1 h2) (fun x h3 h4 => hrd x (by omega))]
    simp only [Fat.classify32]
    rw [if_neg (by omega), if_neg (by omega), if_pos (by omega)]

/-! ### all FAT copies are equal (every FAT type, FAT12 included) -/

theorem copiesEqual_outside {B Z M : Nat} {g : Nat → Nat} {L rest : List LogItem}
    (h : CopiesEqual B Z M (replay g rest))
    (hout : ∀ off bs, LogItem.write off bs ∈ L → off + bs.length ≤ B ∨ B + M * Z ≤ off) :
    CopiesEqual B Z M (replay g (L ++ rest)) := by
  intro i hi x hx
  have hb : B + i * Z + x < B + M * Z := by
    have := Nat.mul_le_mul_right Z (show i + 1 ≤ M from hi)
    rw [Nat.add_mul, Nat.one_mul] at this
    omega
  have hb0 : B + x < B + M * Z := by
    have := Nat.mul_le_mul_right Z (show 1 ≤ M by omega)
    omega
  rw [replay_skip g L rest _ (fun off bs hm hc => by rcases hout off bs hm with a | a <;> omega),
    replay_skip g L rest _ (fun off bs hm hc => by rcases hout off bs hm with a | a <;> omega)]
  exact h i hi x hx

theorem statusOff_le (fs : FsState) : statusOff fs + 1 ≤ 512 := by
  unfold statusOff; split <;> omega

/-- **all FAT copies hold the same bytes** after a successful `format_volume` (log replay over arbitrary previous
    contents), for FAT12, FAT16 and FAT32 alike: every FAT write of `format_fat`/`alloc_cluster` goes through the
    mirroring `DiskSlice`, and the zero fill covers all copies -/
theorem format_fat_copies_equal (o : FormatOpts) (d d' : Dev) (h : FormatRun o d d') :
    ∃ boot ft, formatChecked o (fmtTotal o d) = .ok (boot, ft) ∧ ∀ (g : Nat → Nat),
      CopiesEqual (boot.bpb.reserved * boot.bpb.bps) (boot.bpb.sectorsPerFat * boot.bpb.bps) boot.bpb.fats (d'.bytes g) := by
  obtain ⟨boot, ft, Lb, Lk, Lz, Lf, Lr, Lt, hf⟩ := h.facts
  refine ⟨boot, ft, hf.checked, fun g => ?_⟩
  have R := hf.regions
  have hg := hf.geom
  obtain ⟨d0, hl0, hs0, himg0, hlog⟩ := hf.log
  obtain ⟨dK, hsK, himgK, hsizeK, hfr⟩ := hlog.rest
  obtain ⟨tc, s, dA, dB, dC, htc, hsA, himgA, hsizeA, hrun, hsf, hsr, hsizeC, _⟩ := hfr.fmt
  rw [fmtSlice_eq boot.bpb ft hg.extFlags] at hrun
  have hmir : 0 < (fmtSlice boot.bpb).mirrors := by show 0 < boot.bpb.fats; have := hg.fats; omega
  have hbpsO : boot.bpb.bps = o.bps := by
    obtain ⟨c, _, _, _, _, _, _, _, hboot, _⟩ := formatChecked_ok_layout h.acc h.tot hf.checked
    rw [hboot]; rfl
  have hwinsz : (fmtSlice boot.bpb).beginOff + (fmtSlice boot.bpb).mirrors * (fmtSlice boot.bpb).size ≤ d.img.size :=
    Nat.le_trans hg.window_le (by rw [hbpsO]; exact h.size)
  have hinv : SliceInv (fmtSlice boot.bpb) (fmtSlice boot.bpb) := SliceInv.self (Nat.zero_le _)
  have hBge := fatBeg_ge hg
  have hB := hg.bps_ge
  have hwindow : boot.bpb.reserved * boot.bpb.bps + boot.bpb.fats * (boot.bpb.sectorsPerFat * boot.bpb.bps) =
      (boot.bpb.reserved + boot.bpb.fats * boot.bpb.sectorsPerFat) * boot.bpb.bps := (FmtGeom.fatEnd_eq).symm
  -- after the zero fill all copies are zero
  have c0 : CopiesEqual (boot.bpb.reserved * boot.bpb.bps) (boot.bpb.sectorsPerFat * boot.bpb.bps) boot.bpb.fats
      (replay g (Lz ++ (Lk ++ (Lb ++ d.writesOf)))) := by
    have zero : ∀ i, i < boot.bpb.fats → ∀ x, x < boot.bpb.sectorsPerFat * boot.bpb.bps →
        replay g (Lz ++ (Lk ++ (Lb ++ d.writesOf)))
          (boot.bpb.reserved * boot.bpb.bps + i * (boot.bpb.sectorsPerFat * boot.bpb.bps) + x) = 0 := by
      intro i hi x hx
      have := Nat.mul_le_mul_right (boot.bpb.sectorsPerFat * boot.bpb.bps) (show i + 1 ≤ boot.bpb.fats from hi)
      rw [Nat.add_mul, Nat.one_mul] at this
      rw [hf.fatZeroT.replay, List.length_replicate, Nat.mul_assoc boot.bpb.fats,
        if_pos ⟨by omega, by omega⟩, getD_replicate_zero]
    intro i hi x hx
    have z0 := zero 0 (by have := hg.fats; omega) x hx
    rw [Nat.zero_mul, Nat.add_zero] at z0
    rw [zero i hi x hx, z0]
  -- format_fat
  have hmsF := ((fat_ops_mirrored (sz := d.img.size) hmir hwinsz ft hinv).2.2.2 boot.bpb.media
    (boot.bpb.sectorsPerFat * boot.bpb.bps) tc).out dA s dB (by rw [hsizeA, hsizeK, hs0]) hrun
  obtain ⟨items, hit, c1⟩ := mirroredSeq_copies_equal hmsF.1
    (Nat.le_trans (statusOff_le _) (Nat.le_trans hB hBge)) _ c0
  have : items = Lf := Seg.unique hit hsf
  subst this
  rw [← replay_append] at c1
  -- root zero fill: outside the window
  have c2 : CopiesEqual (boot.bpb.reserved * boot.bpb.bps) (boot.bpb.sectorsPerFat * boot.bpb.bps) boot.bpb.fats
      (replay g (Lr ++ (items ++ (Lz ++ (Lk ++ (Lb ++ d.writesOf)))))) :=
    copiesEqual_outside c1 (fun off bs hm => Or.inr (by rw [hwindow]; exact (R.rootZero _ _ hm).1))
  rw [← Dev.bytes_writesOf, hf.writes]
  rcases R.tail with ⟨h32, La, Lc, Li, Ll, hLt, hWa, hTc, ⟨_, _, hTi⟩, hll, ⟨s2, dA2, dB2, hdev2, hrun2, hsa⟩⟩ | ⟨hne, hll⟩
  · subst h32
    have hmsA := ((fat_ops_mirrored (sz := dA2.img.size) hmir hdev2 .fat32 hinv).1 none none 1).out dA2 _ dB2 rfl hrun2
    obtain ⟨itemsA, hitA, c3⟩ := mirroredSeq_copies_equal hmsA.1
      (Nat.le_trans (statusOff_le _) (Nat.le_trans hB hBge)) _ c2
    have : itemsA = La := Seg.unique hitA hsa
    subst this
    rw [← replay_append] at c3
    rw [hLt]
    simp only [List.append_assoc]
    have o2 := fatBeg_32 hg rfl
    have hWi := hTi.within
    rw [List.length_append, List.length_replicate, List.length_take, fsInfoBytes_len] at hWi
    refine copiesEqual_outside (copiesEqual_outside (copiesEqual_outside c3 ?_) ?_) ?_
    · intro off bs hm; right; rw [hwindow]; exact (hTc.within _ _ hm).1
    · intro off bs hm; left; have := hWi _ _ hm; omega
    · intro off bs hm; right; rw [hwindow]; exact (labelSpec_within hll _ _ hm).1
  · exact copiesEqual_outside c2 (fun off bs hm => Or.inr (by rw [hwindow]; exact (labelSpec_within hll _ _ hm).1))

/-! ### scope of (2) at the log-replay level, and where the rest is

* **FAT12 entry values** are not derivable at the level of the write log alone (`Fat12::set` is a read-modify-write);
  they are proved on the IMAGE in `Props/C06fat12.lean` (`formatFat_view_fat12`), using the log-to-image theorem
  `run_img_eq_replay` (agent-effects, `Proofs/ImgReplay.lean`). `format_fat_copies_equal` here covers FAT12 too.
* **FAT32, reserved top bits.** `Fat32::set` keeps the top 4 bits it read; FAT32 entries are characterised up to those
  bits (`Entry32`), which is exactly what `Fat.view` looks at.
* **FAT32 with BAD markers** (`capacity > 0x0FFFFFF0`, i.e. FATs of more than 1 GiB): excluded by hypothesis `hcap`.
* **Success of the run** is a hypothesis (`FormatRun.ok`).
* **`format_then_mount`** is `Props/C06mount.lean`; the root directory on the image is `Props/C06root.lean`.
-/

/-! ## the hypotheses are satisfiable -/

namespace Ex
def okUnit : Except Err Unit → Bool | .ok _ => true | .error _ => false

theorem run_of_okUnit {p : Prog Unit} {d : Dev} (h : okUnit (run p d).1 = true) : run p d = (.ok (), (run p d).2) := by
  rcases hr : run p d with ⟨r, d'⟩
  rw [hr] at h
  cases r with
  | ok u => rfl
  | error e => cases h

/-- FAT12: 343 sectors, 16 root entries -/
def o12 : FormatOpts := { rootEntries := 16, totalSectors := some 343 }
def d12 : Dev := { img := Img.empty (343 * 512) }

/-- FAT16 with a label: 4200 sectors, 512-byte clusters -/
def o16 : FormatOpts :=
  { rootEntries := 16, totalSectors := some 4200, fatType := some .fat16, bpc := some 512,
    label := some [65, 66, 67, 32, 32, 32, 32, 32, 32, 32, 32] }
def d16 : Dev := { img := Img.empty (4200 * 512) }

def o32 : FormatOpts := { totalSectors := some 66700, fatType := some .fat32, bpc := some 512 }

theorem inRange_of (o : FormatOpts) (h1 : o.media < 256) (h2 : o.spt < 65536) (h3 : o.heads < 65536)
    (h4 : o.driveNum = none) (h5 : o.volumeId < 4294967296) (h6 : ∀ l, o.label = some l → l.length = 11) : InRange o :=
  ⟨h1, h2, h3, (by intro d hd; rw [h4] at hd; cases hd), h5, h6⟩

set_option maxRecDepth 100000 in
example : ∃ d', FormatRun o12 d12 d' := by
  refine ⟨_, ⟨by simp [o12], ?_, Or.inr rfl, by simp [o12]⟩,
    inRange_of _ (by simp [o12]) (by simp [o12]) (by simp [o12]) rfl (by simp [o12]) (by intro l h; cases h),
    run_of_okUnit (by decide +kernel), by decide, by decide⟩
  intro c h; cases h

set_option maxRecDepth 100000 in
example : ∃ d' boot, FormatRun o16 d16 d' ∧ formatChecked o16 (fmtTotal o16 d16) = .ok (boot, .fat16) := by
  have hrun : FormatRun o16 d16 (run (formatVolume o16) d16).2 := by
    refine ⟨⟨by simp [o16], ?_, Or.inr rfl, by simp [o16]⟩,
      inRange_of _ (by simp [o16]) (by simp [o16]) (by simp [o16]) rfl (by simp [o16]) ?_,
      run_of_okUnit (by decide +kernel), by decide, by decide⟩
    · intro c h; cases h; simp [bpcValues]
    · intro l h; cases h; rfl
  obtain ⟨boot, ft, Lb, Lk, Lz, Lf, Lr, Lt, hf⟩ := hrun.facts
  have hft : ft = .fat16 := by
    have hm := (formatChecked_ok_layout hrun.acc hrun.tot hf.checked).choose_spec.2.2.2.1
    simpa [o16, allowedTypes] using hm
  subst hft
  exact ⟨_, boot, hrun, hf.checked⟩

/-- the FAT32 hypotheses (at the level of the boot sector; a complete FAT32 run is too large for kernel evaluation) -/
example : ((formatChecked o32 66700).toOption.map fun r =>
    (r.2, decide (r.1.bpb.sectorsPerFat * r.1.bpb.bps * 8 / 32 ≤ 0x0FFFFFF0))) = some (.fat32, true) := by
  decide +kernel

end Ex

end FatVerif.C06image
