import FatVerif.Spec.Regions
/-!
# The region classifier of the C11 oracle leaves no written byte unjudged

`Spec.classify g off len` cuts a device write `[off, off+len)` into pieces `(region, offset, length)`; the write-region /
write-owner oracle (`allowedWriteWith`) judges every piece.  `Props/SpecSanity.lean` evaluates it on three ranges.  Here,
for EVERY geometry record, offset and length:

* `classify_tiles`: the pieces are non-empty, consecutive, start at `off` and end exactly at `off + len` (the fuel
  `len + 1` always suffices), and each piece carries the region of its first byte (`regionAt`);
* `classify_covers`: every byte of the write lies in exactly the piece the tiling assigns — so a write that touches a
  forbidden byte always produces a piece that contains that byte;
* `regionAt_stable`, `classify_pointwise`: every byte of a piece lies in the region the piece is labelled with (status
  byte, rest of the boot sector, FS-info, backup boot sector, other reserved sectors, FAT copy k, fixed root, cluster c,
  beyond the volume) — for every geometry whose status byte lies in the first sector, which `parseGeomF_status` proves
  of every geometry the oracles parse from a boot sector (`classify_pointwise_parsed`);
* `allowedWrite_iff_bytes`: the write-region / write-owner oracle is silent on a write exactly when every written byte
  lies in an allowed region (`regionAllowed`: status byte, FS-info, FATs, fixed root, clusters free before the
  operation, clusters of objects the operation names) — no false alarm and no miss relative to `regionAt` / `ownerOf`;
* `regionAt_cluster_iff`, `regionAt_fat_iff`, `regionAt_root_iff`, `regionAt_beyond_iff`, `regionAt_status_iff`,
  `regionAt_fsInfo_iff`: each label is exactly the byte range the layout offsets give it — "cluster c" is
  `[clusterOff c, clusterOff (c+1))` inside the data region and the declared volume (the range every other oracle
  reads as cluster c), "FAT copy k" is `[fatCopyStart k, fatCopyStart (k+1))`, "fixed root" is
  `[rootStart, dataStart)`, "beyond" is everything at or after the end of the last cluster or of the volume, the
  status byte is the byte at the BPB offset, the FS-info sector is sector `BPB_FSInfo` of a FAT32 volume.
-/
namespace FatVerif.Spec

/-- `ps` tiles `[a, b)`: non-empty consecutive pieces from `a` up to exactly `b`, each labelled with the region of its
    first byte -/
def Tiles (g : Geom) : List (Region × Nat × Nat) → Nat → Nat → Prop
  | [], a, b => b ≤ a
  | (r, o, l) :: ps, a, b => o = a ∧ 0 < l ∧ a + l ≤ b ∧ (regionAt g a).1 = r ∧ Tiles g ps (a + l) b

theorem classifyLoop_tiles (g : Geom) : ∀ (fuel off stop : Nat) (acc : Array (Region × Nat × Nat)),
    stop - off < fuel →
    ∃ ps, (classifyLoop g fuel off stop acc).toList = acc.toList ++ ps ∧ Tiles g ps off stop
  | 0, _, _, _, h => by omega
  | fuel + 1, off, stop, acc, h => by
    unfold classifyLoop
    split
    · exact ⟨[], by simp, by simp only [Tiles]; omega⟩
    · rename_i hlt
      generalize hre : regionAt g off = re
      obtain ⟨r, e⟩ := re
      simp only
      have step : ∀ e', off < e' → e' ≤ stop →
          ∃ ps, (classifyLoop g fuel e' stop (acc.push (r, off, e' - off))).toList = acc.toList ++ ps ∧
            Tiles g ps off stop := by
        intro e' h1 h2
        obtain ⟨ps, hps, ht⟩ := classifyLoop_tiles g fuel e' stop (acc.push (r, off, e' - off)) (by omega)
        refine ⟨(r, off, e' - off) :: ps, by simpa using hps, rfl, by omega, by omega, by rw [hre], ?_⟩
        have : off + (e' - off) = e' := by omega
        rw [this]; exact ht
      cases e with
      | none => exact step stop (by omega) (Nat.le_refl _)
      | some e =>
        simp only
        split
        · exact step stop (by omega) (Nat.le_refl _)
        · exact step (min e stop) (by omega) (by omega)

/-- **`classify_tiles`.**  The pieces of a write tile it exactly. -/
theorem classify_tiles (g : Geom) (off len : Nat) : Tiles g (classify g off len) off (off + len) := by
  obtain ⟨ps, hps, ht⟩ := classifyLoop_tiles g (len + 1) off (off + len) #[] (by omega)
  unfold classify
  rw [hps]
  simpa using ht

/-- a byte of a tiled range lies in one of the pieces -/
theorem Tiles.covers {g : Geom} : ∀ {ps : List (Region × Nat × Nat)} {a b : Nat}, Tiles g ps a b → ∀ q, a ≤ q → q < b →
    ∃ p ∈ ps, p.2.1 ≤ q ∧ q < p.2.1 + p.2.2
  | [], a, b, h, q, h1, h2 => by simp only [Tiles] at h; omega
  | (r, o, l) :: ps, a, b, h, q, h1, h2 => by
    obtain ⟨ho, _, _, _, ht⟩ := h
    by_cases hq : q < a + l
    · exact ⟨(r, o, l), by simp, by simp only; omega, by simp only; omega⟩
    · obtain ⟨p, hp, hh⟩ := ht.covers q (by omega) h2
      exact ⟨p, List.mem_cons_of_mem _ hp, hh⟩

/-- the pieces of a tiling stay inside the range -/
theorem Tiles.inside {g : Geom} : ∀ {ps : List (Region × Nat × Nat)} {a b : Nat}, Tiles g ps a b →
    ∀ p ∈ ps, a ≤ p.2.1 ∧ p.2.1 + p.2.2 ≤ b ∧ 0 < p.2.2 ∧ (regionAt g p.2.1).1 = p.1
  | [], _, _, _, p, hp => by cases hp
  | (r, o, l) :: ps, a, b, h, p, hp => by
    obtain ⟨ho, hl, hb, hr, ht⟩ := h
    rcases List.mem_cons.mp hp with e | hm
    · subst e; subst ho; exact ⟨Nat.le_refl _, hb, hl, hr⟩
    · obtain ⟨h1, h2, h3, h4⟩ := ht.inside p hm
      exact ⟨by omega, h2, h3, h4⟩

/-- **`classify_covers`.**  Every byte of a write `[off, off+len)` lies in a piece of its classification, every piece
    is a non-empty part of the write, and the piece is labelled with the region of its first byte: no written byte
    escapes the write-region / write-owner judgement, and nothing outside the write is judged. -/
theorem classify_covers (g : Geom) (off len : Nat) :
    (∀ q, off ≤ q → q < off + len → ∃ p ∈ classify g off len, p.2.1 ≤ q ∧ q < p.2.1 + p.2.2) ∧
    (∀ p ∈ classify g off len, off ≤ p.2.1 ∧ p.2.1 + p.2.2 ≤ off + len ∧ 0 < p.2.2 ∧ (regionAt g p.2.1).1 = p.1) :=
  ⟨(classify_tiles g off len).covers, (classify_tiles g off len).inside⟩

/-- an empty write has no piece -/
theorem classify_empty (g : Geom) (off : Nat) : classify g off 0 = [] := by
  have h := classify_tiles g off 0
  cases hc : classify g off 0 with
  | nil => rfl
  | cons p ps =>
    rw [hc] at h
    obtain ⟨r, o, l⟩ := p
    simp only [Tiles] at h
    omega

end FatVerif.Spec

/-! ## every byte of a piece lies in the piece's region; the oracle judges bytes -/

namespace FatVerif.Spec

theorem div_stable {a b q : Nat} (h1 : a ≤ q) (h2 : q < (a / b + 1) * b) : q / b = a / b := by
  apply Nat.div_eq_of_lt_le
  · exact Nat.le_trans (Nat.div_mul_le_self a b) h1
  · exact h2

theorem lt_succ_div_mul {a b : Nat} (hb : 0 < b) : a < (a / b + 1) * b := by
  have := Nat.div_add_mod a b
  have := Nat.mod_lt a hb
  rw [Nat.add_mul, Nat.one_mul, Nat.mul_comm]
  omega

theorem succ_div_mul_le {a b n : Nat} (h : a < n * b) : (a / b + 1) * b ≤ n * b := by
  apply Nat.mul_le_mul_right
  have hb : 0 < b := by
    rcases Nat.eq_zero_or_pos b with e | e
    · subst e; simp at h
    · exact e
  exact (Nat.div_lt_iff_lt_mul hb).mpr h

/-- layout facts that follow from the definitions alone -/
theorem Geom.fatStart_le_rootStart (g : Geom) : g.fatStart ≤ g.rootStart := by
  unfold Geom.fatStart Geom.rootStart
  exact Nat.mul_le_mul_right _ (Nat.le_add_right _ _)

theorem Geom.rootStart_eq (g : Geom) : g.rootStart = g.fatStart + g.fats * g.fatSizeBytes := by
  unfold Geom.fatStart Geom.rootStart Geom.fatSizeBytes
  rw [Nat.add_mul, Nat.mul_assoc]

theorem Geom.rootStart_le_dataStart (g : Geom) : g.rootStart ≤ g.dataStart := by
  unfold Geom.dataStart Geom.dataStartSector Geom.rootStart
  exact Nat.mul_le_mul_right _ (Nat.le_add_right _ _)

end FatVerif.Spec

namespace FatVerif.Spec

/-- the region of a sector `s ≥ 1` of the reserved area -/
def reservedSectorRegion (g : Geom) (s : Nat) : Region :=
  if g.fatBits = 32 ∧ g.fsInfoSector ≠ 0 ∧ s = g.fsInfoSector then .fsInfo
  else if g.fatBits = 32 ∧ g.backupSector ≠ 0 ∧ s = g.backupSector then .backupBoot
  else .reservedOther

theorem regionAt_status (g : Geom) (q : Nat) (h : q < g.fatStart) (hs : q / g.bps = 0) (he : q = g.statusByteOffset) :
    (regionAt g q).1 = .bootStatusByte := by
  subst he
  simp only [regionAt, h, hs, if_true]

theorem regionAt_bootOther (g : Geom) (q : Nat) (h : q < g.fatStart) (hs : q / g.bps = 0) (he : q ≠ g.statusByteOffset) :
    (regionAt g q).1 = .bootOther := by
  simp only [regionAt, h, hs, if_true, he, if_false]
  split <;> rfl

theorem regionAt_reserved (g : Geom) (q : Nat) (h : q < g.fatStart) (hs : q / g.bps ≠ 0) :
    (regionAt g q).1 = reservedSectorRegion g (q / g.bps) := by
  simp only [regionAt, h, hs, if_true, if_false, reservedSectorRegion]
  split
  · rfl
  · split <;> rfl

theorem regionAt_fat (g : Geom) (q : Nat) (h1 : ¬ q < g.fatStart) (h2 : q < g.rootStart) :
    (regionAt g q).1 = .fat ((q - g.fatStart) / g.fatSizeBytes) := by
  simp only [regionAt, h1, h2, if_true, if_false]

theorem regionAt_root (g : Geom) (q : Nat) (h1 : ¬ q < g.fatStart) (h2 : ¬ q < g.rootStart) (h3 : q < g.dataStart) :
    (regionAt g q).1 = .rootDir := by
  simp only [regionAt, h1, h2, h3, if_true, if_false]

theorem regionAt_cluster (g : Geom) (q : Nat) (h1 : ¬ q < g.fatStart) (h2 : ¬ q < g.rootStart) (h3 : ¬ q < g.dataStart)
    (h4 : q < g.dataEnd ∧ q < g.volumeBytes) :
    (regionAt g q).1 = .cluster ((q - g.dataStart) / g.clusterSize + 2) := by
  simp only [regionAt, h1, h2, h3, h4, if_true, if_false, and_self]

theorem regionAt_beyond (g : Geom) (q : Nat) (h1 : ¬ q < g.fatStart) (h2 : ¬ q < g.rootStart) (h3 : ¬ q < g.dataStart)
    (h4 : ¬ (q < g.dataEnd ∧ q < g.volumeBytes)) :
    (regionAt g q).1 = .beyondVolume := by
  simp only [regionAt, h1, h2, h3, h4, if_false]

end FatVerif.Spec

namespace FatVerif.Spec

theorem regionAt_status_end (g : Geom) (q : Nat) (h : q < g.fatStart) (hs : q / g.bps = 0) (he : q = g.statusByteOffset) :
    (regionAt g q).2 = some (q + 1) := by
  subst he
  simp only [regionAt, h, hs, if_true]

theorem regionAt_bootOther_end (g : Geom) (q : Nat) (h : q < g.fatStart) (hs : q / g.bps = 0)
    (he : q ≠ g.statusByteOffset) :
    (regionAt g q).2 = some (if q < g.statusByteOffset then g.statusByteOffset else g.bps) := by
  simp only [regionAt, h, hs, if_true, he, if_false]
  split <;> simp

theorem regionAt_reserved_end (g : Geom) (q : Nat) (h : q < g.fatStart) (hs : q / g.bps ≠ 0) :
    (regionAt g q).2 = some ((q / g.bps + 1) * g.bps) := by
  simp only [regionAt, h, hs, if_true, if_false]
  split
  · rfl
  · split <;> rfl

theorem regionAt_fat_end (g : Geom) (q : Nat) (h1 : ¬ q < g.fatStart) (h2 : q < g.rootStart) :
    (regionAt g q).2 = some (g.fatStart + ((q - g.fatStart) / g.fatSizeBytes + 1) * g.fatSizeBytes) := by
  simp only [regionAt, h1, h2, if_true, if_false, Geom.fatCopyStart]

theorem regionAt_root_end (g : Geom) (q : Nat) (h1 : ¬ q < g.fatStart) (h2 : ¬ q < g.rootStart) (h3 : q < g.dataStart) :
    (regionAt g q).2 = some g.dataStart := by
  simp only [regionAt, h1, h2, h3, if_true, if_false]

theorem regionAt_cluster_end (g : Geom) (q : Nat) (h1 : ¬ q < g.fatStart) (h2 : ¬ q < g.rootStart)
    (h3 : ¬ q < g.dataStart) (h4 : q < g.dataEnd ∧ q < g.volumeBytes) :
    (regionAt g q).2 =
      some (min (g.dataStart + ((q - g.dataStart) / g.clusterSize + 1) * g.clusterSize) g.volumeBytes) := by
  simp only [regionAt, h1, h2, h3, h4, if_true, if_false, and_self, Geom.clusterOff]
  congr 2

/-- **`regionAt_stable`.**  Every byte between `off` and the end `regionAt` reports for `off` lies in the region of
    `off` (boot sector: the status byte at its BPB offset inside the first sector). -/
theorem regionAt_stable (g : Geom) (hb : g.statusByteOffset < g.bps) (off q : Nat) (h1 : off ≤ q)
    (h2 : ∀ e, (regionAt g off).2 = some e → q < e) : (regionAt g q).1 = (regionAt g off).1 := by
  have hbps : 0 < g.bps := by omega
  by_cases hA : off < g.fatStart
  · -- reserved area: `q` stays in the sector of `off`, which ends before the FATs
    have hsecEnd : (off / g.bps + 1) * g.bps ≤ g.fatStart := succ_div_mul_le hA
    by_cases hs : off / g.bps = 0
    · have hoff : off < g.bps := by
        have := lt_succ_div_mul (a := off) hbps
        rw [hs] at this; simpa using this
      have hfs : g.bps ≤ g.fatStart := by rw [hs] at hsecEnd; simpa using hsecEnd
      by_cases he : off = g.statusByteOffset
      · have := h2 _ (regionAt_status_end g off hA hs he)
        have : q = off := by omega
        rw [this]
      · have hq := h2 _ (regionAt_bootOther_end g off hA hs he)
        have hqb : q < g.bps := by split at hq <;> omega
        have hqs : q / g.bps = 0 := Nat.div_eq_of_lt hqb
        have hqe : q ≠ g.statusByteOffset := by split at hq <;> omega
        rw [regionAt_bootOther g q (by omega) hqs hqe, regionAt_bootOther g off hA hs he]
    · have hq := h2 _ (regionAt_reserved_end g off hA hs)
      have hqs : q / g.bps = off / g.bps := div_stable h1 hq
      rw [regionAt_reserved g q (by omega) (by rw [hqs]; exact hs), regionAt_reserved g off hA hs, hqs]
  · by_cases hB : off < g.rootStart
    · -- a FAT copy
      have hq := h2 _ (regionAt_fat_end g off hA hB)
      have hrs := g.rootStart_eq
      have hlt : off - g.fatStart < g.fats * g.fatSizeBytes := by omega
      have hend := succ_div_mul_le hlt
      have hqs : (q - g.fatStart) / g.fatSizeBytes = (off - g.fatStart) / g.fatSizeBytes :=
        div_stable (by omega) (by omega)
      rw [regionAt_fat g q (by omega) (by omega), regionAt_fat g off hA hB, hqs]
    · have hfr := g.fatStart_le_rootStart
      have hrd := g.rootStart_le_dataStart
      by_cases hC : off < g.dataStart
      · have hq := h2 _ (regionAt_root_end g off hA hB hC)
        rw [regionAt_root g q (by omega) (by omega) hq, regionAt_root g off hA hB hC]
      · by_cases hD : off < g.dataEnd ∧ off < g.volumeBytes
        · have hq := h2 _ (regionAt_cluster_end g off hA hB hC hD)
          have hlt : off - g.dataStart < g.totalClusters * g.clusterSize := by
            have := hD.1; unfold Geom.dataEnd at this; omega
          have hend := succ_div_mul_le hlt
          have hq1 : q < g.dataStart + ((off - g.dataStart) / g.clusterSize + 1) * g.clusterSize :=
            Nat.lt_of_lt_of_le hq (Nat.min_le_left _ _)
          have hq2 : q < g.volumeBytes := Nat.lt_of_lt_of_le hq (Nat.min_le_right _ _)
          have hqs : (q - g.dataStart) / g.clusterSize = (off - g.dataStart) / g.clusterSize :=
            div_stable (by omega) (by omega)
          have hqe : q < g.dataEnd := by unfold Geom.dataEnd; omega
          rw [regionAt_cluster g q (by omega) (by omega) (by omega) ⟨hqe, hq2⟩,
            regionAt_cluster g off hA hB hC hD, hqs]
        · rw [regionAt_beyond g q (by omega) (by omega) (by omega) (by omega),
            regionAt_beyond g off hA hB hC hD]

end FatVerif.Spec

namespace FatVerif.Spec

theorem regionAt_end_gt (g : Geom) (hb : g.statusByteOffset < g.bps) (off e : Nat)
    (h : (regionAt g off).2 = some e) : off < e := by
  have hbps : 0 < g.bps := by omega
  by_cases hA : off < g.fatStart
  · by_cases hs : off / g.bps = 0
    · have hoff : off < g.bps := by
        have := lt_succ_div_mul (a := off) hbps
        rw [hs] at this; simpa using this
      by_cases he : off = g.statusByteOffset
      · rw [regionAt_status_end g off hA hs he] at h; cases h; omega
      · rw [regionAt_bootOther_end g off hA hs he] at h; cases h; split <;> omega
    · rw [regionAt_reserved_end g off hA hs] at h; cases h; exact lt_succ_div_mul hbps
  · by_cases hB : off < g.rootStart
    · rw [regionAt_fat_end g off hA hB] at h; cases h
      have hrs := g.rootStart_eq
      have hpos : 0 < g.fatSizeBytes := by
        rcases Nat.eq_zero_or_pos g.fatSizeBytes with e0 | e0
        · rw [e0] at hrs; simp at hrs; omega
        · exact e0
      have := lt_succ_div_mul (a := off - g.fatStart) hpos
      omega
    · by_cases hC : off < g.dataStart
      · rw [regionAt_root_end g off hA hB hC] at h; cases h; exact hC
      · by_cases hD : off < g.dataEnd ∧ off < g.volumeBytes
        · rw [regionAt_cluster_end g off hA hB hC hD] at h; cases h
          have hpos : 0 < g.clusterSize := by
            rcases Nat.eq_zero_or_pos g.clusterSize with e0 | e0
            · have := hD.1; unfold Geom.dataEnd at this; rw [e0] at this; simp at this; omega
            · exact e0
          have := lt_succ_div_mul (a := off - g.dataStart) hpos
          have := hD.2
          rw [Nat.lt_min]
          constructor <;> omega
        · have : (regionAt g off).2 = none := by simp only [regionAt, hA, hB, hC, hD, if_false]
          rw [this] at h; cases h

/-- every piece the loop appends ends no later than the region end reported for its first byte -/
theorem classifyLoop_ends (g : Geom) (hb : g.statusByteOffset < g.bps) :
    ∀ (fuel off stop : Nat) (acc : Array (Region × Nat × Nat)),
    ∀ p ∈ (classifyLoop g fuel off stop acc).toList,
      p ∈ acc.toList ∨ ∀ e, (regionAt g p.2.1).2 = some e → p.2.1 + p.2.2 ≤ e
  | 0, _, _, _, p, hp => by simp only [classifyLoop] at hp; exact .inl hp
  | fuel + 1, off, stop, acc, p, hp => by
    unfold classifyLoop at hp
    split at hp
    · exact .inl hp
    · rename_i hlt
      generalize hre : regionAt g off = re at hp
      obtain ⟨r, e⟩ := re
      simp only at hp
      have step : ∀ e', off < e' → (∀ e0, e = some e0 → e' ≤ e0) →
          p ∈ (classifyLoop g fuel e' stop (acc.push (r, off, e' - off))).toList →
          p ∈ acc.toList ∨ ∀ e, (regionAt g p.2.1).2 = some e → p.2.1 + p.2.2 ≤ e := by
        intro e' h1 h2 hm
        rcases classifyLoop_ends g hb fuel e' stop _ p hm with h | h
        · simp only [Array.toList_push, List.mem_append, List.mem_singleton] at h
          rcases h with h | h
          · exact .inl h
          · subst h
            refine .inr fun e0 he0 => ?_
            simp only at he0 ⊢
            rw [hre] at he0
            have := h2 e0 he0
            omega
        · exact .inr h
      cases e with
      | none => exact step stop (by omega) (by intro _ h; cases h) hp
      | some e =>
        have hgt : off < e := regionAt_end_gt g hb off e (by rw [hre])
        simp only at hp
        rw [if_neg (by omega)] at hp
        exact step (min e stop) (by omega) (by intro e0 h; cases h; exact Nat.min_le_left _ _) hp

/-- **`classify_pointwise`.**  In the classification of a write, EVERY byte of a piece lies in the region the piece is
    labelled with (boot sector, FS-info sector, a FAT copy, the fixed root, one particular cluster, beyond the volume):
    the judgement `allowedWriteWith` passes on a piece is a judgement on each of its bytes.  Hypothesis: the status
    byte lies in the first sector (offsets 0x25 / 0x41, sectors of at least 512 bytes). -/
theorem classify_pointwise (g : Geom) (hb : g.statusByteOffset < g.bps) (off len : Nat) :
    ∀ p ∈ classify g off len, ∀ q, p.2.1 ≤ q → q < p.2.1 + p.2.2 → (regionAt g q).1 = p.1 := by
  intro p hp q h1 h2
  have hin := (classify_tiles g off len).inside p hp
  have hend : ∀ e, (regionAt g p.2.1).2 = some e → p.2.1 + p.2.2 ≤ e := by
    rcases classifyLoop_ends g hb (len + 1) off (off + len) #[] p hp with h | h
    · simp at h
    · exact h
  rw [regionAt_stable g hb p.2.1 q h1 (fun e he => by have := hend e he; omega)]
  exact hin.2.2.2

end FatVerif.Spec

namespace FatVerif.Spec

def OkOnly (g : Geom) (x : Except String Geom) : Prop := ∀ g', x = .ok g' → g' = g
theorem okOnly_error (g : Geom) (e : String) : OkOnly g (.error e) := fun _ h => by cases h
theorem okOnly_ok (g : Geom) : OkOnly g (.ok g) := fun _ h => by cases h; rfl
theorem okOnly_ite (g : Geom) (c : Prop) [Decidable c] (a b : Except String Geom) (ha : OkOnly g a) (hb : OkOnly g b) :
    OkOnly g (if c then a else b) := by split <;> assumption

theorem checkGeom_okOnly (b : BpbRaw) (g : Geom) : OkOnly g (checkGeom b g) := by
  unfold checkGeom
  repeat' (first | apply okOnly_ite | apply okOnly_error | apply okOnly_ok)

theorem checkGeom_ok (b : BpbRaw) (g g' : Geom) (h : checkGeom b g = .ok g') :
    g' = g ∧ (g.bps = 512 ∨ g.bps = 1024 ∨ g.bps = 2048 ∨ g.bps = 4096) := by
  refine ⟨checkGeom_okOnly b g g' h, ?_⟩
  by_cases hs : b.sig ≠ 0xAA55
  · unfold checkGeom at h; rw [if_pos hs] at h; cases h
  · cases hc : (g.bps == 512 || g.bps == 1024 || g.bps == 2048 || g.bps == 4096) with
    | true =>
      have : ((g.bps = 512 ∨ g.bps = 1024) ∨ g.bps = 2048) ∨ g.bps = 4096 := by simpa using hc
      omega
    | false =>
      unfold checkGeom at h
      rw [if_neg hs, hc, if_pos (by rfl)] at h
      cases h

theorem ite_prop {α : Type} {P : α → Prop} (c : Prop) [Decidable c] (a b : α) (ha : P a) (hb : P b) :
    P (if c then a else b) := by split <;> assumption

theorem geomOfBpb_status (b : BpbRaw) :
    (geomOfBpb b).bps = b.bps ∧ ((geomOfBpb b).statusByteOffset = 0x25 ∨ (geomOfBpb b).statusByteOffset = 0x41) := by
  unfold geomOfBpb
  simp only
  exact ite_prop (P := fun g : Geom => g.bps = b.bps ∧ (g.statusByteOffset = 0x25 ∨ g.statusByteOffset = 0x41)) _ _ _
    ⟨rfl, .inl rfl⟩
    (ite_prop (P := fun g : Geom => g.bps = b.bps ∧ (g.statusByteOffset = 0x25 ∨ g.statusByteOffset = 0x41)) _ _ _
      ⟨rfl, .inl rfl⟩ ⟨rfl, .inr rfl⟩)

/-- a geometry the oracles parse from a boot sector satisfies the hypothesis of `classify_pointwise` -/
theorem parseGeomF_status (rd : Nat → Nat) (g : Geom) (h : parseGeomF rd = .ok g) : g.statusByteOffset < g.bps := by
  unfold parseGeomF at h
  simp only at h
  split at h
  · cases h
  · obtain ⟨e, hb⟩ := checkGeom_ok _ _ _ h
    subst e
    have := geomOfBpb_status (readBpb rd)
    omega

/-- **`classify_pointwise_parsed`.**  For the geometry parsed from ANY boot sector the oracles accept: every byte of
    every piece of every write lies in the region the piece is labelled with. -/
theorem classify_pointwise_parsed (rd : Nat → Nat) (g : Geom) (h : parseGeomF rd = .ok g) (off len : Nat) :
    ∀ p ∈ classify g off len, ∀ q, p.2.1 ≤ q → q < p.2.1 + p.2.2 → (regionAt g q).1 = p.1 :=
  classify_pointwise g (parseGeomF_status rd g h) off len

end FatVerif.Spec

namespace FatVerif.Spec

/-- what the C11 oracle lets a write touch, per region: the status byte, the FS-info sector, the FAT copies, the fixed
    root, clusters that are free in the image BEFORE the operation, clusters of an object the operation names -/
def regionAllowed (g : Geom) (pre : Img) (owners : Std.HashMap Nat Owner) (touched : List String)
    (upper : Char → List Char) : Region → Bool
  | .bootStatusByte | .fsInfo | .fat _ | .rootDir => true
  | .bootOther | .backupBoot | .reservedOther | .beyondVolume => false
  | .cluster c =>
    match ownerOf g pre owners c with
    | .free => true
    | .bad => false
    | .lost => false
    | .owned p _ => ownerNamed upper touched p

theorem allowedWriteWith_none_iff_pieces (g : Geom) (pre : Img) (owners : Std.HashMap Nat Owner)
    (touched : List String) (off len : Nat) (upper : Char → List Char) :
    allowedWriteWith g pre owners touched off len upper = none ↔
      ∀ p ∈ classify g off len, regionAllowed g pre owners touched upper p.1 = true := by
  unfold allowedWriteWith
  rw [List.findSome?_eq_none_iff]
  constructor
  · intro h p hp
    have := h p hp
    obtain ⟨r, o, l⟩ := p
    cases r <;> simp only [regionAllowed] at this ⊢ <;> try (first | rfl | cases this)
    rename_i c
    split at this <;> simp_all
  · intro h p hp
    have := h p hp
    obtain ⟨r, o, l⟩ := p
    cases r <;> simp only [regionAllowed] at this ⊢ <;> try (first | rfl | cases this)
    rename_i c
    split at this <;> simp_all

/-- **`allowedWrite_iff_bytes`.**  The write-region / write-owner oracle is silent on a device write exactly when EVERY
    byte of the write lies in a region the property lets the operation modify (judged against the image before the
    operation): it raises no alarm without a forbidden byte, and no forbidden byte escapes it. -/
theorem allowedWrite_iff_bytes (g : Geom) (hb : g.statusByteOffset < g.bps) (pre : Img)
    (owners : Std.HashMap Nat Owner) (touched : List String) (off len : Nat) (upper : Char → List Char) :
    allowedWriteWith g pre owners touched off len upper = none ↔
      ∀ q, off ≤ q → q < off + len → regionAllowed g pre owners touched upper (regionAt g q).1 = true := by
  rw [allowedWriteWith_none_iff_pieces]
  constructor
  · intro h q h1 h2
    obtain ⟨p, hp, hq1, hq2⟩ := (classify_covers g off len).1 q h1 h2
    rw [classify_pointwise g hb off len p hp q hq1 hq2]
    exact h p hp
  · intro h p hp
    obtain ⟨h1, h2, h3, h4⟩ := (classify_covers g off len).2 p hp
    rw [← h4]
    exact h p.2.1 h1 (by omega)

end FatVerif.Spec

/-! ## what each region label means, in terms of the layout offsets -/

namespace FatVerif.Spec

theorem reservedSectorRegion_cases (g : Geom) (s : Nat) :
    reservedSectorRegion g s = .fsInfo ∨ reservedSectorRegion g s = .backupBoot ∨
    reservedSectorRegion g s = .reservedOther := by
  unfold reservedSectorRegion
  split
  · exact .inl rfl
  · split
    · exact .inr (.inl rfl)
    · exact .inr (.inr rfl)

/-- the seven zones of `regionAt`, as one case split -/
theorem regionAt_zones (g : Geom) (q : Nat) :
    (q < g.fatStart ∧ ((regionAt g q).1 = .bootStatusByte ∨ (regionAt g q).1 = .bootOther ∨ (regionAt g q).1 = .fsInfo ∨
        (regionAt g q).1 = .backupBoot ∨ (regionAt g q).1 = .reservedOther)) ∨
    (g.fatStart ≤ q ∧ q < g.rootStart ∧ (regionAt g q).1 = .fat ((q - g.fatStart) / g.fatSizeBytes)) ∨
    (g.rootStart ≤ q ∧ q < g.dataStart ∧ (regionAt g q).1 = .rootDir) ∨
    (g.dataStart ≤ q ∧ q < g.dataEnd ∧ q < g.volumeBytes ∧
        (regionAt g q).1 = .cluster ((q - g.dataStart) / g.clusterSize + 2)) ∨
    (g.dataStart ≤ q ∧ ¬ (q < g.dataEnd ∧ q < g.volumeBytes) ∧ (regionAt g q).1 = .beyondVolume) := by
  have hfr := g.fatStart_le_rootStart
  have hrd := g.rootStart_le_dataStart
  by_cases hA : q < g.fatStart
  · refine .inl ⟨hA, ?_⟩
    by_cases hs : q / g.bps = 0
    · by_cases he : q = g.statusByteOffset
      · exact .inl (regionAt_status g q hA hs he)
      · exact .inr (.inl (regionAt_bootOther g q hA hs he))
    · rw [regionAt_reserved g q hA hs]
      rcases reservedSectorRegion_cases g (q / g.bps) with h | h | h <;> rw [h] <;> simp
  · by_cases hB : q < g.rootStart
    · exact .inr (.inl ⟨by omega, hB, regionAt_fat g q hA hB⟩)
    · by_cases hC : q < g.dataStart
      · exact .inr (.inr (.inl ⟨by omega, hC, regionAt_root g q hA hB hC⟩))
      · by_cases hD : q < g.dataEnd ∧ q < g.volumeBytes
        · exact .inr (.inr (.inr (.inl ⟨by omega, hD.1, hD.2, regionAt_cluster g q hA hB hC hD⟩)))
        · exact .inr (.inr (.inr (.inr ⟨by omega, hD, regionAt_beyond g q hA hB hC hD⟩)))

/-- **`regionAt_root_iff`**: "fixed root" = the bytes between the FAT copies and the data region -/
theorem regionAt_root_iff (g : Geom) (q : Nat) :
    (regionAt g q).1 = .rootDir ↔ (g.rootStart ≤ q ∧ q < g.dataStart) := by
  constructor
  · intro h
    rcases regionAt_zones g q with ⟨_, h1⟩ | ⟨_, _, h1⟩ | ⟨a, b, _⟩ | ⟨_, _, _, h1⟩ | ⟨_, _, h1⟩
    · rw [h] at h1; simp at h1
    · rw [h] at h1; cases h1
    · exact ⟨a, b⟩
    · rw [h] at h1; cases h1
    · rw [h] at h1; cases h1
  · rintro ⟨a, b⟩
    have hfr := g.fatStart_le_rootStart
    exact regionAt_root g q (by omega) (by omega) b

/-- **`regionAt_fat_iff`**: "FAT copy `k`" = the bytes `[fatCopyStart k, fatCopyStart (k+1))` before the root region -/
theorem regionAt_fat_iff (g : Geom) (hf : 0 < g.fatSizeBytes) (q k : Nat) :
    (regionAt g q).1 = .fat k ↔ (g.fatCopyStart k ≤ q ∧ q < g.fatCopyStart (k + 1) ∧ q < g.rootStart) := by
  unfold Geom.fatCopyStart
  constructor
  · intro h
    rcases regionAt_zones g q with ⟨_, h1⟩ | ⟨a, b, h1⟩ | ⟨_, _, h1⟩ | ⟨_, _, _, h1⟩ | ⟨_, _, h1⟩
    · rw [h] at h1; simp at h1
    · rw [h] at h1; cases h1
      have h2 := Nat.div_mul_le_self (q - g.fatStart) g.fatSizeBytes
      have h3 := lt_succ_div_mul (a := q - g.fatStart) hf
      generalize (q - g.fatStart) / g.fatSizeBytes = n at h2 h3 ⊢
      rw [Nat.add_mul, Nat.one_mul] at h3 ⊢
      omega
    · rw [h] at h1; cases h1
    · rw [h] at h1; cases h1
    · rw [h] at h1; cases h1
  · rintro ⟨a, b, c⟩
    rw [Nat.add_mul, Nat.one_mul] at b
    rw [regionAt_fat g q (by omega) c]
    have : (q - g.fatStart) / g.fatSizeBytes = k :=
      Nat.div_eq_of_lt_le (by omega) (by rw [Nat.add_mul, Nat.one_mul]; omega)
    rw [this]

/-- **`regionAt_beyond_iff`**: "beyond the volume" = at or after the end of the last cluster or of the declared
    volume (and not before the data region) -/
theorem regionAt_beyond_iff (g : Geom) (q : Nat) :
    (regionAt g q).1 = .beyondVolume ↔ (g.dataStart ≤ q ∧ (g.dataEnd ≤ q ∨ g.volumeBytes ≤ q)) := by
  constructor
  · intro h
    rcases regionAt_zones g q with ⟨_, h1⟩ | ⟨_, _, h1⟩ | ⟨_, _, h1⟩ | ⟨_, _, _, h1⟩ | ⟨a, b, _⟩
    · rw [h] at h1; simp at h1
    · rw [h] at h1; cases h1
    · rw [h] at h1; cases h1
    · rw [h] at h1; cases h1
    · exact ⟨a, by omega⟩
  · rintro ⟨a, b⟩
    have hfr := g.fatStart_le_rootStart
    have hrd := g.rootStart_le_dataStart
    exact regionAt_beyond g q (by omega) (by omega) (by omega) (by omega)

end FatVerif.Spec

namespace FatVerif.Spec

/-- **`regionAt_cluster_iff`.**  The classifier labels a byte "cluster `c`" exactly when the byte lies in
    `[clusterOff c, clusterOff (c+1))` — the byte range every other oracle (content decoding, extents, Fsck) reads as
    cluster `c` — inside the data region and inside the declared volume; `c` is then a valid cluster number. -/
theorem regionAt_cluster_iff (g : Geom) (hcs : 0 < g.clusterSize) (q c : Nat) :
    (regionAt g q).1 = .cluster c ↔
      (2 ≤ c ∧ g.clusterOff c ≤ q ∧ q < g.clusterOff (c + 1) ∧ q < g.dataEnd ∧ q < g.volumeBytes) := by
  have hfr := g.fatStart_le_rootStart
  have hrd := g.rootStart_le_dataStart
  constructor
  · intro h
    by_cases hA : q < g.fatStart
    · by_cases hs : q / g.bps = 0
      · by_cases he : q = g.statusByteOffset
        · rw [regionAt_status g q hA hs he] at h; cases h
        · rw [regionAt_bootOther g q hA hs he] at h; cases h
      · rw [regionAt_reserved g q hA hs] at h
        unfold reservedSectorRegion at h
        split at h
        · cases h
        · split at h <;> cases h
    · by_cases hB : q < g.rootStart
      · rw [regionAt_fat g q hA hB] at h; cases h
      · by_cases hC : q < g.dataStart
        · rw [regionAt_root g q hA hB hC] at h; cases h
        · by_cases hD : q < g.dataEnd ∧ q < g.volumeBytes
          · rw [regionAt_cluster g q hA hB hC hD] at h
            cases h
            have h1 := Nat.div_mul_le_self (q - g.dataStart) g.clusterSize
            have h2 := lt_succ_div_mul (a := q - g.dataStart) hcs
            rw [Nat.add_mul, Nat.one_mul] at h2
            generalize (q - g.dataStart) / g.clusterSize = n at h1 h2 ⊢
            refine ⟨by omega, ?_, ?_, hD.1, hD.2⟩
            · unfold Geom.clusterOff
              have : n + 2 - 2 = n := by omega
              rw [this]; omega
            · unfold Geom.clusterOff
              have : n + 2 + 1 - 2 = n + 1 := by omega
              rw [this, Nat.add_mul, Nat.one_mul]; omega
          · rw [regionAt_beyond g q hA hB hC hD] at h; cases h
  · rintro ⟨h2, hlo, hhi, hde, hvb⟩
    unfold Geom.clusterOff at hlo hhi
    have e1 : c + 1 - 2 = (c - 2) + 1 := by omega
    rw [e1, Nat.add_mul, Nat.one_mul] at hhi
    have hq : g.dataStart ≤ q := by omega
    rw [regionAt_cluster g q (by omega) (by omega) (by omega) ⟨hde, hvb⟩]
    have : (q - g.dataStart) / g.clusterSize = c - 2 :=
      Nat.div_eq_of_lt_le (by omega) (by rw [Nat.add_mul, Nat.one_mul]; omega)
    rw [this]
    congr 1
    omega

/-- a byte labelled "cluster `c`" belongs to a cluster of the volume -/
theorem regionAt_cluster_valid (g : Geom) (hcs : 0 < g.clusterSize) (q c : Nat)
    (h : (regionAt g q).1 = .cluster c) : g.validCluster c = true := by
  obtain ⟨h2, hlo, _, hde, _⟩ := (regionAt_cluster_iff g hcs q c).mp h
  unfold Geom.clusterOff at hlo
  unfold Geom.dataEnd at hde
  have : (c - 2) * g.clusterSize < g.totalClusters * g.clusterSize := by omega
  have := Nat.lt_of_mul_lt_mul_right this
  simp [Geom.validCluster]
  omega

end FatVerif.Spec

namespace FatVerif.Spec

/-- **`regionAt_status_iff`**: the one byte the classifier calls "status byte" is the byte at the BPB offset of
    `BS_Reserved1` (0x25 / 0x41), for every geometry with at least one reserved sector -/
theorem regionAt_status_iff (g : Geom) (hb : g.statusByteOffset < g.bps) (hr : 0 < g.reserved) (q : Nat) :
    (regionAt g q).1 = .bootStatusByte ↔ q = g.statusByteOffset := by
  have hfs : g.bps ≤ g.fatStart := by
    unfold Geom.fatStart
    exact Nat.le_mul_of_pos_left _ hr
  constructor
  · intro h
    by_cases hA : q < g.fatStart
    · by_cases hs : q / g.bps = 0
      · by_cases he : q = g.statusByteOffset
        · exact he
        · rw [regionAt_bootOther g q hA hs he] at h; cases h
      · rw [regionAt_reserved g q hA hs] at h
        unfold reservedSectorRegion at h
        split at h
        · cases h
        · split at h <;> cases h
    · by_cases hB : q < g.rootStart
      · rw [regionAt_fat g q hA hB] at h; cases h
      · by_cases hC : q < g.dataStart
        · rw [regionAt_root g q hA hB hC] at h; cases h
        · by_cases hD : q < g.dataEnd ∧ q < g.volumeBytes
          · rw [regionAt_cluster g q hA hB hC hD] at h; cases h
          · rw [regionAt_beyond g q hA hB hC hD] at h; cases h
  · intro he
    exact regionAt_status g q (by omega) (Nat.div_eq_of_lt (by omega)) he

/-- **`regionAt_fsInfo_iff`**: "FS-info sector" = the bytes of sector `BPB_FSInfo` of a FAT32 volume, inside the
    reserved area -/
theorem regionAt_fsInfo_iff (g : Geom) (q : Nat) :
    (regionAt g q).1 = .fsInfo ↔
      (q < g.fatStart ∧ g.fatBits = 32 ∧ g.fsInfoSector ≠ 0 ∧ q / g.bps = g.fsInfoSector) := by
  constructor
  · intro h
    by_cases hA : q < g.fatStart
    · by_cases hs : q / g.bps = 0
      · by_cases he : q = g.statusByteOffset
        · rw [regionAt_status g q hA hs he] at h; cases h
        · rw [regionAt_bootOther g q hA hs he] at h; cases h
      · rw [regionAt_reserved g q hA hs] at h
        unfold reservedSectorRegion at h
        split at h
        · rename_i hc; exact ⟨hA, hc⟩
        · split at h <;> cases h
    · by_cases hB : q < g.rootStart
      · rw [regionAt_fat g q hA hB] at h; cases h
      · by_cases hC : q < g.dataStart
        · rw [regionAt_root g q hA hB hC] at h; cases h
        · by_cases hD : q < g.dataEnd ∧ q < g.volumeBytes
          · rw [regionAt_cluster g q hA hB hC hD] at h; cases h
          · rw [regionAt_beyond g q hA hB hC hD] at h; cases h
  · rintro ⟨hA, h32, hne, hq⟩
    have hs : q / g.bps ≠ 0 := by rw [hq]; exact hne
    rw [regionAt_reserved g q hA hs]
    unfold reservedSectorRegion
    rw [if_pos ⟨h32, hne, hq⟩]

end FatVerif.Spec
