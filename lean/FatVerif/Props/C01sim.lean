import FatVerif.Proofs.DirReadSim4
/-! # C01 (simulation) — the effectful directory READER is the pure reader on the bytes of the image

The directory code of the model (`Model/DirOps.lean`, programs over a device) and the slot-list algebra
(`Model/Lfn.lean`, `DirSlots.lean`, `DirAlias.lean`, on which the C01/C03/C16/C17 theorems are stated) are tied here by
forward evaluation theorems: on a device on which no fault is scheduled, the programs `readSlot`, `readDirEntry`,
`listDir`, `findEntryG`, `findEntry` RETURN what the pure functions compute from the slots of the image, and leave image,
log, mounted state and fault schedule alone (`Evals p d v := ∃ d', run p d = (.ok v, d') ∧ SameStore d d'`).

Scope of this file: the FIXED ROOT directory of a FAT12/16 volume (`rootDirStream fs = .root (rootSliceOf fs)`), whose
slots are the 32-byte records of the root region `[(firstDataSector - rootDirSectors) * bps, + rootDirSectors * bps)`.
Cluster-chain directories (FAT32 root, sub-directories: `File::read` across cluster boundaries through the FAT) are not
covered yet; nor are the writes. -/
namespace FatVerif.DirSim

/-- the slots of the fixed root directory of a volume with geometry `fs`, as a function of the image -/
def rootDirSlots (fs : FsState) (img : Img) : List (List Nat) := rootSlots img (rootSliceOf fs)

/-- the standing hypotheses: no fault scheduled, the root region inside the device, made of `N` whole slots, and
    fewer slots than the scan fuel `dirFuel` (true of every volume `mount` accepts: `N ≤ root_entries + bps/32`) -/
structure RootReadable (d : Dev) (N : Nat) : Prop where
  noFault : d.failAt = none
  inside : (rootSliceOf d.fs).beginOff + (rootSliceOf d.fs).size ≤ d.img.size
  slots : (rootSliceOf d.fs).size = 32 * N
  fuel : N < dirFuel d.fs

theorem rootDirSlots_length {d : Dev} {N : Nat} (h : RootReadable d N) : (rootDirSlots d.fs d.img).length = N := by
  unfold rootDirSlots; rw [rootSlots_length, h.slots]; omega

theorem rootDirSlots_get {d : Dev} {N : Nat} (h : RootReadable d N) (j : Nat) (hj : j < N) :
    (rootDirSlots d.fs d.img).getD j [] = d.img.read ((rootSliceOf d.fs).beginOff + 32 * j) 32 := by
  have := rootSlots_drop_getD (rootSliceOf d.fs) N h.slots d.img 0 j (by
    rw [List.drop_zero, rootSlots_length, h.slots]; omega)
  unfold rootDirSlots
  simpa using this

/-- the root stream positioned at slot `i` -/
def rootAt (fs : FsState) (i : Nat) : DirStream := .root (sliceAt (rootSliceOf fs) (32 * i))

theorem rootAt_zero (fs : FsState) : rootAt fs 0 = .root (rootSliceOf fs) := rfl

/-- **`readSlot_sim`** (inside the region): at slot `i < N`, `DirEntryData::deserialize` returns slot `i` of the image
    (read as 11 + 1 + 20 bytes) and the stream stands at slot `i + 1` -/
theorem readSlot_root_sim {d : Dev} {N : Nat} (h : RootReadable d N) (i : Nat) (hi : i < N) :
    Evals (readSlot (rootAt d.fs i)) d ((rootDirSlots d.fs d.img).getD i [], rootAt d.fs (i + 1)) := by
  rw [rootDirSlots_get h i hi]
  have := root_readSlot_evals (rootSliceOf d.fs) (32 * i) d h.noFault (by rw [h.slots]; omega) h.inside
  rw [show 32 * i + 32 = 32 * (i + 1) by omega] at this
  exact this

/-- **`readSlot_sim`** (at the end of the allocated space): at slot `N` the `UnexpectedEof` of the first `read_exact` is
    caught by `deserialize`, which returns the all-zero record — an end-of-directory marker — and the stream stays -/
theorem readSlot_root_end {d : Dev} {N : Nat} (h : RootReadable d N) :
    Evals (readSlot (rootAt d.fs N)) d (List.replicate 32 0, rootAt d.fs N) := by
  have := root_readSlot_end (rootSliceOf d.fs) d h.noFault h.inside
  unfold rootAt; rw [← h.slots]; exact this

/-- **`readDirEntry_sim`**: one `DirIter::next` from slot `i` = one `nextEntry` of the pure reader on the remaining
    slots (fresh long-name builder, `begin_offset` = the position) -/
theorem readDirEntry_root_sim {d : Dev} {N : Nat} (h : RootReadable d N) (skipVolume : Bool) (i : Nat) (hi : i ≤ N) :
    Evals (readDirEntry skipVolume (rootAt d.fs i)) d
      (((nextEntry d.fs.lfnAlloc skipVolume ((rootDirSlots d.fs d.img).drop i) i i (LongNameBuilder.new d.fs.lfnAlloc)).1).map
          (toDirEntry (rootSliceOf d.fs).beginOff),
       rootAt d.fs (nextEntry d.fs.lfnAlloc skipVolume ((rootDirSlots d.fs d.img).drop i) i i
          (LongNameBuilder.new d.fs.lfnAlloc)).2) :=
  root_readDirEntry_sim (rootSliceOf d.fs) N h.slots skipVolume i hi d h.noFault h.inside h.fuel

/-- **`listDir_sim`**: `Dir::iter()` on the root directory yields exactly the entries the pure reader
    `readDirEntries` finds in the slots of the image, each turned into the library's `DirEntry` by `toDirEntry` (the short
    record decoded field by field, the collected long name, entry position and slot range); image, log, mounted state and
    fault schedule are untouched -/
theorem listDir_root_sim {d : Dev} {N : Nat} (h : RootReadable d N) :
    Evals (listDir (rootAt d.fs 0)) d
      ((readDirEntries d.fs.lfnAlloc true (rootDirSlots d.fs d.img)).map (toDirEntry (rootSliceOf d.fs).beginOff)) :=
  root_listDir_sim (rootSliceOf d.fs) N h.slots d h.noFault h.inside h.fuel

/-- … with the heap-allocated long-name buffer (`alloc` feature, the default) these are the entries of
    `DirSlots.listing` -/
theorem listDir_root_listing {d : Dev} {N : Nat} (h : RootReadable d N) (ha : d.fs.lfnAlloc = true) :
    ∃ d', run (listDir (rootAt d.fs 0)) d =
        (.ok ((DirSlots.listing (rootDirSlots d.fs d.img)).map (toDirEntry (rootSliceOf d.fs).beginOff)), d') ∧
      d'.img = d.img ∧ d'.log = d.log ∧ d'.fs = d.fs ∧ d'.failAt = none := by
  obtain ⟨d', hr, hs⟩ := listDir_root_sim h
  rw [ha] at hr
  exact ⟨d', hr, hs.img, hs.log, hs.fs, by rw [hs.failAt]; exact h.noFault⟩

/-- **`findEntryG_sim`**: `find_entry(name, is_dir, Some(gen))` on the root directory = `DirAlias.scan` over the listed
    entries — the lookup outcome AND the short-name generator as the scan leaves it -/
theorem findEntryG_root_sim {d : Dev} {N : Nat} (h : RootReadable d N) (env : Env) (name : String)
    (isDir : Option Bool) (g : Names.Gen) :
    Evals (findEntryG env (rootAt d.fs 0) name isDir (some g)) d
      (((DirAlias.scan env.upper name.toList isDir (readDirEntries d.fs.lfnAlloc true (rootDirSlots d.fs d.img)) g).1).map
          (toDirEntry (rootSliceOf d.fs).beginOff),
       some (DirAlias.scan env.upper name.toList isDir (readDirEntries d.fs.lfnAlloc true (rootDirSlots d.fs d.img)) g).2) := by
  have := root_findEntryG_sim (rootSliceOf d.fs) N h.slots env name isDir (some g) d h.noFault h.inside h.fuel
  rw [scanD_eq_scan env _ name isDir _ g (fun e he => rootEntries_slotOK _ _ _ _ e he)] at this
  exact this

/-- `find_entry(name, is_dir, None)`: the lookup outcome of the same scan (with any generator) -/
theorem findEntryG_root_sim_none {d : Dev} {N : Nat} (h : RootReadable d N) (env : Env) (name : String)
    (isDir : Option Bool) (g : Names.Gen) :
    Evals (findEntryG env (rootAt d.fs 0) name isDir none) d
      (((DirAlias.scan env.upper name.toList isDir (readDirEntries d.fs.lfnAlloc true (rootDirSlots d.fs d.img)) g).1).map
          (toDirEntry (rootSliceOf d.fs).beginOff), none) := by
  have := root_findEntryG_sim (rootSliceOf d.fs) N h.slots env name isDir none d h.noFault h.inside h.fuel
  rw [scanD_none_eq_scan env _ name isDir _ g (fun e he => rootEntries_slotOK _ _ _ _ e he)] at this
  exact this

/-- **`findEntry_sim`** (`find_entry(..)?`, the step of every path walk): succeeds with the entry the scan finds … -/
theorem findEntry_root_sim_ok {d : Dev} {N : Nat} (h : RootReadable d N) (env : Env) (name : String)
    (isDir : Option Bool) (g : Names.Gen) {e : LfnEntry}
    (hs : (DirAlias.scan env.upper name.toList isDir (readDirEntries d.fs.lfnAlloc true (rootDirSlots d.fs d.img)) g).1 = .ok e) :
    Evals (findEntry env (rootAt d.fs 0) name isDir) d (toDirEntry (rootSliceOf d.fs).beginOff e) := by
  unfold findEntry
  have := findEntryG_root_sim_none h env name isDir g
  rw [hs] at this
  exact Evals.bind this (fun d1 _ => Evals.pure _ d1)

/-- … and fails with the scan's error (`NotFound`, or `InvalidInput` for the wrong kind) otherwise -/
theorem findEntry_root_sim_error {d : Dev} {N : Nat} (h : RootReadable d N) (env : Env) (name : String)
    (isDir : Option Bool) (g : Names.Gen) {err : Err}
    (hs : (DirAlias.scan env.upper name.toList isDir (readDirEntries d.fs.lfnAlloc true (rootDirSlots d.fs d.img)) g).1 = .error err) :
    Fails (findEntry env (rootAt d.fs 0) name isDir) d err := by
  unfold findEntry
  have := findEntryG_root_sim_none h env name isDir g
  rw [hs] at this
  exact Fails.bind_right this (fun d1 _ => ⟨d1, rfl, SameStore.refl d1⟩)

/-! ## an empty root directory lists as empty -/

theorem readDirEntries_end_first (alloc sv : Bool) (s0 : List Nat) (rest : List (List Nat)) (h0 : Lfn.isEnd s0 = true) :
    readDirEntries alloc sv (s0 :: rest) = [] := by
  simp [readDirEntries, Lfn.readLoop, slotClass, h0]

/-- a volume-label slot (attribute byte `VOLUME_ID`) followed by an end marker: `Dir::iter()` (which skips volume
    entries) yields nothing — whatever the first byte of the label -/
theorem readDirEntries_label_then_end (alloc : Bool) (s0 s1 : List Nat) (rest : List (List Nat))
    (h0 : s0.getD 11 0 = 8) (h1 : Lfn.isEnd s1 = true) : readDirEntries alloc true (s0 :: s1 :: rest) = [] := by
  have hl : Lfn.isLfn s0 = false := by simp only [Lfn.isLfn, Lfn.attrs, Lfn.byte, h0]; decide
  have hv : Lfn.isVolume s0 = true := by simp only [Lfn.isVolume, Lfn.attrs, Lfn.byte, h0]; decide
  unfold readDirEntries Lfn.readLoop slotClass
  by_cases hE : Lfn.isEnd s0 = true
  · simp [hE]
  · by_cases hD : Lfn.isDeleted s0 = true
    · simp [hE, hD, Lfn.readLoop, slotClass, h1]
    · simp [hE, hD, hl, hv, Lfn.readLoop, slotClass, h1]

/-- **an empty root lists as empty**: if slot 0 of the root region of the image is an end marker — or a volume-label
    slot followed by an end marker — then `Dir::iter()` on the root directory returns `[]` -/
theorem listDir_root_empty {d : Dev} {N : Nat} (h : RootReadable d N)
    (hslots : (1 ≤ N ∧ Lfn.isEnd (d.img.read (rootSliceOf d.fs).beginOff 32) = true) ∨
      (2 ≤ N ∧ d.img.getByte ((rootSliceOf d.fs).beginOff + 11) = 8 ∧
        Lfn.isEnd (d.img.read ((rootSliceOf d.fs).beginOff + 32) 32) = true)) :
    Evals (listDir (rootAt d.fs 0)) d [] := by
  have hsim := listDir_root_sim h
  have hlen := rootDirSlots_length h
  have hempty : readDirEntries d.fs.lfnAlloc true (rootDirSlots d.fs d.img) = [] := by
    rcases hslots with ⟨hN1, h0⟩ | ⟨hN2, h0, h1⟩
    · have hg := rootDirSlots_get h 0 (by omega)
      cases hL : rootDirSlots d.fs d.img with
      | nil => rw [hL] at hlen; simp at hlen; omega
      | cons s0 rest =>
        rw [hL] at hg
        simp only [List.getD_cons_zero, Nat.mul_zero, Nat.add_zero] at hg
        exact readDirEntries_end_first _ _ _ _ (by rw [hg]; exact h0)
    · have hg0 := rootDirSlots_get h 0 (by omega)
      have hg1 := rootDirSlots_get h 1 (by omega)
      cases hL : rootDirSlots d.fs d.img with
      | nil => rw [hL] at hlen; simp at hlen; omega
      | cons s0 rest =>
        cases rest with
        | nil => rw [hL] at hlen; simp at hlen; omega
        | cons s1 rest =>
          rw [hL] at hg0 hg1
          simp only [List.getD_cons_zero, List.getD_cons_succ, Nat.mul_zero, Nat.add_zero, Nat.mul_one] at hg0 hg1
          refine readDirEntries_label_then_end _ _ _ _ ?_ (by rw [hg1]; exact h1)
          rw [hg0, Img.read_getD _ _ _ _ (by omega)]; exact h0
  rw [hempty] at hsim
  exact hsim

/-! ## non-vacuity: a small FAT16 root directory with a long-named and a short-named entry -/

namespace Ex

/-- geometry: 512-byte sectors, root region = sector 2 (`[1024, 1536)`, 16 slots) -/
def fs : FsState :=
  { fatType := .fat16, bps := 512, spc := 1, reserved := 1, fats := 1, spf := 1, totalClusters := 8,
    firstDataSector := 3, rootEntries := 16, rootDirSectors := 1 }

def sfn1 : List Nat := [72, 69, 76, 76, 79, 32, 32, 32, 84, 88, 84]     -- "HELLO   TXT"
def sfn2 : List Nat := [66, 32, 32, 32, 32, 32, 32, 32, 32, 32, 32]     -- "B          "

/-- the slots: the long-name slot of "Hello.txt", its short slot, the short slot of "B", then zeros -/
def slots : List (List Nat) :=
  lfnGenerate (Names.encodeUtf16 "Hello.txt".toList) (lfnChecksum sfn1) ++
    [(DirFileEntryData.new sfn1 0x20).serialize, (DirFileEntryData.new sfn2 0x10).serialize]

def dev : Dev := { img := Img.ofBytes (List.replicate 1024 0 ++ slots.flatten) 8192, fs := fs }

end Ex

/-- the hypotheses hold of the example device (16 slots) -/
theorem Ex.readable : RootReadable Ex.dev 16 := ⟨rfl, by decide, by decide, by decide⟩

/-- the run of `listDir` on it, evaluated, IS the pure listing of its root slots mapped to the library's entries: two
    entries, the first carrying the 9 UTF-16 units of "Hello.txt" collected from the long-name slot before it -/
example : (run (listDir (rootAt Ex.dev.fs 0)) Ex.dev).1 =
      .ok ((DirSlots.listing (rootDirSlots Ex.dev.fs Ex.dev.img)).map (toDirEntry (rootSliceOf Ex.dev.fs).beginOff)) ∧
    ((DirSlots.listing (rootDirSlots Ex.dev.fs Ex.dev.img)).map (·.units)) =
      [Names.encodeUtf16 "Hello.txt".toList, []] := by
  decide +kernel

end FatVerif.DirSim
