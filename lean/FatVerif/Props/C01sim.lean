import FatVerif.Proofs.DirWriteSim45
/-! # C01 (simulation) — the effectful directory READER is the pure reader on the bytes of the image

The directory code of the model (`Model/DirOps.lean`, programs over a device) and the slot-list algebra
(`Model/Lfn.lean`, `DirSlots.lean`, `DirAlias.lean`, on which the C01/C03/C16/C17 theorems are stated) are tied here by
forward evaluation theorems: on a device on which no fault is scheduled, the programs `readSlot`, `readDirEntry`,
`listDir`, `findEntryG`, `findEntry` RETURN what the pure functions compute from the slots of the image, and leave image,
log, mounted state and fault schedule alone (`Evals p d v := ∃ d', run p d = (.ok v, d') ∧ SameStore d d'`).

Part 1: the FIXED ROOT directory of a FAT12/16 volume (`rootDirStream fs = .root (rootSliceOf fs)`), whose slots are the
32-byte records of the root region `[(firstDataSector - rootDirSectors) * bps, + rootDirSectors * bps)`.

Part 2 (section "cluster-chain directories"): sub-directories and the root of FAT32 — `File::read` across cluster
boundaries, following the chain of the decoded FAT of the image (`FileSim.tabView`); the slots are those of the clusters
of the chain, in chain order (`chainSlots`). Both parts are instances of one generic development
(`DirSrc`, Proofs/DirReadSim5–9). Here the evaluation relation is `Reads`: the destructor of the iterator's clone of a
cluster-chain directory calls `flush` on the storage, so the log gains `flush` records; image, mounted state, fault
schedule and WRITE records are untouched (`SameVol`). Hypothesis kept for cluster-chain directories:
`update_accessed_date` is off or the handle has no directory entry (FAT32 root) — with the option on, reading a
sub-directory stamps its entry and the destructor WRITES it (that is the library's behaviour, not covered here).
Part 3 (sections "WRITES"): forward simulation of the mutating directory code on the image, for the fixed root, cluster
chains without an entry (root of FAT32) and sub-directories (generic layer `WView`, Proofs/DirWriteSim1–37):
`deleteEntry`, `write_entry` (also `.`/`..`, also across one growth of a chain directory), and the whole operations
`create_file`, `create_dir`, `remove` (file / empty directory), `rename` (file or directory, inside one directory or
between two directories) — single-component paths, success paths; each with a non-vacuity example (`Ex4`–`Ex9`). -/
namespace FatVerif.DirSim

/-- the slots of the fixed root directory of a volume with geometry `fs`, as a function of the image -/
def rootDirSlots (fs : FsState) (img : Img) : List (List Nat) := rootSlots img (rootSliceOf fs)

/-- the standing hypotheses: no fault scheduled, the root region inside the device, made of `N` whole slots, and
    fewer slots than the scan fuel `dirFuel` (true of every volume `mount` accepts: `N ≤ root_entries + bps/32`) -/
structure RootReadable (d : Dev) (N : Nat) : Prop where
  noFault : d.failAt = none
  inside : (rootSliceOf d.fs).beginOff + (rootSliceOf d.fs).size ≤ d.img.size
  slots : (rootSliceOf d.fs).size = 32 * N
  fuel : N < dirFuel d.fs

theorem rootDirSlots_length {d : Dev} {N : Nat} (h : RootReadable d N) : (rootDirSlots d.fs d.img).length = N := by
  unfold rootDirSlots; rw [rootSlots_length, h.slots]; omega

theorem rootDirSlots_get {d : Dev} {N : Nat} (h : RootReadable d N) (j : Nat) (hj : j < N) :
    (rootDirSlots d.fs d.img).getD j [] = d.img.read ((rootSliceOf d.fs).beginOff + 32 * j) 32 := by
  have := rootSlots_drop_getD (rootSliceOf d.fs) N h.slots d.img 0 j (by
    rw [List.drop_zero, rootSlots_length, h.slots]; omega)
  unfold rootDirSlots
  simpa using this

/-- the root stream positioned at slot `i` -/
def rootAt (fs : FsState) (i : Nat) : DirStream := .root (sliceAt (rootSliceOf fs) (32 * i))

theorem rootAt_zero (fs : FsState) : rootAt fs 0 = .root (rootSliceOf fs) := rfl

/-- **`readSlot_sim`** (inside the region): at slot `i < N`, `DirEntryData::deserialize` returns slot `i` of the image
    (read as 11 + 1 + 20 bytes) and the stream stands at slot `i + 1` -/
theorem readSlot_root_sim {d : Dev} {N : Nat} (h : RootReadable d N) (i : Nat) (hi : i < N) :
    Evals (readSlot (rootAt d.fs i)) d ((rootDirSlots d.fs d.img).getD i [], rootAt d.fs (i + 1)) := by
  rw [rootDirSlots_get h i hi]
  have := root_readSlot_evals (rootSliceOf d.fs) (32 * i) d h.noFault (by rw [h.slots]; omega) h.inside
  rw [show 32 * i + 32 = 32 * (i + 1) by omega] at this
  exact this

/-- **`readSlot_sim`** (at the end of the allocated space): at slot `N` the `UnexpectedEof` of the first `read_exact` is
    caught by `deserialize`, which returns the all-zero record — an end-of-directory marker — and the stream stays -/
theorem readSlot_root_end {d : Dev} {N : Nat} (h : RootReadable d N) :
    Evals (readSlot (rootAt d.fs N)) d (List.replicate 32 0, rootAt d.fs N) := by
  have := root_readSlot_end (rootSliceOf d.fs) d h.noFault h.inside
  unfold rootAt; rw [← h.slots]; exact this

/-- **`readDirEntry_sim`**: one `DirIter::next` from slot `i` = one `nextEntry` of the pure reader on the remaining
    slots (fresh long-name builder, `begin_offset` = the position) -/
theorem readDirEntry_root_sim {d : Dev} {N : Nat} (h : RootReadable d N) (skipVolume : Bool) (i : Nat) (hi : i ≤ N) :
    Evals (readDirEntry skipVolume (rootAt d.fs i)) d
      (((nextEntry d.fs.lfnAlloc skipVolume ((rootDirSlots d.fs d.img).drop i) i i (LongNameBuilder.new d.fs.lfnAlloc)).1).map
          (toDirEntry (rootSliceOf d.fs).beginOff),
       rootAt d.fs (nextEntry d.fs.lfnAlloc skipVolume ((rootDirSlots d.fs d.img).drop i) i i
          (LongNameBuilder.new d.fs.lfnAlloc)).2) :=
  root_readDirEntry_sim (rootSliceOf d.fs) N h.slots skipVolume i hi d h.noFault h.inside h.fuel

/-- **`listDir_sim`**: `Dir::iter()` on the root directory yields exactly the entries the pure reader
    `readDirEntries` finds in the slots of the image, each turned into the library's `DirEntry` by `toDirEntry` (the short
    record decoded field by field, the collected long name, entry position and slot range); image, log, mounted state and
    fault schedule are untouched -/
theorem listDir_root_sim {d : Dev} {N : Nat} (h : RootReadable d N) :
    Evals (listDir (rootAt d.fs 0)) d
      ((readDirEntries d.fs.lfnAlloc true (rootDirSlots d.fs d.img)).map (toDirEntry (rootSliceOf d.fs).beginOff)) :=
  root_listDir_sim (rootSliceOf d.fs) N h.slots d h.noFault h.inside h.fuel

/-- … with the heap-allocated long-name buffer (`alloc` feature, the default) these are the entries of
    `DirSlots.listing` -/
theorem listDir_root_listing {d : Dev} {N : Nat} (h : RootReadable d N) (ha : d.fs.lfnAlloc = true) :
    ∃ d', run (listDir (rootAt d.fs 0)) d =
        (.ok ((DirSlots.listing (rootDirSlots d.fs d.img)).map (toDirEntry (rootSliceOf d.fs).beginOff)), d') ∧
      d'.img = d.img ∧ d'.log = d.log ∧ d'.fs = d.fs ∧ d'.failAt = none := by
  obtain ⟨d', hr, hs⟩ := listDir_root_sim h
  rw [ha] at hr
  exact ⟨d', hr, hs.img, hs.log, hs.fs, by rw [hs.failAt]; exact h.noFault⟩

/-- **`findEntryG_sim`**: `find_entry(name, is_dir, Some(gen))` on the root directory = `DirAlias.scan` over the listed
    entries — the lookup outcome AND the short-name generator as the scan leaves it -/
theorem findEntryG_root_sim {d : Dev} {N : Nat} (h : RootReadable d N) (env : Env) (name : String)
    (isDir : Option Bool) (g : Names.Gen) :
    Evals (findEntryG env (rootAt d.fs 0) name isDir (some g)) d
      (((DirAlias.scan env.upper name.toList isDir (readDirEntries d.fs.lfnAlloc true (rootDirSlots d.fs d.img)) g).1).map
          (toDirEntry (rootSliceOf d.fs).beginOff),
       some (DirAlias.scan env.upper name.toList isDir (readDirEntries d.fs.lfnAlloc true (rootDirSlots d.fs d.img)) g).2) := by
  have := root_findEntryG_sim (rootSliceOf d.fs) N h.slots env name isDir (some g) d h.noFault h.inside h.fuel
  rw [scanD_eq_scan env _ name isDir _ g (fun e he => rootEntries_slotOK _ _ _ _ e he)] at this
  exact this

/-- `find_entry(name, is_dir, None)`: the lookup outcome of the same scan (with any generator) -/
theorem findEntryG_root_sim_none {d : Dev} {N : Nat} (h : RootReadable d N) (env : Env) (name : String)
    (isDir : Option Bool) (g : Names.Gen) :
    Evals (findEntryG env (rootAt d.fs 0) name isDir none) d
      (((DirAlias.scan env.upper name.toList isDir (readDirEntries d.fs.lfnAlloc true (rootDirSlots d.fs d.img)) g).1).map
          (toDirEntry (rootSliceOf d.fs).beginOff), none) := by
  have := root_findEntryG_sim (rootSliceOf d.fs) N h.slots env name isDir none d h.noFault h.inside h.fuel
  rw [scanD_none_eq_scan env _ name isDir _ g (fun e he => rootEntries_slotOK _ _ _ _ e he)] at this
  exact this

/-- **`findEntry_sim`** (`find_entry(..)?`, the step of every path walk): succeeds with the entry the scan finds … -/
theorem findEntry_root_sim_ok {d : Dev} {N : Nat} (h : RootReadable d N) (env : Env) (name : String)
    (isDir : Option Bool) (g : Names.Gen) {e : LfnEntry}
    (hs : (DirAlias.scan env.upper name.toList isDir (readDirEntries d.fs.lfnAlloc true (rootDirSlots d.fs d.img)) g).1 = .ok e) :
    Evals (findEntry env (rootAt d.fs 0) name isDir) d (toDirEntry (rootSliceOf d.fs).beginOff e) := by
  unfold findEntry
  have := findEntryG_root_sim_none h env name isDir g
  rw [hs] at this
  exact Evals.bind this (fun d1 _ => Evals.pure _ d1)

/-- … and fails with the scan's error (`NotFound`, or `InvalidInput` for the wrong kind) otherwise -/
theorem findEntry_root_sim_error {d : Dev} {N : Nat} (h : RootReadable d N) (env : Env) (name : String)
    (isDir : Option Bool) (g : Names.Gen) {err : Err}
    (hs : (DirAlias.scan env.upper name.toList isDir (readDirEntries d.fs.lfnAlloc true (rootDirSlots d.fs d.img)) g).1 = .error err) :
    Fails (findEntry env (rootAt d.fs 0) name isDir) d err := by
  unfold findEntry
  have := findEntryG_root_sim_none h env name isDir g
  rw [hs] at this
  exact Fails.bind_right this (fun d1 _ => ⟨d1, rfl, SameStore.refl d1⟩)

/-! ## an empty root directory lists as empty -/

theorem readDirEntries_end_first (alloc sv : Bool) (s0 : List Nat) (rest : List (List Nat)) (h0 : Lfn.isEnd s0 = true) :
    readDirEntries alloc sv (s0 :: rest) = [] := by
  simp [readDirEntries, Lfn.readLoop, slotClass, h0]

/-- a volume-label slot (attribute byte `VOLUME_ID`) followed by an end marker: `Dir::iter()` (which skips volume
    entries) yields nothing — whatever the first byte of the label -/
theorem readDirEntries_label_then_end (alloc : Bool) (s0 s1 : List Nat) (rest : List (List Nat))
    (h0 : s0.getD 11 0 = 8) (h1 : Lfn.isEnd s1 = true) : readDirEntries alloc true (s0 :: s1 :: rest) = [] := by
  have hl : Lfn.isLfn s0 = false := by simp only [Lfn.isLfn, Lfn.attrs, Lfn.byte, h0]; decide
  have hv : Lfn.isVolume s0 = true := by simp only [Lfn.isVolume, Lfn.attrs, Lfn.byte, h0]; decide
  unfold readDirEntries Lfn.readLoop slotClass
  by_cases hE : Lfn.isEnd s0 = true
  · simp [hE]
  · by_cases hD : Lfn.isDeleted s0 = true
    · simp [hE, hD, Lfn.readLoop, slotClass, h1]
    · simp [hE, hD, hl, hv, Lfn.readLoop, slotClass, h1]

/-- **an empty root lists as empty**: if slot 0 of the root region of the image is an end marker — or a volume-label
    slot followed by an end marker — then `Dir::iter()` on the root directory returns `[]` -/
theorem listDir_root_empty {d : Dev} {N : Nat} (h : RootReadable d N)
    (hslots : (1 ≤ N ∧ Lfn.isEnd (d.img.read (rootSliceOf d.fs).beginOff 32) = true) ∨
      (2 ≤ N ∧ d.img.getByte ((rootSliceOf d.fs).beginOff + 11) = 8 ∧
        Lfn.isEnd (d.img.read ((rootSliceOf d.fs).beginOff + 32) 32) = true)) :
    Evals (listDir (rootAt d.fs 0)) d [] := by
  have hsim := listDir_root_sim h
  have hlen := rootDirSlots_length h
  have hempty : readDirEntries d.fs.lfnAlloc true (rootDirSlots d.fs d.img) = [] := by
    rcases hslots with ⟨hN1, h0⟩ | ⟨hN2, h0, h1⟩
    · have hg := rootDirSlots_get h 0 (by omega)
      cases hL : rootDirSlots d.fs d.img with
      | nil => rw [hL] at hlen; simp at hlen; omega
      | cons s0 rest =>
        rw [hL] at hg
        simp only [List.getD_cons_zero, Nat.mul_zero, Nat.add_zero] at hg
        exact readDirEntries_end_first _ _ _ _ (by rw [hg]; exact h0)
    · have hg0 := rootDirSlots_get h 0 (by omega)
      have hg1 := rootDirSlots_get h 1 (by omega)
      cases hL : rootDirSlots d.fs d.img with
      | nil => rw [hL] at hlen; simp at hlen; omega
      | cons s0 rest =>
        cases rest with
        | nil => rw [hL] at hlen; simp at hlen; omega
        | cons s1 rest =>
          rw [hL] at hg0 hg1
          simp only [List.getD_cons_zero, List.getD_cons_succ, Nat.mul_zero, Nat.add_zero, Nat.mul_one] at hg0 hg1
          refine readDirEntries_label_then_end _ _ _ _ ?_ (by rw [hg1]; exact h1)
          rw [hg0, Img.read_getD _ _ _ _ (by omega)]; exact h0
  rw [hempty] at hsim
  exact hsim

/-! ## cluster-chain directories (sub-directories, the root of FAT32) -/

open FatVerif.FileSim FatVerif.Fat in
/-- the standing hypotheses for the directory whose first cluster is `c0` and whose handle carries the editor `ent`
    (`none`: the root of FAT32): `ChainDir` (no fault scheduled, layout `Geo`, `chain` is the chain of `c0` in the
    decoded FAT of the image and lies inside the table, cluster size a multiple of 32, the handle is a directory's,
    reads do not stamp it) and fewer slots than the scan fuel -/
structure ChainReadable (d : Dev) (c0 : Nat) (ent : Option DirEntryEditor) (chain : List Nat) : Prop where
  dir : ChainDir d (FileH.new (some c0) ent) c0 chain
  fuel : chain.length * (d.fs.clusterSize / 32) < dirFuel d.fs

/-- the stream of that directory positioned at slot `i` -/
def chainAt (fs : FsState) (c0 : Nat) (ent : Option DirEntryEditor) (chain : List Nat) (i : Nat) : DirStream :=
  chainS (FileH.new (some c0) ent) chain fs.clusterSize (32 * i)

/-- at slot 0 this is the freshly opened directory (`Dir::new(File::new(Some(c0), entry))`) -/
theorem chainAt_zero (fs : FsState) (c0 : Nat) (ent : Option DirEntryEditor) (chain : List Nat) :
    chainAt fs c0 ent chain 0 = .file (FileH.new (some c0) ent) := rfl

section chain
variable {d : Dev} {c0 : Nat} {ent : Option DirEntryEditor} {chain : List Nat}

theorem ChainReadable.slots_eq (h : ChainReadable d c0 ent chain) :
    srcSlots d.img (chainSrc d.fs chain) (chain.length * (d.fs.clusterSize / 32)) = chainSlots d.fs d.img chain :=
  srcSlots_chain d.fs d.img h.dir.geo.cs_pos h.dir.cs32 chain

/-- **`readSlot_sim`, cluster chain** (inside the allocated space): slot `i` of the clusters of the chain — also when
    the slot is the first of the next cluster (the stream then follows the FAT link) -/
theorem readSlot_chain_sim (h : ChainReadable d c0 ent chain) (i : Nat)
    (hi : i < chain.length * (d.fs.clusterSize / 32)) :
    Reads (readSlot (chainAt d.fs c0 ent chain i)) d
      ((chainSlots d.fs d.img chain).getD i [], chainAt d.fs c0 ent chain (i + 1)) := by
  have := h.dir.dirSrc.toByteSrc.readSlot d (SameVol.refl d) (32 * i) (by omega) (by omega)
  rw [← h.slots_eq]
  have hg := srcSlots_drop_getD d.img (chainSrc d.fs chain) (chain.length * (d.fs.clusterSize / 32)) 0 i
    (by rw [List.drop_zero, srcSlots_length]; exact hi)
  simp only [List.drop_zero, Nat.zero_add] at hg
  rw [hg]
  unfold chainAt
  rw [show 32 * (i + 1) = 32 * i + 32 by omega]
  exact this

/-- **`readSlot_sim`, cluster chain** (at the end of the chain): the end-of-chain mark makes `File::read` return 0
    bytes, `read_exact` fails with `UnexpectedEof`, `deserialize` returns the all-zero record and the stream stays -/
theorem readSlot_chain_end (h : ChainReadable d c0 ent chain) :
    Reads (readSlot (chainAt d.fs c0 ent chain (chain.length * (d.fs.clusterSize / 32)))) d
      (List.replicate 32 0, chainAt d.fs c0 ent chain (chain.length * (d.fs.clusterSize / 32))) :=
  h.dir.dirSrc.toByteSrc.readSlot_end d (SameVol.refl d)

/-- **`readDirEntry_sim`, cluster chain** -/
theorem readDirEntry_chain_sim (h : ChainReadable d c0 ent chain) (skipVolume : Bool) (i : Nat)
    (hi : i ≤ chain.length * (d.fs.clusterSize / 32)) :
    Reads (readDirEntry skipVolume (chainAt d.fs c0 ent chain i)) d
      (((nextEntry d.fs.lfnAlloc skipVolume ((chainSlots d.fs d.img chain).drop i) i i
          (LongNameBuilder.new d.fs.lfnAlloc)).1).map (toDirEntryS (chainSrc d.fs chain)),
       chainAt d.fs c0 ent chain (nextEntry d.fs.lfnAlloc skipVolume ((chainSlots d.fs d.img chain).drop i) i i
          (LongNameBuilder.new d.fs.lfnAlloc)).2) := by
  rw [← h.slots_eq]
  exact h.dir.dirSrc.readDirEntry_sim skipVolume i hi d (SameVol.refl d) h.fuel

/-- **`listDir_sim`, cluster chain**: `Dir::iter()` on a sub-directory (or the FAT32 root) yields exactly the entries the
    pure reader finds in the slots of the clusters of its chain; an entry's `entryPos` is the device offset of its short
    slot (`chainSrc`: cluster offset + offset in the cluster) -/
theorem listDir_chain_sim (h : ChainReadable d c0 ent chain) :
    Reads (listDir (.file (FileH.new (some c0) ent))) d
      ((readDirEntries d.fs.lfnAlloc true (chainSlots d.fs d.img chain)).map (toDirEntryS (chainSrc d.fs chain))) := by
  rw [← h.slots_eq]
  exact h.dir.dirSrc.listDir_sim h.fuel d (SameVol.refl d)

/-- … in terms of the run: the result, and what is kept -/
theorem listDir_chain_listing (h : ChainReadable d c0 ent chain) (ha : d.fs.lfnAlloc = true) :
    ∃ d', run (listDir (.file (FileH.new (some c0) ent))) d =
        (.ok ((DirSlots.listing (chainSlots d.fs d.img chain)).map (toDirEntryS (chainSrc d.fs chain))), d') ∧
      d'.img = d.img ∧ d'.writesOf = d.writesOf ∧ d'.fs = d.fs ∧ d'.failAt = none := by
  obtain ⟨d', hr, hs⟩ := listDir_chain_sim h
  rw [ha] at hr
  exact ⟨d', hr, hs.img, hs.writesOf, hs.fs, by rw [hs.failAt]; exact h.dir.failAt⟩

/-- **`findEntryG_sim`, cluster chain** -/
theorem findEntryG_chain_sim (h : ChainReadable d c0 ent chain) (env : Env) (name : String) (isDir : Option Bool)
    (g : Names.Gen) :
    Reads (findEntryG env (.file (FileH.new (some c0) ent)) name isDir (some g)) d
      (((DirAlias.scan env.upper name.toList isDir
          (readDirEntries d.fs.lfnAlloc true (chainSlots d.fs d.img chain)) g).1).map (toDirEntryS (chainSrc d.fs chain)),
       some (DirAlias.scan env.upper name.toList isDir
          (readDirEntries d.fs.lfnAlloc true (chainSlots d.fs d.img chain)) g).2) := by
  rw [← h.slots_eq]
  exact h.dir.dirSrc.findEntryG_scan h.fuel env name isDir g d (SameVol.refl d)

/-- **`findEntry_sim`, cluster chain** (`find_entry(..)?`): succeeds with the entry the scan finds … -/
theorem findEntry_chain_sim_ok (h : ChainReadable d c0 ent chain) (env : Env) (name : String) (isDir : Option Bool)
    (g : Names.Gen) {e : LfnEntry}
    (hs : (DirAlias.scan env.upper name.toList isDir
      (readDirEntries d.fs.lfnAlloc true (chainSlots d.fs d.img chain)) g).1 = .ok e) :
    Reads (findEntry env (.file (FileH.new (some c0) ent)) name isDir) d (toDirEntryS (chainSrc d.fs chain) e) := by
  rw [← h.slots_eq] at hs
  exact h.dir.dirSrc.findEntry_ok h.fuel env name isDir g hs d (SameVol.refl d)

/-- … and fails with the scan's error otherwise -/
theorem findEntry_chain_sim_error (h : ChainReadable d c0 ent chain) (env : Env) (name : String) (isDir : Option Bool)
    (g : Names.Gen) {err : Err}
    (hs : (DirAlias.scan env.upper name.toList isDir
      (readDirEntries d.fs.lfnAlloc true (chainSlots d.fs d.img chain)) g).1 = .error err) :
    FailsV (findEntry env (.file (FileH.new (some c0) ent)) name isDir) d err := by
  rw [← h.slots_eq] at hs
  exact h.dir.dirSrc.findEntry_error h.fuel env name isDir g hs d (SameVol.refl d)

end chain

/-- the root directory of a FAT32 volume is the cluster-chain directory of `root_cluster`, without an entry -/
theorem rootDirStream_fat32 (fs : FsState) (h : fs.fatType = .fat32) :
    rootDirStream fs = .file (FileH.new (some fs.rootCluster) none) := by
  unfold rootDirStream; rw [h]

/-! ## non-vacuity: a small FAT16 root directory with a long-named and a short-named entry -/

namespace Ex

/-- geometry: 512-byte sectors, root region = sector 2 (`[1024, 1536)`, 16 slots) -/
def fs : FsState :=
  { fatType := .fat16, bps := 512, spc := 1, reserved := 1, fats := 1, spf := 1, totalClusters := 8,
    firstDataSector := 3, rootEntries := 16, rootDirSectors := 1 }

def sfn1 : List Nat := [72, 69, 76, 76, 79, 32, 32, 32, 84, 88, 84]     -- "HELLO   TXT"
def sfn2 : List Nat := [66, 32, 32, 32, 32, 32, 32, 32, 32, 32, 32]     -- "B          "

/-- the slots: the long-name slot of "Hello.txt", its short slot, the short slot of "B", then zeros -/
def slots : List (List Nat) :=
  lfnGenerate (Names.encodeUtf16 "Hello.txt".toList) (lfnChecksum sfn1) ++
    [(DirFileEntryData.new sfn1 0x20).serialize, (DirFileEntryData.new sfn2 0x10).serialize]

def dev : Dev := { img := Img.ofBytes (List.replicate 1024 0 ++ slots.flatten) 8192, fs := fs }

end Ex

/-- the hypotheses hold of the example device (16 slots) -/
theorem Ex.readable : RootReadable Ex.dev 16 := ⟨rfl, by decide, by decide, by decide⟩

/-- the run of `listDir` on it, evaluated, IS the pure listing of its root slots mapped to the library's entries: two
    entries, the first carrying the 9 UTF-16 units of "Hello.txt" collected from the long-name slot before it -/
example : (run (listDir (rootAt Ex.dev.fs 0)) Ex.dev).1 =
      .ok ((DirSlots.listing (rootDirSlots Ex.dev.fs Ex.dev.img)).map (toDirEntry (rootSliceOf Ex.dev.fs).beginOff)) ∧
    ((DirSlots.listing (rootDirSlots Ex.dev.fs Ex.dev.img)).map (·.units)) =
      [Names.encodeUtf16 "Hello.txt".toList, []] := by
  decide +kernel

/-! ## `check_for_existence` and path walks (both kinds of directory) -/

/-- the fixed root directory as a `DirView` -/
def DirView.ofRoot {d : Dev} {N : Nat} (h : RootReadable d N) : DirView d (rootAt d.fs 0) where
  S := fun o => .root (sliceAt (rootSliceOf d.fs) o)
  N := N
  src := fun o => (rootSliceOf d.fs).beginOff + o
  room := fun o => (rootSliceOf d.fs).size - o
  start := rfl
  dir := root_dirSrc (rootSliceOf d.fs) N h.slots d h.noFault h.inside
  fuel := h.fuel

/-- a cluster-chain directory as a `DirView` -/
def DirView.ofChain {d : Dev} {c0 : Nat} {ent : Option DirEntryEditor} {chain : List Nat}
    (h : ChainReadable d c0 ent chain) : DirView d (.file (FileH.new (some c0) ent)) where
  S := chainS (FileH.new (some c0) ent) chain d.fs.clusterSize
  N := chain.length * (d.fs.clusterSize / 32)
  src := chainSrc d.fs chain
  room := chainRoom d.fs chain
  start := rfl
  dir := h.dir.dirSrc
  fuel := h.fuel

/-- **`checkForExistence_sim`, fixed root**: `check_for_existence(name, is_dir)` on the root directory does what
    `DirAlias.checkForExistenceL` computes from the root slots of the image — the existing entry, the alias chosen
    (the one the C16 theorems `dir_alias_fresh`, `dir_alias_legal`, `dir_alias_display_free` are about), or its error -/
theorem checkForExistence_root_sim {d : Dev} {N : Nat} (h : RootReadable d N) (ha : d.fs.lfnAlloc = true) (env : Env)
    (name : String) (isDir : Option Bool) :
    Outcome (checkForExistence env (rootAt d.fs 0) name isDir) d (liftEOA (fun o => (rootSliceOf d.fs).beginOff + o))
      (DirAlias.checkForExistenceL env.upper
        (srcSlots d.img (fun o => (rootSliceOf d.fs).beginOff + o) N) name isDir 70000) :=
  (root_dirSrc (rootSliceOf d.fs) N h.slots d h.noFault h.inside).checkForExistence_sim h.fuel ha env name isDir d
    (SameVol.refl d)

/-- the slots used there are the root slots -/
theorem srcSlots_root {d : Dev} {N : Nat} (h : RootReadable d N) :
    srcSlots d.img (fun o => (rootSliceOf d.fs).beginOff + o) N = rootDirSlots d.fs d.img := by
  unfold srcSlots rootDirSlots rootSlots
  rw [h.slots, Nat.mul_div_cancel_left N (by omega : 0 < 32)]

/-- **`checkForExistence_sim`, cluster chain** -/
theorem checkForExistence_chain_sim {d : Dev} {c0 : Nat} {ent : Option DirEntryEditor} {chain : List Nat}
    (h : ChainReadable d c0 ent chain) (ha : d.fs.lfnAlloc = true) (env : Env) (name : String) (isDir : Option Bool) :
    Outcome (checkForExistence env (.file (FileH.new (some c0) ent)) name isDir) d (liftEOA (chainSrc d.fs chain))
      (DirAlias.checkForExistenceL env.upper (chainSlots d.fs d.img chain) name isDir 70000) := by
  rw [← h.slots_eq]
  exact h.dir.dirSrc.checkForExistence_sim h.fuel ha env name isDir d (SameVol.refl d)

/-! ## WRITES, first step: removing an entry from the fixed root directory

`deleteEntry` (the slot-deleting loop of `remove` and `rename`: read a slot, `set_deleted`, seek back, write it, for
every slot of the entry) is simulated by `DirSlots.deleteRange` on the root slots of the image. The statement is about
the image AFTER the run (the bytes behind the status byte): the image must be well formed (`Img.WF`: all pages have the
page size — true of `Img.empty` and preserved by every run) and the root region must lie behind the status byte. -/

open FatVerif.FileSim in
theorem rootSliceOf_geomEq {a b : FsState} (h : FsGeomEq a b) : rootSliceOf b = rootSliceOf a := by rw [h]; rfl

open FatVerif.FileSim in
theorem dirFuel_geomEq {a b : FsState} (h : FsGeomEq a b) : dirFuel b = dirFuel a := by rw [h]; rfl

/-- **`deleteEntry_sim`, fixed root**: for a listed entry `le`, `deleteEntry(root, entry)` succeeds on a fault-free
    device; afterwards the root slots of the image are `DirSlots.deleteRange` of the slots before over the slot range
    of the entry, the volume is marked dirty, the bytes from `0x42` on outside the root region are untouched, and the
    root directory is readable again (so the read theorems above apply to the new device) -/
theorem deleteEntry_root_sim {d : Dev} {N : Nat} (h : RootReadable d N) (hwf : d.img.WF)
    (hB : 0x42 ≤ (rootSliceOf d.fs).beginOff) (le : LfnEntry)
    (hmem : le ∈ readDirEntries d.fs.lfnAlloc true (rootDirSlots d.fs d.img)) :
    ∃ d', run (deleteEntry (rootAt d.fs 0) (toDirEntry (rootSliceOf d.fs).beginOff le)) d = (.ok (), d') ∧
      rootDirSlots d'.fs d'.img = DirSlots.deleteRange (rootDirSlots d.fs d.img) le.beginIdx le.endIdx ∧
      d'.fs.curDirty = true ∧ d'.img.WF ∧ RootReadable d' N ∧
      (∀ q, 0x42 ≤ q → ¬ ((rootSliceOf d.fs).beginOff ≤ q ∧ q < (rootSliceOf d.fs).beginOff + (rootSliceOf d.fs).size) →
        d'.img.getByte q = d.img.getByte q) := by
  have hb := readLoop_bounds d.fs.lfnAlloc true (rootDirSlots d.fs d.img) 0 0 _ (Nat.le_refl _) le hmem
  rw [rootDirSlots_length h, Nat.zero_add] at hb
  obtain ⟨k, hk⟩ : ∃ k, le.endIdx = le.beginIdx + k := ⟨le.endIdx - le.beginIdx, by omega⟩
  obtain ⟨d', hr, hs, hd, _, hsl, hfr⟩ := root_deleteEntry (rootSliceOf d.fs) N h.slots rfl rfl hB
    (toDirEntry (rootSliceOf d.fs).beginOff le) le.beginIdx k rfl (by simp only [toDirEntry]; rw [hk])
    (by omega) d h.noFault h.inside hwf
  have hg := rootSliceOf_geomEq hs.geom
  refine ⟨d', hr, ?_, hd (by omega), hs.wf hwf, ?_, hfr⟩
  · unfold rootDirSlots
    rw [hg, hsl, hk]
  · exact ⟨by rw [hs.failAt]; exact h.noFault, by rw [hg, hs.size]; exact h.inside, by rw [hg]; exact h.slots,
      by rw [dirFuel_geomEq hs.geom]; exact h.fuel⟩

/-! ## WRITES, second step: `write_entry` and `create_file` in the fixed root directory -/

/-- a device after a root-directory write: readable again -/
theorem RootReadable.of_volStep {d d' : Dev} {N : Nat} (h : RootReadable d N) (hs : VolStep d d') : RootReadable d' N :=
  ⟨by rw [hs.failAt]; exact h.noFault, by rw [rootSliceOf_geomEq hs.geom, hs.size]; exact h.inside,
   by rw [rootSliceOf_geomEq hs.geom]; exact h.slots, by rw [dirFuel_geomEq hs.geom]; exact h.fuel⟩

/-- **`writeEntry_sim`, fixed root**: `write_entry(name, raw)` for an ordinary valid name whose slots fit into the root
    region (`find_free_entries` position + number of slots ≤ `N`; otherwise the call fails — not covered) succeeds;
    the root slots of the image afterwards are `DirSlots.writeEntry` of those before, with the UTF-16 units of the name
    and the serialised short record -/
theorem writeEntry_root_sim {d : Dev} {N : Nat} (h : RootReadable d N) (hwf : d.img.WF)
    (hB : 0x42 ≤ (rootSliceOf d.fs).beginOff) (name : String) (raw : DirFileEntryData)
    (hval : Names.validateLongName name = .ok ()) (hdot : (name = "." || name = "..") = false) (hraw : raw.WF)
    (hfit : DirSlots.findFree (rootDirSlots d.fs d.img) (Lfn.numParts (Names.encodeUtf16 name.toList).length + 1) +
      (Lfn.numParts (Names.encodeUtf16 name.toList).length + 1) ≤ N) :
    ∃ (d' : Dev) (e : DirEntry), run (writeEntry (rootAt d.fs 0) name raw) d = (.ok e, d') ∧
      e.data = raw ∧ e.lfn = Names.encodeUtf16 name.toList ∧
      rootDirSlots d'.fs d'.img =
        DirSlots.writeEntry (rootDirSlots d.fs d.img) (Names.encodeUtf16 name.toList) raw.serialize ∧
      d'.fs.curDirty = true ∧ d'.img.WF ∧ RootReadable d' N := by
  obtain ⟨d', hr, hs, hd, hsl, _⟩ := root_writeEntry (rootSliceOf d.fs) N h.slots rfl rfl hB name raw hval hdot hraw d
    h.noFault h.inside hwf h.fuel hfit
  refine ⟨d', _, hr, rfl, rfl, ?_, hd, hs.wf hwf, h.of_volStep hs⟩
  unfold rootDirSlots
  rw [rootSliceOf_geomEq hs.geom, hsl]

/-- **`createFile_sim`, fixed root** (end to end, single-component path, free name, `alloc` feature): the alias is the one
    `DirAlias.checkForExistenceL` chooses from the root slots of the image — the alias of the C16 theorems —, the short
    record is `sfnAt` (attributes 0, no cluster, the three time stamps from the clock), and the root slots afterwards
    are `DirSlots.writeEntry` of those before -/
theorem createFile_root_sim {d : Dev} {N : Nat} (h : RootReadable d N) (hwf : d.img.WF)
    (hB : 0x42 ≤ (rootSliceOf d.fs).beginOff) (ha : d.fs.lfnAlloc = true) (env : Env) (path name : String)
    (hsp : Names.splitPath path = (name, none)) (hdot : (name = "." || name = "..") = false)
    (hval : Names.validateLongName name = .ok ()) (a : List Nat)
    (hchk : DirAlias.checkForExistenceL env.upper (rootDirSlots d.fs d.img) name (some false) 70000 = .ok (.alias a))
    (hfit : DirSlots.findFree (rootDirSlots d.fs d.img) (Lfn.numParts (Names.encodeUtf16 name.toList).length + 1) +
      (Lfn.numParts (Names.encodeUtf16 name.toList).length + 1) ≤ N) (fuel : Nat) :
    ∃ (d' : Dev) (e : DirEntry), run (createFile env (fuel + 1) (rootAt d.fs 0) path) d =
        (.ok (FileH.new (e.firstCluster d.fs) (some e.editor)), d') ∧
      e.data = sfnAt d.fs d.clock a 0 none ∧ e.lfn = Names.encodeUtf16 name.toList ∧
      rootDirSlots d'.fs d'.img = DirSlots.writeEntry (rootDirSlots d.fs d.img) (Names.encodeUtf16 name.toList)
        (sfnAt d.fs d.clock a 0 none).serialize ∧
      d'.fs.curDirty = true ∧ d'.img.WF ∧ RootReadable d' N := by
  obtain ⟨d', e, hr, he1, he2, hs, hd, hsl, _⟩ := root_createFile (rootSliceOf d.fs) N h.slots rfl rfl hB env path name
    hsp hdot hval d h.noFault h.inside hwf h.fuel ha a hchk hfit fuel
  refine ⟨d', e, hr, he1, he2, ?_, hd, hs.wf hwf, h.of_volStep hs⟩
  unfold rootDirSlots
  rw [rootSliceOf_geomEq hs.geom, hsl]

/-! ## WRITES, third step: a cluster-chain directory without a directory entry (the root of FAT32), inside its allocated
clusters

Generic layer: Proofs/DirWriteSim6–12 (`WFam`, `WOps`; the fixed root and the chain directories share the proofs from
`write_all` up). `File::write` marks the volume dirty (`set_dirty_flag(true)`), finds the cluster through the FAT at a
cluster boundary, and writes to the raw storage; `seek` back over a slot walks the chain from its start when the slot
was the first of a cluster. NOT covered: growth (a write at the end of the chain allocates a cluster), and directories
WITH an entry (sub-directories: the write stamps the directory's own entry, which the clone's destructor writes back). -/

open FatVerif.FileSim in
theorem ChainReadable.inv {d : Dev} {c0 : Nat} {chain : List Nat} (h : ChainReadable d c0 none chain) (hwf : d.img.WF) :
    ChainInv d.fs (FileH.new (some c0) none) c0 chain d :=
  ⟨h.dir, hwf, FsGeomEq.refl _, h.fuel⟩

open FatVerif.FileSim in
theorem ChainReadable.of_inv {d d' : Dev} {c0 : Nat} {chain : List Nat}
    (h : ChainInv d.fs (FileH.new (some c0) none) c0 chain d') : ChainReadable d' c0 none chain :=
  ⟨h.dir, by rw [h.geom.clusterSize, dirFuel_geom h.geom]; exact h.fuel⟩

open FatVerif.FileSim in
theorem chainSlots_of_inv {d d' : Dev} {c0 : Nat} {chain : List Nat}
    (h : ChainInv d.fs (FileH.new (some c0) none) c0 chain d') :
    chainSlots d'.fs d'.img chain =
      srcSlots d'.img (chainSrc d.fs chain) (chain.length * (d.fs.clusterSize / 32)) := by
  rw [← srcSlots_chain d'.fs d'.img h.dir.geo.cs_pos h.dir.cs32 chain, chainSrc_geom h.geom, h.geom.clusterSize]

/-- **`deleteEntry_sim`, cluster chain without an entry** (the root of FAT32) -/
theorem deleteEntry_chain_sim {d : Dev} {c0 : Nat} {chain : List Nat} (h : ChainReadable d c0 none chain)
    (hwf : d.img.WF) (le : LfnEntry)
    (hmem : le ∈ readDirEntries d.fs.lfnAlloc true (chainSlots d.fs d.img chain)) :
    ∃ d', run (deleteEntry (.file (FileH.new (some c0) none)) (toDirEntryS (chainSrc d.fs chain) le)) d = (.ok (), d') ∧
      chainSlots d'.fs d'.img chain = DirSlots.deleteRange (chainSlots d.fs d.img chain) le.beginIdx le.endIdx ∧
      d'.fs.curDirty = true ∧ d'.img.WF ∧ ChainReadable d' c0 none chain := by
  have hinv := h.inv hwf
  have hsl0 := chainSlots_of_inv hinv
  have hb := readLoop_bounds d.fs.lfnAlloc true (chainSlots d.fs d.img chain) 0 0 _ (Nat.le_refl _) le hmem
  rw [hsl0, srcSlots_length, Nat.zero_add] at hb
  obtain ⟨k, hk⟩ : ∃ k, le.endIdx = le.beginIdx + k := ⟨le.endIdx - le.beginIdx, by omega⟩
  obtain ⟨d', hr, _, hd, hinv', hsl, _⟩ := (chain_wfam rfl).deleteEntry chainInv_ok h.dir.slotGeo (chain_wfam rfl)
    (chain_wops rfl) (toDirEntryS (chainSrc d.fs chain) le) le.beginIdx k (by omega) rfl
    (by simp only [toDirEntryS]; rw [hk]) (by omega) d hinv
  refine ⟨d', hr, ?_, hd, hinv'.wf, ChainReadable.of_inv hinv'⟩
  rw [chainSlots_of_inv hinv', hsl, hsl0, hk]

/-- **`writeEntry_sim`, cluster chain without an entry**, when the entry fits into the allocated clusters -/
theorem writeEntry_chain_sim {d : Dev} {c0 : Nat} {chain : List Nat} (h : ChainReadable d c0 none chain)
    (hwf : d.img.WF) (name : String) (raw : DirFileEntryData)
    (hval : Names.validateLongName name = .ok ()) (hdot : (name = "." || name = "..") = false) (hraw : raw.WF)
    (hfit : DirSlots.findFree (chainSlots d.fs d.img chain) (Lfn.numParts (Names.encodeUtf16 name.toList).length + 1) +
      (Lfn.numParts (Names.encodeUtf16 name.toList).length + 1) ≤ chain.length * (d.fs.clusterSize / 32)) :
    ∃ (d' : Dev) (e : DirEntry), run (writeEntry (.file (FileH.new (some c0) none)) name raw) d = (.ok e, d') ∧
      e.data = raw ∧ e.lfn = Names.encodeUtf16 name.toList ∧
      chainSlots d'.fs d'.img chain =
        DirSlots.writeEntry (chainSlots d.fs d.img chain) (Names.encodeUtf16 name.toList) raw.serialize ∧
      d'.fs.curDirty = true ∧ d'.img.WF ∧ ChainReadable d' c0 none chain := by
  have hinv := h.inv hwf
  have hsl0 := chainSlots_of_inv hinv
  rw [hsl0] at hfit
  obtain ⟨d', hr, _, hd, hinv', hsl, _⟩ := (chain_wfam rfl).writeEntry chainInv_ok h.dir.slotGeo (chain_wfam rfl)
    (chain_wops rfl) name raw hval hdot hraw d hinv hfit
  refine ⟨d', _, hr, rfl, rfl, ?_, hd, hinv'.wf, ChainReadable.of_inv hinv'⟩
  rw [chainSlots_of_inv hinv', hsl, hsl0]

/-- **`createFile_sim`, cluster chain without an entry** (`create_file(name)` in the root of a FAT32 volume), end to end -/
theorem createFile_chain_sim {d : Dev} {c0 : Nat} {chain : List Nat} (h : ChainReadable d c0 none chain)
    (hwf : d.img.WF) (ha : d.fs.lfnAlloc = true) (env : Env) (path name : String)
    (hsp : Names.splitPath path = (name, none)) (hdot : (name = "." || name = "..") = false)
    (hval : Names.validateLongName name = .ok ()) (a : List Nat)
    (hchk : DirAlias.checkForExistenceL env.upper (chainSlots d.fs d.img chain) name (some false) 70000 = .ok (.alias a))
    (hfit : DirSlots.findFree (chainSlots d.fs d.img chain) (Lfn.numParts (Names.encodeUtf16 name.toList).length + 1) +
      (Lfn.numParts (Names.encodeUtf16 name.toList).length + 1) ≤ chain.length * (d.fs.clusterSize / 32))
    (fuel : Nat) :
    ∃ (d' : Dev) (e : DirEntry), run (createFile env (fuel + 1) (.file (FileH.new (some c0) none)) path) d =
        (.ok (FileH.new (e.firstCluster d.fs) (some e.editor)), d') ∧
      e.data = sfnAt d.fs d.clock a 0 none ∧ e.lfn = Names.encodeUtf16 name.toList ∧
      chainSlots d'.fs d'.img chain = DirSlots.writeEntry (chainSlots d.fs d.img chain) (Names.encodeUtf16 name.toList)
        (sfnAt d.fs d.clock a 0 none).serialize ∧
      d'.fs.curDirty = true ∧ d'.img.WF ∧ ChainReadable d' c0 none chain := by
  have hinv := h.inv hwf
  have hsl0 := chainSlots_of_inv hinv
  rw [hsl0] at hfit hchk
  obtain ⟨d', e, hr, he1, he2, _, hd, hinv', hsl, _⟩ := (chain_wfam rfl).createFile chainInv_ok h.dir.slotGeo
    (chain_wfam rfl) (chain_wops rfl) env path name hsp hdot hval d hinv ha a hchk hfit fuel
  refine ⟨d', e, hr, he1, he2, ?_, hd, hinv'.wf, ChainReadable.of_inv hinv'⟩
  rw [chainSlots_of_inv hinv', hsl, hsl0]

/-! ## a whole operation: `remove(name)` of a file in the fixed root directory -/

open FatVerif.FileSim FatVerif.Fat in
/-- **`remove_sim`, a file in the fixed root** (single-component path): `find_entry` finds the listed entry `le` (a
    file), `free_cluster_chain` releases its chain `cs` in the FAT (every copy; `tabView` becomes `freedView … cs`;
    agent-fat's `run_freeClusterChain_any`), `deleteEntry` marks its slots deleted. Hypotheses besides `RootReadable`:
    well-formed image, layout `Geo`, FS-info cache consistent (`InfoOk`), the FAT copies end before the root region,
    and `cs` is the duplicate-free chain of the entry's first cluster inside the table (`[]` if it has none) -/
theorem remove_root_file_sim {d : Dev} {N : Nat} (h : RootReadable d N) (hwf : d.img.WF)
    (hB : 0x42 ≤ (rootSliceOf d.fs).beginOff) (hgeo : Geo d.fs d.img.size) (hinfo : InfoOk d.fs d.img)
    (hout : (fatSliceOf d.fs).beginOff + (fatSliceOf d.fs).mirrors * (fatSliceOf d.fs).size ≤ (rootSliceOf d.fs).beginOff)
    (env : Env) (path name : String) (hsp : Names.splitPath path = (name, none))
    (hdot : (name = "." || name = "..") = false) (le : LfnEntry)
    (hl : lookupL env.upper name.toList none (readDirEntries d.fs.lfnAlloc true (rootDirSlots d.fs d.img)) = .ok le)
    (hfile : Lfn.isDir le.sfn = false) (cs : List Nat)
    (hcs : match (toDirEntry (rootSliceOf d.fs).beginOff le).firstCluster d.fs with
      | some n => Chain (tabView d.fs d.img) n cs ∧ cs.Nodup ∧
          ∀ x ∈ cs, 2 ≤ x ∧ x < d.fs.totalClusters + 2 ∧ tabView d.fs d.img x ≠ .free
      | none => cs = []) (fuel : Nat) :
    ∃ d', run (remove env (fuel + 1) (rootAt d.fs 0) path) d = (.ok (), d') ∧
      rootDirSlots d'.fs d'.img = DirSlots.deleteRange (rootDirSlots d.fs d.img) le.beginIdx le.endIdx ∧
      tabView d'.fs d'.img = freedView (tabView d.fs d.img) cs ∧
      d'.fs.curDirty = true ∧ d'.img.WF ∧ RootReadable d' N := by
  obtain ⟨d', hr, hs, hd, hsl, htv, _⟩ := root_remove_file (rootSliceOf d.fs) N h.slots rfl rfl hB env path name hsp hdot d
    h.noFault h.inside hwf h.fuel hgeo hinfo hout le hl hfile cs hcs fuel
  refine ⟨d', hr, ?_, htv, hd, hs.wf hwf, h.of_volStep hs⟩
  unfold rootDirSlots
  rw [rootSliceOf_geomEq hs.geom, hsl]

/-! ## WRITES, fourth step: GROWTH of a cluster-chain directory by one cluster

When the new entry does not fit into the allocated clusters of the directory but fits after one more, `File::write` at
the end of the chain allocates a cluster (`alloc_cluster(Some(last), zero = true)`: agent-fat's
`run_allocClusterFs_any`), links it behind the last cluster of the chain, zero-fills it and continues there
(Proofs/DirWriteSim17–21). -/

open FatVerif.FileSim FatVerif.Fat in
/-- **`writeEntry_sim` with growth, cluster chain without an entry** (the root of FAT32): `c` is the cluster the
    allocator finds (`allocFindV` on the decoded FAT of the image and the FS-info hint), `last` the last cluster of
    the chain (not free). Afterwards the directory has the chain `chain ++ [c]`, the FAT of the image is
    `allocLinkV … (some last) c` (part of `ChainReadable` of the new device through its `Chain`), and its slots are
    `DirSlots.writeEntry` of the old ones followed by the zero slots that remain in the new cluster -/
theorem writeEntry_chain_grow_sim {d : Dev} {c0 : Nat} {chain : List Nat} (h : ChainReadable d c0 none chain)
    (hwf : d.img.WF) (hinfo : InfoOk d.fs d.img) (c last : Nat) (hlast : chain.getLast? = some last)
    (hlv : tabView d.fs d.img last ≠ .free)
    (hfind : allocFindV (tabView d.fs d.img) d.fs.fsInfo.next d.fs.totalClusters = some c)
    (hu32 : (chain.length + 1) * d.fs.clusterSize < 4294967296)
    (hfuel' : (chain.length + 1) * (d.fs.clusterSize / 32) < dirFuel d.fs)
    (name : String) (raw : DirFileEntryData) (hval : Names.validateLongName name = .ok ())
    (hdot : (name = "." || name = "..") = false) (hraw : raw.WF) (hlfn : attrsIsLfn raw.attrs = false)
    (hgrow : chain.length * (d.fs.clusterSize / 32) <
      DirSlots.findFree (chainSlots d.fs d.img chain) (Lfn.numParts (Names.encodeUtf16 name.toList).length + 1) +
        (Lfn.numParts (Names.encodeUtf16 name.toList).length + 1))
    (hfit : DirSlots.findFree (chainSlots d.fs d.img chain) (Lfn.numParts (Names.encodeUtf16 name.toList).length + 1) +
        (Lfn.numParts (Names.encodeUtf16 name.toList).length + 1) ≤
      chain.length * (d.fs.clusterSize / 32) + d.fs.clusterSize / 32) :
    ∃ (d' : Dev) (e : DirEntry), run (writeEntry (.file (FileH.new (some c0) none)) name raw) d = (.ok e, d') ∧
      e.data = raw ∧ e.lfn = Names.encodeUtf16 name.toList ∧
      chainSlots d'.fs d'.img (chain ++ [c]) =
        DirSlots.writeEntry (chainSlots d.fs d.img chain) (Names.encodeUtf16 name.toList) raw.serialize ++
          List.replicate (chain.length * (d.fs.clusterSize / 32) + d.fs.clusterSize / 32 -
            (DirSlots.findFree (chainSlots d.fs d.img chain) (Lfn.numParts (Names.encodeUtf16 name.toList).length + 1) +
              (Lfn.numParts (Names.encodeUtf16 name.toList).length + 1))) DirSlots.zeroSlot ∧
      d'.fs.curDirty = true ∧ d'.img.WF ∧ ChainReadable d' c0 none (chain ++ [c]) := by
  have hinv := h.inv hwf
  have hsl0 := chainSlots_of_inv hinv
  rw [hsl0] at hgrow hfit
  obtain ⟨d', e, hr, he, _, hd, hinv', hsl, _⟩ := chain_writeEntry_grow (fs0 := d.fs) (f0 := FileH.new (some c0) none)
    (c0 := c0) (chain := chain) rfl c last name raw hval hdot hraw hlfn d hinv hinfo hlast hlv hfind hu32 hfuel' hgrow hfit
  have hdata : e.data = raw := by
    rw [he]
    have := writeEntry_result (chainSrc d.fs (chain ++ [c])) raw hraw hlfn (Names.encodeUtf16 name.toList) 0 1 (by omega)
    simp only [toDirEntryS] at this ⊢
    injection this with h1
    exact h1.symm
  refine ⟨d', e, hr, hdata, by rw [he]; rfl, ?_, hd, hinv'.wf, ChainReadable.of_inv hinv'⟩
  rw [chainSlots_of_inv hinv', hsl0]
  have hNK : (chain ++ [c]).length * (d.fs.clusterSize / 32) =
      chain.length * (d.fs.clusterSize / 32) + d.fs.clusterSize / 32 := by
    rw [List.length_append, List.length_singleton, Nat.add_mul, Nat.one_mul]
  rw [hNK]
  exact hsl

/-! ## carrying the OTHER directories over a write

After a write into one directory (`VolStep d d'` + the frame `FrameOutG`), every other directory is readable on the new
device, with the same slot geometry: -/

open FatVerif.FileSim in
/-- a cluster-chain directory (any handle) stays readable across a step that keeps fault schedule, size, geometry and
    the first FAT copy -/
theorem ChainReadable.of_volStep {d d' : Dev} {c0 : Nat} {ent : Option DirEntryEditor} {chain : List Nat}
    (h : ChainReadable d c0 ent chain) (hs : VolStep d d') (hfat : FatAgree d.fs d.img d'.img) :
    ChainReadable d' c0 ent chain :=
  ⟨h.dir.of_agree hs.failAt hs.size hs.geom hfat, by
    rw [hs.geom.clusterSize, dirFuel_geomEq hs.geom]; exact h.fuel⟩

open FatVerif.FileSim in
/-- … and its slot offsets on the device are the same function -/
theorem chainSrc_of_volStep {d d' : Dev} (hs : VolStep d d') (chain : List Nat) :
    chainSrc d'.fs chain = chainSrc d.fs chain := chainSrc_geom hs.geom chain

/-! ## non-vacuity: a sub-directory of two clusters (the listing crosses the cluster boundary through the FAT) -/

namespace Ex2

/-- geometry: 512-byte sectors and clusters, FAT = sector 1, root region = sector 2, clusters 2..5 = sectors 3..6 -/
def fs : FsState :=
  { fatType := .fat16, bps := 512, spc := 1, reserved := 1, fats := 1, spf := 1, totalClusters := 4,
    firstDataSector := 3, rootEntries := 16, rootDirSectors := 1 }

def deleted : List Nat := 0xE5 :: List.replicate 31 0

/-- FAT: cluster 2 → 3 → end of chain. Cluster 2: the short slot of "B" and 15 deleted slots; cluster 3: the long-name
    slot of "Hello.txt" and its short slot, then zeros -/
def bytes : List Nat :=
  List.replicate 512 0 ++
  ([0xF8, 0xFF, 0xFF, 0xFF, 3, 0, 0xFF, 0xFF] ++ List.replicate 504 0) ++
  List.replicate 512 0 ++
  ((DirFileEntryData.new Ex.sfn2 0x10).serialize ++ (List.replicate 15 deleted).flatten) ++
  ((lfnGenerate (Names.encodeUtf16 "Hello.txt".toList) (lfnChecksum Ex.sfn1)).flatten ++
    (DirFileEntryData.new Ex.sfn1 0x20).serialize)

def dev : Dev := { img := Img.ofBytes bytes 4096, fs := fs }

end Ex2

open FatVerif.FileSim FatVerif.Fat in
/-- the hypotheses hold of the example: the directory starting at cluster 2 has the chain `[2, 3]` -/
theorem Ex2.readable : ChainReadable Ex2.dev 2 none [2, 3] := by
  have h2 : tabView Ex2.fs Ex2.dev.img 2 = .data 3 := by decide +kernel
  have h3 : tabView Ex2.fs Ex2.dev.img 3 = .eoc := by decide +kernel
  refine ⟨⟨rfl, ⟨by decide, by decide, by decide, by decide, by decide, by decide, by decide, by decide, by decide, by decide,
    by decide⟩,
    rfl, ?_, by decide, rfl, Or.inr rfl, (fun e he => by cases he), by decide, by decide⟩, by decide⟩
  exact Chain.cons 2 3 [3] h2 (Chain.last 3 (fun n hn => by
    have : tabView Ex2.dev.fs Ex2.dev.img 3 = .eoc := h3
    rw [this] at hn; cases hn))

/-- the run of `listDir` on it IS the pure listing of the slots of clusters 2 and 3: "B", then (from cluster 3, reached
    through the FAT) the entry carrying the units of "Hello.txt"; its `entryPos` is byte 32 of cluster 3 = 2080 -/
example : (run (listDir (.file (FileH.new (some 2) none))) Ex2.dev).1 =
      .ok ((DirSlots.listing (chainSlots Ex2.dev.fs Ex2.dev.img [2, 3])).map
        (toDirEntryS (chainSrc Ex2.dev.fs [2, 3]))) ∧
    ((DirSlots.listing (chainSlots Ex2.dev.fs Ex2.dev.img [2, 3])).map (·.units)) =
      [[], Names.encodeUtf16 "Hello.txt".toList] ∧
    ((DirSlots.listing (chainSlots Ex2.dev.fs Ex2.dev.img [2, 3])).map
        (fun e => (toDirEntryS (chainSrc Ex2.dev.fs [2, 3]) e).entryPos)) = [1536, 2080] := by
  decide +kernel

/-! ## non-vacuity: a path walk from the fixed root into that sub-directory -/

namespace Ex3

def sfnSub : List Nat := [83, 85, 66, 32, 32, 32, 32, 32, 32, 32, 32]     -- "SUB        "

/-- the short record of the directory `SUB`, first cluster 2 -/
def subData : DirFileEntryData := (DirFileEntryData.new sfnSub 0x10).setFirstCluster (some 2) .fat16

/-- the volume of `Ex2` with `SUB` as the first slot of the root region (sector 2) -/
def bytes : List Nat :=
  List.replicate 512 0 ++
  ([0xF8, 0xFF, 0xFF, 0xFF, 3, 0, 0xFF, 0xFF] ++ List.replicate 504 0) ++
  (subData.serialize ++ List.replicate 480 0) ++
  ((DirFileEntryData.new Ex.sfn2 0x10).serialize ++ (List.replicate 15 Ex2.deleted).flatten) ++
  ((lfnGenerate (Names.encodeUtf16 "Hello.txt".toList) (lfnChecksum Ex.sfn1)).flatten ++
    (DirFileEntryData.new Ex.sfn1 0x20).serialize)

def dev : Dev := { img := Img.ofBytes bytes 4096, fs := Ex2.fs }

def env : Env := ⟨fun c => [c.toUpper]⟩

/-- the entry of `SUB` as the library reads it from the root -/
def subE : DirEntry := { data := subData, lfn := [], entryPos := 1024, rangeBegin := 0, rangeEnd := 32 }

/-- the entry of `Hello.txt` as the library reads it from `SUB`: slots 16 (long name) and 17 (short record, at byte 32
    of cluster 3) -/
def fileE : DirEntry :=
  { data := DirFileEntryData.new Ex.sfn1 0x20, lfn := Names.encodeUtf16 "Hello.txt".toList, entryPos := 2080,
    rangeBegin := 512, rangeEnd := 576 }

end Ex3

theorem Ex3.root : RootReadable Ex3.dev 16 := ⟨rfl, by decide, by decide, by decide⟩

open FatVerif.FileSim FatVerif.Fat in
theorem Ex3.sub : ChainReadable Ex3.dev 2 (some Ex3.subE.editor) [2, 3] := by
  have h2 : tabView Ex2.fs Ex3.dev.img 2 = .data 3 := by decide +kernel
  have h3 : tabView Ex2.fs Ex3.dev.img 3 = .eoc := by decide +kernel
  refine ⟨⟨rfl, ⟨by decide, by decide, by decide, by decide, by decide, by decide, by decide, by decide, by decide,
    by decide, by decide⟩,
    rfl, ?_, by decide, by decide, Or.inl rfl, (fun e he => by cases he; rfl), by decide, by decide⟩, by decide⟩
  exact Chain.cons 2 3 [3] h2 (Chain.last 3 (fun n hn => by
    have : tabView Ex3.dev.fs Ex3.dev.img 3 = .eoc := h3
    rw [this] at hn; cases hn))

theorem Ex3.sub_stream : DirEntry.dirStream Ex3.dev.fs Ex3.subE = .file (FileH.new (some 2) (some Ex3.subE.editor)) := by
  decide +kernel

/-- the pure resolution of `SUB/hello.TXT` (names match ignoring case) from the root finds the file entry in cluster 3 -/
theorem Ex3.resolves :
    ResolvesTo Ex3.dev Ex3.env (some false) 3 (rootAt Ex3.dev.fs 0) "SUB/hello.TXT" Ex3.fileE := by
  have h1 : (DirView.ofRoot Ex3.root).lookup Ex3.env "SUB" (some true) = .ok Ex3.subE := by decide +kernel
  have h2 : (DirView.ofChain Ex3.sub).lookup Ex3.env "hello.TXT" (some false) = .ok Ex3.fileE := by decide +kernel
  refine ResolvesTo.step (name := "SUB") (rest := "hello.TXT") (by decide +kernel) (DirView.ofRoot Ex3.root) h1 ?_
  rw [Ex3.sub_stream]
  exact ResolvesTo.last (name := "hello.TXT") (by decide +kernel) (DirView.ofChain Ex3.sub) h2

/-- … so (`openFile_sim`) `open_file("SUB/hello.TXT")` on the root returns the handle of that file, keeping the volume -/
example : Reads (openFile Ex3.env 3 (rootAt Ex3.dev.fs 0) "SUB/hello.TXT") Ex3.dev
    (FileH.new (Ex3.fileE.firstCluster Ex3.dev.fs) (some Ex3.fileE.editor)) :=
  openFile_sim Ex3.resolves Ex3.dev (SameVol.refl _)

/-! ## non-vacuity: removing "Hello.txt" (slots 0–1) from the root directory of `Ex` -/

namespace Ex4
/-- the volume of `Ex`, its first page filled up to the page size (a well-formed image) -/
def bytes : List Nat := List.replicate 1024 0 ++ Ex.slots.flatten ++ List.replicate (4096 - 1024 - 96) 0
def dev : Dev := { img := Img.ofBytes bytes 8192, fs := Ex.fs }
/-- the listed entry of "Hello.txt": long-name slot 0, short slot 1 -/
def hello : LfnEntry := ⟨(DirFileEntryData.new Ex.sfn1 0x20).serialize, Names.encodeUtf16 "Hello.txt".toList, 0, 2⟩
end Ex4

theorem Ex4.readable : RootReadable Ex4.dev 16 := ⟨rfl, by decide, by decide, by decide⟩

theorem Ex4.wf : Ex4.dev.img.WF := by
  intro k p hk
  simp only [Ex4.dev, Img.ofBytes, Std.HashMap.getElem?_insert] at hk
  split at hk
  · cases hk; decide +kernel
  · simp at hk

/-- the hypotheses of `deleteEntry_root_sim` hold of `Ex4.dev` and the entry of "Hello.txt"; the slots it predicts for
    the image after the run: slots 0 and 1 marked deleted (first byte `0xE5`), "B" still listed -/
example : 0x42 ≤ (rootSliceOf Ex4.dev.fs).beginOff ∧
    Ex4.hello ∈ readDirEntries Ex4.dev.fs.lfnAlloc true (rootDirSlots Ex4.dev.fs Ex4.dev.img) ∧
    ((DirSlots.deleteRange (rootDirSlots Ex4.dev.fs Ex4.dev.img) 0 2).take 3).map (·.getD 0 0) = [0xE5, 0xE5, 66] ∧
    (DirSlots.listing (DirSlots.deleteRange (rootDirSlots Ex4.dev.fs Ex4.dev.img) 0 2)).map (fun e => Lfn.sfnName e.sfn)
      = [Ex.sfn2] := by
  decide +kernel

/-- … and the theorem applied to it -/
example : ∃ d', run (deleteEntry (rootAt Ex4.dev.fs 0) (toDirEntry (rootSliceOf Ex4.dev.fs).beginOff Ex4.hello)) Ex4.dev
      = (.ok (), d') ∧
    rootDirSlots d'.fs d'.img = DirSlots.deleteRange (rootDirSlots Ex4.dev.fs Ex4.dev.img) 0 2 ∧
    d'.fs.curDirty = true := by
  obtain ⟨d', h1, h2, h3, _⟩ := deleteEntry_root_sim Ex4.readable Ex4.wf (by decide) Ex4.hello (by decide +kernel)
  exact ⟨d', h1, h2, h3⟩

/-- the hypotheses of `createFile_root_sim` hold of `Ex4.dev` and the new name "New file.txt": the alias chosen from
    the root slots is `NEWFIL~1TXT`, the entry (2 slots) goes to slots 3–4 (from the first end marker on), which fits -/
example :
    Names.splitPath "New file.txt" = ("New file.txt", none) ∧ Names.validateLongName "New file.txt" = .ok () ∧
    DirAlias.checkForExistenceL Ex3.env.upper (rootDirSlots Ex4.dev.fs Ex4.dev.img) "New file.txt" (some false) 70000 =
      .ok (.alias [78, 69, 87, 70, 73, 76, 126, 49, 84, 88, 84]) ∧
    DirSlots.findFree (rootDirSlots Ex4.dev.fs Ex4.dev.img)
      (Lfn.numParts (Names.encodeUtf16 "New file.txt".toList).length + 1) = 3 ∧
    Lfn.numParts (Names.encodeUtf16 "New file.txt".toList).length + 1 = 2 := by
  decide +kernel

/-! ## non-vacuity: deleting "B" from the two-cluster directory of `Ex2` (image filled up to the page size) -/

namespace Ex5
def bytes : List Nat := Ex2.bytes ++ List.replicate (4096 - Ex2.bytes.length) 0
def dev : Dev := { img := Img.ofBytes bytes 4096, fs := Ex2.fs }
/-- the listed entry of "B": slot 0 -/
def b : LfnEntry := ⟨(DirFileEntryData.new Ex.sfn2 0x10).serialize, [], 0, 1⟩
end Ex5

theorem Ex5.wf : Ex5.dev.img.WF := by
  intro k p hk
  simp only [Ex5.dev, Img.ofBytes, Std.HashMap.getElem?_insert] at hk
  split at hk
  · cases hk; decide +kernel
  · simp at hk

open FatVerif.FileSim FatVerif.Fat in
theorem Ex5.readable : ChainReadable Ex5.dev 2 none [2, 3] := by
  have h2 : tabView Ex2.fs Ex5.dev.img 2 = .data 3 := by decide +kernel
  have h3 : tabView Ex2.fs Ex5.dev.img 3 = .eoc := by decide +kernel
  refine ⟨⟨rfl, ⟨by decide, by decide, by decide, by decide, by decide, by decide, by decide, by decide, by decide,
    by decide, by decide⟩,
    rfl, ?_, by decide, rfl, Or.inr rfl, (fun e he => by cases he), by decide, by decide⟩, by decide⟩
  exact Chain.cons 2 3 [3] h2 (Chain.last 3 (fun n hn => by
    have : tabView Ex5.dev.fs Ex5.dev.img 3 = .eoc := h3
    rw [this] at hn; cases hn))

/-- `deleteEntry_chain_sim` applied: the run succeeds and slot 0 of the directory is marked deleted; what remains listed
    is "Hello.txt" (in cluster 3) -/
example : ∃ d', run (deleteEntry (.file (FileH.new (some 2) none))
      (toDirEntryS (chainSrc Ex5.dev.fs [2, 3]) Ex5.b)) Ex5.dev = (.ok (), d') ∧
    chainSlots d'.fs d'.img [2, 3] = DirSlots.deleteRange (chainSlots Ex5.dev.fs Ex5.dev.img [2, 3]) 0 1 ∧
    d'.fs.curDirty = true := by
  obtain ⟨d', h1, h2, h3, _⟩ := deleteEntry_chain_sim Ex5.readable Ex5.wf Ex5.b (by decide +kernel)
  exact ⟨d', h1, h2, h3⟩

example : (DirSlots.listing (DirSlots.deleteRange (chainSlots Ex5.dev.fs Ex5.dev.img [2, 3]) 0 1)).map (·.units) =
    [Names.encodeUtf16 "Hello.txt".toList] := by decide +kernel

/-! ## WRITES: `create_dir` as a whole operation (Proofs/DirWriteSim25–29)

`create_dir(name)` (single-component path, free name): `check_for_existence` chooses the alias, `alloc_cluster(None, true)`
takes the cluster `c` the allocator finds and zero-fills it (agent-fat's `run_allocClusterFs_any`), the parent gets the
entry (`write_entry`, inside its allocated slots), the new directory gets `.` and `..` through its own handle (whose
clones, when dropped, write the unchanged stamped entry back to the parent's slot). Generic statement for every writable
directory: `WView.createDir_sim`; here the instance for the fixed root as parent. -/

open FatVerif.FileSim FatVerif.Fat in
/-- **`createDir_sim`, fixed root as parent**: afterwards the root slots are `DirSlots.writeEntry` of those before (short
    record: alias, attribute `DIRECTORY`, first cluster `c`, stamps from the clock), the decoded FAT has `c ↦ EOC`, the
    slots of cluster `c` are the `.` entry (first cluster `c`), the `..` entry (no cluster: the parent is the root) and
    zero slots, and the returned handle is a readable one-cluster directory -/
theorem createDir_root_sim {d : Dev} {N : Nat} (h : RootReadable d N) (hwf : d.img.WF)
    (hB : 0x42 ≤ (rootSliceOf d.fs).beginOff) (hgeo : Geo d.fs d.img.size) (hinfo : InfoOk d.fs d.img)
    (hout : (fatSliceOf d.fs).beginOff + (fatSliceOf d.fs).mirrors * (fatSliceOf d.fs).size ≤ (rootSliceOf d.fs).beginOff)
    (hend : (rootSliceOf d.fs).beginOff + (rootSliceOf d.fs).size ≤ d.fs.firstDataSector * d.fs.bps)
    (ha : d.fs.lfnAlloc = true) (hacc : d.fs.accDate = false) (hcs32 : d.fs.clusterSize % 32 = 0)
    (hcs64 : 64 ≤ d.fs.clusterSize) (hu32 : d.fs.clusterSize < 4294967296)
    (hfuelN : d.fs.clusterSize / 32 < dirFuel d.fs) (env : Env) (path name : String)
    (hsp : Names.splitPath path = (name, none)) (hdot : (name = "." || name = "..") = false)
    (hval : Names.validateLongName name = .ok ()) (a : List Nat)
    (hchk : DirAlias.checkForExistenceL env.upper (rootDirSlots d.fs d.img) name (some true) 70000 = .ok (.alias a))
    (c : Nat) (hfind : allocFindV (tabView d.fs d.img) d.fs.fsInfo.next d.fs.totalClusters = some c)
    (hfit : DirSlots.findFree (rootDirSlots d.fs d.img) (Lfn.numParts (Names.encodeUtf16 name.toList).length + 1) +
      (Lfn.numParts (Names.encodeUtf16 name.toList).length + 1) ≤ N) (fuel : Nat) :
    ∃ (d' : Dev) (ed0 : DirEntryEditor),
      run (createDir env (fuel + 1) (rootAt d.fs 0) path) d = (.ok (.file (FileH.new (some c) (some ed0))), d') ∧
      ed0.data = sfnAt d.fs d.clock a 16 (some c) ∧
      rootDirSlots d'.fs d'.img = DirSlots.writeEntry (rootDirSlots d.fs d.img) (Names.encodeUtf16 name.toList)
        (DirAlias.sfnWith a (16 :: sfnStamp d.fs d.clock (some c))) ∧
      tabView d'.fs d'.img = updV (tabView d.fs d.img) c .eoc ∧
      chainSlots d'.fs d'.img [c] =
        DirAlias.sfnWith (46 :: List.replicate 10 32) (16 :: sfnStamp d.fs d.clock (some c)) ::
        DirAlias.sfnWith (46 :: 46 :: List.replicate 9 32) (16 :: sfnStamp d.fs d.clock none) ::
        List.replicate (d.fs.clusterSize / 32 - 2) (List.replicate 32 0) ∧
      ChainReadable d' c (some ed0) [c] ∧ d'.fs.curDirty = true ∧ d'.img.WF ∧ RootReadable d' N := by
  obtain ⟨V, hN, hsrc, hEx, hInv⟩ : ∃ V : WView d (rootAt d.fs 0), V.N = N ∧
      V.src = (fun o => (rootSliceOf d.fs).beginOff + o) ∧ V.Extra = (fun _ => False) ∧
      V.Inv = RootInv d.fs (rootSliceOf d.fs) N :=
    ⟨WView.ofRoot (rootSliceOf d.fs) N h.slots rfl rfl hB d h.noFault h.inside hwf h.fuel, rfl, rfl, rfl, rfl⟩
  have hsl : V.slots d.img = rootDirSlots d.fs d.img := by
    unfold WView.slots; rw [hN, hsrc]; exact srcSlots_root h
  have h0 : RootInv d.fs (rootSliceOf d.fs) N d := ⟨h.noFault, h.inside, hwf, FsGeomEq.refl _, h.fuel⟩
  have hsz := h.slots
  have hin := h.inside
  obtain ⟨d', hr, hs, hd, _, hsl', htv, hnew, hC, _⟩ := V.createDir_sim env path name hsp hdot hval ha hgeo hinfo hacc hcs32
    hcs64 hu32 hfuelN a (by rw [hsl]; exact hchk) c hfind (by rw [hsl, hN]; exact hfit)
    (fun d1 d2 hv _ hal => by rw [hInv]; exact h0.of_alloc hv hal)
    (fun d1 d2 hi hs _ _ => by rw [hInv] at hi ⊢; exact hi.of_volStep hs)
    (fun i hi => by
      rw [hN] at hi
      rw [hsrc]
      have := clusterOff_ge d.fs c
      exact ⟨by show _ ≤ _ + 32 * i; omega, by show _ + 32 * i + 32 ≤ _; omega,
        Or.inl (by show _ + 32 * i + 32 ≤ _; omega)⟩)
    (fun q hq => by rw [hEx] at hq; exact hq.elim) fuel
  have hroot' := h.of_volStep hs
  have hdd : (if (rootAt d.fs 0).isRootDir then none else (rootAt d.fs 0).firstCluster) = none := rfl
  rw [hdd] at hnew
  refine ⟨d', _, hr, rfl, ?_, htv, ?_, ⟨hC, ?_⟩, hd, hs.wf hwf, hroot'⟩
  · rw [← hsl, ← hsl', ← srcSlots_root hroot', rootSliceOf_geomEq hs.geom]
    unfold WView.slots; rw [hN, hsrc]
  · rw [← hnew, ← srcSlots_chain d'.fs d'.img hC.geo.cs_pos hC.cs32 [c], chainSrc_geom hs.geom, hs.geom.clusterSize,
      List.length_singleton, Nat.one_mul]
  · rw [List.length_singleton, Nat.one_mul, hs.geom.clusterSize, dirFuel_geomEq hs.geom]; exact hfuelN

/-! ## non-vacuity: `create_dir("New dir")` in the root directory of `Ex4` -/

open FatVerif.FileSim FatVerif.Fat in
theorem Ex4.geo : Geo Ex4.dev.fs Ex4.dev.img.size :=
  ⟨by decide, by decide, by decide, by decide, by decide, by decide, by decide, by decide, by decide, by decide, by decide⟩

open FatVerif.FileSim FatVerif.Fat in
/-- all hypotheses of `createDir_root_sim` hold of `Ex4.dev` and the name "New dir": alias `NEWDIR~1`, the allocator finds
    cluster 2 (the FAT is empty), the entry (2 slots) goes to slots 3–4; hence the run succeeds and returns the directory
    of cluster 2, whose chain in the FAT of the image afterwards is `[2]` -/
example : ∃ (d' : Dev) (ed0 : DirEntryEditor),
    run (createDir Ex3.env 1 (rootAt Ex4.dev.fs 0) "New dir") Ex4.dev = (.ok (.file (FileH.new (some 2) (some ed0))), d') ∧
    rootDirSlots d'.fs d'.img = DirSlots.writeEntry (rootDirSlots Ex4.dev.fs Ex4.dev.img)
      (Names.encodeUtf16 "New dir".toList)
      (DirAlias.sfnWith [78, 69, 87, 68, 73, 82, 126, 49, 32, 32, 32] (16 :: sfnStamp Ex4.dev.fs Ex4.dev.clock (some 2))) ∧
    tabView d'.fs d'.img 2 = .eoc ∧ ChainReadable d' 2 (some ed0) [2] ∧
    (chainSlots d'.fs d'.img [2]).length = 16 := by
  obtain ⟨d', ed0, hr, _, hsl, htv, hnew, hC, _⟩ := createDir_root_sim Ex4.readable Ex4.wf (by decide) Ex4.geo
    ⟨fun n hn => (by cases hn), fun n hn => (by cases hn)⟩ (by decide) (by decide) rfl rfl (by decide) (by decide) (by decide)
    (by decide) Ex3.env "New dir" "New dir" (by decide +kernel) (by decide) (by decide +kernel)
    [78, 69, 87, 68, 73, 82, 126, 49, 32, 32, 32] (by decide +kernel) 2 (by decide +kernel) (by decide +kernel) 0
  refine ⟨d', ed0, hr, hsl, by rw [htv]; rfl, hC, ?_⟩
  rw [hnew]
  decide

/-- the listing the theorem predicts for the root afterwards: "Hello.txt", "B", and the new directory "New dir" -/
example : (DirSlots.listing (DirSlots.writeEntry (rootDirSlots Ex4.dev.fs Ex4.dev.img)
      (Names.encodeUtf16 "New dir".toList)
      (DirAlias.sfnWith [78, 69, 87, 68, 73, 82, 126, 49, 32, 32, 32] (16 :: sfnStamp Ex4.dev.fs Ex4.dev.clock (some 2))))).map
        (fun e => (e.units, Lfn.isDir e.sfn)) =
    [(Names.encodeUtf16 "Hello.txt".toList, false), ([], true), (Names.encodeUtf16 "New dir".toList, true)] := by
  decide +kernel

/-! ## WRITES: `remove` of an empty directory (Proofs/DirWriteSim30)

`remove(name)` where `name` is a directory: `find_entry`, `to_dir`, `is_empty` (the listing of the directory through its
own stream: only `.` and `..`), `free_cluster_chain` of its chain, `deleteEntry` of its slots in the parent. Generic:
`WView.remove_dir_sim` (+ `DirView.isEmpty_sim`); here the fixed root as parent. -/

open FatVerif.FileSim FatVerif.Fat in
/-- **`remove_sim`, an empty sub-directory of the fixed root**: `le` is the listed entry found (a directory with first
    cluster `c0`), `chain` its cluster chain (readable through the handle `to_dir` opens), whose slots list only dot
    entries (`emptyD`); afterwards the root slots are `deleteRange`, the FAT is `freedView … chain` -/
theorem remove_root_dir_sim {d : Dev} {N : Nat} (h : RootReadable d N) (hwf : d.img.WF)
    (hB : 0x42 ≤ (rootSliceOf d.fs).beginOff) (hgeo : Geo d.fs d.img.size) (hinfo : InfoOk d.fs d.img)
    (hout : (fatSliceOf d.fs).beginOff + (fatSliceOf d.fs).mirrors * (fatSliceOf d.fs).size ≤ (rootSliceOf d.fs).beginOff)
    (env : Env) (path name : String) (hsp : Names.splitPath path = (name, none))
    (hdot : (name = "." || name = "..") = false) (le : LfnEntry)
    (hl : lookupL env.upper name.toList none (readDirEntries d.fs.lfnAlloc true (rootDirSlots d.fs d.img)) = .ok le)
    (hdir : Lfn.isDir le.sfn = true) (c0 : Nat)
    (hfc : (toDirEntryS (fun o => (rootSliceOf d.fs).beginOff + o) le).firstCluster d.fs = some c0) (chain : List Nat)
    (hsub : ChainReadable d c0 (some (toDirEntryS (fun o => (rootSliceOf d.fs).beginOff + o) le).editor) chain)
    (hemp : emptyD ((readDirEntries d.fs.lfnAlloc true (chainSlots d.fs d.img chain)).map
      (toDirEntryS (chainSrc d.fs chain))) = true)
    (hnf : ∀ x ∈ chain, tabView d.fs d.img x ≠ .free) (fuel : Nat) :
    ∃ d', run (remove env (fuel + 1) (rootAt d.fs 0) path) d = (.ok (), d') ∧
      rootDirSlots d'.fs d'.img = DirSlots.deleteRange (rootDirSlots d.fs d.img) le.beginIdx le.endIdx ∧
      tabView d'.fs d'.img = freedView (tabView d.fs d.img) chain ∧
      d'.fs.curDirty = true ∧ d'.img.WF ∧ RootReadable d' N := by
  obtain ⟨V, hN, hsrc, hEx, hInv⟩ : ∃ V : WView d (rootAt d.fs 0), V.N = N ∧
      V.src = (fun o => (rootSliceOf d.fs).beginOff + o) ∧ V.Extra = (fun _ => False) ∧
      V.Inv = RootInv d.fs (rootSliceOf d.fs) N :=
    ⟨WView.ofRoot (rootSliceOf d.fs) N h.slots rfl rfl hB d h.noFault h.inside hwf h.fuel, rfl, rfl, rfl, rfl⟩
  have hsl : V.slots d.img = rootDirSlots d.fs d.img := by
    unfold WView.slots; rw [hN, hsrc]; exact srcSlots_root h
  have h0 : RootInv d.fs (rootSliceOf d.fs) N d := ⟨h.noFault, h.inside, hwf, FsGeomEq.refl _, h.fuel⟩
  have hds : DirEntry.dirStream d.fs (toDirEntryS V.src le) =
      .file (FileH.new (some c0) (some (toDirEntryS (fun o => (rootSliceOf d.fs).beginOff + o) le).editor)) := by
    rw [hsrc]; unfold DirEntry.dirStream; rw [hfc]
  obtain ⟨Vs, hVs⟩ : ∃ Vs : DirView d (DirEntry.dirStream d.fs (toDirEntryS V.src le)), Vs.isEmptyV = true := by
    rw [hds]
    refine ⟨DirView.ofChain hsub, ?_⟩
    unfold DirView.isEmptyV DirView.lfnEntries
    show emptyD ((readDirEntries d.fs.lfnAlloc true (srcSlots d.img (chainSrc d.fs chain)
      (chain.length * (d.fs.clusterSize / 32)))).map (toDirEntryS (chainSrc d.fs chain))) = true
    rw [hsub.slots_eq]; exact hemp
  obtain ⟨d', hr, hs, hd, _, hsl', dm, htv, hsm, hfr, _⟩ := V.remove_dir_sim env path name hsp hdot hgeo hinfo le
    (by rw [hsl]; exact hl) hdir Vs hVs chain
    (by
      rw [hsrc, hfc]
      exact ⟨hsub.dir.link, chain_nodup' hsub.dir.link, fun x hx => ⟨(hsub.dir.inTab x hx).1, (hsub.dir.inTab x hx).2, hnf x hx⟩⟩)
    (fun d1 d2 hv _ hf => by rw [hInv]; exact h0.of_freed hv hf)
    (fun i hi => by
      rw [hsrc]
      exact Or.inr (by show _ ≤ _ + 32 * i; omega)) fuel
  have hroot' := h.of_volStep hs
  refine ⟨d', hr, ?_, ?_, hd, hs.wf hwf, hroot'⟩
  · rw [← hsl, ← hsl', ← srcSlots_root hroot', rootSliceOf_geomEq hs.geom]
    unfold WView.slots; rw [hN, hsrc]
  · -- the FAT after `deleteEntry` is the FAT after the release: the root region lies behind the FAT copies
    have hgm : Geo dm.fs dm.img.size := by rw [hsm.size]; exact hgeo.frame hsm.geom
    have hms : (fatSliceOf d.fs).size ≤ (fatSliceOf d.fs).mirrors * (fatSliceOf d.fs).size :=
      Nat.le_mul_of_pos_left _ hgeo.mirrors_pos
    have hagree : FatAgree dm.fs dm.img d'.img :=
      fatAgree_of_frameE hfr dm.fs (by rw [hsm.geom.fatSlice]; exact hgeo.status_lt)
        (fun j _ => by rw [hsm.geom.fatSlice, hsrc]; show _ ≤ _ + 32 * j; omega)
        (fun q hq => by rw [hEx] at hq; exact hq.elim)
    have hs2 : FsGeomEq dm.fs d'.fs := by
      have h1 := hsm.geom
      have h2 := hs.geom
      unfold FsGeomEq at *
      rw [h2, h1]
    rw [hs2.tabView, tabView_congr hgm hagree, htv]

/-! ## non-vacuity: removing the empty directory `SUB` (cluster 2: `.`, `..`) from the root -/

namespace Ex6
def dot : DirFileEntryData := (DirFileEntryData.new (46 :: List.replicate 10 32) 0x10).setFirstCluster (some 2) .fat16
def dotdot : DirFileEntryData := DirFileEntryData.new (46 :: 46 :: List.replicate 9 32) 0x10
/-- the geometry of `Ex2`; FAT: cluster 2 = end of chain; root: the entry of `SUB` (first cluster 2); cluster 2: the two
    dot entries, then zeros; filled up to the page size -/
def bytes : List Nat :=
  List.replicate 512 0 ++
  ([0xF8, 0xFF, 0xFF, 0xFF, 0xFF, 0xFF] ++ List.replicate 506 0) ++
  (Ex3.subData.serialize ++ List.replicate 480 0) ++
  (dot.serialize ++ dotdot.serialize ++ List.replicate 448 0) ++
  List.replicate 2048 0
def dev : Dev := { img := Img.ofBytes bytes 4096, fs := Ex2.fs }
def sub : LfnEntry := ⟨Ex3.subData.serialize, [], 0, 1⟩
end Ex6

theorem Ex6.wf : Ex6.dev.img.WF := by
  intro k p hk
  simp only [Ex6.dev, Img.ofBytes, Std.HashMap.getElem?_insert] at hk
  split at hk
  · cases hk; decide +kernel
  · simp at hk

theorem Ex6.root : RootReadable Ex6.dev 16 := ⟨rfl, by decide, by decide, by decide⟩

open FatVerif.FileSim FatVerif.Fat in
theorem Ex6.geo : Geo Ex6.dev.fs Ex6.dev.img.size :=
  ⟨by decide, by decide, by decide, by decide, by decide, by decide, by decide, by decide, by decide, by decide, by decide⟩

open FatVerif.FileSim FatVerif.Fat in
theorem Ex6.subReadable : ChainReadable Ex6.dev 2
    (some (toDirEntryS (fun o => (rootSliceOf Ex6.dev.fs).beginOff + o) Ex6.sub).editor) [2] := by
  have h2 : tabView Ex6.dev.fs Ex6.dev.img 2 = .eoc := by decide +kernel
  refine ⟨⟨rfl, Ex6.geo, rfl, ?_, by decide, by decide +kernel, Or.inl rfl, (fun e he => by cases he; rfl), by decide,
    by decide⟩, by decide⟩
  exact Chain.last 2 (fun n hn => by rw [h2] at hn; cases hn)

open FatVerif.FileSim FatVerif.Fat in
/-- all hypotheses of `remove_root_dir_sim` hold of `Ex6.dev` and the name "sub" (found ignoring case): the run succeeds,
    slot 0 of the root is marked deleted and cluster 2 is free again -/
example : ∃ d', run (remove Ex3.env 1 (rootAt Ex6.dev.fs 0) "sub") Ex6.dev = (.ok (), d') ∧
    rootDirSlots d'.fs d'.img = DirSlots.deleteRange (rootDirSlots Ex6.dev.fs Ex6.dev.img) 0 1 ∧
    tabView d'.fs d'.img 2 = .free ∧ d'.fs.curDirty = true := by
  obtain ⟨d', hr, hsl, htv, hd, _⟩ := remove_root_dir_sim Ex6.root Ex6.wf (by decide) Ex6.geo
    ⟨fun n hn => (by cases hn), fun n hn => (by cases hn)⟩ (by decide) Ex3.env "sub" "sub" (by decide +kernel) (by decide)
    Ex6.sub (by decide +kernel) (by decide +kernel) 2 (by decide +kernel) [2] Ex6.subReadable (by decide +kernel)
    (fun x hx => by
      simp only [List.mem_singleton] at hx
      subst hx
      have h2 : tabView Ex6.dev.fs Ex6.dev.img 2 = .eoc := by decide +kernel
      rw [h2]; exact fun h => by cases h) 0
  refine ⟨d', hr, hsl, ?_, hd⟩
  rw [htv]
  simp [freedView]

/-! ## WRITES: `rename` of a file from one directory into another (Proofs/DirWriteSim31)

Generic: `WView.rename_file_across_sim` (source `V1`, destination `V2`; the new entry is written in the destination, then
the old one deleted in the source; each step stated relative to the device before it, since one directory may hold the
other's own entry) and `WView.rename_file_apart_sim` (directories that lie apart: both slot lists relative to the start).

Non-vacuity: moving `SUB/Hello.txt` of `Ex3` to the root as `Moved.txt` (the source is a child of the destination). -/

namespace Ex7
def bytes : List Nat := Ex3.bytes ++ List.replicate (4096 - Ex3.bytes.length) 0
def dev : Dev := { img := Img.ofBytes bytes 4096, fs := Ex2.fs }
/-- the listed entry of "Hello.txt" in `SUB`: slots 16–17 (cluster 3) -/
def hello : LfnEntry := ⟨(DirFileEntryData.new Ex.sfn1 0x20).serialize, Names.encodeUtf16 "Hello.txt".toList, 16, 18⟩
end Ex7

theorem Ex7.wf : Ex7.dev.img.WF := by
  intro k p hk
  simp only [Ex7.dev, Img.ofBytes, Std.HashMap.getElem?_insert] at hk
  split at hk
  · cases hk; decide +kernel
  · simp at hk

theorem Ex7.root : RootReadable Ex7.dev 16 := ⟨rfl, by decide, by decide, by decide⟩

open FatVerif.FileSim FatVerif.Fat in
theorem Ex7.geo : Geo Ex7.dev.fs Ex7.dev.img.size :=
  ⟨by decide, by decide, by decide, by decide, by decide, by decide, by decide, by decide, by decide, by decide, by decide⟩

open FatVerif.FileSim FatVerif.Fat in
theorem Ex7.sub : ChainDir Ex7.dev (FileH.new (some 2) (some Ex3.subE.editor)) 2 [2, 3] := by
  have h2 : tabView Ex2.fs Ex7.dev.img 2 = .data 3 := by decide +kernel
  have h3 : tabView Ex2.fs Ex7.dev.img 3 = .eoc := by decide +kernel
  refine ⟨rfl, Ex7.geo, rfl, ?_, by decide, by decide, Or.inl rfl, (fun e he => by cases he; rfl), by decide, by decide⟩
  exact Chain.cons 2 3 [3] h2 (Chain.last 3 (fun n hn => by
    have : tabView Ex7.dev.fs Ex7.dev.img 3 = .eoc := h3
    rw [this] at hn; cases hn))

open FatVerif.FileSim FatVerif.Fat in
/-- all hypotheses of `rename_file_across_sim` hold: the run of `rename_internal(SUB, "hello.txt", root, "Moved.txt")`
    succeeds, the FAT after the first step is unchanged, the volume is marked dirty -/
example : ∃ (dm d' : Dev), run (renameInternal Ex3.env (.file (FileH.new (some 2) (some Ex3.subE.editor))) "hello.txt"
      (rootAt Ex7.dev.fs 0) "Moved.txt") Ex7.dev = (.ok (), d') ∧
    tabView dm.fs dm.img = tabView Ex7.dev.fs Ex7.dev.img ∧ d'.fs.curDirty = true := by
  obtain ⟨dm, d', hr, _, _, _, _, hd, _, _, _, _, _, htv, _⟩ :=
    (WView.ofSub Ex7.dev 2 Ex3.subE.editor [2, 3] Ex7.sub Ex7.wf (by decide) (by decide) (by decide) (by decide)
      (by decide)).rename_file_across_sim
    (WView.ofRoot (rootSliceOf Ex7.dev.fs) 16 Ex7.root.slots rfl rfl (by decide) Ex7.dev rfl Ex7.root.inside Ex7.wf
      Ex7.root.fuel)
    Ex3.env "hello.txt" "Moved.txt" (by decide) (by decide +kernel) rfl Ex7.geo Ex7.hello (by decide +kernel)
    (by decide +kernel) [77, 79, 86, 69, 68, 32, 32, 32, 84, 88, 84] (by decide +kernel) (by decide +kernel)
    (fun d2 d3 hi hs hc htv => SubInv.of_volStep hi hs hc htv) (by decide) (fun q hq => hq.elim)
  exact ⟨dm, d', hr, htv, hd⟩

/-! ## WRITES: `rename` of a directory inside one directory (Proofs/DirWriteSim32–34)

`rename_internal` for a directory first climbs from the destination directory through the `..` entries to the root
(`ancestorWalk_sim` along `Climbs`: the moved directory must not be met), then writes the new entry, deletes the old one,
and looks up `..` in the moved directory through its NEW entry (`fixDotDot_same`: the parent stays, nothing is written;
`fixDotDot_move`: the record of `..` is rewritten raw). Generic: `WView.rename_dir_sim`.

Non-vacuity: renaming the empty directory `SUB` of `Ex6` (fixed root) to "Sub two". -/

open FatVerif.FileSim FatVerif.Fat in
example : ∃ d' : Dev, run (renameInternal Ex3.env (rootAt Ex6.dev.fs 0) "sub" (rootAt Ex6.dev.fs 0) "Sub two") Ex6.dev
      = (.ok (), d') ∧ d'.fs.curDirty = true ∧ tabView d'.fs d'.img = tabView Ex6.dev.fs Ex6.dev.img := by
  obtain ⟨d', hr, _, hd, _, _, htv⟩ :=
    (WView.ofRoot (rootSliceOf Ex6.dev.fs) 16 Ex6.root.slots rfl rfl (by decide) Ex6.dev rfl Ex6.root.inside Ex6.wf
      Ex6.root.fuel).rename_dir_sim Ex3.env "sub" "Sub two" (by decide) (by decide +kernel) rfl Ex6.geo Ex6.sub
      (by decide +kernel) (by decide +kernel) 0
      (Climbs.top (DirView.ofRoot Ex6.root) (by decide +kernel) rfl) (by decide)
      [83, 85, 66, 84, 87, 79, 126, 49, 32, 32, 32] (by decide +kernel) (by decide +kernel) (by decide)
      (fun q hq => hq.elim) 2 (by decide +kernel) [2] Ex6.subReadable.dir (by decide)
      (fun i hi x hx => ⟨fun h => h, fun j hj hc => by
        have h1 := chainSrc_ge Ex6.dev.fs [2] (32 * i)
        have h2 : Ex6.dev.fs.firstDataSector * Ex6.dev.fs.bps = 1536 := by decide
        have hb : (rootSliceOf Ex6.dev.fs).beginOff = 1024 := by decide
        have hj' : j < 16 := hj
        have hc' : (rootSliceOf Ex6.dev.fs).beginOff + 32 * j ≤ chainSrc Ex6.dev.fs [2] (32 * i) + x ∧
            chainSrc Ex6.dev.fs [2] (32 * i) + x < (rootSliceOf Ex6.dev.fs).beginOff + 32 * j + 32 := hc
        rw [hb] at hc'
        omega⟩)
      ⟨Ex6.dotdot.serialize, [], 1, 2⟩ (by decide +kernel) (by decide +kernel)
  exact ⟨d', hr, hd, htv⟩

/-! ## WRITES: moves between two directories that lie apart (Proofs/DirWriteSim31, 35, 36)

`WView.rename_file_apart_sim`, `WView.rename_dir_apart_sim` (the latter rewrites the `..` record of the moved directory).
Non-vacuity on a volume with the directories `A` (cluster 2: the file `F`, the directory `D` in cluster 4) and `B`
(cluster 3) in the fixed root: `A/F → B/G` and `A/D → B/E`. -/

section Ex8
open FatVerif.FileSim FatVerif.Fat

namespace Ex8
def nameA : List Nat := [65, 32, 32, 32, 32, 32, 32, 32, 32, 32, 32]
def nameB : List Nat := [66, 32, 32, 32, 32, 32, 32, 32, 32, 32, 32]
def nameD : List Nat := [68, 32, 32, 32, 32, 32, 32, 32, 32, 32, 32]
def nameF : List Nat := [70, 32, 32, 32, 32, 32, 32, 32, 32, 32, 32]
def dotN : List Nat := 46 :: List.replicate 10 32
def ddN : List Nat := 46 :: 46 :: List.replicate 9 32
def dirRec (nm : List Nat) (c : Option Nat) : DirFileEntryData := (DirFileEntryData.new nm 0x10).setFirstCluster c .fat16
/-- root: `A` (cluster 2), `B` (cluster 3); `A`: `.`, `..`, the file `F`, the directory `D` (cluster 4); `B`: `.`, `..`;
    `D`: `.`, `..` (naming `A`) -/
def bytes : List Nat :=
  List.replicate 512 0 ++
  ([0xF8, 0xFF, 0xFF, 0xFF, 0xFF, 0xFF, 0xFF, 0xFF, 0xFF, 0xFF] ++ List.replicate 502 0) ++
  ((dirRec nameA (some 2)).serialize ++ (dirRec nameB (some 3)).serialize ++ List.replicate 448 0) ++
  ((dirRec dotN (some 2)).serialize ++ (dirRec ddN none).serialize ++ (DirFileEntryData.new nameF 0x20).serialize ++
    (dirRec nameD (some 4)).serialize ++ List.replicate 384 0) ++
  ((dirRec dotN (some 3)).serialize ++ (dirRec ddN none).serialize ++ List.replicate 448 0) ++
  ((dirRec dotN (some 4)).serialize ++ (dirRec ddN (some 2)).serialize ++ List.replicate 448 0) ++
  List.replicate 1024 0
def dev : Dev := { img := Img.ofBytes bytes 4096, fs := Ex2.fs }
def edA : DirEntryEditor := DirEntryEditor.new (dirRec nameA (some 2)) 1024
def edB : DirEntryEditor := DirEntryEditor.new (dirRec nameB (some 3)) 1056
def f : LfnEntry := ⟨(DirFileEntryData.new nameF 0x20).serialize, [], 2, 3⟩
def dE : LfnEntry := ⟨(dirRec nameD (some 4)).serialize, [], 3, 4⟩
end Ex8

theorem Ex8.wf : Ex8.dev.img.WF := by
  intro k p hk
  simp only [Ex8.dev, Img.ofBytes, Std.HashMap.getElem?_insert] at hk
  split at hk
  · cases hk; decide +kernel
  · simp at hk

theorem Ex8.geo : Geo Ex8.dev.fs Ex8.dev.img.size :=
  ⟨by decide, by decide, by decide, by decide, by decide, by decide, by decide, by decide, by decide, by decide, by decide⟩

theorem Ex8.root : RootReadable Ex8.dev 16 := ⟨rfl, by decide, by decide, by decide⟩

/-- a one-cluster directory of `Ex8` read through a clean editor of a directory record -/
theorem Ex8.chainDir (c : Nat) (ed : DirEntryEditor) (hc : 2 ≤ c ∧ c < 6) (htv : tabView Ex8.dev.fs Ex8.dev.img c = .eoc)
    (hsz : ed.data.size? = none) (hcl : ed.dirty = false) : ChainDir Ex8.dev (FileH.new (some c) (some ed)) c [c] := by
  refine ⟨rfl, Ex8.geo, rfl, Chain.last c (fun n hn => by rw [htv] at hn; cases hn), ?_, hsz, Or.inl rfl,
    (fun e he => by cases he; exact hcl), by decide, by rw [List.length_singleton]; decide⟩
  intro x hx
  simp only [List.mem_singleton] at hx
  subst hx
  exact hc

theorem Ex8.src (c i : Nat) (hi : i < 16) : chainSrc Ex8.dev.fs [c] (32 * i) = clusterOff Ex8.dev.fs c + 32 * i :=
  chainSrc_single Ex8.dev.fs c i (by
    have : Ex8.dev.fs.clusterSize = 512 := by decide
    omega)

theorem Ex8.off (c : Nat) : clusterOff Ex8.dev.fs c = (3 + (c - 2)) * 512 := by
  unfold clusterOff
  show (3 + (c - 2) * 1) * 512 = (3 + (c - 2)) * 512
  rw [Nat.mul_one]

/-- two different one-cluster directories of `Ex8`, and an own entry in the root region, lie apart -/
theorem Ex8.apart (c c' p : Nat) (hc : 2 ≤ c) (hc' : 2 ≤ c') (hne : c ≠ c') (hp : p + 32 ≤ 1536) (i : Nat) (hi : i < 16)
    (x : Nat) (hx : x < 32) :
    ¬ (p ≤ chainSrc Ex8.dev.fs [c] (32 * i) + x ∧ chainSrc Ex8.dev.fs [c] (32 * i) + x < p + 32) ∧
    ∀ j, j < 16 → ¬ (chainSrc Ex8.dev.fs [c'] (32 * j) ≤ chainSrc Ex8.dev.fs [c] (32 * i) + x ∧
      chainSrc Ex8.dev.fs [c] (32 * i) + x < chainSrc Ex8.dev.fs [c'] (32 * j) + 32) := by
  rw [Ex8.src c i hi, Ex8.off]
  refine ⟨by omega, fun j hj => ?_⟩
  rw [Ex8.src c' j hj, Ex8.off]
  omega

def Ex8.VA : WView Ex8.dev (.file (FileH.new (some 2) (some Ex8.edA))) :=
  WView.ofSub Ex8.dev 2 Ex8.edA [2] (Ex8.chainDir 2 Ex8.edA (by decide) (by decide +kernel) (by decide) rfl) Ex8.wf
    (by decide) (by decide) (by decide) (by decide)
    (fun i hi => by
      have hi' : i < 16 := hi
      rw [Ex8.src 2 i hi', Ex8.off]
      right; show 1024 + 32 ≤ _; omega)

def Ex8.VB : WView Ex8.dev (.file (FileH.new (some 3) (some Ex8.edB))) :=
  WView.ofSub Ex8.dev 3 Ex8.edB [3] (Ex8.chainDir 3 Ex8.edB (by decide) (by decide +kernel) (by decide) rfl) Ex8.wf
    (by decide) (by decide) (by decide) (by decide)
    (fun i hi => by
      have hi' : i < 16 := hi
      rw [Ex8.src 3 i hi', Ex8.off]
      right; show 1056 + 32 ≤ _; omega)

theorem Ex8.behind (c : Nat) (hc : 2 ≤ c) (j : Nat) (hj : j < 16) :
    (fatSliceOf Ex8.dev.fs).beginOff + (fatSliceOf Ex8.dev.fs).size ≤ chainSrc Ex8.dev.fs [c] (32 * j) := by
  rw [Ex8.src c j hj, Ex8.off]
  have : (fatSliceOf Ex8.dev.fs).beginOff + (fatSliceOf Ex8.dev.fs).size = 1024 := by decide
  omega

/-- moving the file `A/F` to `B/G`: all hypotheses of `rename_file_apart_sim` hold -/
example : ∃ d' : Dev, run (renameInternal Ex3.env (.file (FileH.new (some 2) (some Ex8.edA))) "f"
      (.file (FileH.new (some 3) (some Ex8.edB))) "G") Ex8.dev = (.ok (), d') ∧
    Ex8.VA.slots d'.img = DirSlots.deleteRange (Ex8.VA.slots Ex8.dev.img) 2 3 ∧
    d'.fs.curDirty = true ∧ tabView d'.fs d'.img = tabView Ex8.dev.fs Ex8.dev.img := by
  obtain ⟨d', hr, _, hd, _, _, h1, _, htv⟩ := Ex8.VA.rename_file_apart_sim Ex8.VB Ex3.env "f" "G" (by decide)
    (by decide +kernel) rfl Ex8.geo Ex8.f (by decide +kernel) (by decide +kernel)
    [71, 32, 32, 32, 32, 32, 32, 32, 32, 32, 32] (by decide +kernel) (by decide +kernel)
    (fun d2 d3 hi hs hc htv => SubInv.of_volStep hi hs hc htv) (fun d2 d3 hi hs hc htv => SubInv.of_volStep hi hs hc htv)
    (fun j hj => Ex8.behind 2 (by omega) j hj)
    (fun q hq => by
      have hq' : subExtra Ex8.edA q := hq
      unfold subExtra at hq'
      have : (fatSliceOf Ex8.dev.fs).beginOff + (fatSliceOf Ex8.dev.fs).size = 1024 := by decide
      have : Ex8.edA.pos = 1024 := rfl
      omega)
    (fun j hj => Ex8.behind 3 (by omega) j hj)
    (fun q hq => by
      have hq' : subExtra Ex8.edB q := hq
      unfold subExtra at hq'
      have : (fatSliceOf Ex8.dev.fs).beginOff + (fatSliceOf Ex8.dev.fs).size = 1024 := by decide
      have : Ex8.edB.pos = 1056 := rfl
      omega)
    (fun i hi x hx => Ex8.apart 2 3 1056 (by omega) (by omega) (by omega) (by omega) i hi x hx)
    (fun i hi x hx => Ex8.apart 3 2 1024 (by omega) (by omega) (by omega) (by omega) i hi x hx)
  exact ⟨d', hr, h1, hd, htv⟩

/-- the `..` entry of `B` as the library reads it: it names the root -/
def Ex8.ddB : DirEntry := toDirEntryS (chainSrc Ex8.dev.fs [3]) ⟨(Ex8.dirRec Ex8.ddN none).serialize, [], 1, 2⟩

/-- the climb from `B` to the root (one step) never meets `D` (cluster 4) -/
theorem Ex8.climb : Climbs Ex8.dev Ex3.env (some 4) (.file (FileH.new (some 3) (some Ex8.edB))) 0 1 := by
  have hl0 : (lookupL Ex3.env.upper "..".toList (some true) (readDirEntries Ex8.dev.fs.lfnAlloc true
      (srcSlots Ex8.dev.img (chainSrc Ex8.dev.fs [3]) ([3].length * (Ex8.dev.fs.clusterSize / 32))))).map
        (toDirEntryS (chainSrc Ex8.dev.fs [3])) = .ok Ex8.ddB := by decide +kernel
  have hl : Ex8.VB.toDirView.lookup Ex3.env ".." (some true) = .ok Ex8.ddB := hl0
  have hs : DirEntry.dirStream Ex8.dev.fs Ex8.ddB = rootAt Ex8.dev.fs 0 := by decide +kernel
  refine Climbs.up Ex8.VB.toDirView (by decide) rfl (by decide) hl ?_
  rw [hs]
  exact Climbs.top (DirView.ofRoot Ex8.root) (by decide) rfl

/-- moving the directory `A/D` to `B/E`: all hypotheses of `rename_dir_apart_sim` hold; the `..` record of `D` (slot 1 of
    cluster 4) is rewritten with cluster 3 -/
example : ∃ d' : Dev, run (renameInternal Ex3.env (.file (FileH.new (some 2) (some Ex8.edA))) "d"
      (.file (FileH.new (some 3) (some Ex8.edB))) "E") Ex8.dev = (.ok (), d') ∧
    Ex8.VA.slots d'.img = DirSlots.deleteRange (Ex8.VA.slots Ex8.dev.img) 3 4 ∧
    (srcSlots d'.img (chainSrc Ex8.dev.fs [4]) 16).getD 1 [] = (Ex8.dirRec Ex8.ddN (some 3)).serialize ∧
    d'.fs.curDirty = true ∧ tabView d'.fs d'.img = tabView Ex8.dev.fs Ex8.dev.img := by
  have hfc : (toDirEntryS Ex8.VA.src Ex8.dE).firstCluster Ex8.dev.fs = some 4 := by decide +kernel
  have hclimb : Climbs Ex8.dev Ex3.env ((toDirEntryS Ex8.VA.src Ex8.dE).firstCluster Ex8.dev.fs)
      (.file (FileH.new (some 3) (some Ex8.edB))) 0 1 := by rw [hfc]; exact Ex8.climb
  obtain ⟨d', hr, _, hd, _, _, h1, _, hm, htv⟩ := Ex8.VA.rename_dir_apart_sim Ex8.VB Ex3.env "d" "E" (by decide)
    (by decide +kernel) rfl Ex8.geo Ex8.dE (by decide +kernel) (by decide +kernel) 1 hclimb (by decide +kernel)
    [69, 32, 32, 32, 32, 32, 32, 32, 32, 32, 32] (by decide +kernel) (by decide +kernel)
    (fun d2 d3 hi hs hc htv => SubInv.of_volStep hi hs hc htv) (fun d2 d3 hi hs hc htv => SubInv.of_volStep hi hs hc htv)
    (fun j hj => Ex8.behind 2 (by omega) j hj)
    (fun q hq => by
      have hq' : subExtra Ex8.edA q := hq
      unfold subExtra at hq'
      have : (fatSliceOf Ex8.dev.fs).beginOff + (fatSliceOf Ex8.dev.fs).size = 1024 := by decide
      have : Ex8.edA.pos = 1024 := rfl
      omega)
    (fun j hj => Ex8.behind 3 (by omega) j hj)
    (fun q hq => by
      have hq' : subExtra Ex8.edB q := hq
      unfold subExtra at hq'
      have : (fatSliceOf Ex8.dev.fs).beginOff + (fatSliceOf Ex8.dev.fs).size = 1024 := by decide
      have : Ex8.edB.pos = 1056 := rfl
      omega)
    (fun i hi x hx => Ex8.apart 2 3 1056 (by omega) (by omega) (by omega) (by omega) i hi x hx)
    (fun i hi x hx => Ex8.apart 3 2 1024 (by omega) (by omega) (by omega) (by omega) i hi x hx)
    4 hfc [4]
    (Ex8.chainDir 4 _ (by decide) (by decide +kernel) (by decide +kernel) rfl) (by decide)
    (fun i hi x hx => Ex8.apart 4 2 1024 (by omega) (by omega) (by omega) (by omega) i hi x hx)
    (fun i hi x hx => Ex8.apart 4 3 1056 (by omega) (by omega) (by omega) (by omega) i hi x hx)
    ⟨(Ex8.dirRec Ex8.ddN (some 2)).serialize, [], 1, 2⟩ (by decide +kernel) (by decide +kernel)
  refine ⟨d', hr, h1, ?_, hd, htv⟩
  have hm' : srcSlots d'.img (chainSrc Ex8.dev.fs [4]) 16 = _ := hm
  rw [hm']
  decide +kernel


end Ex8

/-! ## WRITES: `create_file` across one growth of the directory (cluster chain without an entry: the root of FAT32) -/

open FatVerif.FileSim FatVerif.Fat in
/-- **`createFile_sim` with growth**: as `createFile_chain_sim`, but the new entry does not fit into the allocated
    clusters and fits after one more (`writeEntry_chain_grow_sim`): the directory then has the chain `chain ++ [c]` -/
theorem createFile_chain_grow_sim {d : Dev} {c0 : Nat} {chain : List Nat} (h : ChainReadable d c0 none chain)
    (hwf : d.img.WF) (hinfo : InfoOk d.fs d.img) (ha : d.fs.lfnAlloc = true) (env : Env) (path name : String)
    (hsp : Names.splitPath path = (name, none)) (hdot : (name = "." || name = "..") = false)
    (hval : Names.validateLongName name = .ok ()) (a : List Nat)
    (hchk : DirAlias.checkForExistenceL env.upper (chainSlots d.fs d.img chain) name (some false) 70000 = .ok (.alias a))
    (c last : Nat) (hlast : chain.getLast? = some last) (hlv : tabView d.fs d.img last ≠ .free)
    (hfind : allocFindV (tabView d.fs d.img) d.fs.fsInfo.next d.fs.totalClusters = some c)
    (hu32 : (chain.length + 1) * d.fs.clusterSize < 4294967296)
    (hfuel' : (chain.length + 1) * (d.fs.clusterSize / 32) < dirFuel d.fs)
    (hgrow : chain.length * (d.fs.clusterSize / 32) <
      DirSlots.findFree (chainSlots d.fs d.img chain) (Lfn.numParts (Names.encodeUtf16 name.toList).length + 1) +
        (Lfn.numParts (Names.encodeUtf16 name.toList).length + 1))
    (hfit : DirSlots.findFree (chainSlots d.fs d.img chain) (Lfn.numParts (Names.encodeUtf16 name.toList).length + 1) +
        (Lfn.numParts (Names.encodeUtf16 name.toList).length + 1) ≤
      chain.length * (d.fs.clusterSize / 32) + d.fs.clusterSize / 32) (fuel : Nat) :
    ∃ (d' : Dev) (e : DirEntry), run (createFile env (fuel + 1) (.file (FileH.new (some c0) none)) path) d =
        (.ok (FileH.new (e.firstCluster d.fs) (some e.editor)), d') ∧
      e.data = sfnAt d.fs d.clock a 0 none ∧ e.lfn = Names.encodeUtf16 name.toList ∧
      chainSlots d'.fs d'.img (chain ++ [c]) =
        DirSlots.writeEntry (chainSlots d.fs d.img chain) (Names.encodeUtf16 name.toList)
          (sfnAt d.fs d.clock a 0 none).serialize ++
          List.replicate (chain.length * (d.fs.clusterSize / 32) + d.fs.clusterSize / 32 -
            (DirSlots.findFree (chainSlots d.fs d.img chain) (Lfn.numParts (Names.encodeUtf16 name.toList).length + 1) +
              (Lfn.numParts (Names.encodeUtf16 name.toList).length + 1))) DirSlots.zeroSlot ∧
      d'.fs.curDirty = true ∧ d'.img.WF ∧ ChainReadable d' c0 none (chain ++ [c]) := by
  have hce := checkForExistence_chain_sim h ha env name (some false)
  rw [hchk] at hce
  obtain ⟨d1, h1, hs1⟩ := hce
  have h' : ChainReadable d1 c0 none chain := ⟨h.dir.of_sameVol hs1, by rw [hs1.fs]; exact h.fuel⟩
  obtain ⟨hcan, hl11, _⟩ := C16dir.dir_alias_canon env.upper (chainSlots d.fs d.img chain) name (some false) 70000 a hchk
  have hrawwf := sfnAt_wf d.fs d.clock a 0 none hl11 (canon_lt hcan) (by omega)
  have hrawlfn : attrsIsLfn (sfnAt d.fs d.clock a 0 none).attrs = false := by rw [sfnAt_attrs]; decide
  obtain ⟨d', e, hr, he1, he2, hsl, hd, hwf', hread'⟩ := writeEntry_chain_grow_sim h' (by rw [hs1.img]; exact hwf)
    (by rw [hs1.fs, hs1.img]; exact hinfo) c last hlast (by rw [hs1.fs, hs1.img]; exact hlv)
    (by rw [hs1.fs, hs1.img]; exact hfind) (by rw [hs1.fs]; exact hu32) (by rw [hs1.fs]; exact hfuel') name
    (sfnAt d.fs d.clock a 0 none) hval hdot hrawwf hrawlfn (by rw [hs1.fs, hs1.img]; exact hgrow)
    (by rw [hs1.fs, hs1.img]; exact hfit)
  rw [hs1.fs, hs1.img] at hsl
  refine ⟨d', e, ?_, he1, he2, hsl, hd, hwf', hread'⟩
  unfold FatVerif.createFile
  rw [run_bind_ok (run_getFs d), hsp]
  simp only [hdot, Bool.false_eq_true, if_false]
  rw [run_bind_ok h1]
  simp only [liftEOA]
  rw [run_bind_ok (run_createSfnEntry a 0 none d1), hs1.fs, run_clock _ _ _ _ h1, run_bind_ok hr]
  unfold DirEntry.toFile
  have : e.isDir = false := by
    unfold DirEntry.isDir; rw [he1]; exact sfnAt_isDir_false d.fs d.clock a none
  rw [this]
  rfl

/-! ## non-vacuity: `create_file("N")` in a FULL one-cluster directory (16 entries "B"): the directory grows by cluster 3 -/

namespace Ex9
def bytes : List Nat :=
  List.replicate 512 0 ++
  ([0xF8, 0xFF, 0xFF, 0xFF, 0xFF, 0xFF] ++ List.replicate 506 0) ++
  List.replicate 512 0 ++
  (List.replicate 16 (DirFileEntryData.new Ex.sfn2 0x10).serialize).flatten ++
  List.replicate 2048 0
def dev : Dev := { img := Img.ofBytes bytes 4096, fs := Ex2.fs }
end Ex9

theorem Ex9.wf : Ex9.dev.img.WF := by
  intro k p hk
  simp only [Ex9.dev, Img.ofBytes, Std.HashMap.getElem?_insert] at hk
  split at hk
  · cases hk; decide +kernel
  · simp at hk

open FatVerif.FileSim FatVerif.Fat in
theorem Ex9.readable : ChainReadable Ex9.dev 2 none [2] := by
  have h2 : tabView Ex2.fs Ex9.dev.img 2 = .eoc := by decide +kernel
  refine ⟨⟨rfl, ⟨by decide, by decide, by decide, by decide, by decide, by decide, by decide, by decide, by decide,
    by decide, by decide⟩,
    rfl, ?_, by decide, rfl, Or.inr rfl, (fun e he => by cases he), by decide, by decide⟩, by decide⟩
  exact Chain.last 2 (fun n hn => by
    have : tabView Ex9.dev.fs Ex9.dev.img 2 = .eoc := h2
    rw [this] at hn; cases hn)

open FatVerif.FileSim FatVerif.Fat in
/-- all hypotheses of `createFile_chain_grow_sim` hold: the 2 slots of "N" start at slot 16 (the end of the directory),
    the allocator finds cluster 3; afterwards the directory has the chain `[2, 3]` and 32 slots -/
example : ∃ (d' : Dev) (e : DirEntry),
    run (createFile Ex3.env 1 (.file (FileH.new (some 2) none)) "N") Ex9.dev =
      (.ok (FileH.new (e.firstCluster Ex9.dev.fs) (some e.editor)), d') ∧
    ChainReadable d' 2 none [2, 3] ∧ (chainSlots d'.fs d'.img [2, 3]).length = 32 := by
  have h2 : tabView Ex9.dev.fs Ex9.dev.img 2 = .eoc := by decide +kernel
  obtain ⟨d', e, hr, _, _, hsl, _, _, hread⟩ := createFile_chain_grow_sim Ex9.readable Ex9.wf
    ⟨fun n hn => (by cases hn), fun n hn => (by cases hn)⟩ rfl Ex3.env "N" "N" (by decide +kernel) (by decide)
    (by decide +kernel) [78, 32, 32, 32, 32, 32, 32, 32, 32, 32, 32] (by decide +kernel) 3 2 rfl
    (by rw [h2]; exact fun h => by cases h) (by decide +kernel) (by decide) (by decide) (by decide +kernel)
    (by decide +kernel) 0
  refine ⟨d', e, hr, hread, ?_⟩
  have : ([2] ++ [3] : List Nat) = [2, 3] := rfl
  rw [this] at hsl
  rw [hsl]
  decide +kernel

/-! ## `create_file` in a sub-directory (`WView.createFile_sim`; the write stamps the directory's own entry in its parent)

Non-vacuity: `create_file("H")` in the directory `A` of `Ex8`. -/

example : ∃ (d' : Dev) (e : DirEntry),
    run (createFile Ex3.env 1 (.file (FileH.new (some 2) (some Ex8.edA))) "H") Ex8.dev =
      (.ok (FileH.new (e.firstCluster Ex8.dev.fs) (some e.editor)), d') ∧
    Ex8.VA.slots d'.img = DirSlots.writeEntry (Ex8.VA.slots Ex8.dev.img) (Names.encodeUtf16 "H".toList)
      (sfnAt Ex8.dev.fs Ex8.dev.clock [72, 32, 32, 32, 32, 32, 32, 32, 32, 32, 32] 0 none).serialize ∧
    d'.fs.curDirty = true := by
  obtain ⟨d', e, hr, _, _, _, hd, _, hsl, _⟩ := Ex8.VA.createFile_sim Ex3.env "H" "H" (by decide +kernel) (by decide)
    (by decide +kernel) rfl [72, 32, 32, 32, 32, 32, 32, 32, 32, 32, 32] (by decide +kernel) (by decide +kernel) 0
  exact ⟨d', e, hr, hsl, hd⟩

/-! ## `create_dir` with a cluster-chain directory without an entry (the root of FAT32) as parent -/

open FatVerif.FileSim FatVerif.Fat in
/-- **`createDir_sim`, chain parent without an entry**: as `createDir_root_sim`; `hlastv`: the last cluster of the
    parent's chain is not free (so the free cluster `c` is not on the chain) -/
theorem createDir_chain_sim {d : Dev} {c0 : Nat} {chain : List Nat} (h : ChainReadable d c0 none chain)
    (hwf : d.img.WF) (hinfo : InfoOk d.fs d.img) (ha : d.fs.lfnAlloc = true) (hacc : d.fs.accDate = false)
    (hcs64 : 64 ≤ d.fs.clusterSize) (hu32 : d.fs.clusterSize < 4294967296)
    (hfuelN : d.fs.clusterSize / 32 < dirFuel d.fs) (env : Env) (path name : String)
    (hsp : Names.splitPath path = (name, none)) (hdot : (name = "." || name = "..") = false)
    (hval : Names.validateLongName name = .ok ()) (a : List Nat)
    (hchk : DirAlias.checkForExistenceL env.upper (chainSlots d.fs d.img chain) name (some true) 70000 = .ok (.alias a))
    (c : Nat) (hfind : allocFindV (tabView d.fs d.img) d.fs.fsInfo.next d.fs.totalClusters = some c)
    (hlastv : ∀ l, chain.getLast? = some l → tabView d.fs d.img l ≠ .free)
    (hfit : DirSlots.findFree (chainSlots d.fs d.img chain) (Lfn.numParts (Names.encodeUtf16 name.toList).length + 1) +
      (Lfn.numParts (Names.encodeUtf16 name.toList).length + 1) ≤ chain.length * (d.fs.clusterSize / 32)) (fuel : Nat) :
    ∃ (d' : Dev) (ed0 : DirEntryEditor),
      run (createDir env (fuel + 1) (.file (FileH.new (some c0) none)) path) d =
        (.ok (.file (FileH.new (some c) (some ed0))), d') ∧
      ed0.data = sfnAt d.fs d.clock a 16 (some c) ∧
      chainSlots d'.fs d'.img chain = DirSlots.writeEntry (chainSlots d.fs d.img chain) (Names.encodeUtf16 name.toList)
        (DirAlias.sfnWith a (16 :: sfnStamp d.fs d.clock (some c))) ∧
      tabView d'.fs d'.img = updV (tabView d.fs d.img) c .eoc ∧
      chainSlots d'.fs d'.img [c] =
        DirAlias.sfnWith (46 :: List.replicate 10 32) (16 :: sfnStamp d.fs d.clock (some c)) ::
        DirAlias.sfnWith (46 :: 46 :: List.replicate 9 32) (16 :: sfnStamp d.fs d.clock none) ::
        List.replicate (d.fs.clusterSize / 32 - 2) (List.replicate 32 0) ∧
      ChainReadable d' c (some ed0) [c] ∧ ChainReadable d' c0 none chain ∧ d'.fs.curDirty = true ∧ d'.img.WF := by
  have hgeo := h.dir.geo
  obtain ⟨hc2, hct, hcf⟩ := allocFindV_some _ _ _ _ hinfo.hint hfind
  have hcnot : c ∉ chain := free_not_in_chain h.dir.link hcf hlastv
  obtain ⟨V, hN, hsrc, hEx, hInv⟩ : ∃ V : WView d (.file (FileH.new (some c0) none)),
      V.N = chain.length * (d.fs.clusterSize / 32) ∧ V.src = chainSrc d.fs chain ∧ V.Extra = (fun _ => False) ∧
      V.Inv = ChainInv d.fs (FileH.new (some c0) none) c0 chain :=
    ⟨WView.ofChain d c0 chain h.dir hwf h.fuel, rfl, rfl, rfl, rfl⟩
  have hsl : V.slots d.img = chainSlots d.fs d.img chain := by
    unfold WView.slots; rw [hN, hsrc]; exact h.slots_eq
  have hinv0 := h.inv hwf
  obtain ⟨d', hr, hs, hd, hinv', hsl', htv, hnew, hC, _⟩ := V.createDir_sim env path name hsp hdot hval ha hgeo hinfo hacc
    h.dir.cs32 hcs64 hu32 hfuelN a (by rw [hsl]; exact hchk) c hfind (by rw [hsl, hN]; exact hfit)
    (fun d1 d2 hv _ hal => by rw [hInv]; exact hinv0.of_alloc hv hal hcnot)
    (fun d1 d2 hi hs _ htv => by rw [hInv] at hi ⊢; exact hi.of_volStep hs htv)
    (fun i hi => by
      rw [hN] at hi
      rw [hsrc]
      obtain ⟨x, hx, h1, h2⟩ := h.dir.core.slot_in_cluster i hi
      have h3 := hgeo.fat_data
      have h4 := clusterOff_ge d.fs x
      have h5 := (clusterOff_end hgeo (h.dir.inTab x hx).1 (h.dir.inTab x hx).2).2
      have hxc : x ≠ c := fun e => hcnot (e ▸ hx)
      have h6 := cluster_ranges_disjoint d.fs (h.dir.inTab x hx).1 hc2 hxc
      exact ⟨by omega, by omega, by omega⟩)
    (fun q hq => by rw [hEx] at hq; exact hq.elim) fuel
  rw [hInv] at hinv'
  have hdd : (if (DirStream.file (FileH.new (some c0) none)).isRootDir then none
      else (DirStream.file (FileH.new (some c0) none)).firstCluster) = none := rfl
  rw [hdd] at hnew
  refine ⟨d', _, hr, rfl, ?_, htv, ?_, ⟨hC, ?_⟩, ChainReadable.of_inv hinv', hd, hs.wf hwf⟩
  · rw [chainSlots_of_inv hinv', ← hsl]
    have : V.slots d'.img = srcSlots d'.img (chainSrc d.fs chain) (chain.length * (d.fs.clusterSize / 32)) := by
      unfold WView.slots; rw [hN, hsrc]
    rw [← this, hsl']
  · rw [← hnew, ← srcSlots_chain d'.fs d'.img hC.geo.cs_pos hC.cs32 [c], chainSrc_geom hs.geom, hs.geom.clusterSize,
      List.length_singleton, Nat.one_mul]
  · rw [List.length_singleton, Nat.one_mul, hs.geom.clusterSize, dirFuel_geomEq hs.geom]; exact hfuelN

open FatVerif.FileSim FatVerif.Fat in
/-- non-vacuity: `create_dir("N")` in the two-cluster directory of `Ex5` (allocator: cluster 4; entry at slots 18–19) -/
example : ∃ (d' : Dev) (ed0 : DirEntryEditor),
    run (createDir Ex3.env 1 (.file (FileH.new (some 2) none)) "N") Ex5.dev = (.ok (.file (FileH.new (some 4) (some ed0))), d') ∧
    tabView d'.fs d'.img 4 = .eoc ∧ ChainReadable d' 4 (some ed0) [4] ∧ ChainReadable d' 2 none [2, 3] := by
  have h3 : tabView Ex5.dev.fs Ex5.dev.img 3 = .eoc := by decide +kernel
  obtain ⟨d', ed0, hr, _, _, htv, _, hC, hP, _⟩ := createDir_chain_sim Ex5.readable Ex5.wf
    ⟨fun n hn => (by cases hn), fun n hn => (by cases hn)⟩ rfl rfl (by decide) (by decide) (by decide) Ex3.env "N" "N"
    (by decide +kernel) (by decide) (by decide +kernel) [78, 32, 32, 32, 32, 32, 32, 32, 32, 32, 32] (by decide +kernel) 4
    (by decide +kernel) (fun l hl => by
      have : l = 3 := by simpa using hl.symm
      rw [this, h3]; exact fun h => by cases h) (by decide +kernel) 0
  exact ⟨d', ed0, hr, by rw [htv]; rfl, hC, hP⟩

open FatVerif.FileSim FatVerif.Fat in
/-- non-vacuity of `WView.createDir_sim` with a SUB-DIRECTORY as parent: `create_dir("N")` in the directory `A` of `Ex8`
    (allocator: cluster 5); the `..` record of the new directory names cluster 2 -/
example : ∃ (d' : Dev) (ed0 : DirEntryEditor),
    run (createDir Ex3.env 1 (.file (FileH.new (some 2) (some Ex8.edA))) "N") Ex8.dev =
      (.ok (.file (FileH.new (some 5) (some ed0))), d') ∧
    tabView d'.fs d'.img 5 = .eoc ∧
    (srcSlots d'.img (chainSrc Ex8.dev.fs [5]) (Ex8.dev.fs.clusterSize / 32)).getD 1 [] =
      DirAlias.sfnWith (46 :: 46 :: List.replicate 9 32) (16 :: sfnStamp Ex8.dev.fs Ex8.dev.clock (some 2)) := by
  have hhere : SubInv Ex8.dev.fs Ex8.edA 2 [2] Ex8.dev.clock Ex8.dev := Ex8.VA.here
  have hfe : (fatSliceOf Ex8.dev.fs).beginOff + (fatSliceOf Ex8.dev.fs).mirrors * (fatSliceOf Ex8.dev.fs).size = 1024 := by
    decide
  have hcs : Ex8.dev.fs.clusterSize = 512 := by decide
  have hsz : Ex8.dev.img.size = 4096 := by decide
  obtain ⟨d', hr, _, _, _, _, htv, hnew, _⟩ := Ex8.VA.createDir_sim Ex3.env "N" "N" (by decide +kernel) (by decide)
    (by decide +kernel) rfl Ex8.geo ⟨fun n hn => (by cases hn), fun n hn => (by cases hn)⟩ rfl (by decide) (by decide)
    (by decide) (by decide) [78, 32, 32, 32, 32, 32, 32, 32, 32, 32, 32] (by decide +kernel) 5 (by decide +kernel)
    (by decide +kernel)
    (fun d1 d2 hv hc hal => SubInv.of_alloc hhere hv hc hal (by decide))
    (fun d1 d2 hi hs hc htv => SubInv.of_volStep hi hs hc htv)
    (fun i hi => by
      have hi' : i < 16 := hi
      have e : Ex8.VA.src (32 * i) = chainSrc Ex8.dev.fs [2] (32 * i) := rfl
      rw [e, Ex8.src 2 i hi', Ex8.off, Ex8.off, hfe, hcs, hsz]
      omega)
    (fun q hq => by
      have hq' : subExtra Ex8.edA q := hq
      unfold subExtra at hq'
      have : Ex8.edA.pos = 1024 := rfl
      rw [Ex8.off, hfe, hcs]
      omega) 0
  refine ⟨d', _, hr, by rw [htv]; rfl, ?_⟩
  rw [hnew]
  rfl

/-! ## the outcomes of the mutating calls that only read (Proofs/DirWriteSim38)

`DirView.createFile_exists_sim` / `createDir_exists_sim` (the name exists: it is opened), `createFile_fails_sim` /
`createDir_fails_sim` (wrong kind: `InvalidInput`), `remove_fails_sim` (`NotFound`), `remove_nonEmpty_sim`
(`DirNotEmpty`), `rename_src_fails_sim`, `rename_file_dst_exists_sim` (`AlreadyExists`, or nothing when it is the source
entry itself). All keep the volume (`Reads` / `FailsV`). Non-vacuity on `Ex4` and `Ex3`: -/

/-- `create_file("hello.TXT")` opens the existing file; `create_dir("Hello.txt")` fails with `InvalidInput` (it is a
    file); `remove("nothing")` fails with `NotFound`; `rename("hello.txt", "b")` fails with `AlreadyExists` -/
example :
    Reads (createFile Ex3.env 1 (rootAt Ex4.dev.fs 0) "hello.TXT") Ex4.dev
      (FileH.new ((toDirEntryS (DirView.ofRoot Ex4.readable).src Ex4.hello).firstCluster Ex4.dev.fs)
        (some (toDirEntryS (DirView.ofRoot Ex4.readable).src Ex4.hello).editor)) ∧
    FailsV (createDir Ex3.env 1 (rootAt Ex4.dev.fs 0) "Hello.txt") Ex4.dev .invalidInput ∧
    FailsV (remove Ex3.env 1 (rootAt Ex4.dev.fs 0) "nothing") Ex4.dev .notFound ∧
    FailsV (renameInternal Ex3.env (rootAt Ex4.dev.fs 0) "hello.txt" (rootAt Ex4.dev.fs 0) "b") Ex4.dev .alreadyExists := by
  refine ⟨?_, ?_, ?_, ?_⟩
  · exact (DirView.ofRoot Ex4.readable).createFile_exists_sim rfl Ex3.env "hello.TXT" "hello.TXT" (by decide +kernel)
      (by decide) Ex4.hello (by decide +kernel) 0 Ex4.dev (SameVol.refl _)
  · exact (DirView.ofRoot Ex4.readable).createDir_fails_sim rfl Ex3.env "Hello.txt" "Hello.txt" (by decide +kernel)
      .invalidInput (by decide +kernel) 0 Ex4.dev (SameVol.refl _)
  · exact (DirView.ofRoot Ex4.readable).remove_fails_sim Ex3.env "nothing" "nothing" (by decide +kernel) (by decide)
      .notFound (by decide +kernel) 0 Ex4.dev (SameVol.refl _)
  · exact ((DirView.ofRoot Ex4.readable).rename_file_dst_exists_sim (DirView.ofRoot Ex4.readable) rfl Ex3.env
      "hello.txt" "b" (by decide) (by decide +kernel) (toDirEntryS (DirView.ofRoot Ex4.readable).src Ex4.hello)
      (by decide +kernel) (by decide +kernel) ⟨(DirFileEntryData.new Ex.sfn2 0x10).serialize, [], 2, 3⟩ (by decide +kernel) Ex4.dev
      (SameVol.refl _)).2 (by decide +kernel)

/-- `remove("SUB")` on the root of `Ex3` fails with `DirNotEmpty`: `SUB` lists "B" and "Hello.txt" -/
example : FailsV (remove Ex3.env 1 (rootAt Ex3.dev.fs 0) "SUB") Ex3.dev .dirNotEmpty := by
  have h1 : (DirView.ofRoot Ex3.root).lookup Ex3.env "SUB" none = .ok Ex3.subE := by decide +kernel
  obtain ⟨Vs, hVs⟩ : ∃ Vs : DirView Ex3.dev (DirEntry.dirStream Ex3.dev.fs Ex3.subE), Vs.isEmptyV = false := by
    rw [Ex3.sub_stream]
    exact ⟨DirView.ofChain Ex3.sub, by decide +kernel⟩
  exact (DirView.ofRoot Ex3.root).remove_nonEmpty_sim Ex3.env "SUB" "SUB" (by decide +kernel) (by decide) Ex3.subE h1
    (by decide +kernel) Vs hVs 0 Ex3.dev (SameVol.refl _)

/-! ## `create_dir` on a full volume: `NotEnoughSpace`, nothing changes (`DirView.createDir_noSpace_sim`) -/

namespace Ex10
/-- the geometry of `Ex2`, all four clusters in use (each an end of chain), the root empty -/
def bytes : List Nat :=
  List.replicate 512 0 ++
  ([0xF8, 0xFF, 0xFF, 0xFF, 0xFF, 0xFF, 0xFF, 0xFF, 0xFF, 0xFF, 0xFF, 0xFF] ++ List.replicate 500 0) ++
  List.replicate 3072 0
def dev : Dev := { img := Img.ofBytes bytes 4096, fs := Ex2.fs }
end Ex10

theorem Ex10.wf : Ex10.dev.img.WF := by
  intro k p hk
  simp only [Ex10.dev, Img.ofBytes, Std.HashMap.getElem?_insert] at hk
  split at hk
  · cases hk; decide +kernel
  · simp at hk

theorem Ex10.root : RootReadable Ex10.dev 16 := ⟨rfl, by decide, by decide, by decide⟩

open FatVerif.FileSim FatVerif.Fat in
example : FailsV (createDir Ex3.env 1 (rootAt Ex10.dev.fs 0) "N") Ex10.dev .noSpace :=
  (DirView.ofRoot Ex10.root).createDir_noSpace_sim rfl Ex3.env "N" "N" (by decide +kernel) (by decide) (by decide +kernel)
    [78, 32, 32, 32, 32, 32, 32, 32, 32, 32, 32] (by decide +kernel) rfl Ex10.wf
    ⟨by decide, by decide, by decide, by decide, by decide, by decide, by decide, by decide, by decide, by decide,
      by decide⟩
    ⟨fun n hn => (by cases hn), fun n hn => (by cases hn)⟩ (by decide +kernel) 0

/-! ## `create_dir` when the parent is full and grows (Proofs/DirWriteSim40–42)

`createDir_chain_grow`: the parent is a cluster chain without an entry (the root of FAT32); `alloc_cluster(None, true)`
takes `c` for the new directory, then `write_entry` in the parent allocates `c2` behind the parent's last cluster
(`chain_writeEntry_grow_tv`: the FAT afterwards is `allocLinkV (updV tv c EOC) (some last) c2`), then the dot entries
(`createDir_child`). Non-vacuity: `create_dir("N")` in the full directory of `Ex9`: `c = 3`, `c2 = 4`. -/

open FatVerif.FileSim FatVerif.Fat in
example : ∃ (d' : Dev) (ed0 : DirEntryEditor),
    run (createDir Ex3.env 1 (.file (FileH.new (some 2) none)) "N") Ex9.dev = (.ok (.file (FileH.new (some 3) (some ed0))), d') ∧
    tabView d'.fs d'.img 2 = .data 4 ∧ tabView d'.fs d'.img 3 = .eoc ∧ tabView d'.fs d'.img 4 = .eoc ∧
    ChainDir d' (FileH.new (some 3) (some ed0)) 3 [3] := by
  have h2 : tabView Ex9.dev.fs Ex9.dev.img 2 = .eoc := by decide +kernel
  obtain ⟨d', ed0, hr, _, _, _, _, _, htv, _, hC⟩ := createDir_chain_grow Ex9.dev 2 [2] Ex9.readable.dir Ex9.wf (by decide)
    ⟨fun n hn => (by cases hn), fun n hn => (by cases hn)⟩ rfl rfl (by decide) (by decide) (by decide) (by decide) Ex3.env
    "N" "N" (by decide +kernel) (by decide) (by decide +kernel) [78, 32, 32, 32, 32, 32, 32, 32, 32, 32, 32]
    (by decide +kernel) 3 (by decide +kernel) 2 rfl (by rw [h2]; exact fun h => by cases h) 4 (by decide +kernel)
    (by decide +kernel) (by decide +kernel) 0
  refine ⟨d', ed0, hr, ?_, ?_, ?_, hC⟩ <;> rw [htv] <;> simp [allocLinkV, updV]

/-! ## `create_dir` when the parent is a full SUB-DIRECTORY (Proofs/DirWriteSim43–44: `sub_writeEntry_grow_tv`,
`createDir_sub_grow`). Non-vacuity: the directory `A` (cluster 2) holds `.`, `..` and 14 entries; `create_dir("N")`
takes cluster 3 for the new directory and grows `A` by cluster 4; the `..` of the new directory names cluster 2. -/

namespace Ex11
def bytes : List Nat :=
  List.replicate 512 0 ++
  ([0xF8, 0xFF, 0xFF, 0xFF, 0xFF, 0xFF] ++ List.replicate 506 0) ++
  ((Ex8.dirRec Ex8.nameA (some 2)).serialize ++ List.replicate 480 0) ++
  ((Ex8.dirRec Ex8.dotN (some 2)).serialize ++ (Ex8.dirRec Ex8.ddN none).serialize ++
    (List.replicate 14 (DirFileEntryData.new Ex.sfn2 0x10).serialize).flatten) ++
  List.replicate 2048 0
def dev : Dev := { img := Img.ofBytes bytes 4096, fs := Ex2.fs }
end Ex11

theorem Ex11.wf : Ex11.dev.img.WF := by
  intro k p hk
  simp only [Ex11.dev, Img.ofBytes, Std.HashMap.getElem?_insert] at hk
  split at hk
  · cases hk; decide +kernel
  · simp at hk

open FatVerif.FileSim FatVerif.Fat in
theorem Ex11.sub : ChainDir Ex11.dev (FileH.new (some 2) (some Ex8.edA)) 2 [2] := by
  have h2 : tabView Ex2.fs Ex11.dev.img 2 = .eoc := by decide +kernel
  refine ⟨rfl, ⟨by decide, by decide, by decide, by decide, by decide, by decide, by decide, by decide, by decide,
    by decide, by decide⟩, rfl, ?_, by decide, by decide, Or.inl rfl, (fun e he => by cases he; rfl), by decide, by decide⟩
  exact Chain.last 2 (fun n hn => by
    have : tabView Ex11.dev.fs Ex11.dev.img 2 = .eoc := h2
    rw [this] at hn; cases hn)

open FatVerif.FileSim FatVerif.Fat in
example : ∃ (d' : Dev) (edN : DirEntryEditor),
    run (createDir Ex3.env 1 (.file (FileH.new (some 2) (some Ex8.edA))) "N") Ex11.dev =
      (.ok (.file (FileH.new (some 3) (some edN))), d') ∧
    tabView d'.fs d'.img 2 = .data 4 ∧ tabView d'.fs d'.img 3 = .eoc ∧ tabView d'.fs d'.img 4 = .eoc ∧
    (srcSlots d'.img (chainSrc Ex11.dev.fs [3]) (Ex11.dev.fs.clusterSize / 32)).getD 1 [] =
      DirAlias.sfnWith (46 :: 46 :: List.replicate 9 32) (16 :: sfnStamp Ex11.dev.fs Ex11.dev.clock (some 2)) := by
  have h2 : tabView Ex11.dev.fs Ex11.dev.img 2 = .eoc := by decide +kernel
  obtain ⟨d', edN, hr, _, _, _, _, _, htv, hnew, _⟩ := createDir_sub_grow Ex11.dev 2 Ex8.edA [2] Ex11.sub Ex11.wf
    (by decide) (by decide) (by decide) (by decide) (by decide)
    ⟨fun n hn => (by cases hn), fun n hn => (by cases hn)⟩ rfl rfl (by decide) (by decide) (by decide) (by decide) Ex3.env
    "N" "N" (by decide +kernel) (by decide) (by decide +kernel) [78, 32, 32, 32, 32, 32, 32, 32, 32, 32, 32]
    (by decide +kernel) 3 (by decide +kernel) 2 rfl (by rw [h2]; exact fun h => by cases h) 4 (by decide +kernel)
    (fun x hx _ => by
      have h1 := clusterOff_ge Ex11.dev.fs x
      have h2 : Ex11.dev.fs.firstDataSector * Ex11.dev.fs.bps = 1536 := by decide
      have h3 : Ex8.edA.pos = 1024 := rfl
      omega)
    (by decide +kernel) (by decide +kernel) 0
  refine ⟨d', edN, hr, ?_, ?_, ?_, ?_⟩
  · rw [htv]; simp [allocLinkV, updV]
  · rw [htv]; simp [allocLinkV, updV]
  · rw [htv]; simp [allocLinkV, updV]
  · rw [hnew]; rfl

open FatVerif.FileSim FatVerif.Fat in
/-- non-vacuity of `createFile_sub_grow`: `create_file("N")` in the full sub-directory `A` of `Ex11` grows it by
    cluster 3 (FAT: 2 → 3, 3 = end of chain) -/
example : ∃ (d' : Dev) (e : DirEntry),
    run (createFile Ex3.env 1 (.file (FileH.new (some 2) (some Ex8.edA))) "N") Ex11.dev =
      (.ok (FileH.new (e.firstCluster Ex11.dev.fs) (some e.editor)), d') ∧
    tabView d'.fs d'.img 2 = .data 3 ∧ tabView d'.fs d'.img 3 = .eoc := by
  have h2 : tabView Ex11.dev.fs Ex11.dev.img 2 = .eoc := by decide +kernel
  obtain ⟨d', e, hr, _, _, _, _, _, _, htv⟩ := createFile_sub_grow Ex11.dev 2 Ex8.edA [2] Ex11.sub Ex11.wf
    (by decide) (by decide) (by decide) (by decide) (by decide)
    ⟨fun n hn => (by cases hn), fun n hn => (by cases hn)⟩ rfl Ex3.env "N" "N" (by decide +kernel) (by decide)
    (by decide +kernel) [78, 32, 32, 32, 32, 32, 32, 32, 32, 32, 32] (by decide +kernel) 3 2 rfl
    (by rw [h2]; exact fun h => by cases h) (by decide +kernel) (by decide) (by decide)
    (fun x hx _ => by
      have h1 := clusterOff_ge Ex11.dev.fs x
      have h2 : Ex11.dev.fs.firstDataSector * Ex11.dev.fs.bps = 1536 := by decide
      have h3 : Ex8.edA.pos = 1024 := rfl
      omega)
    (by decide +kernel) (by decide +kernel) 0
  refine ⟨d', e, hr, ?_, ?_⟩ <;> rw [htv] <;> simp [allocLinkV, updV]

end FatVerif.DirSim
