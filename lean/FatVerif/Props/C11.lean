import FatVerif.Proofs.SliceModel6
import FatVerif.Props.C09
import FatVerif.Props.C14
/-! # C11 — region facts: WHERE the operations of a mounted volume write (on the device log)

`WClass fs off bytes` (Proofs/SliceModel4.lean) classifies a write record of a volume with geometry `fs`:
`status` (the status byte), `fsInfo` (the FS-info sector), `fat` (the window of the FAT copies — the active copy when
mirroring is off), `root` (the fixed root-directory region of FAT12/16), `cluster` (inside the data cluster `c` for
some `c ≥ 2` for which `offset_from_cluster` does not overflow), `slot pos` (inside the 32-byte directory record at `pos`
that a handle's editor writes back).

`GS fs0 sz C p Post` (Proofs/SliceModel1.lean): run on a device of size `sz` whose mounted state has the geometry of
`fs0`, `p` keeps the geometry and every write record it appends to the log satisfies `C` — whatever the outcome
(success, error, fault). `DevFits fs0 sz`: the FAT copies and the fixed root region lie inside the device. -/
namespace FatVerif

/-! ## leaf facts -/

/-- **`status_write_single_byte`**: whatever `set_dirty_flag` writes lies in the one status byte -/
theorem status_write_single_byte (b : Bool) (d : Dev) {r d'} (hr : run (setDirtyFlag b) d = (r, d')) :
    LogAll (StatusRec d.fs) d d' := (setDirtyFlag_all b d hr).2

/-- **`entry_writeback_in_slot`**: `DirEntryEditor::flush` writes only inside `[e.pos, e.pos + 32)` -/
theorem entry_writeback_in_slot (f : FileH) (e : DirEntryEditor) (he : f.entry = some e) (d : Dev) {r d'}
    (hr : run f.flushDirEntry d = (r, d')) : LogAll (SlotAt e.pos) d d' :=
  ((FileH.flushDirEntry_gs (fs0 := d.fs) (sz := d.img.size) f).out d r d' (SameGeom.refl _) rfl hr).2.1.mono
    (fun _ _ h => h e he)

/-- **`fsinfo_write_in_sector`**: `flush_fs_info` writes only inside the FS-info sector -/
theorem fsinfo_write_in_sector (d : Dev) {r d'} (hr : run flushFsInfo d = (r, d')) : LogAll (FsInfoRec d.fs) d d' := by
  have hgs : GS d.fs d.img.size (FsInfoRec d.fs) flushFsInfo (fun _ => True) := by
    unfold flushFsInfo
    refine GS.bind GS.getFs (fun fs hfs => ?_)
    split
    · refine GS.seek_unit (len := 512) ((PU.writeChunks _ _).mono ?_) ?_ (fun _ => GS.modifyFs (fun fs h => h))
      · have := totalLen_chunksOf_le fsInfoChunks (fsInfoBytes fs.fsInfo)
        rw [fsInfoChunks_sum] at this; exact this
      · intro o b h1 h2
        exact ⟨by rw [← fsInfoLo_geom hfs]; exact h1, by rw [← fsInfoLo_geom hfs]; exact h2⟩
    · exact GS.pure trivial
  exact (hgs.out d r d' (SameGeom.refl _) rfl hr).2.1

/-- **mount writes nothing** (`mount_readonly` of C13, restated on the log) -/
theorem mount_writes_nothing (strict accDate lfnAlloc unicode : Bool) (d : Dev) {r d'}
    (hr : run (mount strict accDate lfnAlloc unicode) d = (r, d')) : LogAll (fun _ _ => False) d d' :=
  LogAll.of_sameWrites (run_logExtends _ _ _ _ hr) ((mount_nw (fs0 := d.fs) strict accDate lfnAlloc unicode).out d r d' rfl hr).1

/-- **`fat_writes_in_fat_area`** (volume level): the FAT operations over `fatSliceOf fs` write only inside the window of
    the FAT copies (`[reserved*bps, (reserved + fats*spf)*bps)` with mirroring, the active copy without) or the status
    byte -/
theorem fat_ops_in_fat_window {fs0 : FsState} {sz : Nat} (hfit : DevFits fs0 sz) (ft : FatType) {s : DiskSlice}
    (hs : SliceInv (fatSliceOf fs0) s) :
    (∀ c v, GS fs0 sz (SliceOrStatus (fatSliceOf fs0) fs0) (Table.set DiskSlice.strm ft s c v) (SliceInv (fatSliceOf fs0))) ∧
    (∀ prev hint total, GS fs0 sz (SliceOrStatus (fatSliceOf fs0) fs0)
      (Table.allocCluster DiskSlice.strm ft s prev hint total) (fun r => SliceInv (fatSliceOf fs0) r.2)) ∧
    (∀ fuel cl err, GS fs0 sz (SliceOrStatus (fatSliceOf fs0) fs0) (Table.CIter.free DiskSlice.strm ft fuel ⟨s, cl, err⟩)
      (fun r => SliceInv (fatSliceOf fs0) r.2.fat)) ∧
    (∀ fuel cl err, GS fs0 sz (SliceOrStatus (fatSliceOf fs0) fs0)
      (Table.CIter.truncate DiskSlice.strm ft fuel ⟨s, cl, err⟩) (fun r => SliceInv (fatSliceOf fs0) r.2.fat)) := by
  have hS := slice_strm_gs (fatSliceOf fs0) fs0 sz hfit.fat
  exact ⟨fun c v => Table.set_gs hS ft s c v hs, fun p h t => Table.allocCluster_gs hS ft s p h t hs,
    fun fuel cl err => Table.CIter.free_gs hS ft fuel _ hs, fun fuel cl err => Table.CIter.truncate_gs hS ft fuel _ hs⟩

/-- **`root_slice_writes_in_root`**: reads, writes and seeks through the fixed root-directory slice write only inside
    the root region `[(firstDataSector - rootDirSectors)*bps, + rootDirSectors*bps)` or the status byte -/
theorem root_slice_writes_in_root {fs0 : FsState} {sz : Nat} (hfit : DevFits fs0 sz) :
    StrmGS fs0 sz (SliceOrStatus (rootSliceOf fs0) fs0) DiskSlice.strm (SliceInv (rootSliceOf fs0)) :=
  slice_strm_gs (rootSliceOf fs0) fs0 sz hfit.root

theorem rootSlice_window (fs : FsState) (off : Nat) (bs : List Nat) :
    SliceRec (rootSliceOf fs) off bs ↔
      ((fs.firstDataSector - fs.rootDirSectors) * fs.bps ≤ off ∧
       off + bs.length ≤ (fs.firstDataSector - fs.rootDirSectors) * fs.bps + fs.rootDirSectors * fs.bps) := by
  simp [SliceRec, rootSliceOf]

/-! ## `File::write` -/

/-- what `File::write` may write before its data: the status byte, FAT entries, and — for a directory only — the
    zero-fill of a freshly allocated cluster -/
def FileWritePre (fs : FsState) (isDir : Bool) (off : Nat) (bs : List Nat) : Prop :=
  StatusRec fs off bs ∨ SliceRec (fatSliceOf fs) off bs ∨ (isDir = true ∧ ClusterRec fs off bs)

/-- **`file_write_in_cluster`**: a successful `File::write` returning `n > 0` appends exactly one data record, the
    NEWEST of the log: `buf.take n` at `clusterOff cur + offset % clusterSize`, inside the cluster `cur ≥ 2` it computed;
    every other write record it appended is the status byte, lies in the window of the FAT copies, or (directories only)
    is the zero-fill of a data cluster -/
theorem file_write_in_cluster (f : FileH) (buf : List Nat) (d : Dev)
    (hfat : (fatSliceOf d.fs).beginOff + (fatSliceOf d.fs).mirrors * (fatSliceOf d.fs).size ≤ d.img.size)
    {n : Nat} {f' : FileH} {d' : Dev} (hr : run (f.write buf) d = (.ok (n, f'), d')) (hn : n > 0) :
    ∃ (cur : Nat) (items : List LogItem), 2 ≤ cur ∧
      d'.log = .write (clusterOff d.fs cur + f.offset % d.fs.clusterSize) (buf.take n) :: (items ++ d.log) ∧
      f.offset % d.fs.clusterSize + n ≤ d.fs.clusterSize ∧
      ∀ off bs, LogItem.write off bs ∈ items → FileWritePre d.fs f.isDir off bs := by
  have hS := DiskSlice.strm_gs (fs0 := d.fs) (sz := d.img.size) (C := FileWritePre d.fs f.isDir) _ hfat
    (fun _ _ h => Or.inr (Or.inl h)) (fun _ _ h => Or.inl h)
  unfold FileH.write at hr
  rcases run_bind_cases hr with ⟨fs, d0, h0, hr⟩ | ⟨e, _, he⟩
  rotate_left
  · cases he
  simp only [Prog.getFs, run, stepOp] at h0
  cases h0
  dsimp only at hr
  split at hr
  · have hr' : run (Prog.pure ((0 : Nat), f)) d = (.ok (n, f'), d') := hr
    simp only [run] at hr'; cases hr'; omega
  · rcases run_bind_cases hr with ⟨_, d1, h1, hr⟩ | ⟨e, _, he⟩
    rotate_left
    · cases he
    have a1 := setDirtyFlag_all true d h1
    have l1 : LogAll (FileWritePre d.fs f.isDir) d d1 := a1.2.mono (fun _ _ h => Or.inl h)
    have s1 : d1.img.size = d.img.size := run_img_size _ _ _ _ h1
    rcases run_bind_cases hr with ⟨⟨cur, f1⟩, d2, h2, hr⟩ | ⟨e, _, he⟩
    rotate_left
    · cases he
    -- the cluster-selection block
    have a2 : SameGeom d.fs d2.fs ∧ LogAll (FileWritePre d.fs f.isDir) d1 d2 := by
      have hgs : GS d.fs d.img.size (FileWritePre d.fs f.isDir)
          (if f.offset % d.fs.clusterSize = 0 then do
              let nxt ← f.boundaryCluster
              match nxt with
              | some n => pure (n, f)
              | none => do
                let c ← allocClusterFs f.currentCluster f.isDir
                let f := if f.firstCluster.isNone then FileH.setFirstCluster d.fs f c else f
                pure (c, f)
            else
              match f.currentCluster with
              | some n => pure (n, f)
              | none => Prog.fail Err.panic) (fun _ => True) := by
        split
        · refine GS.bind (GS.of_quiet (FileH.boundaryCluster_quiet f)) (fun nxt _ => ?_)
          split
          · exact GS.pure trivial
          · refine GS.bind (allocClusterFs_gsC hfat (fun _ _ h => Or.inr (Or.inl h)) (fun _ _ h => Or.inl h) _ _
              (fun hz _ _ h => Or.inr (Or.inr ⟨hz, h⟩))) (fun _ _ => GS.pure trivial)
        · split
          · exact GS.pure trivial
          · exact GS.fail _
      have := hgs.out d1 _ _ a1.1 s1 h2
      exact ⟨this.1, this.2.1⟩
    dsimp only at hr
    rcases run_bind_cases hr with ⟨off, d3, h3, hr⟩ | ⟨e, _, he⟩
    rotate_left
    · cases he
    have a3 := (offsetFromClusterP_ro d2.fs d.fs cur).out d2 _ _ rfl h3
    obtain ⟨hcur, hoff⟩ := a3.2.2 _ rfl
    have l3 : LogAll (FileWritePre d.fs f.isDir) d2 d3 := LogAll.of_sameWrites (run_logExtends _ _ _ _ h3) a3.1
    rcases run_bind_cases hr with ⟨_, d4, h4, hr⟩ | ⟨e, _, he⟩
    rotate_left
    · cases he
    have a4 := run_seekStart_spec _ d3 h4
    rcases run_bind_cases hr with ⟨m, d5, hw, hr⟩ | ⟨e, _, he⟩
    rotate_left
    · cases he
    have hws := run_write_ok_spec _ d4 hw
    split at hr
    · have hr' : run (Prog.pure ((0 : Nat), f1)) d5 = (.ok (n, f'), d') := hr
      simp only [run] at hr'; cases hr'; omega
    · rcases run_bind_cases hr with ⟨f2, d6, hu, hr⟩ | ⟨e, _, he⟩
      rotate_left
      · cases he
      have hr' : run (Prog.pure (m, f2)) d6 = (.ok (n, f'), d') := hr
      simp only [run] at hr'; cases hr'
      have hlog := updateAfterWrite_log _ d5 hu
      obtain ⟨items, hi1, hi2⟩ := (l1.trans a2.2).trans (l3.trans (LogAll.of_log_eq a4.2.1))
      have hmle := hws.1
      simp only [List.length_take] at hmle
      refine ⟨cur, items, hcur, ?_, ?_, hi2⟩
      · rw [hlog, hws.2, a4.2.2 _ rfl, hoff, hi1, List.take_take, Nat.min_eq_left (by omega)]
      · have hm : f.offset % d.fs.clusterSize < d.fs.clusterSize ∨ d.fs.clusterSize = 0 := by
          rcases Nat.eq_zero_or_pos d.fs.clusterSize with h | h
          · exact Or.inr h
          · exact Or.inl (Nat.mod_lt _ h)
        omega

/-! ## `File::write` stays in the data region (under the FAT invariant) -/

theorem clusterOff_mono (fs : FsState) {a b : Nat} (h : a ≤ b) : clusterOff fs a ≤ clusterOff fs b := by
  unfold clusterOff
  exact Nat.mul_le_mul_right _ (Nat.add_le_add_left (Nat.mul_le_mul_right _ (Nat.sub_le_sub_right h 2)) _)

theorem clusterOff_succ (fs : FsState) {c : Nat} (hc : 2 ≤ c) : clusterOff fs c + fs.clusterSize = clusterOff fs (c + 1) := by
  unfold clusterOff FsState.clusterSize
  have : c + 1 - 2 = (c - 2) + 1 := by omega
  rw [this, Nat.add_mul (c - 2) 1, Nat.one_mul, ← Nat.add_assoc, Nat.mul_comm fs.bps fs.spc]
  simp only [Nat.add_mul]

/-- the bytes of the FAT window are not touched by `set_dirty_flag` when the status byte lies before it -/
theorem setDirtyFlag_fatView (b : Bool) (d : Dev) (hw : d.img.WF)
    (hstat : statusOff d.fs + 1 ≤ (fatSliceOf d.fs).beginOff) {r d1} (hr : run (setDirtyFlag b) d = (r, d1)) (c : Nat) :
    imgFatView d1.fs d1.img c = imgFatView d.fs d.img c := by
  obtain ⟨hg, _⟩ := setDirtyFlag_all b d hr
  obtain ⟨_, items, hl, hbytes⟩ := run_img_eq_replay _ d r d1 hr hw
  obtain ⟨items', hl', hin⟩ := setDirtyFlag_within b d hr
  have hit : items' = items := List.append_cancel_right (hl'.symm.trans hl)
  subst hit
  have hq : ∀ q, (fatSliceOf d.fs).beginOff ≤ q → d1.img.getByte q = d.img.getByte q := by
    intro q hq
    rw [hbytes q]
    apply replay_outside
    intro off bs hm
    obtain ⟨it, hit, hn⟩ := List.mem_map.mp hm
    cases it with
    | flush => cases hn
    | write o b =>
      simp only [LogItem.norm, LogItem.write.injEq] at hn
      obtain ⟨rfl, rfl⟩ := hn
      have := hin _ hit
      simp only [LogItem.within] at this
      rw [List.length_map]
      omega
  have hsl : fatSliceOf d1.fs = fatSliceOf d.fs := fatSliceOf_geom hg true
  have hft : d1.fs.fatType = d.fs.fatType := (hg.proj FsState.fatType).symm
  unfold imgFatView
  rw [hsl, hft]
  congr 1
  have h0 : ∀ x, d1.img.getByte ((fatSliceOf d.fs).beginOff + x) = d.img.getByte ((fatSliceOf d.fs).beginOff + x) :=
    fun x => hq _ (Nat.le_add_right _ _)
  have h1 : ∀ x k, d1.img.getByte ((fatSliceOf d.fs).beginOff + x + k) = d.img.getByte ((fatSliceOf d.fs).beginOff + x + k) :=
    fun x k => hq _ (by omega)
  unfold imgFatRaw Img.le16 Img.le32
  cases d.fs.fatType <;> simp only [h0, h1]

/-- **`file_write_in_data_region`**: on a volume whose FAT (first copy, as decoded from the image) satisfies the
    structural invariant `FatWf` of C03 (links in range), with the FAT copies inside the device and the status byte
    before them, a successful `File::write` returning `n > 0` on a handle whose own cluster fields are in range
    (provenance of the handle: `first_cluster` from a directory entry, `current_cluster` from an earlier walk) puts its
    data — the newest record of the log — inside a cluster `cur` with `2 ≤ cur < total_clusters + 2`, hence inside the
    data region `[clusterOff 2, clusterOff (total_clusters + 2))`. The cluster comes from the handle, from a FAT link
    (`FatWf`), or from `alloc_cluster` (always below `total + 2`). -/
theorem file_write_in_data_region (f : FileH) (buf : List Nat) (d : Dev) (hfit : DevFits d.fs d.img.size)
    (hmir : 0 < (fatSliceOf d.fs).mirrors)
    (hw : d.img.WF) (hstat : statusOff d.fs + 1 ≤ (fatSliceOf d.fs).beginOff)
    (hfat : Fat.FatWf (imgFatView d.fs d.img) d.fs.totalClusters)
    (hfirst : ∀ c, f.firstCluster = some c → c < d.fs.totalClusters + 2)
    (hcurr : ∀ c, f.currentCluster = some c → c < d.fs.totalClusters + 2)
    {n : Nat} {f' : FileH} {d' : Dev} (hr : run (f.write buf) d = (.ok (n, f'), d')) (hn : n > 0) :
    ∃ cur, 2 ≤ cur ∧ cur < d.fs.totalClusters + 2 ∧
      d'.log.head? = some (.write (clusterOff d.fs cur + f.offset % d.fs.clusterSize) (buf.take n)) ∧
      clusterOff d.fs 2 ≤ clusterOff d.fs cur + f.offset % d.fs.clusterSize ∧
      clusterOff d.fs cur + f.offset % d.fs.clusterSize + (buf.take n).length ≤ clusterOff d.fs (d.fs.totalClusters + 2) := by
  have hdevfat : (fatSliceOf d.fs).beginOff + (fatSliceOf d.fs).size ≤ d.img.size := by
    have h1 := hfit.fat
    have := Nat.mul_le_mul_right (fatSliceOf d.fs).size hmir
    omega
  -- the bound on the cluster gives the region facts
  have region : ∀ cur, 2 ≤ cur → cur < d.fs.totalClusters + 2 → n ≤ d.fs.clusterSize - f.offset % d.fs.clusterSize →
      clusterOff d.fs 2 ≤ clusterOff d.fs cur + f.offset % d.fs.clusterSize ∧
      clusterOff d.fs cur + f.offset % d.fs.clusterSize + (buf.take n).length ≤ clusterOff d.fs (d.fs.totalClusters + 2) := by
    intro cur h2 hlt hnle
    have m1 := clusterOff_mono d.fs h2
    have m2 := clusterOff_mono d.fs (show cur + 1 ≤ d.fs.totalClusters + 2 by omega)
    have m3 := clusterOff_succ d.fs h2
    have hl : (buf.take n).length ≤ n := by simp only [List.length_take]; omega
    refine ⟨by omega, ?_⟩
    have hm : f.offset % d.fs.clusterSize < d.fs.clusterSize ∨ d.fs.clusterSize = 0 := by
      rcases Nat.eq_zero_or_pos d.fs.clusterSize with h | h
      · exact Or.inr h
      · exact Or.inl (Nat.mod_lt _ h)
    omega
  unfold FileH.write at hr
  rcases run_bind_cases hr with ⟨fs, d0, h0, hr⟩ | ⟨e, _, he⟩
  rotate_left
  · cases he
  simp only [Prog.getFs, run, stepOp] at h0
  cases h0
  dsimp only at hr
  split at hr
  · have hr' : run (Prog.pure ((0 : Nat), f)) d = (.ok (n, f'), d') := hr
    simp only [run] at hr'; cases hr'; omega
  rcases run_bind_cases hr with ⟨_, d1, h1, hr⟩ | ⟨e, _, he⟩
  rotate_left
  · cases he
  have a1 := setDirtyFlag_all true d h1
  have s1 : d1.img.size = d.img.size := run_img_size _ _ _ _ h1
  have hview1 := setDirtyFlag_fatView true d hw hstat h1
  have hsl1 : fatSliceOf d1.fs = fatSliceOf d.fs := fatSliceOf_geom a1.1 true
  rcases run_bind_cases hr with ⟨⟨cur, f1⟩, d2, h2, hr⟩ | ⟨e, _, he⟩
  rotate_left
  · cases he
  -- the cluster selected lies in range
  have hcur : cur < d.fs.totalClusters + 2 := by
    split at h2
    · rcases run_bind_cases h2 with ⟨nxt, d3, h3, h4⟩ | ⟨e, _, he⟩
      rotate_left
      · cases he
      try dsimp only at h4
      split at h4
      · rename_i n0
        have h4' : run (Prog.pure (n0, f)) d3 = (.ok (cur, f1), d2) := h4
        simp only [run] at h4'; cases h4'
        unfold FileH.boundaryCluster at h3
        split at h3
        · rename_i hnone
          have h3' : run (Prog.pure f.firstCluster) d1 = (.ok (some cur), _) := h3
          simp only [run, Prod.mk.injEq, Except.ok.injEq] at h3'
          exact hfirst cur h3'.1
        · rename_i m hm
          have hv := (nextCluster_ok m d1 (by rw [hsl1, s1]; exact hdevfat) h3).1
          rw [hview1] at hv
          exact (hfat.link_range m cur hv).2
      · rcases run_bind_cases h4 with ⟨c, d4, h5, h6⟩ | ⟨e, _, he⟩
        rotate_left
        · cases he
        have hlt := ((allocClusterFs_lt (fs0 := d.fs) (sz := d.img.size) hfit f.currentCluster f.isDir).out d3 _ _
          (by
            have : d3.fs = d1.fs := quietOps_fs (FileH.boundaryCluster_quiet f) d1 h3
            rw [this]; exact a1.1)
          ((run_img_size _ _ _ _ h3).trans s1) h5).2.2 c rfl
        try dsimp only at h6
        have h6' : run (Prog.pure (c, (if f.firstCluster.isNone then FileH.setFirstCluster d.fs f c else f))) d4 =
            (.ok (cur, f1), d2) := h6
        simp only [run] at h6'; cases h6'
        exact hlt
    · split at h2
      · rename_i n0 hn0
        have h2' : run (Prog.pure (n0, f)) d1 = (.ok (cur, f1), d2) := h2
        simp only [run] at h2'; cases h2'
        exact hcurr cur hn0
      · simp only [run] at h2; cases h2
  dsimp only at hr
  rcases run_bind_cases hr with ⟨off, d3, h3, hr⟩ | ⟨e, _, he⟩
  rotate_left
  · cases he
  have a3 := (offsetFromClusterP_ro d2.fs d.fs cur).out d2 _ _ rfl h3
  obtain ⟨hcur2, hoff⟩ := a3.2.2 _ rfl
  rcases run_bind_cases hr with ⟨_, d4, h4, hr⟩ | ⟨e, _, he⟩
  rotate_left
  · cases he
  have a4 := run_seekStart_spec _ d3 h4
  rcases run_bind_cases hr with ⟨m, d5, hwr, hr⟩ | ⟨e, _, he⟩
  rotate_left
  · cases he
  have hws := run_write_ok_spec _ d4 hwr
  split at hr
  · have hr' : run (Prog.pure ((0 : Nat), f1)) d5 = (.ok (n, f'), d') := hr
    simp only [run] at hr'; cases hr'; omega
  · rcases run_bind_cases hr with ⟨f2, d6, hu, hr⟩ | ⟨e, _, he⟩
    rotate_left
    · cases he
    have hr' : run (Prog.pure (m, f2)) d6 = (.ok (n, f'), d') := hr
    simp only [run] at hr'; cases hr'
    have hlog := updateAfterWrite_log _ d5 hu
    have hmle := hws.1
    simp only [List.length_take] at hmle
    have hreg := region cur hcur2 hcur (by omega)
    refine ⟨cur, hcur2, hcur, ?_, hreg.1, hreg.2⟩
    rw [hlog, hws.2, a4.2.2 _ rfl, hoff, List.take_take, Nat.min_eq_left (by omega)]
    rfl

/-! ## summary -/

/-- the programs the API runs on a MOUNTED volume (all of `ApiProgAll` except `format` and `mount`), with the fixed-root
    streams among their arguments keeping the window of the root slice (`DirOK`) -/
inductive VolProg (fs0 : FsState) : {α : Type} → Prog α → Prop where
  | unmount (root : DirStream) : VolProg fs0 (do root.drop; FatVerif.unmount)
  | dropfs (root : DirStream) : VolProg fs0 (do root.drop; dropFs)
  | openDir (env : Env) (fuel : Nat) (d : DirStream) (path : String) : DirOK fs0 d → VolProg fs0 (FatVerif.openDir env fuel d path)
  | createDir (env : Env) (fuel : Nat) (d : DirStream) (path : String) : DirOK fs0 d → VolProg fs0 (FatVerif.createDir env fuel d path)
  | openFile (env : Env) (fuel : Nat) (d : DirStream) (path : String) : DirOK fs0 d → VolProg fs0 (FatVerif.openFile env fuel d path)
  | createFile (env : Env) (fuel : Nat) (d : DirStream) (path : String) : DirOK fs0 d → VolProg fs0 (FatVerif.createFile env fuel d path)
  | remove (env : Env) (fuel : Nat) (d : DirStream) (path : String) : DirOK fs0 d → VolProg fs0 (FatVerif.remove env fuel d path)
  | rename (env : Env) (fuel : Nat) (d : DirStream) (src : String) (d2 : DirStream) (dst : String) :
      DirOK fs0 d → DirOK fs0 d2 → VolProg fs0 (FatVerif.rename env fuel d src d2 dst)
  | list (d : DirStream) : DirOK fs0 d → VolProg fs0 (listDir d)
  | read (f : FileH) (n : Nat) : VolProg fs0 (f.read n)
  | write (f : FileH) (bs : List Nat) : VolProg fs0 (f.write bs)
  | seek (f : FileH) (p : SeekFrom) : VolProg fs0 (f.seek p)
  | truncate (f : FileH) : VolProg fs0 f.truncate
  | flush (f : FileH) : VolProg fs0 f.flush
  | dropf (f : FileH) : VolProg fs0 f.drop
  | dropd (d : DirStream) : VolProg fs0 d.drop
  | extents (f : FileH) : VolProg fs0 f.extents
  | stats : VolProg fs0 FatVerif.stats
  | status : VolProg fs0 readStatusFlags
  | labelRoot : VolProg fs0 readVolumeLabelFromRootDir

theorem volProg_gs {fs0 : FsState} {sz : Nat} (hfit : DevFits fs0 sz) {α : Type} {p : Prog α} (h : VolProg fs0 p) :
    GS fs0 sz (WClass fs0) p (fun _ => True) := by
  cases h with
  | unmount root => exact GS.bind root.drop_gs (fun _ _ => unmount_gs)
  | dropfs root => exact GS.bind root.drop_gs (fun _ _ => dropFs_gs)
  | openDir env fuel d path hd => exact (openDir_gs hfit env fuel d path hd).weaken (fun _ _ => trivial)
  | createDir env fuel d path hd => exact (createDir_gs hfit env fuel d path hd).weaken (fun _ _ => trivial)
  | openFile env fuel d path hd => exact openFile_gs hfit env fuel d path hd
  | createFile env fuel d path hd => exact createFile_gs hfit env fuel d path hd
  | remove env fuel d path hd => exact remove_gs hfit env fuel d path hd
  | rename env fuel d src d2 dst hd hd2 => exact rename_gs hfit env fuel d src d2 dst hd hd2
  | list d hd => exact listDir_gs hfit hd
  | read f n => exact GS.of_quiet (f.read_quiet n)
  | write f bs => exact FileH.write_gs hfit f bs
  | seek f p => exact GS.of_quiet (f.seek_quiet p)
  | truncate f => exact FileH.truncate_gs hfit f
  | flush f => exact FileH.flush_gs f
  | dropf f => exact FileH.drop_gs f
  | dropd d => exact d.drop_gs
  | extents f => exact GS.of_quiet f.extents_quiet
  | stats => exact stats_gs
  | status => exact GS.of_quiet readStatusFlags_quiet
  | labelRoot => exact readVolumeLabelFromRootDir_gs hfit

/-- **`writes_classified`**: whatever the outcome (success, error, injected fault), every write record an operation of a
    mounted volume appends to the device log is the status byte, lies in the FS-info sector, in the window of the FAT
    copies, in the fixed root region, inside a data cluster `c ≥ 2`, or inside the 32-byte directory record of a handle's
    editor; and the geometry of the mounted state is unchanged.
    PARTIAL in two named respects: (i) the cluster index is only known to satisfy `2 ≤ c` and the overflow checks of
    `offset_from_cluster` — that `c < total_clusters + 2` needs the FAT well-formedness invariant (the index comes from a
    FAT entry, a directory entry or `alloc_cluster`) — for `File::write` this is done in `file_write_in_data_region`; (ii) the position `pos` of a `slot` record comes from a handle's
    editor (an argument, or `entry_pos` of a directory entry read during the operation — including the `..` entry of a
    moved directory that `rename` re-points at its new parent) — that it lies in a directory
    cluster or the root region is provenance of the handle, not tracked here. `format` is not covered (it writes the
    whole metadata area from its own geometry); `mount` writes nothing (`mount_writes_nothing`). -/
theorem writes_classified {fs0 : FsState} {α : Type} {p : Prog α} (h : VolProg fs0 p) (d : Dev)
    (hg : SameGeom fs0 d.fs) (hfit : DevFits fs0 d.img.size) {r d'} (hr : run p d = (r, d')) :
    SameGeom fs0 d'.fs ∧
    ∃ items, d'.log = items ++ d.log ∧ ∀ off bs, LogItem.write off bs ∈ items → WClass fs0 off bs := by
  have := (volProg_gs hfit h).out d r d' hg rfl hr
  exact ⟨this.1, this.2.1⟩

/-! ## the statements are not vacuous -/

namespace C11ex
def fs16 : FsState :=
  { fatType := .fat16, bps := 512, spc := 1, reserved := 1, fats := 2, spf := 1, totalClusters := 5,
    firstDataSector := 4, rootEntries := 16, rootDirSectors := 1, fsInfo := { free := some 4 } }
def dev16 : Dev := { img := Img.empty 8192, fs := fs16 }
def file : FileH := FileH.new (some 3) (some (DirEntryEditor.new (DirFileEntryData.new (List.replicate 11 65) 0) 1536))
end C11ex

/-- the FAT copies `[512, 1536)` and the root region `[1536, 2048)` fit the 8 KiB example device -/
example : DevFits C11ex.fs16 C11ex.dev16.img.size := ⟨by decide, by decide⟩

/-- `File::write` of 3 bytes at the start of a file whose first cluster is 3 (hypotheses of `file_write_in_cluster` and
    `writes_classified` hold): the status byte first, then the data at the start of cluster 3 (offset 2560) as the
    newest record -/
example : (run (C11ex.file.write [7, 8, 9]) C11ex.dev16).2.log = [.write 2560 [7, 8, 9], .write 37 [1]] := by
  decide +kernel

/-- `Table.set` of the FAT16 entry of cluster 3 through the FAT slice: the same two bytes at relative offset 6 of both
    copies (518 = 512 + 6, 1030 = 512 + 512 + 6), the status byte after the first -/
example : (run (Table.set DiskSlice.strm .fat16 (fatSliceOf C11ex.fs16) 3 .eoc) C11ex.dev16).2.log =
    [.write 1030 [255, 255], .write 518 [255, 255], .write 37 [1]] := by decide +kernel

theorem C11ex.view_free (c : Nat) : imgFatView C11ex.fs16 C11ex.dev16.img c = .free := by
  simp [imgFatView, imgFatRaw, C11ex.fs16, C11ex.dev16, Img.le16, Img.getByte_empty, Table.classify]

/-- the hypotheses of `file_write_in_data_region` are satisfiable: the all-zero example volume has a well-formed page
    table, an (empty, hence) well-formed FAT, its FAT copies fit the device behind the status byte, and the example
    handle's first cluster 3 is below `total_clusters + 2 = 7`; the write itself succeeds (log shown above) -/
example : DevFits C11ex.dev16.fs C11ex.dev16.img.size ∧ 0 < (fatSliceOf C11ex.dev16.fs).mirrors ∧ C11ex.dev16.img.WF ∧
    statusOff C11ex.dev16.fs + 1 ≤ (fatSliceOf C11ex.dev16.fs).beginOff ∧
    Fat.FatWf (imgFatView C11ex.dev16.fs C11ex.dev16.img) C11ex.dev16.fs.totalClusters ∧
    (∀ c, C11ex.file.firstCluster = some c → c < C11ex.dev16.fs.totalClusters + 2) ∧
    (∀ c, C11ex.file.currentCluster = some c → c < C11ex.dev16.fs.totalClusters + 2) ∧
    resErr (run (C11ex.file.write [7, 8, 9]) C11ex.dev16).1 = none := by
  have hv : ∀ c, imgFatView C11ex.dev16.fs C11ex.dev16.img c = .free := C11ex.view_free
  refine ⟨⟨by decide, by decide⟩, by decide, Img.wf_empty _, by decide, ?_, ?_, ?_, by decide +kernel⟩
  · refine ⟨?_, ?_, ?_, ⟨fun _ => 0, ?_⟩⟩
    · intro c n h; rw [hv] at h; cases h
    · intro c n h; rw [hv] at h; cases h
    · intro a b n h _; rw [hv] at h; cases h
    · intro c n h; rw [hv] at h; cases h
  · intro c h; simp [C11ex.file, FileH.new] at h; subst h; decide
  · intro c h; simp [C11ex.file, FileH.new] at h

end FatVerif
