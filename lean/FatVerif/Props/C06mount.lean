import FatVerif.Proofs.FormatMount2
/-!
# C06 — `format_then_mount`: a volume `format_volume` just wrote mounts, with the geometry format chose

One theorem about the two PROGRAMS of the model (`formatVolume`, `mount` of `Model/Fs.lean`) run back to back on the
same device, the way `Session.step` runs them: between the two calls the per-operation bookkeeping is reset
(`Dev.resetOp`) and the position is 0 (`nextOp`).

Chain: write log of format (`Props/C06image`) → sparse image (`Proofs/ImgLemmas`, `Proofs/ImgReplay` by agent-effects:
read-over-write for `Img`, `run_img_eq_replay`) → the bytes `mount` reads are `boot.serialize` / the FS-info sector →
`ValidBpb` of those bytes (`C06.format_valid_bytes`) → `Bpb.Valid` → `probe`/`mountGeometry` succeed
(`Proofs/BpbValidConv`, `Proofs/FormatMount1`) → `mount_run` (`Props/C07run`).
-/
namespace FatVerif.C06mount
open FatVerif FatVerif.Format FatVerif.FormatSpec FatVerif.C06image

/-- the devices/requests the theorem speaks about: a request the builder accepts whose pass-through fields fit their
    Rust types (`Accepted`, `InRange`, label bytes are bytes); a device at the start of an API call (empty
    per-operation log) with a well-formed page image, at least `total_sectors * bytes_per_sector` bytes large;
    `total_sectors < 2^32` (automatic when it is computed from the device size and the run succeeds) -/
structure Formattable (o : FormatOpts) (d : Dev) : Prop where
  acc : Accepted o
  rng : InRange o
  labelBytes : ∀ l, o.label = some l → ∀ b ∈ l, b < 256
  logEmpty : d.log = []
  imgWf : d.img.WF
  tot : fmtTotal o d < 4294967296
  size : fmtTotal o d * o.bps ≤ d.img.size

/-- the device as the next API call sees it (`HistMain`: `dev.resetOp pendingFault`, here without a pending fault;
    `Session.step`: `pos := 0`) -/
def nextOp (d : Dev) : Dev := { d.resetOp none with pos := 0 }

theorem list_eq_map_getD (l : List Nat) (n : Nat) (h : l.length = n) : l = (List.range n).map fun k => l.getD k 0 := by
  apply List.ext_getElem
  · simp [h]
  · intro k h1 h2
    simp only [List.getElem_map, List.getElem_range]
    rw [List.getD_eq_getElem?_getD, List.getElem?_eq_getElem h1]; rfl

theorem read_eq_of_bytes (i : Img) (off : Nat) (l : List Nat) (n : Nat) (hl : l.length = n)
    (h : ∀ k, k < n → i.getByte (off + k) = l.getD k 0) : i.read off n = l := by
  rw [list_eq_map_getD l n hl]
  unfold Img.read
  apply List.map_congr_left
  intro k hk
  exact h k (List.mem_range.mp hk)

theorem getD_lt_of_allB {l : List Nat} (h : AllB l) (k : Nat) : l.getD k 0 < 256 := by
  rw [List.getD_eq_getElem?_getD]
  by_cases hk : k < l.length
  · rw [List.getElem?_eq_getElem hk]; exact h _ (List.getElem_mem hk)
  · rw [List.getElem?_eq_none (by omega)]; simp

theorem Formattable.run {o : FormatOpts} {d0 d1 : Dev} (h : Formattable o d0)
    (hrun : run (formatVolume o) d0 = (.ok (), d1)) : FormatRun o d0 d1 :=
  ⟨h.acc, h.rng, hrun, h.tot, h.size⟩

/-- **the image after format**: sector 0 reads back as the serialised boot sector; on FAT32 the FS-info sector reads
    back as `fsInfoBytes {free = total-1, next = 3}` -/
theorem formatted_image {o : FormatOpts} {d0 d1 : Dev} (hpre : Formattable o d0)
    (hrun : run (formatVolume o) d0 = (.ok (), d1)) {boot : FBoot} {ft : FatType}
    (hc : formatChecked o (fmtTotal o d0) = .ok (boot, ft)) :
    d1.img.read 0 512 = boot.serialize ∧
    (ft = .fat32 → ∃ tc, boot.bpb.totalClusters = .ok tc ∧
      d1.img.read (boot.bpb.fsInfoSector * boot.bpb.bps) 512 =
        fsInfoBytes { free := some (tc - 1), next := some 3, dirty := false }) := by
  have hR := hpre.run hrun
  obtain ⟨_, himg⟩ := run_img_replay _ d0 _ d1 hrun hpre.imgWf hpre.logEmpty
  have hlen := serialize_len_of_ok hpre.acc hpre.rng hpre.tot hc
  have hg := fmtGeom_of_ok hpre.acc hpre.tot hc
  have hB := hg.bps_ge
  -- the bytes of the boot sector are bytes
  have hall : AllB boot.serialize := by
    obtain ⟨c, _, _, _, _, _, _, _, hboot, _⟩ := formatChecked_ok_layout hpre.acc hpre.tot hc
    rw [hboot]; exact bootOf_serialize_lt _ _ _ _ _ hpre.labelBytes
  constructor
  · obtain ⟨boot', ft', hc', hb⟩ := format_writes_boot o d0 d1 hR
    rw [hc] at hc'; simp only [Except.ok.injEq, Prod.mk.injEq] at hc'
    obtain ⟨rfl, rfl⟩ := hc'
    apply read_eq_of_bytes _ _ _ _ hlen
    intro k hk
    rw [Nat.zero_add, himg k, (hb d0.img.getByte k (by omega)).1, if_pos hk]
    exact Nat.mod_eq_of_lt (getD_lt_of_allB hall k)
  · intro h32
    obtain ⟨boot', ft', hc', hb⟩ := format_fsinfo o d0 d1 hR
    rw [hc] at hc'; simp only [Except.ok.injEq, Prod.mk.injEq] at hc'
    obtain ⟨rfl, rfl⟩ := hc'
    obtain ⟨tc, htc, hbytes⟩ := hb h32
    refine ⟨tc, htc, ?_⟩
    apply read_eq_of_bytes _ _ _ _ (fsInfoBytes_len _)
    intro k hk
    rw [himg _, hbytes d0.img.getByte k (by omega), if_pos hk]
    exact Nat.mod_eq_of_lt (getD_lt_of_allB (fsInfoBytes_allB _) k)

/-! ### the decoded fields of the formatted boot sector -/

theorem decode_of_ok {o : FormatOpts} {t : Nat} {boot : FBoot} {ft : FatType} (hacc : Accepted o) (hr : InRange o)
    (ht : t < 4294967296) (hc : formatChecked o t = .ok (boot, ft)) : decodeBoot boot.serialize = viewOfBoot boot := by
  obtain ⟨c, _, hspc, hbps, _, _, _, hfacts, hboot, h16, _, _⟩ := formatChecked_ok_layout hacc ht hc
  have hspf32 : spfOf t o.bps (c / o.bps) ft.bits (reservedFor ft)
      (determineRootDirSectors o.rootEntries o.bps ft) o.fats < 4294967296 := by unfold spfOf; omega
  have hb : o.bps < 65536 := by simp only [List.mem_cons, List.mem_nil_iff, or_false] at hbps; omega
  have hs : c / o.bps < 256 := by simp only [List.mem_cons, List.mem_nil_iff, or_false] at hspc; omega
  have hf : o.fats < 256 := by have := hacc.fats; omega
  obtain ⟨hd, _⟩ := decode_bootOf o t _ (c / o.bps) ft hr hb hf hacc.root ht hfacts.1 hspf32 h16 hs
  rw [← hboot] at hd
  exact hd

theorem view_spf_eq (boot : FBoot) : (viewOfBoot boot).spf = boot.bpb.sectorsPerFat := by
  unfold BpbView.spf FBpb.sectorsPerFat FBpb.isFat32
  show (if boot.bpb.spf16 ≠ 0 then boot.bpb.spf16 else boot.bpb.spf32) = _
  by_cases h : boot.bpb.spf16 = 0 <;> simp [h]

theorem view_firstData_eq (boot : FBoot) :
    (viewOfBoot boot).firstData = boot.bpb.reserved + boot.bpb.fats * boot.bpb.sectorsPerFat + boot.bpb.rootDirSectors := by
  unfold BpbView.firstData
  rw [view_spf_eq]; rfl

/-- the mounted state's FS-info cache is empty on FAT12/16 and `(total-1, root+1)` on FAT32 -/
def FsInfoAsFormatted (ft : FatType) (fs : FsState) : Prop :=
  (ft = .fat32 → fs.fsInfo.free = some (fs.totalClusters - 1) ∧ fs.fsInfo.next = some (fs.rootCluster + 1)) ∧
  (ft ≠ .fat32 → fs.fsInfo.free = none ∧ fs.fsInfo.next = none)

/-- the remaining fields of the mounted state and of the device after the mount -/
structure MountedExtra (boot : FBoot) (fs : FsState) (d2 : Dev) (strict accDate lfnAlloc unicode : Bool) : Prop where
  firstDataSector : fs.firstDataSector =
    boot.bpb.reserved + boot.bpb.fats * boot.bpb.sectorsPerFat + boot.bpb.rootDirSectors
  rootDirSectors : fs.rootDirSectors = boot.bpb.rootDirSectors
  mirroring : fs.mirroring = true
  activeFat : fs.activeFat = 0
  fsInfoSector : fs.fsInfoSector = boot.bpb.fsInfoSector
  bpbDirty : fs.bpbDirty = false
  bpbIoErr : fs.bpbIoErr = false
  statusRaw : fs.statusRaw = 0
  strict : fs.strict = strict
  accDate : fs.accDate = accDate
  lfnAlloc : fs.lfnAlloc = lfnAlloc
  unicode : fs.unicode = unicode
  failAt : d2.failAt = none
  fsInfoDirty : fs.fsInfo.dirty = false

/-- **`format_then_mount`**: on a device that meets `Formattable`, if `format_volume` succeeds then mounting the
    device as the next call sees it succeeds — for every strictness and option setting — and the mounted state has
    exactly the geometry format chose; the volume is clean; on FAT32 the FS-info cache holds `total_clusters - 1` free
    clusters and the hint `root_cluster + 1`; mounting changes neither the image nor the log. -/
theorem format_then_mount_full (o : FormatOpts) (d0 d1 : Dev) (hpre : Formattable o d0)
    (hrun : run (formatVolume o) d0 = (.ok (), d1)) (strict accDate lfnAlloc unicode : Bool) :
    ∃ boot ft fs d2, formatChecked o (fmtTotal o d0) = .ok (boot, ft) ∧
      run (mount strict accDate lfnAlloc unicode) (nextOp d1) = (.ok fs, d2) ∧
      d2.fs = fs ∧ d2.img = d1.img ∧ d2.log = [] ∧
      fs.fatType = ft ∧ fs.bps = boot.bpb.bps ∧ fs.spc = boot.bpb.spc ∧ fs.reserved = boot.bpb.reserved ∧
      fs.fats = boot.bpb.fats ∧ fs.spf = boot.bpb.sectorsPerFat ∧ fs.rootEntries = boot.bpb.rootEntries ∧
      boot.bpb.totalClusters = .ok fs.totalClusters ∧ fs.rootCluster = boot.bpb.rootCluster ∧
      fs.totalSectors = fmtTotal o d0 ∧
      fs.curDirty = false ∧ fs.curIoErr = false ∧ FsInfoAsFormatted ft fs ∧
      MountedExtra boot fs d2 strict accDate lfnAlloc unicode := by
  have hR := hpre.run hrun
  obtain ⟨boot, ft, Lb, Lk, Lz, Lf, Lr, Lt, hf⟩ := hR.facts
  have hc := hf.checked
  have hg := hf.geom
  have hlen := hf.len
  obtain ⟨hread, hfi32⟩ := formatted_image hpre hrun hc
  -- the boot sector bytes
  have hall : AllB boot.serialize := by
    obtain ⟨c, _, _, _, _, _, _, _, hboot, _⟩ := formatChecked_ok_layout hpre.acc hpre.tot hc
    rw [hboot]; exact bootOf_serialize_lt _ _ _ _ _ hpre.labelBytes
  have hsec : IsSector boot.serialize := ⟨hlen, hall⟩
  have hbytes : formatBootSectorBytes o (fmtTotal o d0) = .ok (boot.serialize, ft) := by
    unfold formatBootSectorBytes; rw [hc]; rfl
  have hvb := (C06.format_valid_bytes o _ _ ft hpre.acc hpre.rng hpre.tot hbytes).2
  obtain ⟨hprobe, hvalid⟩ := probe_of_validBpb boot.serialize strict hsec hvb
  have hs := sameFields_deserialize boot.serialize
  have hdec := decode_of_ok hpre.acc hpre.rng hpre.tot hc
  rw [hdec] at hs hvb
  -- derived values
  have htot : (viewOfBoot boot).total = fmtTotal o d0 := hvb.2.2.2.2.2.1.1
  have htcN : (Bpb.deserialize boot.serialize).tcNat =
      (fmtTotal o d0 - (boot.bpb.reserved + boot.bpb.fats * boot.bpb.sectorsPerFat + boot.bpb.rootDirSectors)) /
        boot.bpb.spc := by
    rw [hs.tc]; unfold BpbView.clusters; rw [htot, view_firstData_eq]; rfl
  have hres1 : boot.bpb.reserved1 = 0 := hvb.2.2.2.2.2.2.2.2.2.2.2.2.1.2.2.2.1
  -- the device the mount sees
  have hsz1 : d1.img.size = d0.img.size := run_img_size _ _ _ _ hrun
  have hB := hg.bps_ge
  have hbo : boot.bpb.bps = o.bps := by
    obtain ⟨c, _, _, _, _, _, _, _, hboot, _⟩ := formatChecked_ok_layout hpre.acc hpre.tot hc
    rw [hboot]; rfl
  have hbig : 2 * boot.bpb.bps ≤ d1.img.size := by
    have h2 : 2 ≤ fmtTotal o d0 := by
      have h1 := hg.fit
      have : 1 * 1 ≤ boot.bpb.fats * boot.bpb.sectorsPerFat :=
        Nat.mul_le_mul (by have := hg.fats; omega) hg.spf1
      omega
    have := Nat.mul_le_mul_right boot.bpb.bps h2
    have := hpre.size
    rw [hsz1, ← hbo] at *; omega
  have hmnt : C07run.Mountable (nextOp d1) := ⟨rfl, rfl, by show 512 ≤ d1.img.size; omega⟩
  have hboot0 : C07run.bootOf (nextOp d1) = boot.serialize := hread
  have hoff : fsInfoOffset boot.serialize = boot.bpb.fsInfoSector * boot.bpb.bps := by
    show (Bpb.deserialize boot.serialize).fsInfoSector * (Bpb.deserialize boot.serialize).bytesPerSector = _
    rw [hs.fsInfo, hs.bps]; rfl
  have hfsi1 : boot.bpb.fsInfoSector ≤ 1 := by
    by_cases h32 : ft = .fat32
    · rw [(hg.f32 h32).2.1]; exact Nat.le_refl _
    · have : boot.bpb.fsInfoSector = 0 := by
        obtain ⟨c, _, _, _, _, _, _, _, hboot, _⟩ := formatChecked_ok_layout hpre.acc hpre.tot hc
        rw [hboot]; show (if ft = FatType.fat32 then 1 else 0) = 0; rw [if_neg h32]
      omega
  have hinside : C07run.FsInfoInside strict (nextOp d1) := by
    intro g _ _
    rw [hboot0, hoff]
    show _ ≤ d1.img.size
    have := Nat.mul_le_mul_right boot.bpb.bps hfsi1
    omega
  obtain ⟨d2, hrunm, hframe, hfsok, _⟩ := C07run.mount_run strict accDate lfnAlloc unicode hmnt hinside
  rw [hboot0] at hrunm hfsok
  -- the pure mount
  have hmg : ∃ fi : FsInfo, mountGeometry boot.serialize (C07run.fsInfoOf (nextOp d1)) strict =
      .ok ⟨(BootSector.deserialize boot.serialize).bpb, (Bpb.deserialize boot.serialize).geoOf, fi⟩ ∧
      (ft = .fat32 → fi.freeClusterCount = some ((Bpb.deserialize boot.serialize).tcNat - 1) ∧
        fi.nextFreeCluster = some 3) ∧
      (ft ≠ .fat32 → fi.freeClusterCount = none ∧ fi.nextFreeCluster = none) ∧ fi.dirty = false := by
    have hft' : FatType.fromClusters (Bpb.deserialize boot.serialize).tcNat = ft := by
      rw [htcN]; exact hg.ftc.symm
    have hft : (Bpb.deserialize boot.serialize).geoOf.fatType = ft := hft'
    by_cases h32 : ft = .fat32
    · -- FAT32: read the FS-info sector
      obtain ⟨tc, htc, hfi⟩ := hfi32 h32
      have htceq : tc = (Bpb.deserialize boot.serialize).tcNat := by
        rw [htcN]; have := hg.tc; rw [htc] at this; cases this; rfl
      have htc1 : 65525 ≤ tc := by
        have := hft'; rw [h32, ← htceq] at this
        exact Bpb.fromClusters_fat32.mp this
      have htcmax : tc ≤ 0x0FFFFFF4 := by rw [htceq]; exact hvalid.limit
      have hfiof : C07run.fsInfoOf (nextOp d1) = fsInfoBytes { free := some (tc - 1), next := some 3, dirty := false } := by
        unfold C07run.fsInfoOf
        rw [hboot0, hoff]; exact hfi
      refine ⟨{ freeClusterCount := some (tc - 1), nextFreeCluster := some 3, dirty := false }, ?_,
        fun _ => ⟨by rw [htceq], rfl⟩, fun h => absurd h32 h, rfl⟩
      unfold mountGeometry
      rw [hprobe, ebind_ok]
      unfold readFsInfo
      rw [if_pos (hft.trans h32)]
      have hfsv : (BootSector.deserialize boot.serialize).bpb.fsInfoSector = 1 := by
        show (Bpb.deserialize boot.serialize).fsInfoSector = 1
        rw [hs.fsInfo]; exact (hg.f32 h32).2.1
      have hbpsv : (BootSector.deserialize boot.serialize).bpb.bytesPerSector = boot.bpb.bps := by
        show (Bpb.deserialize boot.serialize).bytesPerSector = _
        rw [hs.bps]; rfl
      unfold Bpb.bytesFromSectors
      have hB4 : boot.bpb.bps ≤ 4096 := by
        have := hg.bps_mem; simp only [List.mem_cons, List.mem_nil_iff, or_false] at this; omega
      rw [hfsv, hbpsv, u64Mul_of_lt (by omega), ebind_ok, if_neg (by omega), hfiof,
        fsInfo_deserialize_fmt (tc - 1) 3 (by omega) (by omega) (by omega), ebind_ok]
      have hdirty : (Bpb.deserialize boot.serialize).geoOf.statusDirty = false := by
        show ((Bpb.deserialize boot.serialize).reserved1 % 2 == 1) = false
        rw [hs.reserved1]; show (boot.bpb.reserved1 % 2 == 1) = false
        rw [hres1]; rfl
      rw [hdirty]
      unfold forgetIfDirty FsInfo.validateAndFix
      simp only [Bool.false_eq_true, if_false]
      have htcg : (Bpb.deserialize boot.serialize).geoOf.totalClusters = tc := htceq.symm
      rw [htcg, u32Add_of_lt (by omega), ebind_ok]
      unfold FsInfo.fixFree FsInfo.fixNext
      simp only
      rw [if_neg (by omega), if_neg (by omega)]
      rfl
    · refine ⟨{}, C07run.mountGeometry_fat1x hsec hprobe (by rw [hft]; exact h32), fun h => absurd h h32,
        fun _ => ⟨rfl, rfl⟩, rfl⟩
  obtain ⟨fi, hmgeq, hfi32', hfi1x, hfidirty⟩ := hmg
  rw [hmgeq] at hrunm
  have hfs2 := hfsok _ hmgeq
  -- collect
  have hft : FatType.fromClusters (Bpb.deserialize boot.serialize).tcNat = ft := by rw [htcN]; exact hg.ftc.symm
  refine ⟨boot, ft, _, d2, hc, hrunm, hfs2, hframe.img, hframe.log, hft, ?_, ?_, ?_, ?_, ?_, ?_, ?_, ?_, ?_, ?_, ?_, ?_, ?_⟩
  · show (Bpb.deserialize boot.serialize).bytesPerSector = _; rw [hs.bps]; rfl
  · show (Bpb.deserialize boot.serialize).sectorsPerCluster = _; rw [hs.spc]; rfl
  · show (Bpb.deserialize boot.serialize).reservedSectors = _; rw [hs.rsvd]; rfl
  · show (Bpb.deserialize boot.serialize).fats = _; rw [hs.fats]; rfl
  · show (Bpb.deserialize boot.serialize).sectorsPerFat = _; rw [hs.spf, view_spf_eq]
  · show (Bpb.deserialize boot.serialize).rootEntries = _; rw [hs.root]; rfl
  · show boot.bpb.totalClusters = .ok (Bpb.deserialize boot.serialize).tcNat
    rw [htcN]; exact hg.tc
  · show (Bpb.deserialize boot.serialize).rootDirFirstCluster = _; rw [hs.rootCluster]; rfl
  · show (Bpb.deserialize boot.serialize).totalSectors = _; rw [hs.total, htot]
  · show ((Bpb.deserialize boot.serialize).reserved1 % 2 == 1) = false
    rw [hs.reserved1]; show (boot.bpb.reserved1 % 2 == 1) = false; rw [hres1]; rfl
  · show ((Bpb.deserialize boot.serialize).reserved1 / 2 % 2 == 1) = false
    rw [hs.reserved1]; show (boot.bpb.reserved1 / 2 % 2 == 1) = false; rw [hres1]; rfl
  · constructor
    · intro h32
      obtain ⟨a, b⟩ := hfi32' h32
      refine ⟨a, ?_⟩
      show fi.nextFreeCluster = some ((Bpb.deserialize boot.serialize).rootDirFirstCluster + 1)
      rw [b, hs.rootCluster]
      show _ = some (boot.bpb.rootCluster + 1)
      rw [(hg.f32 h32).2.2]
    · intro h32; exact hfi1x h32
  · have hext : (Bpb.deserialize boot.serialize).extendedFlags = 0 := by
      rw [hs.extFlags]; show boot.bpb.extFlags = 0; exact hg.extFlags
    have hmir : (Bpb.deserialize boot.serialize).mirroringEnabled = true := by
      unfold Bpb.mirroringEnabled; rw [hext]; rfl
    have hr1 : (Bpb.deserialize boot.serialize).reserved1 = 0 := by
      rw [hs.reserved1]; exact hres1
    refine ⟨?_, ?_, hmir, ?_, ?_, ?_, ?_, hr1, rfl, rfl, rfl, rfl, hframe.failAt, ?_⟩
    · show (Bpb.deserialize boot.serialize).fdsNat = _; rw [hs.fds, view_firstData_eq]
    · show (Bpb.deserialize boot.serialize).rdsNat = _; rw [hs.rds]; rfl
    · show (Bpb.deserialize boot.serialize).activeFat = 0
      unfold Bpb.activeFat; rw [hmir]; rfl
    · show (Bpb.deserialize boot.serialize).fsInfoSector = _; rw [hs.fsInfo]; rfl
    · show ((Bpb.deserialize boot.serialize).reserved1 % 2 == 1) = false; rw [hr1]; rfl
    · show ((Bpb.deserialize boot.serialize).reserved1 / 2 % 2 == 1) = false; rw [hr1]; rfl
    · show fi.dirty = false
      by_cases h32 : ft = .fat32
      · exact hfidirty
      · exact hfidirty

/-- **`format_then_mount`** (the first statement; `format_then_mount_full` adds `MountedExtra`) -/
theorem format_then_mount (o : FormatOpts) (d0 d1 : Dev) (hpre : Formattable o d0)
    (hrun : run (formatVolume o) d0 = (.ok (), d1)) (strict accDate lfnAlloc unicode : Bool) :
    ∃ boot ft fs d2, formatChecked o (fmtTotal o d0) = .ok (boot, ft) ∧
      run (mount strict accDate lfnAlloc unicode) (nextOp d1) = (.ok fs, d2) ∧
      d2.fs = fs ∧ d2.img = d1.img ∧ d2.log = [] ∧
      fs.fatType = ft ∧ fs.bps = boot.bpb.bps ∧ fs.spc = boot.bpb.spc ∧ fs.reserved = boot.bpb.reserved ∧
      fs.fats = boot.bpb.fats ∧ fs.spf = boot.bpb.sectorsPerFat ∧ fs.rootEntries = boot.bpb.rootEntries ∧
      boot.bpb.totalClusters = .ok fs.totalClusters ∧ fs.rootCluster = boot.bpb.rootCluster ∧
      fs.totalSectors = fmtTotal o d0 ∧
      fs.curDirty = false ∧ fs.curIoErr = false ∧ FsInfoAsFormatted ft fs := by
  obtain ⟨boot, ft, fs, d2, h1, h2, h3, h4, h5, h6, h7, h8, h9, h10, h11, h12, h13, h14, h15, h16, h17, h18, _⟩ :=
    format_then_mount_full o d0 d1 hpre hrun strict accDate lfnAlloc unicode
  exact ⟨boot, ft, fs, d2, h1, h2, h3, h4, h5, h6, h7, h8, h9, h10, h11, h12, h13, h14, h15, h16, h17, h18⟩

/-! ## non-vacuity -/

/-- a concrete device and request meet `Formattable` (FAT16 with a label, 4200 sectors; `C06image.Ex`) … -/
theorem ex_formattable : Formattable Ex.o16 Ex.d16 := by
  refine ⟨⟨by simp [Ex.o16], ?_, Or.inr rfl, by simp [Ex.o16]⟩,
    Ex.inRange_of _ (by simp [Ex.o16]) (by simp [Ex.o16]) (by simp [Ex.o16]) rfl (by simp [Ex.o16]) ?_, ?_,
    rfl, Img.wf_empty _, by decide, by decide⟩
  · intro c h; cases h; simp [bpcValues]
  · intro l h; cases h; rfl
  · intro l h b hb; cases h
    simp only [List.mem_cons, List.mem_nil_iff, or_false] at hb
    omega

set_option maxRecDepth 100000 in
/-- … on which `format_volume` succeeds (kernel evaluation of the whole run), so that `format_then_mount` applies:
    the strict mount of the formatted device returns a FAT16 state with the label's volume clean -/
example : ∃ fs d2, run (mount true false true true) (nextOp (run (formatVolume Ex.o16) Ex.d16).2) = (.ok fs, d2) ∧
    fs.fatType = .fat16 ∧ fs.bps = 512 ∧ fs.curDirty = false ∧ fs.fsInfo.free = none := by
  have hrun : run (formatVolume Ex.o16) Ex.d16 = (.ok (), (run (formatVolume Ex.o16) Ex.d16).2) :=
    Ex.run_of_okUnit (by decide +kernel)
  obtain ⟨boot, ft, fs, d2, hc, hm, _, _, _, h1, h2, _, _, _, _, _, _, _, _, h3, _, h4⟩ :=
    format_then_mount Ex.o16 Ex.d16 _ ex_formattable hrun true false true true
  have hft : ft = .fat16 := by
    have hm := (formatChecked_ok_layout ex_formattable.acc ex_formattable.tot hc).choose_spec.2.2.2.1
    simpa [Ex.o16, allowedTypes] using hm
  have hb : boot.bpb.bps = 512 := by
    obtain ⟨c, _, _, _, _, _, _, _, hboot, _⟩ := formatChecked_ok_layout ex_formattable.acc ex_formattable.tot hc
    rw [hboot]; rfl
  exact ⟨fs, d2, hm, by rw [h1, hft], by rw [h2, hb], h3, (h4.2 (by rw [hft]; simp)).1⟩

end FatVerif.C06mount
