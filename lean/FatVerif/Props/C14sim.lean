import FatVerif.Proofs.FileSimFlush1
import FatVerif.Proofs.FileSimFlush2
/-!
# C14, simulation: what a successful `flush` / drop of a file handle makes durable

Byte-level model `FileH` on a device image (fault-free run), tied to the cursor machine by `Props/C02sim.lean`.

* `FileSim.flush_sim`, `FileSim.drop_sim` (Proofs/FileSimFlush1.lean): the call writes the handle's 32-byte record into
  its slot and then flushes the device: the log is `flush :: slot pieces ++ everything written before`;
* `FileSim.Footprint`, `FileSim.read_footprint` (Proofs/FileSimFlush2.lean): the bytes a later `open_file` + read depend on;
* `durable_after_flush` below: crash model = a write-back cache that honours flush — every device write issued before
  the flush mark is on the medium, of the writes issued after it only a PREFIX `ws.take k` survives.  If none of the
  later writes touches the footprint of the file (operations on other objects: `Props/C11.lean`
  `file_write_in_data_region` / `writes_classified` say where they write; the file itself is not modified again), then
  for every cut point `k`, re-opening the file from its slot in the surviving image and reading to the end returns
  exactly the content the handle had when it was flushed.
-/
namespace FatVerif.FileSim
open FatVerif FatVerif.Fat

/-- later device writes `(offset, bytes)`, applied in order -/
def applyWrites (img : Img) (ws : List (Nat × List Nat)) : Img :=
  ws.foldl (fun i w => i.write w.1 w.2) img

/-- none of the writes touches a position of `P` -/
def WritesAvoid (P : Nat → Prop) (ws : List (Nat × List Nat)) : Prop :=
  ∀ w ∈ ws, ∀ q, w.1 ≤ q → q < w.1 + w.2.length → ¬ P q

theorem applyWrites_frame (P : Nat → Prop) : ∀ (ws : List (Nat × List Nat)) (img : Img), img.WF →
    WritesAvoid P ws →
    (applyWrites img ws).WF ∧ (applyWrites img ws).size = img.size ∧
    ∀ q, P q → (applyWrites img ws).getByte q = img.getByte q := by
  intro ws
  induction ws with
  | nil => intro img hwf _; exact ⟨hwf, rfl, fun _ _ => rfl⟩
  | cons w rest ih =>
    intro img hwf hav
    have hwf1 := Img.wf_write img hwf w.1 w.2
    obtain ⟨h1, h2, h3⟩ := ih (img.write w.1 w.2) hwf1 (fun x hx => hav x (List.mem_cons_of_mem _ hx))
    refine ⟨h1, by rw [show applyWrites img (w :: rest) = applyWrites (img.write w.1 w.2) rest from rfl, h2,
      Img.write_size], ?_⟩
    intro q hq
    rw [show applyWrites img (w :: rest) = applyWrites (img.write w.1 w.2) rest from rfl, h3 q hq,
      Img.getByte_write_of_not_mem _ hwf _ _ _ (fun h => hav w (by simp) q h.1 h.2 hq)]

theorem WritesAvoid.take {P : Nat → Prop} {ws : List (Nat × List Nat)} (h : WritesAvoid P ws) (k : Nat) :
    WritesAvoid P (ws.take k) :=
  fun w hw => h w (List.mem_of_mem_take hw)

theorem footprint_flushed {fs : FsState} {img img1 : Img} {f : FileH} {e : DirEntryEditor}
    (hch : fileChain fs img1 { f with entry := some { e with dirty := false } } = fileChain fs img f)
    (he : f.entry = some e) (q : Nat) :
    Footprint fs img1 { f with entry := some { e with dirty := false } } { e with dirty := false } q ↔
      Footprint fs img f e q := by
  have hsz : ({ f with entry := some { e with dirty := false } } : FileH).size? = f.size? := by
    unfold FileH.size?; rw [he]
  unfold Footprint
  rw [hch, hsz]

/-- the common part of `durable_after_flush` / `durable_after_drop`: from the state right after the flush -/
theorem durable_core (f : FileH) (e : DirEntryEditor) (d d1 : Dev) (h : SimInv f d) (he : EntryRep d.fs d.img f e)
    (hfs : d1.fs = d.fs)
    (hsim : SimInv { f with entry := some { e with dirty := false } } d1)
    (hent : EntryRep d1.fs d1.img { f with entry := some { e with dirty := false } } { e with dirty := false })
    (hcore : CoreEq (absFile d1.fs d1.img { f with entry := some { e with dirty := false } }) (absFile d.fs d.img f))
    (ws : List (Nat × List Nat)) (k : Nat) (dk : Dev) (hav : WritesAvoid (Footprint d.fs d.img f e) ws)
    (himg : dk.img = applyWrites d1.img (ws.take k)) (hfsk : dk.fs = d.fs) (hfak : dk.failAt = none) :
    ∃ g' d', run (readExact FileH.strm (reopen dk.fs dk.img e.pos) (absFile d.fs d.img f).size) dk =
      (.ok ((absFile d.fs d.img f).content, g'), d') := by
  have hch : fileChain d.fs d1.img { f with entry := some { e with dirty := false } } = fileChain d.fs d.img f := by
    have := hcore.chain; rw [hfs] at this; exact this
  have hav1 : WritesAvoid (Footprint d1.fs d1.img { f with entry := some { e with dirty := false } }
      { e with dirty := false }) ws := by
    intro w hw q h1 h2 hq
    rw [hfs] at hq
    exact hav w hw q h1 h2 ((footprint_flushed hch he.entry q).mp hq)
  rw [← hfs] at hfsk
  generalize hf1 : ({ f with entry := some { e with dirty := false } } : FileH) = f1 at hsim hent hcore hav1
  obtain ⟨hfa1, hwf1, hg1, hrep1, _⟩ := hsim
  -- the surviving image agrees with the flushed one on the footprint
  obtain ⟨hwfk, hszk, hagree⟩ := applyWrites_frame _ (ws.take k) d1.img hwf1 (hav1.take k)
  rw [← himg] at hwfk hszk hagree
  obtain ⟨hre, hrepk, hcont, hsize⟩ := read_footprint (img' := dk.img) hg1 hrep1 hent rfl hagree
  -- content and size of the flushed handle are those of the handle before the flush
  have habs := hcore.abs_eq h.rep.inv.cs_pos h.rep.inv.cover
  have hcont1 : (absFile d1.fs d1.img f1).content = (absFile d.fs d.img f).content :=
    congrArg Cursor.ByteFile.content habs
  have hsize1 : (absFile d1.fs d1.img f1).size = (absFile d.fs d.img f).size := hcore.size
  have hgk : Geo dk.fs dk.img.size := by rw [hfsk, hszk]; exact hg1
  have hrepk' : FileRep dk.fs dk.img (reopen dk.fs dk.img e.pos) := by rw [hfsk]; exact hrepk
  have hoff0 : (reopen dk.fs dk.img e.pos).offset = 0 := rfl
  obtain ⟨g', d', hrd, _⟩ := readExact_sim (reopen dk.fs dk.img e.pos) (absFile d.fs d.img f).size dk hfak hgk hrepk'
    (by rw [hoff0, hfsk, hsize, hsize1]; omega)
  refine ⟨g', d', ?_⟩
  rw [hrd, hoff0, List.drop_zero, hfsk, hcont, hcont1,
    List.take_of_length_le (by rw [Cursor.AFile.content_length]; exact Nat.le_refl _)]

/-- **`durable_after_flush`.**  `f` is a represented handle (`SimInv`) whose record lives in a slot (`EntryRep`).
    `File::flush` succeeds; in the device log the flush mark follows the slot write and every earlier write.  Let `ws`
    be any later writes that avoid the footprint of the file (slot, FAT entries of the chain, data up to the size), `k`
    any cut point, and `dk` any fault-free device whose image is the flushed image with the surviving prefix `ws.take k`
    applied (same mounted state).  Then re-opening the file from its slot on `dk` and reading `size` bytes
    (`read_exact`) succeeds and returns exactly the content `(absFile …).content` the handle had when it was flushed. -/
theorem durable_after_flush (f : FileH) (e : DirEntryEditor) (d : Dev) (h : SimInv f d)
    (he : EntryRep d.fs d.img f e) :
    ∃ d1, run f.flush d = (.ok { f with entry := some { e with dirty := false } }, d1) ∧ d1.fs = d.fs ∧
      d1.failAt = none ∧
      (∃ items : List LogItem, d1.log = .flush :: (items.reverse ++ d.log)) ∧
      ∀ (ws : List (Nat × List Nat)) (k : Nat) (dk : Dev),
        WritesAvoid (Footprint d.fs d.img f e) ws →
        dk.img = applyWrites d1.img (ws.take k) → dk.fs = d.fs → dk.failAt = none →
        ∃ g' d', run (readExact FileH.strm (reopen dk.fs dk.img e.pos) (absFile d.fs d.img f).size) dk =
          (.ok ((absFile d.fs d.img f).content, g'), d') := by
  obtain ⟨d1, hr, hst, hfs, _, _, _, ⟨items, hlog, _⟩, hsim, hent, hcore⟩ := flush_sim f e d h he
  exact ⟨d1, hr, hfs, hsim.nofault, ⟨items, hlog⟩, fun ws k dk hav himg hfsk hfak =>
    durable_core f e d d1 h he hfs hsim hent hcore ws k dk hav himg hfsk hfak⟩

/-- **`flush_then_reopen_reads_content`**: no later writes at all — flush, re-open from the slot, read to the end. -/
theorem flush_then_reopen_reads_content (f : FileH) (e : DirEntryEditor) (d : Dev) (h : SimInv f d)
    (he : EntryRep d.fs d.img f e) :
    ∃ f1 d1, run f.flush d = (.ok f1, d1) ∧
      ∃ g' d', run (readExact FileH.strm (reopen d1.fs d1.img e.pos) (absFile d.fs d.img f).size) d1 =
        (.ok ((absFile d.fs d.img f).content, g'), d') := by
  obtain ⟨d1, hr, hfs, hfa1, _, hdur⟩ := durable_after_flush f e d h he
  exact ⟨_, d1, hr, hdur [] 0 d1 (fun w hw => by cases hw) rfl hfs hfa1⟩

/-- **`durable_after_drop`**: the same after dropping the handle -/
theorem durable_after_drop (f : FileH) (e : DirEntryEditor) (d : Dev) (h : SimInv f d)
    (he : EntryRep d.fs d.img f e) :
    ∃ d1, run f.drop d = (.ok (), d1) ∧ d1.fs = d.fs ∧ d1.failAt = none ∧
      (∃ items : List LogItem, d1.log = .flush :: (items.reverse ++ d.log)) ∧
      ∀ (ws : List (Nat × List Nat)) (k : Nat) (dk : Dev),
        WritesAvoid (Footprint d.fs d.img f e) ws →
        dk.img = applyWrites d1.img (ws.take k) → dk.fs = d.fs → dk.failAt = none →
        ∃ g' d', run (readExact FileH.strm (reopen dk.fs dk.img e.pos) (absFile d.fs d.img f).size) dk =
          (.ok ((absFile d.fs d.img f).content, g'), d') := by
  obtain ⟨d1, hr, hst, hfs, _, _, ⟨items, hlog, _⟩, hsim, hent, hcore⟩ := drop_sim f e d h he
  exact ⟨d1, hr, hfs, hsim.nofault, ⟨items, hlog⟩, fun ws k dk hav himg hfsk hfak =>
    durable_core f e d d1 h he hfs hsim hent hcore ws k dk hav himg hfsk hfak⟩

end FatVerif.FileSim

/-! ## the statements are not vacuous: the FAT16 volume of `Props/C02sim.lean`, a file that grows by one cluster -/

namespace FatVerif.FileSim.Ex14
open FatVerif FatVerif.Fat FatVerif.FileSim FatVerif.FileSim.Ex

/-- the record of the file: first cluster 3, 1020 bytes, slot at 1536 (the root directory sector) -/
def entry14 : DirFileEntryData :=
  { DirFileEntryData.new (List.replicate 11 65) 0 with size := 1020, firstClusterLo := 3 }

def file14 : FileH :=
  { firstCluster := some 3, currentCluster := some 3, offset := 509, entry := some ⟨entry14, 1536, true⟩ }

theorem rep14 : FileRep fs16 img16 file14 :=
  rep16.of_cursor rfl (by decide) rep16.inv

theorem simInv14 : SimInv file14 dev16 := ⟨rfl, wf16, geo16, rep14, info16⟩

/-- append 6 bytes at 1020: 4 bytes fill cluster 5, the next write allocates cluster 2 for the last 2 -/
def ops14 : List HOp := [.seek (.start 1020), .write [1, 2, 3, 4, 5, 6], .write [5, 6]]

def f2 : FileH := (runH ops14 file14 dev16).2.1
def d2 : Dev := (runH ops14 file14 dev16).2.2
def e2 : DirEntryEditor := match f2.entry with | some e => e | none => ⟨{}, 0, false⟩

theorem sim2 : SimInv f2 d2 :=
  (fileh_refines_bytefile ops14 file14 dev16 simInv14 ⟨by decide, by decide, trivial⟩).1

set_option maxRecDepth 100000 in
/-- the state before the flush, evaluated: chain `3 → 5 → 2`, 1026 bytes, a dirty editor for the slot at 1536 -/
theorem facts14 :
    f2.entry = some e2 ∧ e2.pos = 1536 ∧ e2.dirty = true ∧ f2.size?.getD 0 = 1026 ∧
    fileChain d2.fs d2.img f2 = [3, 5, 2] ∧ d2.fs.fatType = .fat16 ∧ (fatSliceOf d2.fs).beginOff = 512 ∧
    (fatSliceOf d2.fs).size = 512 ∧ d2.fs.clusterSize = 512 ∧ clusterOff d2.fs 3 = 2560 ∧ clusterOff d2.fs 5 = 3584 ∧
    clusterOff d2.fs 2 = 2048 ∧
    e2.data.firstCluster d2.fs.fatType = f2.firstCluster ∧ attrsIsLfn e2.data.attrs = false ∧
    e2.data.name.length = 11 ∧ (∀ b ∈ e2.data.name, b < 256) ∧ e2.data.attrs < 64 ∧ e2.data.reserved0 < 256 ∧
    e2.data.createTime0 < 256 ∧ e2.data.createTime1 < 65536 ∧ e2.data.createDate < 65536 ∧
    e2.data.accessDate < 65536 ∧ e2.data.firstClusterHi < 65536 ∧ e2.data.modifyTime < 65536 ∧
    e2.data.modifyDate < 65536 ∧ e2.data.firstClusterLo < 65536 ∧ e2.data.size < 4294967296 ∧
    d2.img.size = 8192 := by
  decide +kernel

theorem entryRep2 : EntryRep d2.fs d2.img f2 e2 := by
  obtain ⟨h1, h2, h3, _, h5, _, h7, h8, h9, h10, h11, h12, h13, h14, w1, w2, w3, w4, w5, w6, w7, w8, w9, w10, w11, w12,
    w13, hsz⟩ := facts14
  refine ⟨h1, ⟨w1, w2, w3, w4, w5, w6, w7, w8, w9, w10, w11, w12, w13⟩, h14, by rw [h2, hsz]; decide,
    by rw [h2, h7, h8]; decide, ?_, h13, fun h => by rw [h3] at h; cases h⟩
  intro c hc
  rw [h5] at hc
  have : c = 3 ∨ c = 5 ∨ c = 2 := by simpa using hc
  rcases this with rfl | rfl | rfl
  · rw [h2, h10]; decide
  · rw [h2, h11]; decide
  · rw [h2, h12]; decide

/-- later writes: three bytes at the start of cluster 4 (`3072`), two bytes in another slot of the root directory
    (`1600`) — other objects -/
def ws14 : List (Nat × List Nat) := [(3072, [9, 9, 9]), (1600, [8, 8])]

theorem avoid14 : WritesAvoid (Footprint d2.fs d2.img f2 e2) ws14 := by
  obtain ⟨_, h2, _, h4, h5, h6, h7, _, h9, h10, h11, h12, _⟩ := facts14
  intro w hw q hq1 hq2 hfp
  have hw' : w = (3072, [9, 9, 9]) ∨ w = (1600, [8, 8]) := by simpa [ws14] using hw
  have hq : (3072 ≤ q ∧ q < 3075) ∨ (1600 ≤ q ∧ q < 1602) := by
    rcases hw' with rfl | rfl
    · left; exact ⟨hq1, hq2⟩
    · right; exact ⟨hq1, hq2⟩
  rcases hfp with ⟨a, b⟩ | ⟨c, hc, a, b⟩ | ⟨p, hp, hqp⟩
  · rw [h2] at a b; omega
  · rw [h5] at hc
    have hc' : c = 3 ∨ c = 5 ∨ c = 2 := by simpa using hc
    rw [h6, h7] at a b
    simp only [entOff, entWidth] at a b
    omega
  · rw [h4] at hp
    rw [h5, h9] at hqp
    have hdm := Cursor.divmod_spec 512 p (by decide)
    have hcases : p / 512 = 0 ∨ p / 512 = 1 ∨ p / 512 = 2 := by omega
    rcases hcases with h0 | h0 | h0 <;> rw [h0] at hqp hdm
    · rw [show [3, 5, 2].getD 0 0 = 3 from rfl, h10] at hqp; omega
    · rw [show [3, 5, 2].getD 1 0 = 5 from rfl, h11] at hqp; omega
    · rw [show [3, 5, 2].getD 2 0 = 2 from rfl, h12] at hqp; omega

/-- `durable_after_flush` applied: whatever prefix of the later writes survives the power cut, re-opening the file
    from the slot at 1536 and reading 1026 bytes returns the content it had at the flush -/
theorem durable14 :
    ∃ d1, run f2.flush d2 = (.ok { f2 with entry := some { e2 with dirty := false } }, d1) ∧
      ∀ (k : Nat) (dk : Dev), dk.img = applyWrites d1.img (ws14.take k) → dk.fs = d2.fs → dk.failAt = none →
        ∃ g' d', run (readExact FileH.strm (reopen dk.fs dk.img e2.pos) (absFile d2.fs d2.img f2).size) dk =
          (.ok ((absFile d2.fs d2.img f2).content, g'), d') := by
  obtain ⟨d1, hr, _, _, _, hdur⟩ := durable_after_flush f2 e2 d2 sim2 entryRep2
  exact ⟨d1, hr, fun k dk h1 h2 h3 => hdur ws14 k dk avoid14 h1 h2 h3⟩

/-- the device after the flush and the cut after the first later write, evaluated: the record is in the slot (size
    1026 = `0x402`, first cluster 3), the first later write is on the medium and the second is not, and reading the
    re-opened file to the end gives 1026 bytes ending with the six appended ones -/
def dCut : Dev :=
  { (run f2.flush d2).2 with img := applyWrites (run f2.flush d2).2.img (ws14.take 1) }

set_option maxRecDepth 100000 in
theorem cut14 :
    (slotData dCut.img 1536).size = 1026 ∧ (slotData dCut.img 1536).firstClusterLo = 3 ∧
    dCut.img.getByte 3072 = 9 ∧ dCut.img.getByte 1600 = 0 ∧
    ((run (readExact FileH.strm (reopen dCut.fs dCut.img 1536) 1026) dCut).1.toOption.map
      fun r => (r.1.length, r.1.take 4, r.1.drop 1018)) = some (1026, [0, 0, 0, 0], [0, 0, 1, 2, 3, 4, 5, 6]) := by
  decide +kernel

end FatVerif.FileSim.Ex14
