import FatVerif.Proofs.FatMore
import FatVerif.Proofs.FatChains
import FatVerif.Proofs.FatTerm
/-!
# C03 (FAT-table part) and C20.2 / C20.3 — allocation, truncation, chain invariant, wrap-around, offset arithmetic
-/
namespace FatVerif.C03fat
open FatVerif.Fat

/-- **alloc_spec.** On a sane table (`TableOk`: byte-valued, entries `[0,total+2)` inside the bytes,
    `total+2 ≤ 0x?FF7`), a hint
    that is absent or `≥ 2`, and `prev` absent or an allocated entry of the table:
    a successful `alloc_cluster` returns `c` with `2 ≤ c < total+2` that was `Free`; afterwards `view c = EOC`,
    `view prev = Data c`, every other entry has its old raw value, the length is unchanged and the table is still sane. -/
theorem alloc_spec (ft : FatType) (f : Array Nat) (total : Nat) (ht : TableOk ft f total)
    (prev hint : Option Nat) (hh : ∀ n, hint = some n → 2 ≤ n)
    (hp : ∀ p, prev = some p → p < total + 2 ∧ view ft f p ≠ .free)
    (c : Nat) (h : (allocCluster f ft prev hint total).out = .ok c) :
    2 ≤ c ∧ c < total + 2 ∧ view ft f c = .free ∧
    view ft (allocCluster f ft prev hint total).fat c = .eoc ∧
    (∀ p, prev = some p → view ft (allocCluster f ft prev hint total).fat p = .data c) ∧
    (∀ i, i ≠ c → prev ≠ some i →
      getRaw ft (allocCluster f ft prev hint total).fat i = getRaw ft f i) ∧
    (allocCluster f ft prev hint total).fat.size = f.size ∧
    TableOk ft (allocCluster f ft prev hint total).fat total := by
  cases hfind : allocFindV (view ft f) hint total with
  | none =>
    rw [allocCluster_noSpace ht prev hint hfind] at h; cases h
  | some c' =>
    obtain ⟨hc1, hc2, hc3⟩ := allocFindV_some _ _ _ _ hh hfind
    obtain ⟨f', h1, h2, h3, h4, h5⟩ := allocCluster_ok ht prev hint hh (fun p h => (hp p h).1) hfind
    rw [h1] at h ⊢
    cases h
    have hpc : ∀ p, prev = some p → p ≠ c := by
      intro p hpp e; subst e; exact (hp p hpp).2 hc3
    obtain ⟨s1, s2, _⟩ := allocLinkV_spec (view ft f) prev c hpc
    refine ⟨hc1, hc2, hc3, ?_, ?_, h5, h4, h3⟩
    · show view ft f' c = .eoc
      rw [h2]; exact s1
    · intro p hpp
      show view ft f' p = .data c
      rw [h2]; exact s2 p hpp

/-- `alloc_cluster` fails with `NotEnoughSpace` iff no entry of `[2,total+2)` is free (C05 has the two halves) -/
theorem alloc_nospace_iff (ft : FatType) (f : Array Nat) (total : Nat) (ht : TableOk ft f total)
    (prev hint : Option Nat) (hh : ∀ n, hint = some n → 2 ≤ n) :
    (allocCluster f ft prev hint total).out = .error .noSpace ↔
      ∀ i, 2 ≤ i → i < total + 2 → view ft f i ≠ .free := by
  constructor
  · intro h
    exact allocFindV_none _ _ _ (allocCluster_noSpace_inv ht prev hint h)
  · intro h
    have : allocFindV (view ft f) hint total = none := by
      cases hf : allocFindV (view ft f) hint total with
      | none => rfl
      | some c =>
        obtain ⟨a, b, c'⟩ := allocFindV_some _ _ _ _ hh hf
        exact absurd c' (h c a b)
    rw [allocCluster_noSpace ht prev hint this]

/-- FAT16, 6 data clusters: 2→3→EOC, 4 free, 5→7→EOC (fragmented), 6 free -/
def exTab : Array Nat :=
  #[0xF8, 0xFF, 0xFF, 0xFF, 0x03, 0x00, 0xFF, 0xFF, 0x00, 0x00, 0x07, 0x00, 0x00, 0x00, 0xF8, 0xFF]

theorem exTab_ok : TableOk .fat16 exTab 6 :=
  ⟨wfBytes_of_all _ (by decide), fun c hc => by simp only [InRange, off, width, exTab, u32Lim]; simp; omega,
   by decide⟩

/-- hypotheses of `alloc_spec` are satisfiable: extend the chain ending at 7 with hint 7 → wraps to cluster 4 -/
example : (allocCluster exTab .fat16 (some 7) (some 7) 6).out = .ok 4 ∧ allocStartV (some 7) 6 < 6 + 2 ∧
    view .fat16 exTab 7 ≠ .free ∧ view .fat16 (allocCluster exTab .fat16 (some 7) (some 7) 6).fat 7 = .data 4 :=
  ⟨rfl, by decide, by decide, rfl⟩

/-- **truncate_spec / free_spec.** `ClusterIterator::truncate` at the head `c` of an acyclic chain `c :: t` inside the
    table keeps `c` (now `EOC`), frees exactly `t`, returns `|t|`, leaves every other raw entry alone. -/
theorem truncate_spec (ft : FatType) (f : Array Nat) (total c : Nat) (t : List Nat) (ht : TableOk ft f total)
    (hch : Chain (view ft f) c (c :: t)) (hnd : (c :: t).Nodup) (hin : ∀ k, k ∈ c :: t → k < total + 2)
    (fuel : Nat) (hfuel : t.length ≤ fuel) :
    ∃ f', truncateChain ft f c fuel = ⟨.ok t.length, f'⟩ ∧ f'.size = f.size ∧ TableOk ft f' total ∧
      view ft f' c = .eoc ∧ (∀ i, i ∈ t → view ft f' i = .free) ∧
      (∀ i, i ≠ c → i ∉ t → getRaw ft f' i = getRaw ft f i) := by
  obtain ⟨f', h1, h2, h3, h4, h5, h6⟩ :=
    truncateChain_sim ht.wf hch hnd (fun k hk => ht.plain (hin k hk)) fuel hfuel
  exact ⟨f', h1, h2,
    ⟨h3, fun k hk => by have := ht.covers k hk; unfold InRange at *; rw [h2]; exact this, ht.small⟩, h4, h5, h6⟩

theorem free_spec (ft : FatType) (f : Array Nat) (total c : Nat) (cs : List Nat) (ht : TableOk ft f total)
    (hch : Chain (view ft f) c cs) (hnd : cs.Nodup) (hin : ∀ k, k ∈ cs → k < total + 2)
    (fuel : Nat) (hfuel : cs.length ≤ fuel) :
    ∃ f', freeChain ft f c fuel = ⟨.ok cs.length, f'⟩ ∧ f'.size = f.size ∧ TableOk ft f' total ∧
      (∀ i, i ∈ cs → view ft f' i = .free) ∧ (∀ i, i ∉ cs → getRaw ft f' i = getRaw ft f i) := by
  obtain ⟨f', h1, h2, h3, h4, h5⟩ := freeChain_sim ht.wf hch hnd (fun k hk => ht.plain (hin k hk)) fuel hfuel
  exact ⟨f', h1, h2,
    ⟨h3, fun k hk => by have := ht.covers k hk; unfold InRange at *; rw [h2]; exact this, ht.small⟩, h4, h5⟩

example : Chain (view .fat16 exTab) 5 [5, 7] ∧ (truncateChain .fat16 exTab 5 8).out = .ok 1 ∧
    view .fat16 (truncateChain .fat16 exTab 5 8).fat 5 = .eoc ∧
    view .fat16 (truncateChain .fat16 exTab 5 8).fat 7 = .free :=
  ⟨Chain.cons 5 7 [7] rfl (Chain.last 7 (by intro n h; cases h)), rfl, rfl, rfl⟩

/-- on an acyclic in-table chain `total+2` loop iterations always suffice (see `free_never_hangs` for arbitrary
    tables) -/
theorem free_no_hang (ft : FatType) (f : Array Nat) (total c : Nat) (cs : List Nat) (ht : TableOk ft f total)
    (hch : Chain (view ft f) c cs) (hnd : cs.Nodup) (hin : ∀ k, k ∈ cs → k < total + 2) :
    (freeChain ft f c (total + 2)).out ≠ .error .hang := by
  have hlen : cs.length ≤ total + 2 := by
    have hsub : cs ⊆ List.range (total + 2) := fun k hk => List.mem_range.mpr (hin k hk)
    have := List.Nodup.length_le_of_subset hnd hsub
    simpa using this
  obtain ⟨f', h1, _⟩ := free_spec ft f total c cs ht hch hnd hin (total + 2) hlen
  rw [h1]; intro h; cases h

/-- **free_never_hangs** (after the F10 repair, commit 54cda0a). On ANY byte-valued table — cyclic chains, links out
    of range or into padding, a table shorter than `total` needs — and from ANY start cluster, `free` with fuel
    greater than the byte length ends with a count or with one of `panic` (u32 offset overflow / `Free` on a special
    FAT32 cluster number), `eof` (the cluster's entry is outside the bytes), `writeZero`; never with `hang`.
    Reason: a continuing iteration read `view n = Data m` and then writes `Free` into `n`, so the number of links
    strictly decreases; a cycle ends when the walk returns to an entry it has already freed. -/
theorem free_never_hangs (ft : FatType) (f : Array Nat) (c fuel : Nat) (hf : WfBytes f) (hfuel : f.size + 1 ≤ fuel) :
    ChainOutcome (freeChain ft f c fuel).out ∧ (freeChain ft f c fuel).out ≠ .error .hang := by
  have h := freeChain_terminates ft f c fuel hf hfuel
  refine ⟨h, ?_⟩
  intro e; rw [e] at h
  rcases h with ⟨n, h⟩ | h | h | h <;> cases h

theorem truncate_never_hangs (ft : FatType) (f : Array Nat) (c fuel : Nat) (hf : WfBytes f)
    (hfuel : f.size + 1 ≤ fuel) :
    ChainOutcome (truncateChain ft f c fuel).out ∧ (truncateChain ft f c fuel).out ≠ .error .hang := by
  have h := truncateChain_terminates ft f c fuel hf hfuel
  refine ⟨h, ?_⟩
  intro e; rw [e] at h
  rcases h with ⟨n, h⟩ | h | h | h <;> cases h

/-- the sharp bound: the loop runs at most (number of `Data` links among the entries that can hold one) + 1 times.
    If no padding entry `≥ total+2` holds a link (true after `format_fat`, which marks them EOC), `total + 3`
    iterations suffice for any start cluster and any shape of the links, cycles included. -/
theorem free_never_hangs_table (ft : FatType) (f : Array Nat) (total c fuel : Nat) (hf : WfBytes f)
    (hpad : ∀ i, total + 2 ≤ i → isData (view ft f i) = false) (hfuel : total + 3 ≤ fuel) :
    ChainOutcome (freeChain ft f c fuel).out ∧ ChainOutcome (truncateChain ft f c fuel).out := by
  have hle := dataCount_le (view ft f) (total + 2)
  exact ⟨freeLoop_terminates (total + 2) fuel f c 0 hf hpad (by omega),
    truncateChain_terminates_gen ft (total + 2) f c fuel hf hpad (by omega)⟩

/-- FAT16 table with a 2-cycle 2→3→2 and a ρ-shaped chain 4→5→6→5 -/
def exCyc : Array Nat :=
  #[0xF8, 0xFF, 0xFF, 0xFF, 0x03, 0x00, 0x02, 0x00, 0x05, 0x00, 0x06, 0x00, 0x05, 0x00]

/-- what a cycle does: the walk frees 2, 3, comes back to 2 (now `Free`, no link), "frees" it again and stops.
    Both clusters are reclaimed but the returned count is one too high (3 for 2 clusters; 4 for the 3 clusters of the
    ρ-shaped chain) — on such a corrupt table the caller's free-cluster counter drifts by one. -/
theorem free_cycle_example :
    (freeChain .fat16 exCyc 2 15).out = .ok 3 ∧
    view .fat16 (freeChain .fat16 exCyc 2 15).fat 2 = .free ∧ view .fat16 (freeChain .fat16 exCyc 2 15).fat 3 = .free ∧
    (freeChain .fat16 exCyc 4 15).out = .ok 4 ∧ (truncateChain .fat16 exCyc 4 15).out = .ok 3 ∧
    WfBytes exCyc ∧ exCyc.size + 1 ≤ 15 :=
  ⟨rfl, rfl, rfl, rfl, rfl, wfBytes_of_all _ (by decide), by decide⟩

/-- a start cluster outside the bytes is now reported as the read error it is (before the repair the FAT16 path went
    on to the write and answered `WriteZero`) -/
example : (freeChain .fat16 exCyc 7 15).out = .error .eof ∧ (freeChain .fat16 exCyc 7 15).fat = exCyc :=
  ⟨rfl, rfl⟩

/-- **chains_inv.** The FAT-level structural invariant `FatWf` (links in range, links point to allocated entries, no
    two links to the same cluster, no cycles — i.e. the allocated entries form disjoint acyclic chains) is preserved
    by the byte-level `alloc_cluster` … -/
theorem chains_inv_alloc (ft : FatType) (f : Array Nat) (total : Nat) (ht : TableOk ft f total)
    (hw : FatWf (view ft f) total)
    (prev hint : Option Nat) (hh : ∀ n, hint = some n → 2 ≤ n)
    (hp : ∀ p, prev = some p → p < total + 2 ∧ view ft f p = .eoc) :
    FatWf (view ft (allocCluster f ft prev hint total).fat) total := by
  cases hfind : allocFindV (view ft f) hint total with
  | none => rw [allocCluster_noSpace ht prev hint hfind]; exact hw
  | some c =>
    obtain ⟨hc1, hc2, hc3⟩ := allocFindV_some _ _ _ _ hh hfind
    obtain ⟨f', h1, h2, _⟩ := allocCluster_ok ht prev hint hh (fun p h => (hp p h).1) hfind
    rw [h1]
    show FatWf (view ft f') total
    rw [h2]
    exact fatWf_alloc hw prev c hc3 hc1 hc2 (fun p h => (hp p h).2)

/-- … by `ClusterIterator::free` of a whole chain (its head `c` has no predecessor) … -/
theorem chains_inv_free (ft : FatType) (f : Array Nat) (total c : Nat) (cs : List Nat) (ht : TableOk ft f total)
    (hw : FatWf (view ft f) total) (hch : Chain (view ft f) c cs) (hhead : ∀ a, view ft f a ≠ .data c)
    (hin : ∀ k, k ∈ cs → k < total + 2) (fuel : Nat) (hfuel : cs.length ≤ fuel) :
    FatWf (view ft (freeChain ft f c fuel).fat) total := by
  obtain ⟨f', h1, _, _, h4, h5⟩ := free_spec ft f total c cs ht hch (chain_nodup hw hch) hin fuel hfuel
  rw [h1]
  exact fatWf_free hw hch hhead h4 (fun i hi => view_eq_of_getRaw_eq (h5 i hi))

/-- … and by `ClusterIterator::truncate` at any cluster `c` of a chain (`c :: t` = the rest of the chain from `c`) -/
theorem chains_inv_truncate (ft : FatType) (f : Array Nat) (total c : Nat) (t : List Nat) (ht : TableOk ft f total)
    (hw : FatWf (view ft f) total) (hch : Chain (view ft f) c (c :: t))
    (hin : ∀ k, k ∈ c :: t → k < total + 2) (fuel : Nat) (hfuel : t.length ≤ fuel) :
    FatWf (view ft (truncateChain ft f c fuel).fat) total := by
  obtain ⟨f', h1, _, _, h4, h5, h6⟩ := truncate_spec ft f total c t ht hch (chain_nodup hw hch) hin fuel hfuel
  rw [h1]
  exact fatWf_truncate hw hch h4 h5 (fun i hi hit => view_eq_of_getRaw_eq (h6 i hi hit))

/-- what `FatWf` buys: every cluster starts a finite duplicate-free chain, and it is unique -/
theorem chains_inv_chains (g : Nat → FatValue) (total : Nat) (hw : FatWf g total) (c : Nat) :
    ∃ cs, Chain g c cs ∧ cs.Nodup ∧ ∀ cs', Chain g c cs' → cs' = cs := by
  obtain ⟨cs, h, hnd⟩ := chain_exists hw c
  exact ⟨cs, h, hnd, fun cs' h' => chain_unique h' h⟩

/-- `exTab` satisfies the invariant (rank = 1 for the two chain heads, 0 elsewhere) -/
theorem exTab_wf : FatWf (view .fat16 exTab) 6 := by
  have hv : ∀ c n, view .fat16 exTab c = .data n → (c = 2 ∧ n = 3) ∨ (c = 5 ∧ n = 7) := by
    intro c n h
    by_cases h8 : c < 8
    · have : c = 0 ∨ c = 1 ∨ c = 2 ∨ c = 3 ∨ c = 4 ∨ c = 5 ∨ c = 6 ∨ c = 7 := by omega
      rcases this with rfl | rfl | rfl | rfl | rfl | rfl | rfl | rfl
      all_goals first
        | (have h' : FatValue.data 3 = FatValue.data n := h; cases h'; exact Or.inl ⟨rfl, rfl⟩)
        | (have h' : FatValue.data 7 = FatValue.data n := h; cases h'; exact Or.inr ⟨rfl, rfl⟩)
        | (exfalso; revert h; decide)
        | (exfalso; exact absurd h (by intro h'; cases h'))
    · exfalso
      have : view .fat16 exTab c = .bad := by
        have hsz : exTab.size = 16 := rfl
        unfold view
        cases hg : Fat.get .fat16 exTab c with
        | error e => rfl
        | ok v =>
          have := get_inRange hg
          simp only [InRange, off, width] at this
          omega
      rw [this] at h; cases h
  refine ⟨?_, ?_, ?_, ⟨fun i => if i = 2 ∨ i = 5 then 1 else 0, ?_⟩⟩
  · intro c n h; rcases hv c n h with ⟨rfl, rfl⟩ | ⟨rfl, rfl⟩ <;> omega
  · intro c n h; rcases hv c n h with ⟨rfl, rfl⟩ | ⟨rfl, rfl⟩ <;> exact ⟨by decide, by decide⟩
  · intro a b n ha hb
    rcases hv a n ha with ⟨rfl, rfl⟩ | ⟨rfl, rfl⟩ <;> rcases hv b _ hb with ⟨rfl, e⟩ | ⟨rfl, e⟩ <;> first | rfl | omega
  · intro c n h; rcases hv c n h with ⟨rfl, rfl⟩ | ⟨rfl, rfl⟩ <;> simp

/-- **alloc_wraparound (C20.3).** On a volume of ANY size — also one with zero data clusters, since the repair of
    F21 (commit 8aee7d6) —, for ANY hint that is absent, out of range
    (`≥ total+2`, incl. `total+2` itself — `Some(n) if n < end_cluster` sends it to 2) or anywhere in `[2,total+2)`:
    `alloc_cluster` succeeds iff some entry of `[2,total+2)` is free — in particular when only the LAST cluster
    `total+1` is free —, what it returns is a free cluster in `[2,total+2)`, never an index `≥ total+2`. -/
theorem alloc_wraparound (ft : FatType) (f : Array Nat) (total : Nat) (ht : TableOk ft f total)
    (prev hint : Option Nat) (hh : ∀ n, hint = some n → 2 ≤ n) (hp : ∀ p, prev = some p → p < total + 2) :
    ((∃ c, (allocCluster f ft prev hint total).out = .ok c) ↔ ∃ i, 2 ≤ i ∧ i < total + 2 ∧ view ft f i = .free) ∧
    (∀ c, (allocCluster f ft prev hint total).out = .ok c → 2 ≤ c ∧ c < total + 2 ∧ view ft f c = .free) ∧
    (0 < total → (∀ i, 2 ≤ i → i < total + 1 → view ft f i ≠ .free) → view ft f (total + 1) = .free →
      (allocCluster f ft prev hint total).out = .ok (total + 1)) := by
  have key : ∀ c, allocFindV (view ft f) hint total = some c → (allocCluster f ft prev hint total).out = .ok c := by
    intro c hf
    obtain ⟨f', h1, _⟩ := allocCluster_ok ht prev hint hh hp hf
    rw [h1]
  have hret : ∀ c, (allocCluster f ft prev hint total).out = .ok c → 2 ≤ c ∧ c < total + 2 ∧ view ft f c = .free := by
    intro c h
    cases hf : allocFindV (view ft f) hint total with
    | none => rw [allocCluster_noSpace ht prev hint hf] at h; cases h
    | some c' =>
      rw [key c' hf] at h; cases h
      exact allocFindV_some _ _ _ _ hh hf
  refine ⟨⟨?_, ?_⟩, hret, ?_⟩
  · rintro ⟨c, h⟩; exact ⟨c, hret c h⟩
  · rintro ⟨i, h1, h2, h3⟩
    obtain ⟨c, hc⟩ := allocFindV_isSome (view ft f) hint total i h1 h2 h3
    exact ⟨c, key c hc⟩
  · intro htot hnone hlast
    obtain ⟨c, hc⟩ := allocFindV_isSome (view ft f) hint total (total + 1) (by omega) (by omega) hlast
    have := allocFindV_some _ _ _ _ hh hc
    have hc' : c = total + 1 := by
      by_cases e : c = total + 1
      · exact e
      · exact absurd this.2.2 (hnone c this.1 (by omega))
    subst hc'; exact key _ hc

/-- the scans read nothing beyond entry `total+1`: two sane tables that agree on `[0,total+2)` give the same answer -/
theorem alloc_reads_only_table (ft : FatType) (f f2 : Array Nat) (total : Nat) (ht : TableOk ft f total)
    (ht2 : TableOk ft f2 total) (hint : Option Nat)
    (hsame : ∀ i, i < total + 2 → view ft f i = view ft f2 i) :
    allocFind ft f (allocStart hint (total + 2)) (total + 2) =
      allocFind ft f2 (allocStart hint (total + 2)) (total + 2) := by
  rw [allocFind_sim ht hint, allocFind_sim ht2 hint]
  congr 1
  unfold allocFindV
  have hs := allocStartV_le hint total
  generalize allocStartV hint total = start at *
  rw [findFreeV_congr (view ft f) (view ft f2) _ _ (fun i h1 h2 => hsame i (by omega)),
    findFreeV_congr (view ft f) (view ft f2) (start - 2) 2 (fun i h1 h2 => hsame i (by omega))]

/-- last cluster only: hint = last+1 = total+2 (FS-info hint after allocating the last cluster, F13) still finds it -/
example : (allocCluster #[0xF8, 0xFF, 0xFF, 0xFF, 0x0F, 0x00] .fat12 none (some 4) 2).out = .ok 3 := rfl

/-- a volume with zero data clusters: nothing to allocate, whatever the padding entries hold — the instance of
    `alloc_wraparound` that was false for FAT12 before commit 8aee7d6 (hint absent or ≥ 2 as everywhere) -/
theorem alloc_zero_clusters (ft : FatType) (f : Array Nat) (ht : TableOk ft f 0) (prev hint : Option Nat)
    (hh : ∀ n, hint = some n → 2 ≤ n) : allocCluster f ft prev hint 0 = ⟨.error .noSpace, f⟩ := by
  apply allocCluster_noSpace ht prev hint
  cases hf : allocFindV (view ft f) hint 0 with
  | none => rfl
  | some c =>
    obtain ⟨a, b, _⟩ := allocFindV_some _ _ _ _ hh hf
    omega

/-- F21 regression (repaired in commit 8aee7d6: `if start_cluster >= end_cluster { return Err(NotEnoughSpace) }`).
    FAT12 volume with zero data clusters and a zero padding entry 2: before the repair `alloc_cluster` returned
    cluster 2 = total+2 and wrote it; now it answers `NotEnoughSpace` and leaves the bytes alone, like FAT16. -/
theorem alloc_zero_clusters_regression :
    allocCluster #[0xF8, 0xFF, 0xFF, 0x00, 0x00, 0x00] .fat12 none none 0 =
      ⟨.error .noSpace, #[0xF8, 0xFF, 0xFF, 0x00, 0x00, 0x00]⟩ ∧
    (allocCluster #[0xF8, 0xFF, 0xFF, 0x00, 0x00, 0x00] .fat12 none (some 2) 0).out = .error .noSpace ∧
    (allocCluster #[0xF8, 0xFF, 0xFF, 0xFF, 0x00, 0x00, 0x00, 0x00] .fat16 none none 0).out = .error .noSpace :=
  ⟨rfl, rfl, rfl⟩

example : TableOk .fat12 #[0xF8, 0xFF, 0xFF, 0x00, 0x00, 0x00] 0 :=
  ⟨wfBytes_of_all _ (by decide), fun c hc => by simp only [InRange, off, width, u32Lim]; simp; omega, by decide⟩

/-- the same at the level of `find_free`: an empty range (`start ≥ end`) is NotEnoughSpace for every width and reads
    nothing (before the repair FAT12 scanned on to the end of the stream and returned 3 here) -/
theorem findFree12_start_eq_end_regression :
    findFree .fat12 #[0xF8, 0xFF, 0xFF, 0xFF, 0x0F, 0x00] 2 2 = .error .noSpace ∧
    findFree .fat12 #[0xF8, 0xFF, 0xFF, 0xFF, 0x0F, 0x00] 3 2 = .error .noSpace ∧
    findFree .fat16 #[0xF8, 0xFF, 0xFF, 0xFF, 0xFF, 0xFF, 0x00, 0x00] 2 2 = .error .noSpace :=
  ⟨rfl, rfl, rfl⟩

/-- in general -/
theorem findFree_empty_range (ft : FatType) (f : Array Nat) (total s e : Nat) (ht : TableOk ft f total)
    (hse : e ≤ s) (hs : s ≤ total + 2) : findFree ft f s e = .error .noSpace := by
  have hsm := ht.small
  cases ft
  · exact findFree_empty12 f s e hse
  · exact findFree_empty16 f s e hse (by simp only [badMark, u32Lim] at *; omega)
  · exact findFree_empty32 f s e hse (by simp only [badMark, u32Lim] at *; omega)

/-- **fat_offset_arith (C20.2).** The u32 offset computations of `table.rs` cannot overflow for any cluster number
    a FAT of that width can hold: `c·4 < 2^32` for `c ≤ 0x0FFFFFFF`, `c·2` for `c ≤ 0xFFFF`, `c + c/2` for
    `c ≤ 0xFFF`; hence `get`/`set`/`find_free` never panic there (they fail with `eof`, or succeed). -/
theorem fat_offset_arith :
    (∀ c, c ≤ 0x0FFFFFFF → c * 4 + 4 ≤ 4294967296) ∧ (∀ c, c ≤ 0xFFFF → c * 2 + 2 ≤ 4294967296) ∧
    (∀ c, c ≤ 0xFFF → c + c / 2 + 2 ≤ 4294967296) ∧
    (∀ ft f c, c ≤ 0x0FFFFFFF → getRaw ft f c ≠ .error .panic) := by
  refine ⟨fun c h => by omega, fun c h => by omega, fun c h => by omega, ?_⟩
  intro ft f c hc h
  cases ft
  · simp only [getRaw, getRaw12] at h
    rw [if_neg (show ¬ (u32Lim ≤ c + c / 2) by unfold u32Lim; omega)] at h
    split at h <;> cases h
  · simp only [getRaw, getRaw16] at h
    rw [if_neg (show ¬ (u32Lim ≤ c * 2) by unfold u32Lim; omega)] at h
    split at h <;> cases h
  · simp only [getRaw, getRaw32] at h
    rw [if_neg (show ¬ (u32Lim ≤ c * 4) by unfold u32Lim; omega)] at h
    split at h <;> cases h

/-- beyond that range the overflow is real (debug/overflow-checks build): FAT32 `cluster * 4` at 2^30 -/
example : getRaw .fat32 #[0, 0, 0, 0] 0x40000000 = .error .panic ∧ getRaw .fat32 #[0, 0, 0, 0] 0x3FFFFFFF = .error .eof :=
  ⟨rfl, rfl⟩

end FatVerif.C03fat
