import FatVerif.Proofs.FsInfoImg4
import FatVerif.Proofs.FatImgZero5
import FatVerif.Props.C03img
import FatVerif.Props.C07run
/-!
# C05 end-to-end at image level

"The free-cluster count reported by the statistics call always equals the number of free entries in the on-disk
allocation table, and on FAT32 the information sector written at unmount carries that same count and an in-range
next-free hint. Removing or truncating a file gives back all of its clusters."

* the free-entry count of the image: `countFreeV (imgTable fs img) fs.totalClusters` (`imgTable` of `Props/C03img`:
  the decoded FAT of the image, clipped to the FAT window); `count_tab_eq` says it is also the count over agent-cursor's
  `tabView` (same entries `[2,total+2)`), on which the preservation lemmas of `Proofs/FileSimFatAlloc/Free` are stated;
* `InfoOk2 fs img` (Proofs/FsInfoImg1): hint in `[2, total+2]`, cached count (if any) = that count. "Count unknown" is
  the special case `fs.fsInfo.free = none`;
* `Sess d`: fault-free device, well-formed page table, layout `Geo`, `InfoOk2`.
-/
namespace FatVerif.C05img
open FatVerif FatVerif.Fat FatVerif.FileSim FatVerif.FsInfoImg FatVerif.C03img FatVerif.C07run

/-- the two readings of "the number of free entries of the image's table" coincide -/
theorem count_tab_eq {fs : FsState} {sz : Nat} (g : Geo fs sz) (img : Img) :
    countFreeV (tabView fs img) fs.totalClusters = countFreeV (imgTable fs img) fs.totalClusters :=
  countFreeV_tabView g img

/-! ## (1) stats -/

/-- **stats_img.** On a mounted volume whose bookkeeping is consistent (`InfoOk`; includes "count unknown"), a
    successful `stats` returns `(cluster_size, total_clusters, n)` with `n` = the number of free entries of the image's
    table — read from the cache, or computed by the recount program `count_free_clusters` over the FAT slice
    (`countFree_img`) —, leaves the image as it is, and leaves `some n` in the cache (so `InfoOk` holds from then on,
    `sess_stats`). No fault hypothesis: success is the hypothesis. -/
theorem stats_img (d : Dev) (hwf : d.img.WF) (hg : Geo d.fs d.img.size) (hinfo : InfoOk d.fs d.img)
    {a b n : Nat} {d' : Dev} (hr : run stats d = (.ok (a, b, n), d')) :
    a = d.fs.clusterSize ∧ b = d.fs.totalClusters ∧
    n = countFreeV (imgTable d.fs d.img) d.fs.totalClusters ∧
    d'.img = d.img ∧ d'.fs.fsInfo.free = some n ∧ d'.fs.fsInfo.next = d.fs.fsInfo.next ∧
    d'.fs = { d.fs with fsInfo := d'.fs.fsInfo } := by
  obtain ⟨h1, h2, h3, h4, h5, h6, h7, _⟩ := FsInfoImg.stats_img d hwf hg hinfo hr
  exact ⟨h1, h2, by rw [h3, count_tab_eq hg], h4, h6, h7, h5⟩

/-! ## (2) mount -/

/-- **mount_infoOk.** After a successful mount (fault-free device, FS-info sector inside the device):
    * the image is untouched;
    * a cached count exists only on a FAT32 volume that is not marked dirty and only if the stored count is
      `≤ total_clusters` (dirty volume / FAT12/16 / out-of-range count → unknown);
    * the hint, if any, is in `[2, total_clusters + 2]`;
    * hence `InfoOk2` holds provided a count that survived these filters is correct (`hcount` — the library documents
      that a wrong foreign FS-info count is reported as is; cf. `C05count.mount_establishes`). -/
theorem mount_infoOk (strict accDate lfnAlloc unicode : Bool) {d : Dev} (hd : Mountable d) (hfi : FsInfoInside strict d)
    {fs : FsState} {d' : Dev} (hrun : run (mount strict accDate lfnAlloc unicode) d = (.ok fs, d')) :
    d'.img = d.img ∧
    (∀ n, fs.fsInfo.free = some n → n ≤ fs.totalClusters ∧ fs.bpbDirty = false ∧ fs.fatType = .fat32) ∧
    (fs.bpbDirty = true → fs.fsInfo.free = none) ∧
    (fs.fatType ≠ .fat32 → fs.fsInfo.free = none ∧ fs.fsInfo.next = none) ∧
    (∀ n, fs.fsInfo.next = some n → 2 ≤ n ∧ n ≤ fs.totalClusters + 2) ∧
    ((∀ n, fs.fsInfo.free = some n → n = countFreeV (tabView fs d.img) fs.totalClusters) → InfoOk2 fs d'.img) := by
  obtain ⟨h1, h2, h3⟩ := mount_run_fsinfo strict accDate lfnAlloc unicode hd hfi hrun
  have himg := (mount_run_writes_nothing strict accDate lfnAlloc unicode d hrun).1
  refine ⟨himg, ?_, ?_, h3, h2, ?_⟩
  · intro n hn
    refine ⟨(h1 n hn).1, (h1 n hn).2, ?_⟩
    apply Classical.byContradiction
    intro hne
    rw [(h3 hne).1] at hn; cases hn
  · intro hdirty
    cases hf : fs.fsInfo.free with
    | none => rfl
    | some n => have := (h1 n hf).2; rw [hdirty] at this; cases this
  · intro hcount
    exact ⟨⟨fun n hn => (h2 n hn).1, fun n hn => by rw [himg]; exact hcount n hn⟩, fun n hn => (h2 n hn).2⟩

/-! ## (3) unmount -/

theorem countFreeV_le (g : Nat → FatValue) (total : Nat) : countFreeV g total ≤ total := by
  unfold countFreeV
  have := List.countP_le_length (p := fun i => decide (g (i + 2) = .free)) (l := List.range total)
  simpa using this

/-- **unmount_fsinfo_img.** After a successful `unmount` from a session state (`InfoOk2`) of a FAT32 volume with a dirty
    FS-info, the FS-info sector of the image deserialises (`FsInfoSector::deserialize`) to exactly the cached values:
    the count — if known — is the number of free entries of the image's table, the hint — if any — is in
    `[2, total+2]` (in `[2, total+1]` after any alloc of the session: `session_free_count_exact`). When the FS-info is not
    dirty, or the volume is FAT12/16, no byte other than the status byte changes. (`hso`: the status byte does not lie in
    the FS-info sector; `hdis`: the FS-info sector does not overlap the FAT window — it lies in the reserved area.) -/
theorem unmount_fsinfo_img (d : Dev) (hs : Sess d)
    (hso : statusOff d.fs + 1 ≤ d.fs.fsInfoSector * d.fs.bps ∨ d.fs.fsInfoSector * d.fs.bps + 512 ≤ statusOff d.fs)
    (hdis : d.fs.fsInfoSector * d.fs.bps + 512 ≤ (fatSliceOf d.fs).beginOff ∨
      (fatSliceOf d.fs).beginOff + (fatSliceOf d.fs).size ≤ d.fs.fsInfoSector * d.fs.bps)
    {u : Unit} {d' : Dev} (hr : run unmount d = (.ok u, d')) :
    ((d.fs.fatType = .fat32 ∧ d.fs.fsInfo.dirty = true) →
      FsInfo.deserialize (d'.img.read (d.fs.fsInfoSector * d.fs.bps) 512) =
        .ok { freeClusterCount := d.fs.fsInfo.free, nextFreeCluster := d.fs.fsInfo.next, dirty := false } ∧
      (∀ n, d.fs.fsInfo.free = some n → n = countFreeV (imgTable d.fs d.img) d.fs.totalClusters) ∧
      (∀ h, d.fs.fsInfo.next = some h → 2 ≤ h ∧ h ≤ d.fs.totalClusters + 2) ∧
      imgTable d.fs d'.img = imgTable d.fs d.img) ∧
    (¬ (d.fs.fatType = .fat32 ∧ d.fs.fsInfo.dirty = true) →
      ∀ q, q ≠ statusOff d.fs → d'.img.getByte q = d.img.getByte q) := by
  obtain ⟨_, hyes, hno, hout⟩ := unmount_img d hs.wf hso hr
  refine ⟨fun hc => ?_, hno⟩
  have hsmall := hs.geo.small
  have hbm : badMark d.fs.fatType ≤ 268435447 := by cases d.fs.fatType <;> decide
  have hcnt : ∀ n, d.fs.fsInfo.free = some n → n = countFreeV (imgTable d.fs d.img) d.fs.totalClusters :=
    fun n hn => by rw [← count_tab_eq hs.geo]; exact hs.info.ok.count n hn
  refine ⟨?_, hcnt, fun h hh => ⟨hs.info.ok.hint h hh, hs.info.hintLe h hh⟩, ?_⟩
  · rw [hyes hc]
    apply fsInfo_roundtrip
    · intro a ha
      have := hcnt a ha
      have := countFreeV_le (imgTable d.fs d.img) d.fs.totalClusters
      omega
    · intro n hn
      have := hs.info.hintLe n hn
      exact ⟨hs.info.ok.hint n hn, by omega⟩
  · -- the FAT window is disjoint from the FS-info sector (`hdis`) and from the status byte (`Geo.status_lt`)
    unfold imgTable imgFatBytes
    rw [fatBytes_congr _ _ d.img d'.img]
    intro i hi
    have hst := hs.geo.status_lt
    have hso' : statusOff d.fs < 0x42 := by unfold statusOff; split <;> decide
    apply hout
    · omega
    · omega

/-! ## (4) `alloc_cluster(prev, zero)` end to end -/

/-- **alloc_cluster_img.** `FileSystem::alloc_cluster(prev, zero)` — `zero = true` is the call that grows a directory —
    on a session state (`Sess d`: fault-free device, well-formed image, layout, consistent bookkeeping), the volume marked
    dirty or not, `prev` an allocated cluster of the table:

    * if the table has no free entry the call fails with `NotEnoughSpace` and nothing at all changes (`SameStore`);
    * otherwise it succeeds, returns the cluster `c` the search of the decoded table finds (`allocFindV`: first free
      entry from the hint, wrapping once), and afterwards
      - the session facts hold again; the mounted state is the old one, marked dirty, with the cached count decremented,
        the hint `c + 1` (wrapped to 2 at the end of the table) and the FS-info dirty latch set;
      - the decoded table is `allocLinkV g prev c` (`c := EOC`, then `prev := Data c`);
      - `zero = true`: every byte of cluster `c` is zero;
      - every byte from 0x42 on outside the FAT copies and — `zero = true` — outside cluster `c` is unchanged;
      - if the volume was not marked dirty the status byte of the image now carries the dirty encoding;
      - the write records: up to an intermediate device `d1` a sequence of mirrored FAT writes (`MirroredSeq`: each one
        the same bytes at the same relative offset of every copy, copy 0 first) whose first new record is the status
        record if the volume was not marked dirty and which contains no status record if it was; after `d1` nothing
        (`zero = false`) or exactly the records tiling cluster `c` with zeros (`Pieces`, in device order). -/
theorem alloc_cluster_img (d : Dev) (hs : Sess d) (prev : Option Nat) (zero : Bool)
    (hp : ∀ p, prev = some p → 2 ≤ p ∧ p < d.fs.totalClusters + 2 ∧ tabView d.fs d.img p ≠ .free) :
    ((∀ i, 2 ≤ i → i < d.fs.totalClusters + 2 → tabView d.fs d.img i ≠ .free) ∧
      ∃ d', run (allocClusterFs prev zero) d = (.error .noSpace, d') ∧ SameStore d d') ∨
    (∃ c d', allocFindV (tabView d.fs d.img) d.fs.fsInfo.next d.fs.totalClusters = some c ∧
      2 ≤ c ∧ c < d.fs.totalClusters + 2 ∧ tabView d.fs d.img c = .free ∧
      run (allocClusterFs prev zero) d = (.ok c, d') ∧ Sess d' ∧
      d'.fs = { markedFs d.fs with fsInfo := ({ d.fs.fsInfo with
        next := some (hintAfter d.fs.totalClusters c), dirty := true }).mapFree (· - 1) } ∧
      tabView d'.fs d'.img = allocLinkV (tabView d.fs d.img) prev c ∧
      (zero = true → ∀ q, clusterOff d.fs c ≤ q → q < clusterOff d.fs c + d.fs.clusterSize → d'.img.getByte q = 0) ∧
      (∀ q, 0x42 ≤ q → OutsideFat d.fs q →
        (zero = true → ¬ (clusterOff d.fs c ≤ q ∧ q < clusterOff d.fs c + d.fs.clusterSize)) →
        d'.img.getByte q = d.img.getByte q) ∧
      (d.fs.curDirty = false → d'.img.getByte (statusOff d.fs) = statusByte d.fs true) ∧
      ∃ d1, MirroredSeq (fatSliceOf d.fs) d d1 ∧
        (d.fs.curDirty = false → ∃ l, d1.writesOf = l ++ statusWrite d.fs true :: d.writesOf ∧
          ∀ off b, LogItem.write off b ∈ l → (fatSliceOf d.fs).beginOff ≤ off) ∧
        (d.fs.curDirty = true → ∃ l, d1.writesOf = l ++ d.writesOf ∧
          ∀ off b, LogItem.write off b ∈ l → (fatSliceOf d.fs).beginOff ≤ off) ∧
        (zero = false → d'.log = d1.log) ∧
        (zero = true → ∃ items, d'.log = items.reverse ++ d1.log ∧
          Pieces (clusterOff d.fs c) (List.replicate d.fs.clusterSize 0) items)) := by
  rcases run_allocClusterFs_any prev zero d hs.nofault hs.wf hs.geo hs.info.ok hp with
    ⟨hnone, dx, hx, hsame⟩ | ⟨c, d', hfind, hr, hst, hfs, htv, _, hz, hfr⟩
  · exact Or.inl ⟨allocFindV_none _ _ _ hnone, dx, hx, hsame⟩
  · right
    obtain ⟨hc2, hct, hcf⟩ := allocFindV_some _ _ _ _ hs.info.ok.hint hfind
    obtain ⟨hs', hcd', _⟩ := sess_alloc hs prev zero hp hr
    have hg := hs.geo
    have hdev : (fatSliceOf d.fs).beginOff + (fatSliceOf d.fs).mirrors * (fatSliceOf d.fs).size ≤ d.img.size := by
      have h1 := hg.fat_data
      have h2 := hg.data_dev
      have h3 : d.fs.firstDataSector * d.fs.bps ≤ clusterOff d.fs (d.fs.totalClusters + 2) := by
        unfold clusterOff; exact Nat.mul_le_mul_right _ (Nat.le_add_right _ _)
      omega
    obtain ⟨d1, hms, hcd1, hz0, hz1⟩ := allocClusterFs_log prev zero d hg.mirrors_pos hdev hr
    refine ⟨c, d', hfind, hc2, hct, hcf, hr, hs', hfs, htv, hz, hfr,
      fun hcl => allocClusterFs_status_byte prev zero d hs.wf hg hcl hr hcd', d1, hms, ?_, ?_, hz0, hz1⟩
    · intro hcl
      exact mirroredSeq_status_first hms (fatSliceOf_viaFs _) hcl (by rw [← hcd1]; exact hcd')
    · intro hdirty
      exact (mirroredSeq_of_dirty hms hdirty).2

/-! ## (5) sessions -/

/-- one FsState-level operation of a session, run successfully, under the conditions its callers in `file.rs`/`dir.rs`
    establish: `alloc_cluster(prev, zero)` (`zero = true`: directory growth) with `prev` an allocated cluster of the
    table; `free_cluster_chain(n)` / `truncate_cluster_chain(n)` on the duplicate-free chain of allocated clusters
    starting at `n`; `stats`. The volume may or may not be marked dirty when a modifying operation starts
    (`FsIoAdapter` marks it before the first modifying write). -/
inductive Step : Dev → Dev → Prop
  | alloc {d d' : Dev} (prev : Option Nat) (zero : Bool) (c : Nat)
      (hp : ∀ p, prev = some p → 2 ≤ p ∧ p < d.fs.totalClusters + 2 ∧ tabView d.fs d.img p ≠ .free)
      (hr : run (allocClusterFs prev zero) d = (.ok c, d')) : Step d d'
  | free {d d' : Dev} (n : Nat) (cs : List Nat)
      (hch : Chain (tabView d.fs d.img) n cs) (hnd : cs.Nodup)
      (hin : ∀ x ∈ cs, 2 ≤ x ∧ x < d.fs.totalClusters + 2 ∧ tabView d.fs d.img x ≠ .free)
      (hr : run (freeClusterChain n) d = (.ok (), d')) : Step d d'
  | truncate {d d' : Dev} (cur : Nat) (t : List Nat)
      (hch : Chain (tabView d.fs d.img) cur (cur :: t)) (hnd : (cur :: t).Nodup)
      (hin : ∀ x ∈ cur :: t, 2 ≤ x ∧ x < d.fs.totalClusters + 2 ∧ tabView d.fs d.img x ≠ .free)
      (hr : run (truncateClusterChain cur) d = (.ok (), d')) : Step d d'
  | stats {d d' : Dev} (a b n : Nat) (hr : run stats d = (.ok (a, b, n), d')) : Step d d'

/-- any sequence of such operations -/
inductive Reach : Dev → Dev → Prop
  | refl (d : Dev) : Reach d d
  | step {a b c : Dev} : Reach a b → Step b c → Reach a c

theorem sess_step {d d' : Dev} (hs : Sess d) (h : Step d d') : Sess d' ∧ d'.fs.totalClusters = d.fs.totalClusters := by
  cases h with
  | alloc prev zero c hp hr =>
    obtain ⟨h1, _, hg, _⟩ := sess_alloc hs prev zero hp hr; exact ⟨h1, hg.totalClusters⟩
  | free n cs hch hnd hin hr =>
    obtain ⟨h1, _, hg, _⟩ := sess_free hs n cs hch hnd hin hr; exact ⟨h1, hg.totalClusters⟩
  | truncate cur t hch hnd hin hr =>
    obtain ⟨h1, _, hg, _⟩ := sess_truncate hs cur t hch hnd hin hr; exact ⟨h1, hg.totalClusters⟩
  | stats a b n hr =>
    obtain ⟨h1, _, _, hg, _⟩ := sess_stats hs hr; exact ⟨h1, hg.totalClusters⟩

theorem sess_reach {d0 d : Dev} (hs : Sess d0) (h : Reach d0 d) : Sess d := by
  induction h with
  | refl => exact hs
  | step _ hst ih => exact (sess_step ih hst).1

/-- a modifying step leaves the volume marked dirty; `stats` does not change the mark -/
theorem dirty_step {d d' : Dev} (hs : Sess d) (h : Step d d') : d.fs.curDirty = true → d'.fs.curDirty = true := by
  intro hcd
  cases h with
  | alloc prev zero c hp hr => exact (sess_alloc hs prev zero hp hr).2.1
  | free n cs hch hnd hin hr => exact (sess_free hs n cs hch hnd hin hr).2.1
  | truncate cur t hch hnd hin hr => exact (sess_truncate hs cur t hch hnd hin hr).2.1
  | stats a b n hr =>
    obtain ⟨_, _, _, _, h5, _⟩ := sess_stats hs hr; rw [h5]; exact hcd

/-- the hint names a valid cluster -/
def HintStrict (d : Dev) : Prop := ∀ h, d.fs.fsInfo.next = some h → 2 ≤ h ∧ h ≤ d.fs.totalClusters + 1

theorem hintStrict_step {d d' : Dev} (hs : Sess d) (hh : HintStrict d) (h : Step d d') : HintStrict d' := by
  cases h with
  | alloc prev zero c hp hr =>
    obtain ⟨_, _, hg, _, _, _, hx, h1, h2, _⟩ := sess_alloc hs prev zero hp hr
    intro y hy; rw [hx] at hy; cases hy; rw [hg.totalClusters]; exact ⟨h1, h2⟩
  | free n cs hch hnd hin hr =>
    obtain ⟨_, _, hg, hn, _⟩ := sess_free hs n cs hch hnd hin hr
    intro y hy; rw [hn] at hy; rw [hg.totalClusters]; exact hh y hy
  | truncate cur t hch hnd hin hr =>
    obtain ⟨_, _, hg, hn, _⟩ := sess_truncate hs cur t hch hnd hin hr
    intro y hy; rw [hn] at hy; rw [hg.totalClusters]; exact hh y hy
  | stats a b n hr =>
    obtain ⟨_, _, _, hg, _, _, hn⟩ := sess_stats hs hr
    intro y hy; rw [hn] at hy; rw [hg.totalClusters]; exact hh y hy

theorem hintStrict_reach {d0 d : Dev} (hs : Sess d0) (hh : HintStrict d0) (h : Reach d0 d) : HintStrict d := by
  induction h with
  | refl => exact hh
  | step hr hst ih => exact hintStrict_step (sess_reach hs hr) ih hst

/-- **session_free_count_exact.** From a mounted state with consistent bookkeeping (`Sess d0`: `InfoOk2`, which includes
    "count unknown"; the volume marked dirty or not), along ANY sequence of successful `alloc_cluster(prev, zero)` —
    file growth and directory growth — / `free_cluster_chain` / `truncate_cluster_chain` / `stats` operations (each
    invoked as its callers do):
    * the session facts hold in every state reached;
    * every `stats` answer there is the number of free entries of the image's table AT THAT MOMENT;
    * a final successful `unmount` of a FAT32 volume with dirty FS-info leaves an FS-info sector that deserialises to the
      cached count — if known (it is after any `stats`): exactly that number — and a hint in `[2, total+2]`. -/
theorem session_free_count_exact {d0 d : Dev} (hs0 : Sess d0) (hreach : Reach d0 d) :
    Sess d ∧
    (∀ a b n d', run stats d = (.ok (a, b, n), d') →
      n = countFreeV (imgTable d.fs d.img) d.fs.totalClusters ∧ d'.img = d.img) ∧
    (∀ u d', d.fs.fatType = .fat32 → d.fs.fsInfo.dirty = true →
      (statusOff d.fs + 1 ≤ d.fs.fsInfoSector * d.fs.bps ∨ d.fs.fsInfoSector * d.fs.bps + 512 ≤ statusOff d.fs) →
      (d.fs.fsInfoSector * d.fs.bps + 512 ≤ (fatSliceOf d.fs).beginOff ∨
        (fatSliceOf d.fs).beginOff + (fatSliceOf d.fs).size ≤ d.fs.fsInfoSector * d.fs.bps) →
      run unmount d = (.ok u, d') →
      ∃ fi, FsInfo.deserialize (d'.img.read (d.fs.fsInfoSector * d.fs.bps) 512) = .ok fi ∧
        (∀ n, fi.freeClusterCount = some n → n = countFreeV (imgTable d.fs d'.img) d.fs.totalClusters) ∧
        (∀ h, fi.nextFreeCluster = some h → 2 ≤ h ∧ h ≤ d.fs.totalClusters + 2) ∧
        fi.freeClusterCount = d.fs.fsInfo.free ∧ fi.nextFreeCluster = d.fs.fsInfo.next) := by
  have hs := sess_reach hs0 hreach
  refine ⟨hs, ?_, ?_⟩
  · intro a b n d' hr
    obtain ⟨_, hn, himg, _⟩ := sess_stats hs hr
    exact ⟨by rw [hn, count_tab_eq hs.geo], himg⟩
  · intro u d' hft hdirty hso hdis hr
    obtain ⟨hyes, _⟩ := unmount_fsinfo_img d hs hso hdis hr
    obtain ⟨h1, h2, h3, h4⟩ := hyes ⟨hft, hdirty⟩
    exact ⟨_, h1, fun n hn => by rw [h4]; exact h2 n hn, h3, rfl, rfl⟩

/-- … and if at least one `alloc_cluster` happened in the session, the hint written names a valid cluster,
    `2 ≤ h ≤ total+1` (F13 repaired) -/
theorem session_hint_exact {d0 d1 d : Dev} (hs0 : Sess d0) (prev : Option Nat) (zero : Bool) (c : Nat)
    (hp : ∀ p, prev = some p → 2 ≤ p ∧ p < d0.fs.totalClusters + 2 ∧ tabView d0.fs d0.img p ≠ .free)
    (hr : run (allocClusterFs prev zero) d0 = (.ok c, d1)) (hreach : Reach d1 d) :
    HintStrict d ∧ d.fs.fsInfo.next.isSome = true := by
  obtain ⟨hs1, _, hg, _, _, _, hx, h1, h2, _⟩ := sess_alloc hs0 prev zero hp hr
  have hh1 : HintStrict d1 := by
    intro y hy; rw [hx] at hy; cases hy; rw [hg.totalClusters]; exact ⟨h1, h2⟩
  refine ⟨hintStrict_reach hs1 hh1 hreach, ?_⟩
  have hsome1 : d1.fs.fsInfo.next.isSome = true := by rw [hx]; rfl
  clear hx hh1 h1 h2
  induction hreach with
  | refl => exact hsome1
  | step hr' hst ih =>
    have hsb := sess_reach hs1 hr'
    cases hst with
    | alloc prev zero c hp hr2 =>
      obtain ⟨_, _, _, _, _, _, hx, _⟩ := sess_alloc hsb prev zero hp hr2; rw [hx]; rfl
    | free n cs hch hnd hin hr2 =>
      obtain ⟨_, _, _, hn, _⟩ := sess_free hsb n cs hch hnd hin hr2; rw [hn]; exact ih
    | truncate cur t hch hnd hin hr2 =>
      obtain ⟨_, _, _, hn, _⟩ := sess_truncate hsb cur t hch hnd hin hr2; rw [hn]; exact ih
    | stats a b n hr2 =>
      obtain ⟨_, _, _, _, _, _, hn⟩ := sess_stats hsb hr2; rw [hn]; exact ih

/-! ## the statements are not vacuous -/

namespace Ex

/-- a FAT32 miniature (kept tiny so that the kernel can evaluate runs): 64-byte sectors, two reserved sectors, two
    mirrored FAT copies of one sector (16 entries) at bytes 128 and 192, 6 data clusters from byte 256, the FS-info
    sector at byte 1024, a 2 KiB device; already marked dirty (`devZ` below: not marked), nothing cached -/
def fs32 : FsState :=
  { fatType := .fat32, bps := 64, spc := 1, reserved := 2, fats := 2, spf := 1, totalClusters := 6,
    firstDataSector := 4, fsInfoSector := 16, curDirty := true, bpbDirty := false }

/-- chains 2→3 and 5→7, clusters 4 and 6 free (entry 1 carries reserved top bits) -/
def tab32 : List Nat :=
  [0xF8, 0xFF, 0xFF, 0x0F, 0xFF, 0xFF, 0xFF, 0xFF, 3, 0, 0, 0, 0xFF, 0xFF, 0xFF, 0x0F,
   0, 0, 0, 0, 7, 0, 0, 0, 0, 0, 0, 0xA0, 0xFF, 0xFF, 0xFF, 0x0F]

def img0 : Img := ((Img.empty 2048).write 128 tab32).write 192 tab32
def dev : Dev := { img := img0, fs := fs32 }

/-- `stats` with nothing cached recounts: 2 free clusters; afterwards the count is cached -/
example : (run stats dev).1 = .ok (64, 6, 2) ∧ (run stats dev).2.fs.fsInfo = ⟨some 2, none, true⟩ := by decide +kernel

/-- the device after `stats`, one `alloc_cluster(None)` and `unmount` -/
def devEnd : Dev := (run unmount (run (allocClusterFs none false) (run stats dev).2).2).2

/-- the allocation takes cluster 4; the cache then says 1 free, hint 5 -/
example : (run (allocClusterFs none false) (run stats dev).2).1 = .ok 4 ∧
    (run (allocClusterFs none false) (run stats dev).2).2.fs.fsInfo = ⟨some 1, some 5, true⟩ := by decide +kernel

/-- … which is the number of free entries of the image's table after the allocation (`unmount` does not touch the FAT) -/
example : countFreeV (imgTable fs32 (run (allocClusterFs none false) (run stats dev).2).2.img) 6 = 1 := by decide +kernel

/-- the hypotheses of the theorems hold of the example: layout, session facts, the two placement conditions of the
    FS-info sector -/
theorem geo32 : Geo fs32 dev.img.size :=
  ⟨by decide, by decide, by decide, fun c hc => by simp only [fs32, entOff, entWidth, fatSliceOf] at *; simp; omega, by decide,
   by decide, by decide, by decide, by decide, by decide, by decide⟩

theorem sess32 : Sess dev :=
  ⟨rfl, Img.wf_write _ (Img.wf_write _ (Img.wf_empty _) _ _) _ _, geo32,
   ⟨⟨fun n h => (by cases h), fun n h => (by cases h)⟩, fun n h => (by cases h)⟩⟩

/-- directory growth on a volume NOT yet marked dirty: cluster 4 (bytes 384 … 447) holds stale data -/
def devZ : Dev :=
  { img := img0.write 384 (List.replicate 64 0xAA), fs := { fs32 with curDirty := false } }

theorem geoZ : Geo devZ.fs devZ.img.size :=
  ⟨by decide, by decide, by decide, fun c hc => by simp only [devZ, fs32, entOff, entWidth, fatSliceOf] at *; simp; omega,
   by decide, by decide, by decide, by decide, by decide, by decide, by decide⟩

theorem sessZ : Sess devZ :=
  ⟨rfl, Img.wf_write _ (Img.wf_write _ (Img.wf_write _ (Img.wf_empty _) _ _) _ _) _ _, geoZ,
   ⟨⟨fun n h => (by cases h), fun n h => (by cases h)⟩, fun n h => (by cases h)⟩⟩

/-- `alloc_cluster(None, zero = true)` there takes cluster 4, marks the volume, sets the status byte (0x41) to "dirty",
    zeroes the 64 bytes of cluster 4 and leaves the neighbouring cluster alone; the records, oldest first: the status
    byte, the FAT entry in copy 0, the same in copy 1, the 64 zeros -/
example : (run (allocClusterFs none true) devZ).1 = .ok 4 ∧
    (run (allocClusterFs none true) devZ).2.fs.curDirty = true ∧
    (run (allocClusterFs none true) devZ).2.fs.fsInfo = ⟨none, some 5, true⟩ ∧
    devZ.img.getByte 0x41 = 0 ∧ (run (allocClusterFs none true) devZ).2.img.getByte 0x41 = 1 ∧
    (List.range 64).all (fun i => devZ.img.getByte (384 + i) == 0xAA) = true ∧
    (List.range 64).all (fun i => (run (allocClusterFs none true) devZ).2.img.getByte (384 + i) == 0) = true ∧
    (run (allocClusterFs none true) devZ).2.log.reverse =
      [.write 0x41 [1], .write 144 [0xFF, 0xFF, 0xFF, 0x0F], .write 208 [0xFF, 0xFF, 0xFF, 0x0F],
       .write 384 (List.replicate 64 0)] := by decide +kernel

/-- … and this is a `Step` of a session from `devZ` (`session_free_count_exact` applies to what follows) -/
example : Reach devZ (run (allocClusterFs none true) devZ).2 :=
  .step (.refl _) (.alloc none true 4 (fun p h => (by cases h))
    (Prod.ext (show (run (allocClusterFs none true) devZ).1 = .ok 4 by decide +kernel) rfl))

/-- `free_cluster_chain(2)` (chain 2→3) and `truncate_cluster_chain(5)` (chain 5→7) on the volume not marked dirty: both
    succeed, mark the volume — status record first —, and the free-entry count of the image goes from 2 to 4 resp. 3 -/
example : (run (freeClusterChain 2) devZ).1 = .ok () ∧ (run (freeClusterChain 2) devZ).2.fs.curDirty = true ∧
    countFreeV (imgTable fs32 devZ.img) 6 = 2 ∧
    countFreeV (imgTable fs32 (run (freeClusterChain 2) devZ).2.img) 6 = 4 ∧
    (run (freeClusterChain 2) devZ).2.log.reverse.head? = some (.write 0x41 [1]) ∧
    (run (truncateClusterChain 5) devZ).1 = .ok () ∧ (run (truncateClusterChain 5) devZ).2.fs.curDirty = true ∧
    countFreeV (imgTable fs32 (run (truncateClusterChain 5) devZ).2.img) 6 = 3 ∧
    (run (truncateClusterChain 5) devZ).2.log.reverse.head? = some (.write 0x41 [1]) := by decide +kernel

/-- a full table -/
def devFull : Dev :=
  { img := ((Img.empty 2048).write 128 (List.replicate 32 0xFF)).write 192 (List.replicate 32 0xFF),
    fs := { fs32 with curDirty := false } }

/-- … `alloc_cluster` answers `NotEnoughSpace`, writes nothing and does not mark the volume -/
example : (run (allocClusterFs none true) devFull).1 = .error .noSpace ∧
    (run (allocClusterFs none true) devFull).2.log = [] ∧
    (run (allocClusterFs none true) devFull).2.fs.curDirty = false := by decide +kernel

example : statusOff fs32 + 1 ≤ fs32.fsInfoSector * fs32.bps ∧
    (fatSliceOf fs32).beginOff + (fatSliceOf fs32).size ≤ fs32.fsInfoSector * fs32.bps := by decide

end Ex
end FatVerif.C05img
