import FatVerif.Proofs.SliceModel3
import FatVerif.Proofs.ImgReplay
/-! # C10 (slice level) — where `DiskSlice` and the FAT code write

All statements are about the write log of the model device (`Dev.log`, newest first; `Dev.writesOf` = its write
records). Standing assumption `hdev`: the window of all copies of the slice lies inside the device
(`beginOff + mirrors * size ≤ img.size`) — on the model device a write is accepted partially only at the device end, so
inside the device every `write_all` is ONE device write.

`SliceInv s0 s`: `s` has the window of `s0` and `s.offset ≤ s.size`. `SliceRec s0 off bs`: the record lies in
`[s0.beginOff, s0.beginOff + s0.mirrors * s0.size)`. `StatusRec fs off bs`: the record lies in the status byte
(`FsIoAdapter::write` sets the dirty flag after the first successful write). -/
namespace FatVerif

/-! ## `DiskSlice` -/

/-- **`slice_write_mirrors`**: a successful `DiskSlice::write` returns `n = min bs.length (size - offset)` and, if
    `n > 0`, appends exactly: `bs.take n` at `beginOff + offset + i * size` for `i = 0, …, mirrors-1` (oldest first),
    with — when the slice goes through `FsIoAdapter` and the dirty flag is not set yet — the one status-byte record
    BEFORE the first of them (fix f695ddf: `FsIoAdapter::write` marks the volume dirty before its first write). The offset advances by `n` and stays inside the slice. -/
theorem slice_write_mirrors (s : DiskSlice) (bs : List Nat) (d : Dev) (hle : s.offset ≤ s.size) (hmir : 0 < s.mirrors)
    (hdev : s.beginOff + s.mirrors * s.size ≤ d.img.size) {n : Nat} {s' : DiskSlice} {d' : Dev}
    (hr : run (s.write bs) d = (.ok (n, s'), d')) :
    n = min bs.length (s.size - s.offset) ∧ s' = { s with offset := s.offset + n } ∧ s'.offset ≤ s'.size ∧
    (n = 0 → d' = d) ∧
    (n > 0 → ∃ k, s.mirrors = k + 1 ∧ d'.fs = fsAfter s.viaFs d.fs ∧
      d'.log = mirrorLog (s.beginOff + s.offset) s.size (bs.take n) k 1 ++
        (.write (s.beginOff + s.offset) (bs.take n) :: (statusExtra s.viaFs d.fs ++ d.log))) := by
  unfold DiskSlice.write at hr
  dsimp only at hr
  split at hr
  · rename_i h0
    have hr' : run (Prog.pure ((0 : Nat), s)) d = (.ok (n, s'), d') := hr
    simp only [run] at hr'; cases hr'
    exact ⟨h0.symm, rfl, hle, fun _ => rfl, fun h => by omega⟩
  · rename_i hws
    rcases run_bind_cases hr with ⟨_, d1, h1, h2⟩ | ⟨e, _, he⟩
    · have h2' : run (Prog.pure (min bs.length (s.size - s.offset),
          ({ s with offset := s.offset + min bs.length (s.size - s.offset) } : DiskSlice))) d1 = (.ok (n, s'), d') := h2
      simp only [run] at h2'; cases h2'
      refine ⟨rfl, rfl, by show s.offset + min _ _ ≤ s.size; omega, fun h => absurd h hws, fun _ => ?_⟩
      · have hne : bs.take (min bs.length (s.size - s.offset)) ≠ [] := by
          intro h0
          have := congrArg List.length h0
          simp only [List.length_take, List.length_nil] at this
          omega
        cases hm : s.mirrors with
        | zero => omega
        | succ k =>
          rw [hm] at h1
          have hin : ∀ j, j < k + 1 →
              s.beginOff + s.offset + (0 + j) * s.size + (bs.take (min bs.length (s.size - s.offset))).length ≤ d.img.size := by
            intro j hj
            rw [Nat.zero_add]
            refine mirror_bound (m := s.mirrors) (by omega) ?_ hdev
            simp only [List.length_take]; omega
          have hw := writeMirrors_ok s _ _ hne d.img.size k 0 d _ _ rfl hin h1
          simp only [Nat.zero_mul, Nat.add_zero, Nat.zero_add] at hw
          exact ⟨k, rfl, hw.1, hw.2⟩
    · cases he

/-- the classes of records a slice may produce -/
def SliceOrStatus (s0 : DiskSlice) (fs : FsState) (off : Nat) (bs : List Nat) : Prop :=
  SliceRec s0 off bs ∨ StatusRec fs off bs

theorem slice_strm_gs (s0 : DiskSlice) (fs0 : FsState) (sz : Nat) (hdev : s0.beginOff + s0.mirrors * s0.size ≤ sz) :
    StrmGS fs0 sz (SliceOrStatus s0 fs0) DiskSlice.strm (SliceInv s0) :=
  DiskSlice.strm_gs s0 hdev (fun _ _ h => Or.inl h) (fun _ _ h => Or.inr h)

theorem SliceInv.self {s : DiskSlice} (h : s.offset ≤ s.size) : SliceInv s s := ⟨rfl, rfl, rfl, rfl, h⟩

/-- **`slice_bounds`** (write): whatever the outcome, every record `DiskSlice::write` appends lies inside the window
    of the copies `[beginOff, beginOff + mirrors * size)` or is the status byte; on success the new state has the same
    window and its offset does not exceed the size -/
theorem slice_bounds_write (s : DiskSlice) (bs : List Nat) (d : Dev) (hle : s.offset ≤ s.size)
    (hdev : s.beginOff + s.mirrors * s.size ≤ d.img.size) {r d'} (hr : run (s.write bs) d = (r, d')) :
    LogAll (SliceOrStatus s d.fs) d d' ∧ ∀ v, r = .ok v → SliceInv s v.2 :=
  ((slice_strm_gs s d.fs d.img.size hdev).write s bs (SliceInv.self hle)).out d r d' (SameGeom.refl _) rfl hr |>.2

/-- **`slice_bounds`** (read): no write record at all; offset stays inside -/
theorem slice_bounds_read (s : DiskSlice) (n : Nat) (d : Dev) (hle : s.offset ≤ s.size) {r d'}
    (hr : run (s.read n) d = (r, d')) :
    SameWrites d d' ∧ ∀ v, r = .ok v → SliceInv s v.2 :=
  ⟨noWriteOps_sound (DiskSlice.read_quiet s n).noWriteOps d hr,
   ((DiskSlice.read_gs (fs0 := d.fs) (sz := d.img.size) (C := fun _ _ => True) (SliceInv.self hle) n).out d r d'
      (SameGeom.refl _) rfl hr).2.2⟩

/-- **`slice_bounds`** (seek): no device access; a successful seek lands inside the slice -/
theorem slice_bounds_seek (s : DiskSlice) (p : SeekFrom) (d : Dev) (hle : s.offset ≤ s.size) {r d'}
    (hr : run (s.seek p) d = (r, d')) :
    SameWrites d d' ∧ ∀ v, r = .ok v → SliceInv s v.2 :=
  ⟨noWriteOps_sound (DiskSlice.seek_quiet s p).noWriteOps d hr,
   ((DiskSlice.seek_gs (fs0 := d.fs) (sz := d.img.size) (C := fun _ _ => True) (SliceInv.self hle) p).out d r d'
      (SameGeom.refl _) rfl hr).2.2⟩

/-! ## the FAT slice -/

/-- all FAT copies -/
def FatArea (fs : FsState) (off : Nat) (bs : List Nat) : Prop :=
  fs.reserved * fs.bps ≤ off ∧ off + bs.length ≤ (fs.reserved + fs.fats * fs.spf) * fs.bps

/-- the active FAT copy (mirroring disabled) -/
def ActiveFatCopy (fs : FsState) (off : Nat) (bs : List Nat) : Prop :=
  (fs.reserved + fs.activeFat * fs.spf) * fs.bps ≤ off ∧
  off + bs.length ≤ (fs.reserved + fs.activeFat * fs.spf) * fs.bps + fs.spf * fs.bps

theorem fatSliceOf_geom {a b : FsState} (h : SameGeom a b) (via : Bool) : fatSliceOf b via = fatSliceOf a via := by
  have e1 := h.proj FsState.mirroring
  have e2 := h.proj FsState.reserved
  have e3 := h.proj FsState.bps
  have e4 := h.proj FsState.spf
  have e5 := h.proj FsState.fats
  have e6 := h.proj FsState.activeFat
  simp [fatSliceOf, e1, e2, e3, e4, e5, e6]

theorem fatSlice_mirrored {fs : FsState} (hm : fs.mirroring = true) (via : Bool) :
    fatSliceOf fs via = { beginOff := fs.reserved * fs.bps, size := fs.spf * fs.bps, mirrors := fs.fats, viaFs := via } := by
  simp [fatSliceOf, hm]

theorem fatSlice_single {fs : FsState} (hm : fs.mirroring = false) (via : Bool) :
    fatSliceOf fs via = { beginOff := (fs.reserved + fs.activeFat * fs.spf) * fs.bps, size := fs.spf * fs.bps,
                          mirrors := 1, viaFs := via } := by
  simp [fatSliceOf, hm]

theorem fatArea_eq (fs : FsState) :
    fs.reserved * fs.bps + fs.fats * (fs.spf * fs.bps) = (fs.reserved + fs.fats * fs.spf) * fs.bps := by
  rw [Nat.add_mul, Nat.mul_assoc]

def FatOrStatus (fs : FsState) (off : Nat) (bs : List Nat) : Prop := FatArea fs off bs ∨ StatusRec fs off bs
def ActiveOrStatus (fs : FsState) (off : Nat) (bs : List Nat) : Prop := ActiveFatCopy fs off bs ∨ StatusRec fs off bs

/-- the FAT slice of a mounted file system with mirroring: every record lies in the FAT area or is the status byte -/
theorem fat_strm_gs {fs0 : FsState} {sz : Nat} (hm : fs0.mirroring = true) (via : Bool)
    (hdev : (fs0.reserved + fs0.fats * fs0.spf) * fs0.bps ≤ sz) :
    StrmGS fs0 sz (FatOrStatus fs0) DiskSlice.strm (SliceInv (fatSliceOf fs0 via)) := by
  refine DiskSlice.strm_gs _ ?_ ?_ (fun _ _ h => Or.inr h)
  · rw [fatSlice_mirrored hm]; dsimp only; rw [fatArea_eq]; exact hdev
  · intro off b h
    rw [fatSlice_mirrored hm] at h
    unfold SliceRec at h; dsimp only at h
    rw [fatArea_eq] at h
    exact Or.inl h

/-- … without mirroring: every record lies in the ACTIVE copy or is the status byte -/
theorem fat_strm_gs_single {fs0 : FsState} {sz : Nat} (hm : fs0.mirroring = false) (via : Bool)
    (hdev : (fs0.reserved + fs0.activeFat * fs0.spf) * fs0.bps + fs0.spf * fs0.bps ≤ sz) :
    StrmGS fs0 sz (ActiveOrStatus fs0) DiskSlice.strm (SliceInv (fatSliceOf fs0 via)) := by
  refine DiskSlice.strm_gs _ ?_ ?_ (fun _ _ h => Or.inr h)
  · rw [fatSlice_single hm]; dsimp only; omega
  · intro off b h
    rw [fatSlice_single hm] at h
    unfold SliceRec at h; dsimp only at h
    exact Or.inl ⟨h.1, by omega⟩

/-- **`fat_writes_in_fat_area`**: `set`, `alloc_cluster`, `ClusterIterator::{free,truncate}` and `format_fat` over the
    FAT slice append only records inside the FAT area (or the status byte), whatever their outcome -/
theorem fat_writes_in_fat_area {fs0 : FsState} {sz : Nat} (hm : fs0.mirroring = true) (via : Bool)
    (hdev : (fs0.reserved + fs0.fats * fs0.spf) * fs0.bps ≤ sz) (ft : FatType) {s : DiskSlice}
    (hs : SliceInv (fatSliceOf fs0 via) s) :
    (∀ c v, GS fs0 sz (FatOrStatus fs0) (Table.set DiskSlice.strm ft s c v) (SliceInv (fatSliceOf fs0 via))) ∧
    (∀ prev hint total, GS fs0 sz (FatOrStatus fs0) (Table.allocCluster DiskSlice.strm ft s prev hint total)
      (fun r => SliceInv (fatSliceOf fs0 via) r.2)) ∧
    (∀ fuel cl err, GS fs0 sz (FatOrStatus fs0) (Table.CIter.free DiskSlice.strm ft fuel ⟨s, cl, err⟩)
      (fun r => SliceInv (fatSliceOf fs0 via) r.2.fat)) ∧
    (∀ fuel cl err, GS fs0 sz (FatOrStatus fs0) (Table.CIter.truncate DiskSlice.strm ft fuel ⟨s, cl, err⟩)
      (fun r => SliceInv (fatSliceOf fs0 via) r.2.fat)) ∧
    (∀ media bytesPerFat total, GS fs0 sz (FatOrStatus fs0) (Table.formatFat DiskSlice.strm ft s media bytesPerFat total)
      (SliceInv (fatSliceOf fs0 via))) := by
  have hS := fat_strm_gs hm via hdev
  exact ⟨fun c v => Table.set_gs hS ft s c v hs, fun p h t => Table.allocCluster_gs hS ft s p h t hs,
    fun fuel cl err => Table.CIter.free_gs hS ft fuel _ hs, fun fuel cl err => Table.CIter.truncate_gs hS ft fuel _ hs,
    fun m b t => Table.formatFat_gs hS ft s m b t hs⟩

/-- **`inactive_copies_untouched`**: with mirroring disabled the same operations append only records inside the
    active FAT copy `[(reserved + activeFat*spf)*bps, +spf*bps)` (or the status byte) -/
theorem inactive_copies_untouched {fs0 : FsState} {sz : Nat} (hm : fs0.mirroring = false) (via : Bool)
    (hdev : (fs0.reserved + fs0.activeFat * fs0.spf) * fs0.bps + fs0.spf * fs0.bps ≤ sz) (ft : FatType) {s : DiskSlice}
    (hs : SliceInv (fatSliceOf fs0 via) s) :
    (∀ c v, GS fs0 sz (ActiveOrStatus fs0) (Table.set DiskSlice.strm ft s c v) (SliceInv (fatSliceOf fs0 via))) ∧
    (∀ prev hint total, GS fs0 sz (ActiveOrStatus fs0) (Table.allocCluster DiskSlice.strm ft s prev hint total)
      (fun r => SliceInv (fatSliceOf fs0 via) r.2)) ∧
    (∀ fuel cl err, GS fs0 sz (ActiveOrStatus fs0) (Table.CIter.free DiskSlice.strm ft fuel ⟨s, cl, err⟩)
      (fun r => SliceInv (fatSliceOf fs0 via) r.2.fat)) ∧
    (∀ fuel cl err, GS fs0 sz (ActiveOrStatus fs0) (Table.CIter.truncate DiskSlice.strm ft fuel ⟨s, cl, err⟩)
      (fun r => SliceInv (fatSliceOf fs0 via) r.2.fat)) ∧
    (∀ media bytesPerFat total, GS fs0 sz (ActiveOrStatus fs0) (Table.formatFat DiskSlice.strm ft s media bytesPerFat total)
      (SliceInv (fatSliceOf fs0 via))) := by
  have hS := fat_strm_gs_single hm via hdev
  exact ⟨fun c v => Table.set_gs hS ft s c v hs, fun p h t => Table.allocCluster_gs hS ft s p h t hs,
    fun fuel cl err => Table.CIter.free_gs hS ft fuel _ hs, fun fuel cl err => Table.CIter.truncate_gs hS ft fuel _ hs,
    fun m b t => Table.formatFat_gs hS ft s m b t hs⟩

/-! ## `fat_set_mirrored`: the same bytes at the same relative offset in every copy -/

theorem min_short {a b n : Nat} (hn : n = min a b) (hne : ¬ n = a) : n = b := by omega

theorem min_after_short (x z o : Nat) : min x (z - (o + (z - o))) = 0 := by omega

/-- a successful `write_all` on a slice is ONE `DiskSlice::write` of the whole buffer (a short slice write can only
    happen at the end of the slice, and the next one then returns 0) -/
theorem slice_writeAll_ok (s : DiskSlice) (bs : List Nat) (hne : bs ≠ []) (d : Dev) (hle : s.offset ≤ s.size)
    (hmir : 0 < s.mirrors) (hdev : s.beginOff + s.mirrors * s.size ≤ d.img.size) {s' : DiskSlice} {d' : Dev}
    (hr : run (writeAll DiskSlice.strm s bs) d = (.ok s', d')) :
    s.offset + bs.length ≤ s.size ∧ s' = { s with offset := s.offset + bs.length } ∧
    ∃ k, s.mirrors = k + 1 ∧ d'.fs = fsAfter s.viaFs d.fs ∧
      d'.log = mirrorLog (s.beginOff + s.offset) s.size bs k 1 ++
        (.write (s.beginOff + s.offset) bs :: (statusExtra s.viaFs d.fs ++ d.log)) := by
  have hlen : bs.length ≠ 0 := by
    cases bs with
    | nil => exact absurd rfl hne
    | cons _ _ => simp
  obtain ⟨k0, hk0⟩ : ∃ k, bs.length = k + 1 := ⟨bs.length - 1, by omega⟩
  unfold writeAll at hr
  rw [hk0] at hr
  unfold writeAllLoop at hr
  have hemp : bs.isEmpty = false := by cases bs <;> simp_all
  simp only [hemp, Bool.false_eq_true, if_false] at hr
  rcases run_bind_cases hr with ⟨⟨n, s1⟩, d1, h1, h2⟩ | ⟨e, _, he⟩
  · have h1' : run (s.write bs) d = (.ok (n, s1), d1) := h1
    obtain ⟨hn, hs1, hs1le, _, hpos⟩ := slice_write_mirrors s bs d hle hmir hdev h1'
    dsimp only at h2
    split at h2
    · simp only [run] at h2; cases h2
    · rename_i hn0
      by_cases hfull : n = bs.length
      · rw [hfull, List.drop_length] at h2
        unfold writeAllLoop at h2
        have h2' : run (Prog.pure s1) d1 = (.ok s', d') := h2
        simp only [run] at h2'; cases h2'
        obtain ⟨k, hk, hfs, hlog⟩ := hpos (by omega)
        rw [hfull, List.take_length] at hlog
        exact ⟨by omega, by rw [hs1, hfull], k, hk, hfs, hlog⟩
      · -- a short slice write ends at the end of the slice; the next write returns 0: `WriteZero`
        exfalso
        have hshort : n = s.size - s.offset := min_short hn hfull
        have hrest : (bs.drop n).isEmpty = false := by
          cases hd : bs.drop n with
          | nil =>
            have := congrArg List.length hd
            simp only [List.length_drop, List.length_nil] at this
            omega
          | cons _ _ => rfl
        unfold writeAllLoop at h2
        simp only [hrest, Bool.false_eq_true, if_false] at h2
        rcases run_bind_cases h2 with ⟨⟨n2, s2⟩, d2, h3, h4⟩ | ⟨e, _, he⟩
        · have h3' : run (s1.write (bs.drop n)) d1 = (.ok (n2, s2), d2) := h3
          have hd1 : d1.img.size = d.img.size := run_img_size _ _ _ _ h1
          have := slice_write_mirrors s1 (bs.drop n) d1 hs1le (by rw [hs1]; exact hmir)
            (by rw [hs1, hd1]; exact hdev) h3'
          have hn2 : n2 = 0 := by
            rw [this.1, hs1, hshort]; exact min_after_short _ _ _
          dsimp only at h4
          rw [if_pos hn2] at h4
          simp only [run] at h4; cases h4
        · cases he
  · cases he

theorem run_slice_seek (s : DiskSlice) (p : SeekFrom) (d : Dev) {r d'} (hr : run (s.seek p) d = (r, d')) :
    d' = d ∧ ∀ t s1, r = .ok (t, s1) → s1 = { s with offset := t } ∧ t ≤ s.size := by
  unfold DiskSlice.seek at hr
  dsimp only at hr
  split at hr
  · split at hr
    · simp only [run] at hr; cases hr; exact ⟨rfl, fun _ _ h => by cases h⟩
    · rename_i t _ hle
      have hr' : run (Prog.pure (t, ({ s with offset := t } : DiskSlice))) d = (r, d') := hr
      simp only [run] at hr'; cases hr'
      exact ⟨rfl, fun _ _ h => by cases h; exact ⟨rfl, by omega⟩⟩
  · simp only [run] at hr; cases hr; exact ⟨rfl, fun _ _ h => by cases h⟩

/-- what a mirrored FAT entry update looks like in the write records: `data` at relative offset `rel` of every copy
    (copy 0 first), preceded by the status record `FsIoAdapter` may owe -/
def MirroredWrite (s0 : DiskSlice) (d d' : Dev) : Prop :=
  ∃ (rel : Nat) (data : List Nat) (k : Nat), data ≠ [] ∧ rel + data.length ≤ s0.size ∧ s0.mirrors = k + 1 ∧
    d'.fs = fsAfter s0.viaFs d.fs ∧
    d'.writesOf = mirrorLog (s0.beginOff + rel) s0.size data k 1 ++
      (.write (s0.beginOff + rel) data :: (statusExtra s0.viaFs d.fs ++ d.writesOf))

theorem writesOf_mirror (off size : Nat) (data : List Nat) (k i : Nat) (st : List LogItem)
    (hst : ∀ it ∈ st, it.isWrite = true) (o : Nat) (b : List Nat) (l : List LogItem) :
    (mirrorLog off size data k i ++ (.write o b :: (st ++ l))).filter LogItem.isWrite =
      mirrorLog off size data k i ++ (.write o b :: (st ++ l.filter LogItem.isWrite)) := by
  have h1 : (mirrorLog off size data k i).filter LogItem.isWrite = mirrorLog off size data k i := by
    apply List.filter_eq_self.mpr
    intro it hit
    obtain ⟨j, _, rfl⟩ := (mem_mirrorLog k i it).mp hit
    rfl
  have h2 : st.filter LogItem.isWrite = st := List.filter_eq_self.mpr hst
  simp only [List.filter_append, h1, h2, List.filter_cons, LogItem.isWrite, if_true]

theorem statusExtra_isWrite (via : Bool) (fs : FsState) : ∀ it ∈ statusExtra via fs, it.isWrite = true := by
  intro it hit
  unfold statusExtra at hit
  split at hit
  · simp only [List.mem_singleton] at hit; subst hit; rfl
  · cases hit

/-- seek to a relative offset, then `write_all`: a mirrored write at that offset -/
theorem seek_writeAll_mirrored {s0 s : DiskSlice} (hs : SliceInv s0 s) (hmir : 0 < s0.mirrors) (rel : Nat)
    (data : List Nat) (hne : data ≠ []) (d0 d : Dev) (hw0 : d.writesOf = d0.writesOf) (hfs0 : d.fs = d0.fs)
    (hdev : s0.beginOff + s0.mirrors * s0.size ≤ d.img.size) {s' : DiskSlice} {d' : Dev}
    (k : Nat × DiskSlice → Prog DiskSlice) (hk : ∀ t s1, k (t, s1) = writeAll DiskSlice.strm s1 data)
    (hr : run (Prog.bind (DiskSlice.strm.seek s (.start rel)) k) d = (.ok s', d')) :
    MirroredWrite s0 d0 d' ∧ SliceInv s0 s' := by
  rcases run_bind_cases hr with ⟨⟨t, s1⟩, d1, h1, h2⟩ | ⟨e, _, he⟩
  · rw [hk] at h2
    have h1' : run (s.seek (.start rel)) d = (.ok (t, s1), d1) := h1
    obtain ⟨hd1, hsk⟩ := run_slice_seek s _ d h1'
    rw [hd1] at h2 h1'
    obtain ⟨hs1, ht⟩ := hsk _ _ rfl
    have htrel : t = rel := by
      unfold DiskSlice.seek at h1'
      dsimp only at h1'
      split at h1'
      · simp only [run] at h1'; cases h1'
      · have h1'' : run (Prog.pure (rel, ({ s with offset := rel } : DiskSlice))) d = (.ok (t, s1), d) := h1'
        simp only [run] at h1''; cases h1''; rfl
    subst htrel
    have hs1w : s1.beginOff = s0.beginOff ∧ s1.size = s0.size ∧ s1.mirrors = s0.mirrors ∧ s1.viaFs = s0.viaFs ∧ s1.offset = t := by
      rw [hs1]; exact ⟨hs.beginOff, hs.size, hs.mirrors, hs.viaFs, rfl⟩
    have hw := slice_writeAll_ok s1 data hne d (by rw [hs1w.2.2.2.2, hs1w.2.1, ← hs.size]; exact ht)
      (by rw [hs1w.2.2.1]; exact hmir) (by rw [hs1w.1, hs1w.2.1, hs1w.2.2.1]; exact hdev) h2
    obtain ⟨hfit, hs', k, hk, hfs, hlog⟩ := hw
    rw [hs1w.1, hs1w.2.1, hs1w.2.2.2.1, hs1w.2.2.2.2] at hlog
    rw [hs1w.2.2.2.1] at hfs
    rw [hs1w.2.1, hs1w.2.2.2.2] at hfit
    refine ⟨⟨t, data, k, hne, hfit, by rw [← hs1w.2.2.1]; exact hk, by rw [hfs, hfs0], ?_⟩, ?_⟩
    · unfold Dev.writesOf
      rw [hlog, writesOf_mirror _ _ _ _ _ _ (statusExtra_isWrite _ _), hfs0]
      show _ = _ ++ (_ :: (_ ++ d0.writesOf))
      rw [← hw0]; rfl
    · rw [hs']
      exact ⟨hs1w.1, hs1w.2.1, hs1w.2.2.1, hs1w.2.2.2.1, by show s1.offset + data.length ≤ s1.size; rw [hs1w.2.1, hs1w.2.2.2.2]; exact hfit⟩
  · cases he

/-- **`fat_set_mirrored`**: a successful `Table.set` over a slice with `mirrors = k+1` copies writes the entry bytes
    `data` at the same relative offset `rel` of every copy (and nothing else, except the status byte `FsIoAdapter` may
    owe): the write records added are exactly those of `MirroredWrite`. For the FAT slice of a mounted file system with
    mirroring, `s0 = fatSliceOf fs`: `beginOff = reserved*bps`, `size = spf*bps`, `mirrors = fats`. -/
theorem fat_set_mirrored {s0 s : DiskSlice} (hs : SliceInv s0 s) (hmir : 0 < s0.mirrors) (ft : FatType) (c : Nat)
    (v : FatValue) (d : Dev) (hdev : s0.beginOff + s0.mirrors * s0.size ≤ d.img.size) {s' : DiskSlice} {d' : Dev}
    (hr : run (Table.set DiskSlice.strm ft s c v) d = (.ok s', d')) :
    MirroredWrite s0 d d' ∧ SliceInv s0 s' := by
  have hS := slice_strm_gs s0 d.fs d.img.size hdev
  have hq := DiskSlice.strm_quiet
  cases ft with
  | fat16 =>
    unfold Table.set at hr
    dsimp only at hr
    exact seek_writeAll_mirrored hs hmir _ (bytesLe16 _) (by simp [bytesLe16]) d d rfl rfl hdev _
      (fun _ _ => rfl) hr
  | fat12 =>
    unfold Table.set at hr
    dsimp only at hr
    rcases run_bind_cases hr with ⟨⟨t, s1⟩, d1, h1, h2⟩ | ⟨e, _, he⟩
    · have h1' : run (s.seek (.start (c + c / 2))) d = (.ok (t, s1), d1) := h1
      obtain ⟨hd1, _⟩ := run_slice_seek s _ d h1'
      have hs1 : SliceInv s0 s1 := ((DiskSlice.seek_gs (fs0 := d.fs) (sz := d.img.size) (C := fun _ _ => True) hs _).out
        d _ _ (SameGeom.refl _) rfl h1').2.2 _ rfl
      rw [hd1] at h2
      dsimp only at h2
      rcases run_bind_cases h2 with ⟨⟨old, s2⟩, d2, h3, h4⟩ | ⟨e, _, he⟩
      · have hqr := readU16_quiet DiskSlice.strm hq s1
        have hsw := noWriteOps_sound hqr.noWriteOps d h3
        have hfs := quietOps_fs hqr d h3
        have hs2 : SliceInv s0 s2 := ((readU16_gs hS s1 hs1).out d _ _ (SameGeom.refl _) rfl h3).2.2 _ rfl
        dsimp only at h4
        exact seek_writeAll_mirrored hs2 hmir _ (bytesLe16 _) (by simp [bytesLe16]) d d2 hsw.2 hfs
          (by rw [run_img_size _ _ _ _ h3]; exact hdev) _ (fun _ _ => rfl) h4
      · cases he
    · cases he
  | fat32 =>
    unfold Table.set at hr
    dsimp only at hr
    rcases run_bind_cases hr with ⟨⟨old, s2⟩, d2, h3, h4⟩ | ⟨e, _, he⟩
    · have hqr := Table.getRaw_quiet DiskSlice.strm hq .fat32 s c
      have hsw := noWriteOps_sound hqr.noWriteOps d h3
      have hfs := quietOps_fs hqr d h3
      have hs2 : SliceInv s0 s2 := ((Table.getRaw_gs hS .fat32 s c hs).out d _ _ (SameGeom.refl _) rfl h3).2.2 _ rfl
      dsimp only at h4
      split at h4
      · simp only [run] at h4; cases h4
      · exact seek_writeAll_mirrored hs2 hmir _ (bytesLe32 _) (by simp [bytesLe32]) d d2 hsw.2 hfs
          (by rw [run_img_size _ _ _ _ h3]; exact hdev) _ (fun _ _ => rfl) h4
    · cases he

/-- **`fat_set_marks_dirty_first`** (fix f695ddf): a successful `Table.set` through `FsIoAdapter` on a volume whose
    dirty flag is not set yet: the status-byte record PRECEDES the entry bytes of copy 0 (before the fix it followed
    them), and the flag is set afterwards -/
theorem fat_set_marks_dirty_first {s0 s : DiskSlice} (hs : SliceInv s0 s) (hv : s0.viaFs = true) (hmir : 0 < s0.mirrors)
    (ft : FatType) (c : Nat) (v : FatValue) (d : Dev) (hdev : s0.beginOff + s0.mirrors * s0.size ≤ d.img.size)
    (hclean : d.fs.curDirty = false) {s' : DiskSlice} {d' : Dev}
    (hr : run (Table.set DiskSlice.strm ft s c v) d = (.ok s', d')) :
    d'.fs.curDirty = true ∧
    ∃ (rel : Nat) (data : List Nat) (k : Nat), data ≠ [] ∧ rel + data.length ≤ s0.size ∧ s0.mirrors = k + 1 ∧
      d'.writesOf = mirrorLog (s0.beginOff + rel) s0.size data k 1 ++
        (.write (s0.beginOff + rel) data :: statusWrite d.fs true :: d.writesOf) := by
  obtain ⟨⟨rel, data, k, hne, hfit, hk, hfs, hw⟩, _⟩ := fat_set_mirrored hs hmir ft c v d hdev hr
  rw [hv] at hfs hw
  refine ⟨by rw [hfs]; exact fsAfter_dirty _, rel, data, k, hne, hfit, hk, ?_⟩
  rw [hw, statusExtra_clean hclean]; rfl

/-! ## copies stay equal

The effect of write records on the device bytes, as a function `offset ↦ byte`: `replay g items` (Proofs/ImgReplay.lean)
applies the records `items` (newest first) to `g`. `run_img_eq_replay` (same file, from the `Img.write`/`Img.getByte`
lemmas of Proofs/ImgLemmas.lean) says that the image after any run IS the replay of the appended records on the image
before; so the log-level statements below transfer to the sparse image: `fat_copies_equal_img`. -/

/-- `M` copies of `Z` bytes from `B` on hold the same bytes -/
def CopiesEqual (B Z M : Nat) (g : Nat → Nat) : Prop := ∀ i, i < M → ∀ x, x < Z → g (B + i * Z + x) = g (B + x)

theorem cover_iff {B Z rel len i j x : Nat} (hx : x < Z) (hfit : rel + len ≤ Z) :
    (B + rel + j * Z ≤ B + i * Z + x ∧ B + i * Z + x < B + rel + j * Z + len) ↔ (i = j ∧ rel ≤ x ∧ x < rel + len) := by
  rcases Nat.lt_trichotomy i j with h | h | h
  · have := Nat.mul_le_mul_right Z (show i + 1 ≤ j from h)
    rw [Nat.add_mul, Nat.one_mul] at this
    constructor
    · intro h1; omega
    · intro h1; omega
  · subst h; constructor <;> intro h1 <;> omega
  · have := Nat.mul_le_mul_right Z (show j + 1 ≤ i from h)
    rw [Nat.add_mul, Nat.one_mul] at this
    constructor
    · intro h1; omega
    · intro h1; omega

theorem replay_mirrorLog (B Z rel : Nat) (data : List Nat) (hfit : rel + data.length ≤ Z) :
    ∀ (m i0 : Nat) (h : Nat → Nat) (i x : Nat), x < Z →
      replay h (mirrorLog (B + rel) Z data m i0) (B + i * Z + x) =
        if (i0 ≤ i ∧ i < i0 + m) ∧ rel ≤ x ∧ x < rel + data.length then data.getD (x - rel) 0 else h (B + i * Z + x) := by
  intro m
  induction m with
  | zero =>
    intro i0 h i x _
    simp only [mirrorLog, replay]
    rw [if_neg]
    rintro ⟨⟨h1, h2⟩, _⟩; omega
  | succ m ih =>
    intro i0 h i x hx
    simp only [mirrorLog, replay_append, ih _ _ i x hx, replay, applyRec]
    have hc := cover_iff (B := B) (j := i0) (i := i) hx hfit
    by_cases h1 : (i0 + 1 ≤ i ∧ i < i0 + 1 + m) ∧ rel ≤ x ∧ x < rel + data.length
    · rw [if_pos h1, if_pos ⟨by omega, h1.2⟩]
    · rw [if_neg h1]
      by_cases h2 : i = i0 ∧ rel ≤ x ∧ x < rel + data.length
      · rw [if_pos (hc.mpr h2), if_pos ⟨by omega, h2.2⟩]
        obtain ⟨rfl, _, _⟩ := h2
        have hidx : B + i * Z + x - (B + rel + i * Z) = x - rel := by omega
        rw [hidx]
      · rw [if_neg (fun h3 => h2 (hc.mp h3)), if_neg]
        rintro ⟨⟨h4, h5⟩, h6⟩
        by_cases h7 : i = i0
        · exact h2 ⟨h7, h6⟩
        · exact h1 ⟨⟨by omega, by omega⟩, h6⟩

theorem replay_outside (g : Nat → Nat) (p : Nat) : ∀ (l : List LogItem),
    (∀ off bs, LogItem.write off bs ∈ l → ¬ (off ≤ p ∧ p < off + bs.length)) → replay g l p = g p := by
  intro l
  induction l with
  | nil => intro _; rfl
  | cons it l ih =>
    intro h
    cases it with
    | flush => simp only [replay, applyRec]; exact ih (fun off bs hm => h off bs (List.mem_cons_of_mem _ hm))
    | write off bs =>
      simp only [replay, applyRec]
      rw [if_neg (h off bs (List.mem_cons_self ..))]
      exact ih (fun off' bs' hm => h off' bs' (List.mem_cons_of_mem _ hm))

/-- **`copies_equal_preserved`** (log-replay level): applying the records of a mirrored FAT update
    (`MirroredWrite`: `data` at relative offset `rel` of each of the `k+1` copies, after records `st` that do not touch
    the copies — the status byte) to bytes whose copies are equal leaves the copies equal -/
theorem copies_equal_preserved (B Z rel k : Nat) (data : List Nat) (hfit : rel + data.length ≤ Z) (st : List LogItem)
    (hst : ∀ off bs, LogItem.write off bs ∈ st → off + bs.length ≤ B ∨ B + (k + 1) * Z ≤ off)
    (g : Nat → Nat) (hg : CopiesEqual B Z (k + 1) g) :
    CopiesEqual B Z (k + 1) (replay g (mirrorLog (B + rel) Z data k 1 ++ (.write (B + rel) data :: st))) := by
  have value : ∀ i, i < k + 1 → ∀ x, x < Z →
      replay g (mirrorLog (B + rel) Z data k 1 ++ (.write (B + rel) data :: st)) (B + i * Z + x) =
        if rel ≤ x ∧ x < rel + data.length then data.getD (x - rel) 0 else g (B + i * Z + x) := by
    intro i hi x hx
    rw [replay_append, replay_mirrorLog B Z rel data hfit k 1 _ i x hx]
    have hout : replay g st (B + i * Z + x) = g (B + i * Z + x) := by
      apply replay_outside
      intro off bs hm
      have := Nat.mul_le_mul_right Z (show i + 1 ≤ k + 1 from hi)
      rw [Nat.add_mul, Nat.one_mul] at this
      rcases hst off bs hm with h | h <;> omega
    simp only [replay, applyRec]
    rw [hout]
    have hc := cover_iff (B := B) (j := 0) (i := i) hx hfit
    simp only [Nat.zero_mul, Nat.add_zero] at hc
    by_cases hin : rel ≤ x ∧ x < rel + data.length
    · rw [if_pos hin]
      by_cases h1 : 1 ≤ i ∧ i < 1 + k
      · rw [if_pos ⟨h1, hin⟩]
      · rw [if_neg (fun h => h1 h.1)]
        have hi0 : i = 0 := by omega
        rw [if_pos (hc.mpr ⟨hi0, hin⟩)]
        subst hi0
        have hidx : B + 0 * Z + x - (B + rel) = x - rel := by omega
        rw [hidx]
    · rw [if_neg hin, if_neg (fun h => hin h.2), if_neg (fun h => hin (hc.mp h).2)]
  intro i hi x hx
  rw [value i hi x hx]
  have h0 := value 0 (by omega) x hx
  simp only [Nat.zero_mul, Nat.add_zero] at h0
  rw [h0, hg i hi x hx]

/-- … instantiated to `fat_set_mirrored`: if the status byte lies before the FAT window, a successful `Table.set`
    keeps the FAT copies equal (on the replay of the write records it appended) -/
theorem mirrorLog_map_norm (off Z : Nat) (data : List Nat) : ∀ (k i : Nat),
    (mirrorLog off Z data k i).map LogItem.norm = mirrorLog off Z (data.map (· % 256)) k i := by
  intro k
  induction k with
  | zero => intro i; rfl
  | succ k ih => intro i; simp only [mirrorLog, List.map_append, ih, List.map, LogItem.norm]

theorem fat_set_copies_equal {s0 : DiskSlice} {d d' : Dev} (h : MirroredWrite s0 d d')
    (hstat : statusOff d.fs + 1 ≤ s0.beginOff) (g : Nat → Nat) (hg : CopiesEqual s0.beginOff s0.size s0.mirrors g) :
    ∃ items, d'.writesOf = items ++ d.writesOf ∧ CopiesEqual s0.beginOff s0.size s0.mirrors (replay g items) ∧
      CopiesEqual s0.beginOff s0.size s0.mirrors (replay g (items.map LogItem.norm)) := by
  obtain ⟨rel, data, k, _, hfit, hk, _, hw⟩ := h
  have hst : ∀ off bs, LogItem.write off bs ∈ statusExtra s0.viaFs d.fs → off + bs.length ≤ s0.beginOff ∨
      s0.beginOff + (k + 1) * s0.size ≤ off := by
    intro off bs hm
    left
    unfold statusExtra at hm
    split at hm
    · simp only [List.mem_singleton, statusWrite, LogItem.write.injEq] at hm
      obtain ⟨rfl, rfl⟩ := hm
      simp only [List.length_singleton]; exact hstat
    · cases hm
  refine ⟨mirrorLog (s0.beginOff + rel) s0.size data k 1 ++ (.write (s0.beginOff + rel) data :: statusExtra s0.viaFs d.fs),
    by rw [hw]; simp, ?_, ?_⟩
  · rw [hk] at hg ⊢
    exact copies_equal_preserved _ _ _ _ _ hfit _ hst g hg
  · rw [hk] at hg ⊢
    rw [List.map_append, List.map_cons, mirrorLog_map_norm]
    refine copies_equal_preserved _ _ _ _ (data.map (· % 256)) (by rw [List.length_map]; exact hfit)
      ((statusExtra s0.viaFs d.fs).map LogItem.norm) ?_ g hg
    intro off bs hm
    obtain ⟨it, hit, hn⟩ := List.mem_map.mp hm
    cases it with
    | flush => cases hn
    | write o b =>
      simp only [LogItem.norm, LogItem.write.injEq] at hn
      obtain ⟨rfl, rfl⟩ := hn
      rw [List.length_map]
      exact hst _ _ hit

/-! ## lifting: successful FAT operations are sequences of mirrored writes -/

/-- a step that changes neither the write records nor the mounted state -/
def QuietStep (d d' : Dev) : Prop := d'.writesOf = d.writesOf ∧ d'.fs = d.fs

/-- a sequence of quiet steps and mirrored writes to the copies of `s0` -/
inductive MirroredSeq (s0 : DiskSlice) : Dev → Dev → Prop where
  | refl (d : Dev) : MirroredSeq s0 d d
  | quiet {d d' d'' : Dev} : QuietStep d d' → MirroredSeq s0 d' d'' → MirroredSeq s0 d d''
  | write {d d' d'' : Dev} : MirroredWrite s0 d d' → MirroredSeq s0 d' d'' → MirroredSeq s0 d d''

theorem MirroredSeq.trans {s0 : DiskSlice} {a b c : Dev} (h1 : MirroredSeq s0 a b) (h2 : MirroredSeq s0 b c) :
    MirroredSeq s0 a c := by
  induction h1 with
  | refl => exact h2
  | quiet hq _ ih => exact .quiet hq (ih h2)
  | write hw _ ih => exact .write hw (ih h2)

theorem MirroredSeq.one {s0 : DiskSlice} {a b : Dev} (h : MirroredWrite s0 a b) : MirroredSeq s0 a b :=
  .write h (.refl _)

theorem MirroredSeq.oneQuiet {s0 : DiskSlice} {a b : Dev} (h : QuietStep a b) : MirroredSeq s0 a b :=
  .quiet h (.refl _)

/-- success-only judgement: a successful run of `p` on a device of size `sz` is a `MirroredSeq` -/
structure MS (s0 : DiskSlice) (sz : Nat) {α} (p : Prog α) (Post : α → Prop) : Prop where
  out : ∀ (d : Dev) (v : α) (d' : Dev), d.img.size = sz → run p d = (.ok v, d') → MirroredSeq s0 d d' ∧ Post v

section rules
variable {s0 : DiskSlice} {sz : Nat}

theorem MS.pure {α} {Post : α → Prop} {a : α} (h : Post a) : MS s0 sz (Prog.pure a) Post :=
  ⟨fun d v d' _ hr => by simp only [run] at hr; cases hr; exact ⟨.refl _, h⟩⟩

theorem MS.fail {α} {Post : α → Prop} (e : Err) : MS s0 sz (Prog.fail (α := α) e) Post :=
  ⟨fun d v d' _ hr => by simp only [run] at hr; cases hr⟩

theorem MS.bind {α β} {p : Prog β} {k : β → Prog α} {Q : β → Prop} {Post : α → Prop}
    (hp : MS s0 sz p Q) (hk : ∀ b, Q b → MS s0 sz (k b) Post) : MS s0 sz (Prog.bind p k) Post := by
  refine ⟨fun d v d' hs hr => ?_⟩
  rcases run_bind_cases hr with ⟨b, d1, h1, h2⟩ | ⟨e, _, he⟩
  · have a1 := hp.out d b d1 hs h1
    have a2 := (hk b a1.2).out d1 v d' ((run_img_size _ _ _ _ h1).trans hs) h2
    exact ⟨a1.1.trans a2.1, a2.2⟩
  · cases he

/-- a program without `write`/`setFs`, with a postcondition known from `GS` -/
theorem MS.of_quiet {α} {p : Prog α} {Post : α → Prop} (hq : QuietOps p)
    (hp : ∀ fs0, GS fs0 sz (fun _ _ => True) p Post) : MS s0 sz p Post :=
  ⟨fun d v d' hs hr =>
    ⟨.oneQuiet ⟨(noWriteOps_sound hq.noWriteOps d hr).2, quietOps_fs hq d hr⟩,
     ((hp d.fs).out d _ d' (SameGeom.refl _) hs hr).2.2 v rfl⟩⟩

theorem MS.weaken {α} {p : Prog α} {Q Post : α → Prop} (h : MS s0 sz p Q) (hq : ∀ v, Q v → Post v) : MS s0 sz p Post :=
  ⟨fun d v d' hs hr => ⟨(h.out d v d' hs hr).1, hq v (h.out d v d' hs hr).2⟩⟩

end rules

/-! ### quiet parts of `table.rs` not needed before -/

namespace Table
section generic
variable {σ : Type} (S : Strm σ) (hS : StrmQuiet S)
include hS

theorem findFree12Loop_quiet : ∀ fuel s c endC packed, QuietOps (findFree12Loop S fuel s c endC packed) := by
  intro fuel
  induction fuel with
  | zero => intros; unfold findFree12Loop; quiet
  | succ k ih => intros; unfold findFree12Loop; quiet [readU16_quiet, readU8_quiet]

theorem findFreeLoop_quiet (ft) : ∀ fuel s c endC, QuietOps (findFreeLoop S ft fuel s c endC) := by
  intro fuel
  induction fuel with
  | zero => intros; unfold findFreeLoop; quiet
  | succ k ih => intros; unfold findFreeLoop; quiet [readU16_quiet, readU32_quiet]

theorem findFree_quiet (ft s start endC) : QuietOps (findFree S ft s start endC) := by
  unfold findFree; quiet [readU16_quiet, findFree12Loop_quiet, findFreeLoop_quiet]

end generic
end Table

/-! ### the FAT operations over a slice -/

section fat
variable {s0 : DiskSlice} {sz : Nat} (hmir : 0 < s0.mirrors) (hdev : s0.beginOff + s0.mirrors * s0.size ≤ sz)
include hmir hdev

omit hmir in
theorem trivStrm_gs (fs0 : FsState) : StrmGS fs0 sz (fun _ _ => True) DiskSlice.strm (SliceInv s0) :=
  DiskSlice.strm_gs s0 hdev (fun _ _ _ => trivial) (fun _ _ _ => trivial)

theorem Table.set_ms (ft : FatType) {s : DiskSlice} (hs : SliceInv s0 s) (c : Nat) (v : FatValue) :
    MS s0 sz (Table.set DiskSlice.strm ft s c v) (SliceInv s0) :=
  ⟨fun d s' d' hsz hr => by
    have := fat_set_mirrored hs hmir ft c v d (by rw [hsz]; exact hdev) hr
    exact ⟨.one this.1, this.2⟩⟩

/-- `write_all` at the current offset of the slice -/
theorem writeAll_ms {s : DiskSlice} (hs : SliceInv s0 s) (bs : List Nat) (hne : bs ≠ []) :
    MS s0 sz (writeAll DiskSlice.strm s bs) (SliceInv s0) := by
  refine ⟨fun d s' d' hsz hr => ?_⟩
  have hw := slice_writeAll_ok s bs hne d hs.le (by rw [hs.mirrors]; exact hmir)
    (by rw [hs.beginOff, hs.mirrors, hs.size, hsz]; exact hdev) hr
  obtain ⟨hfit, hs', k, hk, hfs, hlog⟩ := hw
  rw [hs.beginOff, hs.size, hs.viaFs] at hlog
  rw [hs.viaFs] at hfs
  refine ⟨.one ⟨s.offset, bs, k, hne, by rw [← hs.size]; exact hfit, by rw [← hs.mirrors]; exact hk, hfs, ?_⟩, ?_⟩
  · unfold Dev.writesOf
    rw [hlog, writesOf_mirror _ _ _ _ _ _ (statusExtra_isWrite _ _)]
  · rw [hs']
    exact ⟨hs.beginOff, hs.size, hs.mirrors, hs.viaFs, by show s.offset + bs.length ≤ s.size; exact hfit⟩

theorem Table.allocCluster_ms (ft : FatType) {s : DiskSlice} (hs : SliceInv s0 s) (prev hint : Option Nat) (total : Nat) :
    MS s0 sz (Table.allocCluster DiskSlice.strm ft s prev hint total) (fun r => SliceInv s0 r.2) := by
  unfold Table.allocCluster
  dsimp only
  refine MS.bind (Q := fun r => SliceInv s0 r.2) (MS.of_quiet ?_ (fun fs0 => ?_)) ?_
  · refine QuietOps.tryCatch _ _ (Table.findFree_quiet _ DiskSlice.strm_quiet _ _ _ _) (fun e => ?_)
    quiet [Table.findFree_quiet, DiskSlice.strm_quiet]
  · have hS := trivStrm_gs hdev fs0
    refine GS.tryCatch (Table.findFree_gs hS _ _ _ _ hs) (fun e => ?_)
    gs [Table.findFree_gs hS]
  · rintro ⟨newC, s1⟩ hs1
    dsimp only
    refine MS.bind (Table.set_ms hmir hdev ft hs1 _ _) (fun s2 hs2 => ?_)
    refine MS.bind (Q := SliceInv s0) ?_ (fun s3 hs3 => MS.pure hs3)
    split
    · exact Table.set_ms hmir hdev ft hs2 _ _
    · exact MS.pure hs2

omit hmir in
theorem Table.CIter.next_ms (ft : FatType) (it : Table.CIter DiskSlice) (hs : SliceInv s0 it.fat) :
    MS s0 sz (Table.CIter.next DiskSlice.strm ft it) (fun r => SliceInv s0 r.2.fat) :=
  MS.of_quiet (Table.CIter.next_quiet _ DiskSlice.strm_quiet ft it)
    (fun fs0 => Table.CIter.next_gs (trivStrm_gs hdev fs0) ft it hs)

theorem Table.CIter.freeLoop_ms (ft : FatType) : ∀ fuel (it : Table.CIter DiskSlice) num, SliceInv s0 it.fat →
    MS s0 sz (Table.CIter.freeLoop DiskSlice.strm ft fuel it num) (fun r => SliceInv s0 r.2.fat) := by
  intro fuel
  induction fuel with
  | zero => intros; unfold Table.CIter.freeLoop; exact MS.fail _
  | succ k ih =>
    intro it num hs
    unfold Table.CIter.freeLoop
    split
    · exact MS.pure hs
    · refine MS.bind (Table.CIter.next_ms hdev ft it hs) ?_
      rintro ⟨r, it1⟩ hit1
      dsimp only
      split
      · exact MS.fail _
      · exact MS.bind (Table.set_ms hmir hdev ft hit1 _ _) (fun fat hfat => ih _ _ hfat)

theorem Table.CIter.free_ms (ft : FatType) (fuel : Nat) (it : Table.CIter DiskSlice) (hs : SliceInv s0 it.fat) :
    MS s0 sz (Table.CIter.free DiskSlice.strm ft fuel it) (fun r => SliceInv s0 r.2.fat) :=
  Table.CIter.freeLoop_ms hmir hdev ft _ _ _ hs

theorem Table.CIter.truncate_ms (ft : FatType) (fuel : Nat) (it : Table.CIter DiskSlice) (hs : SliceInv s0 it.fat) :
    MS s0 sz (Table.CIter.truncate DiskSlice.strm ft fuel it) (fun r => SliceInv s0 r.2.fat) := by
  unfold Table.CIter.truncate
  split
  · exact MS.pure hs
  · refine MS.bind (Table.CIter.next_ms hdev ft it hs) ?_
    rintro ⟨r, it1⟩ hit1
    dsimp only
    split
    · exact MS.fail _
    · exact MS.bind (Table.set_ms hmir hdev ft hit1 _ _) (fun fat hfat => Table.CIter.free_ms hmir hdev ft _ _ hfat)

theorem Table.setRange_ms (ft : FatType) (v : FatValue) : ∀ k s c, SliceInv s0 s →
    MS s0 sz (Table.setRange DiskSlice.strm ft v k s c) (SliceInv s0) := by
  intro k
  induction k with
  | zero => intro s c hs; unfold Table.setRange; exact MS.pure hs
  | succ k ih =>
    intro s c hs; unfold Table.setRange
    exact MS.bind (Table.set_ms hmir hdev ft hs _ _) (fun s1 hs1 => ih _ _ hs1)

theorem Table.formatFat_ms (ft : FatType) {s : DiskSlice} (hs : SliceInv s0 s) (media bytesPerFat total : Nat) :
    MS s0 sz (Table.formatFat DiskSlice.strm ft s media bytesPerFat total) (SliceInv s0) := by
  unfold Table.formatFat
  refine MS.bind (Q := SliceInv s0) ?_ (fun s1 hs1 => ?_)
  · split
    · exact MS.bind (writeAll_ms hmir hdev hs _ (by simp)) (fun s1 hs1 => writeAll_ms hmir hdev hs1 _ (by simp [bytesLe16]))
    · exact MS.bind (writeAll_ms hmir hdev hs _ (by simp [bytesLe16])) (fun s1 hs1 => writeAll_ms hmir hdev hs1 _ (by simp [bytesLe16]))
    · exact MS.bind (writeAll_ms hmir hdev hs _ (by simp [bytesLe32])) (fun s1 hs1 => writeAll_ms hmir hdev hs1 _ (by simp [bytesLe32]))
  · dsimp only
    refine MS.bind (Table.setRange_ms hmir hdev ft _ _ _ _ hs1) (fun s2 hs2 => ?_)
    split
    · exact Table.setRange_ms hmir hdev ft _ _ _ _ hs2
    · exact MS.pure hs2

end fat


/-- **`fat_ops_mirrored`**: a successful `alloc_cluster`, `ClusterIterator::free`/`truncate` or `format_fat` over a slice
    with `mirrors ≥ 1` copies inside the device is a sequence of quiet steps (reads) and mirrored writes: every FAT byte
    it writes goes, identically and at the same relative offset, to every copy (`MirroredSeq`). With
    `s0 = fatSliceOf fs` and mirroring on these are the `fs.fats` FAT copies; with mirroring off `mirrors = 1` and the one
    copy is the active FAT (`inactive_copies_untouched`). -/
theorem fat_ops_mirrored {s0 : DiskSlice} {sz : Nat} (hmir : 0 < s0.mirrors)
    (hdev : s0.beginOff + s0.mirrors * s0.size ≤ sz) (ft : FatType) {s : DiskSlice} (hs : SliceInv s0 s) :
    (∀ prev hint total, MS s0 sz (Table.allocCluster DiskSlice.strm ft s prev hint total) (fun r => SliceInv s0 r.2)) ∧
    (∀ fuel cl err, MS s0 sz (Table.CIter.free DiskSlice.strm ft fuel ⟨s, cl, err⟩) (fun r => SliceInv s0 r.2.fat)) ∧
    (∀ fuel cl err, MS s0 sz (Table.CIter.truncate DiskSlice.strm ft fuel ⟨s, cl, err⟩) (fun r => SliceInv s0 r.2.fat)) ∧
    (∀ media bytesPerFat total, MS s0 sz (Table.formatFat DiskSlice.strm ft s media bytesPerFat total) (SliceInv s0)) :=
  ⟨fun p h t => Table.allocCluster_ms hmir hdev ft hs p h t, fun fuel _ _ => Table.CIter.free_ms hmir hdev ft fuel _ hs,
   fun fuel _ _ => Table.CIter.truncate_ms hmir hdev ft fuel _ hs,
   fun m b t => Table.formatFat_ms hmir hdev ft hs m b t⟩

theorem statusOff_fsAfter (via : Bool) (fs : FsState) : statusOff (fsAfter via fs) = statusOff fs :=
  statusOff_geom (fsAfter_geom via fs)

/-- **`copies_equal_preserved`** along a `MirroredSeq` (log-replay level): if the status byte lies before the window of
    the copies, the copies stay equal -/
theorem mirroredSeq_copies_equal {s0 : DiskSlice} {d d' : Dev} (h : MirroredSeq s0 d d')
    (hstat : statusOff d.fs + 1 ≤ s0.beginOff) :
    ∀ (g : Nat → Nat), CopiesEqual s0.beginOff s0.size s0.mirrors g →
      ∃ items, d'.writesOf = items ++ d.writesOf ∧ CopiesEqual s0.beginOff s0.size s0.mirrors (replay g items) := by
  induction h with
  | refl d => intro g hg; exact ⟨[], rfl, hg⟩
  | quiet hq _ ih =>
    intro g hg
    obtain ⟨items, h1, h2⟩ := ih (by rw [hq.2]; exact hstat) g hg
    exact ⟨items, by rw [h1, hq.1], h2⟩
  | write hw _ ih =>
    intro g hg
    obtain ⟨i1, e1, c1, _⟩ := fat_set_copies_equal hw hstat g hg
    obtain ⟨_, _, _, _, _, _, hfs, _⟩ := hw
    obtain ⟨i2, e2, c2⟩ := ih (by rw [hfs, statusOff_fsAfter]; exact hstat) (replay g i1) c1
    exact ⟨i2 ++ i1, by rw [e2, e1, List.append_assoc], by rw [replay_append]; exact c2⟩

/-- … with the bytes taken modulo 256, as the device stores them -/
theorem mirroredSeq_copies_equal_norm {s0 : DiskSlice} {d d' : Dev} (h : MirroredSeq s0 d d')
    (hstat : statusOff d.fs + 1 ≤ s0.beginOff) :
    ∀ (g : Nat → Nat), CopiesEqual s0.beginOff s0.size s0.mirrors g →
      ∃ items, d'.writesOf = items ++ d.writesOf ∧
        CopiesEqual s0.beginOff s0.size s0.mirrors (replay g (items.map LogItem.norm)) := by
  induction h with
  | refl d => intro g hg; exact ⟨[], rfl, hg⟩
  | quiet hq _ ih =>
    intro g hg
    obtain ⟨items, h1, h2⟩ := ih (by rw [hq.2]; exact hstat) g hg
    exact ⟨items, by rw [h1, hq.1], h2⟩
  | write hw _ ih =>
    intro g hg
    obtain ⟨i1, e1, _, c1⟩ := fat_set_copies_equal hw hstat g hg
    obtain ⟨_, _, _, _, _, _, hfs, _⟩ := hw
    obtain ⟨i2, e2, c2⟩ := ih (by rw [hfs, statusOff_fsAfter]; exact hstat) (replay g (i1.map LogItem.norm)) c1
    exact ⟨i2 ++ i1, by rw [e2, e1, List.append_assoc], by rw [List.map_append, replay_append]; exact c2⟩

theorem filter_map_norm (l : List LogItem) :
    (l.filter LogItem.isWrite).map LogItem.norm = (l.map LogItem.norm).filter LogItem.isWrite := by
  induction l with
  | nil => rfl
  | cons it l ih =>
    cases it with
    | flush => simp only [List.filter_cons, List.map_cons, LogItem.norm, LogItem.isWrite, Bool.false_eq_true, if_false, ih]
    | write off bs => simp only [List.filter_cons, List.map_cons, LogItem.norm, LogItem.isWrite, if_true, ih]

/-! ## … on the device image -/

/-- the copies of `s0` hold the same bytes in the image -/
def CopiesEqualImg (s0 : DiskSlice) (i : Img) : Prop := CopiesEqual s0.beginOff s0.size s0.mirrors i.getByte

/-- a successful mirrored sequence that is a run of a program keeps the copies equal IN THE IMAGE -/
theorem mirroredSeq_copies_equal_img {α} {s0 : DiskSlice} {p : Prog α} {d : Dev} {r : Except Err α} {d' : Dev}
    (hr : run p d = (r, d')) (hseq : MirroredSeq s0 d d') (hw : d.img.WF)
    (hstat : statusOff d.fs + 1 ≤ s0.beginOff) (heq : CopiesEqualImg s0 d.img) :
    d'.img.WF ∧ CopiesEqualImg s0 d'.img := by
  obtain ⟨hw', items', hl, hg⟩ := run_img_eq_replay p d r d' hr hw
  obtain ⟨items, hwo, hc⟩ := mirroredSeq_copies_equal_norm hseq hstat d.img.getByte heq
  have hfil : items = items'.filter LogItem.isWrite := by
    unfold Dev.writesOf at hwo
    rw [hl, List.filter_append] at hwo
    exact (List.append_cancel_right hwo).symm
  refine ⟨hw', ?_⟩
  have hfun : d'.img.getByte = replay d.img.getByte (items.map LogItem.norm) := by
    funext q
    rw [hg q, hfil, filter_map_norm, replay_filter]
  unfold CopiesEqualImg
  rw [hfun]; exact hc

/-- **`fat_copies_equal_img`**: let `s0` be a slice with `mirrors ≥ 1` copies lying inside the device, the status byte
    before its window (for `fatSliceOf fs` with mirroring: the `fs.fats` FAT copies). On ANY device state with a
    well-formed page table whose copies are byte-equal in the image, a successful `Table.set`, `alloc_cluster`,
    `ClusterIterator::free`/`truncate` or `format_fat` over (a state of) that slice leaves the copies byte-equal in the
    image `d'.img` (and the page table well formed). -/
theorem fat_copies_equal_img {s0 : DiskSlice} (hmir : 0 < s0.mirrors) (ft : FatType) {s : DiskSlice}
    (hs : SliceInv s0 s) (d : Dev) (hdev : s0.beginOff + s0.mirrors * s0.size ≤ d.img.size) (hw : d.img.WF)
    (hstat : statusOff d.fs + 1 ≤ s0.beginOff) (heq : CopiesEqualImg s0 d.img) :
    (∀ c v s' d', run (Table.set DiskSlice.strm ft s c v) d = (.ok s', d') → d'.img.WF ∧ CopiesEqualImg s0 d'.img) ∧
    (∀ prev hint total v d', run (Table.allocCluster DiskSlice.strm ft s prev hint total) d = (.ok v, d') →
      d'.img.WF ∧ CopiesEqualImg s0 d'.img) ∧
    (∀ fuel cl err v d', run (Table.CIter.free DiskSlice.strm ft fuel ⟨s, cl, err⟩) d = (.ok v, d') →
      d'.img.WF ∧ CopiesEqualImg s0 d'.img) ∧
    (∀ fuel cl err v d', run (Table.CIter.truncate DiskSlice.strm ft fuel ⟨s, cl, err⟩) d = (.ok v, d') →
      d'.img.WF ∧ CopiesEqualImg s0 d'.img) ∧
    (∀ media bytesPerFat total v d', run (Table.formatFat DiskSlice.strm ft s media bytesPerFat total) d = (.ok v, d') →
      d'.img.WF ∧ CopiesEqualImg s0 d'.img) := by
  obtain ⟨h1, h2, h3, h4⟩ := fat_ops_mirrored hmir hdev ft hs
  refine ⟨fun c v s' d' hr => ?_, fun p h t v d' hr => ?_, fun fuel cl err v d' hr => ?_,
    fun fuel cl err v d' hr => ?_, fun m b t v d' hr => ?_⟩
  · exact mirroredSeq_copies_equal_img hr ((Table.set_ms hmir hdev ft hs c v).out d s' d' rfl hr).1 hw hstat heq
  · exact mirroredSeq_copies_equal_img hr ((h1 p h t).out d v d' rfl hr).1 hw hstat heq
  · exact mirroredSeq_copies_equal_img hr ((h2 fuel cl err).out d v d' rfl hr).1 hw hstat heq
  · exact mirroredSeq_copies_equal_img hr ((h3 fuel cl err).out d v d' rfl hr).1 hw hstat heq
  · exact mirroredSeq_copies_equal_img hr ((h4 m b t).out d v d' rfl hr).1 hw hstat heq

theorem Img.getByte_empty (n q : Nat) : (Img.empty n).getByte q = 0 := by
  simp [Img.getByte_eq, Img.empty]

/-! ## the statements are not vacuous -/

namespace C10ex
def slice : DiskSlice := { beginOff := 512, size := 512, offset := 6, mirrors := 2, viaFs := true }
def fs16 : FsState :=
  { fatType := .fat16, bps := 512, spc := 1, reserved := 1, fats := 2, spf := 1, totalClusters := 5,
    firstDataSector := 4, rootEntries := 16, rootDirSectors := 1 }
def dev : Dev := { img := Img.empty 8192, fs := fs16 }
end C10ex

/-- hypotheses of `slice_write_mirrors`/`slice_bounds_write` hold of the example, and the write does what they say:
    two bytes at offset 6 of both copies, the status byte BEFORE the first -/
example : C10ex.slice.offset ≤ C10ex.slice.size ∧ 0 < C10ex.slice.mirrors ∧
    C10ex.slice.beginOff + C10ex.slice.mirrors * C10ex.slice.size ≤ C10ex.dev.img.size ∧
    (run (C10ex.slice.write [170, 187]) C10ex.dev).2.log =
      [.write 1030 [170, 187], .write 518 [170, 187], .write 37 [1]] := by decide +kernel

/-- `fatSliceOf` of the example volume is that window; the status byte (0x25) lies before it -/
example : fatSliceOf C10ex.fs16 = { beginOff := 512, size := 512, mirrors := 2, viaFs := true } ∧
    statusOff C10ex.fs16 + 1 ≤ (fatSliceOf C10ex.fs16).beginOff := by decide

/-- non-vacuity of `fat_copies_equal_img` on a 2-copy FAT16 volume: the 8 KiB all-zero device `C10ex.dev` has a
    well-formed page table, its two FAT copies `[512,1024)`, `[1024,1536)` are byte-equal, they lie inside the device, the
    status byte lies before them, and `Table.set` of the entry of cluster 3 succeeds on it -/
example : C10ex.dev.img.WF ∧ CopiesEqualImg (fatSliceOf C10ex.fs16) C10ex.dev.img ∧
    (fatSliceOf C10ex.fs16).beginOff + (fatSliceOf C10ex.fs16).mirrors * (fatSliceOf C10ex.fs16).size ≤ C10ex.dev.img.size ∧
    resErr (run (Table.set DiskSlice.strm .fat16 (fatSliceOf C10ex.fs16) 3 .eoc) C10ex.dev).1 = none :=
  ⟨Img.wf_empty _, fun _ _ _ _ => by simp [C10ex.dev, Img.getByte_empty], by decide, by decide +kernel⟩

end FatVerif
