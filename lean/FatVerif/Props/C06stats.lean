import FatVerif.Proofs.FormatMount4
import FatVerif.Props.C06root
/-!
# C06 — "all clusters free": `stats` on the freshly formatted and mounted volume

The last clause of C06 ("formatting yields a valid empty volume: … `stats` reports every cluster free") as theorems:

* `format_then_free_count`: after a successful `format_volume` and mount, the number of free entries of the decoded FAT
  of the image (`C03img.imgTable`, agent-fat's reading of "the on-disk allocation table") is `total_clusters` on
  FAT12/16 and `total_clusters - 1` on FAT32 (the root directory occupies cluster 2); the layout facts `FileSim.Geo`
  hold. FAT32: for volumes whose FAT has no room for the BAD markers (`capacity ≤ 0x0FFFFFF0`, as in
  `formatFat_view_fat32`).
* `format_then_stats`: `stats` SUCCEEDS and returns `(bytes_per_sector * sectors_per_cluster, total_clusters, free)`
  with that number — on FAT12/16 by the recount over the FAT (`C06vol.run_stats_ok` for success, agent-fat's
  `C05img.stats_img` for the value), on FAT32 from the FS-info sector format wrote (`total - 1`, read by mount) — and
  does not change the image. No hypothesis besides `Formattable` (the FAT32 answer comes from the cache; that it agrees
  with the table is `format_then_free_count`).
* `format_end_to_end`: the whole chain in one statement.
-/
namespace FatVerif.C06stats
open FatVerif FatVerif.Format FatVerif.C06image FatVerif.C06mount FatVerif.C06vol FatVerif.FileSim

/-- the number of free clusters of a freshly formatted volume -/
def freshFree (ft : FatType) (total : Nat) : Nat := if ft = .fat32 then total - 1 else total

/-- **`format_then_free_count`** -/
theorem format_then_free_count (o : FormatOpts) (d0 d1 : Dev) (hpre : Formattable o d0)
    (hrun : run (formatVolume o) d0 = (.ok (), d1)) (strict accDate lfnAlloc unicode : Bool) :
    ∃ boot ft fs d2, formatChecked o (fmtTotal o d0) = .ok (boot, ft) ∧
      run (mount strict accDate lfnAlloc unicode) (nextOp d1) = (.ok fs, d2) ∧
      ((ft = .fat32 → boot.bpb.sectorsPerFat * boot.bpb.bps * 8 / 32 ≤ 0x0FFFFFF0) →
        Geo fs d2.img.size ∧
        Fat.countFreeV (C03img.imgTable fs d2.img) fs.totalClusters = freshFree ft fs.totalClusters) := by
  obtain ⟨boot, ft, fs, d2, F⟩ := fresh_of_format o d0 d1 hpre hrun strict accDate lfnAlloc unicode
  refine ⟨boot, ft, fs, d2, F.checked, F.mounted, fun hcap => ⟨F.geo hpre hrun hcap, ?_⟩⟩
  obtain ⟨hfree, h2⟩ := F.table hpre hrun hcap
  unfold freshFree
  by_cases h32 : ft = .fat32
  · rw [if_pos h32]
    apply countFreeV_tail_free _ 1
    · intro c hc1 hc2
      exact hfree c (by omega) hc2 (fun _ => by omega)
    · intro c hc1 hc2
      have : c = 2 := by omega
      subst this
      rw [h2 h32]
      exact fun h => by cases h
  · rw [if_neg h32]
    apply countFreeV_tail_free _ 0
    · intro c hc1 hc2
      exact hfree c (by omega) hc2 (fun h => absurd h h32)
    · intro c hc1 hc2; omega

/-- **`format_then_stats`**: format a device, mount it as the next call sees it, ask for the statistics — the call
    succeeds, reports the cluster size and the cluster count format chose and EVERY cluster free (FAT32: all but the
    root directory's), and leaves the image as it is -/
theorem format_then_stats (o : FormatOpts) (d0 d1 : Dev) (hpre : Formattable o d0)
    (hrun : run (formatVolume o) d0 = (.ok (), d1)) (strict accDate lfnAlloc unicode : Bool) :
    ∃ boot ft fs d2, formatChecked o (fmtTotal o d0) = .ok (boot, ft) ∧
      run (mount strict accDate lfnAlloc unicode) (nextOp d1) = (.ok fs, d2) ∧
      boot.bpb.totalClusters = .ok fs.totalClusters ∧
      ∃ d3, run stats d2 =
          (.ok (boot.bpb.bps * boot.bpb.spc, fs.totalClusters, freshFree ft fs.totalClusters), d3) ∧
        d3.img = d2.img := by
  obtain ⟨boot, ft, fs, d2, F⟩ := fresh_of_format o d0 d1 hpre hrun strict accDate lfnAlloc unicode
  refine ⟨boot, ft, fs, d2, F.checked, F.mounted, F.tc, ?_⟩
  have hcs : fs.clusterSize = boot.bpb.bps * boot.bpb.spc := by
    unfold FsState.clusterSize; rw [F.bps, F.spc]
  by_cases h32 : ft = .fat32
  · -- FAT32: the cached count
    have hfree := (F.info.1 h32).1
    refine ⟨d2, ?_, rfl⟩
    unfold stats
    have h0 : run Prog.getFs d2 = (.ok d2.fs, d2) := rfl
    rw [run_bind_ok h0, F.fsEq, hfree, ← hcs]
    unfold freshFree
    rw [if_pos h32]
    rfl
  · -- FAT12/16: the recount
    have hcap : ft = .fat32 → boot.bpb.sectorsPerFat * boot.bpb.bps * 8 / 32 ≤ 0x0FFFFFF0 := fun h => absurd h h32
    have hgeo : Geo d2.fs d2.img.size := by rw [F.fsEq]; exact F.geo hpre hrun hcap
    have hwf : d2.img.WF := by
      rw [F.img]; exact (run_img_replay _ d0 _ d1 hrun hpre.imgWf hpre.logEmpty).1
    have hinfo : InfoOk d2.fs d2.img := by
      rw [F.fsEq]
      obtain ⟨hf, hn⟩ := F.info.2 h32
      exact ⟨fun n h => (by rw [hn] at h; cases h), fun n h => (by rw [hf] at h; cases h)⟩
    obtain ⟨a, b, n, d3, hr⟩ := run_stats_ok d2 F.extra.failAt hgeo
    obtain ⟨ha, hb, hn, himg, _⟩ := C05img.stats_img d2 hwf hgeo hinfo hr
    obtain ⟨boot', ft', fs', d2', hc', hm', hcount⟩ :=
      format_then_free_count o d0 d1 hpre hrun strict accDate lfnAlloc unicode
    have e1 := F.checked
    rw [hc'] at e1
    simp only [Except.ok.injEq, Prod.mk.injEq] at e1
    obtain ⟨rfl, rfl⟩ := e1
    have e2 := F.mounted
    rw [hm'] at e2
    simp only [Prod.mk.injEq, Except.ok.injEq] at e2
    obtain ⟨rfl, rfl⟩ := e2
    refine ⟨d3, ?_, himg⟩
    rw [hr, ha, hb, hn, F.fsEq, (hcount hcap).2, hcs]

/-- **`format_then_sess`**: the freshly formatted and mounted volume is a session state in the sense of agent-fat's
    `C05img` (`Sess`: fault-free, well-formed image, layout `Geo`, FS-info bookkeeping consistent with the FAT of the
    image — on FAT32 the cached count `total - 1` IS the number of free entries and the hint `3` is in range). So
    `C05img.session_free_count_exact` applies to every session started on a freshly formatted volume. -/
theorem format_then_sess (o : FormatOpts) (d0 d1 : Dev) (hpre : Formattable o d0)
    (hrun : run (formatVolume o) d0 = (.ok (), d1)) (strict accDate lfnAlloc unicode : Bool) :
    ∃ boot ft fs d2, formatChecked o (fmtTotal o d0) = .ok (boot, ft) ∧
      run (mount strict accDate lfnAlloc unicode) (nextOp d1) = (.ok fs, d2) ∧
      ((ft = .fat32 → boot.bpb.sectorsPerFat * boot.bpb.bps * 8 / 32 ≤ 0x0FFFFFF0) → FsInfoImg.Sess d2) := by
  obtain ⟨boot, ft, fs, d2, F⟩ := fresh_of_format o d0 d1 hpre hrun strict accDate lfnAlloc unicode
  refine ⟨boot, ft, fs, d2, F.checked, F.mounted, fun hcap => ?_⟩
  have hgeo : Geo d2.fs d2.img.size := by rw [F.fsEq]; exact F.geo hpre hrun hcap
  have hwf : d2.img.WF := by
    rw [F.img]; exact (run_img_replay _ d0 _ d1 hrun hpre.imgWf hpre.logEmpty).1
  obtain ⟨boot', ft', fs', d2', hc', hm', hcount⟩ :=
    format_then_free_count o d0 d1 hpre hrun strict accDate lfnAlloc unicode
  have e1 := F.checked
  rw [hc'] at e1
  simp only [Except.ok.injEq, Prod.mk.injEq] at e1
  obtain ⟨rfl, rfl⟩ := e1
  have e2 := F.mounted
  rw [hm'] at e2
  simp only [Prod.mk.injEq, Except.ok.injEq] at e2
  obtain ⟨rfl, rfl⟩ := e2
  have hcnt := (hcount hcap).2
  have hg := fmtGeom_of_ok hpre.acc hpre.tot F.checked
  refine ⟨F.extra.failAt, hwf, hgeo, ⟨?_, ?_⟩, ?_⟩
  all_goals rw [F.fsEq]
  · intro n hn
    by_cases h32 : ft' = .fat32
    · rw [(F.info.1 h32).2, F.rootCluster, (hg.f32 h32).2.2] at hn
      simp only [Option.some.injEq] at hn
      omega
    · rw [(F.info.2 h32).2] at hn; cases hn
  · intro n hn
    have hgeo' : Geo fs' d2'.img.size := by rw [← F.fsEq]; exact hgeo
    rw [C05img.count_tab_eq hgeo', hcnt]
    by_cases h32 : ft' = .fat32
    · rw [(F.info.1 h32).1] at hn
      simp only [Option.some.injEq] at hn
      unfold freshFree; rw [if_pos h32]; exact hn.symm
    · rw [(F.info.2 h32).1] at hn; cases hn
  · intro n hn
    by_cases h32 : ft' = .fat32
    · rw [(F.info.1 h32).2, F.rootCluster, (hg.f32 h32).2.2] at hn
      simp only [Option.some.injEq] at hn
      have := hg.ftc
      rw [← F.tcEq hpre, h32] at this
      unfold FatType.fromClusters at this
      have : 65525 ≤ fs'.totalClusters := by
        by_cases h1 : fs'.totalClusters < 4085
        · rw [if_pos h1] at this; cases this
        · rw [if_neg h1] at this
          by_cases h3 : fs'.totalClusters < 65525
          · rw [if_pos h3] at this; cases this
          · omega
      omega
    · rw [(F.info.2 h32).2] at hn; cases hn

/-- **C06 end to end**: on a device that meets `Formattable`, a successful `format_volume` leaves a device that
    (1) mounts — for every strictness and option setting — with the geometry format chose, as a clean volume;
    (2) whose root directory lists as empty, without any write;
    (3) on which `stats` succeeds and reports every cluster free (FAT32: all but the root directory's cluster);
    (4) whose on-disk table has exactly that many free entries.
    (2) and (4) on FAT32 for volumes whose FAT has no room for the BAD markers (`capacity ≤ 0x0FFFFFF0`). -/
theorem format_end_to_end (o : FormatOpts) (d0 d1 : Dev) (hpre : Formattable o d0)
    (hrun : run (formatVolume o) d0 = (.ok (), d1)) (strict accDate lfnAlloc unicode : Bool) :
    ∃ boot ft fs d2, formatChecked o (fmtTotal o d0) = .ok (boot, ft) ∧
      run (mount strict accDate lfnAlloc unicode) (nextOp d1) = (.ok fs, d2) ∧
      d2.fs = fs ∧ d2.img = d1.img ∧ fs.fatType = ft ∧ boot.bpb.totalClusters = .ok fs.totalClusters ∧
      fs.curDirty = false ∧ fs.curIoErr = false ∧
      (∃ d3, run stats d2 =
          (.ok (boot.bpb.bps * boot.bpb.spc, fs.totalClusters, freshFree ft fs.totalClusters), d3) ∧
        d3.img = d2.img) ∧
      ((ft = .fat32 → boot.bpb.sectorsPerFat * boot.bpb.bps * 8 / 32 ≤ 0x0FFFFFF0) →
        (∃ d3, run (listDir (rootDirStream fs)) d2 = (.ok [], d3) ∧ d3.img = d2.img ∧ d3.writesOf = d2.writesOf) ∧
        Fat.countFreeV (C03img.imgTable fs d2.img) fs.totalClusters = freshFree ft fs.totalClusters) := by
  obtain ⟨boot, ft, fs, d2, F⟩ := fresh_of_format o d0 d1 hpre hrun strict accDate lfnAlloc unicode
  have uniq : ∀ {boot' ft' fs' d2'}, formatChecked o (fmtTotal o d0) = .ok (boot', ft') →
      run (mount strict accDate lfnAlloc unicode) (nextOp d1) = (.ok fs', d2') →
      boot' = boot ∧ ft' = ft ∧ fs' = fs ∧ d2' = d2 := by
    intro boot' ft' fs' d2' hc' hm'
    have e1 := F.checked
    rw [hc'] at e1
    simp only [Except.ok.injEq, Prod.mk.injEq] at e1
    have e2 := F.mounted
    rw [hm'] at e2
    simp only [Prod.mk.injEq, Except.ok.injEq] at e2
    exact ⟨e1.1, e1.2, e2.1, e2.2⟩
  refine ⟨boot, ft, fs, d2, F.checked, F.mounted, F.fsEq, F.img, F.fatType, F.tc, F.curDirty, F.curIoErr, ?_,
    fun hcap => ⟨?_, ?_⟩⟩
  · obtain ⟨boot', ft', fs', d2', hc', hm', _, hs⟩ := format_then_stats o d0 d1 hpre hrun strict accDate lfnAlloc unicode
    obtain ⟨rfl, rfl, rfl, rfl⟩ := uniq hc' hm'
    exact hs
  · obtain ⟨boot', ft', fs', d2', hc', hm', hl⟩ :=
      C06root.format_then_list_root_empty o d0 d1 hpre hrun strict accDate lfnAlloc unicode
    obtain ⟨rfl, rfl, rfl, rfl⟩ := uniq hc' hm'
    exact hl hcap
  · obtain ⟨boot', ft', fs', d2', hc', hm', hl⟩ :=
      format_then_free_count o d0 d1 hpre hrun strict accDate lfnAlloc unicode
    obtain ⟨rfl, rfl, rfl, rfl⟩ := uniq hc' hm'
    exact (hl hcap).2

/-! ## non-vacuity -/

set_option maxRecDepth 100000 in
/-- on the concrete FAT16 device of `C06image.Ex` (`Formattable`: `C06mount.ex_formattable`; the run succeeds by kernel
    evaluation) the theorems apply: the strict mount of the formatted device answers `stats` with all clusters free and
    lists an empty root directory (the volume label is skipped) -/
example : ∃ fs d2 d3 d4 cs total,
    run (mount true false true true) (nextOp (run (formatVolume Ex.o16) Ex.d16).2) = (.ok fs, d2) ∧
    run stats d2 = (.ok (cs, total, total), d3) ∧ run (listDir (rootDirStream fs)) d2 = (.ok [], d4) := by
  have hrun : run (formatVolume Ex.o16) Ex.d16 = (.ok (), (run (formatVolume Ex.o16) Ex.d16).2) :=
    Ex.run_of_okUnit (by decide +kernel)
  obtain ⟨boot, ft, fs, d2, hc, hm, _, _, _, _, _, _, ⟨d3, hs, _⟩, hrest⟩ :=
    format_end_to_end Ex.o16 Ex.d16 _ ex_formattable hrun true false true true
  have hft : ft = .fat16 := by
    have hm := (formatChecked_ok_layout ex_formattable.acc ex_formattable.tot hc).choose_spec.2.2.2.1
    simpa [Ex.o16, allowedTypes] using hm
  subst hft
  obtain ⟨⟨d4, hl, _⟩, _⟩ := hrest (fun h => by cases h)
  exact ⟨fs, d2, d3, d4, _, fs.totalClusters, hm, hs, hl⟩

set_option maxRecDepth 100000 in
/-- … and on the FAT12 device of `C06image.Ex` (343 sectors, no label; `C06fat12.ex_formattable12`): here `stats` walks
    the packed 12-bit entries (`run_countFree12Loop_ok`) -/
example : ∃ fs d2 d3 d4 cs total,
    run (mount false false true true) (nextOp (run (formatVolume Ex.o12) Ex.d12).2) = (.ok fs, d2) ∧
    fs.fatType = .fat12 ∧
    run stats d2 = (.ok (cs, total, total), d3) ∧ run (listDir (rootDirStream fs)) d2 = (.ok [], d4) := by
  have hrun : run (formatVolume Ex.o12) Ex.d12 = (.ok (), (run (formatVolume Ex.o12) Ex.d12).2) :=
    Ex.run_of_okUnit (by decide +kernel)
  obtain ⟨boot, ft, fs, d2, hc, hm, _, _, hfs, _, _, _, ⟨d3, hs, _⟩, hrest⟩ :=
    format_end_to_end Ex.o12 Ex.d12 _ C06fat12.ex_formattable12 hrun false false true true
  have hft : ft = .fat12 := by
    have h1 : ((formatChecked Ex.o12 343).toOption.map (·.2)) = some .fat12 := by decide +kernel
    have h3 : fmtTotal Ex.o12 Ex.d12 = 343 := rfl
    rw [h3] at hc; rw [hc] at h1
    simpa [Except.toOption] using h1
  subst hft
  obtain ⟨⟨d4, hl, _⟩, _⟩ := hrest (fun h => by cases h)
  exact ⟨fs, d2, d3, d4, _, fs.totalClusters, hm, hfs, hs, hl⟩

end FatVerif.C06stats
