import FatVerif.Proofs.FileSimMulti
/-!
# C02, any number of open files: interleaved histories = independent byte arrays

`files_refine_bytefiles`: a table `F : Nat → Option FileH` of open handles on DISTINCT files of one volume (`MultiInv`: every
handle satisfies `FullInv`; chains pairwise disjoint; no slot is a position any handle may write; slots pairwise
disjoint).  Any interleaved history of `read` / `seek` / `write` / `truncate` / `read_exact` / `write_all` / `flush` on
any of the handles: every result is the one the byte array with a cursor of THAT file prescribes, all other files'
byte arrays are unchanged by the step, and `MultiInv` holds again.  Generalises `two_files_refine_bytefiles` to `n`
files and to histories containing `flush`.
-/
namespace FatVerif.FileSim
open FatVerif FatVerif.Fat

/-- one operation on handle `i` of the table (an unknown handle is a script error: nothing happens) -/
def execN (i : Nat) (op : EOp) (F : Nat → Option FileH) (d : Dev) : Cursor.FileRes × (Nat → Option FileH) × Dev :=
  match F i with
  | some h => ((execE op h d).1, updF F i (execE op h d).2.1, (execE op h d).2.2)
  | none => (.err .invalidInput, F, d)

def runN : List (Nat × EOp) → (Nat → Option FileH) → Dev → List Cursor.FileRes × (Nat → Option FileH) × Dev
  | [], F, d => ([], F, d)
  | x :: ops, F, d =>
    let r := execN x.1 x.2 F d
    let rest := runN ops r.2.1 r.2.2
    (r.1 :: rest.1, rest.2)

/-- the specification state: one byte array with a cursor per open handle -/
def absN (F : Nat → Option FileH) (d : Dev) : Nat → Option Cursor.ByteFile :=
  fun i => (F i).map fun h => (absFile d.fs d.img h).abs

/-- the oracle for one step: only the byte array of handle `i` moves -/
def checkN (cs : Nat) (i : Nat) (op : Cursor.FileOp) (res : Cursor.FileRes) (B : Nat → Option Cursor.ByteFile) :
    Except String (Nat → Option Cursor.ByteFile) :=
  match B i with
  | some b =>
    match Cursor.ByteFile.check cs op res b with
    | .ok b' => .ok fun j => if j = i then some b' else B j
    | .error e => .error e
  | none => .error "handle"

def checkRunN (cs : Nat) : List (Nat × Cursor.FileOp) → List Cursor.FileRes → (Nat → Option Cursor.ByteFile) →
    Except String (Nat → Option Cursor.ByteFile)
  | [], [], B => .ok B
  | x :: ops, r :: rs, B =>
    match checkN cs x.1 x.2 r B with
    | .ok B' => checkRunN cs ops rs B'
    | .error e => .error e
  | _, _, _ => .error "result-shape"

/-- every operation of the history addresses an open handle and carries bytes -/
def OpsOkN (ops : List (Nat × EOp)) (F : Nat → Option FileH) : Prop :=
  ∀ x ∈ ops, (F x.1).isSome = true ∧ x.2.BytesOk

theorem updF_isSome (F : Nat → Option FileH) (i : Nat) (h : FileH) (hi : (F i).isSome = true) (j : Nat) :
    (updF F i h j).isSome = (F j).isSome := by
  unfold updF
  by_cases hji : j = i
  · rw [if_pos hji, hji, hi]; rfl
  · rw [if_neg hji]

theorem absN_updF (F : Nat → Option FileH) (i : Nat) (f' : FileH) (d d' : Dev)
    (hother : ∀ j hj, j ≠ i → F j = some hj → (absFile d'.fs d'.img hj).abs = (absFile d.fs d.img hj).abs) :
    absN (updF F i f') d' = fun j => if j = i then some (absFile d'.fs d'.img f').abs else absN F d j := by
  funext j
  unfold absN updF
  by_cases hji : j = i
  · rw [if_pos hji, if_pos hji]; rfl
  · rw [if_neg hji, if_neg hji]
    cases hF : F j with
    | none => rfl
    | some hj => simp only [Option.map]; rw [hother j hj hji hF]

/-- one step on handle `i` -/
theorem execN_refines (i : Nat) (op : EOp) (F : Nat → Option FileH) (d : Dev) (hM : MultiInv F d)
    (hi : (F i).isSome = true) (hok : op.BytesOk) :
    MultiInv (execN i op F d).2.1 (execN i op F d).2.2 ∧
    (execN i op F d).2.2.fs.clusterSize = d.fs.clusterSize ∧
    (∀ j, ((execN i op F d).2.1 j).isSome = (F j).isSome) ∧
    checkN d.fs.clusterSize i op.toOp (execN i op F d).1 (absN F d) =
      .ok (absN (execN i op F d).2.1 (execN i op F d).2.2) := by
  obtain ⟨h, hFi⟩ := Option.isSome_iff_exists.mp hi
  obtain ⟨e, hfull⟩ := hM.full i h hFi
  have hBi : absN F d i = some (absFile d.fs d.img h).abs := by unfold absN; rw [hFi]; rfl
  cases op with
  | op o =>
    obtain ⟨hM', hoth⟩ := multi_step_op F d hM i h hFi o hok
    obtain ⟨_, hcs, hchk⟩ := execH_refines o h d hfull.sim hok
    have hex : execN i (.op o) F d = ((execH o h d).1, updF F i (execH o h d).2.1, (execH o h d).2.2) := by
      unfold execN; rw [hFi]; rfl
    rw [hex]
    refine ⟨hM', hcs, updF_isSome F i _ hi, ?_⟩
    simp only [checkN, hBi, EOp.toOp, hchk]
    rw [absN_updF F i _ d _ hoth]
  | flush =>
    obtain ⟨f1, d', hr, hM', hfs, habs, hoth⟩ := multi_step_flush F d hM i h hFi
    have hex : execN i .flush F d = (.unit, updF F i f1, d') := by
      unfold execN; rw [hFi]; simp only [execE, hr]
    rw [hex]
    refine ⟨hM', by rw [hfs], updF_isSome F i _ hi, ?_⟩
    simp only [checkN, hBi, EOp.toOp, Cursor.ByteFile.check]
    rw [absN_updF F i _ d _ hoth, habs]

/-- **`files_refine_bytefiles`.**  Any number of open handles on distinct files of one volume (`MultiInv`), any
    interleaving of `read` / `seek` / `write` / `truncate` / `read_exact` / `write_all` / `flush` on them: every observable
    result is the one the byte array with a cursor of the addressed file prescribes (`checkRunN`: one independent
    `ByteFile` per handle; a step moves only the byte array of its handle), and `MultiInv` holds again. -/
theorem files_refine_bytefiles : ∀ (ops : List (Nat × EOp)) (F : Nat → Option FileH) (d : Dev), MultiInv F d →
    OpsOkN ops F →
    MultiInv (runN ops F d).2.1 (runN ops F d).2.2 ∧
    (runN ops F d).2.2.fs.clusterSize = d.fs.clusterSize ∧
    checkRunN d.fs.clusterSize (ops.map fun x => (x.1, x.2.toOp)) (runN ops F d).1 (absN F d) =
      .ok (absN (runN ops F d).2.1 (runN ops F d).2.2)
  | [], F, d, h, _ => ⟨h, rfl, rfl⟩
  | x :: ops, F, d, h, hok => by
    obtain ⟨hx1, hx2⟩ := hok x (List.mem_cons_self ..)
    obtain ⟨hM', hcs, hsome, hchk⟩ := execN_refines x.1 x.2 F d h hx1 hx2
    have hok' : OpsOkN ops (execN x.1 x.2 F d).2.1 := fun y hy => by
      obtain ⟨a, b⟩ := hok y (List.mem_cons_of_mem _ hy)
      exact ⟨by rw [hsome]; exact a, b⟩
    obtain ⟨ri, rcs, rchk⟩ := files_refine_bytefiles ops _ _ hM' hok'
    simp only [runN, List.map]
    refine ⟨ri, rcs.trans hcs, ?_⟩
    simp only [checkRunN, hchk]
    rw [hcs] at rchk
    exact rchk

end FatVerif.FileSim

/-! ## the statement is not vacuous: the two-file FAT16 volume of `Props/C11img.lean` as a handle table -/

namespace FatVerif.FileSim.ExN
open FatVerif FatVerif.Fat FatVerif.FileSim FatVerif.FileSim.Ex FatVerif.FileSim.Ex14 FatVerif.FileSim.Ex11
  FatVerif.FileSim.ExH

/-- handle 1: the two-cluster file (slot 1536); handle 2: the one-cluster file (slot 1568) -/
def F17 : Nat → Option FileH := fun i => if i = 1 then some file14 else if i = 2 then some fileG else none

theorem fullG17 : FullInv fileG ⟨entryG, 1568, true⟩ dev17 :=
  ⟨pair17.right, entryRepG,
   rootSlot_not_mayTouchData (fs := fs17) (img := img17) geo17 repG17 (by decide) (by decide)⟩

theorem F17_cases {i : Nat} {h : FileH} (hi : F17 i = some h) : (i = 1 ∧ h = file14) ∨ (i = 2 ∧ h = fileG) := by
  unfold F17 at hi
  by_cases h1 : i = 1
  · rw [if_pos h1] at hi; exact Or.inl ⟨h1, (Option.some.inj hi).symm⟩
  · rw [if_neg h1] at hi
    by_cases h2 : i = 2
    · rw [if_pos h2] at hi; exact Or.inr ⟨h2, (Option.some.inj hi).symm⟩
    · rw [if_neg h2] at hi; cases hi

theorem multi17 : MultiInv F17 dev17 where
  full := by
    intro i h hi
    rcases F17_cases hi with ⟨_, rfl⟩ | ⟨_, rfl⟩
    · exact ⟨_, full17⟩
    · exact ⟨_, fullG17⟩
  chains := by
    intro i j hi hj hij h1 h2
    rcases F17_cases h1 with ⟨rfl, rfl⟩ | ⟨rfl, rfl⟩ <;> rcases F17_cases h2 with ⟨rfl, rfl⟩ | ⟨rfl, rfl⟩
    · exact absurd rfl hij
    · exact pair17.apart
    · exact fun c hc hc' => pair17.apart c hc' hc
    · exact absurd rfl hij
  slots := by
    intro i j hi hj pi h1 h2 hp
    have hroot : ∀ (g : FileH), FileRep fs17 img17 g → ∀ pos, pos = 1536 ∨ pos = 1568 →
        ∀ q, pos ≤ q → q < pos + 32 → ¬ MayTouchData fs17 img17 g q := by
      intro g hg pos hpos
      rcases hpos with rfl | rfl
      · exact rootSlot_not_mayTouchData (fs := fs17) (img := img17) geo17 hg (by decide) (by decide)
      · exact rootSlot_not_mayTouchData (fs := fs17) (img := img17) geo17 hg (by decide) (by decide)
    have hpi : (i = 1 ∧ pi = 1536) ∨ (i = 2 ∧ pi = 1568) := by
      rcases F17_cases h1 with ⟨rfl, rfl⟩ | ⟨rfl, rfl⟩
      · exact Or.inl ⟨rfl, (Option.some.inj hp).symm⟩
      · exact Or.inr ⟨rfl, (Option.some.inj hp).symm⟩
    have hrepj : FileRep fs17 img17 hj := by
      rcases F17_cases h2 with ⟨_, rfl⟩ | ⟨_, rfl⟩
      · exact repF17
      · exact repG17
    refine ⟨hroot hj hrepj pi (by rcases hpi with ⟨_, h⟩ | ⟨_, h⟩ <;> simp [h]), fun hij pj hpj => ?_⟩
    have hpj' : (j = 1 ∧ pj = 1536) ∨ (j = 2 ∧ pj = 1568) := by
      rcases F17_cases h2 with ⟨rfl, rfl⟩ | ⟨rfl, rfl⟩
      · exact Or.inl ⟨rfl, (Option.some.inj hpj).symm⟩
      · exact Or.inr ⟨rfl, (Option.some.inj hpj).symm⟩
    omega

/-- handle 1 grows across a cluster boundary and is flushed; handle 2 is read, overwritten, flushed and read back -/
def opsN : List (Nat × EOp) :=
  [(1, .op (.seek (.start 1020))), (2, .op (.readExact 3)), (1, .op (.writeAll [1, 2, 3, 4, 5, 6])), (1, .flush),
   (2, .op (.seek (.start 1))), (2, .op (.write [7])), (2, .flush), (2, .op (.seek (.start 0))), (2, .op (.read 4))]

theorem opsOkN : OpsOkN opsN F17 := by
  intro x hx
  simp only [opsN, List.mem_cons, List.not_mem_nil, or_false] at hx
  rcases hx with rfl | rfl | rfl | rfl | rfl | rfl | rfl | rfl | rfl <;>
    first
    | exact ⟨rfl, trivial⟩
    | (refine ⟨rfl, fun bs e => ?_⟩; rcases e with e | e <;> cases e <;> decide)
    | (refine ⟨rfl, fun bs e => ?_⟩; rcases e with e | e <;> cases e)

set_option maxRecDepth 100000 in
/-- the byte-level model, evaluated; both records reached their slots -/
theorem runN17 : (runN opsN F17 dev17).1 =
      [.pos 1020, .bytes [41, 42, 43], .unit, .unit, .pos 1, .count 1, .unit, .pos 0, .bytes [41, 7, 43, 0]] ∧
    (slotData (runN opsN F17 dev17).2.2.img 1536).size = 1026 ∧
    (slotData (runN opsN F17 dev17).2.2.img 1568).size = 100 := by
  decide +kernel

/-- `files_refine_bytefiles` applied -/
theorem specN17 : ∃ B, checkRunN 512 (opsN.map fun x => (x.1, x.2.toOp))
    [.pos 1020, .bytes [41, 42, 43], .unit, .unit, .pos 1, .count 1, .unit, .pos 0, .bytes [41, 7, 43, 0]]
    (absN F17 dev17) = .ok B := by
  have := (files_refine_bytefiles opsN F17 dev17 multi17 opsOkN).2.2
  rw [runN17.1] at this
  exact ⟨_, this⟩

end FatVerif.FileSim.ExN
