import FatVerif.Proofs.NoWriteModel5
/-! # C13 — read-only use never writes

Definitions (Proofs/NoWriteModel2–4.lean): `CleanFile f` (the handle's entry editor is not dirty), `CleanStream`,
`CleanFs fs` (status flags as read at mount, FS-info latch not set), `FlagsClean fs` (`CleanFs` without the latch).
`SameWrites d d'` (Proofs/Prog.lean): same image, same write records in the log.

Judgements: `RO fs0 p Post` — run on a device whose mounted state is `fs0`, `p` writes nothing, leaves the mounted
state unchanged, and a successful result satisfies `Post`; `NW fs0 p Post` — the same, but the mounted state may change
and `Post` sees the final one. -/
namespace FatVerif

/-! ## (1) the read paths: nothing is written, handles stay clean -/

/-- `File::read` with `update_accessed_date = false`: no write, mounted state unchanged, the handle stays clean.
    (Whatever the option is, `read` contains no write operation: `FileH.read_quiet`.) -/
theorem fileRead_readonly {fs0 : FsState} (hacc : fs0.accDate = false) {f : FileH} (hf : CleanFile f) (n : Nat) :
    RO fs0 (f.read n) (fun r => CleanFile r.2) :=
  (FileH.read_ro hacc f n).weaken (fun _ h => cleanFile_of_entry_eq h hf)

theorem fileSeek_readonly {fs0 : FsState} {f : FileH} (hf : CleanFile f) (p : SeekFrom) :
    RO fs0 (f.seek p) (fun r => CleanFile r.2) :=
  (FileH.seek_ro f p).weaken (fun _ h => cleanFile_of_entry_eq h hf)

theorem dirStreamRead_readonly {fs0 : FsState} (hacc : fs0.accDate = false) {st : DirStream} (hst : CleanStream st)
    (n : Nat) : RO fs0 (st.read n) (fun r => CleanStream r.2) := DirStream.read_ro hacc hst n

theorem dirStreamSeek_readonly {fs0 : FsState} {st : DirStream} (hst : CleanStream st) (p : SeekFrom) :
    RO fs0 (st.seek p) (fun r => CleanStream r.2) := DirStream.seek_ro hst p

theorem readSlot_readonly {fs0 : FsState} (hacc : fs0.accDate = false) {st : DirStream} (hst : CleanStream st) :
    RO fs0 (readSlot st) (fun r => CleanStream r.2) := readSlot_ro hacc hst

theorem readDirEntry_readonly {fs0 : FsState} (hacc : fs0.accDate = false) (skipVolume : Bool) {st : DirStream}
    (hst : CleanStream st) : RO fs0 (readDirEntry skipVolume st) (fun r => CleanStream r.2) :=
  readDirEntry_ro hacc skipVolume hst

theorem listDir_readonly {fs0 : FsState} (hacc : fs0.accDate = false) {d : DirStream} (hd : CleanStream d) :
    RO fs0 (listDir d) (fun _ => True) := listDir_ro hacc hd

theorem findEntry_readonly {fs0 : FsState} (hacc : fs0.accDate = false) (env : Env) {d : DirStream}
    (hd : CleanStream d) (name : String) (isDir : Option Bool) : RO fs0 (findEntry env d name isDir) (fun _ => True) :=
  findEntry_ro hacc env hd name isDir

theorem openDir_readonly {fs0 : FsState} (hacc : fs0.accDate = false) (env : Env) (fuel : Nat) {d : DirStream}
    (hd : CleanStream d) (path : String) : RO fs0 (openDir env fuel d path) CleanStream :=
  openDir_ro hacc env fuel d path hd

theorem openFile_readonly {fs0 : FsState} (hacc : fs0.accDate = false) (env : Env) (fuel : Nat) {d : DirStream}
    (hd : CleanStream d) (path : String) : RO fs0 (openFile env fuel d path) CleanFile :=
  openFile_ro hacc env fuel d path hd

theorem findVolumeEntry_readonly {fs0 : FsState} (hacc : fs0.accDate = false) {d : DirStream} (hd : CleanStream d) :
    RO fs0 (findVolumeEntry d) (fun _ => True) := findVolumeEntry_ro hacc hd

theorem readVolumeLabel_readonly {fs0 : FsState} (hacc : fs0.accDate = false) :
    RO fs0 readVolumeLabelFromRootDir (fun _ => True) := readVolumeLabelFromRootDir_ro hacc

theorem readStatusFlags_readonly {fs0 : FsState} : RO fs0 readStatusFlags (fun _ => True) :=
  RO.of_quiet readStatusFlags_quiet

theorem fileExtents_readonly {fs0 : FsState} (f : FileH) : RO fs0 f.extents (fun _ => True) :=
  RO.of_quiet f.extents_quiet

/-- `File::flush` on a clean handle: only the device flush, the handle is returned unchanged -/
theorem fileFlush_clean_readonly {fs0 : FsState} {f : FileH} (hf : CleanFile f) : RO fs0 f.flush (fun f' => f' = f) :=
  FileH.flush_clean_ro hf

theorem fileDrop_clean_readonly {fs0 : FsState} {f : FileH} (hf : CleanFile f) : RO fs0 f.drop (fun _ => True) :=
  FileH.drop_clean_ro hf

theorem dirDrop_clean_readonly {fs0 : FsState} {d : DirStream} (hd : CleanStream d) : RO fs0 d.drop (fun _ => True) :=
  DirStream.drop_clean_ro hd

/-- `FileSystem::new` writes nothing; the mounted state it installs and returns is clean -/
theorem mount_readonly {fs0 : FsState} (strict accDate lfnAlloc unicode : Bool) :
    NW fs0 (mount strict accDate lfnAlloc unicode) (fun fs fs1 => fs1 = fs ∧ CleanFs fs ∧ fs.accDate = accDate) :=
  mount_nw strict accDate lfnAlloc unicode

/-! ## (2) `stats` -/

/-- `stats` writes nothing. The mounted state is unchanged if a free count is cached; otherwise (the documented
    exception) the count is cached and the FS-info latch `fsInfo.dirty` is set -/
theorem stats_readonly {fs0 : FsState} : NW fs0 stats (fun _ fs1 => StatsStep fs0 fs1) := stats_nw

theorem stats_keeps_cleanFs {fs0 : FsState} (hfree : fs0.fsInfo.free ≠ none) (hc : CleanFs fs0) :
    NW fs0 stats (fun _ fs1 => CleanFs fs1) :=
  stats_nw.weaken (fun _ fs1 h => by
    rcases h with h | ⟨h, _⟩
    · rw [h]; exact hc
    · exact absurd h hfree)

/-! ## (3) `unmount` / `Drop for FileSystem` -/

theorem unmount_clean_readonly {fs0 : FsState} (h : CleanFs fs0) : RO fs0 unmount (fun _ => True) := unmount_clean_ro h

theorem dropFs_clean_readonly {fs0 : FsState} (h : CleanFs fs0) : RO fs0 dropFs (fun _ => True) := dropFs_clean_ro h

/-- with the status flags as at mount (but possibly the FS-info latch set, e.g. by `stats`), `unmount` writes only
    inside the FS-info sector: every write record it adds to the log lies in
    `[fsInfoSector * bps, fsInfoSector * bps + 512)` -/
theorem unmount_writes_only_fsinfo {d : Dev} (hfl : FlagsClean d.fs) {r d'} (hr : run unmount d = (r, d')) :
    ∃ items, d'.log = items ++ d.log ∧ ∀ off bs, LogItem.write off bs ∈ items →
      d.fs.fsInfoSector * d.fs.bps ≤ off ∧ off + bs.length ≤ d.fs.fsInfoSector * d.fs.bps + 512 := by
  obtain ⟨_, _, _, items, h1, h2⟩ := unmount_steps.out d r d' hr hfl
  exact ⟨items, h1, fun off bs h => h2 _ h⟩

theorem dropFs_writes_only_fsinfo {d : Dev} (hfl : FlagsClean d.fs) {r d'} (hr : run dropFs d = (r, d')) :
    ∃ items, d'.log = items ++ d.log ∧ ∀ off bs, LogItem.write off bs ∈ items →
      d.fs.fsInfoSector * d.fs.bps ≤ off ∧ off + bs.length ≤ d.fs.fsInfoSector * d.fs.bps + 512 := by
  obtain ⟨_, _, _, items, h1, h2⟩ := dropFs_steps.out d r d' hr hfl
  exact ⟨items, h1, fun off bs h => h2 _ h⟩

/-! ## (4) a whole read-only session

`ROOp` (Proofs/NoWriteModel5.lean) lists the read-only operations of the API (`list`, `openDir`, `openFile`, `seek`,
`read`, `readx`, `readall`, `extents`, `label`, `labelRoot`, `status`, `stats`, `volid`, `fattype`, `dropf`, `dropd`);
`ROInv s`: `update_accessed_date` is off, the status flags are as at mount, every open handle is clean. -/

/-- **C13**: a session of read-only operations run by `Session.step` from a state satisfying `ROInv` leaves the image
    and the write records of the log as they were; the mounted state is unchanged or took the one documented step
    (`stats` cached a missing free count and set the FS-info latch); the invariant still holds afterwards -/
theorem readonly_session_no_write (s : Session) (h : ROInv s) (ops : List ROOp) :
    (s.steps (ops.map ROOp.toApi)).dev.img = s.dev.img ∧
    (s.steps (ops.map ROOp.toApi)).dev.writesOf = s.dev.writesOf ∧
    StatsStep s.dev.fs (s.steps (ops.map ROOp.toApi)).dev.fs ∧
    ROInv (s.steps (ops.map ROOp.toApi)) := by
  have := steps_good ops s h
  exact ⟨this.2.1.1, this.2.1.2, this.2.2, this.1⟩

/-- … and the `unmount` that ends such a session writes, if anything, only inside the FS-info sector -/
theorem readonly_session_then_unmount (s : Session) (h : ROInv s) (ops : List ROOp) {r d'}
    (hr : run unmount (s.steps (ops.map ROOp.toApi)).dev = (r, d')) :
    ∃ items, d'.log = items ++ (s.steps (ops.map ROOp.toApi)).dev.log ∧ ∀ off bs, LogItem.write off bs ∈ items →
      s.dev.fs.fsInfoSector * s.dev.fs.bps ≤ off ∧ off + bs.length ≤ s.dev.fs.fsInfoSector * s.dev.fs.bps + 512 := by
  obtain ⟨_, _, hst, hinv⟩ := readonly_session_no_write s h ops
  have hgeo : (s.steps (ops.map ROOp.toApi)).dev.fs.fsInfoSector = s.dev.fs.fsInfoSector ∧
      (s.steps (ops.map ROOp.toApi)).dev.fs.bps = s.dev.fs.bps := by
    rcases hst with h1 | ⟨_, n, h1⟩ <;> simp [h1]
  have := unmount_writes_only_fsinfo hinv.flags hr
  rw [hgeo.1, hgeo.2] at this
  exact this

/-- without the exception (a free count is cached, or `stats` is never called … here: the mounted state did not
    change) and from a clean mounted state, the final `unmount` writes nothing at all -/
theorem readonly_session_then_unmount_clean (s : Session) (h : ROInv s) (hc : CleanFs s.dev.fs)
    (hfree : s.dev.fs.fsInfo.free ≠ none) (ops : List ROOp) {r d'}
    (hr : run unmount (s.steps (ops.map ROOp.toApi)).dev = (r, d')) :
    SameWrites s.dev d' := by
  obtain ⟨h1, h2, hst, _⟩ := readonly_session_no_write s h ops
  have hfs : (s.steps (ops.map ROOp.toApi)).dev.fs = s.dev.fs := by
    rcases hst with h3 | ⟨h3, _⟩
    · exact h3
    · exact absurd h3 hfree
  have := (unmount_clean_ro (fs0 := s.dev.fs) hc).out _ r d' hfs hr
  exact SameWrites.trans ⟨h1, h2⟩ this.1

/-- how a read-only session starts: a successful `mount` (with `update_accessed_date` off) writes nothing and
    establishes the invariant and a clean mounted state -/
theorem mount_step_establishes (s : Session) (hacc : s.cfgAccDate = false)
    (hfiles : ∀ (f : Nat) (h : FileH), s.files[f]? = some h → CleanFile h)
    (hdirs : ∀ (d : Nat) (h : DirStream), s.dirs[d]? = some h → CleanStream h)
    {vals rows} (hok : (s.step .mount).2 = .ok vals rows) :
    ROInv (s.step .mount).1 ∧ CleanFs (s.step .mount).1.dev.fs ∧
    (s.step .mount).1.dev.img = s.dev.img ∧ (s.step .mount).1.dev.writesOf = s.dev.writesOf := by
  simp only [Session.step] at hok ⊢
  split at hok
  · cases hok
  split at hok
  · cases hok
  rename_i hdead hmounted
  simp only [hdead, hmounted, Bool.false_eq_true, if_false] at hok ⊢
  unfold Session.runOp Session.exec at hok ⊢
  rcases hr : run (mount s.cfgStrict s.cfgAccDate s.cfgAlloc s.cfgUnicode) { s.dev with pos := 0 } with ⟨r, d⟩
  simp only [hr] at hok ⊢
  have h1 := (mount_nw (fs0 := s.dev.fs) s.cfgStrict s.cfgAccDate s.cfgAlloc s.cfgUnicode).out { s.dev with pos := 0 } r d rfl hr
  cases r with
  | error e =>
    simp only [Session.fatal] at hok
    split at hok <;> cases hok
  | ok fs =>
    obtain ⟨hfs, hclean, hacc'⟩ := h1.2 fs rfl
    refine ⟨⟨?_, ?_, hfiles, hdirs⟩, ?_, h1.1.1, h1.1.2⟩
    · show d.fs.accDate = false
      rw [hfs, hacc', hacc]
    · show FlagsClean d.fs
      rw [hfs]; exact hclean.flags
    · show CleanFs d.fs
      rw [hfs]; exact hclean

/-! ## the statements are not vacuous -/

namespace C13ex

def fs16 : FsState :=
  { fatType := .fat16, bps := 512, spc := 1, reserved := 1, fats := 1, spf := 1, totalClusters := 5,
    firstDataSector := 2, rootEntries := 16, rootDirSectors := 1 }

def dev16 : Dev := { img := Img.empty 4096, fs := fs16 }

/-- a clean handle on a 100-byte file in cluster 2 -/
def file : FileH :=
  { firstCluster := some 2, entry := some (DirEntryEditor.new { DirFileEntryData.new [] 0 with size := 100 } 1024) }

/-- FAT32 state with the FS-info latch set (as `stats` leaves it), status flags as at mount -/
def fs32 : FsState :=
  { fatType := .fat32, bps := 512, spc := 1, reserved := 32, fats := 1, spf := 1, totalClusters := 5,
    firstDataSector := 33, rootCluster := 2, fsInfoSector := 1,
    fsInfo := { free := some 3, next := some 4, dirty := true } }

def dev32 : Dev := { img := Img.empty 65536, fs := fs32 }

def sess : Session := { dev := dev16, env := ⟨fun c => [c]⟩, mounted := true }

def inFsInfo : LogItem → Bool
  | .write off bs => 512 ≤ off && off + bs.length ≤ 1024
  | .flush => true

end C13ex

/-- the hypotheses of the per-program theorems are satisfiable -/
example : C13ex.fs16.accDate = false ∧ CleanFile C13ex.file ∧ CleanFs C13ex.fs16 ∧ FlagsClean C13ex.fs32 :=
  ⟨rfl, cleanFile_new _ _ _, ⟨rfl, rfl, rfl⟩, ⟨rfl, rfl⟩⟩

/-- a concrete read: 10 bytes are returned through two device calls, nothing is logged -/
example : (run (C13ex.file.read 10) C13ex.dev16).2.log = [] ∧ (run (C13ex.file.read 10) C13ex.dev16).2.calls = 2 := by
  decide

/-- `ROInv` is satisfiable (a mounted session without open handles) -/
example : ROInv C13ex.sess :=
  ⟨rfl, ⟨rfl, rfl⟩, fun f h hf => by simp [C13ex.sess] at hf, fun d h hd => by simp [C13ex.sess] at hd⟩

/-- the exception is real: `stats` on a volume without cached free count sets the latch (and writes nothing) -/
example : (run stats C13ex.dev16).2.fs.fsInfo.dirty = true ∧ (run stats C13ex.dev16).2.log = [] := by
  decide +kernel

/-- … and `unmount` then writes the 7 chunks of the FS-info sector, all inside `[512, 1024)`, and clears the latch -/
example : (run unmount C13ex.dev32).2.log.length = 7 ∧ (run unmount C13ex.dev32).2.log.all C13ex.inFsInfo = true ∧
    (run unmount C13ex.dev32).2.fs.fsInfo.dirty = false := by
  decide +kernel

end FatVerif
