import FatVerif.Proofs.BpbOffsets
/-! # C07 — mounting is total (boot sector, FS-info sector, derived geometry)

Model: `probe` (= `fatfs::verif::bpb_probe` = the boot-sector part of `FileSystem::new`), `mountGeometry`
(= `FileSystem::new`). Specification: `GeoSpec.Coherent`, `GeoSpec.specGeometry` (independent parse).
Also C11.1 / C20.1–2 (`offset_arith`, `fat_offset_arith`). -/
namespace FatVerif.C07
open GeoSpec

/-! ## witnesses -/

/-- a FAT32 boot sector with the given fields (everything else as the formatter writes it) -/
def bootSector32 (bps spc rsvd fats ts32 spf32 extFlags rootClus fsInfo backup : Nat) : List Nat :=
  [0xEB, 0x58, 0x90] ++ [0x4D, 0x53, 0x57, 0x49, 0x4E, 0x34, 0x2E, 0x31]
  ++ bytesLe16 bps ++ [spc] ++ bytesLe16 rsvd ++ [fats] ++ [0, 0] ++ [0, 0] ++ [0xF8] ++ [0, 0]
  ++ [0x20, 0] ++ [0x40, 0] ++ [0, 0, 0, 0] ++ bytesLe32 ts32
  ++ bytesLe32 spf32 ++ bytesLe16 extFlags ++ [0, 0] ++ bytesLe32 rootClus ++ bytesLe16 fsInfo ++ bytesLe16 backup
  ++ List.replicate 12 0 ++ [0x80, 0, 0x29] ++ [0x78, 0x56, 0x34, 0x12]
  ++ [0x4E, 0x4F, 0x20, 0x4E, 0x41, 0x4D, 0x45, 0x20, 0x20, 0x20, 0x20]
  ++ [0x46, 0x41, 0x54, 0x33, 0x32, 0x20, 0x20, 0x20]
  ++ List.replicate 420 0 ++ [0x55, 0xAA]

/-- a valid FS-info sector with the given free count and next-free hint -/
def fsInfoSector (free next : Nat) : List Nat :=
  bytesLe32 0x41615252 ++ List.replicate 480 0 ++ bytesLe32 0x61417272 ++ bytesLe32 free ++ bytesLe32 next
  ++ List.replicate 12 0 ++ bytesLe32 0xAA550000

/-- a FAT12/16 boot sector with the given fields -/
def bootSector16 (bps spc rsvd fats rootEntries ts16 spf16 ts32 : Nat) : List Nat :=
  [0xEB, 0x3C, 0x90] ++ [0x4D, 0x53, 0x57, 0x49, 0x4E, 0x34, 0x2E, 0x31]
  ++ bytesLe16 bps ++ [spc] ++ bytesLe16 rsvd ++ [fats] ++ bytesLe16 rootEntries ++ bytesLe16 ts16 ++ [0xF8]
  ++ bytesLe16 spf16 ++ [0x20, 0] ++ [0x40, 0] ++ [0, 0, 0, 0] ++ bytesLe32 ts32
  ++ [0x80, 0, 0x29] ++ [0x78, 0x56, 0x34, 0x12]
  ++ [0x4E, 0x4F, 0x20, 0x4E, 0x41, 0x4D, 0x45, 0x20, 0x20, 0x20, 0x20]
  ++ [0x46, 0x41, 0x54, 0x31, 0x36, 0x20, 0x20, 0x20]
  ++ List.replicate 448 0 ++ [0x55, 0xAA]

/-- a 16 MiB FAT16 volume: 2 KiB clusters, 2 FATs of 32 sectors, 512 root entries -/
def goodFat16 : List Nat := bootSector16 512 4 1 2 512 32768 32 0

/-- the 34 MiB FAT32 volume used as a base by the generator: 512-byte sectors and clusters, 2 FATs of 536 sectors -/
def goodFat32 : List Nat := bootSector32 512 1 8 2 69632 536 0 2 1 6

deriving instance DecidableEq for Except

instance (b : List Nat) : Decidable (IsSector b) := by unfold IsSector; exact inferInstance

example : IsSector goodFat32 := by decide +kernel
example : probe goodFat32 true = .ok
    { fatType := .fat32, bytesPerSector := 512, clusterSize := 512, totalClusters := 68552,
      firstDataSector := 1080, rootDirSectors := 0, sectorsPerFat := 536, reservedSectors := 8, fats := 2,
      totalSectors := 69632, mirroring := true, activeFat := 0, rootDirFirstCluster := 2, fsInfoSector := 1,
      backupBootSector := 6, statusDirty := false, statusIoError := false } := by decide +kernel

/-! ## 1. totality

Holds at full strength since the repair of F7 (`fix: boot sector validation no longer overflows on huge FAT
sizes`): the region sum is checked in `u64` before any `u32` arithmetic, the FAT capacity is computed in `u64`. -/

/-- C07.1: whatever the 512 bytes are, strict or not, parsing + validating + deriving the geometry never panics. -/
theorem mount_total {b : List Nat} (hb : IsSector b) (strict : Bool) : probe b strict ≠ .error .panic := by
  intro h
  cases probe_error hb h

/-- every failure of the boot-sector part of the mount is `CorruptedFileSystem` -/
theorem mount_error_corrupted {b : List Nat} (hb : IsSector b) {strict : Bool} {e : Err}
    (h : probe b strict = .error e) : e = .corrupted := probe_error hb h

/-- C07.1 for the whole of `FileSystem::new` (boot sector + FS-info sector; any FS-info bytes) -/
theorem mount_total_full {bs fi : List Nat} (hb : IsSector bs) (strict : Bool) :
    mountGeometry bs fi strict ≠ .error .panic := by
  intro h
  unfold mountGeometry at h
  rw [ebind_eq_error] at h
  rcases h with h | ⟨g, hg, h⟩
  · exact mount_total hb strict h
  obtain ⟨hv, rfl⟩ := probe_ok hb hg
  have hr := Bpb.deserialize_inRange hb
  rw [ebind_eq_error] at h
  rcases h with h | ⟨f, _, h⟩
  · -- reading the FS-info sector: a `u64` product of two `u16`s, then signature checks
    unfold readFsInfo at h
    split at h
    · rw [show (BootSector.deserialize bs).bpb = Bpb.deserialize bs from rfl,
        bytesFromSectors_total hr (by have := hr.fsInfo; omega), ebind_ok] at h
      unfold FsInfo.deserialize at h
      repeat' split at h
      all_goals cases h
    · cases h
  · rw [ebind_eq_error] at h
    rcases h with h | ⟨_, _, h⟩
    · have := hv.limit
      unfold FsInfo.validateAndFix at h
      change (u32Add (Bpb.deserialize bs).tcNat 2 >>= _) = _ at h
      rw [u32Add_of_lt (by omega), ebind_ok] at h
      cases h
    · cases h

example : IsSector goodFat32 ∧ IsSector goodFat16 := by decide +kernel

/-! Regression: the former F7 witnesses (`mount_panics_counterexample_*`) are now rejected with
`CorruptedFileSystem`, and the coherent big volumes that used to panic now mount. -/

/-- 255 FATs of 0x02000000 sectors; `sectors_per_fat_32 = 0xFFFFFFFF`; `= 0x80000000` (former `fats * spf` wraps) -/
example :
    probe (bootSector32 512 1 8 255 69632 0x02000000 0 2 1 6) true = .error .corrupted ∧
    probe (bootSector32 512 1 8 2 69632 0xFFFFFFFF 0 2 1 6) true = .error .corrupted ∧
    probe (bootSector32 512 1 8 2 69632 0x80000000 0 2 1 6) true = .error .corrupted := by decide +kernel

/-- former region-sum wraps -/
example :
    probe (bootSector32 512 1 8 2 69632 0x7FFFFFFC 0 2 1 6) true = .error .corrupted ∧
    probe (bootSector32 512 1 8 2 69632 0x7FFFFFFB 0 2 1 6) true = .error .corrupted ∧
    probe (bootSector32 512 1 8 1 69632 0xFFFFFFF8 0 2 1 6) true = .error .corrupted := by decide +kernel

/-- the coherent, correctly sized 513 GiB / 512 GiB volumes (FATs of 2^20 resp. 2^17 sectors) whose
    `sectors_per_fat * bytes_per_sector * 8` used to overflow now mount, with the geometry of the independent parse -/
example :
    (probe (bootSector32 512 8 32 2 1075838944 1048576 0 2 1 6) true).toOption.map
      (fun g => (g.fatType, g.clusterSize, g.totalClusters)) = some (.fat32, 4096, 134217720) ∧
    (probe (bootSector32 4096 1 32 2 134479902 131072 0 2 1 6) true).toOption.map
      (fun g => (g.fatType, g.clusterSize, g.totalClusters)) = some (.fat32, 4096, 134217726) := by decide +kernel

/-! ## 2. only coherent geometries are accepted

Holds at full strength since the repair of F8 / F20 (`fix: reject FAT32 volumes with an out-of-range root directory
cluster or more clusters than FAT32 allows`). -/

/-- C07.2: an accepted boot sector satisfies every clause of `Coherent`. -/
theorem mount_accepts_coherent {b : List Nat} {strict : Bool} {g : Geometry} (hb : IsSector b)
    (h : probe b strict = .ok g) : Coherent b := by
  obtain ⟨hv, rfl⟩ := probe_ok hb h
  have hr := Bpb.deserialize_inRange hb
  intro c
  cases c with
  | rootCluster =>
    simp only [Clause.holds, layout32_eq]
    cases hf : (Bpb.deserialize b).isFat32
    · simp
    · have := hv.rootCluster hf
      simp [rootClus_eq b hf, countOfClusters_eq, this]
  | clusterLimit =>
    have := hv.limit
    simp only [Clause.holds, layout32_eq, countOfClusters_eq]
    cases hf : (Bpb.deserialize b).isFat32
    · simp
    · simp; omega
  | sectorSize =>
    simp only [Clause.holds, bytsPerSec_eq]
    rcases hv.bps with h | h | h | h <;> rw [h] <;> decide
  | clusterSize =>
    simp only [Clause.holds, secPerClus_eq]
    rcases hv.spc with h | h | h | h | h | h | h | h <;> rw [h] <;> decide
  | fatCount =>
    have := hv.fats
    simp only [Clause.holds, numFATs_eq, bne_iff_ne, ne_eq]; omega
  | fatSize =>
    have := hv.spf
    simp only [Clause.holds, fatSz_eq, bne_iff_ne, ne_eq]; omega
  | regionsFit =>
    have h1 := hv.rsvd; have h2 := hv.fds; have h3 := Bpb.totalSectors_lt hr
    simp only [Clause.holds, rsvdSecCnt_eq, metaSectors_eq, totSec_eq, Bool.and_eq_true, decide_eq_true_eq]
    omega
  | fatWidth =>
    simp only [Clause.holds, layout32_eq, countOfClusters_eq, fatTypeOfCount_eq]
    have := hv.width
    cases hf : (Bpb.deserialize b).isFat32 <;> simp_all
  | fsInfoSector =>
    simp only [Clause.holds, layout32_eq]
    cases hf : (Bpb.deserialize b).isFat32
    · simp
    · have := hv.fsInfo hf
      simp [fsInfo_eq b hf, rsvdSecCnt_eq, this]
  | backupSector =>
    simp only [Clause.holds, layout32_eq]
    cases hf : (Bpb.deserialize b).isFat32
    · simp
    · have := hv.backup hf
      simp [bkBootSec_eq b hf, rsvdSecCnt_eq, this]

/-- the same through the full mount -/
theorem mount_accepts_coherent_full {bs fi : List Nat} {strict : Bool} {m : Mounted} (hb : IsSector bs)
    (h : mountGeometry bs fi strict = .ok m) : Coherent bs := by
  unfold mountGeometry at h
  rw [ebind_eq_ok] at h
  obtain ⟨g, hg, _⟩ := h
  exact mount_accepts_coherent hb hg

example : (probe goodFat32 false).toOption.isSome = true ∧ (probe goodFat16 true).toOption.isSome = true := by
  decide +kernel

/-- regression for F8: root clusters 0, 1, `total+2`, `0xFFFFFFFF` are rejected; the first and the last valid
    root cluster (2 and 68 553 on this 68 552-cluster volume) are accepted -/
example :
    (∀ rc ∈ [0, 1, 68554, 0xFFFFFFFF],
      probe (bootSector32 512 1 8 2 69632 536 0 rc 1 6) true = .error .corrupted) ∧
    (∀ rc ∈ [2, 68553],
      (probe (bootSector32 512 1 8 2 69632 536 0 rc 1 6) true).toOption.map (·.rootDirFirstCluster) = some rc) := by
  decide +kernel

/-- regression for F20: 0x0FFFFFFF and 0x0FFFFFF5 clusters are rejected, `FAT32_MAX_CLUSTERS` = 0x0FFFFFF4 is the
    largest accepted count -/
example :
    probe (bootSector32 512 1 8 2 268436535 536 0 2 1 6) true = .error .corrupted ∧
    probe (bootSector32 512 1 8 2 268436525 536 0 2 1 6) true = .error .corrupted ∧
    (probe (bootSector32 512 1 8 2 268436524 536 0 2 1 6) true).toOption.map (·.totalClusters)
      = some 0x0FFFFFF4 := by decide +kernel

/-! ## 3. the accepted geometry is the independently parsed one -/

/-- C07.3: FAT width, cluster size and cluster count of an accepted volume equal what the independent parse of
    the same bytes derives (in unbounded arithmetic). -/
theorem mount_geometry {b : List Nat} {strict : Bool} {g : Geometry} (hb : IsSector b)
    (h : probe b strict = .ok g) : (g.fatType, g.clusterSize, g.totalClusters) = specGeometry b := by
  obtain ⟨_, rfl⟩ := probe_ok hb h
  simp only [specGeometry, Bpb.geoOf, countOfClusters_eq, secPerClus_eq, bytsPerSec_eq, fatTypeOfCount_eq]

/-- the same through the full mount -/
theorem mount_geometry_full {bs fi : List Nat} {strict : Bool} {m : Mounted} (hb : IsSector bs)
    (h : mountGeometry bs fi strict = .ok m) :
    (m.geo.fatType, m.geo.clusterSize, m.geo.totalClusters) = specGeometry bs := by
  unfold mountGeometry at h
  simp only [ebind_eq_ok] at h
  obtain ⟨g, hg, _, _, _, _, h⟩ := h
  cases h
  exact mount_geometry hb hg

example : (probe goodFat32 true).toOption.isSome = true ∧ specGeometry goodFat32 = (.fat32, 512, 68552) :=
  ⟨by decide +kernel, by decide +kernel⟩

/-! ## 4. FS-info values are in range or absent after mounting -/

/-- C07.4 on `validate_and_fix` alone -/
theorem fsinfo_fixed {f f' : FsInfo} {total : Nat} (h : f.validateAndFix total = .ok f') :
    (∀ n, f'.freeClusterCount = some n → n ≤ total) ∧
    (∀ n, f'.nextFreeCluster = some n → n ≤ total + 2) := by
  unfold FsInfo.validateAndFix at h
  rw [ebind_eq_ok] at h
  obtain ⟨mx, hmx, h⟩ := h
  rw [u32Add_ok] at hmx
  cases h
  exact ⟨fun n hn => (FsInfo.fixFree_le hn).1, fun n hn => by have := (FsInfo.fixNext_le hn).1; omega⟩

/-- C07.4 on the mounted volume: the cached free count is `≤ total_clusters` or absent, and absent on a dirty
    volume; the next-free hint is in `[2, total_clusters + 2]` or absent (`total + 2` itself — one past the last
    valid cluster — passes the code's `>` test, cf. F13); FAT12/16 volumes have neither. -/
theorem fsinfo_fixed_mount {bs fi : List Nat} {strict : Bool} {m : Mounted}
    (h : mountGeometry bs fi strict = .ok m) :
    (∀ n, m.fsInfo.freeClusterCount = some n → n ≤ m.geo.totalClusters ∧ m.geo.statusDirty = false) ∧
    (∀ n, m.fsInfo.nextFreeCluster = some n → 2 ≤ n ∧ n ≤ m.geo.totalClusters + 2) ∧
    (m.geo.fatType ≠ .fat32 → m.fsInfo.freeClusterCount = none ∧ m.fsInfo.nextFreeCluster = none) := by
  unfold mountGeometry at h
  simp only [ebind_eq_ok] at h
  obtain ⟨g, _, f0, hf0, f1, hf1, h⟩ := h
  cases h
  have hfix := fsinfo_fixed hf1
  unfold FsInfo.validateAndFix at hf1
  rw [ebind_eq_ok] at hf1
  obtain ⟨mx, _, hf1⟩ := hf1
  cases hf1
  refine ⟨fun n hn => ⟨hfix.1 n hn, ?_⟩, fun n hn => ⟨?_, hfix.2 n hn⟩, fun hne => ?_⟩
  · have := (FsInfo.fixFree_le hn).2
    unfold forgetIfDirty at this
    cases hd : g.statusDirty
    · rfl
    · rw [hd] at this; simp at this
  · have h2 := (FsInfo.fixNext_le hn).2
    have h3 : f0.nextFreeCluster = some n := by
      unfold forgetIfDirty at h2; split at h2 <;> exact h2
    unfold readFsInfo at hf0
    split at hf0
    · rw [ebind_eq_ok] at hf0
      obtain ⟨_, _, hd⟩ := hf0
      exact FsInfo.deserialize_next_ge hd h3
    · cases hf0; cases h3
  · unfold readFsInfo at hf0
    rw [if_neg hne] at hf0
    cases hf0
    constructor
    · show FsInfo.fixFree _ (forgetIfDirty g.statusDirty {}).freeClusterCount = none
      unfold forgetIfDirty; split <;> rfl
    · show FsInfo.fixNext _ (forgetIfDirty g.statusDirty {}).nextFreeCluster = none
      unfold forgetIfDirty; split <;> rfl

example : (mountGeometry goodFat32 (fsInfoSector 68552 68554) true).toOption.map (·.fsInfo)
    = some { freeClusterCount := some 68552, nextFreeCluster := some 68554, dirty := false } ∧
    (mountGeometry goodFat32 (fsInfoSector 68553 68555) true).toOption.map (·.fsInfo)
    = some { freeClusterCount := none, nextFreeCluster := none, dirty := false } := by decide +kernel

/-! ## 5. offset arithmetic on an accepted geometry (C11.1, C20.1, C20.2) -/

/-- `offset_from_cluster c` for a data cluster of an accepted volume: the checked `u32`/`u64` computation succeeds
    (no wrap at 2^32 or 2^64), is exact, and the whole cluster lies between the first data sector and the declared
    end of the volume, which is below 2^44. -/
theorem offset_arith {b : List Nat} {strict : Bool} {g : Geometry} (hb : IsSector b)
    (h : probe b strict = .ok g) {c : Nat} (hc2 : 2 ≤ c) (hc : c < g.totalClusters + 2) :
    ∃ off, offsetFromCluster (Bpb.deserialize b) g.firstDataSector c = .ok off ∧
      off = (g.firstDataSector + (c - 2) * (Bpb.deserialize b).sectorsPerCluster) * g.bytesPerSector ∧
      g.firstDataSector * g.bytesPerSector ≤ off ∧
      off + g.clusterSize ≤ g.totalSectors * g.bytesPerSector ∧
      g.totalSectors * g.bytesPerSector < 2 ^ 44 := by
  obtain ⟨hv, rfl⟩ := probe_ok hb h
  obtain ⟨h1, h2, h3, h4⟩ := offsetFromCluster_ok (Bpb.deserialize_inRange hb) hv hc2 hc
  exact ⟨_, h1, rfl, h2, h3, h4⟩

example : offsetFromCluster (Bpb.deserialize goodFat32) 1080 68553 = .ok ((1080 + 68551) * 512) := by
  decide +kernel

/-- `FatEntriesFit`: the FAT has an entry for every cluster — the condition `validate_total_clusters` merely
    *warns* about; an accepted volume need not satisfy it (`fat_too_small_accepted`). It is not a clause of C07's
    `Coherent`: reads/writes of entries beyond the FAT are clipped by `DiskSlice`, not misdirected. -/
def FatEntriesFit (g : Geometry) : Prop :=
  g.totalClusters + 2 ≤ g.sectorsPerFat * g.bytesPerSector * 8 / g.fatType.bits

instance (g : Geometry) : Decidable (FatEntriesFit g) := by unfold FatEntriesFit; exact inferInstance

/-- C20.2: the byte offset of FAT entry `c` (`c*4`, `c*2`, `c + c/2`) does not wrap `u32`, and, when the FAT has an
    entry for every cluster, the entry lies inside one FAT copy. -/
theorem fat_offset_arith {b : List Nat} {strict : Bool} {g : Geometry} (hb : IsSector b)
    (h : probe b strict = .ok g) {c : Nat} (hc : c < g.totalClusters + 2) :
    (c * 4 < 2 ^ 32 ∧ c * 2 < 2 ^ 32 ∧ c + c / 2 < 2 ^ 32) ∧
    (FatEntriesFit g →
      (g.fatType = .fat32 → c * 4 + 4 ≤ g.sectorsPerFat * g.bytesPerSector) ∧
      (g.fatType = .fat16 → c * 2 + 2 ≤ g.sectorsPerFat * g.bytesPerSector) ∧
      (g.fatType = .fat12 → c + c / 2 + 2 ≤ g.sectorsPerFat * g.bytesPerSector)) := by
  obtain ⟨hv, rfl⟩ := probe_ok hb h
  refine ⟨fatEntry_nowrap hv hc, fun hfit => ?_⟩
  obtain ⟨h32, h16, h12⟩ := fatEntry_inside (Bpb.fatBits_cases _) hfit hc
  refine ⟨fun ht => h32 (by rw [ht]; rfl), fun ht => h16 (by rw [ht]; rfl), fun ht => h12 (by rw [ht]; rfl)⟩

example : (probe goodFat32 true).toOption.map (fun g => decide (FatEntriesFit g)) = some true := by
  decide +kernel

/-- a FAT32 volume whose FAT (1 sector = 128 entries) is far too small for its 69 598 clusters is accepted -/
theorem fat_too_small_accepted :
    (probe (bootSector32 512 1 32 2 69632 1 0 2 1 6) true).toOption.map
      (fun g => (g.totalClusters, decide (FatEntriesFit g))) = some (69598, false) := by decide +kernel

/-- placement of the FAT slice (`fat_slice`) of an accepted volume, in sectors: it starts at or after the reserved
    area and all its mirrors end before the root directory / data area — provided that, when mirroring is off,
    the active FAT index is below the number of FATs (NOT validated by the code: `active_fat_counterexample`). -/
theorem fat_slice_placement {b : List Nat} {strict : Bool} {g : Geometry} (hb : IsSector b)
    (h : probe b strict = .ok g) (hact : g.mirroring = false → g.activeFat < g.fats) :
    ∃ first, fatSlice (Bpb.deserialize b) =
        .ok { sBegin := first * g.bytesPerSector, size := g.sectorsPerFat * g.bytesPerSector,
              mirrors := if g.mirroring then g.fats else 1 } ∧
      g.reservedSectors ≤ first ∧
      first + (if g.mirroring then g.fats else 1) * g.sectorsPerFat ≤ g.reservedSectors + g.fats * g.sectorsPerFat ∧
      g.reservedSectors + g.fats * g.sectorsPerFat + g.rootDirSectors = g.firstDataSector := by
  obtain ⟨hv, rfl⟩ := probe_ok hb h
  obtain ⟨first, _, h2, h3, h4⟩ := fatSlice_ok (Bpb.deserialize_inRange hb) hv hact
  exact ⟨first, h2, h3, h4, rfl⟩

example : (probe goodFat32 true).toOption.map (fun g => (g.mirroring, g.activeFat, g.fats)) = some (true, 0, 2) ∧
    fatSlice (Bpb.deserialize goodFat32) = .ok { sBegin := 8 * 512, size := 536 * 512, mirrors := 2 } := by
  decide +kernel

/-- observation (relevant to C08.4/C10/C11): with mirroring off, an active-FAT index ≥ the number of FATs is
    accepted; the FAT slice then lies in the data area (2 FATs, `extended_flags = 0x8F`: the slice starts at
    sector 8 + 15·536 = 8048, the data area at sector 1080) -/
theorem active_fat_counterexample :
    (probe (bootSector32 512 1 8 2 69632 536 0x8F 2 1 6) true).toOption.map
        (fun g => (g.mirroring, g.activeFat, g.fats, g.firstDataSector)) = some (false, 15, 2, 1080) ∧
    fatSlice (Bpb.deserialize (bootSector32 512 1 8 2 69632 536 0x8F 2 1 6)) =
      .ok { sBegin := 8048 * 512, size := 536 * 512, mirrors := 1 } := by decide +kernel

/-- placement of the fixed root directory of an accepted FAT12/16 volume: right after the FATs, up to the first
    data sector -/
theorem root_slice_placement {b : List Nat} {strict : Bool} {g : Geometry} (hb : IsSector b)
    (h : probe b strict = .ok g) :
    rootDirSlice (Bpb.deserialize b) g.firstDataSector g.rootDirSectors =
      .ok { sBegin := (g.reservedSectors + g.fats * g.sectorsPerFat) * g.bytesPerSector,
            size := g.rootDirSectors * g.bytesPerSector, mirrors := 1 } ∧
    g.reservedSectors + g.fats * g.sectorsPerFat + g.rootDirSectors = g.firstDataSector := by
  obtain ⟨hv, rfl⟩ := probe_ok hb h
  exact ⟨rootDirSlice_ok (Bpb.deserialize_inRange hb) hv, rfl⟩

example : IsSector goodFat16 ∧
    (probe goodFat16 true).toOption.map
      (fun g => (g.fatType, g.totalClusters, g.firstDataSector, g.rootDirSectors)) = some (.fat16, 8167, 97, 32) ∧
    rootDirSlice (Bpb.deserialize goodFat16) 97 32 = .ok { sBegin := 65 * 512, size := 32 * 512, mirrors := 1 } := by
  decide +kernel

/-! ## 6. no arithmetic of an accepted volume can overflow

After mounting, the library keeps calling the `u32`/`u64` getters of the BPB (`first_data_sector()`,
`total_clusters()`, `bytes_from_sectors`, `sector_from_cluster`, …). None of them can panic on an accepted volume. -/

/-- every BPB getter is total on an accepted volume and returns the unbounded-arithmetic value -/
theorem accepted_arith_total {b : List Nat} {strict : Bool} {g : Geometry} (hb : IsSector b)
    (h : probe b strict = .ok g) :
    (Bpb.deserialize b).rootDirSectors = .ok g.rootDirSectors ∧
    (Bpb.deserialize b).sectorsPerAllFats = .ok (g.fats * g.sectorsPerFat) ∧
    (Bpb.deserialize b).firstDataSector = .ok g.firstDataSector ∧
    (Bpb.deserialize b).totalClusters = .ok g.totalClusters ∧
    (Bpb.deserialize b).clusterSize = .ok g.clusterSize ∧
    (∀ s, s < 2 ^ 32 → (Bpb.deserialize b).bytesFromSectors s = .ok (s * g.bytesPerSector)) ∧
    (∀ k, k ≤ g.totalClusters →
      (Bpb.deserialize b).sectorsFromClusters k = .ok (k * (Bpb.deserialize b).sectorsPerCluster) ∧
      bytesFromClusters (Bpb.deserialize b) k = .ok (k * (Bpb.deserialize b).sectorsPerCluster * g.bytesPerSector)) ∧
    (∀ c, 2 ≤ c → c < g.totalClusters + 2 →
      sectorFromCluster (Bpb.deserialize b) g.firstDataSector c =
        .ok (g.firstDataSector + (c - 2) * (Bpb.deserialize b).sectorsPerCluster) ∧
      g.firstDataSector + (c - 2) * (Bpb.deserialize b).sectorsPerCluster + (Bpb.deserialize b).sectorsPerCluster
        ≤ g.totalSectors) ∧
    (∀ n, n < 2 ^ 63 → ∃ k, (Bpb.deserialize b).clustersFromBytes n = .ok k) := by
  obtain ⟨hv, rfl⟩ := probe_ok hb h
  have hr := Bpb.deserialize_inRange hb
  have hbps := hv.bps
  refine ⟨Bpb.rootDirSectors_eq hr (by omega), sectorsPerAllFats_valid hv, firstDataSector_valid hr hv,
    totalClusters_valid hr hv, Bpb.clusterSize_eq hr, fun s hs => bytesFromSectors_total hr hs,
    fun k hk => ⟨(sectorsFromClusters_valid hr hv hk).1, bytesFromClusters_valid hr hv hk⟩,
    fun c h2 hc => sectorFromCluster_ok hr hv h2 hc, fun n hn => ⟨_, clustersFromBytes_valid hr hv hn⟩⟩

example : (Bpb.deserialize goodFat32).firstDataSector = .ok 1080 ∧
    (Bpb.deserialize goodFat32).totalClusters = .ok 68552 ∧
    sectorFromCluster (Bpb.deserialize goodFat32) 1080 68553 = .ok 69631 := by decide +kernel

/-! ## sanity of the (de)serialisers on the witnesses -/

example : BootSector.serialize (BootSector.deserialize goodFat32) = goodFat32 ∧
    BootSector.serialize (BootSector.deserialize goodFat16) = goodFat16 := by decide +kernel

example : FsInfo.deserialize (FsInfo.serialize { freeClusterCount := some 7, nextFreeCluster := none }) =
      .ok { freeClusterCount := some 7, nextFreeCluster := none } ∧
    FsInfo.serialize { freeClusterCount := some 68552, nextFreeCluster := some 68554 } =
      fsInfoSector 68552 68554 := by decide +kernel

end FatVerif.C07
