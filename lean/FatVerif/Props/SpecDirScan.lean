import FatVerif.Spec.FatSpec
/-!
# The directory scanner of the oracles: end marker and what follows it

C03's clause "nothing follows the end-of-directory marker" is judged by the Fsck oracle on `scanDir`'s fields `endPos`
and `afterEnd`.  For every slot list: the end position reported is that of the FIRST slot whose first byte is 0, and
`afterEnd` is exactly the list of later slots whose first byte is not 0 (`scanDir_end`); without such a slot both are
empty (`scanDir_no_end`).
-/
namespace FatVerif.Spec

theorem scanAfterEnd_toList : ∀ (l : List Slot) (acc : Array Slot),
    (scanAfterEnd l acc).toList = acc.toList ++ l.filter (fun s => decide (s.b 0 ≠ 0))
  | [], acc => by simp [scanAfterEnd]
  | s :: rest, acc => by
    unfold scanAfterEnd
    rw [scanAfterEnd_toList rest]
    by_cases h : s.b 0 = 0
    · simp [h]
    · simp [h]

theorem slotKind_end_iff (s : Slot) : slotKind s = .endMark ↔ s.b 0 = 0 := by
  unfold slotKind
  constructor
  · intro h
    split at h
    · assumption
    · split at h
      · cases h
      · split at h
        · cases h
        · split at h <;> cases h
  · intro h
    rw [if_pos h]

theorem scanSlots_end : ∀ (pre : List Slot) (e : Slot) (post : List Slot) (pending : List Slot) (sc : DirScan),
    (∀ s ∈ pre, s.b 0 ≠ 0) → e.b 0 = 0 →
    (scanSlots (pre ++ e :: post) pending sc).endPos = some e.pos ∧
    (scanSlots (pre ++ e :: post) pending sc).afterEnd.toList = post.filter (fun s => decide (s.b 0 ≠ 0))
  | [], e, post, pending, sc, _, he => by
    have hk : slotKind e = .endMark := (slotKind_end_iff e).mpr he
    simp only [List.nil_append, scanSlots, hk]
    exact ⟨trivial, by rw [scanAfterEnd_toList]; simp⟩
  | s :: pre, e, post, pending, sc, hpre, he => by
    have hs : s.b 0 ≠ 0 := hpre s (by simp)
    have hk : slotKind s ≠ .endMark := fun h => hs ((slotKind_end_iff s).mp h)
    have hpre' : ∀ t ∈ pre, t.b 0 ≠ 0 := fun t ht => hpre t (List.mem_cons_of_mem _ ht)
    simp only [List.cons_append, scanSlots]
    cases hkk : slotKind s with
    | endMark => exact absurd hkk hk
    | deleted => exact scanSlots_end pre e post _ _ hpre' he
    | lfn => exact scanSlots_end pre e post _ _ hpre' he
    | label => exact scanSlots_end pre e post _ _ hpre' he
    | short => exact scanSlots_end pre e post _ _ hpre' he

theorem scanSlots_no_end : ∀ (l : List Slot) (pending : List Slot) (sc : DirScan),
    (∀ s ∈ l, s.b 0 ≠ 0) →
    (scanSlots l pending sc).endPos = sc.endPos ∧ (scanSlots l pending sc).afterEnd = sc.afterEnd
  | [], pending, sc, _ => by simp [scanSlots]
  | s :: l, pending, sc, h => by
    have hs : s.b 0 ≠ 0 := h s (by simp)
    have hk : slotKind s ≠ .endMark := fun hh => hs ((slotKind_end_iff s).mp hh)
    have h' : ∀ t ∈ l, t.b 0 ≠ 0 := fun t ht => h t (List.mem_cons_of_mem _ ht)
    simp only [scanSlots]
    cases hkk : slotKind s with
    | endMark => exact absurd hkk hk
    | deleted => exact scanSlots_no_end l _ _ h'
    | lfn => exact scanSlots_no_end l _ _ h'
    | label => exact scanSlots_no_end l _ _ h'
    | short => exact scanSlots_no_end l _ _ h'

/-- **`scanDir_end`.**  The end marker the oracles report is the FIRST slot whose first byte is 0; `afterEnd` is exactly
    the later slots whose first byte is not 0. -/
theorem scanDir_end (pre : List Slot) (e : Slot) (post : List Slot) (hpre : ∀ s ∈ pre, s.b 0 ≠ 0) (he : e.b 0 = 0) :
    (scanDir (pre ++ e :: post)).endPos = some e.pos ∧
    (scanDir (pre ++ e :: post)).afterEnd.toList = post.filter (fun s => decide (s.b 0 ≠ 0)) :=
  scanSlots_end pre e post [] {} hpre he

/-- **`scanDir_no_end`.**  Without a slot whose first byte is 0 there is no end marker and nothing after it. -/
theorem scanDir_no_end (l : List Slot) (h : ∀ s ∈ l, s.b 0 ≠ 0) :
    (scanDir l).endPos = none ∧ (scanDir l).afterEnd = #[] :=
  scanSlots_no_end l [] {} h

end FatVerif.Spec

/-! ## what a long-name run the oracles accept looks like -/

namespace FatVerif.Spec

theorem ordersDescend_spec : ∀ (l : List Slot) (n : Nat), ordersDescend l n = true →
    l.length = n ∧ ∀ i (h : i < l.length), (l[i]).lfnOrd = n - i
  | [], n, h => by
    simp [ordersDescend] at h
    exact ⟨by simp [h], fun i hi => by simp at hi⟩
  | s :: rest, n, h => by
    simp only [ordersDescend, Bool.and_eq_true, bne_iff_ne, ne_eq, beq_iff_eq] at h
    obtain ⟨⟨hn, hs⟩, hr⟩ := h
    obtain ⟨hl, hi⟩ := ordersDescend_spec rest (n - 1) hr
    refine ⟨by simp [hl]; omega, ?_⟩
    intro i h
    cases i with
    | zero => simpa using hs
    | succ j =>
      simp only [List.getElem_cons_succ]
      rw [hi j (by simpa using h)]
      omega

/-- **`runName_spec`.**  A long-name run the oracles accept for a short entry is complete (its first slot carries
    `0x40 | n`, `1 ≤ n ≤ 20`, and the run has exactly `n` slots), correctly ordered (`n, n-1, …, 1`), made of long-name
    slots only, every slot checksummed against the 11 name bytes of THAT short entry, and its name — the units up to
    the first `0x0000` — has 1 … 255 units.  (C03: "every long-name run is complete, correctly ordered … and
    checksummed against its short entry".) -/
theorem runName_spec (run : List Slot) (sfn : Slot) (name : List Nat) (h : runName run sfn = some name) :
    ∃ first rest n, run = first :: rest ∧ first.lfnOrd = 64 + n ∧ 1 ≤ n ∧ n ≤ 20 ∧ run.length = n ∧
      (∀ i (hi : i < rest.length), (rest[i]).lfnOrd = n - 1 - i) ∧
      (∀ s ∈ run, s.attr % 64 = 0x0F) ∧
      (∀ s ∈ run, s.lfnChk = sfnChecksum sfn.name11) ∧
      name = cutAtZero (runUnits run) ∧ 1 ≤ name.length ∧ name.length ≤ 255 := by
  cases run with
  | nil => simp [runName] at h
  | cons first rest =>
    simp only [runName] at h
    split at h
    · cases h
    · rename_i h1
      split at h
      · cases h
      · rename_i h2
        split at h
        · cases h
        · rename_i h3
          split at h
          · cases h
          · rename_i h4
            split at h
            · cases h
            · rename_i h5
              split at h
              · cases h
              · rename_i h6
                cases h
                have ho : first.lfnOrd = 64 + first.lfnOrd % 64 := by
                  by_cases e : first.lfnOrd = 64 + first.lfnOrd % 64
                  · exact e
                  · exact absurd e (by simpa using h1)
                have hd : ordersDescend rest (first.lfnOrd % 64 - 1) = true := by
                  cases hc : ordersDescend rest (first.lfnOrd % 64 - 1) with
                  | true => rfl
                  | false => rw [hc] at h3; simp at h3
                obtain ⟨hl, hi⟩ := ordersDescend_spec rest _ hd
                have ha : ∀ s ∈ first :: rest, s.attr % 64 = 0x0F := by
                  have : (first :: rest).all (fun s => s.attr % 64 == 0x0F) = true := by
                    cases hc : (first :: rest).all (fun s => s.attr % 64 == 0x0F) with
                    | true => rfl
                    | false => rw [hc] at h4; simp at h4
                  intro s hs
                  have := List.all_eq_true.mp this s hs
                  simpa using this
                have hk : ∀ s ∈ first :: rest, s.lfnChk = sfnChecksum sfn.name11 := by
                  have : (first :: rest).all (fun s => s.lfnChk == sfnChecksum sfn.name11) = true := by
                    cases hc : (first :: rest).all (fun s => s.lfnChk == sfnChecksum sfn.name11) with
                    | true => rfl
                    | false => rw [hc] at h5; simp at h5
                  intro s hs
                  have := List.all_eq_true.mp this s hs
                  simpa using this
                refine ⟨first, rest, first.lfnOrd % 64, rfl, ho, by omega, by omega, by simp [hl]; omega, hi, ha, hk, rfl,
                  by omega, by omega⟩

end FatVerif.Spec
