import FatVerif.Model.Basic
import FatVerif.Spec.SpecTest
/-! Kernel-checked sanity facts about the executable specifications on tiny hand-made structures: the predicates are
    not vacuous (they accept what they should and reject what they should). Everything by `decide` / `rfl`. -/
namespace FatVerif.Spec.Sanity
open FatVerif FatVerif.Spec FatVerif.Spec.Test

/-! ## FAT entries and chains -/

/-- a 6-entry FAT16: media, EOC, 2→3, 3→5, 4 free, 5 EOC -/
def fat16 : List Nat := [0xF8, 0xFF, 0xFF, 0xFF, 0x03, 0x00, 0x05, 0x00, 0x00, 0x00, 0xFF, 0xFF]
def rd16fat (k : Nat) : Nat := fat16.getD k 0
def entry16 (k : Nat) : FatClass := classifyRaw 16 4 (fatEntryRawF 16 rd16fat 0 k)

theorem fat16_entries :
    (List.range 6).map entry16 = [.eoc, .eoc, .next 3, .next 5, .free, .eoc] := by decide

theorem fat16_chain : walkChainF entry16 4 2 = (#[2, 3, 5], .eoc) := by decide

theorem fat16_chain_free : (walkChainF entry16 4 4).2 = .free 4 := by decide

theorem fat16_first_out_of_range : walkChainF entry16 4 6 = (#[], .range 6) := by decide

/-- the same FAT with 5→2: a cycle, detected -/
def entryCyc (k : Nat) : FatClass := if k = 5 then .next 2 else entry16 k
theorem fat16_cycle : (walkChainF entryCyc 4 2).2 = .cycle 3 := by decide

/-- a self-loop -/
theorem self_loop : (walkChainF (fun _ => .next 2) 4 2).2 = .cycle 2 := by decide

/-- FAT12: two entries share the middle byte -/
theorem fat12_pair : fatEntryRawF 12 ([0x23, 0x61, 0x45].getD · 0) 0 0 = 0x123 ∧
                     fatEntryRawF 12 ([0x23, 0x61, 0x45].getD · 0) 0 1 = 0x456 := by decide

/-- FAT32: the top nibble is not part of the value -/
theorem fat32_top_nibble : classifyRaw 32 100 0xF0000000 = .free ∧ classifyRaw 32 100 0xA0000007 = .next 7 ∧
    classifyRaw 32 100 0x1FFFFFF8 = .eoc ∧ classifyRaw 32 100 0x0FFFFFF7 = .bad ∧
    classifyRaw 32 100 1 = .reserved ∧ classifyRaw 32 100 102 = .reserved ∧ classifyRaw 32 100 101 = .next 101 := by
  decide

def fat12Expected (v : Nat) : FatClass :=
  if v = 0 then .free else if v ≥ 0xFF8 then .eoc else if v = 0xFF7 then .bad
  else if 2 ≤ v ∧ v < 2002 then .next v else .reserved

/-- complete classification of all 4096 FAT12 values on a volume with 2000 clusters -/
theorem fat12_classes : (List.range 4096).all (fun v => classifyRaw 12 2000 v == fat12Expected v) = true := by
  decide +kernel

/-! ## Short-name checksum: the specification's definition agrees with the model's for every input -/

theorem checksum_step (s c : Nat) :
    ((if s % 2 = 1 then 0x80 else 0) + s / 2 + c) % 256 = lfnChecksumStep s c := by
  unfold lfnChecksumStep
  split <;> omega

theorem checksum_fold (l : List Nat) (a : Nat) :
    l.foldl (fun sum c => ((if sum % 2 = 1 then 0x80 else 0) + sum / 2 + c) % 256) a = l.foldl lfnChecksumStep a := by
  induction l generalizing a with
  | nil => rfl
  | cons x xs ih => simp only [List.foldl_cons, checksum_step]

theorem sfnChecksum_eq_model (l : List Nat) : sfnChecksum l = lfnChecksum l := checksum_fold l 0

/-! ## Long-name runs -/

def sfnA : List Nat := name11Of "HELLOW~1TXT"
def nameA : List Nat := asciiUnits "Hello World.txt"        -- 15 units: 2 slots, terminator, 10 × 0xFFFF
def runA : List Slot := mkSlots 0 (genRun nameA sfnA)
def slotA : Slot := { pos := 64, bytes := (sfnSlotBytes sfnA 0x20 0 2 700).toArray }

theorem runA_shape : runA.map Slot.lfnOrd = [0x42, 0x01] ∧ runA.all (fun s => s.bytes.size == 32) = true := by decide

theorem runA_valid : lfnName runA slotA = some nameA := by decide

theorem runA_strict : strictRun runA slotA = none := by decide

/-- a 13-unit name fills its slot exactly: no terminator, no padding, still valid and strictly well-formed -/
def name13 : List Nat := asciiUnits "thirteen_char"
theorem run13_valid : lfnName (mkSlots 0 (genRun name13 sfnA)) slotA = some name13 ∧
    strictRun (mkSlots 0 (genRun name13 sfnA)) slotA = none := by decide

/-- wrong checksum (different short name) → no long name, and the strict check complains -/
def slotB : Slot := { pos := 64, bytes := (sfnSlotBytes (name11Of "HELLOW~2TXT") 0x20 0 2 700).toArray }
theorem runA_wrong_sfn : lfnName runA slotB = none ∧ (strictRun runA slotB).isSome = true := by decide

/-- a run without its first (0x40) slot is not a name -/
theorem runA_truncated : lfnName (runA.drop 1) slotA = none ∧ (strictRun (runA.drop 1) slotA).isSome = true := by
  decide

/-- garbage after the terminator is tolerated by the decoder and rejected by the strict check -/
def runBadPad : List Slot :=
  match runA with
  | s :: rest => { s with bytes := s.bytes.set! 30 0x41 } :: rest
  | [] => []
theorem badPad : lfnName runBadPad slotA = some nameA ∧ (strictRun runBadPad slotA).isSome = true := by decide

/-- directory parsing: run + entry, a deleted slot, an orphan slot, a label, the end marker, and a slot after it -/
def dirSlots : List Slot :=
  mkSlots 1000 (genRun nameA sfnA ++
    [sfnSlotBytes sfnA 0x20 0 2 700,
     0xE5 :: List.replicate 31 0x11,
     lfnSlotBytes 0x41 0 (List.replicate 13 0x41),
     sfnSlotBytes (name11Of "MY LABEL   ") 0x08 0 0 0,
     sfnSlotBytes (name11Of "LOWER   TXT") 0x20 0x18 0 0,
     List.replicate 32 0,
     0x41 :: List.replicate 31 0])

theorem dir_parse :
    (parseDir 12 dirSlots).entries.map (fun e => (e.name, e.shortName, e.size, e.firstCluster, e.slotPos, e.slotCount)) =
      [("Hello World.txt", "HELLOW~1.TXT", 700, 2, 1064, 3), ("lower.txt", "lower.txt", 0, 0, 1192, 1)] := by
  decide

theorem dir_scan : (scanDir dirSlots).orphans.map Slot.pos = #[1128] ∧ (scanDir dirSlots).endPos = some 1224 ∧
    (scanDir dirSlots).afterEnd.map Slot.pos = #[1256] ∧ (scanDir dirSlots).labels.size = 1 := by decide +kernel

/-- short-name display: 0x05 lead byte, OEM byte, case flags -/
theorem short_display : shortDisplay [0x05, 0x41, 0x80, 0x20, 0x20, 0x20, 0x20, 0x20, 0x54, 0x20, 0x20] 0x10 =
    String.ofList [replChar, 'A', replChar, '.', 't'] := by decide

/-! ## Geometry and regions -/

theorem tiny_geom : (parseGeomF (tinyBoot.getD · 0)).toOption = some
    { bps := 512, spc := 1, reserved := 1, fats := 2, rootEntries := 16, totalSectors := 24, spf := 1, fatBits := 12
      rootCluster := 0, fsInfoSector := 0, backupSector := 0, extFlags := 0, media := 0xF8, statusByteOffset := 0x25 } := by
  decide +kernel

def g0 : Geom :=
  { bps := 512, spc := 1, reserved := 1, fats := 2, rootEntries := 16, totalSectors := 24, spf := 1, fatBits := 12
    rootCluster := 0, fsInfoSector := 0, backupSector := 0, extFlags := 0, media := 0xF8, statusByteOffset := 0x25 }

theorem g0_layout : g0.fatStart = 512 ∧ g0.rootStart = 1536 ∧ g0.dataStart = 2048 ∧ g0.totalClusters = 20 ∧
    g0.clusterOff 2 = 2048 ∧ g0.clusterOff 21 = 11776 ∧ g0.volumeBytes = 12288 := by decide

theorem regions_split : classify g0 1000 1100 =
    [(.fat 0, 1000, 24), (.fat 1, 1024, 512), (.rootDir, 1536, 512), (.cluster 2, 2048, 52)] := by decide

theorem regions_boot : (classify g0 0x24 3).map (·.1) = [.bootOther, .bootStatusByte, .bootOther] := by decide

theorem regions_end : (classify g0 12287 2).map (·.1) = [.cluster 21, .beyondVolume] := by decide

end FatVerif.Spec.Sanity
