import FatVerif.Proofs.MountRun3
import FatVerif.Props.C07
import FatVerif.Props.C11
import FatVerif.Props.C12
import FatVerif.Props.C13
/-! # C07 on the mount PROGRAM

`FatVerif.mount` (Model/Fs.lean) is the effectful model of `FileSystem::new` that the history correspondence check
validates call by call. The theorems of Props/C07.lean are about the pure functions `probe` / `mountGeometry` on byte
lists. `mount_run` (Proofs/MountRun3.lean) connects the two: on a fault-free device positioned at 0 that holds at
least a boot sector, `run (mount …)` returns `mountGeometry` of the first 512 bytes and of the 512 bytes at the FS-info
location (mapped to the mounted state `mountedFs`), and leaves image and log alone. Here: the corollaries that state
C07 about the program. -/
namespace FatVerif.C07run
open GeoSpec

/-- the devices `FileSystem::new` is specified on: positioned at 0 (`debug_assert!`), no fault scheduled, at least one
    boot sector long -/
structure Mountable (d : Dev) : Prop where
  pos : d.pos = 0
  noFault : d.failAt = none
  size : 512 ≤ d.img.size

/-- the boot sector of the device -/
def bootOf (d : Dev) : List Nat := d.img.read 0 512

/-- the 512 bytes at the FS-info location named by the boot sector -/
def fsInfoOf (d : Dev) : List Nat := d.img.read (fsInfoOffset (bootOf d)) 512

/-- the FS-info sector of an accepted FAT32 volume lies inside the device -/
def FsInfoInside (strict : Bool) (d : Dev) : Prop :=
  ∀ g, probe (bootOf d) strict = .ok g → g.fatType = .fat32 → fsInfoOffset (bootOf d) + 512 ≤ d.img.size

theorem isSector_bootOf (d : Dev) : IsSector (bootOf d) := isSector_read _ _

/-! ## the connection -/

/-- **`mount_run`**: the program computes the pure mount. `run (mount …) d` = `mountGeometry` of the boot sector and
    the FS-info bytes, as a mounted state; image, log, fault schedule are as before; on success the device's mounted
    state is the returned one, on failure it is untouched. -/
theorem mount_run (strict accDate lfnAlloc unicode : Bool) {d : Dev} (hd : Mountable d)
    (hfi : FsInfoInside strict d) :
    ∃ d', run (mount strict accDate lfnAlloc unicode) d =
        ((mountGeometry (bootOf d) (fsInfoOf d) strict).map (mountedFs strict accDate lfnAlloc unicode), d') ∧
      MountFrame d d' ∧
      (∀ m, mountGeometry (bootOf d) (fsInfoOf d) strict = .ok m →
        d'.fs = mountedFs strict accDate lfnAlloc unicode m) ∧
      (∀ e, mountGeometry (bootOf d) (fsInfoOf d) strict = .error e → d'.fs = d.fs) :=
  FatVerif.mount_run strict accDate lfnAlloc unicode d hd.pos hd.noFault hd.size hfi

/-- (a) a boot sector `probe` rejects: the program fails with the same error, which is `CorruptedFileSystem`; nothing
    changes -/
theorem mount_run_error (strict accDate lfnAlloc unicode : Bool) {d : Dev} (hd : Mountable d) {e : Err}
    (hp : probe (bootOf d) strict = .error e) :
    ∃ d', run (mount strict accDate lfnAlloc unicode) d = (.error e, d') ∧ e = .corrupted ∧
      MountFrame d d' ∧ d'.fs = d.fs := by
  have hfi : FsInfoInside strict d := fun g hg => by rw [hp] at hg; cases hg
  obtain ⟨d', h1, h2, _, h4⟩ := mount_run strict accDate lfnAlloc unicode hd hfi
  have hm : mountGeometry (bootOf d) (fsInfoOf d) strict = .error e := by
    unfold mountGeometry; rw [hp]; rfl
  rw [hm] at h1
  exact ⟨d', h1, probe_error (isSector_bootOf d) hp, h2, h4 e hm⟩

/-- the pure mount of an accepted FAT12/16 volume: no FS-info -/
theorem mountGeometry_fat1x {bs fi : List Nat} {strict : Bool} {g : Geometry} (hb : IsSector bs)
    (hp : probe bs strict = .ok g) (h32 : g.fatType ≠ .fat32) :
    mountGeometry bs fi strict = .ok ⟨(BootSector.deserialize bs).bpb, g, {}⟩ := by
  obtain ⟨hv, hg⟩ := probe_ok hb hp
  have hlim := hv.limit
  have htc : g.totalClusters = (Bpb.deserialize bs).tcNat := by rw [hg]; rfl
  unfold mountGeometry readFsInfo
  rw [hp, ebind_ok, if_neg h32]
  simp only [epure_eq, ebind_ok]
  unfold FsInfo.validateAndFix
  rw [u32Add_of_lt (by rw [htc]; omega), ebind_ok]
  cases g.statusDirty <;> rfl

/-- (b) an accepted FAT12/16 volume: the program succeeds without touching the FS-info sector; every geometry field
    of the mounted state is the one `probe` derives, no free count and no hint are cached -/
theorem mount_run_fat1x (strict accDate lfnAlloc unicode : Bool) {d : Dev} (hd : Mountable d) {g : Geometry}
    (hp : probe (bootOf d) strict = .ok g) (h32 : g.fatType ≠ .fat32) :
    ∃ d', run (mount strict accDate lfnAlloc unicode) d =
        (.ok (mountedFs strict accDate lfnAlloc unicode ⟨(BootSector.deserialize (bootOf d)).bpb, g, {}⟩), d') ∧
      MountFrame d d' ∧
      d'.fs = mountedFs strict accDate lfnAlloc unicode ⟨(BootSector.deserialize (bootOf d)).bpb, g, {}⟩ := by
  have hfi : FsInfoInside strict d := fun g' hg h => by
    rw [hp] at hg; cases hg; exact absurd h h32
  obtain ⟨d', h1, h2, h3, _⟩ := mount_run strict accDate lfnAlloc unicode hd hfi
  have hm := mountGeometry_fat1x (fi := fsInfoOf d) (isSector_bootOf d) hp h32
  rw [hm] at h1
  exact ⟨d', h1, h2, h3 _ hm⟩

/-- the fields of the mounted state in case (b), spelled out -/
theorem mountedFs_fields (strict accDate lfnAlloc unicode : Bool) (p : Bpb) (g : Geometry) (fi : FsInfo) :
    let fs := mountedFs strict accDate lfnAlloc unicode ⟨p, g, fi⟩
    fs.fatType = g.fatType ∧ fs.bps = g.bytesPerSector ∧ fs.spc = p.sectorsPerCluster ∧
    fs.reserved = g.reservedSectors ∧ fs.fats = g.fats ∧ fs.spf = g.sectorsPerFat ∧
    fs.rootDirSectors = g.rootDirSectors ∧ fs.firstDataSector = g.firstDataSector ∧
    fs.totalClusters = g.totalClusters ∧ fs.totalSectors = g.totalSectors ∧
    fs.rootCluster = g.rootDirFirstCluster ∧ fs.fsInfoSector = g.fsInfoSector ∧ fs.mirroring = g.mirroring ∧
    fs.activeFat = g.activeFat ∧ fs.bpbDirty = g.statusDirty ∧ fs.bpbIoErr = g.statusIoError ∧
    fs.curDirty = g.statusDirty ∧ fs.curIoErr = g.statusIoError ∧ fs.statusRaw = p.reserved1 ∧
    fs.fsInfo = fi.toSt ∧ fs.strict = strict ∧ fs.accDate = accDate :=
  ⟨rfl, rfl, rfl, rfl, rfl, rfl, rfl, rfl, rfl, rfl, rfl, rfl, rfl, rfl, rfl, rfl, rfl, rfl, rfl, rfl, rfl, rfl⟩

/-- (c) an accepted FAT32 volume whose FS-info sector lies inside the device: bad signatures give
    `CorruptedFileSystem`; otherwise the mount succeeds, the cached free count is `≤ total_clusters` (and absent on a
    dirty volume), the next-free hint is in `[2, total_clusters + 2]` — the values of `C07.fsinfo_fixed_mount` -/
theorem mount_run_fat32 (strict accDate lfnAlloc unicode : Bool) {d : Dev} (hd : Mountable d) {g : Geometry}
    (hp : probe (bootOf d) strict = .ok g) (_h32 : g.fatType = .fat32)
    (hin : fsInfoOffset (bootOf d) + 512 ≤ d.img.size) :
    ∃ d', MountFrame d d' ∧
      ((run (mount strict accDate lfnAlloc unicode) d = (.error .corrupted, d') ∧ d'.fs = d.fs ∧
          mountGeometry (bootOf d) (fsInfoOf d) strict = .error .corrupted) ∨
       (∃ m, mountGeometry (bootOf d) (fsInfoOf d) strict = .ok m ∧ m.geo = g ∧
          run (mount strict accDate lfnAlloc unicode) d = (.ok (mountedFs strict accDate lfnAlloc unicode m), d') ∧
          d'.fs = mountedFs strict accDate lfnAlloc unicode m ∧
          (∀ n, d'.fs.fsInfo.free = some n → n ≤ g.totalClusters ∧ g.statusDirty = false) ∧
          (∀ n, d'.fs.fsInfo.next = some n → 2 ≤ n ∧ n ≤ g.totalClusters + 2))) := by
  have hfi : FsInfoInside strict d := fun _ _ _ => hin
  obtain ⟨d', h1, h2, h3, h4⟩ := mount_run strict accDate lfnAlloc unicode hd hfi
  refine ⟨d', h2, ?_⟩
  cases hm : mountGeometry (bootOf d) (fsInfoOf d) strict with
  | error e =>
    have he := mountGeometry_error (isSector_bootOf d) hm
    subst he
    rw [hm] at h1
    exact Or.inl ⟨h1, h4 _ hm, rfl⟩
  | ok m =>
    have hgeo : m.geo = g := by
      unfold mountGeometry at hm
      rw [hp, ebind_ok] at hm
      simp only [ebind_eq_ok] at hm
      obtain ⟨_, _, _, _, hm⟩ := hm
      exact (congrArg Mounted.geo (Except.ok.inj hm)).symm
    obtain ⟨f1, f2, _⟩ := C07.fsinfo_fixed_mount hm
    rw [hm] at h1
    refine Or.inr ⟨m, rfl, hgeo, h1, h3 m hm, ?_, ?_⟩
    · intro n hn
      rw [h3 m hm] at hn
      rw [← hgeo]; exact f1 n hn
    · intro n hn
      rw [h3 m hm] at hn
      rw [← hgeo]; exact f2 n hn

/-! ## C07 about the program -/

/-- **C07.1 on the program**: on every fault-free device positioned at 0 that holds at least a boot sector — wherever
    its FS-info sector points — the mount program returns a mounted state or an ordinary error; never a panic, never
    a hang. -/
theorem mount_run_total (strict accDate lfnAlloc unicode : Bool) {d : Dev} (hd : Mountable d) :
    (run (mount strict accDate lfnAlloc unicode) d).1 ≠ .error .panic ∧
    (run (mount strict accDate lfnAlloc unicode) d).1 ≠ .error .hang := by
  constructor <;> intro h
  all_goals
    have hrun : run (mount strict accDate lfnAlloc unicode) d = (.error _, (run (mount strict accDate lfnAlloc unicode) d).2) :=
      Prod.ext h rfl
    have := mount_run_nonfatal strict accDate lfnAlloc unicode d hd.pos hd.noFault hd.size hrun
    cases this

/-- **C07.2 on the program**: the program accepts only coherent geometries -/
theorem mount_run_accepts_coherent (strict accDate lfnAlloc unicode : Bool) {d : Dev} (hd : Mountable d)
    {fs : FsState} {d' : Dev} (hrun : run (mount strict accDate lfnAlloc unicode) d = (.ok fs, d')) :
    Coherent (bootOf d) := by
  obtain ⟨g, _, hp, _⟩ := mount_run_ok strict accDate lfnAlloc unicode d hd.pos hd.noFault hd.size hrun
  exact C07.mount_accepts_coherent (isSector_bootOf d) hp

/-- **C07.3 on the program**: FAT width, cluster size and cluster count of the mounted state equal the independent
    parse of the boot sector -/
theorem mount_run_geometry (strict accDate lfnAlloc unicode : Bool) {d : Dev} (hd : Mountable d)
    {fs : FsState} {d' : Dev} (hrun : run (mount strict accDate lfnAlloc unicode) d = (.ok fs, d')) :
    (fs.fatType, fs.clusterSize, fs.totalClusters) = specGeometry (bootOf d) ∧ d'.fs = fs := by
  obtain ⟨g, fi, hp, rfl, hfs⟩ := mount_run_ok strict accDate lfnAlloc unicode d hd.pos hd.noFault hd.size hrun
  refine ⟨?_, hfs⟩
  have hgeo := C07.mount_geometry (isSector_bootOf d) hp
  obtain ⟨_, hg⟩ := probe_ok (isSector_bootOf d) hp
  rw [← hgeo]
  subst hg
  simp only [FsState.clusterSize, mountedFs, Bpb.geoOf, Nat.mul_comm]
  rfl

/-- **C07.4 on the program** (any FS-info location): after a successful mount the cached free count is
    `≤ total_clusters` or absent, the hint `≤ total_clusters + 2` or absent -/
theorem mount_run_fsinfo (strict accDate lfnAlloc unicode : Bool) {d : Dev} (hd : Mountable d)
    (hfi : FsInfoInside strict d)
    {fs : FsState} {d' : Dev} (hrun : run (mount strict accDate lfnAlloc unicode) d = (.ok fs, d')) :
    (∀ n, fs.fsInfo.free = some n → n ≤ fs.totalClusters ∧ fs.bpbDirty = false) ∧
    (∀ n, fs.fsInfo.next = some n → 2 ≤ n ∧ n ≤ fs.totalClusters + 2) ∧
    (fs.fatType ≠ .fat32 → fs.fsInfo.free = none ∧ fs.fsInfo.next = none) := by
  obtain ⟨d1, h1, _⟩ := mount_run strict accDate lfnAlloc unicode hd hfi
  rw [h1] at hrun
  cases hm : mountGeometry (bootOf d) (fsInfoOf d) strict with
  | error e => rw [hm] at hrun; cases hrun
  | ok m =>
    rw [hm] at hrun
    cases hrun
    exact C07.fsinfo_fixed_mount hm

/-- the mount program never writes: image and write records are as before, whatever the device and the outcome
    (`mount_readonly` of C13 / `mount_writes_nothing` of C11, by agent-effects; restated) -/
theorem mount_run_writes_nothing (strict accDate lfnAlloc unicode : Bool) (d : Dev) {r d'}
    (hr : run (mount strict accDate lfnAlloc unicode) d = (r, d')) :
    d'.img = d.img ∧ d'.writesOf = d.writesOf ∧ LogAll (fun _ _ => False) d d' :=
  ⟨((mount_readonly (fs0 := d.fs) strict accDate lfnAlloc unicode).out d r d' rfl hr).1.1,
   ((mount_readonly (fs0 := d.fs) strict accDate lfnAlloc unicode).out d r d' rfl hr).1.2,
   mount_writes_nothing strict accDate lfnAlloc unicode d hr⟩

/-! ## the status byte (discharges the hypotheses of `C12.unmount_restores_mount_byte`) -/

/-- the status fields of the mounted state built from an accepted boot sector `bs` -/
theorem mountedFs_status (strict accDate lfnAlloc unicode : Bool) {bs : List Nat} {g : Geometry} (fi : FsInfo)
    (hb : IsSector bs) (hp : probe bs strict = .ok g) :
    (mountedFs strict accDate lfnAlloc unicode ⟨(BootSector.deserialize bs).bpb, g, fi⟩).statusRaw =
      bs.getD (statusOff (mountedFs strict accDate lfnAlloc unicode ⟨(BootSector.deserialize bs).bpb, g, fi⟩)) 0 ∧
    (statusOff (mountedFs strict accDate lfnAlloc unicode ⟨(BootSector.deserialize bs).bpb, g, fi⟩) = 0x41 ∨
     statusOff (mountedFs strict accDate lfnAlloc unicode ⟨(BootSector.deserialize bs).bpb, g, fi⟩) = 0x25) ∧
    (mountedFs strict accDate lfnAlloc unicode ⟨(BootSector.deserialize bs).bpb, g, fi⟩).statusRaw < 256 := by
  obtain ⟨hv, hg⟩ := probe_ok hb hp
  subst hg
  have hraw : (mountedFs strict accDate lfnAlloc unicode
      ⟨(BootSector.deserialize bs).bpb, (Bpb.deserialize bs).geoOf, fi⟩).statusRaw = (Bpb.deserialize bs).reserved1 := rfl
  have hoff : statusOff (mountedFs strict accDate lfnAlloc unicode
      ⟨(BootSector.deserialize bs).bpb, (Bpb.deserialize bs).geoOf, fi⟩) =
      if FatType.fromClusters (Bpb.deserialize bs).tcNat = .fat32 then 0x41 else 0x25 := by
    unfold statusOff
    show (if (FatType.fromClusters (Bpb.deserialize bs).tcNat == FatType.fat32) = true then _ else _) = _
    simp only [beq_iff_eq]
  rw [hraw, hoff, Bpb.des_reserved1]
  have hw := hv.width
  rw [Bpb.des_isFat32] at hw
  have hlt := (Bpb.deserialize_inRange hb).reserved1
  rw [Bpb.des_reserved1] at hlt
  by_cases h : u16At bs 22 = 0
  · have h32 : FatType.fromClusters (Bpb.deserialize bs).tcNat = .fat32 := hw.1 (by simp [h])
    rw [if_pos h, if_pos h32]
    rw [if_pos h] at hlt
    exact ⟨rfl, Or.inl rfl, hlt⟩
  · have h32 : ¬ FatType.fromClusters (Bpb.deserialize bs).tcNat = .fat32 := by
      intro hc; have := hw.2 hc; simp [h] at this
    rw [if_neg h, if_neg h32]
    rw [if_neg h] at hlt
    exact ⟨rfl, Or.inr rfl, hlt⟩

/-- **`mount_run_status`**: after a successful mount, `fs.statusRaw` is the byte of the image at 0x41 (FAT32) / 0x25
    (FAT12/16), and `fs.bpbDirty` / `fs.bpbIoErr` are its bits 0 / 1 -/
theorem mount_run_status (strict accDate lfnAlloc unicode : Bool) {d : Dev} (hd : Mountable d)
    {fs : FsState} {d' : Dev} (hrun : run (mount strict accDate lfnAlloc unicode) d = (.ok fs, d')) :
    fs.statusRaw = d.img.getByte (statusOff fs) ∧ fs.statusRaw < 256 ∧
    fs.bpbDirty = (fs.statusRaw % 2 == 1) ∧ fs.bpbIoErr = (fs.statusRaw / 2 % 2 == 1) ∧
    fs.curDirty = fs.bpbDirty ∧ fs.curIoErr = fs.bpbIoErr ∧ d'.fs = fs := by
  obtain ⟨g, fi, hp, hfs, hfs'⟩ := mount_run_ok strict accDate lfnAlloc unicode d hd.pos hd.noFault hd.size hrun
  have hb := isSector_bootOf d
  obtain ⟨h1, h2, h3⟩ := mountedFs_status strict accDate lfnAlloc unicode fi hb hp
  have hg := (probe_ok hb hp).2
  change fs = mountedFs strict accDate lfnAlloc unicode ⟨(BootSector.deserialize (bootOf d)).bpb, g, fi⟩ at hfs
  have hget : ∀ k, k < 512 → (bootOf d).getD k 0 = d.img.getByte k := by
    intro k hk
    unfold bootOf
    rw [Img.read_getD _ _ _ _ hk, Nat.zero_add]
  generalize bootOf d = bs at *
  rw [← hfs] at h1 h2 h3
  refine ⟨?_, h3, ?_, ?_, ?_, ?_, hfs'⟩
  · rw [h1]
    exact hget _ (by rcases h2 with h | h <;> rw [h] <;> omega)
  · rw [hfs, hg]; rfl
  · rw [hfs, hg]; rfl
  · rw [hfs]; rfl
  · rw [hfs]; rfl

/-- **`unmount_restores_mount_byte_run`**: mount a volume successfully; at any later state whose mount-time fields
    (`statusRaw`, `bpbDirty`, `bpbIoErr`, `fatType` — never modified after mount) are still those of the mounted
    state, a successful `unmount_internal` that has to write the status byte (the current flags differ from the
    mount-time ones) writes exactly the byte the image held at 0x41 / 0x25 when it was mounted — all eight bits. -/
theorem unmount_restores_mount_byte_run (strict accDate lfnAlloc unicode : Bool) {d : Dev} (hd : Mountable d)
    {fs : FsState} {d1 : Dev} (hrun : run (mount strict accDate lfnAlloc unicode) d = (.ok fs, d1))
    (dl : Dev) (hraw : dl.fs.statusRaw = fs.statusRaw) (hdty : dl.fs.bpbDirty = fs.bpbDirty)
    (hio : dl.fs.bpbIoErr = fs.bpbIoErr) (hft : dl.fs.fatType = fs.fatType)
    {u : Unit} {d' : Dev} (hu : run unmountInternal dl = (.ok u, d'))
    (hdiff : ¬ (dl.fs.curDirty = dl.fs.bpbDirty ∧ dl.fs.curIoErr = dl.fs.bpbIoErr)) :
    ∃ dm : Dev, run flushFsInfo dl = (.ok (), dm) ∧
      d'.log = .write (statusOff fs) [d.img.getByte (statusOff fs)] :: dm.log := by
  obtain ⟨h1, h2, h3, h4, _⟩ := mount_run_status strict accDate lfnAlloc unicode hd hrun
  obtain ⟨dm, hm1, hm2⟩ := unmount_restores_mount_byte dl hu (by rw [hraw]; exact h2)
    (by rw [hdty, hraw]; exact h3) (by rw [hio, hraw]; exact h4) hdiff
  refine ⟨dm, hm1, ?_⟩
  have hoff : statusOff dl.fs = statusOff fs := by unfold statusOff; rw [hft]
  rw [hm2, hoff, hraw, h1]

/-! ## satisfiability: concrete devices

`Img.ofBytes` (Proofs/MountRun1.lean) gives images whose reads the kernel can evaluate (the `HashMap`-backed
`Img.write` does not reduce), so the hypotheses above are shown satisfiable by real `Dev` values. -/
namespace Ex
open C07

/-- a 16 MiB device holding the FAT16 boot sector `goodFat16` -/
def dev16 : Dev := { img := Img.ofBytes goodFat16 (16 * 1024 * 1024) }

/-- a 34 MiB device holding the FAT32 boot sector `goodFat32` and, in sector 1, an FS-info sector -/
def dev32 : Dev := { img := Img.ofBytes (goodFat32 ++ fsInfoSector 68552 68554) (69632 * 512) }

/-- a blank 4 KiB device -/
def dev0 : Dev := { img := Img.ofBytes [] 4096 }

theorem boot16 : bootOf dev16 = goodFat16 := by
  unfold bootOf dev16
  rw [Img.ofBytes_read_slice _ _ 0 512 (by omega) (by decide +kernel) (by decide +kernel)]
  decide +kernel

theorem boot32 : bootOf dev32 = goodFat32 := by
  unfold bootOf dev32
  rw [Img.ofBytes_read_slice _ _ 0 512 (by omega) (by decide +kernel) (by decide +kernel)]
  decide +kernel

theorem fsInfoOffset32 : fsInfoOffset goodFat32 = 512 := by decide +kernel

theorem fsinfo32 : fsInfoOf dev32 = fsInfoSector 68552 68554 := by
  unfold fsInfoOf
  rw [boot32, fsInfoOffset32]
  unfold dev32
  rw [Img.ofBytes_read_slice _ _ 512 512 (by omega) (by decide +kernel) (by decide +kernel)]
  decide +kernel

theorem boot0 : bootOf dev0 = List.replicate 512 0 := by
  unfold bootOf dev0
  rw [Img.ofBytes_read _ _ 0 512 (by omega) (by decide)]
  decide +kernel

theorem mountable16 : Mountable dev16 := ⟨rfl, rfl, by decide⟩
theorem mountable32 : Mountable dev32 := ⟨rfl, rfl, by decide⟩
theorem mountable0 : Mountable dev0 := ⟨rfl, rfl, by decide⟩

/-- (a): the blank device is rejected with `CorruptedFileSystem` -/
example : ∃ d', run (mount true false true true) dev0 = (.error .corrupted, d') ∧ d'.img = dev0.img ∧ d'.log = [] := by
  have hp : probe (bootOf dev0) true = .error .corrupted := by rw [boot0]; decide +kernel
  obtain ⟨d', h1, _, h3, _⟩ := mount_run_error true false true true mountable0 hp
  exact ⟨d', h1, h3.img, h3.log⟩

/-- (b): the FAT16 device mounts; geometry as `probe` derives it, no FS-info values -/
example : ∃ fs d', run (mount true false true true) dev16 = (.ok fs, d') ∧ d'.fs = fs ∧
    fs.fatType = .fat16 ∧ fs.clusterSize = 2048 ∧ fs.totalClusters = 8167 ∧ fs.firstDataSector = 97 ∧
    fs.rootDirSectors = 32 ∧ fs.fsInfo = {} ∧ d'.img = dev16.img ∧ d'.log = [] := by
  have hp : probe (bootOf dev16) true = .ok
      { fatType := .fat16, bytesPerSector := 512, clusterSize := 2048, totalClusters := 8167, firstDataSector := 97,
        rootDirSectors := 32, sectorsPerFat := 32, reservedSectors := 1, fats := 2, totalSectors := 32768,
        mirroring := true, activeFat := 0, rootDirFirstCluster := 0, fsInfoSector := 0, backupBootSector := 0,
        statusDirty := false, statusIoError := false } := by rw [boot16]; decide +kernel
  obtain ⟨d', h1, h2, h3⟩ := mount_run_fat1x true false true true mountable16 hp (by decide)
  rw [boot16] at h1 h3
  exact ⟨_, d', h1, h3, by decide +kernel, by decide +kernel, by decide +kernel, by decide +kernel,
    by decide +kernel, by decide +kernel, h2.img, h2.log⟩

/-- (c): the FAT32 device mounts; the FS-info values (free = total, hint = total + 2) pass `validate_and_fix` -/
example : FsInfoInside true dev32 ∧
    ∃ fs d', run (mount true false true true) dev32 = (.ok fs, d') ∧ d'.fs = fs ∧
      fs.fatType = .fat32 ∧ fs.totalClusters = 68552 ∧
      fs.fsInfo = { free := some 68552, next := some 68554, dirty := false } ∧ d'.img = dev32.img ∧ d'.log = [] := by
  have hin : FsInfoInside true dev32 := by
    intro g _ _
    rw [boot32, fsInfoOffset32]; decide
  refine ⟨hin, ?_⟩
  obtain ⟨d', h1, h2, h3, _⟩ := C07run.mount_run true false true true mountable32 hin
  rw [boot32, fsinfo32] at h1 h3
  have hm : (mountGeometry goodFat32 (fsInfoSector 68552 68554) true).toOption.map
      (fun m => (m.geo.fatType, m.geo.totalClusters, m.fsInfo)) =
      some (.fat32, 68552, { freeClusterCount := some 68552, nextFreeCluster := some 68554, dirty := false }) := by
    decide +kernel
  cases hg : mountGeometry goodFat32 (fsInfoSector 68552 68554) true with
  | error e => rw [hg] at hm; cases hm
  | ok m =>
    rw [hg] at hm h1
    simp only [Except.toOption, Option.map_some, Option.some.injEq, Prod.mk.injEq] at hm
    obtain ⟨m1, m2, m3⟩ := hm
    refine ⟨_, d', h1, h3 m hg, m1, m2, ?_, h2.img, h2.log⟩
    show m.fsInfo.toSt = _
    rw [m3]; rfl

/-- the program-level theorems apply to these devices -/
example : (run (mount true false true true) dev32).1 ≠ .error .panic :=
  (mount_run_total true false true true mountable32).1

end Ex

end FatVerif.C07run
