import FatVerif.Proofs.NoWriteModel6
/-! # C12 — the dirty bit (program-level facts about the model's status-flag handling)

`setDirtyFlag b` (`FileSystem::set_dirty_flag`) makes the on-disk status byte equal to
`encode(mount_time_dirty || b, mount_time_io_error)`, writing that one byte (offset 0x25, FAT32: 0x41) iff it differs from
the current one. `FsIoAdapter::write` calls it BEFORE its first modifying write (fix f695ddf), `File::write` and
`File::truncate` before anything else,
`unmount` calls it with `false` (restoring the mount-time value). All statements are about the write log of the
device (`Dev.log`, newest first). -/
namespace FatVerif

/-- byte offset of the status flags in the boot sector -/
def statusOff (fs : FsState) : Nat := if fs.fatType == .fat32 then 0x41 else 0x25

/-- the status byte `set_dirty_flag(dirty)` writes: the two flag bits, and bits 2–7 of the byte read at mount
    (`flags.encode() | (reserved_1 & !0x03)`, as a `u8`) -/
def statusByte (fs : FsState) (dirty : Bool) : Nat :=
  (encodeStatus (fs.bpbDirty || dirty) fs.bpbIoErr ||| (fs.statusRaw / 4 * 4)) % 256

/-- the log record of a status-byte update -/
def statusWrite (fs : FsState) (dirty : Bool) : LogItem :=
  .write (statusOff fs) [statusByte fs dirty]

theorem encodeStatus_lt (a b : Bool) : encodeStatus a b % 256 = encodeStatus a b := by
  cases a <;> cases b <;> rfl

/-- the update `set_dirty_flag(b)` asks for is already in place -/
def StatusCurrent (fs : FsState) (b : Bool) : Prop := (fs.bpbDirty || b) = fs.curDirty ∧ fs.bpbIoErr = fs.curIoErr

theorem setDirtyFlag_unfold (b : Bool) : setDirtyFlag b =
    Prog.bind Prog.getFs (fun fs =>
      if ((fs.bpbDirty || b) == fs.curDirty && fs.bpbIoErr == fs.curIoErr) = true then Prog.pure ()
      else Prog.bind (Prog.seekStart (statusOff fs)) (fun _ =>
        Prog.bind (writeU8 devStrm () (encodeStatus (fs.bpbDirty || b) fs.bpbIoErr ||| (fs.statusRaw / 4 * 4))) (fun _ =>
          Prog.modifyFs fun fs' => { fs' with curDirty := fs.bpbDirty || b, curIoErr := fs.bpbIoErr }))) := rfl

theorem statusCurrent_iff (fs : FsState) (b : Bool) :
    (((fs.bpbDirty || b) == fs.curDirty && fs.bpbIoErr == fs.curIoErr) = true) ↔ StatusCurrent fs b := by
  simp [StatusCurrent]

/-- **`setDirtyFlag_spec`**: after `set_dirty_flag(b)` succeeded the current flags are `(mount_dirty || b,
    mount_io_error)`; nothing was written if they already were, otherwise exactly one record was appended to the log:
    the one status byte at 0x25/0x41 -/
theorem setDirtyFlag_spec (b : Bool) (d : Dev) {u : Unit} {d' : Dev} (hr : run (setDirtyFlag b) d = (.ok u, d')) :
    d'.fs = { d.fs with curDirty := d.fs.bpbDirty || b, curIoErr := d.fs.bpbIoErr } ∧
    (StatusCurrent d.fs b → d'.log = d.log) ∧
    (¬ StatusCurrent d.fs b → d'.log = statusWrite d.fs b :: d.log) := by
  rw [setDirtyFlag_unfold, run_getFs_bind] at hr
  split at hr
  · rename_i hc
    have hcur := (statusCurrent_iff d.fs b).mp hc
    simp only [run] at hr; cases hr
    refine ⟨?_, fun _ => rfl, fun h => absurd hcur h⟩
    obtain ⟨h1, h2⟩ := hcur
    rw [h1, h2]
  · rename_i hc
    have hncur : ¬ StatusCurrent d.fs b := fun h => hc ((statusCurrent_iff d.fs b).mpr h)
    rcases run_bind_cases hr with ⟨_, d1, h1, h2⟩ | ⟨e, _, he⟩
    · have hs := run_seekStart_spec _ d h1
      rcases run_bind_cases h2 with ⟨u2, d2, h3, h4⟩ | ⟨e, _, he⟩
      · obtain ⟨items, hl, hp, _, hfs⟩ := writeAll_dev_pieces _ d1 h3
        have hone := hp.single
        rw [run_modifyFs] at h4
        cases h4
        refine ⟨?_, fun h => absurd h hncur, fun _ => ?_⟩
        · simp only [hfs, hs.1]
        · show d2.log = _
          rw [hl, hone, hs.2.1, hs.2.2 _ rfl]
          rfl
      · cases he
    · cases he

/-- every outcome of `set_dirty_flag`: whatever it writes lies in the status byte -/
theorem setDirtyFlag_within (b : Bool) (d : Dev) {r d'} (hr : run (setDirtyFlag b) d = (r, d')) :
    LogWithin (statusOff d.fs) (statusOff d.fs + 1) d d' := by
  rw [setDirtyFlag_unfold, run_getFs_bind] at hr
  split at hr
  · simp only [run] at hr; cases hr; exact LogWithin.refl _ _ _
  · rcases run_bind_cases hr with ⟨_, d1, h1, h2⟩ | ⟨e, h1, _⟩
    · have hs := run_seekStart_spec _ d h1
      have hpos := hs.2.2 _ rfl
      rcases run_bind_cases h2 with ⟨u2, d2, h3, h4⟩ | ⟨e, h3, _⟩
      · have hw := writeAll_dev_within _ d1 h3
        rw [run_modifyFs] at h4
        cases h4
        have := hw.2.1
        rw [hpos] at this
        exact (LogWithin.of_log_eq hs.2.1).trans (this.trans (LogWithin.of_log_eq rfl))
      · have hw := writeAll_dev_within _ d1 h3
        have := hw.2.1
        rw [hpos] at this
        exact (LogWithin.of_log_eq hs.2.1).trans this
    · exact LogWithin.of_log_eq (run_seekStart_spec _ d h1).2.1

theorem run_seekCur0_spec (d : Dev) {r d1} (hr : run (Prog.seek (.cur 0)) d = (r, d1)) :
    d1.fs = d.fs ∧ d1.log = d.log ∧ (∀ v, r = .ok v → v = d.pos ∧ d1.pos = d.pos) := by
  have hc : (d.count .s).fs = d.fs ∧ (d.count .s).log = d.log ∧ (d.count .s).pos = d.pos := by unfold Dev.count; simp
  simp only [Prog.seek, run, stepOp, devCall, devCallCore] at hr
  split at hr
  · cases hr; exact ⟨hc.1, hc.2.1, fun v hv => by cases hv⟩
  · simp only [Int.add_zero] at hr
    have hnn : ¬ (((d.count .s).pos : Int) < 0) := by omega
    simp only [hnn, if_false, Int.toNat_natCast] at hr
    cases hr
    exact ⟨hc.1, hc.2.1, fun v hv => by cases hv; exact ⟨hc.2.2, hc.2.2⟩⟩

/-- **`set_dirty_flag_before_write`** (fix f695ddf), every outcome: nothing happens on a volume already marked dirty;
    otherwise whatever is written lies in the status byte, on success the flag is set, exactly the status record
    was appended, and the storage position is the one the caller had set up -/
theorem markDirtyBeforeWrite_spec (d : Dev) {r d'} (hr : run markDirtyBeforeWrite d = (r, d')) :
    (d.fs.curDirty = true → r = .ok () ∧ d' = d) ∧
    (d.fs.curDirty = false →
      LogWithin (statusOff d.fs) (statusOff d.fs + 1) d d' ∧
      (∀ u, r = .ok u → d'.fs = { d.fs with curDirty := d.fs.bpbDirty || true, curIoErr := d.fs.bpbIoErr } ∧
        d'.log = statusWrite d.fs true :: d.log ∧ d'.pos = d.pos)) := by
  unfold markDirtyBeforeWrite at hr
  rcases run_bind_cases hr with ⟨fs, d0, h0, hr⟩ | ⟨e, h0, _⟩
  rotate_left
  · simp only [Prog.getFs, run, stepOp] at h0; cases h0
  simp only [Prog.getFs, run, stepOp] at h0
  cases h0
  split at hr
  · rename_i hdirty
    have hr' : run (Prog.pure ()) d = (r, d') := hr
    simp only [run] at hr'; cases hr'
    exact ⟨fun _ => ⟨rfl, rfl⟩, fun h => by rw [h] at hdirty; exact absurd hdirty (by decide)⟩
  · rename_i hclean
    have hcl : d.fs.curDirty = false := by cases h : d.fs.curDirty <;> simp_all
    refine ⟨fun h => (by rw [h] at hcl; cases hcl), fun _ => ?_⟩
    rcases run_bind_cases hr with ⟨pos, d1, h1, hr⟩ | ⟨e, h1, he⟩
    · have s1 := run_seekCur0_spec d h1
      obtain ⟨hpv, _⟩ := s1.2.2 _ rfl
      subst hpv
      rcases run_bind_cases hr with ⟨u, d2, h2, hr⟩ | ⟨e, h2, he⟩
      · have hsp := setDirtyFlag_spec true d1 h2
        have hw := setDirtyFlag_within true d1 h2
        rw [s1.1] at hw hsp
        have hncur : ¬ StatusCurrent d.fs true := by
          rintro ⟨h, _⟩; rw [hcl] at h; simp at h
        have hlog2 : d2.log = statusWrite d.fs true :: d.log := by
          have := hsp.2.2 hncur
          rw [this, s1.2.1]
        rcases run_bind_cases hr with ⟨_, d3, h3, hr⟩ | ⟨e, h3, he⟩
        · have hr' : run (Prog.pure ()) d3 = (r, d') := hr
          simp only [run] at hr'; cases hr'
          have s3 := run_seekStart_spec _ d2 h3
          refine ⟨((LogWithin.of_log_eq s1.2.1).trans hw).trans (LogWithin.of_log_eq s3.2.1), fun u _ => ?_⟩
          exact ⟨by rw [s3.1, hsp.1], by rw [s3.2.1, hlog2], s3.2.2 _ rfl⟩
        · subst he
          have s3 := run_seekStart_spec _ d2 h3
          exact ⟨((LogWithin.of_log_eq s1.2.1).trans hw).trans (LogWithin.of_log_eq s3.2.1), fun u hu => by cases hu⟩
      · subst he
        have hw := setDirtyFlag_within true d1 h2
        rw [s1.1] at hw
        exact ⟨(LogWithin.of_log_eq s1.2.1).trans hw, fun u hu => by cases hu⟩
    · subst he
      have s1 := run_seekCur0_spec d h1
      exact ⟨LogWithin.of_log_eq s1.2.1, fun u hu => by cases hu⟩

/-- exact outcome of one device write -/
theorem stepOp_write_exact (bs : List Nat) (d : Dev) {r d1} (hr : stepOp (.write bs) d = (r, d1)) :
    d1.fs = d.fs ∧
    ((∃ e, r = .error e ∧ d1.log = d.log) ∨
     (r = .ok (min bs.length (d.img.size - d.pos)) ∧
      d1.log = .write d.pos (bs.take (min bs.length (d.img.size - d.pos))) :: d.log ∧
      d1.pos = d.pos + min bs.length (d.img.size - d.pos))) := by
  have hc : (d.count .w).fs = d.fs ∧ (d.count .w).log = d.log ∧ (d.count .w).pos = d.pos ∧ (d.count .w).img = d.img := by
    unfold Dev.count; simp
  simp only [stepOp, devCall, devCallCore] at hr
  split at hr
  · cases hr
    exact ⟨hc.1, Or.inl ⟨_, rfl, hc.2.1⟩⟩
  · cases hr
    refine ⟨hc.1, Or.inr ⟨?_, ?_, ?_⟩⟩
    · simp only [hc.2.2.1, hc.2.2.2]
    · simp only [hc.2.1, hc.2.2.1, hc.2.2.2]
    · simp only [hc.2.2.1, hc.2.2.2]

theorem adapterStrm_write_unfold (bs : List Nat) : adapterStrm.write () bs =
    if bs.length > 0 then Prog.bind markDirtyBeforeWrite (fun _ => Prog.bind (Prog.write bs) (fun n => Prog.pure (n, ())))
    else Prog.bind (Prog.write bs) (fun n => Prog.pure (n, ())) := rfl

/-- **`adapter_write_marks_dirty_first`** (fix f695ddf; STRONGER than the former `adapter_write_sets_dirty`, which only
    said that the flag is set once a write of `n > 0` bytes has succeeded): every outcome of `FsIoAdapter::write` with a
    non-empty buffer on a volume whose dirty flag is not yet set. Either the call fails and whatever it wrote lies
    inside the status byte (so: if marking the volume dirty fails, no data is written; if the data write fails, only
    the status byte was written) — or it succeeds, the flag is set, and it appended exactly two records: the
    status-byte record with the dirty bit, and AFTER it the data record at the position the caller had set up. -/
theorem adapter_write_marks_dirty_first (bs : List Nat) (hne : bs ≠ []) (d : Dev) (hclean : d.fs.curDirty = false)
    {r d'} (hr : run (adapterStrm.write () bs) d = (r, d')) :
    ((∃ e, r = .error e) ∧ LogWithin (statusOff d.fs) (statusOff d.fs + 1) d d') ∨
    (∃ m, r = .ok (m, ()) ∧ d'.fs.curDirty = true ∧
      d'.log = .write d.pos (bs.take m) :: statusWrite d.fs true :: d.log) := by
  have hlen : bs.length > 0 := by
    cases bs with
    | nil => exact absurd rfl hne
    | cons _ _ => simp
  rw [adapterStrm_write_unfold, if_pos hlen] at hr
  rcases run_bind_cases hr with ⟨u, d1, h1, h2⟩ | ⟨e, h1, he⟩
  · have hm := (markDirtyBeforeWrite_spec d h1).2 hclean
    obtain ⟨hfs1, hlog1, hpos1⟩ := hm.2 _ rfl
    rcases run_bind_cases h2 with ⟨m, d2, h3, h4⟩ | ⟨e, h3, he⟩
    · simp only [run] at h4; cases h4
      simp only [Prog.write, run] at h3
      rcases stepOp_write_exact bs d1 h3 with ⟨hfs, ⟨e, he, _⟩ | ⟨hm', hlog, _⟩⟩
      · cases he
      · cases hm'
        refine Or.inr ⟨_, rfl, by rw [hfs, hfs1]; simp, ?_⟩
        rw [hlog, hlog1, hpos1]
    · subst he
      simp only [Prog.write, run] at h3
      rcases stepOp_write_exact bs d1 h3 with ⟨hfs, ⟨e', _, hlog⟩ | ⟨hm', _, _⟩⟩
      · exact Or.inl ⟨⟨_, rfl⟩, hm.1.trans (LogWithin.of_log_eq hlog)⟩
      · cases hm'
  · subst he
    exact Or.inl ⟨⟨_, rfl⟩, ((markDirtyBeforeWrite_spec d h1).2 hclean).1⟩

/-- **`adapter_write_sets_dirty`**: once `FsIoAdapter::write` has written `n > 0` bytes the dirty flag is set (it was
    set BEFORE the bytes went out: `adapter_write_marks_dirty_first`) -/
theorem adapter_write_sets_dirty (bs : List Nat) (d : Dev) {n : Nat} {d' : Dev}
    (hr : run (adapterStrm.write () bs) d = (.ok (n, ()), d')) (hn : n > 0) : d'.fs.curDirty = true := by
  have hne : bs ≠ [] := by
    rintro rfl
    rw [adapterStrm_write_unfold] at hr
    rw [if_neg (by simp)] at hr
    rcases run_bind_cases hr with ⟨m, d2, h3, h4⟩ | ⟨e, _, he⟩
    · simp only [run] at h4; cases h4
      simp only [Prog.write, run] at h3
      rcases stepOp_write_exact [] d h3 with ⟨_, ⟨e, he, _⟩ | ⟨hm', _, _⟩⟩
      · cases he
      · simp at hm'; omega
    · cases he
  cases hcd : d.fs.curDirty with
  | false =>
    rcases adapter_write_marks_dirty_first bs hne d hcd hr with ⟨⟨e, he⟩, _⟩ | ⟨m, _, h, _⟩
    · cases he
    · exact h
  | true =>
    have hlen : bs.length > 0 := by
      cases bs with
      | nil => exact absurd rfl hne
      | cons _ _ => simp
    rw [adapterStrm_write_unfold, if_pos hlen] at hr
    rcases run_bind_cases hr with ⟨u, d1, h1, h2⟩ | ⟨e, _, he⟩
    · obtain ⟨_, hd1⟩ := (markDirtyBeforeWrite_spec d h1).1 hcd
      subst hd1
      rcases run_bind_cases h2 with ⟨m, d2, h3, h4⟩ | ⟨e, _, he⟩
      · simp only [run] at h4; cases h4
        simp only [Prog.write, run] at h3
        rw [(stepOp_write_exact bs d1 h3).1]; exact hcd
      · cases he
    · cases he

/-- `flush_fs_info` touches only the FS-info part of the mounted state -/
theorem flushFsInfo_fs (d : Dev) {r d'} (hr : run flushFsInfo d = (r, d')) :
    d'.fs = { d.fs with fsInfo := d'.fs.fsInfo } := by
  unfold flushFsInfo at hr
  have hr1 : run (Prog.bind Prog.getFs (fun fs =>
      if fs.fatType = .fat32 ∧ fs.fsInfo.dirty then
        Prog.bind (Prog.seekStart (fs.fsInfoSector * fs.bps)) (fun _ =>
          Prog.bind (writeChunks devStrm () (chunksOf (fsInfoBytes fs.fsInfo) fsInfoChunks)) (fun _ =>
            Prog.modifyFs fun fs => { fs with fsInfo := { fs.fsInfo with dirty := false } }))
      else Prog.pure ())) d = (r, d') := hr
  rw [run_getFs_bind] at hr1
  split at hr1
  · rcases run_bind_cases hr1 with ⟨_, d1, h1, h2⟩ | ⟨e, h1, _⟩
    · have hs := run_seekStart_spec _ d h1
      rcases run_bind_cases h2 with ⟨u2, d2, h3, h4⟩ | ⟨e, h3, _⟩
      · have hw := writeChunks_dev_within _ d1 _ _ h3
        rw [run_modifyFs] at h4
        cases h4
        simp only [hw.1, hs.1]
      · have hw := writeChunks_dev_within _ d1 _ _ h3
        rw [hw.1, hs.1]
    · rw [(run_seekStart_spec _ d h1).1]
  · simp only [run] at hr1; cases hr1; rfl

/-- **`unmount_restores`**: after `unmount_internal` succeeded the current status flags are the mount-time ones; the
    status byte was written — as the LAST record of the log — iff they differed before (`d1` is the device after the
    FS-info flush, which does not touch the flags) -/
theorem unmount_restores (d : Dev) {u : Unit} {d' : Dev} (hr : run unmountInternal d = (.ok u, d')) :
    d'.fs.curDirty = d.fs.bpbDirty ∧ d'.fs.curIoErr = d.fs.bpbIoErr ∧ d'.fs.bpbDirty = d.fs.bpbDirty ∧
    ∃ d1 : Dev, run flushFsInfo d = (.ok (), d1) ∧
      ((d.fs.curDirty = d.fs.bpbDirty ∧ d.fs.curIoErr = d.fs.bpbIoErr) → d'.log = d1.log) ∧
      (¬ (d.fs.curDirty = d.fs.bpbDirty ∧ d.fs.curIoErr = d.fs.bpbIoErr) →
        d'.log = .write (statusOff d.fs) [statusByte d.fs false] :: d1.log) := by
  have hr' : run (Prog.bind flushFsInfo (fun _ => setDirtyFlag false)) d = (.ok u, d') := hr
  rcases run_bind_cases hr' with ⟨_, d1, h1, h2⟩ | ⟨e, _, he⟩
  · have hfs := flushFsInfo_fs d h1
    have hsp := setDirtyFlag_spec false d1 h2
    have hcd : d1.fs.curDirty = d.fs.curDirty := by rw [hfs]
    have hci : d1.fs.curIoErr = d.fs.curIoErr := by rw [hfs]
    have hbd : d1.fs.bpbDirty = d.fs.bpbDirty := by rw [hfs]
    have hbi : d1.fs.bpbIoErr = d.fs.bpbIoErr := by rw [hfs]
    have hft : d1.fs.fatType = d.fs.fatType := by rw [hfs]
    have hraw : d1.fs.statusRaw = d.fs.statusRaw := by rw [hfs]
    have hcur : StatusCurrent d1.fs false ↔ (d.fs.curDirty = d.fs.bpbDirty ∧ d.fs.curIoErr = d.fs.bpbIoErr) := by
      simp only [StatusCurrent, Bool.or_false, hcd, hci, hbd, hbi]
      constructor <;> rintro ⟨a, b⟩ <;> exact ⟨a.symm, b.symm⟩
    refine ⟨by rw [hsp.1]; simp [hbd], by rw [hsp.1]; simp [hbi], by rw [hsp.1]; simp [hbd], d1, h1, ?_, ?_⟩
    · intro h; exact hsp.2.1 (hcur.mpr h)
    · intro h
      have := hsp.2.2 (fun hc => h (hcur.mp hc))
      rw [this]
      simp only [statusWrite, statusByte, statusOff, hbd, hbi, hft, hraw]
  · cases he

theorem statusByte_table : ∀ r, r < 256 →
    (encodeStatus ((r % 2 == 1) || false) (r / 2 % 2 == 1) ||| (r / 4 * 4)) % 256 = r := by decide +kernel

/-- if the mounted state records the mount-time status byte (`statusRaw`, one byte) and `bpbDirty`/`bpbIoErr` are its
    bits 0 and 1 — what `mount` sets up (`Bpb.statusDirty`, `Bpb.statusIoError`, `statusRaw := reserved_1`) — the byte
    `set_dirty_flag(false)` writes is exactly the mount-time byte -/
theorem statusByte_restores (fs : FsState) (hraw : fs.statusRaw < 256)
    (hd : fs.bpbDirty = (fs.statusRaw % 2 == 1)) (hi : fs.bpbIoErr = (fs.statusRaw / 2 % 2 == 1)) :
    statusByte fs false = fs.statusRaw := by
  unfold statusByte
  rw [hd, hi]
  exact statusByte_table _ hraw

/-- **`unmount_restores_mount_byte`** (closes the former finding F16: bits 2–7 of the status byte were cleared): under
    those hypotheses the status record `unmount_internal` appends — when the current flags differ from the mount-time
    ones — carries the mount-time byte, bits 2–7 included -/
theorem unmount_restores_mount_byte (d : Dev) {u : Unit} {d' : Dev} (hr : run unmountInternal d = (.ok u, d'))
    (hraw : d.fs.statusRaw < 256) (hd : d.fs.bpbDirty = (d.fs.statusRaw % 2 == 1))
    (hi : d.fs.bpbIoErr = (d.fs.statusRaw / 2 % 2 == 1))
    (hdiff : ¬ (d.fs.curDirty = d.fs.bpbDirty ∧ d.fs.curIoErr = d.fs.bpbIoErr)) :
    ∃ d1 : Dev, run flushFsInfo d = (.ok (), d1) ∧ d'.log = .write (statusOff d.fs) [d.fs.statusRaw] :: d1.log := by
  obtain ⟨_, _, _, d1, h1, _, h2⟩ := unmount_restores d hr
  exact ⟨d1, h1, by rw [h2 hdiff, statusByte_restores d.fs hraw hd hi]⟩

/-- **`file_write_marks_dirty_first`**: in `File::write` on a volume whose dirty flag is not yet set, the status byte is
    the first thing written: the records the call appends to the log are either all inside the status byte (the call
    failed while setting the flag, or wrote nothing), or the OLDEST of them is the status-byte record with the dirty
    bit set -/
theorem file_write_marks_dirty_first (f : FileH) (buf : List Nat) (d : Dev) (hclean : d.fs.curDirty = false)
    {r d'} (hr : run (f.write buf) d = (r, d')) :
    ∃ items, d'.log = items ++ d.log ∧
      ((∀ it ∈ items, it.within (statusOff d.fs) (statusOff d.fs + 1)) ∨
       (∃ rest, items = rest ++ [.write (statusOff d.fs) [statusByte d.fs true]])) := by
  unfold FileH.write at hr
  rcases run_bind_cases hr with ⟨fs, d0, h0, hr⟩ | ⟨e, h0, _⟩
  rotate_left
  · simp only [Prog.getFs, run, stepOp] at h0; cases h0
  simp only [Prog.getFs, run, stepOp] at h0
  cases h0
  dsimp only at hr
  split at hr
  · have : run (Prog.pure ((0 : Nat), f)) d = (r, d') := hr
    simp only [run] at this; cases this
    exact ⟨[], rfl, Or.inl (by simp)⟩
  · rcases run_bind_cases hr with ⟨_, d1, h1, h2⟩ | ⟨e, h1, _⟩
    · have hsp := setDirtyFlag_spec true d h1
      have hncur : ¬ StatusCurrent d.fs true := by
        rintro ⟨h, _⟩; rw [hclean] at h; simp at h
      have hlog := hsp.2.2 hncur
      obtain ⟨items2, h3⟩ := run_logExtends _ _ _ _ h2
      refine ⟨items2 ++ [statusWrite d.fs true], by rw [h3, hlog]; simp, Or.inr ⟨items2, ?_⟩⟩
      rfl
    · obtain ⟨items, h3, h4⟩ := setDirtyFlag_within true d h1
      exact ⟨items, h3, Or.inl h4⟩

/-- **`truncate_marks_dirty_first`** (fix f695ddf): the same for `File::truncate` — before the fix the first record of
    a truncation was a FAT entry; now the records the call appends are either all inside the status byte (it failed
    while setting the flag), or the OLDEST of them is the status-byte record with the dirty bit set -/
theorem truncate_marks_dirty_first (f : FileH) (d : Dev) (hclean : d.fs.curDirty = false)
    {r d'} (hr : run f.truncate d = (r, d')) :
    ∃ items, d'.log = items ++ d.log ∧
      ((∀ it ∈ items, it.within (statusOff d.fs) (statusOff d.fs + 1)) ∨
       (∃ rest, items = rest ++ [.write (statusOff d.fs) [statusByte d.fs true]])) := by
  unfold FileH.truncate at hr
  rcases run_bind_cases hr with ⟨_, d1, h1, h2⟩ | ⟨e, h1, _⟩
  · have hsp := setDirtyFlag_spec true d h1
    have hncur : ¬ StatusCurrent d.fs true := by
      rintro ⟨h, _⟩; rw [hclean] at h; simp at h
    have hlog := hsp.2.2 hncur
    obtain ⟨items2, h3⟩ := run_logExtends _ _ _ _ h2
    refine ⟨items2 ++ [statusWrite d.fs true], by rw [h3, hlog]; simp, Or.inr ⟨items2, ?_⟩⟩
    rfl
  · obtain ⟨items, h3, h4⟩ := setDirtyFlag_within true d h1
    exact ⟨items, h3, Or.inl h4⟩

/-- **`mount_reports_dirty`** (mounted-state level): after a successful mount the current flags equal the mount-time
    flags, and when the volume was marked dirty the FS-info free count is discarded. PARTIAL with respect to the
    intended statement: that `bpbDirty` is bit 0 of byte 0x25/0x41 of the image is a fact about `Bpb.geometry`
    (`statusDirty`), proved with the boot-sector codec, not here. -/
theorem mount_reports_dirty {fs0 : FsState} (strict accDate lfnAlloc unicode : Bool) :
    NW fs0 (mount strict accDate lfnAlloc unicode)
      (fun fs fs1 => fs1 = fs ∧ fs.curDirty = fs.bpbDirty ∧ fs.curIoErr = fs.bpbIoErr ∧
        (fs.bpbDirty = true → fs.fsInfo.free = none)) := by
  unfold mount
  refine NW.bind_ro (RO.of_quiet (QuietOps.progSeek _)) (fun pos _ => ?_)
  split
  · exact NW.fail _
  refine NW.bind_ro (RO.of_quiet readBootSector_quiet) (fun bs _ => ?_)
  refine NW.bind_ro (RO.of_quiet (liftE_quiet _)) (fun _ _ => ?_)
  refine NW.bind_ro (RO.of_quiet (liftE_quiet _)) (fun g _ => ?_)
  refine NW.bind_ro (Q := fun _ => True) ?_ (fun info _ => ?_)
  · split
    · refine RO.bind (RO.of_quiet (liftE_quiet _)) (fun off _ => ?_)
      refine RO.bind (RO.of_quiet (QuietOps.progSeekStart _)) (fun _ _ => ?_)
      exact RO.of_quiet readFsInfoSector_quiet
    · exact RO.pure trivial
  try dsimp only
  refine NW.bind_ro (RO.of_quiet (liftE_quiet _)) (fun maxValid _ => ?_)
  try dsimp only
  refine NW.bind (NW.setFs _) ?_
  rintro _ fs1 rfl
  refine NW.pure ⟨rfl, rfl, rfl, ?_⟩
  dsimp only
  intro hd
  simp only [hd, if_true, FsInfo.fixFree]

/-! ## the statements are not vacuous -/

namespace C12ex
def fs16 : FsState :=
  { fatType := .fat16, bps := 512, spc := 1, reserved := 1, fats := 1, spf := 1, totalClusters := 5,
    firstDataSector := 2, rootEntries := 16, rootDirSectors := 1 }
def dev16 : Dev := { img := Img.empty 4096, fs := fs16 }
end C12ex

/-- `set_dirty_flag(true)` on a clean FAT16 volume succeeds and logs the byte 1 at 0x25 -/
example : resErr (run (setDirtyFlag true) C12ex.dev16).1 = none ∧
    (run (setDirtyFlag true) C12ex.dev16).2.log = [.write 0x25 [1]] ∧
    (run (setDirtyFlag true) C12ex.dev16).2.fs.curDirty = true := by decide

/-- … and `unmount_internal` afterwards restores it: byte 0 at 0x25, flags as at mount -/
example : (run unmountInternal (run (setDirtyFlag true) C12ex.dev16).2).2.log = [.write 0x25 [0], .write 0x25 [1]] ∧
    (run unmountInternal (run (setDirtyFlag true) C12ex.dev16).2).2.fs.curDirty = false := by decide

/-- `File::write` of 3 bytes into a fresh file on a volume with a free count cached: the oldest record is the
    status byte (hypothesis `curDirty = false` of `file_write_marks_dirty_first` holds of `dev16`) -/
example : C12ex.dev16.fs.curDirty = false ∧
    ((run ((FileH.new none (some (DirEntryEditor.new (DirFileEntryData.new [] 0) 1024))).write [7, 8, 9])
      C12ex.dev16).2.log.getLast? = some (.write 0x25 [1])) := by decide +kernel

/-- a volume mounted with status byte 0x84 (bits 2 and 7 set, clean): `set_dirty_flag(true)` writes 0x85, and
    `unmount_internal` writes 0x84 back — the hypotheses of `unmount_restores_mount_byte` hold of this state -/
example :
    let d : Dev := { C12ex.dev16 with fs := { C12ex.fs16 with statusRaw := 0x84 } }
    d.fs.statusRaw < 256 ∧ d.fs.bpbDirty = (d.fs.statusRaw % 2 == 1) ∧ d.fs.bpbIoErr = (d.fs.statusRaw / 2 % 2 == 1) ∧
    (run unmountInternal (run (setDirtyFlag true) d).2).2.log = [.write 0x25 [0x84], .write 0x25 [0x85]] := by
  decide

/-- `FsIoAdapter::write` of two bytes at position 1000 of a clean volume (the hypotheses of
    `adapter_write_marks_dirty_first` hold): the status byte goes out first, then the data -/
example :
    let d : Dev := { C12ex.dev16 with pos := 1000 }
    d.fs.curDirty = false ∧
    (run (adapterStrm.write () [7, 8]) d).1.toOption = some (2, ()) ∧
    (run (adapterStrm.write () [7, 8]) d).2.log = [.write 1000 [7, 8], .write 0x25 [1]] ∧
    (run (adapterStrm.write () [7, 8]) d).2.fs.curDirty = true := by decide

/-- … and when the status write fails (device call 3: the seek to query the position, the seek to 0x25, the write)
    the call fails and NOTHING has been written — the first disjunct of `adapter_write_marks_dirty_first` -/
example :
    let d : Dev := { C12ex.dev16 with pos := 1000, failAt := some 3 }
    resErr (run (adapterStrm.write () [7, 8]) d).1 = some (.io 3) ∧
    (run (adapterStrm.write () [7, 8]) d).2.log = [] := by decide

/-- … on a volume already marked dirty no status record and no extra seek: one device call -/
example :
    let d : Dev := (run (setDirtyFlag true) { C12ex.dev16 with pos := 1000 }).2
    (run (adapterStrm.write () [7, 8]) d).2.log = [.write 0x26 [7, 8], .write 0x25 [1]] ∧
    (run (adapterStrm.write () [7, 8]) d).2.calls = d.calls + 1 := by decide

/-- `File::truncate` at offset 0 of an empty file on a clean volume: the status byte is written (and nothing else) -/
example : C12ex.dev16.fs.curDirty = false ∧
    (run (FileH.new none (some (DirEntryEditor.new (DirFileEntryData.new [] 0) 1024))).truncate C12ex.dev16).2.log
      = [.write 0x25 [1]] := by decide +kernel

/-- LIMIT of the dirty-first property (why there is no whole-session `first_write_is_status_byte`): the write-back of a
    directory entry (`DirEntryEditor::flush`) goes to the raw storage, not through `FsIoAdapter`. A session that only
    changes a time stamp (`set_modified`, here; likewise `set_created`, `set_accessed`, a `read` with
    `update_accessed_date`) and flushes writes the 32-byte record of the entry and NEVER touches the status byte: the
    cached flag stays clean. (`File::write` and `File::truncate` mark the volume dirty first; every FAT and
    root-directory write goes through the adapter.) -/
example :
    let f : FileH := (FileH.new none (some (DirEntryEditor.new (DirFileEntryData.new [] 0) 1024))).setModified
      ⟨⟨2001, 2, 3⟩, ⟨4, 5, 6, 0⟩⟩
    resErr (run f.flush C12ex.dev16).1 = none ∧
    (run f.flush C12ex.dev16).2.fs.curDirty = false ∧
    (run f.flush C12ex.dev16).2.log.length = 9 ∧
    (run f.flush C12ex.dev16).2.log.all (fun it => match it with
      | .write o b => 1024 ≤ o && o + b.length ≤ 1056
      | .flush => true) = true := by decide +kernel

end FatVerif
