import FatVerif.Proofs.DirAliasCount
import FatVerif.Props.C18
import FatVerif.Props.C16
import FatVerif.Props.C15lfn
import FatVerif.Props.C01dir
/-!
# C16 at directory level — the alias `check_for_existence` chooses from a directory scan

Model: `DirAlias.checkForExistenceL upper slots name isDir fuel` (Model/DirAlias.lean), the pure mirror of
`check_for_existence` + `find_entry` over the listing of a slot list (`DirSlots.listing = readDirEntries true true`);
the effectful transliteration is `DirOps.checkForExistence`.  All theorems hold for every slot list (no
well-formedness needed unless stated), every name and every case folding `upper`.
-/
namespace FatVerif
namespace C16dir
open Lfn DirSlots DirAlias

/-! ## (5) an existing entry is returned iff the lookup finds one -/

/-- with at least one round of fuel: the result is the entry `e` iff `find_entry(name, is_dir)` returns `e` (first
    listed entry whose long name or alias matches ignoring case — `findEntry_spec` — and of the requested kind);
    it is `InvalidInput` iff `find_entry` says so; and an alias is generated (or the fuel runs out) iff NO listed entry
    matches.  So a creating call never makes a second entry for a name that an existing long name or alias answers to. -/
theorem dir_existing_returned_iff (upper : Char → List Char) (slots : List (List Nat)) (name : String)
    (isDir : Option Bool) (fuel : Nat) (hfuel : 1 ≤ fuel) :
    (∀ e, checkForExistenceL upper slots name isDir fuel = .ok (.entry e) ↔
      findEntryKind upper slots name.toList isDir = .ok e) ∧
    (checkForExistenceL upper slots name isDir fuel = .error .invalidInput ↔
      findEntryKind upper slots name.toList isDir = .error .invalidInput) ∧
    (((∃ a, checkForExistenceL upper slots name isDir fuel = .ok (.alias a)) ∨
        checkForExistenceL upper slots name isDir fuel = .error .hang) ↔
      findEntry upper slots name.toList = none) := by
  obtain ⟨f, rfl⟩ : ∃ f, fuel = f + 1 := ⟨fuel - 1, by omega⟩
  rw [findEntryKind_eq]
  cases hf : findEntry upper slots name.toList with
  | some e0 =>
    rw [check_found upper slots name isDir f e0 hf]
    cases hk : kindResult isDir (some e0) with
    | ok e1 => simp
    | error x =>
      have hx : x = .invalidInput := by
        unfold kindResult at hk
        cases isDir with
        | none => simp at hk
        | some d => by_cases hd : Lfn.isDir e0.sfn = d <;> simp [hd] at hk; exact hk.symm
      subst hx; simp
  | none =>
    obtain ⟨g, _, hc⟩ := check_notfound upper slots name isDir (f + 1)
    rw [hc]
    rcases loop_none_cases upper (listing slots) name.toList isDir hf (f + 1) g with ⟨a, ha⟩ | hh
    · rw [ha]; simp [kindResult]
    · rw [hh]; simp [kindResult]

/-! ## (1) freshness -/

/-- if the result is an alias `a`, no LISTED entry has raw short name `a` (in every round nothing matched, so the
    round's population is the whole listing; `C16.alias_fresh`) -/
theorem dir_alias_fresh (upper : Char → List Char) (slots : List (List Nat)) (name : String) (isDir : Option Bool)
    (fuel : Nat) (a : List Nat) (h : checkForExistenceL upper slots name isDir fuel = .ok (.alias a)) :
    ∀ e ∈ listing slots, sfnName e.sfn ≠ a := by
  obtain ⟨_, g, g', hg, r, hgen, _⟩ := check_alias upper slots name isDir fuel a h
  have := C16.alias_fresh name g hg g' r (population slots) a hgen
  intro e he heq
  exact this (List.mem_map.2 ⟨e, he, heq⟩)

/-! ## (2) legality -/

/-- for a name `validate_long_name` accepts, the alias is a legal 8.3 name (`C16.alias_legal_loop`) -/
theorem dir_alias_legal (upper : Char → List Char) (slots : List (List Nat)) (name : String) (isDir : Option Bool)
    (fuel : Nat) (a : List Nat) (hv : Names.validateLongName name = .ok ())
    (h : checkForExistenceL upper slots name isDir fuel = .ok (.alias a)) : Names.LegalAlias a := by
  obtain ⟨_, g, g', hg, r, hgen, _⟩ := check_alias upper slots name isDir fuel a h
  refine C16.alias_legal name hv g hg _ (r.addAll (population slots)) a hgen

/-- for every name (also the empty one) the alias has the canonical shape (two padded fields of legal bytes), hence 11
    bytes, and its display form is ASCII -/
theorem dir_alias_canon (upper : Char → List Char) (slots : List (List Nat)) (name : String) (isDir : Option Bool)
    (fuel : Nat) (a : List Nat) (h : checkForExistenceL upper slots name isDir fuel = .ok (.alias a)) :
    Canon a ∧ a.length = 11 ∧ displayAscii a = true := by
  obtain ⟨_, g, g', hg, r, hgen, _⟩ := check_alias upper slots name isDir fuel a h
  have hw := (r.addAll (population slots)).wf (Names.newL_wf hg)
  have hc := generate_canon hw hgen
  exact ⟨hc, generate_length hw hgen, displayAscii_of_canon hc⟩

theorem dir_alias_length (upper : Char → List Char) (slots : List (List Nat)) (name : String) (isDir : Option Bool)
    (fuel : Nat) (a : List Nat) (h : checkForExistenceL upper slots name isDir fuel = .ok (.alias a)) :
    a.length = 11 := (dir_alias_canon upper slots name isDir fuel a h).2.1

/-- **the repair of F23**: no listed entry answers to the display form of the returned alias — neither by its long
    name nor by its own alias, ignoring case (every name, every `upper`) -/
theorem dir_alias_display_free (upper : Char → List Char) (slots : List (List Nat)) (name : String)
    (isDir : Option Bool) (fuel : Nat) (a : List Nat)
    (h : checkForExistenceL upper slots name isDir fuel = .ok (.alias a)) :
    ∀ e ∈ listing slots, matchesName upper e (Names.aliasDisplay a) = false := by
  obtain ⟨_, g, g', hg, r, hgen, hd⟩ := check_alias upper slots name isDir fuel a h
  exact (findEntry_none_iff upper slots _).1 (hd (dir_alias_canon upper slots name isDir fuel a h).2.2)

/-! ## (3) termination -/

/-- **termination of the repaired loop.**  Hypothesis on the case folding: it leaves the characters of short names
    (`A–Z 0–9 ! # $ % & ' ( ) - @ ^ _ ` { } ~` and `.`) alone — true of `to_ascii_uppercase` and of
    `char::to_uppercase` (`upperAscii_fixes`); without it one entry could answer to every candidate.
    On a directory listing `n < 3·65536` entries, fuel `15·(n/3) + 15` never yields the fuel-exhaustion outcome: the
    result is an existing entry, `InvalidInput`, or an alias.
    Accounting: every `continue` marks a so far unmarked candidate of the current checksum epoch (1 exact + 4 `~N` + 9
    hash forms, so ≤ 14 `continue`s and one failing round per epoch); an epoch fails only if its nine hash candidates
    are marked, each by a listed raw short name parsing to that checksum or by a candidate a listed entry answers to;
    different epochs (< 65536) have different checksums, an entry supplies at most three such marks (raw name, long
    name, alias) over the whole run: at most `n/3` failed epochs. -/
theorem dir_alias_terminates (upper : Char → List Char) (hup : UpperFixes upper) (slots : List (List Nat))
    (name : String) (isDir : Option Bool) (fuel : Nat) (hn : (listing slots).length < 3 * 65536)
    (hfuel : 15 * ((listing slots).length / 3) + 15 ≤ fuel) :
    checkForExistenceL upper slots name isDir fuel ≠ .error .hang ∧
    ((∃ e, checkForExistenceL upper slots name isDir fuel = .ok (.entry e)) ∨
     checkForExistenceL upper slots name isDir fuel = .error .invalidInput ∨
     (∃ a, checkForExistenceL upper slots name isDir fuel = .ok (.alias a))) := by
  obtain ⟨f, rfl⟩ : ∃ f, fuel = f + 1 := ⟨fuel - 1, by omega⟩
  cases hf : findEntry upper slots name.toList with
  | some e0 =>
    rw [check_found upper slots name isDir f e0 hf]
    cases hk : kindResult isDir (some e0) with
    | ok e1 => exact ⟨by simp, Or.inl ⟨e1, rfl⟩⟩
    | error x =>
      have hx : x = .invalidInput := by
        unfold kindResult at hk
        cases isDir with
        | none => simp at hk
        | some d => by_cases hd : Lfn.isDir e0.sfn = d <;> simp [hd] at hk; exact hk.symm
      subst hx; exact ⟨by simp, Or.inr (Or.inl rfl)⟩
  | none =>
    obtain ⟨g, hg, hc⟩ := check_notfound upper slots name isDir (f + 1)
    have hnh := loop_no_hang upper hup (listing slots) name.toList isDir hf g (Names.newL_wf hg)
      (Names.newL_bitmaps hg).2.1 hn (f + 1) hfuel
    rw [hc]
    rcases loop_none_cases upper (listing slots) name.toList isDir hf (f + 1) g with ⟨a, ha⟩ | hh
    · exact ⟨hnh, Or.inr (Or.inr ⟨a, ha⟩)⟩
    · exact absurd hh hnh

/-- the hypothesis on the case folding cannot be dropped: under the (absurd) folding that maps every character to `X`
    names are compared by length only; two entries with long names of 4 and 8 characters then answer to every `~N` and
    every hash candidate of `"b c"`, and the repaired loop never ends (here: 200 rounds) -/
def upperConst (_ : Char) : List Char := ['X']
def dirX : List (List Nat) :=
  writeEntry (writeEntry [C01.zero] (Names.encodeUtf16 "wxyz".toList) (C01.sfnOf "QQQQQ      "))
    (Names.encodeUtf16 "stuvwxyz".toList) (C01.sfnOf "RRRRR      ")
example : checkForExistenceL upperConst dirX "b c" none 200 = .error .hang ∧
    checkForExistenceL Names.upperAscii dirX "b c" none 200 = .ok (.alias ("BC~1       ".toList.map Char.toNat)) := by
  decide +kernel

/-- both build variants satisfy the hypothesis on the case folding: the ASCII one here, any table in which the
    characters of short names are their own upper case likewise -/
example : UpperFixes Names.upperAscii := upperAscii_fixes


/-! ## the looked-up string is `ShortName::new(&alias).as_bytes()` -/

theorem fixE5_eq (s : List Nat) :
    Names.fixE5 s = (match s with | 5 :: t => 0xE5 :: t | _ => s) := by
  unfold Names.fixE5
  split
  · rfl
  · rename_i hne
    split
    · rename_i t; exact absurd rfl (hne t)
    · rfl

theorem rstrip_take (l : List Nat) : C18.specRstrip l = l.take (Names.fieldLen l) := by
  unfold C18.specRstrip Names.fieldLen
  have h := List.takeWhile_append_dropWhile (p := (· == 32)) (l := l.reverse)
  have hl : l = (l.reverse.dropWhile (· == 32)).reverse ++ (l.reverse.takeWhile (· == 32)).reverse := by
    have := congrArg List.reverse h
    rw [List.reverse_append, List.reverse_reverse] at this
    exact this.symm
  conv => rhs; arg 2; rw [hl]
  rw [List.take_left' (by simp)]

/-- the model's display bytes are the specification's (`C18.specShortName`), hence (`C18.shortName_spec`) exactly
    `ShortName::new(raw).as_bytes()` of the dir-entry model that `DirOps.checkForExistenceLoop` uses -/
theorem shortDisplay_eq_shortName (raw : List Nat) (h : raw.length = 11) :
    Names.shortDisplay raw = (ShortName.new raw).asBytes := by
  have e := C18.shortName_spec raw h
  unfold FatVerif.shortDisplay at e
  rw [e]
  unfold Names.shortDisplay C18.specShortName
  have d3 : (raw.drop 8).take 3 = raw.drop 8 := List.take_of_length_le (by simp; omega)
  have t1 : raw.take (Names.fieldLen (raw.take 8)) = C18.specRstrip (raw.take 8) := by
    rw [rstrip_take, List.take_take]
    congr 1
    have : Names.fieldLen (raw.take 8) ≤ (raw.take 8).length := by
      unfold Names.fieldLen
      have := (List.dropWhile_sublist (fun x => x == 32) (l := (raw.take 8).reverse)).length_le
      simpa using this
    simp at this
    omega
  have t2 : (raw.drop 8).take (Names.fieldLen (raw.drop 8)) = C18.specRstrip (raw.drop 8) := (rstrip_take _).symm
  simp only [d3, t1, t2]
  have hlen : (C18.specRstrip (raw.drop 8)).length = Names.fieldLen (raw.drop 8) := by
    unfold C18.specRstrip Names.fieldLen; simp
  by_cases hz : Names.fieldLen (raw.drop 8) = 0
  · have he : C18.specRstrip (raw.drop 8) = [] := List.eq_nil_of_length_eq_zero (by rw [hlen, hz])
    simp only [hz, Nat.lt_irrefl, if_false, he, List.isEmpty_nil, if_true, List.append_nil]
    exact fixE5_eq _
  · have he : C18.specRstrip (raw.drop 8) ≠ [] := by
      intro h0; rw [h0] at hlen; simp at hlen; omega
    have hpos : Names.fieldLen (raw.drop 8) > 0 := by omega
    simp only [hpos, if_true, List.isEmpty_iff, he, if_false, List.append_assoc, List.singleton_append]
    exact fixE5_eq _

/-- for a generated alias the string `DirOps` looks up, `String.ofList ((ShortName.new a).asBytes.map Char.ofNat)`, is
    `Names.aliasDisplay a`, and its guard (`all (· < 128)`, i.e. `str::from_utf8` succeeds) holds -/
theorem alias_lookup_string (upper : Char → List Char) (slots : List (List Nat)) (name : String) (isDir : Option Bool)
    (fuel : Nat) (a : List Nat) (h : checkForExistenceL upper slots name isDir fuel = .ok (.alias a)) :
    (ShortName.new a).asBytes.all (· < 128) = true ∧
    (String.ofList ((ShortName.new a).asBytes.map Char.ofNat)).toList = Names.aliasDisplay a := by
  obtain ⟨_, hl, hd⟩ := dir_alias_canon upper slots name isDir fuel a h
  rw [← shortDisplay_eq_shortName a hl]
  refine ⟨hd, ?_⟩
  rw [String.toList_ofList]
  unfold Names.aliasDisplay
  apply List.map_congr_left
  intro y hy
  unfold displayAscii at hd
  have := List.all_eq_true.1 hd y hy
  simp only [decide_eq_true_eq] at this
  unfold Names.oemDecode
  rw [if_pos (by omega)]

/-! ## (4) the alias is tied to its long name by the checksum -/

/-- all slots of a generated long-name run carry the checksum they were generated with (`lfn_run_wf`) -/
theorem lfnGenerate_chk (units : List Nat) (c : Nat) (h1 : 1 ≤ units.length) (h255 : units.length ≤ 255)
    (hu : ∀ x ∈ units, x < 65536) : ∀ s ∈ lfnGenerate units c, Lfn.chk s = c := by
  intro s hs
  obtain ⟨i, hi, rfl⟩ := List.mem_iff_getElem.1 hs
  obtain ⟨hlen, hall, _⟩ := lfn_run_wf units c h1 h255 hu
  obtain ⟨s', e1, _, _, _, _, e2, _⟩ := hall i (by rw [← hlen]; exact hi)
  rw [List.getElem?_eq_getElem hi] at e1
  cases e1; exact e2

/-- the slots `write_entry` produces for a valid `name` and a short slot carrying the chosen alias `a` (any 21 body
    bytes): `⌈len/13⌉` long-name slots, each with checksum byte `lfnChecksum a`, forming a complete run for that
    checksum, then the short slot whose raw name is `a` -/
theorem dir_alias_checksum (upper : Char → List Char) (slots : List (List Nat)) (name : String) (isDir : Option Bool)
    (fuel : Nat) (a : List Nat) (body : List Nat) (hv : Names.validateLongName name = .ok ())
    (h : checkForExistenceL upper slots name isDir fuel = .ok (.alias a)) :
    sfnName (sfnWith a body) = a ∧
    entrySlots (Names.encodeUtf16 name.toList) (sfnWith a body) =
      lfnGenerate (Names.encodeUtf16 name.toList) (lfnChecksum a) ++ [sfnWith a body] ∧
    (lfnGenerate (Names.encodeUtf16 name.toList) (lfnChecksum a)).length =
      numParts (Names.encodeUtf16 name.toList).length ∧
    (∀ s ∈ lfnGenerate (Names.encodeUtf16 name.toList) (lfnChecksum a), Lfn.chk s = lfnChecksum a) ∧
    CompleteRun (lfnChecksum a) (lfnGenerate (Names.encodeUtf16 name.toList) (lfnChecksum a)) := by
  have hlen := dir_alias_length upper slots name isDir fuel a h
  have hs := sfnName_sfnWith a body hlen
  obtain ⟨_, _, h1, h255, hu, _⟩ := valid_units (cs := name.toList) hv
  obtain ⟨r1, _, _, _, r5, _⟩ := lfn_run_wf (Names.encodeUtf16 name.toList) (lfnChecksum a) h1 h255 hu
  refine ⟨hs, by unfold entrySlots; rw [hs], r1, lfnGenerate_chk _ _ h1 h255 hu, r5⟩

/-! ## (6) creating the entry keeps the directory well-formed -/

/-- the alias `check_for_existence` returns discharges ALL freshness hypotheses of `writeEntry_dirWf`
    (`find_entry … name = none`; raw short name new; no listed entry answers to the alias's display form), and the side
    conditions on the units and the slot class -/
theorem dir_create_hyps (upper : Char → List Char) (slots : List (List Nat)) (name : String) (isDir : Option Bool)
    (fuel : Nat) (a : List Nat) (attr : Nat) (rest : List Nat) (hv : Names.validateLongName name = .ok ())
    (hattr : attr % 64 / 8 % 2 = 0)
    (h : checkForExistenceL upper slots name isDir fuel = .ok (.alias a)) :
    name.toList ≠ [] ∧
    1 ≤ (Names.encodeUtf16 name.toList).length ∧ (Names.encodeUtf16 name.toList).length ≤ 255 ∧
    (∀ x ∈ Names.encodeUtf16 name.toList, x < 65536) ∧ (∀ x ∈ Names.encodeUtf16 name.toList, x ≠ 0) ∧
    slotClass (sfnWith a (attr :: rest)) = .file ∧
    findEntry upper slots name.toList = none ∧
    (∀ e ∈ listing slots, sfnName e.sfn ≠ sfnName (sfnWith a (attr :: rest))) ∧
    (∀ e ∈ listing slots, matchesName upper e (Names.aliasDisplay (sfnName (sfnWith a (attr :: rest)))) = false) := by
  obtain ⟨v0, _, v1, v2, v3, v4⟩ := valid_units (cs := name.toList) hv
  have hleg := dir_alias_legal upper slots name isDir fuel a hv h
  refine ⟨v0, v1, v2, v3, v4, slotClass_sfnWith a attr rest hleg hattr, (check_alias upper slots name isDir fuel a h).1, ?_, ?_⟩
  · rw [sfnName_sfnWith a _ hleg.1]
    exact dir_alias_fresh upper slots name isDir fuel a h
  · rw [sfnName_sfnWith a _ hleg.1]
    exact dir_alias_display_free upper slots name isDir fuel a h

/-- **full strength** (holds since the repair of F23): on a well-formed directory, writing the entry for a valid
    name with the alias `check_for_existence` returned (any body whose attribute byte has no VOLUME_ID bit) gives a
    well-formed directory again — no duplicate raw short names, no two entries answering to one query. -/
theorem dir_create_wf (upper : Char → List Char) (slots : List (List Nat)) (name : String)
    (isDir : Option Bool) (fuel : Nat) (a : List Nat) (attr : Nat) (rest : List Nat)
    (hwf : DirWf upper slots) (hv : Names.validateLongName name = .ok ()) (hattr : attr % 64 / 8 % 2 = 0)
    (h : checkForExistenceL upper slots name isDir fuel = .ok (.alias a)) :
    DirWf upper (writeEntry slots (Names.encodeUtf16 name.toList) (sfnWith a (attr :: rest))) := by
  obtain ⟨c0, c1, c2, c3, c4, c5, c6, c7, c8⟩ := dir_create_hyps upper slots name isDir fuel a attr rest hv hattr h
  exact writeEntry_dirWf upper slots name.toList _ hwf c0 c1 c2 c3 c4 c5 c6 c7 c8

/-- the third hypothesis spelled out: no listed entry's LONG name folds like the display form of the new alias, and no
    listed entry's own alias display folds like it (the second part is not implied by raw-name freshness either when
    foreign raw names contain lower-case letters or bytes ≥ 0x80, which all display as U+FFFD) -/
theorem dir_alias_display_hyp_iff (upper : Char → List Char) (slots : List (List Nat)) (a : List Nat) :
    (∀ e ∈ listing slots, matchesName upper e (Names.aliasDisplay a) = false) ↔
      (∀ e ∈ listing slots, ¬ (e.units ≠ [] ∧ ∃ long : List Char, Names.decodeUtf16 e.units = long.map some ∧
          Names.fold upper (Names.aliasDisplay a) = Names.fold upper long)) ∧
      (∀ e ∈ listing slots,
          Names.fold upper (Names.aliasDisplay a) ≠ Names.fold upper (Names.aliasDisplay (sfnName e.sfn))) := by
  have key : ∀ e : LfnEntry, matchesName upper e (Names.aliasDisplay a) = false ↔
      ¬ ((e.units ≠ [] ∧ ∃ long : List Char, Names.decodeUtf16 e.units = long.map some ∧
          Names.fold upper (Names.aliasDisplay a) = Names.fold upper long) ∨
        Names.fold upper (Names.aliasDisplay a) = Names.fold upper (Names.aliasDisplay (sfnName e.sfn))) := by
    intro e
    rw [← C15.lookup_iff upper e.units (sfnName e.sfn) (Names.aliasDisplay a)]
    unfold matchesName
    cases Names.eqName upper e.units (sfnName e.sfn) (Names.aliasDisplay a) <;> simp
  constructor
  · intro h
    exact ⟨fun e he hc => (key e).1 (h e he) (Or.inl hc), fun e he hc => (key e).1 (h e he) (Or.inr hc)⟩
  · rintro ⟨h1, h2⟩ e he
    exact (key e).2 (fun hc => hc.elim (h1 e he) (h2 e he))

/-! ## examples and the F23 regression -/

/-- directory with entry `A` and an entry whose long name is `test~1` but whose raw short name is `ABC` (possible on a
    volume written by another implementation; well-formed in every sense of `DirWf`) -/
def dirB : List (List Nat) :=
  writeEntry [C01.sfnOf "A          ", C01.zero] (Names.encodeUtf16 "test~1".toList) (C01.sfnOf "ABC        ")

theorem dirB_wf : DirWf Names.upperAscii dirB := by
  have hl : listing [C01.sfnOf "A          ", C01.zero] = [⟨C01.sfnOf "A          ", [], 0, 1⟩] := by decide +kernel
  refine writeEntry_dirWf Names.upperAscii _ "test~1".toList _ C01.dirA_wf (by decide) (by decide) (by decide)
    (by decide) (by decide) (by decide) (by decide +kernel) ?_ ?_
  · intro e he
    rw [hl, List.mem_singleton] at he
    rw [he]; decide
  · intro e he
    rw [hl, List.mem_singleton] at he
    rw [he]; decide +kernel

def body20 : List Nat := 0x20 :: List.replicate 20 0
def aliasTest1 : List Nat := "TEST~1     ".toList.map Char.toNat
def aliasTest2 : List Nat := "TEST~2     ".toList.map Char.toNat

/-- satisfiability of (1)–(5): looking up / creating in `dirB` -/
example :
    checkForExistenceL Names.upperAscii dirB "TEST~1" none 3 =
      .ok (.entry ⟨C01.sfnOf "ABC        ", Names.encodeUtf16 "test~1".toList, 1, 3⟩) ∧   -- found by long name
    checkForExistenceL Names.upperAscii dirB "abc" (some false) 3 =
      .ok (.entry ⟨C01.sfnOf "ABC        ", Names.encodeUtf16 "test~1".toList, 1, 3⟩) ∧   -- found by alias
    checkForExistenceL Names.upperAscii dirB "abc" (some true) 3 = .error .invalidInput ∧    -- kind mismatch
    checkForExistenceL Names.upperAscii dirB "a b" none 3 =
      .ok (.alias ("AB~1       ".toList.map Char.toNat)) ∧                                    -- lossy ⇒ `~1`
    checkForExistenceL Names.upperAscii dirB "b" none 3 =
      .ok (.alias ("B          ".toList.map Char.toNat)) ∧                                    -- exact form
    checkForExistenceL Names.upperAscii dirB "b" none 0 = .error .hang := by
  decide +kernel

/-- if no two listed entries can be hit by one query, at most one listed entry answers to any query -/
theorem keys_filter_le_one (upper : Char → List Char) (q : List Char) :
    ∀ L : List LfnEntry, L.Pairwise (KeysDisjoint upper) → (L.filter fun e => matchesName upper e q).length ≤ 1
  | [], _ => by simp
  | e :: es, h => by
    obtain ⟨h1, h2⟩ := List.pairwise_cons.1 h
    have ih := keys_filter_le_one upper q es h2
    by_cases hm : matchesName upper e q = true
    · have : (es.filter fun e => matchesName upper e q) = [] := by
        rw [List.filter_eq_nil_iff]
        intro x hx hxm
        exact h1 x hx q ⟨hm, hxm⟩
      simp only [List.filter_cons, hm, if_true, this]; simp
    · simp only [List.filter_cons, hm, Bool.false_eq_true, if_false]; exact ih

/-- **F23 regression (foreign directory).**  In `dirB` the long name `test~1` belongs to the entry `ABC`.  Creating
    `"te st"`: the first candidate `TEST~1` is answered by that long name, so it is fed back and the NEXT candidate
    `TEST~2` is returned (one extra round); writing the entry leaves exactly one entry answering to `test~1` and one to
    `test~2`, and the directory stays well-formed (before commit 4df4d32: alias `TEST~1`, two entries answering to
    `test~1`). -/
theorem dir_alias_display_collision_regression :
    DirWf Names.upperAscii dirB ∧ Names.validateLongName "te st" = .ok () ∧
    checkForExistenceL Names.upperAscii dirB "te st" (some false) 3 = .ok (.alias aliasTest2) ∧
    checkForExistenceL Names.upperAscii dirB "te st" (some false) 1 = .error .hang ∧
    ((listing (writeEntry dirB (Names.encodeUtf16 "te st".toList) (sfnWith aliasTest2 body20))).filter
      fun e => matchesName Names.upperAscii e "test~1".toList).length = 1 ∧
    ((listing (writeEntry dirB (Names.encodeUtf16 "te st".toList) (sfnWith aliasTest2 body20))).filter
      fun e => matchesName Names.upperAscii e "test~2".toList).length = 1 ∧
    DirWf Names.upperAscii (writeEntry dirB (Names.encodeUtf16 "te st".toList) (sfnWith aliasTest2 body20)) := by
  have h3 : checkForExistenceL Names.upperAscii dirB "te st" (some false) 3 = .ok (.alias aliasTest2) := by
    decide +kernel
  refine ⟨dirB_wf, rfl, h3, by decide +kernel, by decide +kernel, by decide +kernel, ?_⟩
  exact dir_create_wf Names.upperAscii dirB "te st" (some false) 3 aliasTest2 0x20 (List.replicate 20 0) dirB_wf rfl
    (by decide) h3

/-- `dir_alias_terminates` instantiated: two listed entries, fuel 15 -/
example : checkForExistenceL Names.upperAscii dirB "te st" (some false) 15 ≠ .error .hang :=
  (dir_alias_terminates Names.upperAscii upperAscii_fixes dirB "te st" (some false) 15 (by decide +kernel)
    (by decide +kernel)).1

/-- a case folding that, like `char::to_uppercase` (feature `unicode`), maps U+017F LATIN SMALL LETTER LONG S to `S` -/
def upperLongS (c : Char) : List Char := if c = 'ſ' then ['S'] else Names.upperAscii c

def dirS1 : List (List Nat) :=
  writeEntry [C01.zero] (Names.encodeUtf16 "teſt~1".toList) (sfnWith ("TE_T~1~1   ".toList.map Char.toNat) body20)
def dirS2 : List (List Nat) :=
  writeEntry dirS1 (Names.encodeUtf16 "te st".toList) (sfnWith aliasTest2 body20)

/-- **F23 regression (reachable through creating calls, case folding with `ſ ↦ S`).**  Create `"teſt~1"` (alias
    `TE_T~1~1`), then `"te st"`: the candidate `TEST~1` is answered by the first entry's long name, the alias becomes
    `TEST~2`; `test~1` answers to exactly one entry. -/
theorem dir_alias_collision_reachable_regression :
    checkForExistenceL upperLongS [C01.zero] "teſt~1" (some false) 3 =
      .ok (.alias ("TE_T~1~1   ".toList.map Char.toNat)) ∧
    checkForExistenceL upperLongS dirS1 "te st" (some false) 3 = .ok (.alias aliasTest2) ∧
    ((listing dirS2).filter fun e => matchesName upperLongS e "test~1".toList).length = 1 ∧
    (findEntry upperLongS dirS2 "test~2".toList).map (·.units) = some (Names.encodeUtf16 "te st".toList) := by
  decide +kernel

end C16dir
end FatVerif
