import FatVerif.Proofs.DirAlias
import FatVerif.Props.C16
import FatVerif.Props.C15lfn
import FatVerif.Props.C01dir
/-!
# C16 at directory level — the alias `check_for_existence` chooses from a directory scan

Model: `DirAlias.checkForExistenceL upper slots name isDir fuel` (Model/DirAlias.lean), the pure mirror of
`check_for_existence` + `find_entry` over the listing of a slot list (`DirSlots.listing = readDirEntries true true`);
the effectful transliteration is `DirOps.checkForExistence`.  All theorems hold for every slot list (no
well-formedness needed unless stated), every name and every case folding `upper`.
-/
namespace FatVerif
namespace C16dir
open Lfn DirSlots DirAlias

/-! ## (5) an existing entry is returned iff the lookup finds one -/

/-- with at least one round of fuel: the result is the entry `e` iff `find_entry(name, is_dir)` returns `e` (first
    listed entry whose long name or alias matches ignoring case — `findEntry_spec` — and of the requested kind);
    it is `InvalidInput` iff `find_entry` says so; and an alias is generated (or the fuel runs out) iff NO listed entry
    matches.  So a creating call never makes a second entry for a name that an existing long name or alias answers to. -/
theorem dir_existing_returned_iff (upper : Char → List Char) (slots : List (List Nat)) (name : String)
    (isDir : Option Bool) (fuel : Nat) (hfuel : 1 ≤ fuel) :
    (∀ e, checkForExistenceL upper slots name isDir fuel = .ok (.entry e) ↔
      findEntryKind upper slots name.toList isDir = .ok e) ∧
    (checkForExistenceL upper slots name isDir fuel = .error .invalidInput ↔
      findEntryKind upper slots name.toList isDir = .error .invalidInput) ∧
    (((∃ a, checkForExistenceL upper slots name isDir fuel = .ok (.alias a)) ∨
        checkForExistenceL upper slots name isDir fuel = .error .hang) ↔
      findEntry upper slots name.toList = none) := by
  obtain ⟨f, rfl⟩ : ∃ f, fuel = f + 1 := ⟨fuel - 1, by omega⟩
  rw [findEntryKind_eq]
  cases hf : findEntry upper slots name.toList with
  | some e0 =>
    rw [check_found upper slots name isDir f e0 hf]
    cases hk : kindResult isDir (some e0) with
    | ok e1 => simp
    | error x =>
      have hx : x = .invalidInput := by
        unfold kindResult at hk
        cases isDir with
        | none => simp at hk
        | some d => by_cases hd : Lfn.isDir e0.sfn = d <;> simp [hd] at hk; exact hk.symm
      subst hx; simp
  | none =>
    obtain ⟨g, _, hc⟩ := check_notfound upper slots name isDir (f + 1) hf
    rw [hc]
    cases Names.generateLoop (population slots) (f + 1) 0 g with
    | none => simp [kindResult]
    | some r => obtain ⟨a, k⟩ := r; simp [kindResult]

/-! ## (1) freshness -/

/-- if the result is an alias `a`, no LISTED entry has raw short name `a` (in every round nothing matched, so the
    round's population is the whole listing; `C16.alias_fresh_loop`) -/
theorem dir_alias_fresh (upper : Char → List Char) (slots : List (List Nat)) (name : String) (isDir : Option Bool)
    (fuel : Nat) (a : List Nat) (h : checkForExistenceL upper slots name isDir fuel = .ok (.alias a)) :
    ∀ e ∈ listing slots, sfnName e.sfn ≠ a := by
  obtain ⟨_, g, k, hg, hl⟩ := check_alias upper slots name isDir fuel a h
  have := C16.alias_fresh_loop name g hg (population slots) fuel a k hl
  intro e he heq
  exact this (List.mem_map.2 ⟨e, he, heq⟩)

/-! ## (2) legality -/

/-- for a name `validate_long_name` accepts, the alias is a legal 8.3 name (`C16.alias_legal_loop`) -/
theorem dir_alias_legal (upper : Char → List Char) (slots : List (List Nat)) (name : String) (isDir : Option Bool)
    (fuel : Nat) (a : List Nat) (hv : Names.validateLongName name = .ok ())
    (h : checkForExistenceL upper slots name isDir fuel = .ok (.alias a)) : Names.LegalAlias a := by
  obtain ⟨_, g, k, hg, hl⟩ := check_alias upper slots name isDir fuel a h
  refine C16.alias_legal_loop name ?_ g hg (population slots) fuel a k hl
  rintro rfl; cases hv

/-- for every name (also the empty one) the alias has 11 bytes -/
theorem dir_alias_length (upper : Char → List Char) (slots : List (List Nat)) (name : String) (isDir : Option Bool)
    (fuel : Nat) (a : List Nat) (h : checkForExistenceL upper slots name isDir fuel = .ok (.alias a)) :
    a.length = 11 := by
  obtain ⟨_, g, k, hg, hl⟩ := check_alias upper slots name isDir fuel a h
  obtain ⟨g', r, hgen⟩ := Names.loop_result (population slots) fuel 0 g g Names.Reach.refl hl
  exact generate_length ((r.addAll _).wf (Names.newL_wf hg)) hgen

/-! ## (3) termination -/

/-- on a directory listing fewer than 9·65536 entries, any fuel above `n/9` (so in particular `n/9 + 2`, and the
    70000 of `DirOps.checkForExistence`) never yields the fuel-exhaustion outcome: the result is an existing entry,
    `InvalidInput`, or an alias found after at most `n/9` calls of `next_iteration` -/
theorem dir_alias_terminates (upper : Char → List Char) (slots : List (List Nat)) (name : String)
    (isDir : Option Bool) (fuel : Nat) (hn : (listing slots).length < 9 * 65536)
    (hfuel : (listing slots).length / 9 < fuel) :
    checkForExistenceL upper slots name isDir fuel ≠ .error .hang ∧
    ((∃ e, checkForExistenceL upper slots name isDir fuel = .ok (.entry e)) ∨
     checkForExistenceL upper slots name isDir fuel = .error .invalidInput ∨
     (∃ a, checkForExistenceL upper slots name isDir fuel = .ok (.alias a))) := by
  obtain ⟨f, rfl⟩ : ∃ f, fuel = f + 1 := ⟨fuel - 1, by omega⟩
  cases hf : findEntry upper slots name.toList with
  | some e0 =>
    rw [check_found upper slots name isDir f e0 hf]
    cases hk : kindResult isDir (some e0) with
    | ok e1 => exact ⟨by simp, Or.inl ⟨e1, rfl⟩⟩
    | error x =>
      have hx : x = .invalidInput := by
        unfold kindResult at hk
        cases isDir with
        | none => simp at hk
        | some d => by_cases hd : Lfn.isDir e0.sfn = d <;> simp [hd] at hk; exact hk.symm
      subst hx; exact ⟨by simp, Or.inr (Or.inl rfl)⟩
  | none =>
    obtain ⟨g, hg, hc⟩ := check_notfound upper slots name isDir (f + 1) hf
    have hp : (population slots).length = (listing slots).length := by simp [population]
    obtain ⟨a, k, hl, _⟩ := C16.alias_terminates name g hg (population slots) (by rw [hp]; exact hn) (f + 1)
      (by rw [hp]; exact hfuel)
    rw [hc, hl]
    exact ⟨by simp, Or.inr (Or.inr ⟨a, rfl⟩)⟩

/-- the coordinator's form: fuel ≥ n/9 + 2 -/
theorem dir_alias_no_hang (upper : Char → List Char) (slots : List (List Nat)) (name : String)
    (isDir : Option Bool) (fuel : Nat) (hn : (listing slots).length < 9 * 65536)
    (hfuel : (listing slots).length / 9 + 2 ≤ fuel) :
    checkForExistenceL upper slots name isDir fuel ≠ .error .hang :=
  (dir_alias_terminates upper slots name isDir fuel hn (by omega)).1

/-! ## (4) the alias is tied to its long name by the checksum -/

/-- all slots of a generated long-name run carry the checksum they were generated with (`lfn_run_wf`) -/
theorem lfnGenerate_chk (units : List Nat) (c : Nat) (h1 : 1 ≤ units.length) (h255 : units.length ≤ 255)
    (hu : ∀ x ∈ units, x < 65536) : ∀ s ∈ lfnGenerate units c, Lfn.chk s = c := by
  intro s hs
  obtain ⟨i, hi, rfl⟩ := List.mem_iff_getElem.1 hs
  obtain ⟨hlen, hall, _⟩ := lfn_run_wf units c h1 h255 hu
  obtain ⟨s', e1, _, _, _, _, e2, _⟩ := hall i (by rw [← hlen]; exact hi)
  rw [List.getElem?_eq_getElem hi] at e1
  cases e1; exact e2

/-- the slots `write_entry` produces for a valid `name` and a short slot carrying the chosen alias `a` (any 21 body
    bytes): `⌈len/13⌉` long-name slots, each with checksum byte `lfnChecksum a`, forming a complete run for that
    checksum, then the short slot whose raw name is `a` -/
theorem dir_alias_checksum (upper : Char → List Char) (slots : List (List Nat)) (name : String) (isDir : Option Bool)
    (fuel : Nat) (a : List Nat) (body : List Nat) (hv : Names.validateLongName name = .ok ())
    (h : checkForExistenceL upper slots name isDir fuel = .ok (.alias a)) :
    sfnName (sfnWith a body) = a ∧
    entrySlots (Names.encodeUtf16 name.toList) (sfnWith a body) =
      lfnGenerate (Names.encodeUtf16 name.toList) (lfnChecksum a) ++ [sfnWith a body] ∧
    (lfnGenerate (Names.encodeUtf16 name.toList) (lfnChecksum a)).length =
      numParts (Names.encodeUtf16 name.toList).length ∧
    (∀ s ∈ lfnGenerate (Names.encodeUtf16 name.toList) (lfnChecksum a), Lfn.chk s = lfnChecksum a) ∧
    CompleteRun (lfnChecksum a) (lfnGenerate (Names.encodeUtf16 name.toList) (lfnChecksum a)) := by
  have hlen := dir_alias_length upper slots name isDir fuel a h
  have hs := sfnName_sfnWith a body hlen
  obtain ⟨_, _, h1, h255, hu, _⟩ := valid_units (cs := name.toList) hv
  obtain ⟨r1, _, _, _, r5, _⟩ := lfn_run_wf (Names.encodeUtf16 name.toList) (lfnChecksum a) h1 h255 hu
  refine ⟨hs, by unfold entrySlots; rw [hs], r1, lfnGenerate_chk _ _ h1 h255 hu, r5⟩

/-! ## (6) towards `writeEntry_dirWf` -/

/-- the alias `check_for_existence` returns discharges the first two freshness hypotheses of `writeEntry_dirWf`
    (`find_entry … name = none`; raw short name new), and the side conditions on the units and the slot class -/
theorem dir_create_hyps (upper : Char → List Char) (slots : List (List Nat)) (name : String) (isDir : Option Bool)
    (fuel : Nat) (a : List Nat) (attr : Nat) (rest : List Nat) (hv : Names.validateLongName name = .ok ())
    (hattr : attr % 64 / 8 % 2 = 0)
    (h : checkForExistenceL upper slots name isDir fuel = .ok (.alias a)) :
    name.toList ≠ [] ∧
    1 ≤ (Names.encodeUtf16 name.toList).length ∧ (Names.encodeUtf16 name.toList).length ≤ 255 ∧
    (∀ x ∈ Names.encodeUtf16 name.toList, x < 65536) ∧ (∀ x ∈ Names.encodeUtf16 name.toList, x ≠ 0) ∧
    slotClass (sfnWith a (attr :: rest)) = .file ∧
    findEntry upper slots name.toList = none ∧
    (∀ e ∈ listing slots, sfnName e.sfn ≠ sfnName (sfnWith a (attr :: rest))) := by
  obtain ⟨v0, _, v1, v2, v3, v4⟩ := valid_units (cs := name.toList) hv
  have hleg := dir_alias_legal upper slots name isDir fuel a hv h
  refine ⟨v0, v1, v2, v3, v4, slotClass_sfnWith a attr rest hleg hattr, (check_alias upper slots name isDir fuel a h).1, ?_⟩
  rw [sfnName_sfnWith a _ hleg.1]
  exact dir_alias_fresh upper slots name isDir fuel a h

/-- creating the entry keeps the directory well-formed PROVIDED no listed entry answers to the display form of the
    new alias. That third hypothesis is forced: the scan compared every entry with the QUERY, never with the alias it
    was about to choose (`dir_alias_display_collision_counterexample`). -/
theorem dir_create_wf_partial (upper : Char → List Char) (slots : List (List Nat)) (name : String)
    (isDir : Option Bool) (fuel : Nat) (a : List Nat) (attr : Nat) (rest : List Nat)
    (hwf : DirWf upper slots) (hv : Names.validateLongName name = .ok ()) (hattr : attr % 64 / 8 % 2 = 0)
    (h : checkForExistenceL upper slots name isDir fuel = .ok (.alias a))
    (halias : ∀ e ∈ listing slots, matchesName upper e (Names.aliasDisplay a) = false) :
    DirWf upper (writeEntry slots (Names.encodeUtf16 name.toList) (sfnWith a (attr :: rest))) := by
  obtain ⟨c0, c1, c2, c3, c4, c5, c6, c7⟩ := dir_create_hyps upper slots name isDir fuel a attr rest hv hattr h
  have hleg := dir_alias_legal upper slots name isDir fuel a hv h
  refine writeEntry_dirWf upper slots name.toList _ hwf c0 c1 c2 c3 c4 c5 c6 c7 ?_
  rw [sfnName_sfnWith a _ hleg.1]
  exact halias

/-- the third hypothesis spelled out: no listed entry's LONG name folds like the display form of the new alias, and no
    listed entry's own alias display folds like it (the second part is not implied by raw-name freshness either when
    foreign raw names contain lower-case letters or bytes ≥ 0x80, which all display as U+FFFD) -/
theorem dir_alias_display_hyp_iff (upper : Char → List Char) (slots : List (List Nat)) (a : List Nat) :
    (∀ e ∈ listing slots, matchesName upper e (Names.aliasDisplay a) = false) ↔
      (∀ e ∈ listing slots, ¬ (e.units ≠ [] ∧ ∃ long : List Char, Names.decodeUtf16 e.units = long.map some ∧
          Names.fold upper (Names.aliasDisplay a) = Names.fold upper long)) ∧
      (∀ e ∈ listing slots,
          Names.fold upper (Names.aliasDisplay a) ≠ Names.fold upper (Names.aliasDisplay (sfnName e.sfn))) := by
  have key : ∀ e : LfnEntry, matchesName upper e (Names.aliasDisplay a) = false ↔
      ¬ ((e.units ≠ [] ∧ ∃ long : List Char, Names.decodeUtf16 e.units = long.map some ∧
          Names.fold upper (Names.aliasDisplay a) = Names.fold upper long) ∨
        Names.fold upper (Names.aliasDisplay a) = Names.fold upper (Names.aliasDisplay (sfnName e.sfn))) := by
    intro e
    rw [← C15.lookup_iff upper e.units (sfnName e.sfn) (Names.aliasDisplay a)]
    unfold matchesName
    cases Names.eqName upper e.units (sfnName e.sfn) (Names.aliasDisplay a) <;> simp
  constructor
  · intro h
    exact ⟨fun e he hc => (key e).1 (h e he) (Or.inl hc), fun e he hc => (key e).1 (h e he) (Or.inr hc)⟩
  · rintro ⟨h1, h2⟩ e he
    exact (key e).2 (fun hc => hc.elim (h1 e he) (h2 e he))

/-! ## examples and the counterexample for the third hypothesis -/

/-- directory with entry `A` and an entry whose long name is `test~1` but whose raw short name is `ABC` (possible on a
    volume written by another implementation; well-formed in every sense of `DirWf`) -/
def dirB : List (List Nat) :=
  writeEntry [C01.sfnOf "A          ", C01.zero] (Names.encodeUtf16 "test~1".toList) (C01.sfnOf "ABC        ")

theorem dirB_wf : DirWf Names.upperAscii dirB := by
  have hl : listing [C01.sfnOf "A          ", C01.zero] = [⟨C01.sfnOf "A          ", [], 0, 1⟩] := by decide +kernel
  refine writeEntry_dirWf Names.upperAscii _ "test~1".toList _ C01.dirA_wf (by decide) (by decide) (by decide)
    (by decide) (by decide) (by decide) (by decide +kernel) ?_ ?_
  · intro e he
    rw [hl, List.mem_singleton] at he
    rw [he]; decide
  · intro e he
    rw [hl, List.mem_singleton] at he
    rw [he]; decide +kernel

def body20 : List Nat := 0x20 :: List.replicate 20 0
def aliasTest1 : List Nat := "TEST~1     ".toList.map Char.toNat

/-- satisfiability of (1)–(5): looking up / creating in `dirB` -/
example :
    checkForExistenceL Names.upperAscii dirB "TEST~1" none 3 =
      .ok (.entry ⟨C01.sfnOf "ABC        ", Names.encodeUtf16 "test~1".toList, 1, 3⟩) ∧   -- found by long name
    checkForExistenceL Names.upperAscii dirB "abc" (some false) 3 =
      .ok (.entry ⟨C01.sfnOf "ABC        ", Names.encodeUtf16 "test~1".toList, 1, 3⟩) ∧   -- found by alias
    checkForExistenceL Names.upperAscii dirB "abc" (some true) 3 = .error .invalidInput ∧    -- kind mismatch
    checkForExistenceL Names.upperAscii dirB "a b" none 3 =
      .ok (.alias ("AB~1       ".toList.map Char.toNat)) ∧                                    -- lossy ⇒ `~1`
    checkForExistenceL Names.upperAscii dirB "b" none 3 =
      .ok (.alias ("B          ".toList.map Char.toNat)) ∧                                    -- exact form
    checkForExistenceL Names.upperAscii dirB "b" none 0 = .error .hang := by
  decide +kernel

/-- if no two listed entries can be hit by one query, at most one listed entry answers to any query -/
theorem keys_filter_le_one (upper : Char → List Char) (q : List Char) :
    ∀ L : List LfnEntry, L.Pairwise (KeysDisjoint upper) → (L.filter fun e => matchesName upper e q).length ≤ 1
  | [], _ => by simp
  | e :: es, h => by
    obtain ⟨h1, h2⟩ := List.pairwise_cons.1 h
    have ih := keys_filter_le_one upper q es h2
    by_cases hm : matchesName upper e q = true
    · have : (es.filter fun e => matchesName upper e q) = [] := by
        rw [List.filter_eq_nil_iff]
        intro x hx hxm
        exact h1 x hx q ⟨hm, hxm⟩
      simp only [List.filter_cons, hm, if_true, this]; simp
    · simp only [List.filter_cons, hm, Bool.false_eq_true, if_false]; exact ih

/-- **The third hypothesis of `writeEntry_dirWf` does not follow from the scan.**  In the well-formed directory `dirB`
    the name `"te st"` is not found, the generator returns the fresh, legal alias `TEST~1`, whose display form
    `TEST~1` is — ignoring case — the LONG name of the listed entry `ABC`; after the entry is written, the query
    `test~1` answers to two entries (the old one by long name, the new one by alias) and the directory is no longer
    well-formed. -/
theorem dir_alias_display_collision_counterexample :
    DirWf Names.upperAscii dirB ∧ Names.validateLongName "te st" = .ok () ∧
    checkForExistenceL Names.upperAscii dirB "te st" (some false) 3 = .ok (.alias aliasTest1) ∧
    (∃ e ∈ listing dirB, matchesName Names.upperAscii e (Names.aliasDisplay aliasTest1) = true) ∧
    ((listing (writeEntry dirB (Names.encodeUtf16 "te st".toList) (sfnWith aliasTest1 body20))).filter
      fun e => matchesName Names.upperAscii e "test~1".toList).length = 2 ∧
    ¬ DirWf Names.upperAscii (writeEntry dirB (Names.encodeUtf16 "te st".toList) (sfnWith aliasTest1 body20)) := by
  have h5 : ((listing (writeEntry dirB (Names.encodeUtf16 "te st".toList) (sfnWith aliasTest1 body20))).filter
      fun e => matchesName Names.upperAscii e "test~1".toList).length = 2 := by decide +kernel
  refine ⟨dirB_wf, rfl, by decide +kernel, ?_, h5, ?_⟩
  · refine ⟨⟨C01.sfnOf "ABC        ", Names.encodeUtf16 "test~1".toList, 1, 3⟩, by decide +kernel, by decide +kernel⟩
  · intro hwf
    have := keys_filter_le_one Names.upperAscii "test~1".toList _ hwf.keys
    omega

/-- a case folding that, like `char::to_uppercase` (feature `unicode`), maps U+017F LATIN SMALL LETTER LONG S to `S` -/
def upperLongS (c : Char) : List Char := if c = 'ſ' then ['S'] else Names.upperAscii c

def dirS1 : List (List Nat) :=
  writeEntry [C01.zero] (Names.encodeUtf16 "teſt~1".toList) (sfnWith ("TE_T~1~1   ".toList.map Char.toNat) body20)
def dirS2 : List (List Nat) :=
  writeEntry dirS1 (Names.encodeUtf16 "te st".toList) (sfnWith aliasTest1 body20)

/-- the same collision reached through creating calls only, from an EMPTY directory, under a case folding with
    `ſ ↦ S`: create `"teſt~1"` (alias `TE_T~1~1`), then create `"te st"` (not found; alias `TEST~1`); now `test~1`
    answers to both entries.  Reproduced on the real library (build with feature `unicode`) with
    `create_file("teſt~1")`, `create_file("te st")`: `open_file("test~1")` opens the FIRST file although `TEST~1` is the
    second file's alias, and `remove("TEST~1")` removes the first. -/
theorem dir_alias_collision_reachable_counterexample :
    checkForExistenceL upperLongS [C01.zero] "teſt~1" (some false) 3 =
      .ok (.alias ("TE_T~1~1   ".toList.map Char.toNat)) ∧
    checkForExistenceL upperLongS dirS1 "te st" (some false) 3 = .ok (.alias aliasTest1) ∧
    ((listing dirS2).filter fun e => matchesName upperLongS e "test~1".toList).length = 2 ∧
    (findEntry upperLongS dirS2 "test~1".toList).map (·.units) = some (Names.encodeUtf16 "teſt~1".toList) ∧
    ¬ DirWf upperLongS dirS2 := by
  have h3 : ((listing dirS2).filter fun e => matchesName upperLongS e "test~1".toList).length = 2 := by
    decide +kernel
  refine ⟨by decide +kernel, by decide +kernel, h3, by decide +kernel, ?_⟩
  intro hwf
  have := keys_filter_le_one upperLongS "test~1".toList _ hwf.keys
  omega

/-- with the extra hypothesis the write is fine: creating `"a b"` (alias `AB~1`) in `dirB` -/
example : DirWf Names.upperAscii
    (writeEntry dirB (Names.encodeUtf16 "a b".toList) (sfnWith ("AB~1       ".toList.map Char.toNat) body20)) := by
  refine dir_create_wf_partial Names.upperAscii dirB "a b" none 3 _ 0x20 (List.replicate 20 0) dirB_wf rfl
    (by decide) (by decide +kernel) ?_
  have hl : (listing dirB).map (fun e => (e.units, sfnName e.sfn)) =
      [([], sfnName (C01.sfnOf "A          ")), (Names.encodeUtf16 "test~1".toList, sfnName (C01.sfnOf "ABC        "))] := by
    decide +kernel
  intro e he
  have : (e.units, sfnName e.sfn) ∈ (listing dirB).map (fun e => (e.units, sfnName e.sfn)) :=
    List.mem_map.2 ⟨e, he, rfl⟩
  rw [hl] at this
  simp only [List.mem_cons, Prod.mk.injEq, List.not_mem_nil, or_false] at this
  unfold matchesName
  rcases this with ⟨h1, h2⟩ | ⟨h1, h2⟩ <;> rw [h1, h2] <;> decide +kernel

end C16dir
end FatVerif
