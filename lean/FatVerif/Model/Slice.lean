import FatVerif.Model.Io
/-! `fs.rs`: `set_dirty_flag`, `FsIoAdapter` (device access that sets the dirty flag before the first modifying write),
    `DiskSlice` (bounded, mirrored sub-stream), `fat_slice`, the fixed root-directory slice. -/
namespace FatVerif

/-- `FsStatusFlags::encode` -/
def encodeStatus (dirty ioErr : Bool) : Nat := (if dirty then 1 else 0) + (if ioErr then 2 else 0)

/-- `FileSystem::set_dirty_flag` (errors are raw device errors) -/
def setDirtyFlag (dirty : Bool) : Prog Unit := do
  let fs ← Prog.getFs
  let flagsDirty := fs.bpbDirty || dirty
  let flagsIo := fs.bpbIoErr
  if flagsDirty == fs.curDirty && flagsIo == fs.curIoErr then pure ()
  else do
    let off := if fs.fatType == .fat32 then 0x41 else 0x25
    let _ ← Prog.seekStart off
    -- `flags.encode() | (self.bpb.reserved_1 & !0x03)`
    let _ ← writeU8 devStrm () (encodeStatus flagsDirty flagsIo ||| (fs.statusRaw / 4 * 4))
    Prog.modifyFs fun fs => { fs with curDirty := flagsDirty, curIoErr := flagsIo }

/-- `FileSystem::set_dirty_flag_before_write`: mark the volume dirty unless it is marked already, and come back to
    the storage position the caller had set up -/
def markDirtyBeforeWrite : Prog Unit := do
  let fs ← Prog.getFs
  if fs.curDirty then pure ()
  else do
    let pos ← Prog.seek (.cur 0)
    setDirtyFlag true
    let _ ← Prog.seekStart pos
    pure ()

/-- `FsIoAdapter`: the device as seen through a mounted file system; the dirty flag is put on the disk BEFORE the
    first modifying write -/
def adapterStrm : Strm Unit where
  read := fun _ n => do let bs ← Prog.read n; pure (bs, ())
  write := fun _ bs => do
    if bs.length > 0 then markDirtyBeforeWrite else pure ()
    let n ← Prog.write bs
    pure (n, ())
  seek := fun _ p => do let n ← Prog.seek p; pure (n, ())
  eofErr := .io devEofErr
  wzErr := .io devWriteZeroErr

/-- `DiskSlice` state. `viaFs = true`: the inner stream is an `FsIoAdapter`; `false`: the raw storage (format). -/
structure DiskSlice where
  beginOff : Nat
  size : Nat
  offset : Nat := 0
  mirrors : Nat := 1
  viaFs : Bool := true
  deriving Repr, DecidableEq, Inhabited

namespace DiskSlice

def inner (s : DiskSlice) : Strm Unit := if s.viaFs then adapterStrm else devStrm

def absPos (s : DiskSlice) : Nat := s.beginOff + s.offset

def read (s : DiskSlice) (n : Nat) : Prog (List Nat × DiskSlice) := do
  let off := s.beginOff + s.offset
  let readSize := min n (s.size - s.offset)
  let _ ← (s.inner.seek () (.start off))
  let (bs, _) ← s.inner.read () readSize
  pure (bs, { s with offset := s.offset + bs.length })

def writeMirrors (s : DiskSlice) (off : Nat) (bs : List Nat) : Nat → Nat → Prog Unit
  | 0, _ => pure ()
  | k + 1, i => do
    let _ ← s.inner.seek () (.start (off + i * s.size))
    let _ ← writeAll s.inner () bs
    writeMirrors s off bs k (i + 1)

def write (s : DiskSlice) (bs : List Nat) : Prog (Nat × DiskSlice) := do
  let off := s.beginOff + s.offset
  let writeSize := min bs.length (s.size - s.offset)
  if writeSize = 0 then pure (0, s)
  else do
    writeMirrors s off (bs.take writeSize) s.mirrors 0
    pure (writeSize, { s with offset := s.offset + writeSize })

def seek (s : DiskSlice) (p : SeekFrom) : Prog (Nat × DiskSlice) :=
  let target : Option Nat :=
    match p with
    | .start n => some n
    | .cur x => let t : Int := (s.offset : Int) + x; if t < 0 then none else some t.toNat
    | .fromEnd x => let t : Int := (s.size : Int) + x; if t < 0 then none else some t.toNat
  match target with
  | some t => if t > s.size then .fail .invalidInput else pure (t, { s with offset := t })
  | none => .fail .invalidInput

def flush (s : DiskSlice) : Prog Unit :=
  let _ := s
  Prog.flush

def strm : Strm DiskSlice where
  read := read
  write := write
  seek := seek
  eofErr := .eof
  wzErr := .writeZero

end DiskSlice

/-- `fat_slice(io, bpb)` for a mounted file system -/
def fatSliceOf (fs : FsState) (viaFs : Bool := true) : DiskSlice :=
  if fs.mirroring then
    { beginOff := fs.reserved * fs.bps, size := fs.spf * fs.bps, mirrors := fs.fats, viaFs := viaFs }
  else
    { beginOff := (fs.reserved + fs.activeFat * fs.spf) * fs.bps, size := fs.spf * fs.bps, mirrors := 1,
      viaFs := viaFs }

/-- the fixed root directory of a FAT12/16 volume (`root_dir()`) -/
def rootSliceOf (fs : FsState) : DiskSlice :=
  { beginOff := (fs.firstDataSector - fs.rootDirSectors) * fs.bps, size := fs.rootDirSectors * fs.bps,
    mirrors := 1, viaFs := true }

end FatVerif
