import FatVerif.Model.Util
import FatVerif.Model.Basic
import FatVerif.Model.FatCodec
import FatVerif.Model.FatAlgo
import FatVerif.Spec.FatTable
/-!
pure-probe driver for suite `fat` (see /verif/ARCH.md).

```
fat.get        <bits> <fathex> <cluster>                 => <kind> <n> | ERR c | PANIC      (kind 0 free,1 data,2 bad,3 eoc)
fat.set        <bits> <fathex> <cluster> <kind> <n>      => <fathex'> | ERR c | PANIC
fat.find_free  <bits> <fathex> <start> <end>             => <c> | ERR c | PANIC
fat.count_free <bits> <fathex> <total>                   => <n> | ERR c | PANIC
fat.alloc      <bits> <fathex> <prev|none> <hint|none> <total> => <c> <fathex'> | ERR c <fathex'> | PANIC
fat.free       <bits> <fathex> <cluster> <budget>        => <n> <fathex'> | ERR c <fathex'> | HANG | PANIC
fat.truncate   <bits> <fathex> <cluster> <budget>        => likewise
fat.chain      <bits> <fathex> <cluster> <max>           => c,c,c | - | ERR c | PANIC
fat.flags      <bits> <fathex>                           => <dirty> <ioerr> | ERR c
fat.format     <bits> <media> <bytes_per_fat> <total>    => <fathex> | ERR c <fathex'> | PANIC  (stream = bytes_per_fat zero bytes)
```
-/
namespace FatVerif.FatDriver
open FatVerif.Util FatVerif.Fat

def fatOf (s : String) : Option (Array Nat) := (bytesOfHex s).map List.toArray

def hexOf (f : Array Nat) : String := hexOfBytes f.toList

def errTok (e : Err) : String :=
  match e with
  | .panic => "PANIC"
  | .hang => "HANG"
  | e => s!"ERR {e.code}"

/-- error token followed by the bytes, except for PANIC/HANG which stand alone -/
def errTokFat (e : Err) (f : Array Nat) : String :=
  match e with
  | .panic => "PANIC"
  | .hang => "HANG"
  | e => s!"ERR {e.code} {hexOf f}"

def encValue : FatValue → String
  | .free => "0 0"
  | .data n => s!"1 {n}"
  | .bad => "2 0"
  | .eoc => "3 0"

def decValue (kind n : Nat) : FatValue :=
  if kind = 0 then .free else if kind = 1 then .data n else if kind = 2 then .bad else .eoc

def showList (l : List Nat) : String :=
  if l.isEmpty then "-" else ",".intercalate (l.map toString)

def showRes (r : Res Nat) : String :=
  match r.out with
  | .ok n => s!"{n} {hexOf r.fat}"
  | .error e => errTokFat e r.fat

def handle (fn : String) (args : List String) : Option String :=
  match fn, args with
  | "fat.get", [b, fh, c] => do
    let bits ← natOf b; let f ← fatOf fh; let c ← natOf c
    match get (FatType.ofBits bits) f c with
    | .ok v => some (encValue v)
    | .error e => some (errTok e)
  | "fat.set", [b, fh, c, k, n] => do
    let bits ← natOf b; let f ← fatOf fh; let c ← natOf c; let k ← natOf k; let n ← natOf n
    match set (FatType.ofBits bits) f c (decValue k n) with
    | .ok f' => some (hexOf f')
    | .error e => some (errTok e)
  | "fat.find_free", [b, fh, s, e] => do
    let bits ← natOf b; let f ← fatOf fh; let s ← natOf s; let e ← natOf e
    match findFree (FatType.ofBits bits) f s e with
    | .ok c => some (toString c)
    | .error e => some (errTok e)
  | "fat.count_free", [b, fh, t] => do
    let bits ← natOf b; let f ← fatOf fh; let t ← natOf t
    match countFree (FatType.ofBits bits) f t with
    | .ok c => some (toString c)
    | .error e => some (errTok e)
  | "fat.alloc", [b, fh, p, h, t] => do
    let bits ← natOf b; let f ← fatOf fh; let p ← optNatOf p; let h ← optNatOf h; let t ← natOf t
    some (showRes (allocCluster f (FatType.ofBits bits) p h t))
  | "fat.free", [b, fh, c, bud] => do
    let bits ← natOf b; let f ← fatOf fh; let c ← natOf c; let bud ← natOf bud
    some (showRes (freeChain (FatType.ofBits bits) f c bud))
  | "fat.truncate", [b, fh, c, bud] => do
    let bits ← natOf b; let f ← fatOf fh; let c ← natOf c; let bud ← natOf bud
    some (showRes (truncateChain (FatType.ofBits bits) f c bud))
  | "fat.chain", [b, fh, c, m] => do
    let bits ← natOf b; let f ← fatOf fh; let c ← natOf c; let m ← natOf m
    match chain (FatType.ofBits bits) f c m with
    | .ok cs => some (showList cs)
    | .error e => some (errTok e)
  | "fat.flags", [b, fh] => do
    let bits ← natOf b; let f ← fatOf fh
    match readFatFlags (FatType.ofBits bits) f with
    | .ok (d, i) => some s!"{showBool d} {showBool i}"
    | .error e => some (errTok e)
  | "fat.format", [b, m, bpf, t] => do
    let bits ← natOf b; let m ← natOf m; let bpf ← natOf bpf; let t ← natOf t
    let r := formatFat (FatType.ofBits bits) (Array.replicate bpf 0) m bpf t
    match r.out with
    | .ok () => some (hexOf r.fat)
    | .error e => some (errTokFat e r.fat)
  | _, _ => none

/-! ## oracles on the implementation's output (independent decoder `FatSpec`) -/

open FatVerif.FatSpec in
/-- FAT32 reserved nibbles must survive any operation -/
def topOracle (bits : Nat) (f f' : Array Nat) : Option String :=
  if bits ≠ 32 then none else
  match topDiff f f' (entryCount 32 f) with
  | [] => none
  | k :: _ => some s!"C10 reserved-bits-changed entry={k} before={specTop f k} after={specTop f' k}"

open FatVerif.FatSpec in
def reservedOracle (bits : Nat) (f f' : Array Nat) : Option String :=
  match diffEntries bits f f' 0 (min 2 (entryCount bits f)) with
  | [] => none
  | k :: _ => some s!"C10 reserved-entries-changed entry={k}"

def firstSome (l : List (Option String)) : Option String := l.findSome? id

open FatVerif.FatSpec in
/-- `fat.alloc`; preconditions of the properties: the table covers `[0,total+2)`, hint absent or ≥ 2,
    prev absent or an allocated in-range entry -/
def allocOracle (bits : Nat) (f : Array Nat) (prev hint : Option Nat) (total : Nat) (implOut : List String) :
    Option String :=
  let n := total + 2
  let hintOk := match hint with | some h => decide (2 ≤ h) | none => true
  let prevOk := match prev with
    | some p => decide (2 ≤ p ∧ p < n) && specEntry bits f p != 0
    | none => true
  if !(covers bits f n) || !hintOk || !prevOk then none else
  match implOut with
  | ["ERR", code, _] =>
    if code = "9" ∧ specHasFree bits f total then some "C05 nospace-unsound free-entry-exists" else none
  | [cs, fh] =>
    match cs.toNat?, fatOf fh with
    | some c, some f' =>
      -- regression guard for F21 (FAT12 `find_free` with start == end == 2 scanned on; repaired in 8aee7d6,
      -- Props/C03fat `alloc_zero_clusters_regression`): fires on the implementation's answer if the defect returns
      if bits = 12 ∧ total = 0 ∧ n ≤ c then some s!"C03 alloc-fat12-zero-clusters returned={c} total=0"
      else if c < 2 ∨ n ≤ c then some s!"C03 alloc-bad-cluster returned={c} total={total}"
      else if specEntry bits f c ≠ 0 then some s!"C03 alloc-bad-cluster returned={c} not-free-before"
      else if f'.size ≠ f.size then some "C03 alloc-frame length-changed"
      else
        let expectC := if prev = some c then FatValue.data c else FatValue.eoc
        let others := (diffEntries bits f f' 0 (entryCount bits f)).filter fun k => k ≠ c ∧ some k ≠ prev
        firstSome [
          (if specValue bits f' c ≠ expectC then some s!"C03 alloc-frame new-entry-not-eoc c={c}" else none),
          (match prev with
            | some p => if specValue bits f' p ≠ .data c then some s!"C03 alloc-frame prev-not-linked prev={p}" else none
            | none => none),
          (match others with | [] => none | k :: _ => some s!"C03 alloc-frame other-entry-changed entry={k}"),
          topOracle bits f f',
          reservedOracle bits f f']
    | _, _ => none
  | _ => none

open FatVerif.FatSpec in
/-- `fat.free` / `fat.truncate` on an acyclic chain whose members all lie in `[2, entryCount)` -/
def chainOracle (trunc : Bool) (bits : Nat) (f : Array Nat) (c : Nat) (implOut : List String) : Option String :=
  match implOut with
  | ["HANG"] => some s!"C09 chain-free-hang start={c}"
  | [ns, fh] =>
    let n := entryCount bits f
    match specChain bits f n (n + 1) c, ns.toNat?, fatOf fh with
    | some cs, some cnt, some f' =>
      if !cs.Nodup then none else
      let freed := if trunc then cs.drop 1 else cs
      let changed := diffEntries bits f f' 0 n
      firstSome [
        (if cnt ≠ freed.length then some s!"C05 free-chain-wrong count={cnt} expected={freed.length}" else none),
        (if f'.size ≠ f.size then some "C05 free-chain-wrong length-changed" else none),
        (match freed.filter (fun k => specEntry bits f' k ≠ 0) with
          | [] => none | k :: _ => some s!"C05 free-chain-wrong member-not-freed entry={k}"),
        (if trunc ∧ specValue bits f' c ≠ .eoc then some s!"C05 free-chain-wrong truncate-no-eoc entry={c}" else none),
        (match changed.filter (fun k => !cs.contains k) with
          | [] => none | k :: _ => some s!"C05 free-chain-wrong non-member-changed entry={k}"),
        topOracle bits f f',
        reservedOracle bits f f']
    | _, _, _ => none
  | _ => none

open FatVerif.FatSpec in
def oracle (fn : String) (args : List String) (implOut : List String) : Option String :=
  match fn, args with
  | "fat.count_free", [b, fh, t] => do
    let bits ← natOf b; let f ← fatOf fh; let t ← natOf t
    if !(covers bits f (t + 2)) then none else
    match implOut with
    | [ns] =>
      match ns.toNat? with
      | some n => if n ≠ specCountFree bits f t then
          some s!"C05 count-free-wrong got={n} expected={specCountFree bits f t}" else none
      | none => some s!"C05 count-free-wrong got={ns} expected={specCountFree bits f t}"
    | _ => some s!"C05 count-free-wrong got=error expected={specCountFree bits f t}"
  | "fat.set", [b, fh, c, k, n] => do
    let bits ← natOf b; let f ← fatOf fh; let _ ← natOf c; let k ← natOf k; let n ← natOf n
    -- a caller-supplied link value ≥ 2^28 is not a cluster number (no caller produces one): outside the property
    if k = 1 ∧ 268435456 ≤ n then none else
    match implOut with
    | [fh'] => do let f' ← fatOf fh'; topOracle bits f f'
    | _ => none
  | "fat.alloc", [b, fh, p, h, t] => do
    let bits ← natOf b; let f ← fatOf fh; let p ← optNatOf p; let h ← optNatOf h; let t ← natOf t
    allocOracle bits f p h t implOut
  | "fat.find_free", [_, _, _, e] => do
    -- C10 "padding entries past the last cluster are never handed out": the search over `[start, end)` (callers pass
    -- end = total + 2) must not answer an entry at or beyond `end`, whatever the table holds there
    let e ← natOf e
    match implOut with
    | [cs] => (match cs.toNat? with
        | some c => if e ≤ c then some s!"C10 padding-handed-out find_free returned={c} end={e}" else none
        | none => none)
    | _ => none
  | "fat.free", [b, fh, c, _] => do
    let bits ← natOf b; let f ← fatOf fh; let c ← natOf c
    chainOracle false bits f c implOut
  | "fat.truncate", [b, fh, c, _] => do
    let bits ← natOf b; let f ← fatOf fh; let c ← natOf c
    chainOracle true bits f c implOut
  | _, _ => none

/-! ## branch labels -/

def firstTok (s : String) : String := (s.splitOn " ").headD ""

def outClass (o : Option String) : String :=
  match o with
  | none => "?"
  | some s =>
    let t := firstTok s
    if t = "ERR" then "err" ++ ((s.splitOn " ").getD 1 "") else if t = "PANIC" then "panic"
    else if t = "HANG" then "hang" else "ok"

def hintClass (h : Option Nat) (total : Nat) : String :=
  match h with
  | none => "none"
  | some n => if n < 2 then "lt2" else if n = 2 then "2" else if n + 1 < total + 2 then "mid"
    else if n + 1 = total + 2 then "last" else if n = total + 2 then "end" else "beyond"

def branch (fn : String) (args : List String) : String :=
  let bits := args.headD "?"
  let o := handle fn args
  match fn, args with
  | "fat.get", _ =>
    (match o with
      | some s => if firstTok s = "ERR" ∨ firstTok s = "PANIC" then bits ++ "/" ++ outClass o
                  else bits ++ "/kind" ++ firstTok s
      | none => bits ++ "/?")
  | "fat.alloc", [_, _, p, h, t] =>
    let hc := match optNatOf h, natOf t with | some h, some t => hintClass h t | _, _ => "?"
    bits ++ "/prev-" ++ (if p = "none" then "none" else "some") ++ "/hint-" ++ hc ++ "/" ++ outClass o
  | "fat.format", _ => bits ++ "/" ++ outClass o
  | _, _ => bits ++ "/" ++ outClass o

end FatVerif.FatDriver
