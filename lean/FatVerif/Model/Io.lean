import FatVerif.Model.Prog
/-! `io.rs`: the `Read`/`Write`/`Seek` traits as a record of programs over a stream state, and the provided
    methods `read_exact`, `write_all`, `read_u8/u16/u32_le`, `write_u8/u16/u32_le`. -/
namespace FatVerif

/-- payloads of the errors `IoError::new_unexpected_eof_error` / `new_write_zero_error` produce for the RAW device
    (harness `DevError`); streams whose error type is `Error<_>` produce `UnexpectedEof` / `WriteZero` instead -/
def devEofErr : Nat := 18446744073709551614
def devWriteZeroErr : Nat := 18446744073709551613

/-- a stream type: state `σ` plus the three trait methods; a failing method loses the state update -/
structure Strm (σ : Type) where
  read : σ → Nat → Prog (List Nat × σ)
  write : σ → List Nat → Prog (Nat × σ)
  seek : σ → SeekFrom → Prog (Nat × σ)
  eofErr : Err
  wzErr : Err

/-- the raw storage object -/
def devStrm : Strm Unit where
  read := fun _ n => do let bs ← Prog.read n; pure (bs, ())
  write := fun _ bs => do let n ← Prog.write bs; pure (n, ())
  seek := fun _ p => do let n ← Prog.seek p; pure (n, ())
  eofErr := .io devEofErr
  wzErr := .io devWriteZeroErr

/-- `Read::read_exact`: loop until the buffer is full or a read returns 0 (then `UnexpectedEof`).
    Fuel = remaining length + 1 (every iteration makes progress or stops). -/
def readExactLoop {σ} (S : Strm σ) : Nat → σ → Nat → List Nat → Prog (List Nat × σ)
  | 0, _, _, _ => .fail .hang
  | fuel + 1, s, n, acc =>
    if n = 0 then pure (acc, s) else do
      let (got, s') ← S.read s n
      if got.length = 0 then .fail S.eofErr
      else readExactLoop S fuel s' (n - got.length) (acc ++ got)

def readExact {σ} (S : Strm σ) (s : σ) (n : Nat) : Prog (List Nat × σ) :=
  readExactLoop S (n + 1) s n []

/-- `Write::write_all` -/
def writeAllLoop {σ} (S : Strm σ) : Nat → σ → List Nat → Prog σ
  | 0, _, _ => .fail .hang
  | fuel + 1, s, bs =>
    if bs.isEmpty then pure s else do
      let (n, s') ← S.write s bs
      if n = 0 then .fail S.wzErr
      else writeAllLoop S fuel s' (bs.drop n)

def writeAll {σ} (S : Strm σ) (s : σ) (bs : List Nat) : Prog σ :=
  writeAllLoop S (bs.length + 1) s bs

def readU8 {σ} (S : Strm σ) (s : σ) : Prog (Nat × σ) := do
  let (bs, s') ← readExact S s 1
  pure (bs.getD 0 0, s')

def readU16 {σ} (S : Strm σ) (s : σ) : Prog (Nat × σ) := do
  let (bs, s') ← readExact S s 2
  pure (le16 (bs.getD 0 0) (bs.getD 1 0), s')

def readU32 {σ} (S : Strm σ) (s : σ) : Prog (Nat × σ) := do
  let (bs, s') ← readExact S s 4
  pure (le32 (bs.getD 0 0) (bs.getD 1 0) (bs.getD 2 0) (bs.getD 3 0), s')

def writeU8 {σ} (S : Strm σ) (s : σ) (v : Nat) : Prog σ := writeAll S s [v % 256]
def writeU16 {σ} (S : Strm σ) (s : σ) (v : Nat) : Prog σ := writeAll S s (bytesLe16 v)
def writeU32 {σ} (S : Strm σ) (s : σ) (v : Nat) : Prog σ := writeAll S s (bytesLe32 v)

/-- `read_exact` for each chunk size in turn (field-by-field deserialisers); returns the concatenation -/
def readChunks {σ} (S : Strm σ) : σ → List Nat → List Nat → Prog (List Nat × σ)
  | s, [], acc => pure (acc, s)
  | s, n :: rest, acc => do
    let (bs, s') ← readExact S s n
    readChunks S s' rest (acc ++ bs)

/-- `write_all` for each chunk in turn (field-by-field serialisers) -/
def writeChunks {σ} (S : Strm σ) : σ → List (List Nat) → Prog σ
  | s, [] => pure s
  | s, c :: rest => do
    let s' ← writeAll S s c
    writeChunks S s' rest

/-- split a byte list into consecutive chunks of the given sizes -/
def chunksOf : List Nat → List Nat → List (List Nat)
  | _, [] => []
  | bs, n :: rest => bs.take n :: chunksOf (bs.drop n) rest

/-- `fs.rs` `write_zeros`: 512-byte chunks through `write_all` -/
def writeZerosLoop {σ} (S : Strm σ) : Nat → σ → Nat → Prog σ
  | 0, _, _ => .fail .hang
  | fuel + 1, s, len =>
    if len = 0 then pure s else do
      let sz := min len 512
      let s' ← writeAll S s (List.replicate sz 0)
      writeZerosLoop S fuel s' (len - sz)

def writeZeros {σ} (S : Strm σ) (s : σ) (len : Nat) : Prog σ :=
  writeZerosLoop S (len / 512 + 2) s len

end FatVerif
