import FatVerif.Model.DirOps
import FatVerif.Model.Bpb
import FatVerif.Model.Format
/-! `fs.rs`: `FileSystem::new` (mount), FS-info sector, `stats`, `read_status_flags`, `unmount`/`Drop`,
    label queries, and `format_volume`; same device calls in the same order as the Rust. -/
namespace FatVerif

/-- boot-sector chunk sizes as `BootSector::deserialize`/`serialize` issue them -/
def bootHeadChunks : List Nat := [3, 8, 2, 1, 2, 1, 2, 2, 1, 2, 2, 2, 4, 4]
def bootExt32Chunks : List Nat := [4, 2, 2, 4, 2, 2, 12]
def bootTailChunks : List Nat := [1, 1, 1, 4, 11, 8]
def fsInfoChunks : List Nat := [4, 480, 4, 4, 4, 12, 4]

def bootChunks (isFat32 : Bool) : List Nat :=
  bootHeadChunks ++ (if isFat32 then bootExt32Chunks else []) ++ bootTailChunks ++
  [if isFat32 then 420 else 448, 2]

/-- `BootSector::deserialize(&mut disk)`: field-by-field `read_exact` on the raw device -/
def readBootSector : Prog (List Nat) := do
  let (hd, _) ← readChunks devStrm () bootHeadChunks []
  -- `is_fat32` = sectors_per_fat_16 == 0 (bytes 22..23)
  let isFat32 := hd.getD 22 0 = 0 ∧ hd.getD 23 0 = 0
  let (rest, _) ← readChunks devStrm ()
    ((if isFat32 then bootExt32Chunks else []) ++ bootTailChunks ++ [if isFat32 then 420 else 448, 2]) []
  pure (hd ++ rest)

/-- `FsInfoSector::deserialize(&mut disk)`: the signatures are checked between the reads -/
def readFsInfoSector : Prog FsInfoSt := do
  let (lead, _) ← readU32 devStrm ()
  if lead ≠ 0x41615252 then .fail .corrupted else do
  let _ ← readExact devStrm () 480
  let (struc, _) ← readU32 devStrm ()
  if struc ≠ 0x61417272 then .fail .corrupted else do
  let (free, _) ← readU32 devStrm ()
  let (next, _) ← readU32 devStrm ()
  let _ ← readExact devStrm () 12
  let (trail, _) ← readU32 devStrm ()
  if trail ≠ 0xAA550000 then .fail .corrupted else
  pure { free := FsInfo.decodeFree free, next := FsInfo.decodeNext next, dirty := false }

/-- `FileSystem::new`: on success the device's `fs` state is the mounted file system -/
def mount (strict accDate lfnAlloc unicode : Bool) : Prog FsState := do
  let pos ← Prog.seek (.cur 0)
  if pos ≠ 0 then .fail .panic else do        -- debug_assert!
  let bs ← readBootSector
  let boot := BootSector.deserialize bs
  liftE (boot.validate strict)
  let g ← liftE boot.bpb.geometry
  let info ← (if g.fatType = .fat32 then do
      let off ← liftE (boot.bpb.bytesFromSectors boot.bpb.fsInfoSector)
      let _ ← Prog.seekStart off
      readFsInfoSector
    else pure {})
  let info := if g.statusDirty then { info with free := none } else info
  let maxValid ← liftE (u32Add g.totalClusters 2)
  let info := { info with free := FsInfo.fixFree g.totalClusters info.free, next := FsInfo.fixNext maxValid info.next }
  let fs : FsState :=
    { fatType := g.fatType, bps := g.bytesPerSector, spc := boot.bpb.sectorsPerCluster,
      reserved := g.reservedSectors, fats := g.fats, spf := g.sectorsPerFat, rootEntries := boot.bpb.rootEntries,
      rootDirSectors := g.rootDirSectors, firstDataSector := g.firstDataSector, totalClusters := g.totalClusters,
      totalSectors := g.totalSectors, rootCluster := g.rootDirFirstCluster, fsInfoSector := g.fsInfoSector,
      mirroring := g.mirroring, activeFat := g.activeFat, bpbDirty := g.statusDirty, bpbIoErr := g.statusIoError,
      statusRaw := boot.bpb.reserved1,
      volumeId := boot.bpb.volumeId, volumeLabel := boot.bpb.volumeLabel,
      fsInfo := info, curDirty := g.statusDirty, curIoErr := g.statusIoError,
      strict := strict, accDate := accDate, lfnAlloc := lfnAlloc, unicode := unicode }
  Prog.setFs fs
  pure fs

/-- `FsInfoSector::serialize` chunks -/
def fsInfoBytes (i : FsInfoSt) : List Nat :=
  bytesLe32 0x41615252 ++ List.replicate 480 0 ++ bytesLe32 0x61417272 ++
  bytesLe32 (i.free.getD 0xFFFFFFFF) ++ bytesLe32 (i.next.getD 0xFFFFFFFF) ++ List.replicate 12 0 ++
  bytesLe32 0xAA550000

/-- `flush_fs_info` -/
def flushFsInfo : Prog Unit := do
  let fs ← Prog.getFs
  if fs.fatType = .fat32 ∧ fs.fsInfo.dirty then do
    let _ ← Prog.seekStart (fs.fsInfoSector * fs.bps)
    let _ ← writeChunks devStrm () (chunksOf (fsInfoBytes fs.fsInfo) fsInfoChunks)
    Prog.modifyFs fun fs => { fs with fsInfo := { fs.fsInfo with dirty := false } }
  else pure ()

/-- `unmount_internal` -/
def unmountInternal : Prog Unit := do
  flushFsInfo
  setDirtyFlag false

/-- `impl Drop for FileSystem` -/
def dropFs : Prog Unit := Prog.inDrop unmountInternal

/-- `FileSystem::unmount(self)`: `unmount_internal()` and then the destructor runs (a second `unmount_internal`) -/
def unmount : Prog Unit :=
  Prog.finallyDrop unmountInternal (fun _ => unmountInternal)

/-- `stats` → (cluster_size, total_clusters, free_clusters) -/
def stats : Prog (Nat × Nat × Nat) := do
  let fs ← Prog.getFs
  let free ← (match fs.fsInfo.free with
    | some n => pure n
    | none => do
      let (n, _) ← Table.countFree DiskSlice.strm fs.fatType (fatSliceOf fs) fs.totalClusters
      Prog.modifyFs fun fs => { fs with fsInfo := { fs.fsInfo with free := some n, dirty := true } }
      pure n)
  pure (fs.clusterSize, fs.totalClusters, free)

/-- `read_status_flags` → (dirty, io_error) -/
def readStatusFlags : Prog (Bool × Bool) := do
  let fs ← Prog.getFs
  let ((d, i), _) ← Table.readFatFlags DiskSlice.strm fs.fatType (fatSliceOf fs)
  pure (fs.bpbDirty || d, fs.bpbIoErr || i)

/-- `volume_label_as_bytes` -/
def volumeLabelBytes (fs : FsState) : List Nat :=
  (fs.volumeLabel.reverse.dropWhile (· == 32)).reverse

/-- `read_volume_label_from_root_dir_as_bytes`: the temporary root `Dir` is dropped at the end of the statement -/
def readVolumeLabelFromRootDir : Prog (Option (List Nat)) := do
  let fs ← Prog.getFs
  let root := rootDirStream fs
  let e ← thenDrop root (findVolumeEntry root)
  pure (e.map fun e => e.data.name)

/-! ### `format_volume` -/

/-- `write_zeros_until_end_of_sector` on the raw device -/
def writeZerosUntilEndOfSector (bps : Nat) : Prog Unit := do
  let pos ← Prog.seek (.cur 0)
  let n := bps - pos % bps
  if n ≠ bps then do
    let _ ← writeZeros devStrm () n
    pure ()
  else pure ()

def writeBootSector (boot : Format.FBoot) : Prog Unit := do
  let _ ← writeChunks devStrm () (chunksOf boot.serialize (bootChunks boot.bpb.isFat32))
  pure ()

/-- the state of a freshly formatted volume, as far as the FAT slice placement needs it -/
def formatFsState (b : Format.FBpb) (ft : FatType) : FsState :=
  { fatType := ft, bps := b.bps, spc := b.spc, reserved := b.reserved, fats := b.fats, spf := b.sectorsPerFat,
    mirroring := b.extFlags % 256 / 128 % 2 == 0,
    activeFat := if b.extFlags % 256 / 128 % 2 == 0 then 0 else b.extFlags % 16 }

def formatVolume (o : Format.FormatOpts) : Prog Unit := do
  let pos ← Prog.seek (.cur 0)
  if pos ≠ 0 then .fail .panic else do        -- debug_assert!
  let total ← (match o.totalSectors with
    | some t => pure t
    | none => do
      let bytes ← Prog.seek (.fromEnd 0)
      let t := bytes / o.bps
      let _ ← Prog.seekStart 0
      if t > 4294967295 then .fail .invalidInput else pure t)
  let (boot, ft) ← liftE (Format.formatChecked o total)
  let b := boot.bpb
  writeBootSector boot
  writeZerosUntilEndOfSector b.bps
  if b.isFat32 then do
    let _ ← Prog.seekStart (b.backupBoot * b.bps)
    writeBootSector boot
    writeZerosUntilEndOfSector b.bps
  else pure ()
  -- FAT
  let allFats := b.fats * b.sectorsPerFat
  let _ ← Prog.seekStart (b.reserved * b.bps)
  let _ ← writeZeros devStrm () (allFats * b.bps)
  let fsf := formatFsState b ft
  let totalClusters ← liftE b.totalClusters
  let _ ← Table.formatFat DiskSlice.strm ft (fatSliceOf fsf false) b.media (b.sectorsPerFat * b.bps) totalClusters
  -- root directory
  let rootFirst := b.reserved + allFats
  let rootSectors := b.rootDirSectors
  let rootPos := rootFirst * b.bps
  let _ ← Prog.seekStart rootPos
  let _ ← writeZeros devStrm () (rootSectors * b.bps)
  if ft = .fat32 then do
    let (rc, _) ← Table.allocCluster DiskSlice.strm ft (fatSliceOf fsf false) none none 1
    if rc ≠ b.rootCluster then .fail .panic else do
    let firstData := b.reserved + allFats + rootSectors
    let rootSector := firstData + (rc - 2) * b.spc
    let _ ← Prog.seekStart (rootSector * b.bps)
    let _ ← writeZeros devStrm () (b.spc * b.bps)
    let info : FsInfoSt := { free := some (totalClusters - 1), next := some (rc + 1), dirty := false }
    let _ ← Prog.seekStart (b.fsInfoSector * b.bps)
    let _ ← writeChunks devStrm () (chunksOf (fsInfoBytes info) fsInfoChunks)
    writeZerosUntilEndOfSector b.bps
  else pure ()
  match o.label with
  | some lbl => do
    let _ ← Prog.seekStart rootPos
    let _ ← writeChunks devStrm () (chunksOf (DirFileEntryData.new lbl ATTR_VOLUME_ID).serialize FileH.entryChunkSizes)
    pure ()
  | none => pure ()
  let _ ← Prog.seekStart 0
  pure ()

end FatVerif
