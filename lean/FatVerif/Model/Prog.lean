import FatVerif.Model.Basic
import FatVerif.Model.Image
/-! Programs as syntax.

The effectful part of the model is written ONCE, as values of the inductive type `Prog α`: pure computation,
failure, one primitive operation (a device call, a clock read, or an access to the mounted file system's interior
state), sequencing, an error handler (`tryCatch`: the handful of places where the Rust code inspects an error instead
of `?`-propagating it) and scope exit (`finallyDrop p c`: run `p`, then — whether it succeeded or failed — run the
destructor bodies `c r` of the values going out of scope (`r = some a` after success with result `a`, the final state
of the dropped values may depend on it; `r = none` after a failure), in which errors are logged and swallowed as in
`impl Drop`, and return `p`'s result).
`run` interprets a program on a device `Dev`. Properties about how the code handles effects are theorems by induction
on this syntax (`Proofs/Prog.lean`). -/
namespace FatVerif

inductive SeekFrom where
  | start (n : Nat)
  | cur (d : Int)
  | fromEnd (d : Int)
  deriving Repr, DecidableEq

/-- `FsInfoSector` (fs.rs): cached free count, next-free hint, dirty latch -/
structure FsInfoSt where
  free : Option Nat := none
  next : Option Nat := none
  dirty : Bool := false
  deriving Repr, DecidableEq, Inhabited

/-- what `FileSystem` holds after mount (geometry is immutable, `fsInfo` and `curDirty/curIoErr` are interior-mutable) -/
structure FsState where
  fatType : FatType := .fat12
  bps : Nat := 512
  spc : Nat := 1
  reserved : Nat := 1
  fats : Nat := 2
  spf : Nat := 1                 -- sectors per FAT
  rootEntries : Nat := 0
  rootDirSectors : Nat := 0
  firstDataSector : Nat := 0
  totalClusters : Nat := 0
  totalSectors : Nat := 0
  rootCluster : Nat := 0         -- FAT32 root_dir_first_cluster
  fsInfoSector : Nat := 0
  mirroring : Bool := true
  activeFat : Nat := 0
  bpbDirty : Bool := false       -- status flags read from the BPB at mount
  bpbIoErr : Bool := false
  statusRaw : Nat := 0           -- the whole status byte (`reserved_1`) read from the BPB at mount
  volumeId : Nat := 0
  volumeLabel : List Nat := []
  -- interior-mutable part
  fsInfo : FsInfoSt := {}
  curDirty : Bool := false
  curIoErr : Bool := false
  -- options
  strict : Bool := true
  accDate : Bool := false
  lfnAlloc : Bool := true        -- cargo feature `alloc` (which LfnBuffer)
  unicode : Bool := true         -- cargo feature `unicode`
  deriving Repr, Inhabited

def FsState.clusterSize (fs : FsState) : Nat := fs.bps * fs.spc

/-- primitive operations -/
inductive Op where
  | read (n : Nat)               -- device read of up to n bytes at the device position
  | write (bs : List Nat)        -- device write
  | seek (p : SeekFrom)          -- device seek
  | flush                        -- device flush
  | now                          -- TimeProvider::get_current_date_time  (returns the clock counter; it advances per API operation, see `resetOp`)
  | today                        -- TimeProvider::get_current_date
  | getFs                        -- read the mounted file system's state
  | setFs (fs : FsState)         -- update its interior-mutable part

abbrev Resp : Op → Type
  | .read _ => List Nat
  | .write _ => Nat
  | .seek _ => Nat
  | .flush => Unit
  | .now => Nat
  | .today => Nat
  | .getFs => FsState
  | .setFs _ => Unit

inductive Prog : Type → Type 1 where
  | pure {α : Type} (a : α) : Prog α
  | fail {α : Type} (e : Err) : Prog α
  | op (o : Op) : Prog (Resp o)
  | bind {α β : Type} (p : Prog β) (k : β → Prog α) : Prog α
  | tryCatch {α : Type} (p : Prog α) (h : Err → Prog α) : Prog α
  | finallyDrop {α : Type} (p : Prog α) (c : Option α → Prog Unit) : Prog α

instance : Monad Prog where
  pure := Prog.pure
  bind := Prog.bind

namespace Prog
def read (n : Nat) : Prog (List Nat) := .op (.read n)
def write (bs : List Nat) : Prog Nat := .op (.write bs)
def seek (p : SeekFrom) : Prog Nat := .op (.seek p)
def seekStart (n : Nat) : Prog Nat := .op (.seek (.start n))
def flush : Prog Unit := .op .flush
def now : Prog Nat := .op .now
def today : Prog Nat := .op .today
def getFs : Prog FsState := .op .getFs
def setFs (fs : FsState) : Prog Unit := .op (.setFs fs)
def modifyFs (f : FsState → FsState) : Prog Unit := do
  let fs ← getFs
  setFs (f fs)
/-- run `p` and return its error, if any, as a value (the caller re-raises it after its own clean-up) -/
def attempt {α : Type} (p : Prog α) : Prog (Except Err α) :=
  .tryCatch (.bind p (fun a => .pure (.ok a))) (fun e => .pure (.error e))
/-- a destructor body run on its own (explicit `drop(x)` / end of statement for a temporary) -/
def inDrop (c : Prog Unit) : Prog Unit := .finallyDrop (.pure ()) (fun _ => c)
end Prog

inductive CallKind where
  | r | w | s | f
  deriving Repr, DecidableEq

def CallKind.tag : CallKind → String
  | .r => "r" | .w => "w" | .s => "s" | .f => "f"

inductive LogItem where
  | write (off : Nat) (bs : List Nat)
  | flush
  deriving Repr, DecidableEq

structure Fault where
  k : Nat
  kind : CallKind
  inDrop : Bool
  deriving Repr, DecidableEq

/-- The simulated storage object plus per-operation bookkeeping. Mirrors /verif/harness/src/dev.rs. -/
structure Dev where
  img : Img
  pos : Nat := 0
  calls : Nat := 0
  reads : Nat := 0
  writes : Nat := 0
  seeks : Nat := 0
  flushes : Nat := 0
  callsInDrop : Nat := 0
  failAt : Option Nat := none
  fault : Option Fault := none
  dropDepth : Nat := 0
  log : List LogItem := []          -- newest first
  tick : Bool := false              -- clock mode
  clock : Nat := 0                  -- clock counter (ms since the clock epoch)
  fs : FsState := {}

namespace Dev

def clockStep : Nat := 2010

def resetOp (d : Dev) (failAt : Option Nat := none) : Dev :=
  { d with calls := 0, reads := 0, writes := 0, seeks := 0, flushes := 0, callsInDrop := 0,
           failAt := failAt, fault := none, log := [], dropDepth := 0,
           clock := if d.tick then d.clock + clockStep else d.clock }

def count (d : Dev) (k : CallKind) : Dev :=
  let d := { d with calls := d.calls + 1,
                    callsInDrop := if d.dropDepth > 0 then d.callsInDrop + 1 else d.callsInDrop }
  match k with
  | .r => { d with reads := d.reads + 1 }
  | .w => { d with writes := d.writes + 1 }
  | .s => { d with seeks := d.seeks + 1 }
  | .f => { d with flushes := d.flushes + 1 }

end Dev


/-- payload of the error a negative device seek produces (harness: `u64::MAX - 3`) -/
def negSeekErr : Nat := 18446744073709551612

/-- one device call: count it, fail it if it is the scheduled fault, otherwise perform it -/
def devCallCore (k : CallKind) (d : Dev) (act : Dev → Except Err α × Dev) : Except Err α × Dev :=
  if d.failAt = some d.calls then
    (.error (.io d.calls), { d with failAt := none, fault := some ⟨d.calls, k, d.dropDepth > 0⟩ })
  else act d

def devCall (k : CallKind) (d : Dev) (act : Dev → Except Err α × Dev) : Except Err α × Dev :=
  devCallCore k (d.count k) act

/-- the error of a result, if any (lets statements ignore the result type) -/
def resErr {α : Type} : Except Err α → Option Err
  | .ok _ => none
  | .error e => some e

def stepOp : (o : Op) → Dev → Except Err (Resp o) × Dev
  | .read n, d => devCall .r d fun d =>
      let m := min n (d.img.size - d.pos)
      (.ok (d.img.read d.pos m), { d with pos := d.pos + m })
  | .write bs, d => devCall .w d fun d =>
      let m := min bs.length (d.img.size - d.pos)
      let bs' := bs.take m
      (.ok m, { d with img := d.img.write d.pos bs', pos := d.pos + m, log := .write d.pos bs' :: d.log })
  | .seek p, d => devCall .s d fun d =>
      match p with
      | .start n => (.ok n, { d with pos := n })
      | .cur x =>
        let t : Int := (d.pos : Int) + x
        if t < 0 then (.error (.io negSeekErr), d) else (.ok t.toNat, { d with pos := t.toNat })
      | .fromEnd x =>
        let t : Int := (d.img.size : Int) + x
        if t < 0 then (.error (.io negSeekErr), d) else (.ok t.toNat, { d with pos := t.toNat })
  | .flush, d => devCall .f d fun d => (.ok (), { d with log := .flush :: d.log })
  | .now, d => (.ok d.clock, d)
  | .today, d => (.ok d.clock, d)
  | .getFs, d => (.ok d.fs, d)
  | .setFs fs, d => (.ok (), { d with fs := fs })

/-- errors a destructor cannot swallow (they are not `Err` values in Rust but control flow) -/
def Err.isFatal : Err → Bool
  | .panic => true
  | .hang => true
  | _ => false

def run {α : Type} : Prog α → Dev → Except Err α × Dev
  | .pure a, d => (.ok a, d)
  | .fail e, d => (.error e, d)
  | .op o, d => stepOp o d
  | .bind p k, d =>
    match run p d with
    | (.ok b, d') => run (k b) d'
    | (.error e, d') => (.error e, d')
  | .tryCatch p h, d =>
    match run p d with
    | (.ok a, d') => (.ok a, d')
    | (.error e, d') => if e.isFatal then (.error e, d') else run (h e) d'
  | .finallyDrop p c, d =>
    match run p d with
    | (.error e, d') =>
      -- a panic unwinds through the destructors; a hang never gets there
      if e = .hang then (.error e, d') else
      match run (c none) { d' with dropDepth := d'.dropDepth + 1 } with
      | (.error e', d'') =>
        if e'.isFatal then (.error e', { d'' with dropDepth := d''.dropDepth - 1 })
        else (.error e, { d'' with dropDepth := d''.dropDepth - 1 })
      | (.ok _, d'') => (.error e, { d'' with dropDepth := d''.dropDepth - 1 })
    | (.ok a, d') =>
      match run (c (some a)) { d' with dropDepth := d'.dropDepth + 1 } with
      | (.error e', d'') =>
        if e'.isFatal then (.error e', { d'' with dropDepth := d''.dropDepth - 1 })
        else (.ok a, { d'' with dropDepth := d''.dropDepth - 1 })
      | (.ok _, d'') => (.ok a, { d'' with dropDepth := d''.dropDepth - 1 })

end FatVerif
