import FatVerif.Model.HistMain
import FatVerif.Spec.OracleUtil
import FatVerif.Spec.OracleGround
import FatVerif.Spec.ByteFile
import FatVerif.Model.SlotTreeOracle
/-! Property oracles evaluated on the implementation's own behaviour (history mode).

    `oracle.step` sees every completed operation of a history (`HistMain.OpView`): the op text, its result, its device
    write/flush log, the implementation's image before and after. From the trace alone it tracks, per history:
    whether a volume exists and is mounted, the geometry, live handle ids ↦ canonical path (`.`/`..`/case resolved
    against the raw image), per file handle: mutated since open / position / pending `set_*` values, the C01 spec tree,
    the set of fsck messages of the previous image, the status byte at mount, the read-only window of C13.

    Only messages of the property in `view.prop` are produced (one property per run); state tracking always runs.
    Message format: `"<Cxx> <signature> <detail>"`. Signatures:

    * C01: `op-panic`, `tree-step`, `tree-diff`, `content-changed`
    * C03: the fsck clauses `geom fat-link-range fat-cycle cross-link chain-broken lost-cluster size-chain dot after-end
           lfn-run dup-long dup-short`
    * C04: `list-vs-decode`, `content-vs-decode`, `extents-content`
    * C05: `stats-free`, `fsinfo-free`, `fsinfo-hint`, `nospace-unsound`, `reclaim`
    * C09: `fault-not-surfaced`, `hang`, `panic`
    * C10: `fat-copies`, `reserved-entries` (routed from fsck), `inactive-copy-written`, `reserved-bits-changed`,
           `reserved-entries-changed`
    * C11: `write-region`, `write-owner`
    * C12: `dirty-bit-not-set`, `status-not-restored`, `abandoned-not-reported`
    * C13: `readonly-write`
    * C14: `crash-lost`, `crash-unmountable`
    * C18: `set-readback`, `rename-changed-times`, `foreign-times-changed`
    * C02: `read-wrong-bytes`, `read-too-long`, `read-short-rule`, `write-count`, `seek-result`, `truncate-content`,
           `result-shape`
    * C08: `decode-vs-ground-truth`, `list-vs-ground-truth`, `content-vs-ground-truth`, `foreign-entry-changed`,
           `foreign-chain-changed`, `inactive-copy-changed`, `invalid-after-mutation`
    * C20: `write-beyond-volume`, `write-outside-chain`, `wrong-offset`, `extents-content`, `last-cluster-unused`,
           `content-mismatch`, `fat-link-range` -/
namespace FatVerif.Oracles

open FatVerif.Spec FatVerif.HistMain

/-! ## State -/

structure FileSt where
  path : List String
  /-- a `write`/`writeall`/`truncate` was issued on this handle since it was opened (size may be pending) -/
  mutated : Bool := false
  /-- cursor, when it can be told from the results -/
  pos : Option Nat := some 0
  /-- pending `set_created` / `set_modified` (y m d h mi s ms) / `set_accessed` (y m d) values -/
  setC : Option (List Nat) := none
  setM : Option (List Nat) := none
  setA : Option (List Nat) := none
  /-- C02/C20: the byte-array-with-cursor specification state of this handle (`none`: not tracked — the file has a
      second live handle, or an earlier check failed) -/
  bf : Option Cursor.ByteFile := none
  /-- a `truncate` was issued since the content was last compared with the image -/
  truncated : Bool := false
  /-- first cluster of the file as far as the trace tells: from the directory entry at open, else the cluster the
      first data write went to (the entry's field is pending in the handle until flush) -/
  firstCl : Option Nat := none
  deriving Inhabited

/-- C18 (i): values that the next listing of the parent must show for `path` -/
structure Expect where
  path : List String
  c : Option (List Nat)
  m : Option (List Nat)
  a : Option (List Nat)
  deriving Inhabited

structure OState where
  /-- the session was abandoned (`forget`) earlier in this history: the image is a crash image from then on, the
      structural oracles (which presuppose an orderly session) are off until the next `format` -/
  abandoned : Bool := false
  /-- geometry of the volume on the device, once a `format`/`raw`/`mount` left a parsable boot sector -/
  geom : Option Geom := none
  mounted : Bool := false
  dead : Bool := false
  dirs : Std.HashMap Nat (List String) := {}
  files : Std.HashMap Nat FileSt := {}
  /-- C01 spec tree (abstraction of the image after the previous operation) -/
  tree : Option TNode := none
  /-- C03/C10: fsck messages of the previous image -/
  prevMsgs : Std.HashSet String := {}
  prevClean : Bool := true
  /-- a check was skipped (pending handle state unknown) since `prevMsgs` was computed -/
  fsckStale : Bool := false
  /-- status byte in the image before the `mount` of the current session -/
  mountStatus : Nat := 0
  /-- FS-info free count unknown (or no FS-info) in the image before the `mount` -/
  mountFsInfoUnknown : Bool := false
  /-- C13: no mutating operation was issued since the `mount` -/
  roWindow : Bool := false
  /-- C14: what a successful `flush`/`dropf` made durable, per file path: the content the API calls wrote (the
      byte-array specification of the handle), until the file is modified again -/
  durable : List (List String × List Nat) := []
  expects : List Expect := []
  /-- the model's pending entry records after the previous operation (= before this one) -/
  prevOverlay : Option (List (Nat × List Nat)) := some []
  /-- C01: the comparison with the image was skipped (pending handle state unknown) -/
  treeStale : Bool := false
  opCount : Nat := 0
  /-- C18 (iii): flattened metas of the image after operation number `metaAt` -/
  metaAt : Nat := 0
  metaFlat : Array (String × EntryMeta × ByteArray) := #[]
  /-- C08/C20: ground truth of the image builder, its flattened entries, and what happened since the `raw` op -/
  ground : Ground := {}
  groundEntries : Array (String × DirLoc × GEnt) := #[]
  /-- the first successful `mount` after the `raw` op has been compared with the ground truth -/
  groundMounted : Bool := false
  /-- a mutating operation (or any operation that wrote) was issued since the `raw` op -/
  mutatedHist : Bool := false
  /-- folded `/a/b` paths named by operations that wrote since the `raw` op -/
  tainted : List String := []
  /-- folded paths of the ancestor directories of those objects (the library re-stamps a directory's own entry when
      something is created in it): their entries are not compared any more, what is below them still is -/
  taintedExact : List String := []
  /-- C20: the last-cluster check has been made -/
  lastChecked : Bool := false
  /-- C01: the slot-tree model's state beside the implementation (`Model/SlotTreeOracle.lean`); `none` = not tracking -/
  slot : Option SlotTree.Node := none
  deriving Inhabited

/-! ## Small helpers -/

def codeToErr (code : String) (k : Option String) : Err :=
  match code with
  | "1" => .io ((k.bind String.toNat?).getD 0) | "2" => .eof | "3" => .writeZero | "4" => .invalidInput
  | "5" => .notFound | "6" => .alreadyExists | "7" => .dirNotEmpty | "8" => .corrupted | "9" => .noSpace
  | "10" => .nameLen | "11" => .nameChar | _ => .corrupted

def resKind (res : List String) : String :=
  match res with
  | "ok" :: _ => "ok"
  | "err" :: c :: _ => "err" ++ c
  | r :: _ => r
  | [] => "?"

def logWrites (log : List LogItem) : List (Nat × List Nat) :=
  log.reverse.filterMap fun it => match it with
    | .write off bs => some (off, bs)
    | .flush => none

/-- the documented name rule: 1…255 UTF-8 bytes; every character in 0x20…0xFFFF except 0x7F and `" * / : < > ? \ |` -/
def validName (s : String) : Option Err :=
  if s.utf8ByteSize = 0 ∨ s.utf8ByteSize > 255 then some .nameLen
  else if s.toList.any fun c =>
      c.toNat < 0x20 || c.toNat > 0xFFFF || c.toNat == 0x7F ||
      c == '"' || c == '*' || c == '/' || c == ':' || c == '<' || c == '>' || c == '?' || c == '\\' || c == '|'
    then some .nameChar
  else none

/-- Name comparison of the spec tree: the library's rule is ASCII upper-casing without its `unicode` feature and
    `char::to_uppercase` with it; the full table is not available here, `simpleUpper` covers the scripts the generators
    use. Limitation: names that differ only by the case of a letter outside those ranges are treated as different. -/
def treeCfgOf (unicode : Bool) : TreeCfg :=
  { upper := if unicode then simpleUpper else asciiUpper, validName := validName }

def treeCfg : TreeCfg := treeCfgOf true

def parseRow (row : String) : Option (String × Bool × Nat) :=
  match row.splitOn " " with
  | name :: _short :: attrs :: len :: _ =>
    let nm := if name = "-" then some "" else textOf name
    match nm, attrs.toNat?, len.toNat? with
    | some n, some a, some l => some (n, a / 16 % 2 == 1, l)
    | _, _, _ => none
  | _ => none

def isMutatingOp (op : String) : Bool :=
  ["create_file", "create_dir", "write", "writeall", "truncate", "remove", "rename", "set_created", "set_modified",
   "set_accessed", "format", "raw"].contains op

def isReadOnlyOp (op : String) : Bool :=
  ["mount", "root", "list", "open_dir", "open_file", "seek", "read", "readx", "readall", "label", "label_root",
   "status", "stats", "volid", "fattype", "dropf", "dropd", "unmount", "dropfs"].contains op

def isFileOp (op : String) : Bool :=
  ["read", "readx", "readall", "write", "writeall", "seek", "truncate", "flush", "dropf", "set_created", "set_modified",
   "set_accessed", "extents"].contains op

def isDirOp (op : String) : Bool :=
  ["open_dir", "create_dir", "open_file", "create_file", "remove", "rename", "list", "dropd"].contains op

/-! ## Per-operation context -/

structure Ctx where
  op : String
  args : List String
  rk : String
  ok : Bool
  /-- geometry of the volume in `before` -/
  g : Option Geom
  writes : List (Nat × List Nat)
  /-- canonical paths of the objects the operation names (resolved in `before`): for `rename` source and destination -/
  primary : List (List String)
  /-- `primary` plus the directories its path arguments pass through by `..` components -/
  touched : List (List String)
  /-- the file handle the operation works on, as it was before the operation -/
  fh : Option FileSt
  /-- the directory handle path the operation works from -/
  dh : Option (List String)
  accdate : Bool
  unicode : Bool
  upper : Char → List Char := fun c => [c]

def dirOf (st : OState) (tok : String) : Option (List String) := (handleId tok).bind fun d => st.dirs[d]?
def fileOf (st : OState) (tok : String) : Option FileSt := (handleId tok).bind fun f => st.files[f]?

def mkCtx (st : OState) (v : OpView) : Ctx :=
  let toks := v.io.text.splitOn " "
  let op := toks.headD ""
  let args := toks.drop 1
  let g := st.geom
  let res1 (d p : String) : List (List String) :=
    match g, dirOf st d, textOf p with
    | some g, some cwd, some path => [(resolveArg g v.before cwd path).path]
    | _, _, _ => []
  let vis (d p : String) : List (List String) :=
    match g, dirOf st d, textOf p with
    | some g, some cwd, some path => (dotDotVisited cwd (path.splitOn "/")).map fun p => (pathInfo g v.before p).path
    | _, _, _ => []
  let visited : List (List String) := match op, args with
    | "rename", [d, s, d2, t] => vis d s ++ vis d2 t
    | _, [d, p, _] | _, [d, p] => if isDirOp op then vis d p else []
    | _, _ => []
  let primary : List (List String) := match op, args with
    | "open_dir", [d, p, _] | "create_dir", [d, p, _] | "open_file", [d, p, _] | "create_file", [d, p, _] => res1 d p
    | "remove", [d, p] => res1 d p
    | "rename", [d, s, d2, t] => res1 d s ++ res1 d2 t
    | "list", [d] | "dropd", [d] => (dirOf st d).toList
    | _, f :: _ => if isFileOp op then ((fileOf st f).map (·.path)).toList else []
    | _, _ => []
  let fh := match args with
    | f :: _ => if isFileOp op then fileOf st f else none
    | [] => none
  let dh := match args with
    | d :: _ => if isDirOp op then dirOf st d else none
    | [] => none
  { op, args, rk := resKind v.io.res, ok := v.io.res.headD "" == "ok", g, primary, touched := primary ++ visited,
    writes := if op == "raw" then v.io.rawWrites else logWrites v.io.log,
    fh, dh, accdate := (Util.kv v.cfgArgs "accdate") == some "1", unicode := (Util.kv v.cfgArgs "unicode") != some "0", upper := v.upper }

/-- the tree specification names objects by their displayed names: an image on which two siblings display alike (OEM
    bytes >= 0x80 all display as U+FFFD) or a name contains U+FFFD cannot be followed by it - such images are outside
    the domain of the C01 tree oracle (the slot-tree correspondence, keyed by slot positions, still covers them) -/
def ambiguousNames (upper : Char → List Char) (root : Node) : Bool :=
  let paths := (flatMeta root).toList.map fun (p, _, _) => p
  paths.any (fun p => p.toList.any (· == replChar)) ||
  (let folded := paths.map (foldName upper)
   folded.length != (folded.foldl (fun (s : Std.HashSet String) q => s.insert q) {}).size)

/-! ## State update -/

def parseNums (l : List String) : Option (List Nat) := l.mapM String.toNat?

def updFile (st : OState) (tok : String) (f : FileSt → FileSt) : OState :=
  match handleId tok with
  | some id => match st.files[id]? with
    | some fs => { st with files := st.files.insert id (f fs) }
    | none => st
  | none => st

def hexLen (h : String) : Nat := if h = "-" then 0 else h.length / 2

def payloadLen (p : String) : Nat :=
  if p.startsWith "z" then ((p.drop 1).toString.toNat?).getD 0 else hexLen p

/-- drop C18 expectations about `path` (or anything below it) -/
def dropExpect (st : OState) (path : List String) : OState :=
  { st with expects := st.expects.filter fun e => !isPrefixOf treeCfg path e.path }

/-- register read-back expectations for `fs.path`; newer values override older ones field by field -/
def addExpect (st : OState) (fs : FileSt) : OState :=
  let old := st.expects.find? fun e => e.path == fs.path
  let pick (n o : Option (List Nat)) : Option (List Nat) := if n.isSome then n else o
  let e : Expect := { path := fs.path, c := pick fs.setC (old.bind (·.c)), m := pick fs.setM (old.bind (·.m)),
                      a := pick fs.setA (old.bind (·.a)) }
  { st with expects := e :: st.expects.filter fun e => e.path != fs.path }

def update (st : OState) (v : OpView) (c : Ctx) : OState :=
  let st := { st with opCount := st.opCount + 1 }
  let res := v.io.res
  if res == ["bad-script"] || res == ["dead"] then st else
  let st := if isMutatingOp c.op then { st with roWindow := false } else st
  if c.rk == "panic" || c.rk == "hang" then
    { st with dead := true, mounted := false, dirs := {}, files := {}, tree := none } else
  let gAfter := match parseGeom v.after with | .ok g => some g | .error _ => none
  match c.op, c.args with
  | "format", _ | "raw", _ =>
    { st with geom := gAfter, prevMsgs := {}, prevClean := true, tree := none, expects := [] }
  | "mount", _ =>
    if !c.ok then st else
    let g0 := match parseGeom v.before with | .ok g => some g | .error _ => none
    let unknown := match g0 with
      -- a stored count larger than the number of clusters is no count (C13's exception: "lacks a free count")
      | some g => (match fsInfo g v.before with | some (some n, _) => n > g.totalClusters | _ => true)
      | none => true
    let status := match g0 with | some g => v.before.getByte g.statusByteOffset | none => 0
    { st with geom := gAfter, mounted := true, dirs := ({} : Std.HashMap Nat (List String)).insert 0 [], files := {},
              mountStatus := status, mountFsInfoUnknown := unknown, roWindow := true, expects := [],
              tree := if v.prop != "C01" then none else
                match decodeTree v.after with
                | .ok r => if ambiguousNames c.upper r then none else some (TNode.ofNode r)
                | .error _ => none }
  | "unmount", _ | "dropfs", _ | "forget", _ =>
    { st with mounted := false, dirs := {}, files := {}, tree := none, roWindow := false }
  | "root", [d] =>
    if c.ok then match handleId d with
      | some id => { st with dirs := st.dirs.insert id [] }
      | none => st
    else st
  | "open_dir", [d, p, n] | "create_dir", [d, p, n] =>
    match c.ok, st.geom, dirOf st d, textOf p, handleId n with
    | true, some g, some cwd, some path, some id =>
      { st with dirs := st.dirs.insert id (resolveArg g v.after cwd path).path }
    | _, _, _, _, _ => st
  | "open_file", [d, p, n] | "create_file", [d, p, n] =>
    match c.ok, st.geom, dirOf st d, textOf p, handleId n with
    | true, some g, some cwd, some path, some id =>
      let cp := (resolveArg g v.after cwd path).path
      { st with files := st.files.insert id { path := cp } }
    | _, _, _, _, _ => st
  | "dropd", [d] => match handleId d with
    | some id => { st with dirs := st.dirs.erase id }
    | none => st
  | "dropf", [f] =>
    let st := match c.fh with
      | some fs =>
        if c.ok && (fs.setC.isSome || fs.setM.isSome || fs.setA.isSome) then addExpect st fs else st
      | none => st
    match handleId f with
    | some id => { st with files := st.files.erase id }
    | none => st
  | "flush", [f] =>
    match c.fh with
    | some fs =>
      -- after a successful flush nothing is pending in the handle any more
      if c.ok && (fs.setC.isSome || fs.setM.isSome || fs.setA.isSome) then
        updFile (addExpect st fs) f fun s => { s with setC := none, setM := none, setA := none, mutated := false }
      else if c.ok then updFile st f fun s => { s with mutated := false }
      else st
    | none => st
  | "remove", _ =>
    if c.ok then c.primary.foldl dropExpect st else st
  | "rename", [d, _, d2, t] =>
    match c.ok, st.geom, c.primary.head?, dirOf st d2, textOf t with
    | true, some g, some old, some cwd2, some tp =>
      let new := (resolveArg g v.after cwd2 tp).path
      let _ := d
      let st := dropExpect st old
      { st with dirs := st.dirs.fold (fun m k p => m.insert k (remapPath treeCfg old new p)) {}
                files := st.files.fold (fun m k f => m.insert k { f with path := remapPath treeCfg old new f.path }) {} }
    | _, _, _, _, _ => st
  | "read", [f, _] | "readx", [f, _] | "readall", [f] =>
    let st := updFile st f fun s =>
      { s with pos := if c.ok then s.pos.map (· + hexLen (res.getD 1 "-")) else none
               setA := if c.accdate then none else s.setA }
    -- with access dates on, a read re-stamps the accessed date when the handle is flushed
    match c.accdate, c.fh with
    | true, some fs => { st with expects := st.expects.map fun e => if e.path == fs.path then { e with a := none } else e }
    | _, _ => st
  | "write", [f, _] =>
    let st := updFile st f fun s =>
      { s with mutated := true, setC := none, setM := none, setA := none,
               pos := if c.ok then s.pos.map (· + ((res.getD 1 "0").toNat?.getD 0)) else none }
    match c.fh with | some fs => dropExpect st fs.path | none => st
  | "writeall", [f, p] =>
    let st := updFile st f fun s =>
      { s with mutated := true, setC := none, setM := none, setA := none,
               pos := if c.ok then s.pos.map (· + payloadLen p) else none }
    match c.fh with | some fs => dropExpect st fs.path | none => st
  | "truncate", [f] =>
    let st := updFile st f fun s => { s with mutated := true, setC := none, setM := none, setA := none }
    match c.fh with | some fs => dropExpect st fs.path | none => st
  | "seek", [f, _, _] =>
    updFile st f fun s => { s with pos := if c.ok then (res.getD 1 "").toNat? else s.pos }
  | "set_created", f :: vals => if c.ok then updFile st f fun s => { s with setC := parseNums vals } else st
  | "set_modified", f :: vals => if c.ok then updFile st f fun s => { s with setM := parseNums vals } else st
  | "set_accessed", f :: vals => if c.ok then updFile st f fun s => { s with setA := parseNums vals } else st
  | _, _ => st

/-! ## C03 / C10 (a): fsck -/

def splitClause (m : String) : String × String :=
  match m.splitOn " " with
  | cl :: rest => (cl, " ".intercalate rest)
  | [] => ("?", "")

/-- new fsck messages of `after`; returns the updated `(prevMsgs, prevClean)` -/
def runFsck (st st' : OState) (v : OpView) (c : Ctx) (onlyFat : Bool) :
    Std.HashSet String × Bool × Bool × List String :=
  let keep := (st.prevMsgs, st.prevClean, st.fsckStale, [])
  match st'.geom with
  | none => ({}, true, false, [])
  | some g =>
    let fresh := c.op == "format" || c.op == "raw"
    let prev : Std.HashSet String := if fresh then {} else st.prevMsgs
    let prevClean := fresh || st.prevClean
    let _ := prevClean
    if !fresh && c.op != "forget" && c.writes.isEmpty && !st.fsckStale then keep
    else if !onlyFat && v.overlay.isNone && !st'.files.isEmpty then (st.prevMsgs, st.prevClean, true, [])
    else
      let msgs :=
        if onlyFat then checkReservedEntries g v.after g.activeCopy ++ checkFatCopies g v.after
        else fsck v.after (v.overlay.getD []) c.upper
      -- messages that carry a count (`lost-cluster <n> …`, `… <n> orphan long-name slot(s) …`, `… <n> used slot(s) …`)
      -- are new only when the count grew for the same subject
      let countKey (m : String) : Option (String × Nat) :=
        let ws := m.splitOn " "
        (List.range ws.length).findSome? fun i =>
          match (ws.getD i "").toNat?, ws.getD (i + 1) "" with
          | some n, nx => if nx == "cluster(s)" || nx == "orphan" || nx == "used" then
                            some (" ".intercalate (ws.take i), n) else none
          | none, _ => none
      let prevCounts : Std.HashMap String Nat := prev.fold (fun mp m =>
        match countKey m with
        | some (k, n) => mp.insert k (max n (mp.getD k 0))
        | none => mp) {}
      let new := msgs.filter fun m =>
        !prev.contains m && (match countKey m with
          | some (k, n) => n > prevCounts.getD k 0
          | none => true)
      -- `forget` abandons the session (no destructor runs): what it leaves is a crash image, not the result of an
      -- API call; `raw` plants bytes without the library. Their findings become the baseline for what follows
      let new := if c.op == "forget" || c.op == "raw" then [] else new
      let out := new.filterMap fun m =>
        let (cl, rest) := splitClause m
        let toC10 := cl == "fat-copies" || cl == "reserved-entries"
        if toC10 && v.prop == "C10" then some s!"C10 {cl} op={c.op} res={c.rk} {rest}"
        else if !toC10 && v.prop == "C03" then some s!"C03 {cl} op={c.op} res={c.rk} {rest}"
        else if v.prop == "C16" && (cl == "dup-short" || (cl == "dup-long" && (rest.splitOn "equals the short name").length > 1)) then
          some s!"C16 alias-not-unique {cl} op={c.op} res={c.rk} {rest}"
        else if v.prop == "C08" then some s!"C08 invalid-after-mutation {cl} op={c.op} res={c.rk} {rest}"
        else if v.prop == "C20" && cl == "fat-link-range" then some s!"C20 fat-link-range op={c.op} res={c.rk} {rest}"
        else none
      (msgs.foldl (fun s m => s.insert m) {}, msgs.isEmpty, false, out)

/-! ## C01 -/

/-- the operation as the spec tree sees it: path arguments with 8.3 aliases of existing entries replaced by the real
    names (looked up in `before`) -/
def treeOpOf (st : OState) (v : OpView) (c : Ctx) : Option Spec.Op :=
  let da (cwd : List String) (p : String) : String :=
    match c.g with
    | some g => dealias g v.before cwd p
    | none => p
  match c.op, c.args with
  | "create_file", [d, p, _] => do let cwd ← dirOf st d; pure (.createFile cwd (da cwd (← textOf p)))
  | "create_dir", [d, p, _] => do let cwd ← dirOf st d; pure (.createDir cwd (da cwd (← textOf p)))
  | "open_file", [d, p, _] => do let cwd ← dirOf st d; pure (.openFile cwd (da cwd (← textOf p)))
  | "open_dir", [d, p, _] => do let cwd ← dirOf st d; pure (.openDir cwd (da cwd (← textOf p)))
  | "list", [d] => do pure (.list (← dirOf st d))
  | "remove", [d, p] => do let cwd ← dirOf st d; pure (.remove cwd (da cwd (← textOf p)))
  | "rename", [d, s, d2, t] => do
    let cwd ← dirOf st d
    let cwd2 ← dirOf st d2
    pure (.rename cwd (da cwd (← textOf s)) cwd2 (da cwd2 (← textOf t)))
  | _, _ => none

/-- irregular path syntax in the arguments, named in the message so that such cases can be told apart -/
def pathSyntax (c : Ctx) : String :=
  let hexes := match c.op, c.args with
    | "rename", [_, s, _, t] => [s, t]
    | _, [_, p, _] => if isDirOp c.op then [p] else []
    | "remove", [_, p] => [p]
    | _, _ => []
  let ps := hexes.filterMap textOf
  if ps.any fun p => p.endsWith "/" then " path-syntax=trailing-slash"
  else if ps.any fun p => p.startsWith "/" || (p.splitOn "//").length > 1 then " path-syntax=empty-component"
  else ""

/-- the observed result; in listing rows the size of a file that has a live handle is not compared (the library
    lists the on-disk entry, the handle's pending size is in its editor): it is replaced by the spec tree's size -/
def obsOf (st : OState) (t : TNode) (v : OpView) (c : Ctx) : Obs :=
  match v.io.res with
  | "ok" :: _ =>
    if c.op == "list" then
      let dp := c.dh.getD []
      let live (name : String) : Bool :=
        st.files.fold (fun b _ f => b || simpleFold (showPath f.path) == simpleFold (showPath (dp ++ [name]))) false
      .okList ((v.io.rows.filterMap parseRow).map fun (n, d, sz) =>
        if !d && (live n || st.treeStale) then
          match getAt treeCfg t (dp ++ [n]) with
          | some node => (n, d, node.size)
          | none => (n, d, sz)
        else (n, d, sz))
    else .ok
  | "err" :: code :: rest => .err (codeToErr code rest.head?)
  | _ => .ok

/-- returns the messages and the spec tree to continue with (the abstraction of `after`) -/
def oC01 (st st' : OState) (v : OpView) (c : Ctx) : Option TNode × List String :=
  if st.mounted && (c.rk == "panic" || c.rk == "hang") && (treeOpOf st v c).isSome then
    (none, [s!"C01 op-panic op={c.op}{pathSyntax c} the call ended in {c.rk}"]) else
  if !st.mounted || !st'.mounted || c.op == "mount" then (st'.tree, []) else
  match st.tree with
  | none => (st'.tree, [])
  | some t =>
    let tag := s!"op={c.op} res={c.rk}{pathSyntax c}"
    -- 1. the call against the spec
    let (t1, m1) : TNode × List String :=
      if c.rk == "panic" || c.rk == "hang" then (t, [s!"C01 op-panic {tag} the call ended in {c.rk}"])
      else match treeOpOf st v c with
        | none => (t, [])
        | some op =>
          match Spec.step { upper := c.upper, validName := validName } t op (obsOf st t v c) with
          | .ok t' => (t', [])
          | .error m => (t, [s!"C01 tree-step {tag} {m}"])
    -- 2. the image against the spec tree (unchanged image and no claimed change: nothing to compare)
    if c.writes.isEmpty && !st.treeStale && !["create_file", "create_dir", "remove", "rename"].contains c.op then
      (some t1, m1) else
    if v.overlay.isNone && !st'.files.isEmpty then (some t1, m1) else
    match decodeTree (applyOverlay v.after (v.overlay.getD [])) with
    | .error e => (none, m1 ++ [s!"C01 tree-diff {tag} the image no longer decodes: {e}"])
    | .ok root =>
      if ambiguousNames c.upper root then (none, []) else
      let abs := TNode.ofNode root
      let m2 := match shapeDiff t1 root with
        | some d => [s!"C01 tree-diff {tag} {d}"]
        | none =>
          -- 3. contents of files without a live handle (and not the file this op flushes/drops)
          let live : Std.HashSet String :=
            st'.files.fold (fun s _ f => s.insert (simpleFold (showPath f.path)))
              (match c.fh with | some f => ({} : Std.HashSet String).insert (simpleFold (showPath f.path)) | none => {})
          let spec : Std.HashMap String ByteArray := (flatT t1).foldl (fun m (p, _, b) => m.insert p b) {}
          match (flatMeta root).find? fun (p, e, b) =>
              !st.treeStale && !e.isDir && !live.contains (simpleFold p) && spec[p]? != some b with
          | some (p, _, b) =>
            [s!"C01 content-changed {tag} file '{p}' has no live handle but its content changed (now {b.size} bytes, was {(spec[p]?.map (·.size)).getD 0})"]
          | none => []
      (some abs, m1 ++ m2)

/-! ## C04 -/

def noPending (st : OState) (v : OpView) : Bool :=
  st.files.isEmpty && (v.overlay == some [] || v.overlay.isNone)

def oC04 (st : OState) (v : OpView) (c : Ctx) : List String :=
  match c.ok, c.g with
  | true, some g =>
    if c.op == "list" then
      if !noPending st v then [] else
      match c.dh with
      | none => []
      | some dp =>
        match (pathInfo g v.after dp).loc with
        | none =>
          -- handle paths are canonicalised with ASCII/Latin-1 folding only: a directory opened under a name that
          -- differs from the stored one by non-Latin-1 case cannot be located; say nothing then
          if (showPath dp).toList.any (fun ch => ch.toNat > 0xFF) then []
          else [s!"C04 list-vs-decode dir={showPath dp} the directory is not found by the independent decoder"]
        | some loc =>
          match Spec.listDir g v.after loc with
          | .error e => [s!"C04 list-vs-decode dir={showPath dp} decoder error: {e}"]
          | .ok pd =>
            let want := expectedRows pd
            let got := v.io.rows.toArray.qsort (· < ·)
            if want == got then [] else
            let d := (want.zip got).find? fun (a, b) => a != b
            [s!"C04 list-vs-decode dir={showPath dp} " ++ match d with
              | some (a, b) => s!"decoder={a} library={b}"
              | none => s!"decoder has {want.size} rows, library {got.size}"]
    else if c.op == "readall" || c.op == "extents" then
      match c.fh with
      | none => []
      | some fs =>
        -- no handle on this file has a pending size
        if st.files.fold (fun b _ f => b || (f.mutated && f.path == fs.path)) false then [] else
        match (pathInfo g v.after fs.path).entry with
        | none => []
        | some e =>
          match fileContent g v.after e with
          | .error _ => []
          | .ok content =>
            if c.op == "readall" then
              match fs.pos with
              | none => []
              | some pos =>
                let want := Util.hexOfBytes ((content.extract pos content.size).toList.map (·.toNat))
                let got := v.io.res.getD 1 "-"
                if want == got then [] else
                [s!"C04 content-vs-decode file={showPath fs.path} pos={pos} decoder has {content.size - pos} bytes, library returned {hexLen got}"]
            else
              let tok := v.io.res.getD 1 "-"
              let ranges := if tok == "-" then [] else (tok.splitOn ",").filterMap fun r =>
                match r.splitOn ":" with
                | [o, l] => (match o.toNat?, l.toNat? with | some o, some l => some (o, l) | _, _ => none)
                | _ => none
              let bytes := ranges.foldl (fun acc (o, l) => acc ++ readBytes v.after o l) ByteArray.empty
              if bytes == content then [] else
              [s!"C04 extents-content file={showPath fs.path} extents={tok} give {bytes.size} bytes, decoder has {content.size}"]
    else []
  | _, _ => []

/-! ## C06 -/

/-- after a successful `format_volume` the image, decoded independently of the library and whatever the medium held
    before, is a valid EMPTY volume: geometry accepted by the specification's rules, no consistency finding, no live
    entry in the root directory other than the volume label asked for, every data cluster free (but the FAT32 root's),
    all FAT copies equal, FS-information counters exact -/
def oC06 (v : OpView) (c : Ctx) : List String :=
  if c.op != "format" || !c.ok then [] else
  match parseGeom v.after with
  | .error e => [s!"C06 format-invalid-volume the boot sector written by format is rejected by the specification decoder: {e}"]
  | .ok g =>
    let fmsgs := (fsck v.after [] c.upper).map fun m => s!"C06 format-not-clean {m}"
    let wantLabel := (Util.kv c.args "label").getD "none" != "none"
    let rmsgs := match Spec.listDir g v.after (rootLoc g) with
      | .error e => [s!"C06 format-root-unreadable {e}"]
      | .ok pd =>
        let live := pd.entries.filter fun e => e.attrs / 8 % 2 == 0 || e.longName.isSome
        let labels := pd.entries.filter fun e => e.attrs / 8 % 2 == 1 && e.longName.isNone
        (if live.isEmpty && pd.dots.isEmpty then [] else
          [s!"C06 format-root-not-empty {live.length + pd.dots.length} entr(ies) in the root of the fresh volume, first: {((live ++ pd.dots).map (·.name)).headD "?"}"]) ++
        (if labels.length ≤ (if wantLabel then 1 else 0) then [] else
          [s!"C06 format-stray-label {labels.length} volume-label entr(ies) in the root of the fresh volume"])
    let used := g.totalClusters - fatFreeCount g v.after
    let wantUsed := if g.fatBits == 32 then 1 else 0
    let umsgs := if used == wantUsed then [] else
      [s!"C06 format-clusters-in-use {used} cluster(s) marked used on the fresh volume (expected {wantUsed})"]
    let imsgs := match fsInfo g v.after with
      | some (some free, _) => if free == g.totalClusters - wantUsed then [] else
          [s!"C06 format-fsinfo free count {free}, the FAT has {g.totalClusters - wantUsed}"]
      | _ => []
    fmsgs ++ rmsgs ++ umsgs ++ imsgs ++ (checkFatCopies g v.after).map (fun m => s!"C06 format-{m}")

/-! ## C05 -/

/-- longest run of free slots (deleted or at/after the end marker) of the fixed root -/
def rootFreeRun (g : Geom) (img : Img) : Nat := Id.run do
  let slots := readExtents img #[(g.rootStart, g.rootDirBytes)] false
  let mut best := 0
  let mut cur := 0
  let mut ended := false
  for s in slots do
    if s.b 0 == 0 then ended := true
    if ended || s.b 0 == 0xE5 then
      cur := cur + 1
      if cur > best then best := cur
    else cur := 0
  return best

def oC05 (st : OState) (v : OpView) (c : Ctx) : List String :=
  match c.g with
  | none => []
  | some g =>
    let nospace :=
      if v.io.res.take 2 == ["err", "9"] then
        let free := fatFreeCount g v.before
        let freeAfter := fatFreeCount g v.after
        -- a full fixed root directory is the other documented reason
        let rootFull := g.fatBits != 32 && c.primary.any (fun p => p.length ≤ 1) && rootFreeRun g v.before < 21
        -- a multi-cluster write may use up the last clusters before it fails: judge the state it left
        -- create_dir needs up to two clusters at once (its own first cluster and one to grow the parent) and gives
        -- the first back when the second cannot be had: with a single free cluster NotEnoughSpace is legitimate
        -- in general a directory operation may need one cluster per `clusterSize/32` slots of the new entry
        -- (ceil(units/13) long-name slots + 1; worst case the whole entry lands in new clusters), plus the new
        -- directory's own cluster: with fewer free clusters than that NotEnoughSpace is legitimate
        let lastUnits : Nat := match c.op, c.args with
          | "create_dir", [_, p, _] | "create_file", [_, p, _] | "rename", [_, _, _, p] =>
            (match textOf p with
             | some t => (Names.encodeUtf16 (((t.splitOn "/").filter (· != "")).getLastD "").toList).length
             | none => 0)
          | _, _ => 0
        let slots := (lastUnits + 12) / 13 + 1
        let perCluster := max 1 (g.clusterSize / 32)
        let needed := (if c.op == "create_dir" then 1 else 0) + (if lastUnits == 0 then 0 else (slots + perCluster - 1) / perCluster)
        let needsMore := ["create_dir", "create_file", "rename"].contains c.op && free < needed
        if free == 0 || freeAfter == 0 || rootFull || needsMore then []
        else [s!"C05 nospace-unsound op={c.op} free-before={free} free-after={freeAfter}"]
      else []
    let main :=
      if !c.ok then [] else
      match c.op with
      | "stats" =>
        let free := fatFreeCount g v.after
        let got := (v.io.res.getD 3 "").toNat?.getD 0
        if free == got then [] else [s!"C05 stats-free expected={free} got={got}"]
      | "unmount" | "dropfs" =>
        let wroteFsInfo := c.writes.any fun (off, bs) => (classify g off bs.length).any fun (r, _, _) => r == .fsInfo
        if g.fatBits != 32 || !wroteFsInfo then [] else
        match fsInfo g v.after with
        | none => []
        | some (f, n) =>
          let free := fatFreeCount g v.after
          (match f with
            | some f => if f == free then [] else [s!"C05 fsinfo-free op={c.op} fsinfo={f} fat={free}"]
            | none => []) ++
          (match n with
            | some h => if 2 ≤ h && h ≤ g.totalClusters + 1 then [] else
                [s!"C05 fsinfo-hint hint={h} total={g.totalClusters}"]
            | none => [])
      | "remove" =>
        match c.primary.head? with
        | none => []
        | some p =>
          match (pathInfo g v.before p).entry with
          | none => []
          | some e =>
            let chain := if e.firstCluster == 0 then 0 else
              match chainOf g v.before e.firstCluster with | .ok cs => cs.size | .error _ => 0
            let fb := fatFreeCount g v.before
            let fa := fatFreeCount g v.after
            if fa == fb + chain then [] else
            [s!"C05 reclaim op=remove path={showPath p} chain={chain} free-before={fb} free-after={fa}"]
      | "truncate" =>
        match c.fh, st.prevOverlay with
        | some fs, some ov =>
          match fs.pos with
          | none => []
          | some pos =>
            let pre := applyOverlay v.before ov
            match (pathInfo g pre fs.path).entry with
            | none => []
            | some e =>
              let chain := if e.firstCluster == 0 then 0 else
                match chainOf g pre e.firstCluster with | .ok cs => cs.size | .error _ => 0
              let keep := min chain (ceilDiv pos g.clusterSize)
              let fb := fatFreeCount g v.before
              let fa := fatFreeCount g v.after
              if fa + keep == fb + chain then [] else
              [s!"C05 reclaim op=truncate path={showPath fs.path} pos={pos} chain={chain} keep={keep} free-before={fb} free-after={fa}"]
        | _, _ => []
      | _ => []
    nospace ++ main

/-! ## C09 -/

def oC09 (v : OpView) (c : Ctx) : List String :=
  match v.io.fault with
  | none => []
  | some (k, kind, inDrop) =>
    if c.rk == "hang" then [s!"C09 hang op={c.op} k={k} kind={kind} indrop={inDrop}"]
    else if c.rk == "panic" then [s!"C09 panic op={c.op} k={k} kind={kind} indrop={inDrop}"]
    else if inDrop then []
    else if v.io.res == ["err", "1", toString k] then []
    else [s!"C09 fault-not-surfaced op={c.op} k={k} kind={kind} res={" ".intercalate v.io.res}"]

/-! ## C10 (b)–(d) -/

def oC10 (v : OpView) (c : Ctx) : List String :=
  match c.g with
  | none => []
  | some g =>
    if c.op == "format" || c.op == "raw" || c.writes.isEmpty then [] else
    let fatPieces := c.writes.flatMap fun (off, bs) =>
      (classify g off bs.length).filterMap fun (r, o, l) => match r with
        | .fat copy => some (copy, o, l)
        | _ => none
    if fatPieces.isEmpty then [] else
    let inactive :=
      if g.mirroring then [] else
      match fatPieces.find? fun (copy, _, _) => copy != g.activeCopy with
      | some (copy, o, l) => [s!"C10 inactive-copy-written op={c.op} copy={copy} active={g.activeCopy} off={o} len={l}"]
      | none => []
    let reserved := (List.range g.fats).flatMap fun copy =>
      [0, 1].filterMap fun k =>
        let a := fatEntryRaw g v.before copy k
        let b := fatEntryRaw g v.after copy k
        if a == b then none else some s!"C10 reserved-entries-changed op={c.op} copy={copy} entry={k} before={a} after={b}"
    let top :=
      if g.fatBits != 32 then [] else
      let bad := fatPieces.findSome? fun (copy, o, l) =>
        let rel := o - g.fatCopyStart copy
        (List.range ((rel + l + 3) / 4 - rel / 4)).findSome? fun i =>
          let k := rel / 4 + i
          let a := fatEntryRaw g v.before copy k
          let b := fatEntryRaw g v.after copy k
          if a != b && a / 0x10000000 != b / 0x10000000 then some (copy, k, a, b) else none
      match bad with
      | some (copy, k, a, b) => [s!"C10 reserved-bits-changed op={c.op} copy={copy} entry={k} before={a} after={b}"]
      | none => []
    inactive ++ reserved ++ top

/-! ## C11 -/

def oC11 (st : OState) (v : OpView) (c : Ctx) : List String :=
  match c.g with
  | none => []
  | some g =>
    if c.op == "format" || c.op == "raw" || c.writes.isEmpty then [] else
    let harmless (r : Region) : Bool := match r with
      | .bootStatusByte | .fsInfo | .fat _ | .rootDir => true
      | _ => false
    let interesting := c.writes.filter fun (off, bs) => (classify g off bs.length).any fun (r, _, _) => !harmless r
    if interesting.isEmpty then [] else
    -- first cluster / size of files with live handles live in their editors: judge ownership on the image overlaid
    -- with the records pending BEFORE the operation; when those are unknown, unreferenced clusters are not judged
    let pre := applyOverlay v.before (st.prevOverlay.getD [])
    let lenient := st.prevOverlay.isNone && !st.files.isEmpty
    -- cheap pass: clusters that were free, or belong to a named object / a directory on its path
    let mine := c.touched.foldl (fun s p => chainsAlong g pre p (rootLoc g) s) ({} : Std.HashSet Nat)
    let suspicious := interesting.filter fun (off, bs) => (classify g off bs.length).any fun (r, _, _) =>
      match r with
      | .cluster k => !mine.contains k && fatEntry g pre k != .free
      | r => !harmless r
    if suspicious.isEmpty then [] else
    let owners := ownerMap g pre
    let touched := c.touched.map showPath
    suspicious.filterMap fun (off, bs) =>
      match allowedWriteWith g pre owners touched off bs.length c.upper with
      | none => none
      | some m =>
        let (sig, rest) := splitClause m
        if lenient && (rest.splitOn "(allocated, unreferenced)").length > 1 then none
        else some s!"C11 {sig} op={c.op} off={off} len={bs.length} named={touched} {rest}"

/-! ## C12 -/

/-- the write changes, inside one 32-byte slot, only the time fields (bytes 13…19, 22…25) -/
def timestampOnly (before : Img) (off : Nat) (bs : List Nat) : Bool :=
  !bs.isEmpty && off / 32 == (off + bs.length - 1) / 32 &&
  (List.range bs.length).all fun i =>
    let idx := (off + i) % 32
    bs.getD i 0 == before.getByte (off + i) || (13 ≤ idx && idx ≤ 19) || (22 ≤ idx && idx ≤ 25)

def structuralWrite (g : Geom) (before : Img) (off : Nat) (bs : List Nat) : Bool :=
  (classify g off bs.length).any fun (r, o, l) =>
    match r with
    | .bootStatusByte | .fsInfo => false
    | .rootDir | .cluster _ => !timestampOnly before o ((bs.drop (o - off)).take l)
    | _ => true

def oC12 (st : OState) (v : OpView) (c : Ctx) : List String :=
  match c.g with
  | none => []
  | some g =>
    let sb := v.after.getByte g.statusByteOffset
    let a :=
      if st.mounted && !["format", "raw", "mount", "unmount", "dropfs", "forget"].contains c.op then
        match c.writes.find? fun (off, bs) => structuralWrite g v.before off bs with
        | some (off, bs) =>
          if sb % 2 == 1 then [] else
          [s!"C12 dirty-bit-not-set op={c.op} res={c.rk} structural write at off={off} len={bs.length}, status byte {sb}"]
        | none => []
      else []
    let b :=
      if st.mounted && c.ok && (c.op == "unmount" || c.op == "dropfs") then
        if sb == st.mountStatus then [] else [s!"C12 status-not-restored op={c.op} mount={st.mountStatus} now={sb}"]
      else []
    let cc :=
      if st.mounted && c.ok && c.op == "status" && st.mountStatus % 2 == 1 && v.io.res.getD 1 "" != "1" then
        [s!"C12 abandoned-not-reported status byte at mount {st.mountStatus}, status reports dirty={v.io.res.getD 1 "?"}"]
      else []
    a ++ b ++ cc

/-! ## C13 -/

def oC13 (st st' : OState) (v : OpView) (c : Ctx) : List String :=
  if c.accdate then [] else
  let inWindow := if c.op == "mount" then c.ok else st.roWindow && st.mounted
  if !inWindow || !isReadOnlyOp c.op || c.writes.isEmpty then [] else
  let g? := if c.op == "mount" then st'.geom else c.g
  match g? with
  | none => []
  | some g =>
    let unknown := if c.op == "mount" then st'.mountFsInfoUnknown else st.mountFsInfoUnknown
    let status := if c.op == "mount" then st'.mountStatus else st.mountStatus
    let fsInfoExempt := g.fatBits == 32 && ["stats", "unmount", "dropfs"].contains c.op && (unknown || status % 2 == 1)
    c.writes.filterMap fun (off, bs) =>
      let inFsInfo := (classify g off bs.length).all fun (r, _, _) => r == .fsInfo
      if fsInfoExempt && inFsInfo then none
      else some s!"C13 readonly-write op={c.op} off={off} len={bs.length} (fs-info count unknown at mount: {unknown}, status byte at mount: {status})"

def samePath (upper : Char → List Char) (a b : List String) : Bool :=
  foldName upper (showPath a) == foldName upper (showPath b)

/-! ## C14 -/

def oC14 (st : OState) (v : OpView) (c : Ctx) : List String :=
  match c.op, c.args, c.g with
  | "crashprobe", p :: _, some g =>
    match textOf p with
    | none => []
    | some path =>
      let pi := pathInfo g v.before (lexPath [] (path.splitOn "/"))
      -- expected: what the API calls wrote before the flush (when the handle was tracked); else what the complete
      -- image holds now
      let tracked := (st.durable.find? fun (q, _) => samePath c.upper q pi.path).map (·.2)
      let fromImage : Option (List Nat) := match pi.entry with
        | none => none
        | some e => match fileContent g v.before e with
          | .error _ => none
          | .ok content => some (content.toList.map (·.toNat))
      match (match tracked with | some l => some l | none => fromImage) with
        | none => []
        | some contentL =>
          let want := Util.hexOfBytes contentL
          let (_, msgs) := v.io.krows.foldl (fun (acc : String × List String) row =>
            let (prev, msgs) := acc
            match row.splitOn " " with
            | [j, "1", size, h] =>
              let h' := if h == "=" then prev else h
              if size.toNat? == some contentL.length && h' == want then (h', msgs)
              else (h', msgs ++ [s!"C14 crash-lost j={j} path={path} expected {contentL.length} bytes{if tracked.isSome then " (the flushed content)" else ""}, the cut image has {size}{if size.toNat? == some contentL.length then " (different bytes)" else ""}"])
            | j :: "0" :: _ => ("", msgs ++ [s!"C14 crash-lost j={j} path={path} the file is not found in the cut image"])
            | j :: "readerr" :: rest => ("", msgs ++ [s!"C14 crash-lost j={j} path={path} read error {rest}"])
            | j :: what :: rest => ("", msgs ++ [s!"C14 crash-unmountable j={j} {what} {" ".intercalate rest}"])
            | _ => (prev, msgs)) ("", [])
          msgs
  | _, _, _ => []

/-! ## C18 -/

/-- `L` row tokens: name short attrs len cdate ctime adate mdate mtime lfn -/
def rowOfName (rows : List String) (name : String) : Option (List String) :=
  rows.findSome? fun r =>
    let t := r.splitOn " "
    match textOf (t.headD "-") with
    | some n => if simpleFold n == simpleFold name then some t else none
    | none => none

def checkExpect (rows : List String) (e : Expect) : List String :=
  match e.path.getLast? with
  | none => []
  | some name =>
    match rowOfName rows name with
    | none => []
    | some t =>
      let cm := match e.c with
        | some [y, mo, d, h, mi, s, ms] =>
          let want := s!"{y}-{mo}-{d} {h}:{mi}:{s}.{ms / 10 * 10}"
          let got := s!"{t.getD 4 ""} {t.getD 5 ""}"
          if want == got then [] else [s!"C18 set-readback created of {showPath e.path}: set {want}, listed {got}"]
        | _ => []
      let mm := match e.m with
        | some [y, mo, d, h, mi, s, _] =>
          let want := s!"{y}-{mo}-{d} {h}:{mi}:{s / 2 * 2}"
          let got := s!"{t.getD 7 ""} {t.getD 8 ""}"
          if want == got then [] else [s!"C18 set-readback modified of {showPath e.path}: set {want}, listed {got}"]
        | _ => []
      let am := match e.a with
        | some [y, mo, d] =>
          let want := s!"{y}-{mo}-{d}"
          let got := t.getD 6 ""
          if want == got then [] else [s!"C18 set-readback accessed of {showPath e.path}: set {want}, listed {got}"]
        | _ => []
      cm ++ mm ++ am

def flatOf (g : Geom) (img : Img) : Array (String × EntryMeta × ByteArray) :=
  match decodeTreeG g img false with
  | .ok r => flatMeta r
  | .error _ => #[]

/-- returns messages, the directory whose expectations were checked (and are consumed), and the flattened metas of
    `after` if they were computed -/
def oC18 (st : OState) (v : OpView) (c : Ctx) :
    List String × Option (List String) × Option (Array (String × EntryMeta × ByteArray)) :=
  match c.g with
  | none => ([], none, none)
  | some g =>
    -- (i) read-back at the next listing of the parent
    let (m1, exps) : List String × Option (List String) :=
      if c.op == "list" && c.ok then
        match c.dh with
        | some dp => ((st.expects.filter fun e => e.path.dropLast == dp).flatMap (checkExpect v.io.rows), some dp)
        | none => ([], none)
      else ([], none)
    if c.writes.isEmpty || !st.mounted || ["format", "raw", "mount"].contains c.op then (m1, exps, none) else
    let fb := if st.metaAt == st.opCount && st.opCount != 0 then st.metaFlat else flatOf g v.before
    let fa := flatOf g v.after
    -- (ii) rename keeps the times of the moved entry
    let m2 :=
      if c.op == "rename" && c.ok then
        match c.primary with
        | [old, _] =>
          match st.dirs, c.args with
          | _, [_, _, d2, t] =>
            match dirOf st d2, textOf t with
            | some cwd2, some tp =>
              let new := (resolveArg g v.after cwd2 tp).path
              match fb.find? (fun (p, _, _) => p == showPath old), fa.find? (fun (p, _, _) => p == showPath new) with
              | some (_, eb, _), some (_, ea, _) =>
                if eb.times == ea.times then [] else
                [s!"C18 rename-changed-times {showPath old} -> {showPath new}: raw time fields before {eb.times} after {ea.times}"]
              | _, _ => []
            | _, _ => []
          | _, _ => []
        | _ => []
      else []
    -- (iii) entries the operation does not name keep their time bytes
    let named := c.touched.map showPath
    let related (p : String) : Bool :=
      named.any fun n => n == p || (n ++ "/").startsWith (p ++ "/") || (p ++ "/").startsWith (n ++ "/")
    let after : Std.HashMap String EntryMeta := fa.foldl (fun m (p, e, _) => m.insert p e) {}
    let m3 := match fb.find? fun (p, e, _) =>
        !related p && (match after[p]? with | some e' => e'.times != e.times | none => false) with
      | some (p, e, _) =>
        [s!"C18 foreign-times-changed op={c.op} named={named} entry {p}: raw time fields before {e.times} after {(after[p]?.map (·.times)).getD []}"]
      | none => []
    (m1 ++ m2 ++ m3, exps, some fa)

/-! ## C02 (and the content tracking C20 builds on) -/

def bytesOfBA (b : ByteArray) : List Nat := b.toList.map (·.toNat)

/-- content of the file at a canonical path, as the decoder reads it from `img` -/
def fileImageContent (g : Geom) (img : Img) (path : List String) : Option (List Nat) :=
  match (pathInfo g img path).entry with
  | some e => if e.isDir then none else
      match fileContent g img e with
      | .ok c => some (bytesOfBA c)
      | .error _ => none
  | none => none

/-- bytes the operation wrote into data clusters (= how far a failing `write_all` got) -/
def dataBytesWritten (g : Geom) (c : Ctx) : Nat :=
  c.writes.foldl (fun n (off, bs) =>
    n + ((classify g off bs.length).foldl (fun k (r, _, l) => match r with | .cluster _ => k + l | _ => k) 0)) 0

/-- the operation and its observed result in the vocabulary of `ByteFile.check`; `none`: not a cursor operation, or a
    result the byte-array specification does not speak about (I/O error, panic …) -/
def cursorOp (g : Geom) (v : OpView) (c : Ctx) (b : Cursor.ByteFile) : Option (Cursor.FileOp × Cursor.FileRes) :=
  let res := v.io.res
  match c.op, c.args with
  | "read", [_, n] =>
    match res, n.toNat? with
    | ["ok", h], some n => (Util.bytesOfHex h).map fun l => (Cursor.FileOp.read n, Cursor.FileRes.bytes l)
    | _, _ => none
  | "readx", [_, n] =>
    match res, n.toNat? with
    | ["ok", h], some n => (Util.bytesOfHex h).map fun l => (Cursor.FileOp.readExact n, Cursor.FileRes.bytes l)
    | ["err", "2"], some n => some (Cursor.FileOp.readExact n, Cursor.FileRes.errAt .eof b.content.length)
    | _, _ => none
  | "write", [_, p] =>
    match res, payloadBytes p with
    | ["ok", k], some bs => k.toNat?.map fun k => (Cursor.FileOp.write bs, Cursor.FileRes.count k)
    | ["err", "9"], some bs => some (Cursor.FileOp.write bs, Cursor.FileRes.err .noSpace)
    | _, _ => none
  | "writeall", [_, p] =>
    match res, payloadBytes p with
    | ["ok"], some bs => some (Cursor.FileOp.writeAll bs, Cursor.FileRes.unit)
    | ["err", "9"], some bs => some (Cursor.FileOp.writeAll bs, Cursor.FileRes.errAt .noSpace (b.pos + dataBytesWritten g c))
    | ["err", "3"], some bs => some (Cursor.FileOp.writeAll bs, Cursor.FileRes.errAt .writeZero (b.pos + dataBytesWritten g c))
    | _, _ => none
  | "seek", [_, w, n] =>
    match n.toInt? with
    | none => none
    | some d =>
      let sf : Option Cursor.SeekFrom := if w == "start" then some (Cursor.SeekFrom.start d.toNat) else if w == "cur" then some (Cursor.SeekFrom.current d)
                                  else if w == "end" then some (Cursor.SeekFrom.fromEnd d) else none
      match sf, res with
      | some sf, ["ok", p] => p.toNat?.map fun p => (Cursor.FileOp.seek sf, Cursor.FileRes.pos p)
      | some sf, ["err", "4"] => some (Cursor.FileOp.seek sf, Cursor.FileRes.err .invalidInput)
      | _, _ => none
  | "truncate", [_] => if res == ["ok"] then some (Cursor.FileOp.truncate, Cursor.FileRes.unit) else none
  | _, _ => none

/-- per-handle `ByteFile` tracking; messages are C02's (the caller drops them under other properties) -/
def oC02 (st st' : OState) (v : OpView) (c : Ctx) : OState × List String :=
  match st'.geom with
  | none => (st', [])
  | some g =>
    let imgO := applyOverlay v.after (v.overlay.getD [])
    match c.op, c.args with
    | "open_file", [_, _, n] | "create_file", [_, _, n] =>
      match c.ok, handleId n with
      | true, some id =>
        match st'.files[id]? with
        | none => (st', [])
        | some fs =>
          let others := st.files.fold (fun b k f => b || (k != id && samePath c.upper f.path fs.path)) false
          if others then
            -- a second handle on the same file: none of them is tracked
            ({ st' with files := st'.files.fold (fun m k f =>
                m.insert k (if samePath c.upper f.path fs.path then { f with bf := none } else f)) {} }, [])
          else
            let bf := (fileImageContent g imgO fs.path).map fun l => ({ content := l, pos := 0 } : Cursor.ByteFile)
            let fc := match (pathInfo g imgO fs.path).entry with
              | some e => if e.firstCluster == 0 then none else some e.firstCluster
              | none => none
            ({ st' with files := st'.files.insert id { fs with bf := bf, firstCl := fc } }, [])
      | _, _ => (st', [])
    | _, ftok :: _ =>
      match c.fh, handleId ftok with
      | some fs, some id =>
        match fs.bf with
        | none => (st', [])
        | some b =>
          let firstData := c.writes.findSome? fun (off, bs) => (classify g off bs.length).findSome? fun (r, _, _) =>
            match r with | .cluster k => some k | _ => none
          let setBf (o : Option Cursor.ByteFile) (tr : Bool) : OState :=
            match st'.files[id]? with
            | some f =>
              let fc := if c.op == "truncate" && c.ok && (o.map (·.pos)) == some 0 then none
                        else if (c.op == "write" || c.op == "writeall") && f.firstCl.isNone then firstData
                        else f.firstCl
              { st' with files := st'.files.insert id { f with bf := o, truncated := tr, firstCl := fc } }
            | none => st'
          let tag := s!"op={c.op} res={c.rk} file={showPath fs.path} pos={b.pos} size={b.content.length}"
          if c.op == "readall" then
            match v.io.res with
            | ["ok", h] =>
              match Util.bytesOfHex h with
              | some l =>
                let want := b.content.drop b.pos
                if l == want then (setBf (some { b with pos := b.content.length }) fs.truncated, [])
                else if l.length > want.length then (setBf none false, [s!"C02 read-too-long {tag} returned {l.length} bytes, {want.length} remain"])
                else (setBf none false, [s!"C02 read-wrong-bytes {tag} returned {l.length} bytes, expected {want.length}"])
              | none => (setBf none false, [])
            | _ =>
              -- reading a tracked file to its end fails although no storage fault was injected: the bytes the
              -- specification holds cannot be read back (an injected fault is C09's business)
              if v.io.fault.isNone && c.rk != "err1" && (v.io.res.head? == some "err") then
                (setBf none false, [s!"C02 read-wrong-bytes {tag} readall failed: {" ".intercalate v.io.res}, expected {(b.content.drop b.pos).length} bytes"])
              else (setBf none false, [])
          else if c.op == "flush" || c.op == "dropf" then
            -- an injected storage error: the flush did not happen, what the handle holds is unchanged
            if !c.ok && v.io.fault.isSome && c.rk == "err1" then (setBf (some b) fs.truncated, []) else
            -- a storage error inside the destructor is swallowed by design: what reached the device is not known
            if c.ok && v.io.fault.isSome then (setBf none false, []) else
            if !c.ok then (setBf none false, []) else
            match fileImageContent g imgO fs.path with
            | some l =>
              if l == b.content then (setBf (some b) false, [])
              else
                let sig := if fs.truncated then "truncate-content" else "write-count"
                (setBf none false, [s!"C02 {sig} {tag} after {c.op} the image holds {l.length} bytes, the byte-array specification {b.content.length}{if l.length == b.content.length then " (different bytes)" else ""}"])
            | none => (setBf (some b) fs.truncated, [])
          else if (c.op == "write" || c.op == "read") && v.io.fault.isSome && c.rk == "err1" then
            -- ONE `write`/`read` call that ends in the injected storage error: the simulated device fails the call
            -- before transferring anything, the cursor only moves after a successful transfer: nothing changes
            (setBf (some b) fs.truncated, [])
          else if isFileOp c.op && !["extents", "set_created", "set_modified", "set_accessed"].contains c.op then
            match cursorOp g v c b with
            | none => (setBf none false, [])
            | some (op, res) =>
              match Cursor.ByteFile.check g.clusterSize op res b with
              | .ok b' => (setBf (some b') (fs.truncated || c.op == "truncate"), [])
              | .error sig => (setBf none false, [s!"C02 {sig} {tag} result {" ".intercalate (v.io.res.map fun t => (t.take 40).toString)}"])
          else (st', [])
      | _, _ => (st', [])
    | _, _ => (st', [])

/-! ## C08 -/

def groundActive (st : OState) : Bool := !st.ground.geo.isEmpty

/-- (a) the decoder against the ground truth at the first mount; (b) listings and file contents before any mutation -/
def oC08read (st : OState) (gr : Ground) (v : OpView) (c : Ctx) (g : Geom) : List String :=
  if c.op == "mount" && c.ok && !st.groundMounted then
    match groundDiff gr g v.after with
    | some d => [s!"C08 decode-vs-ground-truth {d}"]
    | none => []
  else if st.mutatedHist || !c.ok then []
  else if c.op == "list" then
    match c.dh with
    | none => []
    | some dp =>
      match gr.lookup c.upper dp with
      | some (some gd, _) =>
        let want := gd.rows
        let got := v.io.rows.toArray.qsort (· < ·)
        if want == got then [] else
        match (want.zip got).find? fun (a, b) => a != b with
        | some (a, b) => [s!"C08 list-vs-ground-truth dir={showPath dp} ground-truth={a} library={b}"]
        | none => [s!"C08 list-vs-ground-truth dir={showPath dp} ground truth has {want.size} rows, library {got.size}"]
      | _ => [s!"C08 list-vs-ground-truth dir={showPath dp} the ground truth has no such directory"]
  else if c.op == "readall" then
    match c.fh with
    | some fs =>
      if fs.pos != some 0 then [] else
      match gr.lookup c.upper fs.path, (v.io.res.getD 1 "-") with
      | some (_, some e), h =>
        match Util.bytesOfHex h with
        | some l =>
          let got := fnvHex ⟨(l.map UInt8.ofNat).toArray⟩
          if got == e.hash || !e.hashKnown then [] else
          [s!"C08 content-vs-ground-truth file={showPath fs.path} ground-truth hash {e.hash} ({e.size} bytes), library returned {l.length} bytes with hash {got}"]
        | none => []
      | _, _ => []
    | none => []
  else []

/-- (c) frame: what the operation did not name is untouched -/
def oC08frame (st : OState) (v : OpView) (c : Ctx) (g : Geom) (tainted exact : List String) : List String :=
  let gr := st.ground
  let fold (p : String) : String := foldName c.upper p
  let named := c.touched.map fun p => fold (showPath p)
  let isAnc (a b : String) : Bool := a == b || (b.startsWith (a ++ "/")) || a == "/"
  let exempt (p : String) : Bool :=
    let fp := fold p
    tainted.any (fun t => isAnc t fp) || exact.contains fp || named.any (fun n => isAnc fp n)
  let wroteFat := c.writes.any fun (off, bs) => (classify g off bs.length).any fun (r, _, _) =>
    match r with | .fat _ => true | _ => false
  let written : Std.HashSet Nat := c.writes.foldl (fun s (off, bs) =>
    (classify g off bs.length).foldl (fun s (r, _, _) => match r with | .cluster k => s.insert k | _ => s) s) {}
  let act := g.activeCopy
  let inactive :=
    if g.mirroring then [] else
    match c.writes.findSome? fun (off, bs) => (classify g off bs.length).findSome? fun (r, o, l) =>
        match r with | .fat copy => if copy != act then some (copy, o, l) else none | _ => none with
    | some (copy, o, l) => [s!"C08 inactive-copy-changed op={c.op} copy={copy} active={act} off={o} len={l}"]
    | none => []
  let key (loc : DirLoc) : Nat := match loc with | .fixedRoot => 0 | .chain f => f
  let (_, msgs) := st.groundEntries.foldl (fun (acc : Std.HashMap Nat (Option ParsedDir) × List String) (p, loc, e) =>
    let (cache, msgs) := acc
    if !msgs.isEmpty || exempt p then acc else
    let (cache, pd) := match cache[key loc]? with
      | some pd => (cache, pd)
      | none =>
        let pd := (Spec.listDir g v.after loc).toOption
        (cache.insert (key loc) pd, pd)
    match pd with
    | none => (cache, [s!"C08 foreign-entry-changed op={c.op} entry '{p}': its directory no longer decodes"])
    | some pd =>
      match pd.entries.find? fun m => m.shortRaw == e.short with
      | none => (cache, [s!"C08 foreign-entry-changed op={c.op} entry '{p}' is gone"])
      | some m =>
        match entDiff e m with
        | some d => (cache, [s!"C08 foreign-entry-changed op={c.op} entry '{p}' {d}"])
        | none =>
          let chain := (gr.chains[e.first]?).getD #[]
          let touchedData := chain.any fun k => written.contains k
          let m1 := if touchedData then
              match contentHashDiff g v.after e m with
              | some d => [s!"C08 foreign-entry-changed op={c.op} entry '{p}' {d}"]
              | none => []
            else []
          let m2 := if wroteFat && m1.isEmpty then
              match chain.find? fun k => fatEntryRaw g v.before act k != fatEntryRaw g v.after act k with
              | some k => [s!"C08 foreign-chain-changed op={c.op} object '{p}' FAT entry {k}: before {fatEntryRaw g v.before act k} after {fatEntryRaw g v.after act k}"]
              | none => []
            else []
          (cache, m1 ++ m2)) (({} : Std.HashMap Nat (Option ParsedDir)), [])
  inactive ++ msgs

/-- state changes of the ground-truth tracking and the C08 messages -/
def oC08 (st st' : OState) (v : OpView) (c : Ctx) : OState × List String :=
  -- new ground truth (the `G` lines follow the `R` line of the `raw` op, so they are seen at the next operation)
  let fresh := v.ground.length != st.ground.lines
  let st := if fresh then { st with groundMounted := false, mutatedHist := false, tainted := [], taintedExact := [],
                                    lastChecked := false } else st
  let st' := if fresh then
      let gr := parseGround v.ground
      let ents := match st'.geom with | some g => gr.entries g | none => #[]
      { st' with ground := gr, groundEntries := ents, groundMounted := false, mutatedHist := false, tainted := [],
                 taintedExact := [], lastChecked := false }
    else st'
  if !groundActive st' || c.op == "raw" then (st', []) else
  match st'.geom with
  | none => (st', [])
  | some g =>
    let msgsRead := if v.prop == "C08" then oC08read st st'.ground v c g else []
    let wrote := !c.writes.isEmpty && !["format", "mount"].contains c.op
    let named := c.touched.map fun p => foldName c.upper (showPath p)
    let ancestors := c.touched.flatMap fun p =>
      (List.range p.length).map fun k => foldName c.upper (showPath (p.take k))
    let tainted := if wrote then (named ++ st.tainted).eraseDups else st.tainted
    -- this operation's own ancestors are exempt through `named`; they count as re-stamped from the next one on
    let msgsFrame := if v.prop == "C08" && wrote && st.mounted then
        oC08frame { st with ground := st'.ground, groundEntries := st'.groundEntries } v c g tainted st.taintedExact else []
    ({ st' with groundMounted := st.groundMounted || (c.op == "mount" && c.ok)
                mutatedHist := st.mutatedHist || wrote || isMutatingOp c.op, tainted := tainted
                taintedExact := if wrote then (ancestors ++ st.taintedExact).eraseDups else st.taintedExact },
     msgsRead ++ msgsFrame)

/-! ## C20 -/

def oC20 (st st' : OState) (v : OpView) (c : Ctx) : OState × List String :=
  match st'.geom with
  | none => (st', [])
  | some g =>
    if c.op == "raw" || c.op == "format" then (st', []) else
    let beyond := c.writes.filterMap fun (off, bs) =>
      if off + bs.length > g.volumeBytes then
        some s!"C20 write-beyond-volume op={c.op} off={off} len={bs.length} volume={g.volumeBytes}"
      else none
    let fileMsgs : List String × Bool :=
      match c.fh with
      | none => ([], false)
      | some fs0 =>
        -- the handle after the operation (its `ByteFile` already advanced)
        let fsNow := (c.args.head?.bind handleId).bind fun id => st'.files[id]?
        let bfNow := fsNow.bind (·.bf)
        if (c.op == "write" || c.op == "writeall") && c.ok then
          match fsNow.bind (·.firstCl) with
          | none => ([], false)
          | some first =>
            match chainOf g v.after first with
            | .error e => ([s!"C20 write-outside-chain op={c.op} file={showPath fs0.path} the chain from cluster {first} does not decode: {e}"], false)
            | .ok chain =>
              let inChain : Std.HashSet Nat := chain.foldl (fun s k => s.insert k) {}
              let outside := c.writes.findSome? fun (off, bs) => (classify g off bs.length).findSome? fun (r, o, l) =>
                match r with
                | .cluster k => if inChain.contains k then none else some (k, o, l)
                | _ => none
              -- all transferred bytes must have gone into clusters of the chain
              let transferred := if c.op == "write" then (v.io.res.getD 1 "0").toNat?.getD 0 else payloadLen (c.args.getD 1 "-")
              let inChainBytes := c.writes.foldl (fun n (off, bs) =>
                n + ((classify g off bs.length).foldl (fun k (r, _, l) =>
                  match r with | .cluster q => if inChain.contains q then k + l else k | _ => k) 0)) 0
              let m1 := match outside with
                | some (k, o, l) => [s!"C20 write-outside-chain op={c.op} file={showPath fs0.path} off={o} len={l} cluster {k} is not in the file's chain {chain.toList.take 8}"]
                | none =>
                  if inChainBytes != transferred then
                    [s!"C20 write-outside-chain op={c.op} file={showPath fs0.path} {transferred} bytes were written, {inChainBytes} of them into the file's chain {chain.toList.take 8}"]
                  else []
              -- data in clusters at or beyond a byte mark sits where the 64-bit offset formula says
              let mark := st.ground.marks.foldl (fun m (_, k) => min m k) (g.totalClusters + 2)
              let m2 := match bfNow with
                | some b =>
                  let cs := g.clusterSize
                  (List.range chain.size).findSome? fun i =>
                    let k := chain[i]!
                    if k < mark then none else
                    let want := (b.content.drop (i * cs)).take cs
                    let got := bytesOfBA (readBytes v.after (g.clusterOff k) want.length)
                    if got == want then none else
                    some s!"C20 wrong-offset op={c.op} file={showPath fs0.path} cluster {k} (index {i} of the chain): the bytes at device offset {g.clusterOff k} are not the file's bytes {i * cs}…"
                | none => none
              -- the last cluster of the volume is used when the allocation hint points at it
              let m3 :=
                if st.lastChecked || chain.size < 2 then ([], false) else
                match st.ground.last with
                | some (lastC, true) =>
                  if st.ground.hintKind == "last" || st.ground.hintKind == "last-1" then
                    if fatEntry g v.after lastC == .free then
                      ([s!"C20 last-cluster-unused op={c.op} hint={st.ground.hintKind} cluster {lastC} is still free after an allocation of {chain.size} clusters: {chain.toList.take 8}"], true)
                    else ([], true)
                  else ([], true)
                | _ => ([], true)
              (m1 ++ m2.toList ++ m3.1, m3.2)
        else if c.op == "extents" && c.ok then
          match fs0.bf with
          | none => ([], false)
          | some b =>
            let tok := v.io.res.getD 1 "-"
            let ranges := if tok == "-" then [] else (tok.splitOn ",").filterMap fun r =>
              match r.splitOn ":" with
              | [o, l] => (match o.toNat?, l.toNat? with | some o, some l => some (o, l) | _, _ => none)
              | _ => none
            let bytes := ranges.foldl (fun acc (o, l) => acc ++ readBytes v.after o l) ByteArray.empty
            if bytesOfBA bytes == b.content then ([], false)
            else ([s!"C20 extents-content file={showPath fs0.path} extents={tok} give {bytes.size} bytes, the written content has {b.content.length}"], false)
        else ([], false)
    ({ st' with lastChecked := st.lastChecked || fileMsgs.2 }, beyond ++ fileMsgs.1)

/-! ## The oracle -/

def stepO (st : OState) (v : OpView) : OState × List String :=
  let res := v.io.res
  if res == ["bad-script"] || res == ["dead"] then ({ st with opCount := st.opCount + 1 }, []) else
  let c := mkCtx st v
  let st' := { update st v c with prevOverlay := v.overlay }
  match v.prop with
  | "C03" =>
    let (pm, pc, stale, msgs) := runFsck st st' v c false
    ({ st' with prevMsgs := pm, prevClean := pc, fsckStale := stale }, msgs)
  | "C16" =>
    let (pm, pc, stale, msgs) := runFsck st st' v c false
    ({ st' with prevMsgs := pm, prevClean := pc, fsckStale := stale }, msgs)
  | "C10" =>
    let (pm, pc, stale, msgs) := runFsck st st' v c true
    ({ st' with prevMsgs := pm, prevClean := pc, fsckStale := stale }, msgs ++ oC10 v c)
  | "C01" =>
    let (t, msgs) := oC01 st st' v c
    let skipped := st'.mounted && v.overlay.isNone && !st'.files.isEmpty
    -- the slot-tree model beside the implementation (correspondence check of `Model/SlotTree.lean`)
    let (sl, smsgs, _) := SlotTreeOracle.step st.slot
      { op := c.op, args := c.args, res := v.io.res, rows := v.io.rows, fault := v.io.fault.isSome,
        mounted := st.mounted && st'.mounted, geom := st'.geom, before := v.before, after := v.after,
        upper := c.upper, dirOf := dirOf st }
    ({ st' with tree := t, slot := sl, treeStale := skipped && (st.treeStale || !c.writes.isEmpty) }, msgs ++ smsgs)
  | "C02" => oC02 st st' v c
  | "C08" =>
    let (pm, pc, stale, fmsgs) := runFsck st st' v c false
    let (st2, msgs) := oC08 st { st' with prevMsgs := pm, prevClean := pc, fsckStale := stale } v c
    (st2, msgs ++ fmsgs)
  | "C20" =>
    let (pm, pc, stale, fmsgs) := runFsck st st' v c false
    let (st2, cmsgs) := oC02 st { st' with prevMsgs := pm, prevClean := pc, fsckStale := stale } v c
    let (st3, _) := oC08 st st2 v c
    let (st4, msgs) := oC20 st st3 v c
    -- what was written must be what the image holds after a flush
    let cmsgs := cmsgs.filterMap fun m =>
      match m.splitOn " " with
      | _ :: sig :: rest =>
        -- … and what is read back (files are read from the correct device offsets)
        if ["flush", "dropf", "read", "readx", "readall"].contains c.op then
          some s!"C20 content-mismatch ({sig}) {" ".intercalate rest}" else none
      | _ => none
    (st4, msgs ++ cmsgs ++ fmsgs)
  | "C04" => ({ st' with tree := none }, oC04 st' v c)
  | "C06" => ({ st' with tree := none }, oC06 v c)
  | "C05" => ({ st' with tree := none }, oC05 st v c)
  | "C09" => ({ st' with tree := none }, oC09 v c)
  | "C11" => ({ st' with tree := none }, oC11 st v c)
  | "C12" => ({ st' with tree := none }, oC12 st v c)
  | "C13" => ({ st' with tree := none }, oC13 st st' v c)
  | "C14" =>
    -- the byte-array specification of every tracked handle (C02's bookkeeping) tells what a flush must make durable
    let (st2, m2) := oC02 st st' v c
    let isFlush := (c.op == "flush" || c.op == "dropf") && c.ok
    let flushMsgs := if !isFlush then [] else m2.filterMap fun m =>
      match m.splitOn " " with
      | _ :: sig :: rest =>
        if sig == "write-count" || sig == "truncate-content" then
          some s!"C14 flush-not-persisted ({sig}) {" ".intercalate rest}" else none
      | _ => none
    let erase (d : List (List String × List Nat)) (p : List String) := d.filter fun (q, _) => !samePath c.upper q p
    let durable :=
      if c.op == "format" then []
      else match c.fh with
        | some fs =>
          if isFlush then
            match fs.bf, flushMsgs.isEmpty with
            | some b, true => (fs.path, b.content) :: erase st.durable fs.path
            | _, _ => erase st.durable fs.path
          else if ["write", "writeall", "truncate"].contains c.op then erase st.durable fs.path
          else st.durable
        | none =>
          if c.op == "remove" || c.op == "rename" then c.primary.foldl erase st.durable else st.durable
    let st3 := { st2 with durable := durable, tree := none }
    (st3, flushMsgs ++ oC14 st3 v c)
  | "C18" =>
    let (msgs, listed, fa) := oC18 st v c
    let st' := match listed with
      | some dp => { st' with expects := st'.expects.filter fun e => e.path.dropLast != dp }
      | none => st'
    match fa with
    | some f => ({ st' with metaAt := st'.opCount, metaFlat := f }, msgs)
    | none => (st', msgs)
  | _ => ({ st' with tree := none }, [])

def stepGuard (st : OState) (v : OpView) : OState × List String :=
  let (st', msgs) := stepO st v
  let isOk := v.io.res.headD "" == "ok"
  let ab := if v.io.text.startsWith "format" && isOk then false
            else st.abandoned || (v.io.text.startsWith "forget" && isOk)
  let crashTolerant := ["C12", "C09", "C13", "C14"].contains v.prop
  ({ st' with abandoned := ab }, if ab && !crashTolerant then [] else msgs)

def oracle : HistMain.OracleDef OState where
  init := fun _ => {}
  step := stepGuard

end FatVerif.Oracles
