import FatVerif.Model.HistMain
/-! Property oracles evaluated on the implementation's own behaviour (history mode). -/
namespace FatVerif.Oracles

def oracle : HistMain.Oracle := fun _prop _hdr _io _before _after => []

end FatVerif.Oracles
