import FatVerif.Model.HistMain
/-! Property oracles evaluated on the implementation's own behaviour (history mode). -/
namespace FatVerif.Oracles

def oracle : HistMain.OracleDef Unit where
  init := fun _ => ()
  step := fun s _ => (s, [])

end FatVerif.Oracles
