import FatVerif.Model.DirSlots
/-!
# The directory-level alias choice (`check_for_existence` + `find_entry`, pure part)

`Names.generateLoop` feeds the generator an explicit population.  The library feeds it from a directory scan:
`check_for_existence(name, is_dir)` runs `find_entry(name, is_dir, Some(&mut gen))` — which walks `self.iter()`,
returns at the FIRST entry whose long name or alias matches the query (with the kind check), and calls
`gen.add_existing(raw_short_name)` only for the entries scanned BEFORE a match — then, on `NotFound`, tries `generate`; since the repair of F23 (commit 4df4d32) the candidate is used only if
`find_entry(display form of the candidate, None, None)` is `NotFound`, otherwise it is fed to `add_existing` and the
loop continues; when `generate` fails, `next_iteration` and scan again (`exact_match` is never reset between rounds).

This file mirrors that on the LISTING (`DirSlots.listing slots = readDirEntries true true slots`) of a slot list; the
effectful, call-exact transliteration is `DirOps.findEntryLoop` / `findEntryG` / `checkForExistenceLoop` /
`checkForExistence` (same branches, same order; `e.data.name` there = `sfnName e.sfn` here).
-/
namespace FatVerif
namespace DirAlias
open Lfn DirSlots

/-- `DirEntryOrShortName` -/
inductive EntryOrAlias where
  | entry (e : LfnEntry)
  | alias (a : List Nat)
  deriving DecidableEq, Repr

/-- results are compared in `decide` examples -/
instance decEqExcept {ε α : Type} [DecidableEq ε] [DecidableEq α] : DecidableEq (Except ε α)
  | .ok a, .ok b => if h : a = b then isTrue (by rw [h]) else isFalse (fun h' => by cases h'; exact h rfl)
  | .error a, .error b => if h : a = b then isTrue (by rw [h]) else isFalse (fun h' => by cases h'; exact h rfl)
  | .ok _, .error _ => isFalse (fun h => by cases h)
  | .error _, .ok _ => isFalse (fun h => by cases h)

/-- the `for r in self.iter()` loop of `find_entry(name, is_dir, Some(gen))` over the listed entries:
    the lookup outcome and the generator as the scan left it -/
def scan (upper : Char → List Char) (name : List Char) (isDir : Option Bool) :
    List LfnEntry → Names.Gen → Except Err LfnEntry × Names.Gen
  | [], g => (.error .notFound, g)
  | e :: es, g =>
    if matchesName upper e name then
      if isDir.isSome && some (Lfn.isDir e.sfn) != isDir then (.error .invalidInput, g) else (.ok e, g)
    else scan upper name isDir es (Names.addExisting g (sfnName e.sfn))

/-- `find_entry(candidate_str, None, None)`: no kind filter, no generator -/
def lookupNoGen (upper : Char → List Char) (entries : List LfnEntry) (q : List Char) : Option LfnEntry :=
  entries.find? fun e => matchesName upper e q

/-- the display bytes of a candidate are valid UTF-8 (`str::from_utf8(candidate.as_bytes())` succeeds): always the
    case for a generated alias, whose bytes are ASCII (`Names.generate` never returns anything else:
    `DirAlias.displayAscii_of_legal`); mirrors the guard of `DirOps.checkForExistenceLoop` -/
def displayAscii (a : List Nat) : Bool := (Names.shortDisplay a).all (· < 128)

/-- the `loop { … }` of `check_for_existence` (after the repair of F23); `.error .hang` = `fuel` rounds were not enough.
    Every round: scan for the name (feeding the generator); on `NotFound` try `generate`; a candidate whose display
    form is answered by a listed entry (long name or alias, ignoring case) is fed back to `add_existing` and the loop
    `continue`s (rescan, next candidate); when `generate` fails, `next_iteration`. -/
def loop (upper : Char → List Char) (entries : List LfnEntry) (name : List Char) (isDir : Option Bool) :
    Nat → Names.Gen → Except Err EntryOrAlias
  | 0, _ => .error .hang
  | fuel + 1, g =>
    match scan upper name isDir entries g with
    | (.ok e, _) => .ok (.entry e)
    | (.error .notFound, g') =>
      match Names.generate g' with
      | .ok a =>
        if displayAscii a then
          match lookupNoGen upper entries (Names.aliasDisplay a) with
          | none => .ok (.alias a)
          | some _ => loop upper entries name isDir fuel (Names.addExisting g' a)
        else .ok (.alias a)
      | .error _ => loop upper entries name isDir fuel (Names.nextIteration g')
    | (.error e, _) => .error e

/-- `check_for_existence(name, is_dir)` on the directory whose slots are `slots` -/
def checkForExistenceL (upper : Char → List Char) (slots : List (List Nat)) (name : String) (isDir : Option Bool)
    (fuel : Nat) : Except Err EntryOrAlias :=
  match Names.new name with
  | .error e => .error e
  | .ok g => loop upper (listing slots) name.toList isDir fuel g

/-- the raw short names of the listed entries: the population every round feeds when nothing matches -/
def population (slots : List (List Nat)) : List (List Nat) := (listing slots).map fun e => sfnName e.sfn

/-- a short slot carrying the raw name `a` and the given 21 body bytes (attributes … size) -/
def sfnWith (a body : List Nat) : List Nat := a ++ body

end DirAlias
end FatVerif
