import FatVerif.Model.Io
/-! `table.rs` over an arbitrary stream holding one (possibly mirrored) FAT: `get/set/find_free/count_free`,
    `alloc_cluster`, `ClusterIterator {next, free, truncate}` with its error latch, `read_fat_flags`, `format_fat`.
    Same device calls in the same order as the Rust. -/
namespace FatVerif

namespace Table

variable {σ : Type}

/-- `FatTrait::get_raw` -/
def getRaw (S : Strm σ) (ft : FatType) (s : σ) (c : Nat) : Prog (Nat × σ) :=
  match ft with
  | .fat12 => do
    let (_, s) ← S.seek s (.start (c + c / 2))
    let (packed, s) ← readU16 S s
    pure (if c % 2 = 0 then packed % 4096 else packed / 16, s)
  | .fat16 => do
    let (_, s) ← S.seek s (.start (c * 2))
    readU16 S s
  | .fat32 => do
    let (_, s) ← S.seek s (.start (c * 4))
    readU32 S s

def isSpecial32 (c : Nat) : Bool := 0x0FFFFFF7 ≤ c && c ≤ 0x0FFFFFFF

/-- classification of a raw entry (`FatTrait::get`) -/
def classify (ft : FatType) (c raw : Nat) : FatValue :=
  match ft with
  | .fat12 =>
    if raw = 0 then .free else if raw = 0xFF7 then .bad else if 0xFF8 ≤ raw ∧ raw ≤ 0xFFF then .eoc else .data raw
  | .fat16 =>
    if raw = 0 then .free else if raw = 0xFFF7 then .bad else if 0xFFF8 ≤ raw ∧ raw ≤ 0xFFFF then .eoc
    else .data raw
  | .fat32 =>
    let v := raw % 0x10000000
    if v = 0 then (if isSpecial32 c then .bad else .free)
    else if v = 0x0FFFFFF7 then .bad
    else if 0x0FFFFFF8 ≤ v then .eoc
    else if isSpecial32 c then .bad
    else .data v

def get (S : Strm σ) (ft : FatType) (s : σ) (c : Nat) : Prog (FatValue × σ) := do
  let (raw, s) ← getRaw S ft s c
  pure (classify ft c raw, s)

def rawOfValue (ft : FatType) : FatValue → Nat
  | .free => 0
  | .bad => match ft with | .fat12 => 0xFF7 | .fat16 => 0xFFF7 | .fat32 => 0x0FFFFFF7
  | .eoc => match ft with | .fat12 => 0xFFF | .fat16 => 0xFFFF | .fat32 => 0x0FFFFFFF
  | .data n => n

/-- `FatTrait::set` (`write_fat`) -/
def set (S : Strm σ) (ft : FatType) (s : σ) (c : Nat) (v : FatValue) : Prog σ :=
  match ft with
  | .fat12 => do
    let raw := rawOfValue ft v
    let off := c + c / 2
    let (_, s) ← S.seek s (.start off)
    let (old, s) ← readU16 S s
    let (_, s) ← S.seek s (.start off)
    -- `raw_val as u16`, `<< 4` in u16
    let r16 := raw % 65536
    let packed := if c % 2 = 0 then (old / 4096 * 4096) ||| r16 else (old % 16) ||| (r16 * 16 % 65536)
    writeU16 S s packed
  | .fat16 => do
    let raw := rawOfValue ft v
    let (_, s) ← S.seek s (.start (c * 2))
    writeU16 S s (raw % 65536)
  | .fat32 => do
    let (old, s) ← getRaw S ft s c
    let oldReserved := old / 0x10000000 * 0x10000000
    if v = .free ∧ isSpecial32 c then .fail .panic
    else do
      let raw := rawOfValue ft v ||| oldReserved
      let (_, s) ← S.seek s (.start (c * 4))
      writeU32 S s raw

/-- FAT12 `find_free` inner loop: `packed` is the 16-bit window at the current cluster -/
def findFree12Loop (S : Strm σ) : Nat → σ → Nat → Nat → Nat → Prog (Nat × σ)
  | 0, _, _, _, _ => .fail .hang
  | fuel + 1, s, c, endC, packed =>
    let v := if c % 2 = 0 then packed % 4096 else packed / 16
    if v = 0 then pure (c, s)
    else
      let c := c + 1
      if c = endC then .fail .noSpace
      else if c % 2 = 0 then do
        let (p, s) ← readU16 S s
        findFree12Loop S fuel s c endC p
      else do
        let (b, s) ← readU8 S s
        findFree12Loop S fuel s c endC (packed / 256 ||| b * 256)

def findFreeLoop (S : Strm σ) (ft : FatType) : Nat → σ → Nat → Nat → Prog (Nat × σ)
  | 0, _, _, _ => .fail .hang
  | fuel + 1, s, c, endC =>
    if c < endC then do
      let (v, s) ← (if ft = .fat16 then readU16 S s else do
        let (r, s) ← readU32 S s
        pure (r % 0x10000000, s))
      if v = 0 then pure (c, s) else findFreeLoop S ft fuel s (c + 1) endC
    else .fail .noSpace

/-- `find_free_cluster` -/
def findFree (S : Strm σ) (ft : FatType) (s : σ) (start endC : Nat) : Prog (Nat × σ) :=
  match ft with
  | .fat12 =>
    if start ≥ endC then .fail .noSpace
    else do
      let (_, s) ← S.seek s (.start (start + start / 2))
      let (packed, s) ← readU16 S s
      findFree12Loop S (endC - start + 2) s start endC packed
  | .fat16 => do
    let (_, s) ← S.seek s (.start (start * 2))
    findFreeLoop S ft (endC - start + 2) s start endC
  | .fat32 => do
    let (_, s) ← S.seek s (.start (start * 4))
    findFreeLoop S ft (endC - start + 2) s start endC

def countFree12Loop (S : Strm σ) : Nat → σ → Nat → Nat → Nat → Nat → Prog (Nat × σ)
  | 0, _, _, _, _, _ => .fail .hang
  | fuel + 1, s, c, endC, prev, count =>
    if c < endC then do
      let (packed, s) ← (if c % 2 = 0 then readU16 S s else readU8 S s)
      -- odd: `(packed_val << 8) | (prev_packed_val >> 12)` in u16
      let v := if c % 2 = 0 then packed % 4096 else (packed * 256 % 65536) ||| (prev / 4096)
      countFree12Loop S fuel s (c + 1) endC packed (if v = 0 then count + 1 else count)
    else pure (count, s)

def countFreeLoop (S : Strm σ) (ft : FatType) : Nat → σ → Nat → Nat → Nat → Prog (Nat × σ)
  | 0, _, _, _, _ => .fail .hang
  | fuel + 1, s, c, endC, count =>
    if c < endC then do
      let (v, s) ← (if ft = .fat16 then readU16 S s else do
        let (r, s) ← readU32 S s
        pure (r % 0x10000000, s))
      countFreeLoop S ft fuel s (c + 1) endC (if v = 0 then count + 1 else count)
    else pure (count, s)

/-- `count_free_clusters` -/
def countFree (S : Strm σ) (ft : FatType) (s : σ) (total : Nat) : Prog (Nat × σ) :=
  let endC := total + 2
  match ft with
  | .fat12 => do
    let (_, s) ← S.seek s (.start 3)
    countFree12Loop S (total + 2) s 2 endC 0 0
  | .fat16 => do
    let (_, s) ← S.seek s (.start 4)
    countFreeLoop S ft (total + 2) s 2 endC 0
  | .fat32 => do
    let (_, s) ← S.seek s (.start 8)
    countFreeLoop S ft (total + 2) s 2 endC 0

/-- `alloc_cluster`: next-fit from the hint, one retry from the start after `NotEnoughSpace`
    (`Err(Error::NotEnoughSpace) if start_cluster > RESERVED_FAT_ENTRIES`); every other error is propagated. -/
def allocCluster (S : Strm σ) (ft : FatType) (s : σ) (prev hint : Option Nat) (total : Nat) : Prog (Nat × σ) := do
  let endC := total + 2
  let start := match hint with
    | some n => if n < endC then n else 2
    | none => 2
  let (newC, s) ← Prog.tryCatch (findFree S ft s start endC) (fun e =>
    match e with
    | .noSpace => if start > 2 then findFree S ft s 2 start else .fail .noSpace
    | e => .fail e)
  let s ← set S ft s newC .eoc
  let s ← (match prev with
    | some n => set S ft s n (.data newC)
    | none => pure s)
  pure (newC, s)

/-- `ClusterIterator` state -/
structure CIter (σ : Type) where
  fat : σ
  cluster : Option Nat
  err : Bool := false

/-- `ClusterIterator::next`: `none` = iterator exhausted. An error item `Some(Err(e))` is raised: every caller in the
    library returns it at once (`r?`, `Some(Err(err)) => return Err(err)`), so the `err` latch of the Rust iterator is
    never consulted again on those paths. -/
def CIter.next (S : Strm σ) (ft : FatType) (it : CIter σ) : Prog (Option (Except Err Nat) × CIter σ) :=
  if it.err then pure (none, it)
  else match it.cluster with
    | none => pure (none, it)
    | some cur => do
      let (v, fat) ← get S ft it.fat cur
      let nxt := match v with | .data n => some n | _ => none
      pure (nxt.map Except.ok, { it with fat := fat, cluster := nxt })

/-- `ClusterIterator::free`: an error item of `next()` is returned -/
def CIter.freeLoop (S : Strm σ) (ft : FatType) : Nat → CIter σ → Nat → Prog (Nat × CIter σ)
  | 0, _, _ => .fail .hang
  | fuel + 1, it, num =>
    match it.cluster with
    | none => pure (num, it)
    | some n => do
      let (r, it) ← CIter.next S ft it
      match r with
      | some (.error e) => .fail e
      | _ => do
        let fat ← set S ft it.fat n .free
        CIter.freeLoop S ft fuel { it with fat := fat } (num + 1)

def CIter.free (S : Strm σ) (ft : FatType) (fuel : Nat) (it : CIter σ) : Prog (Nat × CIter σ) :=
  CIter.freeLoop S ft fuel it 0

/-- `ClusterIterator::truncate` -/
def CIter.truncate (S : Strm σ) (ft : FatType) (fuel : Nat) (it : CIter σ) : Prog (Nat × CIter σ) :=
  match it.cluster with
  | none => pure (0, it)
  | some n => do
    let (r, it) ← CIter.next S ft it
    match r with
    | some (.error e) => .fail e
    | _ => do
      let fat ← set S ft it.fat n .eoc
      CIter.free S ft fuel { it with fat := fat }

/-- `read_fat_flags` -/
def readFatFlags (S : Strm σ) (ft : FatType) (s : σ) : Prog ((Bool × Bool) × σ) :=
  match ft with
  | .fat12 => pure ((false, false), s)
  | .fat16 => do
    let (v, s) ← getRaw S ft s 1
    pure ((v / 32768 % 2 = 0, v / 16384 % 2 = 0), s)
  | .fat32 => do
    let (v, s) ← getRaw S ft s 1
    pure ((v / 134217728 % 2 = 0, v / 67108864 % 2 = 0), s)

def setRange (S : Strm σ) (ft : FatType) (v : FatValue) : Nat → σ → Nat → Prog σ
  | 0, s, _ => pure s
  | k + 1, s, c => do
    let s ← set S ft s c v
    setRange S ft v k s (c + 1)

/-- `format_fat` -/
def formatFat (S : Strm σ) (ft : FatType) (s : σ) (media bytesPerFat total : Nat) : Prog σ := do
  let s ← (match ft with
    | .fat12 => do
      let s ← writeU8 S s media
      writeU16 S s 0xFFFF
    | .fat16 => do
      let s ← writeU16 S s (media ||| 0xFF00)
      writeU16 S s 0xFFFF
    | .fat32 => do
      let s ← writeU32 S s (media ||| 0x0FFFFF00)
      writeU32 S s 0xFFFFFFFF)
  let startC := total + 2
  let endC := (bytesPerFat * 8 / ft.bits) % 4294967296
  let s ← setRange S ft .eoc (endC - startC) s startC
  if endC > 0x0FFFFFF0 then
    let endBad := min 0x10000000 endC
    setRange S ft .bad (endBad - 0x0FFFFFF0) s 0x0FFFFFF0
  else pure s

end Table
end FatVerif
