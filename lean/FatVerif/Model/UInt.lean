import FatVerif.Model.Basic
/-! Checked machine-integer helpers over `Nat`.

The harness builds the library with overflow checks ON: `+ - * / %` on `u8/u16/u32/u64` PANIC on
overflow, underflow and division by zero.  Here a machine integer is a `Nat` known (by the caller) to be in range;
every operation returns `.error .panic` exactly when the Rust operation would panic.
Literal bounds (not `2^32`) are used so that `omega`/`simp` see numerals. -/
namespace FatVerif

def U8_LIM : Nat := 256
def U16_LIM : Nat := 65536
def U32_LIM : Nat := 4294967296
def U64_LIM : Nat := 18446744073709551616

/-- checked `a + b` in an unsigned type with `lim` values -/
def ckAdd (lim a b : Nat) : Except Err Nat :=
  if a + b < lim then .ok (a + b) else .error .panic

/-- checked `a - b` (underflow panics) -/
def ckSub (a b : Nat) : Except Err Nat :=
  if b ≤ a then .ok (a - b) else .error .panic

/-- checked `a * b` -/
def ckMul (lim a b : Nat) : Except Err Nat :=
  if a * b < lim then .ok (a * b) else .error .panic

/-- checked `a / b` (division by zero panics) -/
def ckDiv (a b : Nat) : Except Err Nat :=
  if b = 0 then .error .panic else .ok (a / b)

/-- checked `a % b` (division by zero panics) -/
def ckRem (a b : Nat) : Except Err Nat :=
  if b = 0 then .error .panic else .ok (a % b)

def u8Add (a b : Nat) : Except Err Nat := if a + b < 256 then .ok (a + b) else .error .panic
def u8Sub (a b : Nat) : Except Err Nat := ckSub a b
def u8Mul (a b : Nat) : Except Err Nat := if a * b < 256 then .ok (a * b) else .error .panic
def u8Div (a b : Nat) : Except Err Nat := ckDiv a b
def u8Rem (a b : Nat) : Except Err Nat := ckRem a b

def u16Add (a b : Nat) : Except Err Nat := if a + b < 65536 then .ok (a + b) else .error .panic
def u16Sub (a b : Nat) : Except Err Nat := ckSub a b
def u16Mul (a b : Nat) : Except Err Nat := if a * b < 65536 then .ok (a * b) else .error .panic
def u16Div (a b : Nat) : Except Err Nat := ckDiv a b
def u16Rem (a b : Nat) : Except Err Nat := ckRem a b

def u32Add (a b : Nat) : Except Err Nat := if a + b < 4294967296 then .ok (a + b) else .error .panic
def u32Sub (a b : Nat) : Except Err Nat := if b ≤ a then .ok (a - b) else .error .panic
def u32Mul (a b : Nat) : Except Err Nat := if a * b < 4294967296 then .ok (a * b) else .error .panic
def u32Div (a b : Nat) : Except Err Nat := if b = 0 then .error .panic else .ok (a / b)
def u32Rem (a b : Nat) : Except Err Nat := if b = 0 then .error .panic else .ok (a % b)

def u64Add (a b : Nat) : Except Err Nat :=
  if a + b < 18446744073709551616 then .ok (a + b) else .error .panic
def u64Sub (a b : Nat) : Except Err Nat := if b ≤ a then .ok (a - b) else .error .panic
def u64Mul (a b : Nat) : Except Err Nat :=
  if a * b < 18446744073709551616 then .ok (a * b) else .error .panic
def u64Div (a b : Nat) : Except Err Nat := if b = 0 then .error .panic else .ok (a / b)
def u64Rem (a b : Nat) : Except Err Nat := if b = 0 then .error .panic else .ok (a % b)

/-! wrapping variants (`wrapping_add` …) and `as` casts (truncation) -/
def u8WrapAdd (a b : Nat) : Nat := (a + b) % 256
def u8WrapSub (a b : Nat) : Nat := (a + 256 - b % 256) % 256
def u8WrapMul (a b : Nat) : Nat := (a * b) % 256
def u16WrapAdd (a b : Nat) : Nat := (a + b) % 65536
def u16WrapSub (a b : Nat) : Nat := (a + 65536 - b % 65536) % 65536
def u16WrapMul (a b : Nat) : Nat := (a * b) % 65536
def u32WrapAdd (a b : Nat) : Nat := (a + b) % 4294967296
def u32WrapSub (a b : Nat) : Nat := (a + 4294967296 - b % 4294967296) % 4294967296
def u32WrapMul (a b : Nat) : Nat := (a * b) % 4294967296
def u64WrapAdd (a b : Nat) : Nat := (a + b) % 18446744073709551616
def u64WrapSub (a b : Nat) : Nat := (a + 18446744073709551616 - b % 18446744073709551616) % 18446744073709551616
def u64WrapMul (a b : Nat) : Nat := (a * b) % 18446744073709551616

def asU8 (a : Nat) : Nat := a % 256
def asU16 (a : Nat) : Nat := a % 65536
def asU32 (a : Nat) : Nat := a % 4294967296
def asU64 (a : Nat) : Nat := a % 18446744073709551616

/-- all powers of two representable in a `u64` -/
def pow2s : List Nat :=
  [1, 2, 4, 8, 16, 32, 64, 128, 256, 512, 1024, 2048, 4096, 8192, 16384, 32768, 65536, 131072, 262144,
   524288, 1048576, 2097152, 4194304, 8388608, 16777216, 33554432, 67108864, 134217728, 268435456,
   536870912, 1073741824, 2147483648, 4294967296, 8589934592, 17179869184, 34359738368, 68719476736,
   137438953472, 274877906944, 549755813888, 1099511627776, 2199023255552, 4398046511104, 8796093022208,
   17592186044416, 35184372088832, 70368744177664, 140737488355328, 281474976710656, 562949953421312,
   1125899906842624, 2251799813685248, 4503599627370496, 9007199254740992, 18014398509481984,
   36028797018963968, 72057594037927936, 144115188075855872, 288230376151711744, 576460752303423488,
   1152921504606846976, 2305843009213693952, 4611686018427387904, 9223372036854775808]

/-- `uN::is_power_of_two` for any `N ≤ 64` (false for 0) -/
def isPowerOfTwo (n : Nat) : Bool := pow2s.contains n

/-- `uN::next_power_of_two`: the smallest power of two `≥ n` (1 for 0). In Rust the call panics (debug) when the
    result does not fit the type; callers check the result against their own limit. `0` when there is none ≤ 2^63. -/
def nextPowerOfTwo (n : Nat) : Nat := (pow2s.find? (fun p => n ≤ p)).getD 0

/-- floor of the binary logarithm (`uN::ilog2`, or `31 - leading_zeros`); 0 for 0 -/
def log2 (n : Nat) : Nat := Nat.log2 n

/-- `trailing_zeros` of a non-zero value (= `log2` for a power of two) -/
def trailingZeros (n : Nat) : Nat := ((List.range 64).find? (fun k => n / 2 ^ k % 2 = 1)).getD 64

end FatVerif
