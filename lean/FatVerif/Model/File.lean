import FatVerif.Model.Slice
import FatVerif.Model.Table
import FatVerif.Model.DirEntry
/-! `file.rs` + the cluster helpers of `fs.rs` (`cluster_iter`, `alloc_cluster`, `free/truncate_cluster_chain`):
    the `File` handle as a state machine over the device. -/
namespace FatVerif

/-! ### clock -/

/-- clock counter (ms since 2020-02-02 00:00:00.000) → `DateTime`; mirrors /verif/harness/src/clock.rs -/
def clockEpochStart : Nat := 45296780   -- 12:34:56.780

def clockDate (ms : Nat) : Date :=
  let d := 1 + ms / 86400000
  let m := 1 + d / 28
  ⟨min 2107 (2020 + m / 12), m % 12 + 1, d % 28 + 1⟩

def clockTime (ms : Nat) : Time :=
  let r := ms % 86400000
  ⟨r / 3600000, r / 60000 % 60, r / 1000 % 60, r % 1000⟩

def clockDateTime (ms : Nat) : DateTime := ⟨clockDate ms, clockTime ms⟩

/-! ### cluster helpers of `FileSystem` -/

/-- fuel for chain walks: no acyclic chain is longer than the FAT -/
def chainFuel (fs : FsState) : Nat := fs.totalClusters + 4

/-- `offset_from_cluster` with the u32 checks of the debug build (`cluster - 2` underflow, products) -/
def offsetFromClusterP (fs : FsState) (c : Nat) : Prog Nat :=
  if c < 2 then .fail .panic
  else if (c - 2) * fs.spc ≥ 4294967296 then .fail .panic
  else if fs.firstDataSector + (c - 2) * fs.spc ≥ 4294967296 then .fail .panic
  else pure ((fs.firstDataSector + (c - 2) * fs.spc) * fs.bps)

/-- `fs.cluster_iter(n).next()`: the next cluster of the chain, `none` at its end; an item `Err(e)` is re-raised
    (`Some(Err(err)) => return Err(err)`) -/
def nextCluster (c : Nat) : Prog (Option Nat) := do
  let fs ← Prog.getFs
  let it : Table.CIter DiskSlice := { fat := fatSliceOf fs, cluster := some c }
  let (r, _) ← Table.CIter.next DiskSlice.strm fs.fatType it
  match r with
  | none => pure none
  | some (.ok n) => pure (some n)
  | some (.error e) => .fail e

/-- `FsInfoSector::map_free_clusters` -/
def FsInfoSt.mapFree (i : FsInfoSt) (f : Nat → Nat) : FsInfoSt :=
  match i.free with
  | some n => { i with free := some (f n), dirty := true }
  | none => i

def truncateClusterChain (c : Nat) : Prog Unit := do
  let fs ← Prog.getFs
  let it : Table.CIter DiskSlice := { fat := fatSliceOf fs, cluster := some c }
  let (num, _) ← Table.CIter.truncate DiskSlice.strm fs.fatType (chainFuel fs) it
  Prog.modifyFs fun fs => { fs with fsInfo := fs.fsInfo.mapFree (· + num) }

def freeClusterChain (c : Nat) : Prog Unit := do
  let fs ← Prog.getFs
  let it : Table.CIter DiskSlice := { fat := fatSliceOf fs, cluster := some c }
  let (num, _) ← Table.CIter.free DiskSlice.strm fs.fatType (chainFuel fs) it
  Prog.modifyFs fun fs => { fs with fsInfo := fs.fsInfo.mapFree (· + num) }

/-- `FileSystem::alloc_cluster(prev, zero)`; `n - 1` on the cached count is a checked u32 subtraction -/
def allocClusterFs (prev : Option Nat) (zero : Bool) : Prog Nat := do
  let fs ← Prog.getFs
  let (c, _) ← Table.allocCluster DiskSlice.strm fs.fatType (fatSliceOf fs) prev fs.fsInfo.next fs.totalClusters
  if zero then do
    let off ← offsetFromClusterP fs c
    let _ ← Prog.seekStart off
    let _ ← writeZeros devStrm () fs.clusterSize
    pure ()
  let fs ← Prog.getFs
  match fs.fsInfo.free with
  | some 0 => .fail .panic
  | _ =>
    -- keep the hint inside the range of valid clusters
    let nextFree := if c + 1 < fs.totalClusters + 2 then c + 1 else 2
    Prog.setFs { fs with fsInfo := ({ fs.fsInfo with next := some nextFree, dirty := true }).mapFree (· - 1) }
    pure c

/-! ### `File` -/

structure FileH where
  firstCluster : Option Nat
  currentCluster : Option Nat := none
  offset : Nat := 0
  entry : Option DirEntryEditor
  deriving Repr, DecidableEq, Inhabited

namespace FileH

def new (first : Option Nat) (entry : Option DirEntryEditor) : FileH :=
  { firstCluster := first, entry := entry }

def size? (f : FileH) : Option Nat :=
  match f.entry with
  | some e => e.data.size?
  | none => none

def isDir (f : FileH) : Bool :=
  match f.entry with
  | some e => e.data.isDir
  | none => true

def isRootDir (f : FileH) : Bool := f.entry.isNone

/-- the 12 `write_all` chunks of `DirFileEntryData::serialize` -/
def entryChunkSizes : List Nat := [11, 1, 1, 1, 2, 2, 2, 2, 2, 2, 2, 4]

/-- `DirEntryEditor::flush` -/
def flushDirEntry (f : FileH) : Prog FileH :=
  match f.entry with
  | some e =>
    if e.dirty then do
      let _ ← Prog.seekStart e.pos
      let _ ← writeChunks devStrm () (chunksOf e.data.serialize entryChunkSizes)
      pure { f with entry := some { e with dirty := false } }
    else pure f
  | none => pure f

/-- `File::flush` -/
def flush (f : FileH) : Prog FileH := do
  let f ← flushDirEntry f
  Prog.flush
  pure f

/-- `impl Drop for File` -/
def drop (f : FileH) : Prog Unit :=
  Prog.inDrop (do let _ ← flush f; pure ())

/-- `File::abs_pos` -/
def absPos (fs : FsState) (f : FileH) : Prog (Option Nat) :=
  match f.currentCluster with
  | some n => do
    let cs := fs.clusterSize
    let m := f.offset % cs
    let inCluster := if m = 0 then cs else m
    let off ← offsetFromClusterP fs n
    pure (some (off + inCluster))
  | none => pure none

/-- the cluster an access at `offset` goes to when `offset` is on a cluster boundary -/
def boundaryCluster (f : FileH) : Prog (Option Nat) :=
  match f.currentCluster with
  | none => pure f.firstCluster
  | some n => nextCluster n

/-- `Read::read` for `File`: ONE call -/
def read (f : FileH) (n : Nat) : Prog (List Nat × FileH) := do
  let fs ← Prog.getFs
  let cs := fs.clusterSize
  let curOpt ← (if f.offset % cs = 0 then boundaryCluster f else pure f.currentCluster)
  match curOpt with
  | none => pure ([], f)
  | some cur =>
    let inCluster := f.offset % cs
    let leftInCluster := cs - inCluster
    -- `bytes_left_in_file`: `s - self.offset` is a checked u32 subtraction
    match (match f.size? with
           | some sz => if sz < f.offset then none else some (sz - f.offset)
           | none => some leftInCluster) with
    | none => .fail .panic
    | some leftInFile =>
      let readSize := min (min n leftInCluster) leftInFile
      if readSize = 0 then pure ([], f)
      else do
        let off ← offsetFromClusterP fs cur
        let _ ← Prog.seekStart (off + inCluster)
        let bs ← Prog.read readSize
        if bs.length = 0 then pure ([], f)
        else do
          let f := { f with offset := f.offset + bs.length, currentCluster := some cur }
          match f.entry with
          | some e =>
            if fs.accDate then do
              let t ← Prog.today
              pure (bs, { f with entry := some (e.setAccessed (clockDate t)) })
            else pure (bs, f)
          | none => pure (bs, f)

/-- `File::set_first_cluster` -/
def setFirstCluster (fs : FsState) (f : FileH) (c : Nat) : FileH :=
  { f with firstCluster := some c,
           entry := f.entry.map fun e => e.setFirstCluster (some c) fs.fatType }

/-- `update_dir_entry_after_write` -/
def updateAfterWrite (f : FileH) : Prog FileH :=
  match f.entry with
  | some e => do
    let t ← Prog.now
    let e := e.setModified (clockDateTime t)
    let e := match e.data.size? with
      | some s => if f.offset > s then e.setSize f.offset else e
      | none => e
    pure { f with entry := some e }
  | none => pure f

/-- `Write::write` for `File`: ONE call -/
def write (f : FileH) (buf : List Nat) : Prog (Nat × FileH) := do
  let fs ← Prog.getFs
  let cs := fs.clusterSize
  let inCluster := f.offset % cs
  let leftInCluster := cs - inCluster
  let leftToMax := 4294967295 - f.offset
  let writeSize := min (min buf.length leftInCluster) leftToMax
  if writeSize = 0 then pure (0, f)
  else do
    setDirtyFlag true
    let (cur, f) ← (if f.offset % cs = 0 then do
        let nxt ← boundaryCluster f
        match nxt with
        | some n => pure (n, f)
        | none => do
          let c ← allocClusterFs f.currentCluster f.isDir
          let f := if f.firstCluster.isNone then setFirstCluster fs f c else f
          pure (c, f)
      else
        match f.currentCluster with
        | some n => pure (n, f)
        | none => .fail .panic)
    let off ← offsetFromClusterP fs cur
    let _ ← Prog.seekStart (off + inCluster)
    let n ← Prog.write (buf.take writeSize)
    if n = 0 then pure (0, f)
    else do
      let f := { f with offset := f.offset + n, currentCluster := some cur }
      let f ← updateAfterWrite f
      pure (n, f)

def clustersFromBytes (fs : FsState) (bytes : Nat) : Nat :=
  ((bytes + fs.clusterSize - 1) / fs.clusterSize) % 4294967296

/-- the chain walk of `seek`: `for i in 0..clusters_to_skip` -/
def seekWalk (fs : FsState) : Nat → Table.CIter DiskSlice → Nat → Nat → Nat → Nat → Prog (Nat × Nat)
  | 0, _, cluster, _, _, newOff => pure (cluster, newOff)
  | k + 1, it, cluster, i, toSkip, newOff =>
    if i ≥ toSkip then pure (cluster, newOff)
    else do
      let (r, it) ← Table.CIter.next DiskSlice.strm fs.fatType it
      match r with
      | some (.ok c) => seekWalk fs k it c (i + 1) toSkip newOff
      | some (.error e) => .fail e
      | none => pure (cluster, ((i + 1) * fs.spc % 4294967296 * fs.bps) % 4294967296)

/-- `Seek::seek` for `File` -/
def seek (f : FileH) (p : SeekFrom) : Prog (Nat × FileH) := do
  let fs ← Prog.getFs
  let sizeOpt := f.size?
  let inU32 (t : Int) : Option Nat := if 0 ≤ t ∧ t < 4294967296 then some t.toNat else none
  let i64 (t : Int) : Option Int := if -9223372036854775808 ≤ t ∧ t ≤ 9223372036854775807 then some t else none
  let target : Option Nat :=
    match p with
    | .cur x => (i64 ((f.offset : Int) + x)).bind inU32
    | .start x => if x < 4294967296 then some x else none
    | .fromEnd x => match sizeOpt with
      | some s => (i64 ((s : Int) + x)).bind inU32
      | none => none
  match target with
  | none => .fail .invalidInput
  | some t =>
    let newOff := match sizeOpt with
      | some s => if t > s then s else t
      | none => t
    if newOff = f.offset then pure (f.offset, f)
    else
      let newC := clustersFromBytes fs newOff
      let oldC := clustersFromBytes fs f.offset
      if newOff = 0 then pure (0, { f with offset := 0, currentCluster := none })
      else if newC = oldC then pure (newOff, { f with offset := newOff })
      else match f.firstCluster with
        | some first => do
          let it : Table.CIter DiskSlice := { fat := fatSliceOf fs, cluster := some first }
          let (c, off) ← seekWalk fs (newC + 1) it first 0 (newC - 1) newOff
          pure (off, { f with offset := off, currentCluster := some c })
        | none => pure (0, { f with offset := 0, currentCluster := none })

/-- `File::truncate` -/
def truncate (f : FileH) : Prog FileH := do
  setDirtyFlag true            -- the volume is marked dirty before the size in the entry changes
  let fs ← Prog.getFs
  match f.entry with
  | none => .fail .panic
  | some e =>
    let e := e.setSize f.offset
    let e := if f.offset = 0 then e.setFirstCluster none fs.fatType else e
    let f := { f with entry := some e }
    match f.currentCluster with
    | some cur => do
      if f.offset = 0 then .fail .panic   -- debug_assert!(self.offset > 0)
      else do
        truncateClusterChain cur
        pure f
    | none =>
      if f.offset ≠ 0 then .fail .panic   -- debug_assert!(self.offset == 0)
      else match f.firstCluster with
        | some n => do
          freeClusterChain n
          pure { f with firstCluster := none }
        | none => pure f

/-- `File::extents`: `once(first).chain(cluster_iter(first))`, each mapped to (offset, size) -/
def extentsLoop (fs : FsState) : Nat → Table.CIter DiskSlice → Nat → List (Nat × Nat) → Prog (List (Nat × Nat))
  | 0, _, _, _ => .fail .hang
  | k + 1, it, left, acc => do
    let (r, it) ← Table.CIter.next DiskSlice.strm fs.fatType it
    match r with
    | none => pure acc
    | some (.error e) => .fail e
    | some (.ok c) =>
      let sz := min fs.clusterSize left
      let off ← offsetFromClusterP fs c
      extentsLoop fs k it (left - sz) (acc ++ [(off, sz)])

def extents (f : FileH) : Prog (List (Nat × Nat)) := do
  let fs ← Prog.getFs
  match f.size?, f.firstCluster with
  | some left, some first => do
    let sz := min fs.clusterSize left
    let off ← offsetFromClusterP fs first
    let it : Table.CIter DiskSlice := { fat := fatSliceOf fs, cluster := some first }
    extentsLoop fs (chainFuel fs) it (left - sz) [(off, sz)]
  | _, _ => pure []

def setCreated (f : FileH) (dt : DateTime) : FileH := { f with entry := f.entry.map (·.setCreated dt) }
def setAccessed (f : FileH) (d : Date) : FileH := { f with entry := f.entry.map (·.setAccessed d) }
def setModified (f : FileH) (dt : DateTime) : FileH := { f with entry := f.entry.map (·.setModified dt) }

def strm : Strm FileH where
  read := read
  write := write
  seek := seek
  eofErr := .eof
  wzErr := .writeZero

end FileH
end FatVerif
