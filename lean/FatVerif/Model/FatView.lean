import FatVerif.Model.FatCodec
/-!
# The decoded view of a FAT and the view-level algorithms

`view ft f c` is what `read_fat` returns for cluster `c`. The inductive theorems about allocation and chains are
stated on views (`Nat → FatValue`); `Proofs/FatSim.lean` ties the byte-level algorithms to these.
-/
namespace FatVerif.Fat

/-- decoded FAT: `c ↦ get c`. An entry that cannot be read (outside the bytes) shows as `bad`:
    never free, never a link. -/
def view (ft : FatType) (f : Array Nat) : Nat → FatValue :=
  fun c => match get ft f c with
    | .ok v => v
    | .error _ => .bad

/-- `Function.update` on views -/
def updV (g : Nat → FatValue) (c : Nat) (v : FatValue) : Nat → FatValue :=
  fun i => if i = c then v else g i

/-- first free cluster in `[s, s+len)` -/
def findFreeV (g : Nat → FatValue) (s : Nat) : Nat → Option Nat
  | 0 => none
  | len + 1 => if g s = .free then some s else findFreeV g (s + 1) len

/-- start of the first scan (`Some(n) if n < end_cluster => n, _ => 2`) -/
def allocStartV (hint : Option Nat) (total : Nat) : Nat :=
  match hint with
  | some n => if n < total + 2 then n else 2
  | none => 2

/-- the two scans of `alloc_cluster`: `[start, total+2)` then `[2, start)` -/
def allocFindV (g : Nat → FatValue) (hint : Option Nat) (total : Nat) : Option Nat :=
  match findFreeV g (allocStartV hint total) (total + 2 - allocStartV hint total) with
  | some c => some c
  | none => if allocStartV hint total > 2 then findFreeV g 2 (allocStartV hint total - 2) else none

/-- the two writes of `alloc_cluster`: `c := EOC`, then `prev := Data c` -/
def allocLinkV (g : Nat → FatValue) (prev : Option Nat) (c : Nat) : Nat → FatValue :=
  match prev with
  | some p => updV (updV g c .eoc) p (.data c)
  | none => updV g c .eoc

/-- `alloc_cluster` on the view: the new cluster and the new view, `none` = NotEnoughSpace -/
def allocV (g : Nat → FatValue) (prev hint : Option Nat) (total : Nat) : Option (Nat × (Nat → FatValue)) :=
  match allocFindV g hint total with
  | some c => some (c, allocLinkV g prev c)
  | none => none

/-- `get_next_cluster` on the view -/
def nextV (g : Nat → FatValue) (c : Nat) : Option Nat :=
  match g c with
  | .data n => some n
  | _ => none

/-- `ClusterIterator::free` on the view (no read errors): `none` = out of fuel -/
def freeChainV (g : Nat → FatValue) : Option Nat → Nat → Nat → Option (Nat × (Nat → FatValue))
  | none, _, cnt => some (cnt, g)
  | some _, 0, _ => none
  | some c, fuel + 1, cnt => freeChainV (updV g c .free) (nextV g c) fuel (cnt + 1)

/-- `ClusterIterator::truncate` on the view -/
def truncateChainV (g : Nat → FatValue) (c fuel : Nat) : Option (Nat × (Nat → FatValue)) :=
  freeChainV (updV g c .eoc) (nextV g c) fuel 0

/-- number of free entries in `[2, total+2)` -/
def countFreeV (g : Nat → FatValue) (total : Nat) : Nat :=
  (List.range total).countP (fun i => g (i + 2) = .free)

/-- `Chain g c cs`: following `data` links from `c` visits exactly `cs` (starting with `c`) and stops at the first
    non-`data` entry -/
inductive Chain (g : Nat → FatValue) : Nat → List Nat → Prop
  | last (c : Nat) : (∀ n, g c ≠ .data n) → Chain g c [c]
  | cons (c n : Nat) (cs : List Nat) : g c = .data n → Chain g n cs → Chain g c (c :: cs)

end FatVerif.Fat
