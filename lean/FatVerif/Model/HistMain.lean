import Std.Data.HashMap
import Std.Data.HashSet
import FatVerif.Model.Api
/-! `fatmodel hist`: consume traces of operation histories (see /verif/ARCH.md), run the model on the same operations,
    compare results / listing rows / write+flush log / image bytes / device-call counts / fault outcome, and hand every
    completed operation to the property oracles (evaluated on what the IMPLEMENTATION did). -/
namespace FatVerif.HistMain

open Util

/-- what the implementation did during one operation, as recorded in the trace -/
structure ImplOp where
  seq : String := ""
  text : String := ""              -- the op text after `O <seq> `
  log : List LogItem := []         -- newest first
  fault : Option (Nat × String × Bool) := none
  counts : Option (List Nat) := none
  res : List String := []          -- tokens after `R <seq>`
  rows : List String := []
  krows : List String := []
  rawWrites : List (Nat × List Nat) := []

inductive Parsed where
  | api (op : ApiOp)
  | raw (n : Nat)
  | root (d : Nat)
  | crashprobe (path : String)
  | unknown

def handleId (s : String) : Option Nat := (s.drop 1).toString.toNat?

def textOf (hex : String) : Option String := (bytesOfHex hex).bind stringOfUtf8

def parseFormat (args : List String) : Option Format.FormatOpts := do
  let g := fun k => kv args k
  let bps ← (← g "bps").toNat?
  let total ← optNatOf (← g "total")
  let bpc ← optNatOf (← g "bpc")
  let fat ← optNatOf (← g "fat")
  let root ← (← g "root").toNat?
  let fats ← (← g "fats").toNat?
  let media ← (← g "media").toNat?
  let volid ← (← g "volid").toNat?
  let lbl ← g "label"
  let label ← if lbl = "none" then some none else (bytesOfHex lbl).map some
  let spt ← (← g "spt").toNat?
  let heads ← (← g "heads").toNat?
  let drive ← optNatOf (← g "drive")
  pure { bps := bps, totalSectors := total, bpc := bpc, fatType := fat.map FatType.ofBits, rootEntries := root,
         fats := fats, media := media, spt := spt, heads := heads, driveNum := drive, volumeId := volid, label := label }

def payloadBytes (s : String) : Option (List Nat) :=
  if s.startsWith "z" then ((s.drop 1).toString.toNat?).map fun n => List.replicate n 0
  else bytesOfHex s

def parseOp (toks : List String) : Parsed :=
  let r : Option Parsed := match toks with
    | "format" :: args => (parseFormat args).map fun o => .api (.format o)
    | ["raw", n] => n.toNat?.map .raw
    | ["mount"] => some (.api .mount)
    | ["unmount"] => some (.api .unmount)
    | ["dropfs"] => some (.api .dropfs)
    | ["forget"] => some (.api .forget)
    | ["root", d] => (handleId d).map .root
    | ["open_dir", d, p, n] => do pure (.api (.openDir (← handleId d) (← textOf p) (← handleId n)))
    | ["create_dir", d, p, n] => do pure (.api (.createDir (← handleId d) (← textOf p) (← handleId n)))
    | ["open_file", d, p, n] => do pure (.api (.openFile (← handleId d) (← textOf p) (← handleId n)))
    | ["create_file", d, p, n] => do pure (.api (.createFile (← handleId d) (← textOf p) (← handleId n)))
    | ["remove", d, p] => do pure (.api (.remove (← handleId d) (← textOf p)))
    | ["rename", d, s, d2, t] => do pure (.api (.rename (← handleId d) (← textOf s) (← handleId d2) (← textOf t)))
    | ["list", d] => do pure (.api (.list (← handleId d)))
    | ["read", f, n] => do pure (.api (.read (← handleId f) (← n.toNat?)))
    | ["readx", f, n] => do pure (.api (.readx (← handleId f) (← n.toNat?)))
    | ["readall", f] => do pure (.api (.readall (← handleId f)))
    | ["write", f, h] => do pure (.api (.write (← handleId f) (← payloadBytes h)))
    | ["writeall", f, h] => do pure (.api (.writeall (← handleId f) (← payloadBytes h)))
    | ["seek", f, w, n] => do
      let k ← (if w = "start" then some SeekKind.start else if w = "cur" then some .cur
               else if w = "end" then some .fromEnd else none)
      pure (.api (.seek (← handleId f) k (← n.toInt?)))
    | ["truncate", f] => do pure (.api (.truncate (← handleId f)))
    | ["flush", f] => do pure (.api (.flush (← handleId f)))
    | ["dropf", f] => do pure (.api (.dropf (← handleId f)))
    | ["dropd", d] => do pure (.api (.dropd (← handleId d)))
    | ["set_created", f, y, m, d, h, mi, s, ms] => do
      pure (.api (.setCreated (← handleId f) (← y.toNat?) (← m.toNat?) (← d.toNat?) (← h.toNat?) (← mi.toNat?)
        (← s.toNat?) (← ms.toNat?)))
    | ["set_modified", f, y, m, d, h, mi, s, ms] => do
      pure (.api (.setModified (← handleId f) (← y.toNat?) (← m.toNat?) (← d.toNat?) (← h.toNat?) (← mi.toNat?)
        (← s.toNat?) (← ms.toNat?)))
    | ["set_accessed", f, y, m, d] => do
      pure (.api (.setAccessed (← handleId f) (← y.toNat?) (← m.toNat?) (← d.toNat?)))
    | ["extents", f] => do pure (.api (.extents (← handleId f)))
    | ["stats"] => some (.api .stats)
    | ["status"] => some (.api .status)
    | ["label"] => some (.api .label)
    | ["label_root"] => some (.api .labelRoot)
    | ["volid"] => some (.api .volid)
    | ["fattype"] => some (.api .fattype)
    | ["crashprobe", p] => (textOf p).map .crashprobe
    | ["crashprobe", p, _] => (textOf p).map .crashprobe
    | _ => none
  r.getD .unknown

/-- canonical `R` tokens of a model result -/
def resTokens : ApiRes → List String
  | .ok vals _ => "ok" :: vals
  | .err (.io k) => ["err", "1", toString k]
  | .err .panic => ["panic"]
  | .err .hang => ["hang"]
  | .err e => ["err", toString e.code]
  | .badScript => ["bad-script"]
  | .dead => ["dead"]

def resRows : ApiRes → List String
  | .ok _ rows => rows
  | _ => []

/-- per-run configuration -/
structure Config where
  prop : String := "-"
  proj : String := "calls"        -- api < image < writes < calls : how much is compared
  maxReport : Nat := 100
  /-- only the oracles run (no comparison with the model): for suites used by a property for its oracles alone -/
  nomodel : Bool := false
  upper : Std.HashMap Nat (List Nat) := {}

def projLevel (p : String) : Nat :=
  if p = "api" then 0 else if p = "image" then 1 else if p = "writes" then 2 else 3

/-- what an oracle sees of one completed operation -/
structure OpView where
  prop : String                 -- property under check (`--prop`)
  header : String               -- the `H` line of the history
  scenario : String
  cfgArgs : List String         -- the `cfg` tokens (`strict=1` …)
  io : ImplOp                   -- what the implementation did (op text, writes/flushes, fault, counts, result, rows)
  before : Img                  -- the implementation's image before the operation
  after : Img                   -- … and after it
  /-- pending 32-byte directory-entry records of live handles according to the MODEL session (absolute offset, bytes);
      `none` when the model is no longer following the implementation in this history -/
  overlay : Option (List (Nat × List Nat))
  /-- the upper-casing function of the executing build (`char::to_uppercase` table when `unicode=1`, ASCII otherwise) -/
  upper : Char → List Char := fun c => [c]
  /-- ground-truth lines (`G …`, without the leading `G `) the image builder emitted so far in this history -/
  ground : List String := []

/-- property oracles evaluated on the implementation's own behaviour, with per-history state `σ` -/
structure OracleDef (σ : Type) where
  init : String → σ                                   -- from the `H` line
  step : σ → OpView → σ × List String                 -- messages: "<Cxx> <signature> <detail>"

structure Hist (σ : Type) where
  header : String := ""
  id : String := ""
  scenario : String := ""
  cfgArgs : List String := []
  ground : List String := []
  ost : σ
  sess : Session
  implImg : Img
  pendingFault : Option Nat := none
  cur : Option ImplOp := none
  listRowsLeft : Nat := 0
  tracking : Bool := true          -- the model still follows the implementation in this history
  mismatched : Bool := false
  nontrivial : Bool := false
  ops : Nat := 0

structure Stats where
  hists : Nat := 0
  ops : Nat := 0
  compared : Nat := 0
  mismatches : Nat := 0            -- histories with a disagreement
  oracle : Nat := 0
  unknown : Nat := 0
  nontrivial : Nat := 0
  hashes : Std.HashSet UInt64 := {}
  branches : Std.HashMap String Nat := {}
  errKinds : Std.HashMap String Nat := {}
  reported : Nat := 0
  oreported : Nat := 0

def bump (m : Std.HashMap String Nat) (k : String) : Std.HashMap String Nat := m.insert k (m.getD k 0 + 1)

def upperOf (cfg : Config) (unicode : Bool) (c : Char) : List Char :=
  if c.toNat < 128 then [Char.ofNat (if 97 ≤ c.toNat ∧ c.toNat ≤ 122 then c.toNat - 32 else c.toNat)]
  else if !unicode then [c]
  else match cfg.upper[c.toNat]? with
    | some l => l.map Char.ofNat
    | none => [c]

def newSession (cfg : Config) (size : Nat) : Session :=
  { dev := { img := Img.empty size, clock := clockEpochStart }, env := ⟨upperOf cfg true⟩ }

def applyCfg (cfg : Config) (s : Session) (args : List String) : Session :=
  let b := fun k d => ((kv args k).bind boolOf).getD d
  let unicode := b "unicode" true
  { s with cfgStrict := b "strict" true, cfgAccDate := b "accdate" false, cfgAlloc := b "alloc" true,
           cfgUnicode := unicode, env := ⟨upperOf cfg unicode⟩,
           dev := { s.dev with tick := (kv args "clock") == some "tick" } }

def applyLog (img : Img) (log : List LogItem) : Img :=
  log.reverse.foldl (fun i it => match it with
    | .write off bs => i.write off bs
    | .flush => i) img

def logRanges (log : List LogItem) : List (Nat × Nat) :=
  log.filterMap fun it => match it with
    | .write off bs => some (off, bs.length)
    | .flush => none

def showLogItem : LogItem → String
  | .write off bs => s!"w {off} {hexOfBytes (bs.take 24)}{if bs.length > 24 then "…" else ""}({bs.length})"
  | .flush => "f"

def firstLogDiff (a b : List LogItem) : String :=
  let rec go : Nat → List LogItem → List LogItem → String
    | i, x :: xs, y :: ys => if x = y then go (i + 1) xs ys else s!"#{i} model:{showLogItem x} impl:{showLogItem y}"
    | i, x :: _, [] => s!"#{i} model:{showLogItem x} impl:<none>"
    | i, [], y :: _ => s!"#{i} model:<none> impl:{showLogItem y}"
    | _, [], [] => "same"
  go 0 a.reverse b.reverse

/-- net effect of the writes of one segment (chronological `(offset, bytes)` records): the maximal contiguous ranges of
    bytes written, each with the LAST value written to it, in ascending offset order -/
def segEffect (ws : List (Nat × List Nat)) : List LogItem :=
  let ws := ws.filter fun (_, bs) => !bs.isEmpty
  let sorted := ws.mergeSort fun a b => a.1 ≤ b.1
  -- do two records of the segment overlap?
  let rec overlaps : List (Nat × List Nat) → Bool
    | (o1, b1) :: (o2, b2) :: r => o1 + b1.length > o2 || overlaps ((o2, b2) :: r)
    | _ => false
  let pieces : List (Nat × List Nat) :=
    if !overlaps sorted then sorted
    else
      -- rare: some byte is written twice in the segment; replay byte by byte, last write wins
      let m : Std.HashMap Nat Nat := ws.foldl (fun m (off, bs) =>
        (bs.zipIdx.foldl (fun m (b, i) => m.insert (off + i) b) m)) {}
      (m.toList.mergeSort fun a b => a.1 ≤ b.1).map fun (o, b) => (o, [b])
  -- merge contiguous pieces
  let rec merge : List (Nat × List Nat) → Option (Nat × Nat × List (List Nat)) → List LogItem → List LogItem
    | [], none, acc => acc.reverse
    | [], some (off, _, ch), acc => (LogItem.write off ch.reverse.flatten :: acc).reverse
    | (o, bs) :: r, none, acc => merge r (some (o, o + bs.length, [bs])) acc
    | (o, bs) :: r, some (off, e, ch), acc =>
      if o = e then merge r (some (off, e + bs.length, bs :: ch)) acc
      else merge r (some (o, o + bs.length, [bs])) (LogItem.write off ch.reverse.flatten :: acc)
  merge pieces none []

/-- canonical form of a write/flush log for the `writes` projection (input newest first, output chronological): the log
    is cut at the flushes; each segment is replaced by its net effect (`segEffect`: which bytes end up with which
    value — the order of the writes inside a segment and the way a record is split into write calls are not observed);
    a flush that directly follows another flush is dropped. Kept: every byte written and its final value per segment,
    and the position of every write relative to the flushes. -/
def canonLog (log : List LogItem) : List LogItem :=
  let rec go : List LogItem → List (Nat × List Nat) → Bool → List LogItem → List LogItem
    | [], seg, _, acc => acc ++ segEffect seg.reverse
    | .flush :: r, seg, lastFlush, acc =>
      if seg.isEmpty && lastFlush then go r [] true acc
      else go r [] true (acc ++ segEffect seg.reverse ++ [.flush])
    | .write o bs :: r, seg, _, acc => go r ((o, bs) :: seg) false acc
  go log.reverse [] false []

/-- compare one completed operation; returns the mismatch description (kind, detail) if any -/
def compareOp (cfg : Config) (model : ApiRes) (mdev : Dev) (mimgAfter implAfter : Img) (io : ImplOp) :
    Option (String × String) :=
  let lvl := projLevel cfg.proj
  let mres := resTokens model
  -- an operation run under an injected fault is not compared with the model: the fault is addressed by its
  -- device-call index, which a behaviour-preserving change of the call pattern shifts; what the property demands of
  -- such an operation (the error surfaces as Io unless it fired inside a destructor, no panic, no hang) is checked on
  -- the implementation's own result by the C09 oracle, and for the model it is a theorem (Props/C09, C09wview)
  if io.fault.isSome then none
  else if mres ≠ io.res then some ("ret", s!"model={" ".intercalate mres} impl={" ".intercalate io.res}")
  else if resRows model ≠ io.rows then
    let d := (resRows model).zip io.rows |>.find? fun (a, b) => a ≠ b
    some ("rows", match d with
      | some (a, b) => s!"model={a} impl={b}"
      | none => s!"model rows={(resRows model).length} impl rows={io.rows.length}")
  else if io.fault.isSome then none
  else
    let sameLog := mdev.log = io.log
    let imgDiff : Option Nat :=
      if sameLog then none else
      (logRanges mdev.log ++ logRanges io.log).findSome? fun (off, len) =>
        (List.range len).findSome? fun k =>
          if mimgAfter.getByte (off + k) ≠ implAfter.getByte (off + k) then some (off + k) else none
    if lvl ≥ 1 ∧ imgDiff.isSome then
      some ("image", s!"first differing byte at {imgDiff.getD 0}: model={mimgAfter.getByte (imgDiff.getD 0)} impl={implAfter.getByte (imgDiff.getD 0)}; log {firstLogDiff mdev.log io.log}")
    else if lvl ≥ 3 ∧ !sameLog then some ("writes", firstLogDiff mdev.log io.log)
    else if lvl = 2 ∧ !sameLog ∧ canonLog mdev.log ≠ canonLog io.log then
      some ("writes", firstLogDiff (canonLog mdev.log).reverse (canonLog io.log).reverse)
    else if lvl ≥ 3 then
      let mc := [mdev.reads, mdev.writes, mdev.seeks, mdev.flushes, mdev.callsInDrop]
      match io.counts with
      | some c => if c ≠ mc then some ("calls", s!"model={mc} impl={c}") else none
      | none => none
    else none

structure Ctx (σ : Type) where
  cfg : Config
  oracle : OracleDef σ

/-- dirty editors of the model's live handles -/
def overlayOf (s : Session) : List (Nat × List Nat) :=
  let fromFile (f : FileH) : Option (Nat × List Nat) :=
    match f.entry with
    | some e => if e.dirty then some (e.pos, e.data.serialize) else none
    | none => none
  (s.files.toList.filterMap fun (_, f) => fromFile f) ++
  (s.dirs.toList.filterMap fun (_, d) => match d with
    | .file f => fromFile f
    | .root _ => none)

def report (st : Stats) (cfg : Config) (line : String) : IO Stats := do
  if st.reported < cfg.maxReport then IO.println line
  return { st with reported := st.reported + 1 }

/-- finish the current operation of a history -/
def finishOp {σ : Type} (ctx : Ctx σ) (st : Stats) (h : Hist σ) (io : ImplOp) : IO (Stats × Hist σ) := do
  let cfg := ctx.cfg
  let toks := io.text.splitOn " "
  let parsed := parseOp toks
  let implBefore := h.implImg
  let implAfter := match parsed with
    | .raw _ => io.rawWrites.foldl (fun i (off, bs) => i.write off bs) h.implImg
    | _ => applyLog h.implImg io.log
  let mut st := { st with ops := st.ops + 1 }
  let mut h := { h with implImg := implAfter, ops := h.ops + 1 }
  let opName := toks.headD "?"
  st := { st with branches := bump st.branches (opName ++ "/" ++ (io.res.headD "?")) }
  if io.res.headD "" = "err" then
    st := { st with errKinds := bump st.errKinds (opName ++ "/err" ++ (io.res.getD 1 "?")) }
  if io.res.headD "" = "ok" ∧ !io.log.isEmpty then h := { h with nontrivial := true }
  -- model side
  if h.tracking then
    match parsed with
    | .unknown =>
      st := { st with unknown := st.unknown + 1 }
      h := { h with tracking := false }
      st ← report st cfg s!"UNKNOWN op || {h.header} op {io.seq} {io.text}"
    | .raw _ =>
      let img := io.rawWrites.foldl (fun i (off, bs) => i.write off bs) h.sess.dev.img
      h := { h with sess := { h.sess with dev := { h.sess.dev with img := img } } }
    | .root d =>
      if h.sess.mounted then
        h := { h with sess := { h.sess with dirs := h.sess.dirs.insert d h.sess.root } }
      if io.res ≠ ["ok"] ∧ h.sess.mounted then
        st ← report st cfg s!"MISMATCH hist kind=ret model=ok impl={" ".intercalate io.res} || {h.header} op {io.seq} {io.text}"
        h := { h with tracking := false, mismatched := true }
    | .crashprobe _ => pure ()
    | .api op =>
      let s0 := { h.sess with dev := h.sess.dev.resetOp h.pendingFault }
      let (s1, res) := s0.step op
      st := { st with compared := st.compared + 1 }
      match compareOp cfg res s1.dev s1.dev.img implAfter io with
      | some (kind, detail) =>
        let cont := kind = "writes" ∨ kind = "calls"
        if !h.mismatched then
          st ← report st cfg s!"MISMATCH hist kind={kind} {detail} || {h.header} op {io.seq} {io.text}"
        h := { h with sess := s1, tracking := cont, mismatched := true }
      | none =>
        -- after an injected fault the model's post-state is not claimed to be exact: stop following
        h := { h with sess := s1, tracking := io.fault.isNone ∧ h.pendingFault.isNone }
  h := { h with pendingFault := none }
  -- property oracles on the implementation's own behaviour
  let view : OpView := { prop := cfg.prop, header := h.header, scenario := h.scenario, cfgArgs := h.cfgArgs, io := io,
                         before := implBefore, after := implAfter,
                         overlay := if h.tracking then some (overlayOf h.sess) else none,
                         upper := h.sess.env.upper, ground := h.ground }
  let (ost, msgs) := ctx.oracle.step h.ost view
  h := { h with ost := ost }
  for msg in msgs do
    if st.oreported < cfg.maxReport then
      IO.println s!"ORACLE {msg} || {h.header} op {io.seq} {io.text}"
    st := { st with oracle := st.oracle + 1, oreported := st.oreported + 1 }
  return (st, h)

def stripNl (line : String) : String := (line.dropEndWhile (fun c => c = '\n' || c = '\r')).toString

partial def loop {σ : Type} (ctx : Ctx σ) (inp : IO.FS.Stream) (st : Stats) (h? : Option (Hist σ)) : IO Stats := do
  let line ← inp.getLine
  if line.isEmpty then return st
  let line := stripNl line
  let toks := line.splitOn " "
  match toks, h? with
  | "H" :: id :: scen :: _, _ =>
    loop ctx inp { st with hists := st.hists + 1, hashes := st.hashes }
      (some { header := line, id := id, scenario := scen, ost := ctx.oracle.init line,
              sess := newSession ctx.cfg 0, implImg := Img.empty 0, tracking := !ctx.cfg.nomodel })
  | ["dev", sz], some h =>
    let n := sz.toNat?.getD 0
    loop ctx inp st (some { h with sess := newSession ctx.cfg n, implImg := Img.empty n })
  | "cfg" :: args, some h =>
    -- `nomodel=1`: the device of this history behaves in a way the model does not describe (short transfers);
    -- only the oracles run on it
    loop ctx inp st (some { h with sess := applyCfg ctx.cfg h.sess args, cfgArgs := args,
                                   tracking := h.tracking && Util.kv args "nomodel" != some "1" })
  | ["fault", k], some h => loop ctx inp st (some { h with pendingFault := k.toNat? })
  | "O" :: seq :: rest, some h =>
    loop ctx inp st (some { h with cur := some { seq := seq, text := " ".intercalate rest } })
  | ["w", off, pl], some h =>
    match h.cur, off.toNat?, payloadBytes pl with
    | some io, some o, some bs =>
      let io := if io.text.startsWith "raw" then { io with rawWrites := io.rawWrites ++ [(o, bs)] }
                else { io with log := .write o bs :: io.log }
      -- a `raw` op has no `R` line of its own when it is part of a script only; exec prints one — handled at `R`
      loop ctx inp st (some { h with cur := some io })
    | _, _, _ => loop ctx inp { st with unknown := st.unknown + 1 } (some h)
  | ["f"], some h =>
    loop ctx inp st (some { h with cur := h.cur.map fun io => { io with log := .flush :: io.log } })
  | ["x", k, kind, ind], some h =>
    loop ctx inp st (some { h with cur := h.cur.map fun io =>
      { io with fault := some (k.toNat?.getD 0, kind, ind = "1") } })
  | "c" :: nums, some h =>
    loop ctx inp st (some { h with cur := h.cur.map fun io => { io with counts := some (nums.map fun n => n.toNat?.getD 0) } })
  | "G" :: rest, some h => loop ctx inp st (some { h with ground := h.ground ++ [" ".intercalate rest] })
  | "K" :: rest, some h =>
    loop ctx inp st (some { h with cur := h.cur.map fun io => { io with krows := io.krows ++ [" ".intercalate rest] } })
  | "L" :: rest, some h =>
    match h.cur with
    | some io =>
      let io := { io with rows := io.rows ++ [" ".intercalate rest] }
      if h.listRowsLeft ≤ 1 then do
        let (st, h) ← finishOp ctx st { h with listRowsLeft := 0, cur := none } io
        loop ctx inp st (some h)
      else loop ctx inp st (some { h with cur := some io, listRowsLeft := h.listRowsLeft - 1 })
    | none => loop ctx inp st (some h)
  | "R" :: _ :: res, some h =>
    match h.cur with
    | some io =>
      let io := { io with res := res }
      -- a successful `list` is followed by its rows
      let nrows := if io.text.startsWith "list" ∧ res.headD "" = "ok" then (res.getD 1 "0").toNat?.getD 0 else 0
      if nrows > 0 then loop ctx inp st (some { h with cur := some io, listRowsLeft := nrows })
      else do
        let (st, h) ← finishOp ctx st { h with cur := none } io
        loop ctx inp st (some h)
    | none => loop ctx inp st (some h)
  | ["E"], some h =>
    let st := { st with mismatches := st.mismatches + (if h.mismatched then 1 else 0),
                        nontrivial := st.nontrivial + (if h.nontrivial then 1 else 0) }
    loop ctx inp st none
  | _, _ => loop ctx inp st h?

def loadUpper (path : String) : IO (Std.HashMap Nat (List Nat)) := do
  let txt ← IO.FS.readFile path
  let mut m : Std.HashMap Nat (List Nat) := {}
  for line in txt.splitOn "\n" do
    match (line.splitOn " ").filterMap (fun (t : String) => t.toNat?) with
    | c :: ups => if !ups.isEmpty then m := m.insert c ups
    | [] => pure ()
  return m

def parseArgs : List String → Config → Config
  | "--prop" :: p :: rest, c => parseArgs rest { c with prop := p }
  | "--proj" :: p :: rest, c => parseArgs rest { c with proj := p }
  | "--max-report" :: n :: rest, c => parseArgs rest { c with maxReport := n.toNat?.getD 100 }
  | "--nomodel" :: rest, c => parseArgs rest { c with nomodel := true }
  | _ :: rest, c => parseArgs rest c
  | [], c => c

def upperPath : List String → Option String
  | "--upper" :: p :: _ => some p
  | _ :: rest => upperPath rest
  | [] => none

def run {σ : Type} (args : List String) (oracle : OracleDef σ) : IO UInt32 := do
  let mut cfg := parseArgs args {}
  if let some p := upperPath args then
    cfg := { cfg with upper := (← loadUpper p) }
  let st ← loop ⟨cfg, oracle⟩ (← IO.getStdin) {} none
  for (k, v) in st.branches.toList do
    IO.println s!"BR {k} {v}"
  for (k, v) in st.errKinds.toList do
    IO.println s!"BR {k} {v}"
  IO.println s!"STAT ops {st.ops}"
  IO.println s!"STAT ops_compared {st.compared}"
  IO.println s!"SUMMARY cases={st.hists} mismatches={st.mismatches} oracle={st.oracle} unknown={st.unknown} distinct={st.hists} nontrivial={st.nontrivial}"
  return 0

end FatVerif.HistMain
