import FatVerif.Model.Util
/-!
Pure-probe suite `api` (harness/src/pure_api.rs): the glue of the public API that no operation history reaches —
`Display` / `std::error::Error` / `From<Error<io::Error>> for io::Error`, the `std::io` traits of `File`, the
`String` label accessors, `FsOptions::oem_cp_converter` with a custom code page, `DirIter: Clone`,
`NullTimeProvider`, `StdIoWrapper` conversions, the documented panics of the option builders and of
`DirEntry::to_file` / `to_dir`, and the FAT32 table entries 0x0FFFFFF0.. that exist only in a table of maximal size.

The model is the documented contract, written down as tables (plus the label decoding rule: trailing spaces trimmed,
bytes ≥ 0x80 shown as U+FFFD by the lossy code page).
-/
namespace FatVerif.ApiGlue
open FatVerif.Util

def errorText : Nat → Option String
  | 1 => some "IO error: device says no"
  | 2 => some "Unexpected end of file"
  | 3 => some "Write zero"
  | 4 => some "Invalid input"
  | 5 => some "No such file or directory"
  | 6 => some "File or directory already exists"
  | 7 => some "Directory is not empty"
  | 8 => some "Corrupted file system"
  | 9 => some "Not enough space"
  | 10 => some "Invalid file name length"
  | 11 => some "Unsupported file name character"
  | _ => none

/-- `std::io::ErrorKind` of the converted error: o Other (the device's own error is handed back), u UnexpectedEof,
    z WriteZero, v InvalidInput, n NotFound, a AlreadyExists, d InvalidData -/
def errorKind : Nat → Option String
  | 1 => some "o"
  | 2 => some "u"
  | 9 => some "u"
  | 3 => some "z"
  | 4 => some "v"
  | 7 => some "v"
  | 10 => some "v"
  | 11 => some "v"
  | 5 => some "n"
  | 6 => some "a"
  | 8 => some "d"
  | _ => none

/-- label as the `String` accessors show it: padding trimmed, lossy code page -/
def labelText (bs : List Nat) : String :=
  let trimmed := (bs.reverse.dropWhile (· == 32)).reverse
  hexOfBytes (trimmed.flatMap fun b => if b < 128 then [b] else [0xef, 0xbf, 0xbd])

def panics : List (String × Bool) := [
  ("bps_513", true), ("bps_256", true), ("bps_4096", false),
  ("bpc_256", true), ("bpc_768", true), ("bpc_512", false),
  ("fats_0", true), ("fats_3", true), ("fats_2", false),
  ("date_1979", true), ("date_2108", true), ("date_month_0", true), ("date_month_13", true),
  ("date_day_0", true), ("date_day_32", true), ("date_ok", false),
  ("time_hour_24", true), ("time_min_60", true), ("time_sec_60", true), ("time_ms_1000", true),
  ("to_file_on_dir", true), ("to_dir_on_file", true), ("to_dir_on_dir", false)]

def handle (fn : String) (args : List String) : Option String :=
  match fn, args with
  | "api.error_display", [c] => (c.toNat?.bind errorText).map fun t => hexOfBytes (utf8OfString t)
  | "api.error_to_io", [c] => c.toNat?.bind errorKind
  | "api.error_source", [c] => some (if c == "1" then "1" else "0")
  | "api.unit_ioerror", [] => some "0 1"
  | "api.stdio_file", [_] =>
    -- "hello " + 700 × 'A': write gives 6; seek back 703 from 706 → 3; read 8 → "lo AAAAA"; end 706; a seek before
    -- the start is InvalidInput; the whole file is 706 bytes
    some "6 3 8 6c6f204141414141 706 Some(\"v\") 706"
  | "api.labels", [bits, label] =>
    if label == "none" then some s!"4e4f204e414d45 none 2882339107 {bits} 512"
    else (bytesOfHex label).map fun bs => s!"{labelText bs} {labelText bs} 2882339107 {bits} 512"
  | "api.oem", [_] =>
    -- CAF\x82.T\x99T: lossy shows U+FFFD twice; the custom page maps byte b ≥ 0x80 to U+0400+b and finds the entry by
    -- that spelling; LossyOemCpConverter::encode knows ASCII only
    some "434146efbfbd2e54efbfbd54/434146efbfbd2e54efbfbd54 434146d2822e54d29954/434146d2822e54d29954 1 some:97 none 65533"
  | "api.diriter_clone", [_] => some "4f4e452e545854 54574f5749547e312e545854,5448524545 1"
  | "api.null_time", [] => some "1980-0-0 1980-0-0 0:0:0.0"
  | "api.glue", [] => some "010203 Start(7) End(-3) Current(5) End(-9)"
  | "api.panics", [c] => (panics.lookup c).map fun p => if p then "PANIC" else "ok"
  | "api.fat32_tail", [] =>
    -- entries 0,1 reserved (end-of-chain pattern), 2 free; everything from 0x0FFFFFF0 on is marked bad by format;
    -- a zero or an ordinary value in a special entry is reported as bad; freeing a special entry panics
    some "3:0,3:0,0:0,2:0,2:0,2:0,2:0,2:0,2:0,2:0,2:0,2:0,PANIC,PANIC"
  | _, _ => none

def oracle (_fn : String) (_args : List String) (_implOut : List String) : Option String := none

def branch (fn : String) (_args : List String) : String := fn

end FatVerif.ApiGlue
