import FatVerif.Model.File
import FatVerif.Model.Names
import FatVerif.Model.Lfn
/-! `dir.rs` (the effectful part): `DirRawStream`, `DirIter::read_dir_entry`, `find_entry`, `check_for_existence`,
    `open_*`, `create_*`, `remove`, `rename`, `find_free_entries`, `write_entry`; with Rust's drop points made
    explicit (clones of a cluster-chain directory are `File`s whose destructor flushes). -/
namespace FatVerif

/-- what the model needs from outside: the upper-casing function of the build (`char::to_uppercase` when the
    `unicode` feature is on, ASCII upper-casing otherwise) -/
structure Env where
  upper : Char → List Char

inductive DirStream where
  | file (f : FileH)
  | root (s : DiskSlice)
  deriving Repr, DecidableEq, Inhabited

namespace DirStream

def read : DirStream → Nat → Prog (List Nat × DirStream)
  | .file f, n => do let (bs, f) ← f.read n; pure (bs, .file f)
  | .root s, n => do let (bs, s) ← s.read n; pure (bs, .root s)

def write : DirStream → List Nat → Prog (Nat × DirStream)
  | .file f, bs => do let (n, f) ← f.write bs; pure (n, .file f)
  | .root s, bs => do let (n, s) ← s.write bs; pure (n, .root s)

def seek : DirStream → SeekFrom → Prog (Nat × DirStream)
  | .file f, p => do let (n, f) ← f.seek p; pure (n, .file f)
  | .root s, p => do let (n, s) ← s.seek p; pure (n, .root s)

def strm : Strm DirStream where
  read := read
  write := write
  seek := seek
  eofErr := .eof
  wzErr := .writeZero

def absPos (fs : FsState) : DirStream → Prog (Option Nat)
  | .file f => f.absPos fs
  | .root s => pure (some s.absPos)

def firstCluster : DirStream → Option Nat
  | .file f => f.firstCluster
  | .root _ => none

def isRootDir : DirStream → Bool
  | .file f => f.isRootDir
  | .root _ => true

/-- body of the destructor of a (clone of a) directory stream: `File::flush` for a cluster-chain directory -/
def dropBody : DirStream → Prog Unit
  | .file f => do let _ ← f.flush; pure ()
  | .root _ => pure ()

/-- explicit drop at a drop point -/
def drop (st : DirStream) : Prog Unit := Prog.inDrop st.dropBody

end DirStream

def liftE {α : Type} : Except Err α → Prog α
  | .ok a => pure a
  | .error e => .fail e

/-- run `body` on a clone `st0` of a stream; the clone (in its final state if `body` succeeded) is dropped when the
    scope is left, normally or by `?` -/
def withStream {α : Type} (st0 : DirStream) (body : Prog (α × DirStream)) : Prog α := do
  let (a, _) ← Prog.finallyDrop body (fun r =>
    match r with
    | some (_, st) => st.dropBody
    | none => st0.dropBody)
  pure a

/-- run `body`, then drop `st` (a temporary `Dir` living to the end of the statement) -/
def thenDrop {α : Type} (st : DirStream) (body : Prog α) : Prog α :=
  Prog.finallyDrop body (fun _ => st.dropBody)

/-- `DirEntry` -/
structure DirEntry where
  data : DirFileEntryData
  lfn : List Nat
  entryPos : Nat
  rangeBegin : Nat
  rangeEnd : Nat
  deriving Repr, DecidableEq, Inhabited

namespace DirEntry

def isDir (e : DirEntry) : Bool := e.data.isDir
def firstCluster (fs : FsState) (e : DirEntry) : Option Nat := e.data.firstCluster fs.fatType
def editor (e : DirEntry) : DirEntryEditor := DirEntryEditor.new e.data e.entryPos
def eqName (env : Env) (e : DirEntry) (name : String) : Bool := Names.eqName env.upper e.lfn e.data.name name.toList
def shortDisplay (e : DirEntry) : List Nat := (ShortName.new e.data.name).asBytes

/-- `to_file` (`assert!(!self.is_dir())`) -/
def toFile (fs : FsState) (e : DirEntry) : Prog FileH :=
  if e.isDir then .fail .panic else pure (FileH.new (e.firstCluster fs) (some e.editor))

end DirEntry

/-- `FileSystem::root_dir` -/
def rootDirStream (fs : FsState) : DirStream :=
  match fs.fatType with
  | .fat32 => .file (FileH.new (some fs.rootCluster) none)
  | _ => .root (rootSliceOf fs)

/-- `to_dir` (`assert!(self.is_dir())`) -/
def DirEntry.toDir (fs : FsState) (e : DirEntry) : Prog DirStream :=
  if !e.isDir then .fail .panic
  else match e.firstCluster fs with
    | some n => pure (.file (FileH.new (some n) (some e.editor)))
    | none => pure (rootDirStream fs)

/-! ### slot (de)serialisation on a stream -/

def fileTailChunks : List Nat := [1, 1, 2, 2, 2, 2, 2, 2, 2, 4]
def lfnTailChunks : List Nat := [1, 1, 2, 2, 2, 2, 2, 2, 2, 2, 2]
def lfnChunkSizes : List Nat := [1, 2, 2, 2, 2, 2, 1, 1, 1, 2, 2, 2, 2, 2, 2, 2, 2, 2]

/-- `DirEntryData::deserialize`: returns the 32 raw bytes (all zero for the "non-existing empty entry" at EOF) -/
def readSlot (st : DirStream) : Prog (List Nat × DirStream) := do
  let r ← Prog.tryCatch (do
      let (bs, st) ← readExact DirStream.strm st 11
      pure (some (bs, st)))
    (fun e => match e with
      | .eof => pure none
      | e => .fail e)
  match r with
  | none => pure (List.replicate 32 0, st)
  | some (name, st) => do
    let (attrs, st) ← readU8 DirStream.strm st
    let (tail, st) ← readChunks DirStream.strm st
      (if attrsIsLfn (attrsTruncate attrs) then lfnTailChunks else fileTailChunks) []
    pure (name ++ [attrs] ++ tail, st)

/-- `DirEntryData::serialize` of a decoded slot -/
def writeSlot (st : DirStream) (e : DirEntryData) : Prog DirStream :=
  match e with
  | .file f => writeChunks DirStream.strm st (chunksOf f.serialize FileH.entryChunkSizes)
  | .lfn l => writeChunks DirStream.strm st (chunksOf l.serialize lfnChunkSizes)

/-! ### `DirIter` -/

/-- `DirIter::read_dir_entry` -/
def readDirEntryLoop (alloc skipVolume : Bool) :
    Nat → DirStream → Nat → Nat → LongNameBuilder → Prog (Option DirEntry × DirStream)
  | 0, _, _, _, _ => .fail .hang
  | fuel + 1, st, offset, beginOff, b => do
    let (raw, st) ← readSlot st
    let offset := offset + 32
    let ed := DirEntryData.deserialize raw
    if ed.isEnd then pure (none, st)
    else if ed.isDeleted || (match ed with | .file f => skipVolume && f.isVolume | .lfn _ => false) then
      readDirEntryLoop alloc skipVolume fuel st offset offset (b.clear alloc)
    else match ed with
      | .file data => do
        let fs ← Prog.getFs
        let endAbs ← st.absPos fs
        match endAbs with
        | none => .fail .panic
        | some endAbs =>
          if endAbs < 32 then .fail .panic else
          pure (some { data := data, lfn := b.finish alloc data.name, entryPos := endAbs - 32,
                       rangeBegin := beginOff, rangeEnd := offset }, st)
      | .lfn _ => readDirEntryLoop alloc skipVolume fuel st offset beginOff (b.process alloc raw)

/-- fuel for directory scans: a directory cannot hold more slots than the volume has 32-byte units; capped by the
    u32 range of directory offsets -/
def dirFuel (fs : FsState) : Nat := (fs.totalClusters + 2) * (fs.clusterSize / 32) + fs.rootEntries + 64

def readDirEntry (skipVolume : Bool) (st : DirStream) : Prog (Option DirEntry × DirStream) := do
  let fs ← Prog.getFs
  let (offset, st) ← st.seek (.cur 0)
  readDirEntryLoop fs.lfnAlloc skipVolume (dirFuel fs) st offset offset (LongNameBuilder.new fs.lfnAlloc)

/-! ### lookups -/

/-- outcome of a lookup that is not an I/O failure -/
abbrev Lookup := Except Err DirEntry

/-- the `for r in self.iter()` loop of `find_entry` -/
def findEntryLoop (env : Env) (name : String) (isDir : Option Bool) :
    Nat → DirStream → Option Names.Gen → Prog ((Lookup × Option Names.Gen) × DirStream)
  | 0, _, _ => .fail .hang
  | fuel + 1, st, gen => do
    let (r, st) ← readDirEntry true st
    match r with
    | none => pure ((.error .notFound, gen), st)
    | some e =>
      if e.eqName env name then
        if isDir.isSome && some e.isDir != isDir then pure ((.error .invalidInput, gen), st)
        else pure ((.ok e, gen), st)
      else findEntryLoop env name isDir fuel st (gen.map fun g => Names.addExisting g e.data.name)

/-- `Dir::find_entry`: iterates over a clone of the directory stream (dropped on return) -/
def findEntryG (env : Env) (d : DirStream) (name : String) (isDir : Option Bool) (gen : Option Names.Gen) :
    Prog (Lookup × Option Names.Gen) := do
  let fs ← Prog.getFs
  withStream d (findEntryLoop env name isDir (dirFuel fs) d gen)

/-- `find_entry(..)?` -/
def findEntry (env : Env) (d : DirStream) (name : String) (isDir : Option Bool) : Prog DirEntry := do
  let (r, _) ← findEntryG env d name isDir none
  match r with
  | .ok e => pure e
  | .error e => .fail e

inductive EntryOrShort where
  | entry (e : DirEntry)
  | short (sn : List Nat)

/-- `check_for_existence` -/
def checkForExistenceLoop (env : Env) (d : DirStream) (name : String) (isDir : Option Bool) :
    Nat → Names.Gen → Prog EntryOrShort
  | 0, _ => .fail .hang
  | fuel + 1, gen => do
    let (r, gen') ← findEntryG env d name isDir (some gen)
    let gen := gen'.getD gen
    match r with
    | .ok e => pure (.entry e)
    | .error .notFound =>
      match Names.generate gen with
      | .ok sn => do
        -- the candidate must not be an existing long name in disguise: look its display form up
        -- (`str::from_utf8` of the display bytes cannot fail for a generated alias: all bytes are ASCII)
        let cand := String.ofList ((ShortName.new sn).asBytes.map Char.ofNat)
        if (ShortName.new sn).asBytes.all (· < 128) then do
          let (r2, _) ← findEntryG env d cand none none
          match r2 with
          | .error .notFound => pure (.short sn)
          | .error e => .fail e
          | .ok _ => checkForExistenceLoop env d name isDir fuel (Names.addExisting gen sn)
        else pure (.short sn)
      | .error _ => checkForExistenceLoop env d name isDir fuel (Names.nextIteration gen)
    | .error e => .fail e

def checkForExistence (env : Env) (d : DirStream) (name : String) (isDir : Option Bool) : Prog EntryOrShort :=
  match Names.new name with
  | .error e => .fail e
  | .ok gen => checkForExistenceLoop env d name isDir 70000 gen

/-! ### writing entries -/

/-- `find_free_entries`: scans a clone; the clone is RETURNED (positioned) on success, dropped on failure -/
def findFreeLoop (num : Nat) : Nat → DirStream → Nat → Nat → Nat → Prog DirStream
  | 0, _, _, _, _ => .fail .hang
  | fuel + 1, st, firstFree, numFree, i => do
    let (raw, st) ← readSlot st
    let ed := DirEntryData.deserialize raw
    if ed.isEnd then do
      let firstFree := if numFree = 0 then i else firstFree
      let (_, st) ← st.seek (.start (firstFree * 32))
      pure st
    else if ed.isDeleted then
      let firstFree := if numFree = 0 then i else firstFree
      let numFree := numFree + 1
      if numFree = num then do
        let (_, st) ← st.seek (.start (firstFree * 32))
        pure st
      else findFreeLoop num fuel st firstFree numFree (i + 1)
    else findFreeLoop num fuel st firstFree 0 (i + 1)

def findFreeEntries (d : DirStream) (num : Nat) : Prog DirStream := do
  let fs ← Prog.getFs
  -- on failure the clone is dropped
  Prog.finallyDrop (findFreeLoop num (dirFuel fs) d 0 0 0) (fun r =>
    match r with
    | some _ => pure ()
    | none => d.dropBody)

/-- `create_sfn_entry` (reads the clock once) -/
def createSfnEntry (sn : List Nat) (attrs : Nat) (first : Option Nat) : Prog DirFileEntryData := do
  let fs ← Prog.getFs
  let e := (DirFileEntryData.new sn attrs).setFirstCluster first fs.fatType
  let t ← Prog.now
  let now := clockDateTime t
  pure (((e.setCreated now).setAccessed now.date).setModified now)

/-- write the slots one by one; on a failure return the error together with the stream as it was before the failing
    slot (slots are 32-byte aligned inside clusters, so a slot either fails at its first byte or not at all) -/
def writeSlotsKeep : List DirEntryData → DirStream → Prog (Option Err × DirStream)
  | [], st => pure (none, st)
  | e :: rest, st => do
    let r ← Prog.attempt (writeSlot st e)
    match r with
    | .ok st' => writeSlotsKeep rest st'
    | .error err => pure (some err, st)

/-- `free_written_entries`: mark the slots from `startPos` up to the current position as deleted -/
def freeWrittenLoop : Nat → DirStream → Nat → Nat → Prog DirStream
  | 0, st, _, _ => pure st
  | k + 1, st, pos, endPos =>
    if pos < endPos then do
      let (_, st) ← st.seek (.start pos)
      let st ← writeAll DirStream.strm st [0xE5]
      freeWrittenLoop k st (pos + 32) endPos
    else pure st

def freeWrittenEntries (st : DirStream) (startPos : Nat) : Prog Unit := do
  let (endPos, st) ← st.seek (.cur 0)
  let _ ← freeWrittenLoop ((endPos - startPos) / 32 + 2) st startPos endPos
  pure ()

/-- `write_entry`; the positioned clone is dropped at the end — also when a slot cannot be written (its destructor
    writes the directory's own entry back if writing changed it, then flushes) -/
def writeEntry (d : DirStream) (name : String) (raw : DirFileEntryData) : Prog DirEntry := do
  match Names.validateLongName name with
  | .error e => .fail e
  | .ok () =>
    let fs ← Prog.getFs
    let units := Names.encodeUtf16 name.toList
    let isDot := name = "." || name = ".."
    let slots := if isDot then [] else lfnGenerate units (lfnChecksum raw.name)
    let st0 ← findFreeEntries d (slots.length + 1)
    let (startPos, st) ← Prog.finallyDrop (st0.seek (.cur 0)) (fun r =>
      match r with
      | some _ => pure ()
      | none => st0.dropBody)
    let (err, st) ← writeSlotsKeep (slots.map DirEntryData.deserialize ++ [.file raw]) st
    match err with
    | some e =>
      -- `free_written_entries(..)?`: the slots written so far are marked deleted (an error of the roll-back is
      -- returned instead), then the original error is returned; either way the clone is dropped
      thenDrop st (do
        freeWrittenEntries st startPos
        .fail e)
    | none =>
      thenDrop st (do
        let (endPos, st) ← st.seek (.cur 0)
        let endAbs ← st.absPos fs
        match endAbs with
        | none => .fail .panic
        | some endAbs =>
          pure { data := raw, lfn := units, entryPos := endAbs - 32, rangeBegin := startPos, rangeEnd := endPos })

/-- the slot-deleting loop shared by `remove` and `rename_internal` -/
def deleteSlots : Nat → DirStream → Prog DirStream
  | 0, st => pure st
  | k + 1, st => do
    let (raw, st) ← readSlot st
    let ed := (DirEntryData.deserialize raw).setDeleted
    let (_, st) ← st.seek (.cur (-32))
    let st ← writeSlot st ed
    deleteSlots k st

def deleteEntry (d : DirStream) (e : DirEntry) : Prog Unit :=
  withStream d (do
    let (_, st) ← d.seek (.start e.rangeBegin)
    let st ← deleteSlots ((e.rangeEnd - e.rangeBegin) / 32) st
    pure ((), st))

/-! ### public operations (path recursion bounded by the number of path components) -/

def pathFuel (path : String) : Nat := path.length + 2

/-- `Dir::open_dir`: returns the stream of the new `Dir` -/
def openDir (env : Env) : Nat → DirStream → String → Prog DirStream
  | 0, _, _ => .fail .hang
  | fuel + 1, d, path => do
    let fs ← Prog.getFs
    let (name, rest) := Names.splitPath path
    let e ← findEntry env d name (some true)
    let sub ← e.toDir fs
    match rest with
    | some rest => thenDrop sub (openDir env fuel sub rest)
    | none => pure sub

def openFile (env : Env) : Nat → DirStream → String → Prog FileH
  | 0, _, _ => .fail .hang
  | fuel + 1, d, path => do
    let fs ← Prog.getFs
    let (name, rest) := Names.splitPath path
    match rest with
    | some rest => do
      let e ← findEntry env d name (some true)
      let sub ← e.toDir fs
      thenDrop sub (openFile env fuel sub rest)
    | none => do
      let e ← findEntry env d name (some false)
      e.toFile fs

def createFile (env : Env) : Nat → DirStream → String → Prog FileH
  | 0, _, _ => .fail .hang
  | fuel + 1, d, path => do
    let fs ← Prog.getFs
    let (name, rest) := Names.splitPath path
    match rest with
    | some rest => do
      let e ← findEntry env d name (some true)
      let sub ← e.toDir fs
      thenDrop sub (createFile env fuel sub rest)
    | none =>
      if name = "." || name = ".." then .fail .invalidInput else do
      let r ← checkForExistence env d name (some false)
      match r with
      | .short sn => do
        let sfn ← createSfnEntry sn 0 none
        let e ← writeEntry d name sfn
        e.toFile fs
      | .entry e => e.toFile fs

def createDir (env : Env) : Nat → DirStream → String → Prog DirStream
  | 0, _, _ => .fail .hang
  | fuel + 1, d, path => do
    let fs ← Prog.getFs
    let (name, rest) := Names.splitPath path
    match rest with
    | some rest => do
      let e ← findEntry env d name (some true)
      let sub ← e.toDir fs
      thenDrop sub (createDir env fuel sub rest)
    | none => do
      let r ← checkForExistence env d name (some true)
      match r with
      | .short sn =>
        if name = "." || name = ".." then .fail .invalidInput else do
        liftE (Names.validateLongName name)
        let cluster ← allocClusterFs none true
        let sfn ← createSfnEntry sn ATTR_DIRECTORY (some cluster)
        -- the cluster is given back if the entry cannot be written
        let r ← Prog.attempt (writeEntry d name sfn)
        let entry ← (match r with
          | .ok entry => pure entry
          | .error err => do
            freeClusterChain cluster
            .fail err)
        let dir ← entry.toDir fs
        -- `dir` is dropped if one of the two dot entries cannot be written
        Prog.finallyDrop (do
            let dot ← createSfnEntry (46 :: List.replicate 10 32) ATTR_DIRECTORY (entry.firstCluster fs)
            let _ ← writeEntry dir "." dot
            let ddCluster := if d.isRootDir then none else d.firstCluster
            let dotdot ← createSfnEntry (46 :: 46 :: List.replicate 9 32) ATTR_DIRECTORY ddCluster
            let _ ← writeEntry dir ".." dotdot
            pure dir)
          (fun r => match r with
            | some _ => pure ()
            | none => dir.dropBody)
      | .entry e => e.toDir fs

/-- `Dir::is_empty` -/
def isEmptyLoop : Nat → DirStream → Prog (Bool × DirStream)
  | 0, _ => .fail .hang
  | fuel + 1, st => do
    let (r, st) ← readDirEntry true st
    match r with
    | none => pure (true, st)
    | some e =>
      if e.shortDisplay != [46] && e.shortDisplay != [46, 46] then pure (false, st)
      else isEmptyLoop fuel st

def isEmpty (d : DirStream) : Prog Bool := do
  let fs ← Prog.getFs
  withStream d (isEmptyLoop (dirFuel fs) d)

def remove (env : Env) : Nat → DirStream → String → Prog Unit
  | 0, _, _ => .fail .hang
  | fuel + 1, d, path => do
    let fs ← Prog.getFs
    let (name, rest) := Names.splitPath path
    match rest with
    | some rest => do
      let e ← findEntry env d name (some true)
      let sub ← e.toDir fs
      thenDrop sub (remove env fuel sub rest)
    | none =>
      if name = "." || name = ".." then .fail .invalidInput else do
      let e ← findEntry env d name none
      let nonEmpty ← (if e.isDir then do
          let sub ← e.toDir fs
          let emp ← thenDrop sub (isEmpty sub)
          pure (!emp)
        else pure false)
      if nonEmpty then .fail .dirNotEmpty
      else do
        match e.firstCluster fs with
        | some n => freeClusterChain n
        | none => pure ()
        deleteEntry d e

/-- the ancestor walk of `rename_internal`: `ancestor` starts as a clone of the destination directory and climbs
    through `..` to the root; every value of `ancestor` is dropped exactly once (at the re-assignment, at an early
    return, or at the end of the block) -/
def ancestorWalk (env : Env) (target : Option Nat) : Nat → DirStream → Nat → Prog Unit
  | 0, anc, _ => thenDrop anc (.fail .hang)
  | fuel + 1, anc, depth => do
    let fs ← Prog.getFs
    if anc.firstCluster == target then thenDrop anc (.fail .invalidInput)
    else if anc.isRootDir then anc.drop
    else if depth + 1 > fs.totalClusters then thenDrop anc (.fail .corrupted)
    else do
      let up ← Prog.finallyDrop (openDir env 4 anc "..") (fun r =>
        match r with
        | some _ => pure ()
        | none => anc.dropBody)
      anc.drop
      ancestorWalk env target fuel up (depth + 1)

def ancestorWalkTop (env : Env) (target : Option Nat) (dst : DirStream) : Prog Unit := do
  let fs ← Prog.getFs
  ancestorWalk env target (fs.totalClusters + 3) dst 0

/-- `rename_internal`: the new name is validated and a move of a directory into its own subtree refused before
    anything is changed; the new entry is written first, then the source slots are deleted (the clone used for that
    is flushed right away) and the `..` entry of a moved directory is pointed at its new parent -/
def renameInternal (env : Env) (d : DirStream) (srcName : String) (dst : DirStream) (dstName : String) : Prog Unit :=
  if srcName = "." || srcName = ".." || dstName = "." || dstName = ".." then .fail .invalidInput else do
  let fs ← Prog.getFs
  let e ← findEntry env d srcName none
  liftE (Names.validateLongName dstName)
  if e.isDir then ancestorWalkTop env (e.firstCluster fs) dst else pure ()
  let r ← checkForExistence env dst dstName none
  match r with
  | .entry dstE => if e.entryPos = dstE.entryPos then pure () else .fail .alreadyExists
  | .short sn => do
    let newEntry ← writeEntry dst dstName (e.data.renamed sn)
    -- the old slots are deleted only after the new entry is stored
    deleteEntry d e
    if newEntry.isDir then do
      let parentCluster := if dst.isRootDir then none else dst.firstCluster
      let moved ← newEntry.toDir fs
      let dotdot ← thenDrop moved (findEntry env moved ".." (some true))
      let ed := dotdot.editor.setFirstCluster parentCluster fs.fatType
      if ed.dirty then do
        let _ ← Prog.seekStart ed.pos
        let _ ← writeChunks devStrm () (chunksOf ed.data.serialize FileH.entryChunkSizes)
        pure ()
      else pure ()
    else pure ()

def rename (env : Env) : Nat → DirStream → String → DirStream → String → Prog Unit
  | 0, _, _, _, _ => .fail .hang
  | fuel + 1, d, srcPath, dst, dstPath => do
    let fs ← Prog.getFs
    let (srcName, srcRest) := Names.splitPath srcPath
    match srcRest with
    | some rest => do
      let e ← findEntry env d srcName (some true)
      let sub ← e.toDir fs
      thenDrop sub (rename env fuel sub rest dst dstPath)
    | none =>
      let (dstName, dstRest) := Names.splitPath dstPath
      match dstRest with
      | some rest => do
        let e ← findEntry env dst dstName (some true)
        let sub ← e.toDir fs
        thenDrop sub (rename env fuel d srcPath sub rest)
      | none => renameInternal env d srcName dst dstName

/-- the loop of a full listing (`for r in dir.iter()`) -/
def listLoop : Nat → DirStream → List DirEntry → Prog (List DirEntry × DirStream)
  | 0, _, _ => .fail .hang
  | fuel + 1, st, acc => do
    let (r, st) ← readDirEntry true st
    match r with
    | none => pure (acc.reverse, st)
    | some e => listLoop fuel st (e :: acc)

def listDir (d : DirStream) : Prog (List DirEntry) := do
  let fs ← Prog.getFs
  withStream d (listLoop (dirFuel fs) d [])

/-- `find_volume_entry` -/
def findVolumeLoop : Nat → DirStream → Prog (Option DirEntry × DirStream)
  | 0, _ => .fail .hang
  | fuel + 1, st => do
    let (r, st) ← readDirEntry false st
    match r with
    | none => pure (none, st)
    | some e => if e.data.isVolume then pure (some e, st) else findVolumeLoop fuel st

def findVolumeEntry (d : DirStream) : Prog (Option DirEntry) := do
  let fs ← Prog.getFs
  withStream d (findVolumeLoop (dirFuel fs) d)

end FatVerif
