import Std.Data.HashMap
import Std.Data.HashSet
import FatVerif.Model.Util
import FatVerif.Model.TimeDriver
import FatVerif.Model.NamesDriver
import FatVerif.Model.LfnDriver
import FatVerif.Model.BpbDriver
import FatVerif.Model.FormatDriver
import FatVerif.Model.FatDriver
import FatVerif.Model.CursorDriver
import FatVerif.Model.IoWrap
import FatVerif.Model.ApiGlue
/-! `fatmodel pure`: read `P` lines, compare the model with the implementation's recorded output, run oracles. -/
namespace FatVerif.PureMain

structure Suite where
  handle : String → List String → Option String
  oracle : String → List String → List String → Option String
  branch : String → List String → String

def suites : List Suite := [
  ⟨TimeDriver.handle, TimeDriver.oracle, TimeDriver.branch⟩,
  ⟨NamesDriver.handle, NamesDriver.oracle, NamesDriver.branch⟩,
  ⟨LfnDriver.handle, LfnDriver.oracle, LfnDriver.branch⟩,
  ⟨BpbDriver.handle, BpbDriver.oracle, BpbDriver.branch⟩,
  ⟨FormatDriver.handle, FormatDriver.oracle, FormatDriver.branch⟩,
  ⟨FatDriver.handle, FatDriver.oracle, FatDriver.branch⟩,
  ⟨CursorDriver.handle, CursorDriver.oracle, CursorDriver.branch⟩,
  ⟨IoWrap.handle, IoWrap.oracle, IoWrap.branch⟩,
  ⟨ApiGlue.handle, ApiGlue.oracle, ApiGlue.branch⟩]

def dispatch (fn : String) (args : List String) : Option (String × Suite) :=
  suites.findSome? fun s => (s.handle fn args).map fun r => (r, s)

structure Stats where
  cases : Nat := 0
  mismatches : Nat := 0
  oracle : Nat := 0
  unknown : Nat := 0
  hashes : Std.HashSet UInt64 := {}
  nontrivial : Std.HashSet UInt64 := {}
  branches : Std.HashMap String Nat := {}

/-- split a `P` line into (fn, args, implOut) -/
def parseLine (line : String) : Option (String × List String × List String) :=
  match line.splitOn " => " with
  | [lhs, rhs] =>
    match lhs.splitOn " " with
    | "P" :: fn :: args => some (fn, args, rhs.splitOn " ")
    | _ => none
  | _ => none

def stepLine (st : Stats) (line : String) (maxReport : Nat) : IO Stats := do
  match parseLine line with
  | none =>
    if line.startsWith "#" || line.isEmpty then return st
    IO.println s!"UNKNOWN malformed || {line}"
    return { st with unknown := st.unknown + 1 }
  | some (fn, args, implOut) =>
    let st := { st with cases := st.cases + 1, hashes := st.hashes.insert (hash line) }
    match dispatch fn args with
    | none =>
      if st.unknown < maxReport then IO.println s!"UNKNOWN {fn} || {line}"
      return { st with unknown := st.unknown + 1 }
    | some (modelOut, s) =>
      let br := fn ++ "/" ++ s.branch fn args
      let st := { st with branches := st.branches.insert br (st.branches.getD br 0 + 1) }
      let st := if (s.branch fn args).startsWith "triv" then st
                else { st with nontrivial := st.nontrivial.insert (hash line) }
      let st ← if modelOut ≠ " ".intercalate implOut then do
          if st.mismatches < maxReport then IO.println s!"MISMATCH {fn} model={modelOut} || {line}"
          pure { st with mismatches := st.mismatches + 1 }
        else pure st
      match s.oracle fn args implOut with
      | some msg =>
        if st.oracle < maxReport then IO.println s!"ORACLE {msg} || {line}"
        return { st with oracle := st.oracle + 1 }
      | none => return st

partial def loop (h : IO.FS.Stream) (st : Stats) (maxReport : Nat) : IO Stats := do
  let line ← h.getLine
  if line.isEmpty then return st
  let line := (line.dropEndWhile (fun c => c = '\n' || c = '\r')).toString
  let st ← stepLine st line maxReport
  loop h st maxReport

def run (maxReport : Nat := 200) : IO UInt32 := do
  let st ← loop (← IO.getStdin) {} maxReport
  for (k, v) in st.branches.toList do
    IO.println s!"BR {k} {v}"
  IO.println s!"SUMMARY cases={st.cases} mismatches={st.mismatches} oracle={st.oracle} unknown={st.unknown} distinct={st.hashes.size} nontrivial={st.nontrivial.size}"
  return 0

end FatVerif.PureMain
