import FatVerif.Model.DirAlias
import FatVerif.Spec.Tree
/-!
# A volume as a TREE OF SLOT LISTS — the path level of `dir.rs` on top of the one-directory algebra

`Model/DirSlots.lean` / `Model/DirAlias.lean` describe ONE directory as the list of its 32-byte slots.  This file
lifts that to whole paths: a volume is a rose tree whose directory nodes carry their slot list, and the six public
operations of `Dir` (`open_dir`, `open_file`, `create_file`, `create_dir`, `remove`, `rename`; plus the listing) are
defined by composing the EXISTING one-directory functions (`DirSlots.findEntry`, `DirAlias.checkForExistenceL`,
`DirSlots.writeEntry`, `DirSlots.deleteRange`) along the path, branch for branch in the order of `Model/DirOps.lean`
(= `/repo/src/dir.rs` after the fix commits):

* `split_path` is applied component by component (`pathParts` iterates `Names.splitPathL`);
* every non-final component is looked up with `find_entry(name, Some(true))` (`NotFound`, `InvalidInput` for a file);
* `create_file`: `.`/`..` as final component → `InvalidInput`; `check_for_existence(name, Some(false))`
  (existing file → returned, existing directory → `InvalidInput`); else `validate_long_name` (in `write_entry`), write;
* `create_dir`: `check_for_existence(name, Some(true))` first (existing directory → returned — that includes the dot
  entries of a subdirectory —, existing file → `InvalidInput`); generated alias and the name is `.`/`..` →
  `InvalidInput`; `validate_long_name`; write;
* `remove`: `.`/`..` → `InvalidInput`; `find_entry(name, None)`; a non-empty directory → `DirectoryIsNotEmpty`;
  delete the slot range;
* `rename`: source path walked first, then the destination path; `rename_internal`: any of the two final names is
  `.`/`..` → `InvalidInput`; `find_entry(src, None)`; `validate_long_name(dst)`; the ancestor check for a directory
  (`InvalidInput`); `check_for_existence(dst, None)` (same entry → nothing to do, another → `AlreadyExists`); the new
  entry (old body, new alias) is WRITTEN FIRST, then the old slot range is deleted.

## Representation and what is abstracted

* `Node.dir slots children`: `children : List (LfnEntry × Node)` is keyed by the listed entry (short slot, long-name
  units, slot range) the child hangs on.  The ORDER of `children` is ghost state (it is the order of creation; it
  makes the abstraction to `Spec.TNode` exact instead of "up to a permutation"); no outcome depends on it.  Lookups
  are always made in the SLOTS (`DirSlots.findEntry`), the child is then fetched by the entry found.
* `.` and `..` are implicit: the slot list of a subdirectory is what follows its two dot entries, and the model resolves
  `.` to the directory itself and `..` to the parent (what the two entries point to in a consistent volume; their
  clusters are C03 matter).  The root has no dot entries: there the model looks the name up like any other.
* A directory handle (`self`, `dst_dir`) is the canonical path (stored names from the root) of the directory; handles
  are resolved before anything is changed, as in the code.  The ancestor walk of `rename_internal` (climb through `..`
  comparing first clusters) is the test "the source directory's canonical path is a prefix of the destination
  directory's path".
* Out of scope here: clusters and free space (no `NotEnoughSpace`; a slot list grows as needed, a fixed FAT12/16 root
  never fills), timestamps and first-cluster fields (the 21 body bytes of a new short slot are the parameter `stamp`),
  I/O errors, file contents (files are created empty and never change).
* `fuel` bounds the alias loop of `check_for_existence` (the Rust loop is unbounded); `Err.hang` = fuel exhausted
  (`C16dir.dir_alias_terminates` gives a sufficient fuel).
-/
namespace FatVerif
namespace SlotTree
open Lfn DirSlots DirAlias

inductive Node where
  | file (content : List Nat)
  | dir (slots : List (List Nat)) (children : List (LfnEntry × Node))
  deriving Inhabited

namespace Node
def isDir : Node → Bool
  | .file _ => false
  | .dir _ _ => true
end Node

/-! ## names of listed entries -/

/-- `decode_utf16(..).collect::<Result<String>>()` -/
def allSome : List (Option Char) → Option (List Char)
  | [] => some []
  | none :: _ => none
  | some c :: r => (allSome r).map (c :: ·)

/-- the name an entry is known by: its long name if it has one that decodes, else the display form of its alias -/
def entryNameL (e : LfnEntry) : List Char :=
  if e.units.isEmpty then Names.aliasDisplay (sfnName e.sfn)
  else match allSome (Names.decodeUtf16 e.units) with
    | some long => long
    | none => Names.aliasDisplay (sfnName e.sfn)

def entryName (e : LfnEntry) : String := String.ofList (entryNameL e)

/-- names compared up to the build's case folding -/
def sameName (up : Char → List Char) (a b : String) : Bool := Names.fold up a.toList == Names.fold up b.toList

def isDotName (s : String) : Bool := s == "." || s == ".."

/-! ## lookup, navigation -/

/-- `find_entry(q, None)` in the slots, then the child hanging on the entry found -/
def lookupS (up : Char → List Char) (slots : List (List Nat)) (ch : List (LfnEntry × Node)) (q : String) :
    Option (LfnEntry × Node) :=
  match findEntry up slots q.toList with
  | none => none
  | some e => ch.find? fun x => x.1 == e

/-- node at a path of names -/
def getAtS (up : Char → List Char) : Node → List String → Option Node
  | n, [] => some n
  | .file _, _ :: _ => none
  | .dir slots ch, q :: rest =>
    match lookupS up slots ch q with
    | some x => getAtS up x.2 rest
    | none => none

/-- apply `f` to the node a path of names leads to -/
def updS (up : Char → List Char) (f : Node → Node) : List String → Node → Node
  | [], n => f n
  | _ :: _, .file c => .file c
  | q :: rest, .dir slots ch =>
    match findEntry up slots q.toList with
    | none => .dir slots ch
    | some e => .dir slots (ch.map fun x => if x.1 == e then (x.1, updS up f rest x.2) else x)

/-! ## paths -/

/-- `split_path` iterated: the directory components and the final component -/
def splitAll : Nat → List Char → List String × String
  | 0, p => ([], String.ofList (Names.splitPathL p).1)
  | fuel + 1, p =>
    match Names.splitPathL p with
    | (a, none) => ([], String.ofList a)
    | (a, some r) => (String.ofList a :: (splitAll fuel r).1, (splitAll fuel r).2)

def pathParts (path : String) : List String × String := splitAll path.toList.length path.toList

/-- one component from the directory with canonical path `cur` (a `find_entry` in that directory; `.`/`..` through
    the implicit dot entries of a subdirectory) -/
def stepCompS (up : Char → List Char) (root : Node) (cur : List String) (comp : String) :
    Except Err (List String × Node) :=
  match getAtS up root cur with
  | none => .error .notFound
  | some (.file _) => .error .notFound
  | some (.dir slots ch) =>
    if comp == "." && !cur.isEmpty then .ok (cur, .dir slots ch)
    else if comp == ".." && !cur.isEmpty then
      match getAtS up root cur.dropLast with
      | some p => .ok (cur.dropLast, p)
      | none => .error .notFound
    else
      match lookupS up slots ch comp with
      | some x => .ok (cur ++ [entryName x.1], x.2)
      | none => .error .notFound

/-- the non-final components: each `find_entry(name, Some(true))?.to_dir()` -/
def walkDirsS (up : Char → List Char) (root : Node) : List String → List String → Except Err (List String)
  | cur, [] =>
    match getAtS up root cur with
    | some (.dir _ _) => .ok cur
    | some (.file _) => .error .notFound
    | none => .error .notFound
  | cur, c :: rest =>
    match stepCompS up root cur c with
    | .error e => .error e
    | .ok (p, .dir _ _) => walkDirsS up root p rest
    | .ok (_, .file _) => .error .invalidInput

/-! ## results -/

structure Res where
  tree : Node
  /-- `ok rows`: rows (name, is directory) of a listing, `[]` for the other calls -/
  out : Except Err (List (String × Bool))

def fail (t : Node) (e : Err) : Res := ⟨t, .error e⟩
def done (t : Node) : Res := ⟨t, .ok []⟩

/-! ## node-level updates -/

/-- the listed entry the new child hangs on: the entry of the new listing whose short slot is the one just written
    (in a directory of well-formed shape that is `⟨sfn, units, p, p + n⟩` with `p` = where `find_free_entries` put the
    run: `SlotTree.addKey_eq`; in a foreign directory with an orphaned long-name slot right before `p` the reader
    attributes that slot to the new entry's range) -/
def addKey (slots : List (List Nat)) (units sfn : List Nat) : LfnEntry :=
  ((listing (writeEntry slots units sfn)).find? fun e =>
      e.endIdx == findFree slots (numParts units.length + 1) + (numParts units.length + 1)).getD
    ⟨sfn, units, findFree slots (numParts units.length + 1),
      findFree slots (numParts units.length + 1) + (numParts units.length + 1)⟩

/-- `write_entry` in this directory plus the new child -/
def addEntry (units sfn : List Nat) (child : Node) : Node → Node
  | .file c => .file c
  | .dir slots ch => .dir (writeEntry slots units sfn) (ch ++ [(addKey slots units sfn, child)])

/-- the delete loop over the slot range of `e`; the child goes with it -/
def delEntry (e : LfnEntry) : Node → Node
  | .file c => .file c
  | .dir slots ch => .dir (deleteRange slots e.beginIdx e.endIdx) (ch.filter fun x => !(x.1 == e))

/-- `ATTR_DIRECTORY` or none, then the 20 bytes (times, cluster, size) the environment supplies -/
def newBody (isDir : Bool) (stamp : List Nat) : List Nat := (if isDir then 16 else 0) :: stamp

def freshNode (isDir : Bool) : Node := if isDir then .dir [] [] else .file []

/-! ## the operations -/

def openS (up : Char → List Char) (t : Node) (cwd : List String) (path : String) (wantDir : Bool) : Res :=
  match walkDirsS up t cwd (pathParts path).1 with
  | .error e => fail t e
  | .ok p =>
    match stepCompS up t p (pathParts path).2 with
    | .error e => fail t e
    | .ok (_, n) => if n.isDir == wantDir then done t else fail t .invalidInput

/-- the final component of `create_file` / `create_dir` in the directory `slots` at canonical path `p` -/
def createFinal (up : Char → List Char) (fuel : Nat) (t : Node) (p : List String) (slots : List (List Nat))
    (name : String) (wantDir : Bool) (stamp : List Nat) : Res :=
  match checkForExistenceL up slots name (some wantDir) fuel with
  | .error e => fail t e
  | .ok (.entry _) => done t
  | .ok (.alias a) =>
    if isDotName name then fail t .invalidInput
    else match Names.validateLongName name with
      | .error e => fail t e
      | .ok () =>
        done (updS up (addEntry (Names.encodeUtf16 name.toList) (sfnWith a (newBody wantDir stamp)) (freshNode wantDir))
          p t)

def createS (up : Char → List Char) (fuel : Nat) (t : Node) (cwd : List String) (path : String) (wantDir : Bool)
    (stamp : List Nat) : Res :=
  match walkDirsS up t cwd (pathParts path).1 with
  | .error e => fail t e
  | .ok p =>
    match getAtS up t p with
    | some (.dir slots _) =>
      if isDotName (pathParts path).2 && !wantDir then fail t .invalidInput
      else if isDotName (pathParts path).2 && !p.isEmpty then done t
      else createFinal up fuel t p slots (pathParts path).2 wantDir stamp
    | _ => fail t .notFound

/-- `Dir::is_empty` of a child (its dot entries are implicit) -/
def nodeEmpty : Node → Bool
  | .file _ => true
  | .dir slots _ => (listing slots).isEmpty

def removeS (up : Char → List Char) (t : Node) (cwd : List String) (path : String) : Res :=
  match walkDirsS up t cwd (pathParts path).1 with
  | .error e => fail t e
  | .ok p =>
    match getAtS up t p with
    | some (.dir slots ch) =>
      if isDotName (pathParts path).2 then fail t .invalidInput
      else match lookupS up slots ch (pathParts path).2 with
        | none => fail t .notFound
        | some x =>
          if Lfn.isDir x.1.sfn && !nodeEmpty x.2 then fail t .dirNotEmpty
          else done (updS up (delEntry x.1) p t)
    | _ => fail t .notFound

/-- `a` is a prefix of `b`, names compared up to case -/
def prefixS (up : Char → List Char) : List String → List String → Bool
  | [], _ => true
  | _ :: _, [] => false
  | a :: as, b :: bs => sameName up a b && prefixS up as bs

/-- the same directory handle -/
def samePathS (up : Char → List Char) (a b : List String) : Bool := a.length == b.length && prefixS up a b

/-- what follows the source lookup and the validation of the new name in `rename_internal` -/
def renameFinal (up : Char → List Char) (fuel : Nat) (t : Node) (sp : List String) (e : LfnEntry) (c : Node)
    (dp : List String) (dslots : List (List Nat)) (dname : String) : Res :=
  if Lfn.isDir e.sfn && prefixS up (sp ++ [entryName e]) dp then fail t .invalidInput
  else match checkForExistenceL up dslots dname none fuel with
    | .error x => fail t x
    | .ok (.entry de) => if samePathS up sp dp && de == e then done t else fail t .alreadyExists
    | .ok (.alias a) =>
      done (updS up (delEntry e) sp
        (updS up (addEntry (Names.encodeUtf16 dname.toList) (renamedSfn e.sfn a) c) dp t))

def renameInternalS (up : Char → List Char) (fuel : Nat) (t : Node) (sp : List String) (sname : String)
    (dp : List String) (dname : String) : Res :=
  if isDotName sname || isDotName dname then fail t .invalidInput
  else match getAtS up t sp, getAtS up t dp with
    | some (.dir sslots sch), some (.dir dslots _) =>
      match lookupS up sslots sch sname with
      | none => fail t .notFound
      | some x =>
        match Names.validateLongName dname with
        | .error err => fail t err
        | .ok () => renameFinal up fuel t sp x.1 x.2 dp dslots dname
    | _, _ => fail t .notFound

def renameS (up : Char → List Char) (fuel : Nat) (t : Node) (cwd : List String) (src : String)
    (dcwd : List String) (dst : String) : Res :=
  match walkDirsS up t cwd (pathParts src).1 with
  | .error e => fail t e
  | .ok sp =>
    match walkDirsS up t dcwd (pathParts dst).1 with
    | .error e => fail t e
    | .ok dp => renameInternalS up fuel t sp (pathParts src).2 dp (pathParts dst).2

def listS (up : Char → List Char) (t : Node) (cwd : List String) : Res :=
  match getAtS up t cwd with
  | some (.dir slots _) => ⟨t, .ok ((listing slots).map fun e => (entryName e, Lfn.isDir e.sfn))⟩
  | _ => fail t .notFound

/-- one call; `stamp` = the 20 body bytes (times, first cluster, size) a creating call gives the new short slot -/
def stepSlot (up : Char → List Char) (fuel : Nat) (t : Node) (op : Spec.Op) (stamp : List Nat) : Res :=
  match op with
  | .createFile cwd p => createS up fuel t cwd p false stamp
  | .createDir cwd p => createS up fuel t cwd p true stamp
  | .openFile cwd p => openS up t cwd p false
  | .openDir cwd p => openS up t cwd p true
  | .list cwd => listS up t cwd
  | .remove cwd p => removeS up t cwd p
  | .rename cwd s d p => renameS up fuel t cwd s d p

/-- a history of calls: the outcomes in order and the final tree -/
def runSlot (up : Char → List Char) (fuel : Nat) : Node → List (Spec.Op × List Nat) → List Res × Node
  | t, [] => ([], t)
  | t, (op, stamp) :: rest =>
    ((stepSlot up fuel t op stamp) :: (runSlot up fuel (stepSlot up fuel t op stamp).tree rest).1,
      (runSlot up fuel (stepSlot up fuel t op stamp).tree rest).2)

/-! ## abstraction to the specification tree -/

def bytesOf (l : List Nat) : ByteArray := ⟨(l.map UInt8.ofNat).toArray⟩

mutual
/-- names (case-preserving), kinds and file contents -/
def abs : Node → Spec.TNode
  | .file c => .file (bytesOf c)
  | .dir _ ch => .dir (absCh ch)
def absCh : List (LfnEntry × Node) → List (String × Spec.TNode)
  | [] => []
  | (e, c) :: rest => (entryName e, abs c) :: absCh rest
end

end SlotTree
end FatVerif
